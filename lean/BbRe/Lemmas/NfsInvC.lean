import BbRe.Lemmas.NfsInvDefs
/-!
# Group C of the NFS core invariant: client records, hold counts, the idle list

`InvC` is preserved by every core action (`invC_apply`, `invC_applyAll`), holds
initially (`invC_init`); a held record survives every action (`held_survives`)
and is not in the idle list (`held_not_idle`).

Method: `InvCo s off` is `InvC s` with the hold-count equation shifted by an
integer offset per client id, `hold + off id = holdsOf s id`; it describes the
intermediate states of `holdBegin` / `holdEnd` / `ioBegin` / `ioEnd` / `touch`
(holder already appended / removed, record not yet updated).  Core Lean only.
-/
namespace BbRe.Lemmas.NfsInvC
open BbRe.NfsState BbRe.NfsShare BbRe.Lemmas.NfsInv

/-! ## List helpers -/

theorem countP_filter_tag {α : Type} (tagf : α → Nat) (p : α → Bool) (x : α) :
    ∀ (l : List α), x ∈ l → (l.map tagf).Nodup →
      (l.filter (fun y => tagf y != tagf x)).countP p + (if p x then 1 else 0) = l.countP p := by
  intro l
  induction l with
  | nil => intro hx; cases hx
  | cons a l ih =>
    intro hx hnd
    rw [List.map_cons, List.nodup_cons] at hnd
    by_cases hax : a = x
    · subst hax
      have hself : l.filter (fun y => tagf y != tagf a) = l := by
        rw [List.filter_eq_self]
        intro b hb
        have : tagf b ≠ tagf a := by
          intro e
          exact hnd.1 (e ▸ List.mem_map_of_mem hb)
        simpa using this
      rw [List.filter_cons]
      simp only [bne_self_eq_false, Bool.false_eq_true, if_false, hself, List.countP_cons]
    · have hxl : x ∈ l := by
        rcases List.mem_cons.mp hx with e | e
        · exact absurd e.symm hax
        · exact e
      have hne : tagf a ≠ tagf x := by
        intro e
        exact hnd.1 (e ▸ List.mem_map_of_mem hxl)
      have hb : (tagf a != tagf x) = true := by simpa using hne
      rw [List.filter_cons]
      simp only [hb, if_true, List.countP_cons]
      have := ih hxl hnd.2
      omega

theorem nodup_map_filter {α : Type} (tagf : α → Nat) (q : α → Bool) (l : List α)
    (h : (l.map tagf).Nodup) : ((l.filter q).map tagf).Nodup :=
  List.Nodup.sublist (List.Sublist.map tagf List.filter_sublist) h

theorem nodup_map_snoc {α : Type} (tagf : α → Nat) (l : List α) (x : α)
    (h : (l.map tagf).Nodup) (hf : ∀ y ∈ l, tagf y ≠ tagf x) : ((l ++ [x]).map tagf).Nodup := by
  rw [List.map_append, List.nodup_append]
  refine ⟨h, by simp, ?_⟩
  intro a ha b hb
  simp only [List.map_cons, List.map_nil, List.mem_singleton] at hb
  subst hb
  obtain ⟨y, hy, rfl⟩ := List.mem_map.mp ha
  exact hf y hy

theorem uniq_id (l : List Client) (h : (l.map (·.id)).Nodup) :
    ∀ a ∈ l, ∀ b ∈ l, a.id = b.id → a = b := by
  induction l with
  | nil => intro a ha; cases ha
  | cons x l ih =>
    rw [List.map_cons, List.nodup_cons] at h
    intro a ha b hb e
    rcases List.mem_cons.mp ha with rfl | ha' <;> rcases List.mem_cons.mp hb with rfl | hb'
    · rfl
    · exact absurd (e ▸ List.mem_map_of_mem (f := (·.id)) hb') h.1
    · exact absurd (e ▸ List.mem_map_of_mem (f := (·.id)) ha') h.1
    · exact ih h.2 a ha' b hb' e

theorem getClient_some (s : State) (cl : Nat) (c : Client) (h : s.getClient cl = some c) :
    c ∈ s.clients ∧ c.id = cl := by
  unfold State.getClient at h
  refine ⟨List.mem_of_find?_eq_some h, ?_⟩
  have := List.find?_some h
  simpa using this

theorem getClient_none (s : State) (cl : Nat) (h : s.getClient cl = none) :
    ∀ c ∈ s.clients, c.id ≠ cl := by
  unfold State.getClient at h
  rw [List.find?_eq_none] at h
  intro c hc
  simpa using h c hc

/-! ## The shifted invariant -/

structure InvCo (s : State) (off : Nat → Int) : Prop where
  clNodup : (s.clients.map (·.id)).Nodup
  clLt : ∀ c ∈ s.clients, c.id < s.nextId
  holderTagNodup : (s.holders.map (·.tag)).Nodup
  ioTagNodupC : (s.ios.map (·.tag)).Nodup
  holdCount : ∀ c ∈ s.clients, (c.hold : Int) + off c.id = (holdsOf s c.id : Int)
  holderCl : ∀ h ∈ s.holders, ∃ c ∈ s.clients, c.id = h.cl
  ioCl : ∀ io ∈ s.ios, io.holds = true → ∃ c ∈ s.clients, c.id = io.cl
  idleNodup : s.idle.Nodup
  idleIff : ∀ id, id ∈ s.idle ↔ ∃ c ∈ s.clients, c.id = id ∧ c.hold = 0

theorem invCo_of_invC {s : State} (h : InvC s) : InvCo s (fun _ => 0) :=
  ⟨h.clNodup, h.clLt, h.holderTagNodup, h.ioTagNodupC,
   fun c hc => by have := h.holdCount c hc; omega,
   h.holderCl, h.ioCl, h.idleNodup, h.idleIff⟩

theorem invC_of_invCo {s : State} {off : Nat → Int} (h : InvCo s off) (h0 : ∀ id, off id = 0) : InvC s :=
  ⟨h.clNodup, h.clLt, h.holderTagNodup, h.ioTagNodupC,
   fun c hc => by have := h.holdCount c hc; have := h0 c.id; omega,
   h.holderCl, h.ioCl, h.idleNodup, h.idleIff⟩

theorem invCo_off {s : State} {off off' : Nat → Int} (h : InvCo s off) (h0 : ∀ id, off' id = off id) :
    InvCo s off' :=
  ⟨h.clNodup, h.clLt, h.holderTagNodup, h.ioTagNodupC,
   fun c hc => by have := h.holdCount c hc; have := h0 c.id; omega,
   h.holderCl, h.ioCl, h.idleNodup, h.idleIff⟩

/-- `s'` agrees with `s` on everything group C talks about (`nextId` may grow). -/
def Frame (s s' : State) : Prop :=
  s'.clients = s.clients ∧ s'.idle = s.idle ∧ s'.holders = s.holders ∧ s'.ios = s.ios ∧
    s.nextId ≤ s'.nextId

theorem Frame.refl (s : State) : Frame s s := ⟨rfl, rfl, rfl, rfl, Nat.le_refl _⟩

theorem Frame.trans {a b c : State} (h1 : Frame a b) (h2 : Frame b c) : Frame a c := by
  obtain ⟨a1, a2, a3, a4, a5⟩ := h1
  obtain ⟨b1, b2, b3, b4, b5⟩ := h2
  exact ⟨b1.trans a1, b2.trans a2, b3.trans a3, b4.trans a4, Nat.le_trans a5 b5⟩

theorem holdsOf_frame {s s' : State} (hh : s'.holders = s.holders) (hio : s'.ios = s.ios) (id : Nat) :
    holdsOf s' id = holdsOf s id := by
  unfold holdsOf; rw [hh, hio]

theorem invCo_frame {s s' : State} {off : Nat → Int} (f : Frame s s') (h : InvCo s off) : InvCo s' off := by
  obtain ⟨hc, hi, hh, hio, hn⟩ := f
  refine ⟨hc ▸ h.clNodup, ?_, hh ▸ h.holderTagNodup, hio ▸ h.ioTagNodupC, ?_, ?_, ?_, hi ▸ h.idleNodup, ?_⟩
  · intro c hc'; rw [hc] at hc'; exact Nat.lt_of_lt_of_le (h.clLt c hc') hn
  · intro c hc'; rw [hc] at hc'; rw [holdsOf_frame hh hio]; exact h.holdCount c hc'
  · intro x hx; rw [hh] at hx; rw [hc]; exact h.holderCl x hx
  · intro x hx; rw [hio] at hx; rw [hc]; exact h.ioCl x hx
  · intro id; rw [hi, hc]; exact h.idleIff id

theorem frame_fail (s : State) (m : String) : Frame s (s.fail m) := ⟨rfl, rfl, rfl, rfl, Nat.le_refl _⟩
theorem frame_pushPend (s : State) (l : Nat) (m : Mask) : Frame s (s.pushPend l m) := by
  unfold State.pushPend; split
  · exact Frame.refl s
  · exact ⟨rfl, rfl, rfl, rfl, Nat.le_refl _⟩
theorem frame_modFile (s : State) (sid : Nat) (g : OFile → OFile) : Frame s (s.modFile sid g) :=
  ⟨rfl, rfl, rfl, rfl, Nat.le_refl _⟩
theorem frame_modPool (s : State) (file : Nat) (g : PoolEnt → PoolEnt) : Frame s (s.modPool file g) :=
  ⟨rfl, rfl, rfl, rfl, Nat.le_refl _⟩
theorem frame_gc (s : State) : Frame s s.gc := ⟨rfl, rfl, rfl, rfl, Nat.le_refl _⟩

/-! ## Actions that do not touch clients, idle list, holders, I/O records -/

macro "frame_tac" : tactic =>
  `(tactic| ((repeat' split) <;>
      first
      | exact Frame.refl _
      | exact frame_fail _ _
      | exact ⟨rfl, rfl, rfl, rfl, Nat.le_refl _⟩
      | exact ⟨rfl, rfl, rfl, rfl, Nat.le_succ _⟩
      | exact frame_pushPend _ _ _
      | exact Frame.trans (frame_modFile _ _ _) (frame_pushPend _ _ _)
      | exact Frame.trans (Frame.trans ⟨rfl, rfl, rfl, rfl, Nat.le_refl _⟩ (frame_modFile _ _ _)) (frame_pushPend _ _ _)))

theorem frame_tick (s : State) (d : Nat) : Frame s (Do.tick s d) := by unfold Do.tick; frame_tac
theorem frame_setNow (s : State) : Frame s (Do.setNow s) := by unfold Do.setNow; frame_tac
theorem frame_ooSet (s : State) (oo : OOwner) : Frame s (Do.ooSet s oo) := by unfold Do.ooSet; frame_tac
theorem frame_ooDel (s : State) (cl key : Nat) : Frame s (Do.ooDel s cl key) := by unfold Do.ooDel; frame_tac
theorem frame_loRegister (s : State) (cl key : Nat) : Frame s (Do.loRegister s cl key) := by
  unfold Do.loRegister; frame_tac
theorem frame_loPrune (s : State) (id : Nat) : Frame s (Do.loPrune s id) := by unfold Do.loPrune; frame_tac
theorem frame_loSet (s : State) (id lastSeq : Nat) (resp : Option (Nat × String × Nat × Nat)) :
    Frame s (Do.loSet s id lastSeq resp) := by unfold Do.loSet; frame_tac
theorem frame_vopen (s : State) (tag leaf : Nat) (m : Mask) (create trunc : Bool) :
    Frame s (Do.vopen s tag leaf m create trunc) := by unfold Do.vopen; frame_tac
theorem frame_tempClose (s : State) (tag : Nat) : Frame s (Do.tempClose s tag) := by
  unfold Do.tempClose; frame_tac
theorem frame_tempToPend (s : State) (tag : Nat) : Frame s (Do.tempToPend s tag) := by
  unfold Do.tempToPend; frame_tac
theorem frame_openNew (s : State) (tag cl owner : Nat) : Frame s (Do.openNew s tag cl owner) := by
  unfold Do.openNew; frame_tac
theorem frame_openUpgrade (s : State) (tag sid : Nat) : Frame s (Do.openUpgrade s tag sid) := by
  unfold Do.openUpgrade; frame_tac
theorem frame_downgradeOpen (s : State) (sid : Nat) (new : Mask) : Frame s (Do.downgradeOpen s sid new) := by
  unfold Do.downgradeOpen; frame_tac
theorem frame_addLofs (s : State) (sid lo : Nat) : Frame s (Do.addLofs s sid lo) := by
  unfold Do.addLofs; frame_tac
theorem frame_removeLofs (s : State) (sid lsid : Nat) : Frame s (Do.removeLofs s sid lsid) := by
  unfold Do.removeLofs; frame_tac
theorem frame_unlockAllLofs (s : State) (sid lsid : Nat) : Frame s (Do.unlockAllLofs s sid lsid) := by
  unfold Do.unlockAllLofs; frame_tac
theorem frame_lockSet (s : State) (sid lsid : Nat) (lk : BRL.Lock) : Frame s (Do.lockSet s sid lsid lk) := by
  unfold Do.lockSet; dsimp only; frame_tac
theorem frame_finalize (s : State) (sid : Nat) : Frame s (Do.finalize s sid) := by
  unfold Do.finalize; frame_tac
theorem frame_flush (s : State) : Frame s (Do.flush s) := by unfold Do.flush; frame_tac
theorem frame_setCur (s : State) (tag : Nat) : Frame s (Do.setCur s tag) := by unfold Do.setCur; frame_tac
theorem frame_setProto (s : State) (p : Proto) : Frame s (Do.setProto s p) := by unfold Do.setProto; frame_tac

/-! ## `modClient`, `holdClient`, `releaseClient` -/

theorem invCo_off_on {s : State} {off off' : Nat → Int} (h : InvCo s off)
    (h0 : ∀ c ∈ s.clients, off' c.id = off c.id) : InvCo s off' :=
  ⟨h.clNodup, h.clLt, h.holderTagNodup, h.ioTagNodupC,
   fun c hc => by have := h.holdCount c hc; have := h0 c hc; omega,
   h.holderCl, h.ioCl, h.idleNodup, h.idleIff⟩

/-- Changing the one record `c0` with id `cl` (and the idle list accordingly). -/
theorem invCo_mod (s : State) (off off' : Nat → Int) (cl : Nat) (g : Client → Client) (idle' : List Nat)
    (c0 : Client) (h : InvCo s off) (hc0 : c0 ∈ s.clients) (hc0id : c0.id = cl)
    (hid : (g c0).id = c0.id)
    (hhold : ((g c0).hold : Int) + off' cl = (c0.hold : Int) + off cl)
    (hoff : ∀ id, id ≠ cl → off' id = off id)
    (hnd : idle'.Nodup)
    (hidle : ∀ id, id ∈ idle' ↔ if id = cl then (g c0).hold = 0 else id ∈ s.idle) :
    InvCo ({ s.modClient cl g with idle := idle' }) off' := by
  have hf : ∀ c ∈ s.clients, (c.id = cl ∧ c = c0 ∧ (if c.id == cl then g c else c) = g c0) ∨
      (c.id ≠ cl ∧ (if c.id == cl then g c else c) = c) := by
    intro c hc
    by_cases e : c.id = cl
    · left
      have : c = c0 := uniq_id _ h.clNodup c hc c0 hc0 (e.trans hc0id.symm)
      subst this
      exact ⟨e, rfl, by simp [e]⟩
    · right; exact ⟨e, by simp [e]⟩
  have hfid : ∀ c ∈ s.clients, (if c.id == cl then g c else c).id = c.id := by
    intro c hc
    rcases hf c hc with ⟨_, rfl, e⟩ | ⟨_, e⟩
    · rw [e]; exact hid
    · rw [e]
  have hex : ∀ id, (∃ c ∈ s.clients, c.id = id) →
      ∃ c' ∈ s.clients.map (fun c => if c.id == cl then g c else c), c'.id = id := by
    intro id ⟨c, hc, e⟩
    exact ⟨_, List.mem_map_of_mem hc, (hfid c hc).trans e⟩
  refine ⟨?_, ?_, h.holderTagNodup, h.ioTagNodupC, ?_, ?_, ?_, hnd, ?_⟩
  · show ((s.clients.map (fun c => if c.id == cl then g c else c)).map (·.id)).Nodup
    rw [List.map_map]
    have : s.clients.map ((·.id) ∘ (fun c => if c.id == cl then g c else c)) = s.clients.map (·.id) :=
      List.map_congr_left (fun c hc => hfid c hc)
    rw [this]; exact h.clNodup
  · intro c' hc'
    obtain ⟨c, hc, rfl⟩ := List.mem_map.mp hc'
    rw [hfid c hc]; exact h.clLt c hc
  · intro c' hc'
    obtain ⟨c, hc, rfl⟩ := List.mem_map.mp hc'
    show ((if c.id == cl then g c else c).hold : Int) + off' _ = (holdsOf s _ : Int)
    rcases hf c hc with ⟨e, rfl, e2⟩ | ⟨e, e2⟩
    · rw [e2, hid, e]
      have := h.holdCount c hc
      rw [e] at this
      omega
    · rw [e2, hoff _ e]; exact h.holdCount c hc
  · intro x hx; exact hex _ (h.holderCl x hx)
  · intro x hx hh; exact hex _ (h.ioCl x hx hh)
  · intro id
    show id ∈ idle' ↔ ∃ c' ∈ s.clients.map (fun c => if c.id == cl then g c else c), c'.id = id ∧ c'.hold = 0
    rw [hidle id]
    by_cases e : id = cl
    · rw [if_pos e]
      constructor
      · intro hz
        refine ⟨g c0, ?_, hid.trans (hc0id.trans e.symm), hz⟩
        rcases hf c0 hc0 with ⟨_, _, e2⟩ | ⟨ne, _⟩
        · exact e2 ▸ List.mem_map_of_mem hc0
        · exact absurd hc0id ne
      · intro ⟨c', hc', e1, e2⟩
        obtain ⟨c, hc, rfl⟩ := List.mem_map.mp hc'
        rcases hf c hc with ⟨_, _, e3⟩ | ⟨ne, e3⟩
        · rw [e3] at e2; exact e2
        · rw [e3] at e1; exact absurd (e1.trans e) ne
    · rw [if_neg e, h.idleIff id]
      constructor
      · intro ⟨c, hc, e1, e2⟩
        rcases hf c hc with ⟨e3, _, _⟩ | ⟨_, e3⟩
        · exact absurd (e1.symm.trans e3) e
        · exact ⟨c, e3 ▸ List.mem_map_of_mem hc, e1, e2⟩
      · intro ⟨c', hc', e1, e2⟩
        obtain ⟨c, hc, rfl⟩ := List.mem_map.mp hc'
        rcases hf c hc with ⟨_, _, e3⟩ | ⟨_, e3⟩
        · rw [e3, hid, hc0id] at e1; exact absurd e1.symm e
        · rw [e3] at e1 e2; exact ⟨c, hc, e1, e2⟩

/-- `modClient` with a function that keeps `id` and `hold`. -/
theorem invCo_modClient_keep (s : State) (off : Nat → Int) (cl : Nat) (g : Client → Client)
    (hid : ∀ c, (g c).id = c.id) (hh : ∀ c, (g c).hold = c.hold) (h : InvCo s off) :
    InvCo (s.modClient cl g) off := by
  have hfid : ∀ c : Client, (if c.id == cl then g c else c).id = c.id := by
    intro c; split <;> simp [hid]
  have hfh : ∀ c : Client, (if c.id == cl then g c else c).hold = c.hold := by
    intro c; split <;> simp [hh]
  have hex : ∀ id, (∃ c ∈ s.clients, c.id = id) →
      ∃ c' ∈ s.clients.map (fun c => if c.id == cl then g c else c), c'.id = id := by
    intro id ⟨c, hc, e⟩
    exact ⟨_, List.mem_map_of_mem hc, (hfid c).trans e⟩
  refine ⟨?_, ?_, h.holderTagNodup, h.ioTagNodupC, ?_, ?_, ?_, h.idleNodup, ?_⟩
  · show ((s.clients.map (fun c => if c.id == cl then g c else c)).map (·.id)).Nodup
    rw [List.map_map]
    have : s.clients.map ((·.id) ∘ (fun c => if c.id == cl then g c else c)) = s.clients.map (·.id) :=
      List.map_congr_left (fun c _ => hfid c)
    rw [this]; exact h.clNodup
  · intro c' hc'
    obtain ⟨c, hc, rfl⟩ := List.mem_map.mp hc'
    rw [hfid c]; exact h.clLt c hc
  · intro c' hc'
    obtain ⟨c, hc, rfl⟩ := List.mem_map.mp hc'
    show ((if c.id == cl then g c else c).hold : Int) + off _ = (holdsOf s _ : Int)
    rw [hfid, hfh]; exact h.holdCount c hc
  · intro x hx; exact hex _ (h.holderCl x hx)
  · intro x hx hh; exact hex _ (h.ioCl x hx hh)
  · intro id
    show id ∈ s.idle ↔ ∃ c' ∈ s.clients.map (fun c => if c.id == cl then g c else c), c'.id = id ∧ c'.hold = 0
    rw [h.idleIff id]
    constructor
    · intro ⟨c, hc, e1, e2⟩
      exact ⟨_, List.mem_map_of_mem hc, (hfid c).trans e1, (hfh c).trans e2⟩
    · intro ⟨c', hc', e1, e2⟩
      obtain ⟨c, hc, rfl⟩ := List.mem_map.mp hc'
      rw [hfid] at e1; rw [hfh] at e2
      exact ⟨c, hc, e1, e2⟩

theorem not_idle_of_hold (s : State) (off : Nat → Int) (h : InvCo s off) (c0 : Client) (hc0 : c0 ∈ s.clients)
    (hpos : c0.hold ≠ 0) : c0.id ∉ s.idle := by
  intro hmem
  obtain ⟨c, hc, e1, e2⟩ := (h.idleIff _).mp hmem
  have := uniq_id _ h.clNodup c hc c0 hc0 e1
  subst this
  exact hpos e2

theorem invCo_holdClient (s : State) (off : Nat → Int) (cl : Nat) (h : InvCo s off) :
    InvCo (s.holdClient cl) (fun id => off id - if id = cl then 1 else 0) := by
  unfold State.holdClient
  split
  · rename_i hn
    have hno := getClient_none s cl hn
    exact invCo_off_on h (fun c hc => by simp [hno c hc])
  · rename_i c0 hs
    obtain ⟨hc0, hid0⟩ := getClient_some s cl c0 hs
    have key : (if c0.hold = 0 then { s with idle := s.idle.erase cl } else s).modClient cl
          (fun c => { c with hold := c.hold + 1 }) =
        { s.modClient cl (fun c => { c with hold := c.hold + 1 }) with
          idle := if c0.hold = 0 then s.idle.erase cl else s.idle } := by
      split <;> rfl
    show InvCo ((if c0.hold = 0 then { s with idle := s.idle.erase cl } else s).modClient cl
          (fun c => { c with hold := c.hold + 1 })) _
    rw [key]
    apply invCo_mod s off _ cl _ _ c0 h hc0 hid0 rfl
    · dsimp only; rw [if_pos rfl]; omega
    · intro id ne; simp [ne]
    · split
      · exact h.idleNodup.erase _
      · exact h.idleNodup
    · intro id
      by_cases e : id = cl
      · subst e
        rw [if_pos rfl]
        constructor
        · intro hm
          exfalso
          split at hm
          · exact h.idleNodup.not_mem_erase hm
          · rename_i hz
            exact not_idle_of_hold s off h c0 hc0 hz (hid0 ▸ hm)
        · intro hz; exact absurd hz (Nat.succ_ne_zero _)
      · rw [if_neg e]
        split
        · rw [h.idleNodup.mem_erase_iff]; simp [e]
        · exact Iff.rfl

theorem invCo_releaseClient (s : State) (off : Nat → Int) (cl : Nat) (h : InvCo s off) (hneg : off cl < 0) :
    InvCo (s.releaseClient cl) (fun id => off id + if id = cl then 1 else 0) := by
  unfold State.releaseClient
  split
  · rename_i hn
    have hno := getClient_none s cl hn
    exact invCo_off_on h (fun c hc => by simp [hno c hc])
  · rename_i c0 hs
    obtain ⟨hc0, hid0⟩ := getClient_some s cl c0 hs
    have hcnt := h.holdCount c0 hc0
    rw [hid0] at hcnt
    have hnot : cl ∉ s.idle := by
      have := not_idle_of_hold s off h c0 hc0 (by omega)
      rwa [hid0] at this
    split
    · omega
    · split
      · rename_i h1
        apply invCo_mod s off _ cl _ _ c0 h hc0 hid0 rfl
        · dsimp only; rw [if_pos rfl]; omega
        · intro id ne; simp [ne]
        · rw [List.nodup_append]
          refine ⟨h.idleNodup, by simp, ?_⟩
          intro a ha b hb
          simp only [List.mem_singleton] at hb
          subst hb
          intro e; exact hnot (e ▸ ha)
        · intro id
          by_cases e : id = cl
          · subst e; simp
          · simp [e]
      · rename_i hz h1
        have := invCo_mod s off (fun id => off id + if id = cl then 1 else 0) cl
          (fun c => { c with hold := c.hold - 1 }) s.idle c0 h hc0 hid0 rfl
          (by dsimp only; rw [if_pos rfl]; omega) (by intro id ne; simp [ne]) h.idleNodup
          (by
            intro id
            by_cases e : id = cl
            · subst e
              rw [if_pos rfl]
              constructor
              · intro hm; exact absurd hm hnot
              · intro hz; have hz' : c0.hold - 1 = 0 := hz; omega
            · rw [if_neg e])
        exact this

/-! ## Adding / removing a holder or an I/O record (client record not yet updated) -/

theorem holds_beq_false (x : IOrec) (id : Nat) (e : ¬(x.holds = true ∧ id = x.cl)) :
    (x.holds && x.cl == id) = false := by
  cases hx : x.holds
  · rfl
  · simp only [Bool.true_and, beq_eq_false_iff_ne, ne_eq]
    intro e'; exact e ⟨hx, e'.symm⟩

theorem invCo_addHolder (s s' : State) (off : Nat → Int) (x : Holder) (h : InvCo s off)
    (hc : s'.clients = s.clients) (hi : s'.idle = s.idle) (hh : s'.holders = s.holders ++ [x])
    (hio : s'.ios = s.ios) (hn : s.nextId ≤ s'.nextId)
    (hfresh : ∀ y ∈ s.holders, y.tag ≠ x.tag) (hex : ∃ c ∈ s.clients, c.id = x.cl) :
    InvCo s' (fun id => off id + if id = x.cl then 1 else 0) := by
  have hcount : ∀ id, holdsOf s' id = holdsOf s id + if id = x.cl then 1 else 0 := by
    intro id
    unfold holdsOf
    rw [hh, hio, List.countP_append, List.countP_singleton]
    by_cases e : id = x.cl
    · have e' : (x.cl == id) = true := by simp [e]
      rw [e', if_pos rfl, if_pos e]; omega
    · have e' : (x.cl == id) = false := by simp; exact fun e' => e e'.symm
      rw [e', if_neg e]; simp
  refine ⟨hc ▸ h.clNodup, ?_, ?_, hio ▸ h.ioTagNodupC, ?_, ?_, ?_, hi ▸ h.idleNodup, ?_⟩
  · intro c hc'; rw [hc] at hc'; exact Nat.lt_of_lt_of_le (h.clLt c hc') hn
  · rw [hh]; exact nodup_map_snoc _ _ _ h.holderTagNodup hfresh
  · intro c hc'; rw [hc] at hc'
    have h1 := h.holdCount c hc'
    have h2 := hcount c.id
    show (c.hold : Int) + (off c.id + if c.id = x.cl then 1 else 0) = (holdsOf s' c.id : Int)
    by_cases e : c.id = x.cl
    · rw [if_pos e] at h2 ⊢; omega
    · rw [if_neg e] at h2 ⊢; omega
  · intro y hy; rw [hh] at hy; rw [hc]
    rcases List.mem_append.mp hy with hy | hy
    · exact h.holderCl y hy
    · simp only [List.mem_singleton] at hy; subst hy; exact hex
  · intro y hy; rw [hio] at hy; rw [hc]; exact h.ioCl y hy
  · intro id; rw [hi, hc]; exact h.idleIff id

theorem invCo_addIo (s s' : State) (off : Nat → Int) (x : IOrec) (h : InvCo s off)
    (hc : s'.clients = s.clients) (hi : s'.idle = s.idle) (hh : s'.holders = s.holders)
    (hio : s'.ios = s.ios ++ [x]) (hn : s.nextId ≤ s'.nextId)
    (hfresh : ∀ y ∈ s.ios, y.tag ≠ x.tag) (hex : x.holds = true → ∃ c ∈ s.clients, c.id = x.cl) :
    InvCo s' (fun id => off id + if x.holds = true ∧ id = x.cl then 1 else 0) := by
  have hcount : ∀ id, holdsOf s' id = holdsOf s id + if x.holds = true ∧ id = x.cl then 1 else 0 := by
    intro id
    unfold holdsOf
    rw [hh, hio, List.countP_append, List.countP_singleton]
    by_cases e : x.holds = true ∧ id = x.cl
    · have e' : (x.holds && x.cl == id) = true := by simp [e.1, e.2]
      rw [e', if_pos rfl, if_pos e]; omega
    · rw [holds_beq_false x id e, if_neg e]; simp
  refine ⟨hc ▸ h.clNodup, ?_, hh ▸ h.holderTagNodup, ?_, ?_, ?_, ?_, hi ▸ h.idleNodup, ?_⟩
  · intro c hc'; rw [hc] at hc'; exact Nat.lt_of_lt_of_le (h.clLt c hc') hn
  · rw [hio]; exact nodup_map_snoc _ _ _ h.ioTagNodupC hfresh
  · intro c hc'; rw [hc] at hc'
    have h1 := h.holdCount c hc'
    have h2 := hcount c.id
    show (c.hold : Int) + (off c.id + if x.holds = true ∧ c.id = x.cl then 1 else 0) = (holdsOf s' c.id : Int)
    by_cases e : x.holds = true ∧ c.id = x.cl
    · rw [if_pos e] at h2 ⊢; omega
    · rw [if_neg e] at h2 ⊢; omega
  · intro y hy; rw [hh] at hy; rw [hc]; exact h.holderCl y hy
  · intro y hy; rw [hio] at hy; rw [hc]
    rcases List.mem_append.mp hy with hy | hy
    · exact h.ioCl y hy
    · simp only [List.mem_singleton] at hy; subst hy; exact hex
  · intro id; rw [hi, hc]; exact h.idleIff id

theorem invCo_removeHolder (s s' : State) (off : Nat → Int) (x : Holder) (h : InvCo s off)
    (hx : x ∈ s.holders)
    (hc : s'.clients = s.clients) (hi : s'.idle = s.idle)
    (hh : s'.holders = s.holders.filter (fun y => y.tag != x.tag))
    (hio : s'.ios = s.ios) (hn : s.nextId ≤ s'.nextId) :
    InvCo s' (fun id => off id - if id = x.cl then 1 else 0) := by
  have hcount : ∀ id, holdsOf s id = holdsOf s' id + if id = x.cl then 1 else 0 := by
    intro id
    unfold holdsOf
    rw [hh, hio]
    have := countP_filter_tag (·.tag) (fun y : Holder => y.cl == id) x s.holders hx h.holderTagNodup
    by_cases e : id = x.cl
    · have e' : (x.cl == id) = true := by simp [e]
      rw [e', if_pos rfl] at this
      rw [if_pos e]; omega
    · have e' : (x.cl == id) = false := by simp; exact fun e' => e e'.symm
      rw [e'] at this
      rw [if_neg e]; simp at this; omega
  refine ⟨hc ▸ h.clNodup, ?_, ?_, hio ▸ h.ioTagNodupC, ?_, ?_, ?_, hi ▸ h.idleNodup, ?_⟩
  · intro c hc'; rw [hc] at hc'; exact Nat.lt_of_lt_of_le (h.clLt c hc') hn
  · rw [hh]; exact nodup_map_filter _ _ _ h.holderTagNodup
  · intro c hc'; rw [hc] at hc'
    have h1 := h.holdCount c hc'
    have h2 := hcount c.id
    show (c.hold : Int) + (off c.id - if c.id = x.cl then 1 else 0) = (holdsOf s' c.id : Int)
    by_cases e : c.id = x.cl
    · rw [if_pos e] at h2 ⊢; omega
    · rw [if_neg e] at h2 ⊢; omega
  · intro y hy; rw [hh] at hy; rw [hc]; exact h.holderCl y (List.mem_filter.mp hy).1
  · intro y hy; rw [hio] at hy; rw [hc]; exact h.ioCl y hy
  · intro id; rw [hi, hc]; exact h.idleIff id

theorem invCo_removeIo (s s' : State) (off : Nat → Int) (x : IOrec) (h : InvCo s off)
    (hx : x ∈ s.ios)
    (hc : s'.clients = s.clients) (hi : s'.idle = s.idle) (hh : s'.holders = s.holders)
    (hio : s'.ios = s.ios.filter (fun y => y.tag != x.tag)) (hn : s.nextId ≤ s'.nextId) :
    InvCo s' (fun id => off id - if x.holds = true ∧ id = x.cl then 1 else 0) := by
  have hcount : ∀ id, holdsOf s id = holdsOf s' id + if x.holds = true ∧ id = x.cl then 1 else 0 := by
    intro id
    unfold holdsOf
    rw [hh, hio]
    have := countP_filter_tag (·.tag) (fun y : IOrec => y.holds && y.cl == id) x s.ios hx h.ioTagNodupC
    by_cases e : x.holds = true ∧ id = x.cl
    · have e' : (x.holds && x.cl == id) = true := by simp [e.1, e.2]
      rw [e', if_pos rfl] at this
      rw [if_pos e]; omega
    · rw [holds_beq_false x id e] at this
      rw [if_neg e]; simp at this; omega
  refine ⟨hc ▸ h.clNodup, ?_, hh ▸ h.holderTagNodup, ?_, ?_, ?_, ?_, hi ▸ h.idleNodup, ?_⟩
  · intro c hc'; rw [hc] at hc'; exact Nat.lt_of_lt_of_le (h.clLt c hc') hn
  · rw [hio]; exact nodup_map_filter _ _ _ h.ioTagNodupC
  · intro c hc'; rw [hc] at hc'
    have h1 := h.holdCount c hc'
    have h2 := hcount c.id
    show (c.hold : Int) + (off c.id - if x.holds = true ∧ c.id = x.cl then 1 else 0) = (holdsOf s' c.id : Int)
    by_cases e : x.holds = true ∧ c.id = x.cl
    · rw [if_pos e] at h2 ⊢; omega
    · rw [if_neg e] at h2 ⊢; omega
  · intro y hy; rw [hh] at hy; rw [hc]; exact h.holderCl y hy
  · intro y hy; rw [hio] at hy; rw [hc]; exact h.ioCl y (List.mem_filter.mp hy).1
  · intro id; rw [hi, hc]; exact h.idleIff id

/-! ## The actions on client records, holders and I/O records -/

theorem invC_frame {s s' : State} (f : Frame s s') (h : InvC s) : InvC s' :=
  invC_of_invCo (invCo_frame f (invCo_of_invC h)) (fun _ => rfl)

theorem holdsOf_pos_of_holder (s : State) (x : Holder) (hx : x ∈ s.holders) : 0 < holdsOf s x.cl := by
  unfold holdsOf
  have : 0 < s.holders.countP (fun h => h.cl == x.cl) :=
    List.countP_pos_iff.mpr ⟨x, hx, by simp⟩
  omega

theorem holdsOf_pos_of_io (s : State) (x : IOrec) (hx : x ∈ s.ios) (hh : x.holds = true) :
    0 < holdsOf s x.cl := by
  unfold holdsOf
  have : 0 < s.ios.countP (fun io => io.holds && io.cl == x.cl) :=
    List.countP_pos_iff.mpr ⟨x, hx, by simp [hh]⟩
  omega

theorem invC_newClient (s : State) (long ver : Nat) (h : InvC s) : InvC (Do.newClient s long ver) := by
  unfold Do.newClient
  split
  · exact h
  · dsimp only
    have hfresh : ∀ y ∈ s.clients, y.id ≠ s.nextId := fun y hy => Nat.ne_of_lt (h.clLt y hy)
    have hnoidle : s.nextId ∉ s.idle := by
      intro hm
      obtain ⟨c, hc, e, _⟩ := (h.idleIff _).mp hm
      exact hfresh c hc e
    have hzero : holdsOf s s.nextId = 0 := by
      unfold holdsOf
      have h1 : s.holders.countP (fun x => x.cl == s.nextId) = 0 := by
        rw [List.countP_eq_zero]
        intro x hx
        obtain ⟨c, hc, e⟩ := h.holderCl x hx
        have := hfresh c hc
        simp only [beq_iff_eq]; intro e'; exact this (e.trans e')
      have h2 : s.ios.countP (fun io => io.holds && io.cl == s.nextId) = 0 := by
        rw [List.countP_eq_zero]
        intro x hx
        simp only [Bool.and_eq_true, beq_iff_eq, not_and]
        intro hh e'
        obtain ⟨c, hc, e⟩ := h.ioCl x hx hh
        exact hfresh c hc (e.trans e')
      omega
    refine ⟨?_, ?_, h.holderTagNodup, h.ioTagNodupC, ?_, ?_, ?_, ?_, ?_⟩
    · exact nodup_map_snoc (fun c : Client => c.id) _ _ h.clNodup hfresh
    · intro c hc
      show c.id < s.nextId + 1
      rcases List.mem_append.mp hc with hc | hc
      · exact Nat.lt_succ_of_lt (h.clLt c hc)
      · simp only [List.mem_singleton] at hc; subst hc; exact Nat.lt_succ_self _
    · intro c hc
      show c.hold = holdsOf s c.id
      rcases List.mem_append.mp hc with hc | hc
      · exact h.holdCount c hc
      · simp only [List.mem_singleton] at hc; subst hc; exact hzero.symm
    · intro x hx
      obtain ⟨c, hc, e⟩ := h.holderCl x hx
      exact ⟨c, List.mem_append_left _ hc, e⟩
    · intro x hx hh
      obtain ⟨c, hc, e⟩ := h.ioCl x hx hh
      exact ⟨c, List.mem_append_left _ hc, e⟩
    · show (s.idle ++ [s.nextId]).Nodup
      rw [List.nodup_append]
      refine ⟨h.idleNodup, by simp, ?_⟩
      intro a ha b hb
      simp only [List.mem_singleton] at hb
      subst hb
      intro e; exact hnoidle (e ▸ ha)
    · intro id
      show id ∈ s.idle ++ [s.nextId] ↔ _
      rw [List.mem_append, h.idleIff id]
      constructor
      · rintro (⟨c, hc, e1, e2⟩ | hm)
        · exact ⟨c, List.mem_append_left _ hc, e1, e2⟩
        · simp only [List.mem_singleton] at hm
          exact ⟨_, List.mem_append_right _ (List.mem_singleton.mpr rfl), hm.symm, rfl⟩
      · rintro ⟨c, hc, e1, e2⟩
        rcases List.mem_append.mp hc with hc | hc
        · exact Or.inl ⟨c, hc, e1, e2⟩
        · simp only [List.mem_singleton] at hc; subst hc
          exact Or.inr (List.mem_singleton.mpr e1.symm)

theorem invC_touch (s : State) (cl : Nat) (h : InvC s) : InvC (Do.touch s cl) := by
  unfold Do.touch
  have h1 := invCo_holdClient s _ cl (invCo_of_invC h)
  have h2 := invCo_releaseClient _ _ cl h1 (by (try dsimp only); rw [if_pos rfl]; omega)
  exact invC_of_invCo h2 (fun id => by (try dsimp only); split <;> omega)

theorem invC_confirmClient (s : State) (cl : Nat) (h : InvC s) : InvC (Do.confirmClient s cl) := by
  unfold Do.confirmClient
  split
  · exact h
  · split
    · exact invC_frame (frame_fail _ _) h
    · exact invC_of_invCo (invCo_modClient_keep s _ cl _ (fun _ => rfl) (fun _ => rfl) (invCo_of_invC h))
        (fun _ => rfl)

theorem invC_addSession (s : State) (cl k : Nat) (h : InvC s) : InvC (Do.addSession s cl k) :=
  invC_of_invCo (invCo_modClient_keep s _ cl _ (fun _ => rfl) (fun _ => rfl) (invCo_of_invC h)) (fun _ => rfl)

theorem invC_delSession (s : State) (cl k : Nat) (h : InvC s) : InvC (Do.delSession s cl k) :=
  invC_of_invCo (invCo_modClient_keep s _ cl _ (fun _ => rfl) (fun _ => rfl) (invCo_of_invC h)) (fun _ => rfl)

theorem invC_dropClient_ok (s : State) (cl : Nat) (c0 : Client) (h : InvC s) (hc0 : c0 ∈ s.clients)
    (hid0 : c0.id = cl) (hz : c0.hold = 0) :
    InvC { s with clients := s.clients.filter (fun c => c.id != cl), idle := s.idle.erase cl } := by
  have hkeep : ∀ id, holdsOf s id ≠ 0 → (∃ c ∈ s.clients, c.id = id) →
      ∃ c ∈ s.clients.filter (fun c => c.id != cl), c.id = id := by
    intro id hpos ⟨c, hc, e⟩
    refine ⟨c, List.mem_filter.mpr ⟨hc, ?_⟩, e⟩
    simp only [bne_iff_ne, ne_eq]
    intro e'
    have : c = c0 := uniq_id _ h.clNodup c hc c0 hc0 (e'.trans hid0.symm)
    subst this
    have := h.holdCount c hc
    rw [e] at this
    omega
  refine ⟨?_, ?_, h.holderTagNodup, h.ioTagNodupC, ?_, ?_, ?_, ?_, ?_⟩
  · exact nodup_map_filter (fun c : Client => c.id) _ _ h.clNodup
  · intro c hc; exact h.clLt c (List.mem_filter.mp hc).1
  · intro c hc; exact h.holdCount c (List.mem_filter.mp hc).1
  · intro x hx
    exact hkeep _ (Nat.ne_of_gt (holdsOf_pos_of_holder s x hx)) (h.holderCl x hx)
  · intro x hx hh
    exact hkeep _ (Nat.ne_of_gt (holdsOf_pos_of_io s x hx hh)) (h.ioCl x hx hh)
  · exact h.idleNodup.erase _
  · intro id
    show id ∈ s.idle.erase cl ↔ ∃ c ∈ s.clients.filter (fun c => c.id != cl), c.id = id ∧ c.hold = 0
    rw [h.idleNodup.mem_erase_iff, h.idleIff id]
    constructor
    · rintro ⟨ne, c, hc, e1, e2⟩
      refine ⟨c, List.mem_filter.mpr ⟨hc, ?_⟩, e1, e2⟩
      simp only [bne_iff_ne, ne_eq]; rw [e1]; exact ne
    · rintro ⟨c, hc, e1, e2⟩
      obtain ⟨hc, hne⟩ := List.mem_filter.mp hc
      simp only [bne_iff_ne, ne_eq] at hne
      exact ⟨e1 ▸ hne, c, hc, e1, e2⟩

theorem invC_dropClient (s : State) (cl : Nat) (h : InvC s) : InvC (Do.dropClient s cl) := by
  unfold Do.dropClient
  split
  · exact h
  · rename_i c0 hs
    obtain ⟨hc0, hid0⟩ := getClient_some s cl c0 hs
    split
    · exact invC_frame (frame_fail _ _) h
    · rename_i hz
      split
      · exact invC_frame (frame_fail _ _) h
      · split
        · exact invC_frame (frame_fail _ _) h
        · split
          · exact invC_frame (frame_fail _ _) h
          · split
            · exact invC_frame (frame_fail _ _) h
            · exact invC_dropClient_ok s cl c0 h hc0 hid0 (by simpa using hz)

theorem invC_holdBegin (s : State) (tag cl : Nat) (h : InvC s) : InvC (Do.holdBegin s tag cl) := by
  unfold Do.holdBegin
  split
  · exact h
  · rename_i hg
    simp only [Bool.or_eq_true, not_or, Bool.not_eq_true, List.any_eq_false, beq_iff_eq] at hg
    obtain ⟨hsome, hfresh⟩ := hg
    have hex : ∃ c ∈ s.clients, c.id = cl := by
      cases hgc : s.getClient cl with
      | none => rw [hgc] at hsome; simp at hsome
      | some c0 => exact ⟨c0, getClient_some s cl c0 hgc⟩
    have h1 := invCo_addHolder s { s with holders := s.holders ++ [{ tag := tag, cl := cl }] } _
      { tag := tag, cl := cl } (invCo_of_invC h) rfl rfl rfl rfl (Nat.le_refl _) hfresh hex
    have h2 := invCo_holdClient _ _ cl h1
    exact invC_of_invCo h2 (fun id => by (try dsimp only); split <;> omega)

theorem invC_holdEnd (s : State) (tag : Nat) (h : InvC s) : InvC (Do.holdEnd s tag) := by
  unfold Do.holdEnd
  split
  · exact h
  · rename_i x hf
    have hx : x ∈ s.holders := List.mem_of_find?_eq_some hf
    have htag : x.tag = tag := by simpa using List.find?_some hf
    subst htag
    have h1 := invCo_removeHolder s { s with holders := s.holders.filter (fun y => y.tag != x.tag) } _
      x (invCo_of_invC h) hx rfl rfl rfl rfl (Nat.le_refl _)
    have h2 := invCo_releaseClient _ _ x.cl h1 (by (try dsimp only); rw [if_pos rfl]; omega)
    exact invC_of_invCo h2 (fun id => by (try dsimp only); split <;> omega)

theorem invC_ioBegin (s : State) (tag sid : Nat) (m : Mask) (holds : Bool) (h : InvC s) :
    InvC (Do.ioBegin s tag sid m holds) := by
  unfold Do.ioBegin
  split
  · exact h
  · rename_i f hf
    split
    · exact h
    · rename_i hg
      simp only [Bool.or_eq_true, not_or, Bool.not_eq_true, List.any_eq_false, beq_iff_eq] at hg
      obtain ⟨⟨_, hfresh⟩, hsome⟩ := hg
      have hex : ∃ c ∈ s.clients, c.id = f.cl := by
        cases hgc : s.getClient f.cl with
        | none => rw [hgc] at hsome; simp at hsome
        | some c0 => exact ⟨c0, getClient_some s f.cl c0 hgc⟩
      split
      · exact invC_frame (frame_fail _ _) h
      · rename_i c hcl
        dsimp only
        have h1 := invCo_addIo s
          { s.modFile sid (fun f => { f with count := c }) with
            ios := s.ios ++ [{ tag := tag, sid := sid, cl := f.cl, share := m, holds := holds }] } _
          { tag := tag, sid := sid, cl := f.cl, share := m, holds := holds } (invCo_of_invC h)
          rfl rfl rfl rfl (Nat.le_refl _) hfresh (fun _ => hex)
        split
        · rename_i hh
          have h2 := invCo_holdClient _ _ f.cl h1
          refine invC_of_invCo h2 (fun id => ?_)
          try dsimp only
          by_cases e : id = f.cl
          · rw [if_pos ⟨hh, e⟩, if_pos e]; omega
          · rw [if_neg (fun a => e a.2), if_neg e]; omega
        · rename_i hh
          refine invC_of_invCo h1 (fun id => ?_)
          try dsimp only
          rw [if_neg (fun a => hh a.1)]; omega

theorem invC_ioEnd (s : State) (tag : Nat) (h : InvC s) : InvC (Do.ioEnd s tag) := by
  unfold Do.ioEnd
  split
  · exact h
  · rename_i x hf
    have hx : x ∈ s.ios := List.mem_of_find?_eq_some hf
    have htag : x.tag = tag := by simpa using List.find?_some hf
    subst htag
    split
    · exact h
    · rename_i f hgf
      split
      · exact invC_frame (frame_fail _ _) h
      · rename_i c z hd
        dsimp only
        obtain ⟨f1, f2, f3, f4, f5⟩ :=
          Frame.trans (frame_modFile { s with ios := s.ios.filter (fun io => io.tag != x.tag) } x.sid
            (fun f => { f with count := c })) (frame_pushPend _ f.file z)
        have h1 := invCo_removeIo s _ _ x (invCo_of_invC h) hx f1 f2 f3 f4 f5
        apply invC_frame (frame_gc _)
        split
        · rename_i hh
          have h2 := invCo_releaseClient _ _ x.cl h1 (by (try dsimp only); rw [if_pos ⟨hh, rfl⟩]; omega)
          refine invC_of_invCo h2 (fun id => ?_)
          try dsimp only
          by_cases e : id = x.cl
          · rw [if_pos ⟨hh, e⟩, if_pos e]; omega
          · rw [if_neg (fun a => e a.2), if_neg e]; omega
        · rename_i hh
          refine invC_of_invCo h1 (fun id => ?_)
          try dsimp only
          rw [if_neg (fun a => hh a.1)]; omega

/-! ## Main theorems -/

theorem invC_init (ver n : Nat) : InvC (BbRe.NfsState.init ver n) := by
  refine ⟨List.nodup_nil, ?_, List.nodup_nil, List.nodup_nil, ?_, ?_, ?_, List.nodup_nil, ?_⟩
  · intro c hc; cases hc
  · intro c hc; cases hc
  · intro x hx; cases hx
  · intro x hx; cases hx
  · intro id
    constructor
    · intro hm; cases hm
    · rintro ⟨c, hc, _⟩; cases hc

theorem invC_apply (s : State) (a : Act) (h : InvC s) : InvC (apply s a) := by
  unfold apply
  split
  · exact h
  · cases a with
    | tick d => exact invC_frame (frame_tick s d) h
    | setNow => exact invC_frame (frame_setNow s) h
    | newClient long ver => exact invC_newClient s long ver h
    | touch cl => exact invC_touch s cl h
    | confirmClient cl => exact invC_confirmClient s cl h
    | dropClient cl => exact invC_dropClient s cl h
    | addSession cl k => exact invC_addSession s cl k h
    | delSession cl k => exact invC_delSession s cl k h
    | holdBegin tag cl => exact invC_holdBegin s tag cl h
    | holdEnd tag => exact invC_holdEnd s tag h
    | ooSet oo => exact invC_frame (frame_ooSet s oo) h
    | ooDel cl key => exact invC_frame (frame_ooDel s cl key) h
    | loRegister cl key => exact invC_frame (frame_loRegister s cl key) h
    | loPrune id => exact invC_frame (frame_loPrune s id) h
    | loSet id lastSeq resp => exact invC_frame (frame_loSet s id lastSeq resp) h
    | vopen tag leaf m create trunc => exact invC_frame (frame_vopen s tag leaf m create trunc) h
    | tempClose tag => exact invC_frame (frame_tempClose s tag) h
    | tempToPend tag => exact invC_frame (frame_tempToPend s tag) h
    | openNew tag cl owner => exact invC_frame (frame_openNew s tag cl owner) h
    | openUpgrade tag sid => exact invC_frame (frame_openUpgrade s tag sid) h
    | downgradeOpen sid new => exact invC_frame (frame_downgradeOpen s sid new) h
    | addLofs sid lo => exact invC_frame (frame_addLofs s sid lo) h
    | removeLofs sid lsid => exact invC_frame (frame_removeLofs s sid lsid) h
    | unlockAllLofs sid lsid => exact invC_frame (frame_unlockAllLofs s sid lsid) h
    | lockSet sid lsid lk => exact invC_frame (frame_lockSet s sid lsid lk) h
    | finalize sid => exact invC_frame (frame_finalize s sid) h
    | ioBegin tag sid m holds => exact invC_ioBegin s tag sid m holds h
    | ioEnd tag => exact invC_ioEnd s tag h
    | flush => exact invC_frame (frame_flush s) h
    | setCur tag => exact invC_frame (frame_setCur s tag) h
    | proto p => exact invC_frame (frame_setProto s p) h

theorem invC_applyAll (s : State) (acts : List Act) (h : InvC s) : InvC (applyAll s acts) := by
  unfold applyAll
  induction acts generalizing s with
  | nil => exact h
  | cons a acts ih => exact ih (apply s a) (invC_apply s a h)

/-- … and it is not in the idle list -/
theorem held_not_idle (s : State) (h : InvC s) (c : Client) (hc : c ∈ s.clients) (hh : 0 < c.hold) :
    c.id ∉ s.idle :=
  not_idle_of_hold s _ (invCo_of_invC h) c hc (Nat.ne_of_gt hh)

/-! ### Held records survive -/

/-- the ids of the client records, in order -/
def ids (s : State) : List Nat := s.clients.map (·.id)

theorem ids_frame {s s' : State} (f : Frame s s') : ids s' = ids s := by
  unfold ids; rw [f.1]

theorem ids_modClient (s : State) (cl : Nat) (g : Client → Client) (hid : ∀ c, (g c).id = c.id) :
    ids (s.modClient cl g) = ids s := by
  show (s.clients.map (fun c => if c.id == cl then g c else c)).map (·.id) = s.clients.map (·.id)
  rw [List.map_map]
  apply List.map_congr_left
  intro c _
  show (if c.id == cl then g c else c).id = c.id
  split
  · exact hid c
  · rfl

theorem ids_holdClient (s : State) (cl : Nat) : ids (s.holdClient cl) = ids s := by
  unfold State.holdClient
  split
  · rfl
  · dsimp only
    refine Eq.trans (ids_modClient _ cl _ (fun _ => rfl)) ?_
    split <;> rfl

theorem ids_releaseClient (s : State) (cl : Nat) : ids (s.releaseClient cl) = ids s := by
  unfold State.releaseClient
  split
  · rfl
  · split
    · rfl
    · split
      · exact ids_modClient s cl _ (fun _ => rfl)
      · exact ids_modClient s cl _ (fun _ => rfl)

theorem ids_touch (s : State) (cl : Nat) : ids (Do.touch s cl) = ids s := by
  unfold Do.touch; rw [ids_releaseClient, ids_holdClient]

theorem ids_confirmClient (s : State) (cl : Nat) : ids (Do.confirmClient s cl) = ids s := by
  unfold Do.confirmClient
  split
  · rfl
  · split
    · rfl
    · exact ids_modClient s cl _ (fun _ => rfl)

theorem ids_holdBegin (s : State) (tag cl : Nat) : ids (Do.holdBegin s tag cl) = ids s := by
  unfold Do.holdBegin
  split
  · rfl
  · rw [ids_holdClient]; rfl

theorem ids_holdEnd (s : State) (tag : Nat) : ids (Do.holdEnd s tag) = ids s := by
  unfold Do.holdEnd
  split
  · rfl
  · rw [ids_releaseClient]; rfl

theorem ids_ioBegin (s : State) (tag sid : Nat) (m : Mask) (holds : Bool) :
    ids (Do.ioBegin s tag sid m holds) = ids s := by
  unfold Do.ioBegin
  split
  · rfl
  · split
    · rfl
    · split
      · rfl
      · dsimp only
        split
        · rw [ids_holdClient]; rfl
        · rfl

theorem ids_ioEnd (s : State) (tag : Nat) : ids (Do.ioEnd s tag) = ids s := by
  unfold Do.ioEnd
  split
  · rfl
  · split
    · rfl
    · rename_i x _ _ f _
      split
      · rfl
      · rename_i c z _
        dsimp only
        have hf : ids (State.pushPend ({ s with ios := s.ios.filter (fun io => io.tag != tag) }.modFile x.sid
            (fun f => { f with count := c })) f.file z) = ids s :=
          ids_frame (s := { s with ios := s.ios.filter (fun io => io.tag != tag) })
            (Frame.trans (frame_modFile _ _ _) (frame_pushPend _ _ _))
        rw [ids_frame (frame_gc _)]
        split
        · rw [ids_releaseClient]; exact hf
        · exact hf

theorem mem_ids {s : State} {id : Nat} : id ∈ ids s ↔ ∃ c ∈ s.clients, c.id = id := by
  unfold ids; exact List.mem_map

theorem mem_of_ids_eq {s s' : State} {id : Nat} (e : ids s' = ids s) (hm : id ∈ ids s) : id ∈ ids s' :=
  e ▸ hm

theorem ids_addSession (s : State) (cl k : Nat) : ids (Do.addSession s cl k) = ids s :=
  ids_modClient s cl _ (fun _ => rfl)
theorem ids_delSession (s : State) (cl k : Nat) : ids (Do.delSession s cl k) = ids s :=
  ids_modClient s cl _ (fun _ => rfl)

/-- hold_protects, step form: a record that is held by an in-flight request survives every action -/
theorem held_survives (s : State) (a : Act) (h : InvC s) (c : Client) (hc : c ∈ s.clients) (hh : 0 < c.hold) :
    ∃ c' ∈ (apply s a).clients, c'.id = c.id := by
  have hm : c.id ∈ ids s := mem_ids.mpr ⟨c, hc, rfl⟩
  apply mem_ids.mp
  unfold apply
  split
  · exact hm
  · cases a with
    | tick d => exact mem_of_ids_eq (ids_frame (frame_tick s d)) hm
    | setNow => exact mem_of_ids_eq (ids_frame (frame_setNow s)) hm
    | newClient long ver =>
      show c.id ∈ ids (Do.newClient s long ver)
      unfold Do.newClient
      split
      · exact hm
      · exact mem_ids.mpr ⟨c, List.mem_append_left _ hc, rfl⟩
    | touch cl => exact mem_of_ids_eq (ids_touch s cl) hm
    | confirmClient cl => exact mem_of_ids_eq (ids_confirmClient s cl) hm
    | dropClient cl =>
      show c.id ∈ ids (Do.dropClient s cl)
      unfold Do.dropClient
      split
      · exact hm
      · rename_i c0 hs
        obtain ⟨hc0, hid0⟩ := getClient_some s cl c0 hs
        repeat' split
        all_goals first
          | exact hm
          | (rename_i hz _ _ _ _
             refine mem_ids.mpr ⟨c, List.mem_filter.mpr ⟨hc, ?_⟩, rfl⟩
             simp only [bne_iff_ne, ne_eq]
             intro e
             have : c = c0 := uniq_id _ h.clNodup c hc c0 hc0 (e.trans hid0.symm)
             subst this
             have hz' : c.hold = 0 := by simpa using hz
             omega)
    | addSession cl k => exact mem_of_ids_eq (ids_addSession s cl k) hm
    | delSession cl k => exact mem_of_ids_eq (ids_delSession s cl k) hm
    | holdBegin tag cl => exact mem_of_ids_eq (ids_holdBegin s tag cl) hm
    | holdEnd tag => exact mem_of_ids_eq (ids_holdEnd s tag) hm
    | ooSet oo => exact mem_of_ids_eq (ids_frame (frame_ooSet s oo)) hm
    | ooDel cl key => exact mem_of_ids_eq (ids_frame (frame_ooDel s cl key)) hm
    | loRegister cl key => exact mem_of_ids_eq (ids_frame (frame_loRegister s cl key)) hm
    | loPrune id => exact mem_of_ids_eq (ids_frame (frame_loPrune s id)) hm
    | loSet id lastSeq resp => exact mem_of_ids_eq (ids_frame (frame_loSet s id lastSeq resp)) hm
    | vopen tag leaf m create trunc => exact mem_of_ids_eq (ids_frame (frame_vopen s tag leaf m create trunc)) hm
    | tempClose tag => exact mem_of_ids_eq (ids_frame (frame_tempClose s tag)) hm
    | tempToPend tag => exact mem_of_ids_eq (ids_frame (frame_tempToPend s tag)) hm
    | openNew tag cl owner => exact mem_of_ids_eq (ids_frame (frame_openNew s tag cl owner)) hm
    | openUpgrade tag sid => exact mem_of_ids_eq (ids_frame (frame_openUpgrade s tag sid)) hm
    | downgradeOpen sid new => exact mem_of_ids_eq (ids_frame (frame_downgradeOpen s sid new)) hm
    | addLofs sid lo => exact mem_of_ids_eq (ids_frame (frame_addLofs s sid lo)) hm
    | removeLofs sid lsid => exact mem_of_ids_eq (ids_frame (frame_removeLofs s sid lsid)) hm
    | unlockAllLofs sid lsid => exact mem_of_ids_eq (ids_frame (frame_unlockAllLofs s sid lsid)) hm
    | lockSet sid lsid lk => exact mem_of_ids_eq (ids_frame (frame_lockSet s sid lsid lk)) hm
    | finalize sid => exact mem_of_ids_eq (ids_frame (frame_finalize s sid)) hm
    | ioBegin tag sid m holds => exact mem_of_ids_eq (ids_ioBegin s tag sid m holds) hm
    | ioEnd tag => exact mem_of_ids_eq (ids_ioEnd s tag) hm
    | flush => exact mem_of_ids_eq (ids_frame (frame_flush s)) hm
    | setCur tag => exact mem_of_ids_eq (ids_frame (frame_setCur s tag)) hm
    | proto p => exact mem_of_ids_eq (ids_frame (frame_setProto s p)) hm

/-- the invariant holds in every reachable state -/
theorem invC_reachable (ver n : Nat) (acts : List Act) : InvC (applyAll (BbRe.NfsState.init ver n) acts) :=
  invC_applyAll _ acts (invC_init ver n)

/-- non-vacuity of `held_survives` / `held_not_idle`: a reachable state with a held record
(id 1, held by SEQUENCE compound 7), and one where the record is idle again -/
example : ∃ c ∈ (applyAll (BbRe.NfsState.init 41 1) [.newClient 5 0, .holdBegin 7 1]).clients,
    c.id = 1 ∧ 0 < c.hold := by decide
example : (applyAll (BbRe.NfsState.init 41 1) [.newClient 5 0, .holdBegin 7 1]).idle = [] := by decide
example : (applyAll (BbRe.NfsState.init 41 1) [.newClient 5 0, .holdBegin 7 1, .holdEnd 7]).idle = [1] := by
  decide

end BbRe.Lemmas.NfsInvC
