import BbRe.Lemmas.InputRootSteps
/-!
Path level facts for C17: the node a path denotes (`nodeAt`, contents of lazy
directories read off the CAS without changing anything), what `withDir` returns
in terms of it, and step level corollaries of `InputRootSteps`.
-/
namespace BbRe.Lemmas.InputRoot
open BbRe.InputRoot

/-- Any access through a directory that cannot be loaded fails with `EIO`. -/
theorem withDir_through_bad (c : CAS) (F : List Dig) (act : Children → Children × Out) :
    ∀ (p q : Path) (n b : Node) (e : Err), nodeAt c n p = some b → contents c [] b = .err e →
      (withDir c F act (p ++ q) n).2 = .status .eio := by
  intro p
  induction p with
  | nil =>
    intro q n b e hb he
    simp only [nodeAt, Option.some.injEq] at hb
    subst hb
    have hF : contents c F n = .err e ∨ contents c F n = .err .unavailable := by
      rcases contents_fault c F n with h | h
      · left; rw [h, he]
      · right; exact h
    cases q <;> rcases hF with h | h <;> simp [withDir, h]
  | cons x rest ih =>
    intro q n b e hb he
    simp only [nodeAt] at hb
    cases hn : contents c [] n with
    | notDir => simp [hn] at hb
    | err e' => simp [hn] at hb
    | ok ch =>
      simp only [hn] at hb
      cases hx : lookup ch x with
      | none => simp [hx] at hb
      | some v =>
        simp only [hx] at hb
        rcases contents_fault c F n with h | h
        · simp only [List.cons_append, withDir, h, hn, hx]
          exact ih q v b e hb he
        · simp [withDir, h]

/-- A directory that cannot be loaded stays exactly as it was: nothing is attached. -/
theorem withDir_bad_unchanged (c : CAS) (F : List Dig) (act : Children → Children × Out)
    (p : Path) (n : Node) (e : Err) (he : contents c [] n = .err e) :
    withDir c F act p n = (n, .status .eio) := by
  have hF : contents c F n = .err e ∨ contents c F n = .err .unavailable := by
    rcases contents_fault c F n with h | h
    · left; rw [h, he]
    · right; exact h
  cases p <;> rcases hF with h | h <;> simp [withDir, h]

/-- Without faults the result of a leaf operation is that of the denoted node. -/
theorem withDir_leaf_out (c : CAS) (F' : List Dig) (op : LeafOp) (x : Name) :
    ∀ (p : Path) (n v : Node), nodeAt c n (p ++ [x]) = some v →
      (withDir c [] (actLeaf c F' op x) p n).2 = leafOut c F' op v := by
  intro p
  induction p with
  | nil =>
    intro n v h
    simp only [List.nil_append, nodeAt] at h
    cases hn : contents c [] n with
    | notDir => simp [hn] at h
    | err e => simp [hn] at h
    | ok ch =>
      simp only [hn] at h
      cases hx : lookup ch x with
      | none => simp [hx] at h
      | some w =>
        simp only [hx, Option.some.injEq] at h
        subst h
        simp [withDir, hn, actLeaf, hx]
  | cons y rest ih =>
    intro n v h
    simp only [List.cons_append, nodeAt] at h
    cases hn : contents c [] n with
    | notDir => simp [hn] at h
    | err e => simp [hn] at h
    | ok ch =>
      simp only [hn] at h
      cases hy : lookup ch y with
      | none => simp [hy] at h
      | some w =>
        simp only [hy] at h
        simp only [withDir, hn, hy]
        exact ih w v h

theorem withDir_lookup_out (c : CAS) (x : Name) :
    ∀ (p : Path) (n v : Node), nodeAt c n (p ++ [x]) = some v →
      (withDir c [] (actLookup x) p n).2 = .kind (kindOf v) := by
  intro p
  induction p with
  | nil =>
    intro n v h
    simp only [List.nil_append, nodeAt] at h
    cases hn : contents c [] n with
    | notDir => simp [hn] at h
    | err e => simp [hn] at h
    | ok ch =>
      simp only [hn] at h
      cases hx : lookup ch x with
      | none => simp [hx] at h
      | some w =>
        simp only [hx, Option.some.injEq] at h
        subst h
        simp [withDir, hn, actLookup, hx]
  | cons y rest ih =>
    intro n v h
    simp only [List.cons_append, nodeAt] at h
    cases hn : contents c [] n with
    | notDir => simp [hn] at h
    | err e => simp [hn] at h
    | ok ch =>
      simp only [hn] at h
      cases hy : lookup ch y with
      | none => simp [hy] at h
      | some w =>
        simp only [hy] at h
        simp only [withDir, hn, hy]
        exact ih w v h

/-- Equivalent trees denote equivalent nodes at every path. -/
theorem nodeAt_equiv (c : CAS) : ∀ (p : Path) (a b : Node), Equiv c a b →
    (nodeAt c a p = none ∧ nodeAt c b p = none) ∨
    ∃ va vb, nodeAt c a p = some va ∧ nodeAt c b p = some vb ∧ Equiv c va vb := by
  intro p
  induction p with
  | nil => intro a b h; right; exact ⟨a, b, rfl, rfl, h⟩
  | cons x rest ih =>
    intro a b h
    have hc := h.contents
    cases ha : contents c [] a <;> cases hb : contents c [] b <;> rw [ha, hb] at hc <;>
      simp only [ContRel] at hc <;> simp only [nodeAt, ha, hb]
    · left; exact ⟨by first | rfl | trivial, by first | rfl | trivial⟩
    · left; exact ⟨by first | rfl | trivial, by first | rfl | trivial⟩
    · rcases chrel_lookup hc x with ⟨h1, h2⟩ | ⟨ca, cb, h1, h2, hr⟩
      · left; simp [h1, h2]
      · simp only [h1, h2]; exact ih ca cb hr

end BbRe.Lemmas.InputRoot
