import BbRe.Lemmas.InputRootSteps
/-!
Path level facts for C17: the node a path denotes (`nodeAt`, contents of lazy
directories read off the CAS without changing anything), what `withDir` returns
in terms of it, and step level corollaries of `InputRootSteps`.
-/
namespace BbRe.Lemmas.InputRoot
open BbRe.InputRoot

/-- The node a path denotes in the *requested* tree below `n`. -/
def nodeAt (c : CAS) : Node → Path → Option Node
  | n, [] => some n
  | n, x :: rest =>
    match contents c [] n with
    | .ok ch =>
      match lookup ch x with
      | none => none
      | some v => nodeAt c v rest
    | _ => none

/-- Any access through a directory that cannot be loaded fails with `EIO`. -/
theorem withDir_through_bad (c : CAS) (F : List Dig) (act : Children → Children × Out) :
    ∀ (p q : Path) (n b : Node) (e : Err), nodeAt c n p = some b → contents c [] b = .err e →
      (withDir c F act (p ++ q) n).2 = .status .eio := by
  intro p
  induction p with
  | nil =>
    intro q n b e hb he
    simp only [nodeAt, Option.some.injEq] at hb
    subst hb
    have hF : contents c F n = .err e ∨ contents c F n = .err .unavailable := by
      rcases contents_fault c F n with h | h
      · left; rw [h, he]
      · right; exact h
    cases q <;> rcases hF with h | h <;> simp [withDir, h]
  | cons x rest ih =>
    intro q n b e hb he
    simp only [nodeAt] at hb
    cases hn : contents c [] n with
    | notDir => simp [hn] at hb
    | err e' => simp [hn] at hb
    | ok ch =>
      simp only [hn] at hb
      cases hx : lookup ch x with
      | none => simp [hx] at hb
      | some v =>
        simp only [hx] at hb
        rcases contents_fault c F n with h | h
        · simp only [List.cons_append, withDir, h, hn, hx]
          exact ih q v b e hb he
        · simp [withDir, h]

/-- A directory that cannot be loaded stays exactly as it was: nothing is attached. -/
theorem withDir_bad_unchanged (c : CAS) (F : List Dig) (act : Children → Children × Out)
    (p : Path) (n : Node) (e : Err) (he : contents c [] n = .err e) :
    withDir c F act p n = (n, .status .eio) := by
  have hF : contents c F n = .err e ∨ contents c F n = .err .unavailable := by
    rcases contents_fault c F n with h | h
    · left; rw [h, he]
    · right; exact h
  cases p <;> rcases hF with h | h <;> simp [withDir, h]

/-- Without faults the result of a leaf operation is that of the denoted node. -/
theorem withDir_leaf_out (c : CAS) (F' : List Dig) (op : LeafOp) (x : Name) :
    ∀ (p : Path) (n v : Node), nodeAt c n (p ++ [x]) = some v →
      (withDir c [] (actLeaf c F' op x) p n).2 = leafOut c F' op v := by
  intro p
  induction p with
  | nil =>
    intro n v h
    simp only [List.nil_append, nodeAt] at h
    cases hn : contents c [] n with
    | notDir => simp [hn] at h
    | err e => simp [hn] at h
    | ok ch =>
      simp only [hn] at h
      cases hx : lookup ch x with
      | none => simp [hx] at h
      | some w =>
        simp only [hx, Option.some.injEq] at h
        subst h
        simp [withDir, hn, actLeaf, hx]
  | cons y rest ih =>
    intro n v h
    simp only [List.cons_append, nodeAt] at h
    cases hn : contents c [] n with
    | notDir => simp [hn] at h
    | err e => simp [hn] at h
    | ok ch =>
      simp only [hn] at h
      cases hy : lookup ch y with
      | none => simp [hy] at h
      | some w =>
        simp only [hy] at h
        simp only [withDir, hn, hy]
        exact ih w v h

theorem withDir_lookup_out (c : CAS) (x : Name) :
    ∀ (p : Path) (n v : Node), nodeAt c n (p ++ [x]) = some v →
      (withDir c [] (actLookup x) p n).2 = .kind (kindOf v) := by
  intro p
  induction p with
  | nil =>
    intro n v h
    simp only [List.nil_append, nodeAt] at h
    cases hn : contents c [] n with
    | notDir => simp [hn] at h
    | err e => simp [hn] at h
    | ok ch =>
      simp only [hn] at h
      cases hx : lookup ch x with
      | none => simp [hx] at h
      | some w =>
        simp only [hx, Option.some.injEq] at h
        subst h
        simp [withDir, hn, actLookup, hx]
  | cons y rest ih =>
    intro n v h
    simp only [List.cons_append, nodeAt] at h
    cases hn : contents c [] n with
    | notDir => simp [hn] at h
    | err e => simp [hn] at h
    | ok ch =>
      simp only [hn] at h
      cases hy : lookup ch y with
      | none => simp [hy] at h
      | some w =>
        simp only [hy] at h
        simp only [withDir, hn, hy]
        exact ih w v h

/-- Equivalent trees denote equivalent nodes at every path. -/
theorem nodeAt_equiv (c : CAS) : ∀ (p : Path) (a b : Node), Equiv c a b →
    (nodeAt c a p = none ∧ nodeAt c b p = none) ∨
    ∃ va vb, nodeAt c a p = some va ∧ nodeAt c b p = some vb ∧ Equiv c va vb := by
  intro p
  induction p with
  | nil => intro a b h; right; exact ⟨a, b, rfl, rfl, h⟩
  | cons x rest ih =>
    intro a b h
    have hc := h.contents
    cases ha : contents c [] a <;> cases hb : contents c [] b <;> rw [ha, hb] at hc <;>
      simp only [ContRel] at hc <;> simp only [nodeAt, ha, hb]
    · left; exact ⟨by first | rfl | trivial, by first | rfl | trivial⟩
    · left; exact ⟨by first | rfl | trivial, by first | rfl | trivial⟩
    · rcases chrel_lookup hc x with ⟨h1, h2⟩ | ⟨ca, cb, h1, h2, hr⟩
      · left; simp [h1, h2]
      · simp only [h1, h2]; exact ih ca cb hr

/-! ### states -/

/-- Same storage, equivalent trees. -/
def SEquiv (l e : State) : Prop := l.cas = e.cas ∧ Equiv l.cas l.root e.root

theorem SEquiv.refl (s : State) : SEquiv s s := ⟨rfl, Equiv.refl _ _⟩

theorem SEquiv.symm {l e : State} (h : SEquiv l e) : SEquiv e l :=
  ⟨h.1.symm, h.1 ▸ h.2.symm⟩

theorem SEquiv.trans {a b d : State} (h1 : SEquiv a b) (h2 : SEquiv b d) : SEquiv a d :=
  ⟨h1.1.trans h2.1, h1.2.trans (h1.1 ▸ h2.2)⟩

theorem step_cas (s : State) (F : List Dig) (op : Op) : (step s F op).1.cas = s.cas := by
  cases op with
  | merge d =>
    simp only [step, merge]
    split
    · rfl
    · split <;> rfl
  | _ => rfl

theorem run_cas (s : State) (hs : List (List Dig × Op)) : (run s hs).1.cas = s.cas := by
  induction hs generalizing s with
  | nil => rfl
  | cons h rest ih =>
    obtain ⟨F, op⟩ := h
    simp only [run]
    rw [ih, step_cas]

theorem merge_equiv (l e : State) (d : Dig) (h : SEquiv l e) :
    (merge l [] d).2 = (merge e [] d).2 ∧ SEquiv (merge l [] d).1 (merge e [] d).1 := by
  obtain ⟨hc, hr⟩ := h
  simp only [merge, ← hc]
  cases (fetch l.cas [] d).result with
  | error err => exact ⟨rfl, hc, hr⟩
  | ok new =>
    simp only []
    have hcon := hr.contents
    cases hl : contents l.cas [] l.root <;> cases he : contents l.cas [] e.root <;>
      rw [hl, he] at hcon <;> simp only [ContRel] at hcon
    · exact ⟨rfl, hc, hr⟩
    · exact ⟨rfl, hc, hr⟩
    · have := actMerge_resp l.cas new _ _ hcon
      exact ⟨this.1, rfl, equiv_dir this.2⟩

theorem step_equiv (l e : State) (op : Op) (h : SEquiv l e) :
    (step l [] op).2 = (step e [] op).2 ∧ SEquiv (step l [] op).1 (step e [] op).1 := by
  cases op with
  | merge d => exact merge_equiv l e d h
  | lookup p x =>
    obtain ⟨hc, hr⟩ := h
    have := withDir_equiv l.cas _ (actOf_resp l.cas (.lookup p x)) p _ _ hr
    simp only [step, pathOf, ← hc]; exact ⟨this.1, rfl, this.2⟩
  | readdir p =>
    obtain ⟨hc, hr⟩ := h
    have := withDir_equiv l.cas _ (actOf_resp l.cas (.readdir p)) p _ _ hr
    simp only [step, pathOf, ← hc]; exact ⟨this.1, rfl, this.2⟩
  | leaf o p x =>
    obtain ⟨hc, hr⟩ := h
    have := withDir_equiv l.cas _ (actOf_resp l.cas (.leaf o p x)) p _ _ hr
    simp only [step, pathOf, ← hc]; exact ⟨this.1, rfl, this.2⟩
  | remove p x =>
    obtain ⟨hc, hr⟩ := h
    have := withDir_equiv l.cas _ (actOf_resp l.cas (.remove p x)) p _ _ hr
    simp only [step, pathOf, ← hc]; exact ⟨this.1, rfl, this.2⟩
  | create p x =>
    obtain ⟨hc, hr⟩ := h
    have := withDir_equiv l.cas _ (actOf_resp l.cas (.create p x)) p _ _ hr
    simp only [step, pathOf, ← hc]; exact ⟨this.1, rfl, this.2⟩
  | mkdir p x =>
    obtain ⟨hc, hr⟩ := h
    have := withDir_equiv l.cas _ (actOf_resp l.cas (.mkdir p x)) p _ _ hr
    simp only [step, pathOf, ← hc]; exact ⟨this.1, rfl, this.2⟩

/-- Output of an operation that a storage fault made fail. -/
def isFaultOut (o : Out) : Prop := o = .status .eio ∨ o = .mergeErr .unavailable

theorem merge_fault (s : State) (F : List Dig) (d : Dig) :
    merge s F d = merge s [] d ∨ (isFaultOut (merge s F d).2 ∧ (merge s F d).1 = s) := by
  simp only [merge]
  rcases fetch_fault s.cas F d with h | h
  · rw [h]
    cases (fetch s.cas [] d).result with
    | error e => left; rfl
    | ok new =>
      simp only []
      rcases contents_fault s.cas F s.root with h2 | h2
      · left; rw [h2]
      · right; rw [h2]; exact ⟨Or.inl rfl, rfl⟩
  · right; rw [h]; exact ⟨Or.inr rfl, rfl⟩

theorem step_fault (s : State) (F : List Dig) (op : Op) :
    step s F op = step s [] op ∨ (isFaultOut (step s F op).2 ∧ SEquiv (step s F op).1 s) := by
  cases op with
  | merge d =>
    rcases merge_fault s F d with h | ⟨h1, h2⟩
    · left; exact h
    · right; refine ⟨h1, ?_⟩; simp only [step]; rw [h2]; exact SEquiv.refl s
  | lookup p x =>
    rcases withDir_fault s.cas F _ _ (actOf_fault s.cas F (.lookup p x)) p s.root with h | ⟨h1, h2⟩
    · left; simp only [step, pathOf, h]
    · right; exact ⟨Or.inl h1, rfl, h2⟩
  | readdir p =>
    rcases withDir_fault s.cas F _ _ (actOf_fault s.cas F (.readdir p)) p s.root with h | ⟨h1, h2⟩
    · left; simp only [step, pathOf, h]
    · right; exact ⟨Or.inl h1, rfl, h2⟩
  | leaf o p x =>
    rcases withDir_fault s.cas F _ _ (actOf_fault s.cas F (.leaf o p x)) p s.root with h | ⟨h1, h2⟩
    · left; simp only [step, pathOf, h]
    · right; exact ⟨Or.inl h1, rfl, h2⟩
  | remove p x =>
    rcases withDir_fault s.cas F _ _ (actOf_fault s.cas F (.remove p x)) p s.root with h | ⟨h1, h2⟩
    · left; simp only [step, pathOf, h]
    · right; exact ⟨Or.inl h1, rfl, h2⟩
  | create p x =>
    rcases withDir_fault s.cas F _ _ (actOf_fault s.cas F (.create p x)) p s.root with h | ⟨h1, h2⟩
    · left; simp only [step, pathOf, h]
    · right; exact ⟨Or.inl h1, rfl, h2⟩
  | mkdir p x =>
    rcases withDir_fault s.cas F _ _ (actOf_fault s.cas F (.mkdir p x)) p s.root with h | ⟨h1, h2⟩
    · left; simp only [step, pathOf, h]
    · right; exact ⟨Or.inl h1, rfl, h2⟩

end BbRe.Lemmas.InputRoot
