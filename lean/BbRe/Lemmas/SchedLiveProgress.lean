import BbRe.Lemmas.SchedLiveQuiesce6
/-!
Progress (C02 `eventually_done`): if the worker executing a task stops
synchronizing, the worker timeout fails the task and the waiting stream's
stage-change wake-up delivers `done`.
-/
namespace BbRe.Lemmas.SchedLive
open BbRe.Sched

/-! ### `enter` arms no worker entries -/

/-- every entry after was there before, or is an operation / queue entry -/
def CSub (s s' : State) : Prop :=
  ∀ e ∈ s'.cleanup, e ∈ s.cleanup ∨ (∃ o, e.kind = .op o) ∨ (∃ q, e.kind = .scq q)

theorem CSub.refl (s : State) : CSub s s := fun _ h => .inl h
theorem CSub.trans {a b c : State} (h1 : CSub a b) (h2 : CSub b c) : CSub a c := by
  intro e he
  rcases h2 e he with h | h
  · exact h1 e h
  · exact .inr h
theorem CSub.of_eq {s s' : State} (h : s'.cleanup = s.cleanup) : CSub s s' := fun _ he => .inl (h ▸ he)

theorem maybeStartCleanup_csub (s : State) (o : Nat) : CSub s (maybeStartCleanup s o) := by
  unfold maybeStartCleanup
  (repeat' split)
  · intro e he
    simp only [addCleanup_cleanup, List.mem_cons] at he
    rcases he with rfl | he
    · exact .inr (.inl ⟨o, rfl⟩)
    · exact .inl he
  · exact CSub.refl _
  · exact CSub.refl _

theorem finishOps_csub (l : List Nat) (s : State) : CSub s (complete.finishOps s l) := by
  induction l generalizing s with
  | nil => exact CSub.refl _
  | cons o r ih =>
    rw [finishOps_cons]
    refine CSub.trans ?_ (ih _)
    unfold finishOp
    (repeat' split)
    · exact (CSub.of_eq (s := s) rfl).trans (maybeStartCleanup_csub _ o)
    · exact CSub.refl _
    · exact CSub.refl _

theorem complete_csub {h : Hints} {s s' : State} {tid : Nat} {r : Resp} (hns : ¬ isSucc r)
    (hh : complete h s tid r false = .ok s') : CSub s s' := by
  obtain ⟨t, h0, ⟨_, rfl⟩ | ⟨_, l, _, h1 | h1 | h1⟩⟩ := complete_ok hh
  · exact CSub.refl _
  · exact absurd h1.1 hns
  · cases h1.2.1
  · obtain ⟨_, _, ev, _, rfl⟩ := h1
    have : CSub s ((dropDedup (emit (detachW s t) ev) { detachT t with learner := none }).setTask
        (bumpGen { detachT t with learner := none, response := some r })) := CSub.of_eq (by simp)
    exact this.trans (finishOps_csub _ _)

theorem cancelAllQueued_csub {h : Hints} {s s' : State} {q : ScqId} {r : Resp} (hns : ¬ isSucc r)
    (hh : cancelAllQueued h s q r = .ok s') : CSub s s' :=
  cancelAllQueued_rel CSub CSub.refl (fun _ _ _ => CSub.trans) (fun _ _ _ hc => complete_csub hns hc) hh

theorem callback_csub {h : Hints} {s s' : State} {e : CleanupEntry} (hh : callback h s e = .ok s') : CSub s s' := by
  unfold callback at hh
  split at hh
  · rename_i q w _
    rcases removeStaleWorker_ok hh with ⟨_, rfl⟩ | ⟨wk, s1, _, h1, rfl⟩
    · exact CSub.refl _
    · have h1' : CSub s s1 := by
        rcases h1 with ⟨t, _, h1⟩ | ⟨_, rfl⟩
        · exact complete_csub (by simp [isSucc, cUnavailable, cOK]) h1
        · exact CSub.refl _
      refine h1'.trans ?_
      unfold dropWorker
      (repeat' split)
      · intro x hx
        simp only [addCleanup_cleanup, List.mem_cons] at hx
        rcases hx with rfl | hx
        · exact .inr (.inr ⟨q, rfl⟩)
        · exact .inl hx
      · exact CSub.of_eq rfl
      · exact CSub.of_eq rfl
  · rcases removeOp_ok hh with ⟨_, rfl⟩ | ⟨op, t, s1, t1, _, _, h1, _, rfl⟩
    · exact CSub.refl _
    · have h1' : CSub s s1 := by
        rcases h1 with ⟨_, h1⟩ | ⟨_, rfl⟩
        · exact (CSub.of_eq (s := s) (s' := eraseOp s _) rfl).trans (complete_csub (by simp [isSucc, cCanceled, cOK]) h1)
        · exact CSub.of_eq rfl
      exact h1'.trans (CSub.of_eq (by simp))
  · obtain ⟨s1, h1, rfl⟩ := removeScq_ok hh
    exact (cancelAllQueued_csub (by simp [isSucc, cUnavailable, cOK]) h1).trans (CSub.of_eq (by simp))

theorem runCleanup_csub {h : Hints} {f : Nat} {s s' : State} (hh : runCleanup h f s = .ok s') : CSub s s' := by
  refine runCleanup_rel CSub CSub.refl (fun _ _ _ => CSub.trans) ?_ (fun _ _ _ => callback_csub) f s s' hh
  intro x e rest hp
  obtain ⟨_, _, _, rfl⟩ := popDue_some hp
  intro y hy
  exact .inl (List.mem_filter.1 hy).1

theorem enter_csub {h : Hints} {s s' : State} {t : Nat} (hh : enter h s t = .ok s') : CSub s s' := by
  rcases enter_ok hh with ⟨_, rfl⟩ | ⟨_, h1⟩
  · exact CSub.refl _
  · exact (CSub.of_eq (s := s) (s' := setNow s t) rfl).trans (runCleanup_csub h1)

/-! ### `enter` leaves uncompleted tasks with their worker -/

/-- every uncompleted task after was uncompleted before, on the same worker -/
def UW (s s' : State) : Prop :=
  ∀ k t', s'.task? k = some t' → t'.response = none →
    ∃ t, s.task? k = some t ∧ t.response = none ∧ t'.worker = t.worker

/-- `UW` for key-disciplined states -/
def UWStep (s s' : State) : Prop := KeysOK s → KeysOK s' ∧ UW s s'

theorem UWStep.refl (s : State) : UWStep s s := fun hk => ⟨hk, fun _ t' h hr => ⟨t', h, hr, rfl⟩⟩
theorem UWStep.trans {a b c : State} (h1 : UWStep a b) (h2 : UWStep b c) : UWStep a c := by
  intro hk
  obtain ⟨kb, r1⟩ := h1 hk
  obtain ⟨kc, r2⟩ := h2 kb
  refine ⟨kc, ?_⟩
  intro k t' h hr
  obtain ⟨tb, hb, rb, wb⟩ := r2 k t' h hr
  obtain ⟨ta, ha, ra, wa⟩ := r1 k tb hb rb
  exact ⟨ta, ha, ra, wb.trans wa⟩

theorem UWStep.of_same {s s' : State} (h1 : s'.tasks = s.tasks) (h2 : s'.ops = s.ops)
    (h3 : s'.nextTask = s.nextTask) (h4 : s'.nextOp = s.nextOp) : UWStep s s' := fun hk =>
  ⟨(TStep.of_same (allow := True) h1 h2 h3 h4 hk).1, fun k t' h hr => ⟨t', by simpa [State.task?, h1] using h, hr, rfl⟩⟩

theorem complete_uw {h : Hints} {s s' : State} {tid : Nat} {r : Resp} (hns : ¬ isSucc r)
    (hh : complete h s tid r false = .ok s') : UWStep s s' := by
  intro hk
  refine ⟨(complete_tstep hh hk).1, ?_⟩
  obtain ⟨t, h0, _⟩ := complete_ok hh
  cases hr : t.response with
  | some r0 =>
    -- already completed: nothing happens
    obtain ⟨t0, h0', ⟨_, rfl⟩ | ⟨hr', _⟩⟩ := complete_ok hh
    · exact fun _ t' h hr => ⟨t', h, hr, rfl⟩
    · rw [h0] at h0'; injection h0' with e; subst e; rw [hr] at hr'; cases hr'
  | none =>
    obtain ⟨t1, e1, e2, _, eoth⟩ := complete_fail_final hk h0 hr hns hh
    intro k t' hk' hr'
    by_cases hkk : k = tid
    · subst hkk; rw [e1] at hk'; injection hk' with e; subst e; rw [e2] at hr'; cases hr'
    · rw [eoth k hkk] at hk'; exact ⟨t', hk', hr', rfl⟩

theorem cancelAllQueued_uw {h : Hints} {s s' : State} {q : ScqId} {r : Resp} (hns : ¬ isSucc r)
    (hh : cancelAllQueued h s q r = .ok s') : UWStep s s' :=
  cancelAllQueued_rel UWStep UWStep.refl (fun _ _ _ => UWStep.trans) (fun _ _ _ hc => complete_uw hns hc) hh

theorem callback_uw {h : Hints} {s s' : State} {e : CleanupEntry} (hh : callback h s e = .ok s') : UWStep s s' := by
  unfold callback at hh
  split at hh
  · rcases removeStaleWorker_ok hh with ⟨_, rfl⟩ | ⟨wk, s1, _, h1, rfl⟩
    · exact UWStep.refl _
    · have h1' : UWStep s s1 := by
        rcases h1 with ⟨t, _, h1⟩ | ⟨_, rfl⟩
        · exact complete_uw (by simp [isSucc, cUnavailable, cOK]) h1
        · exact UWStep.refl _
      exact h1'.trans (UWStep.of_same (by simp) (by simp) (by simp) (by simp))
  · rename_i o _
    rcases removeOp_ok hh with ⟨_, rfl⟩ | ⟨op, t, s1, t1, _, _, h1, h2, rfl⟩
    · exact UWStep.refl _
    · have he : UWStep s (eraseOp s o) := fun hk =>
        ⟨(eraseOp_tstep True s o hk).1, fun k t' h hr => ⟨t', h, hr, rfl⟩⟩
      have h1' : UWStep (eraseOp s o) s1 := by
        rcases h1 with ⟨_, h1⟩ | ⟨_, rfl⟩
        · exact complete_uw (by simp [isSucc, cCanceled, cOK]) h1
        · exact UWStep.refl _
      refine (he.trans h1').trans ?_
      intro hk1
      refine ⟨(dropOpT_tstep True o h2 hk1).1, ?_⟩
      have hid := (hk1.tid _ _ h2).1
      unfold dropOpT
      split
      · intro k t' h hr
        simp only [State.task?, alookup_aerase _ _ _ hk1.tnodup] at h
        split at h
        · cases h
        · exact ⟨t', h, hr, rfl⟩
      · intro k t' h hr
        simp only [State.task?, setTask_tasks, alookup_aset] at h
        split at h
        · rename_i hkk; injection h with h; subst h
          exact ⟨t1, by rw [← hkk, hid]; exact h2, hr, rfl⟩
        · exact ⟨t', h, hr, rfl⟩
  · obtain ⟨s1, h1, rfl⟩ := removeScq_ok hh
    exact (cancelAllQueued_uw (by simp [isSucc, cUnavailable, cOK]) h1).trans
      (UWStep.of_same (by simp) (by simp) (by simp) (by simp))

theorem enter_uw {h : Hints} {s s' : State} {t : Nat} (hh : enter h s t = .ok s') : UWStep s s' := by
  rcases enter_ok hh with ⟨_, rfl⟩ | ⟨_, h1⟩
  · exact UWStep.refl _
  · exact (UWStep.of_same (s := s) (s' := setNow s t) rfl rfl rfl rfl).trans
      (runCleanup_rel UWStep UWStep.refl (fun _ _ _ => UWStep.trans)
        (fun _ _ _ _ => UWStep.of_same rfl rfl rfl rfl) (fun _ _ _ => callback_uw) _ _ _ h1)

/-! ### a completed task wakes its parked streams -/

theorem completed_wakes {s : State} (hs : Reachable s) (h : Hints) {c : Nat} {st : Stream}
    (hst : s.streams.find? (fun x => x.client = c) = some st)
    (hdone : ∀ op t, s.op? st.op = some op → s.task? op.task = some t → t.response.isSome = true) :
    ∃ s' op t r, s.op? st.op = some op ∧ s.task? op.task = some t ∧ t.response = some r ∧
      streamWake h s s.now c 0 = .ok s' ∧
      s'.events = .ret c cOK :: .msg c st.op 4 true r.code r.tok :: s.events := by
  have hmem := List.mem_of_find?_eq_some hst
  obtain ⟨op, t, hop, hw, ht⟩ := stream_op_exists hs hmem
  have hsome := hdone op t hop ht
  cases hr : t.response with
  | none => rw [hr] at hsome; cases hsome
  | some r =>
    have hlt := ((wakeInv_reachable hs st hmem).2 op t hop ht).2 (by simp [hr])
    have hne : t.gen ≠ st.snap := by omega
    have hw' : ¬ op.waiters = 0 := by omega
    refine ⟨sendDone s c st.op op t r, op, t, r, hop, ht, hr, ?_, by simp [stage_of_resp hr]⟩
    rw [streamWake_changed h s c st op t hst hop ht hne]
    unfold streamSend
    simp only [hop, ht, hr, hw', bind, Except.bind, pure, Except.pure, if_false]
    rfl

/-! ### the worker timeout completes the task -/

/-- If the worker that executes task `tid` is outside `Synchronize`, then once the clock has passed the
deadline of its cleanup entry the task is completed (by the worker timeout, or earlier by something else). -/
theorem worker_timeout_completes {s s1 : State} (hs : Reachable s) {h : Hints} {T : Nat} (hT : s.now < T)
    (hent : enter h s T = .ok s1) {q : ScqId} {w : WId} {wk : Worker} {e : CleanupEntry}
    (hwk : s.worker? q w = some wk) (hout : wk.inSync = false) (he : e ∈ s.cleanup) (hek : e.kind = .worker q w)
    (hd : e.deadline ≤ T) {tid : Nat} {t : Task} (ht : s.task? tid = some t) (htw : t.worker = some (q, w)) :
    ∀ t', s1.task? tid = some t' → t'.response.isSome = true := by
  intro t' ht'
  cases hr : t'.response with
  | some r => rfl
  | none =>
    exfalso
    have hs1 : Reachable s1 := Reachable.step (.touch h T) hs hent
    have hk := keysOK_reachable hs
    obtain ⟨_, huw⟩ := enter_uw hent hk
    obtain ⟨t0, e0, _, ew⟩ := huw tid t' ht' hr
    rw [ht] at e0; injection e0 with e0; subst e0
    -- the worker is still there, still outside `Synchronize`
    have hI1 := BbRe.Lemmas.SchedInv.inv_reachable hs1
    obtain ⟨wk1, hf1, _⟩ := hI1.core.p2 tid t' q w ht' (ew.trans htw)
    have hwk1 : s1.worker? q w = some wk1 := hf1
    obtain ⟨hm1, hq1, hw1⟩ := worker?_mem hwk1
    obtain ⟨x, hx, ekey, ein⟩ := enter_wsub hent wk1 hm1
    have hxeq : x = wk := by
      refine eq_of_wkey (winv_reachable hs).uniq hx (worker?_mem hwk).1 ?_
      obtain ⟨_, a, b⟩ := worker?_mem hwk
      rw [ekey]; simp [wkey, hq1, hw1, a, b]
    subst hxeq
    have hout1 : wk1.inSync = false := by rw [← ein]; exact hout
    -- hence it has an armed entry, which is the old one, which is due: impossible after `enter`
    obtain ⟨e1, he1, hk1⟩ := (cinv_reachable hs1).wOut wk1 hm1 hout1 (by simp [noEx])
    rw [hq1, hw1] at hk1
    have hold : e1 ∈ s.cleanup := by
      rcases enter_csub hent e1 he1 with h' | ⟨o, h'⟩ | ⟨q', h'⟩
      · exact h'
      · rw [hk1] at h'; cases h'
      · rw [hk1] at h'; cases h'
    have hsame : e1 = e := by
      have hu := (cinv_reachable hs).uniq
      have : ∀ (l : List CleanupEntry), (l.map (·.kind)).Nodup → e1 ∈ l → e ∈ l → e1.kind = e.kind → e1 = e := by
        intro l; induction l with
        | nil => intro _ h'; cases h'
        | cons a r ih =>
          intro hn h1 h2 hkk
          simp only [List.map_cons, List.nodup_cons] at hn
          rcases List.mem_cons.1 h1 with rfl | h1' <;> rcases List.mem_cons.1 h2 with h2' | h2'
          · exact h2'.symm
          · exact absurd (List.mem_map.2 ⟨e, h2', hkk.symm⟩) hn.1
          · subst h2'; exact absurd (List.mem_map.2 ⟨e1, h1', hkk⟩) hn.1
          · exact ih hn.2 h1' h2' hkk
      exact this _ hu hold he (hk1.trans hek.symm)
    obtain ⟨_, hex⟩ := enter_exhaustive (kwc_reachable hs) hT hent
    have := hex e1 he1
    rw [hsame] at this; omega

/-- **eventually_done (executing task, worker gone silent).**  A client parked on an operation of a task
that is executing on a worker which is outside `Synchronize` and never synchronizes again: advancing the
clock to any `T` at or beyond the worker's cleanup deadline and delivering the client's stage-change
wake-up — two segments — sends the client its `done` message. -/
theorem eventually_done_exec {s : State} (hs : Reachable s) (h : Hints) {c : Nat} {st : Stream}
    (hst : s.streams.find? (fun x => x.client = c) = some st) {op : Op} {t : Task}
    (hop : s.op? st.op = some op) (ht : s.task? op.task = some t) {q : ScqId} {w : WId} {wk : Worker}
    (htw : t.worker = some (q, w)) (hwk : s.worker? q w = some wk) (hout : wk.inSync = false) :
    ∃ e ∈ s.cleanup, e.kind = .worker q w ∧ ∀ T, s.now < T → e.deadline ≤ T →
      ∃ (r : Resp) (s1 : State), run s [.touch h T] = s1 ∧ s1.events.filter (isMsgOf c) = s.events.filter (isMsgOf c) ∧
        (run s [.touch h T, .streamWake h T c 0]).events =
          .ret c cOK :: .msg c st.op 4 true r.code r.tok :: s1.events := by
  obtain ⟨hm, hq, hw'⟩ := worker?_mem hwk
  obtain ⟨e, he, hek⟩ := (cinv_reachable hs).wOut wk hm hout (by simp [noEx])
  rw [hq, hw'] at hek
  refine ⟨e, he, hek, ?_⟩
  intro T hT hd
  obtain ⟨s1, hstep, hrun⟩ := touch_ok hs h T
  have hent : enter h s T = .ok s1 := hstep
  have hs1 : Reachable s1 := Reachable.step (.touch h T) hs hstep
  have hdone := worker_timeout_completes hs hT hent hwk hout he hek hd ht htw
  -- the stream is still parked, on the same operation, whose task is the same
  have hst1 : s1.streams.find? (fun x => x.client = c) = some st := by rw [(enter_frame hent).streams]; exact hst
  have hnow : s1.now = T := (enter_exhaustive (kwc_reachable hs) hT hent).1
  obtain ⟨hk1, rel⟩ := enter_tstep (allow := True) hent (keysOK_reachable hs)
  obtain ⟨s2, op1, t1, r, hop1, ht1, hr1, hwake, hev⟩ := completed_wakes hs1 h hst1 (by
    intro op1 t1 hop1 ht1
    have hlt := ((keysOK_reachable hs).oname _ _ hop).2.1
    obtain ⟨op0, e0, etask⟩ := rel.ops _ op1 hlt hop1
    rw [hop] at e0; injection e0 with e0; subst e0
    rw [etask] at ht1
    exact hdone t1 ht1)
  refine ⟨r, s1, hrun, ?_, ?_⟩
  · obtain ⟨new, en, pn⟩ := (enter_frame hent).events
    rw [en, List.filter_append, filter_msg_nonclient c new pn]; rfl
  · rw [run_cons, hrun]
    rw [run_single]
    have : step s1 (.streamWake h T c 0) = .ok s2 := by rw [← hnow]; exact hwake
    rw [this]; exact hev

/-- **eventually_done (hand-off pending).**  The task was handed to a worker blocked in `Synchronize`
whose wake-up has not been delivered yet: delivering it (the worker receives `execute` and leaves
`Synchronize`), and then — the worker staying silent — advancing the clock beyond its new cleanup deadline
and delivering the client's wake-up sends `done`: three segments. -/
theorem eventually_done_handoff {s : State} (hs : Reachable s) (h : Hints) {c : Nat} {st : Stream}
    (hst : s.streams.find? (fun x => x.client = c) = some st) {op : Op} {t : Task}
    (hop : s.op? st.op = some op) (ht : s.task? op.task = some t) {q : ScqId} {w : WId} {wk : Worker}
    (htw : t.worker = some (q, w)) (hwk : s.worker? q w = some wk) (hwo : wk.woken = true) :
    ∃ s0, run s [.syncWake h s.now q w 0] = s0 ∧ Reachable s0 ∧ s0.now = s.now ∧
      ∃ e ∈ s0.cleanup, e.kind = .worker q w ∧ ∀ T, s.now < T → e.deadline ≤ T →
        ∃ (r : Resp) (s1 : State), run s0 [.touch h T] = s1 ∧
          (run s [.syncWake h s.now q w 0, .touch h T, .streamWake h T c 0]).events =
            .ret c cOK :: .msg c st.op 4 true r.code r.tok :: s1.events := by
  obtain ⟨hm, hq, hw'⟩ := worker?_mem hwk
  subst hq; subst hw'
  have hok := (winv_reachable hs).ok wk hm
  obtain ⟨hin, _, _⟩ := hok.woken hwo
  -- the worker holds exactly this task
  have hI := BbRe.Lemmas.SchedInv.inv_reachable hs
  obtain ⟨wk', hf', htk'⟩ := hI.core.p2 _ t wk.scq wk.id ht htw
  have : s.worker? wk.scq wk.id = some wk' := hf'
  rw [hwk] at this; injection this with this; subst this
  have hsome : wk.task.isSome = true := by rw [htk']; rfl
  have hexec : execResponse (s.setWorker { wk with woken := false }) wk =
      .ok (emit (s.setWorker { wk with woken := false }) (.syncExecute wk.scq wk.id t.digest (s.now + s.cfg.busyInterval))) := by
    unfold execResponse
    simp only [htk', pure, Except.pure]
    split
    · rename_i t2 heq
      have h2 : some t2 = some t := heq.symm.trans ht
      injection h2 with h2; subst h2; rfl
    · rename_i hne
      exact absurd ht (hne t)
  have hstep : step s (.syncWake h s.now wk.scq wk.id 0) =
      .ok (syncReturn (emit (s.setWorker { wk with woken := false })
        (.syncExecute wk.scq wk.id t.digest (s.now + s.cfg.busyInterval))) wk.scq wk.id) := by
    show syncWake h s s.now wk.scq wk.id 0 = _
    rw [syncWake_woken h s wk.scq wk.id wk hwk hin hwo, if_pos hsome, hexec]; rfl
  let s0 : State := syncReturn (emit (s.setWorker { wk with woken := false })
    (.syncExecute wk.scq wk.id t.digest (s.now + s.cfg.busyInterval))) wk.scq wk.id
  have hrun0 : run s [.syncWake h s.now wk.scq wk.id 0] = s0 := by rw [run_single, hstep]
  have hs0 : Reachable s0 := Reachable.step _ hs hstep
  -- shape of `s0`
  have hA : (emit (s.setWorker { wk with woken := false })
      (.syncExecute wk.scq wk.id t.digest (s.now + s.cfg.busyInterval))).worker? wk.scq wk.id = some { wk with woken := false } := by
    show (s.setWorker { wk with woken := false }).worker? wk.scq wk.id = _
    rw [worker?_setWorker, if_pos ⟨rfl, rfl⟩, hwk]; rfl
  have hs0eq : s0 = ((emit (s.setWorker { wk with woken := false })
      (.syncExecute wk.scq wk.id t.digest (s.now + s.cfg.busyInterval))).setWorker
        { wk with woken := false, inSync := false, parked := false, drainWait := none, timer := none }).addCleanup
        (s.now + s.cfg.workerTimeout) (.worker wk.scq wk.id) := by
    show syncReturn _ wk.scq wk.id = _
    unfold syncReturn; rw [hA]; rfl
  have hwk0 : s0.worker? wk.scq wk.id = some { wk with woken := false, inSync := false, parked := false, drainWait := none, timer := none } := by
    rw [hs0eq]
    show ((emit (s.setWorker { wk with woken := false }) _).setWorker _).worker? wk.scq wk.id = _
    rw [worker?_setWorker, if_pos ⟨rfl, rfl⟩, hA]; rfl
  have hst0 : s0.streams.find? (fun x => x.client = c) = some st := by rw [hs0eq]; exact hst
  have hop0 : s0.op? st.op = some op := by rw [hs0eq]; exact hop
  have ht0 : s0.task? op.task = some t := by rw [hs0eq]; exact ht
  have hnow0 : s0.now = s.now := by rw [hs0eq]; rfl
  refine ⟨s0, hrun0, hs0, hnow0, ?_⟩
  obtain ⟨e, he, hek, hall⟩ := eventually_done_exec hs0 h hst0 hop0 ht0 htw hwk0 rfl
  refine ⟨e, he, hek, ?_⟩
  intro T hT hd
  obtain ⟨r, s1, hr1, _, hev⟩ := hall T (by rw [hnow0]; exact hT) hd
  refine ⟨r, s1, hr1, ?_⟩
  rw [run_cons, hrun0]; exact hev

end BbRe.Lemmas.SchedLive
