import BbRe.Lemmas.SchedTreeFnDefs
import BbRe.Lemmas.SchedLiveRoute
/-!
`task.complete` at the level of the tree layer's functions: the tree part of the invariant is kept by
`tComplete` (final completion, background learning task, retry on the largest size class).
-/
namespace BbRe.Lemmas.SchedTree
open BbRe.Sched BbRe.SchedTree BbRe.Lemmas.SchedInv

/-- every operation is stored under its own name (`OInv.oid` without the bound) -/
def OID (s : State) : Prop := ∀ k op, s.op? k = some op → op.name = k

theorem OID.of_ops {s s' : State} (h : OID s) (e : s'.ops = s.ops) : OID s' := by
  intro k op hk; apply h k op; unfold State.op? at hk ⊢; rw [← e]; exact hk

theorem OID.of_inv {ex exo} {s : State} (h : InvX ex exo s) : OID s := by
  intro k op hk; rw [op?_def] at hk; exact (h.oinv.oid k op hk).1

/-- a step of `Sched` that the tree layer does not see keeps its invariant -/
theorem TInvX.frame {ex exo X} {ts : TState} {s' : State} (hT : TInvX ex exo X ts) (hf : SFrame ts.s s')
    (hnt : s'.nextTask = ts.s.nextTask) (hno : s'.nextOp = ts.s.nextOp) : TInvX ex exo X (ts.setS s') :=
  ⟨hT.inv.of_eq hf.tasks hf.workers hnt hno, TreeOK.of_sframe hT.tree hf, Side.of_sframe hT.side hf⟩

/-! ### a new task -/

/-- a new task that is neither queued nor assigned yet, with one new operation -/
theorem MInv.newTask {ex} {s s' : State} (h : MInv ex s) {t : Task} (hid : t.id = s.nextTask) (hw : t.worker = none)
    (hq : t.queued = false) (hops : t.ops = [s.nextOp])
    (hst : s'.tasks = aset t.id t s.tasks) (hsw : s'.workers = s.workers) (hnt : s'.nextTask = s.nextTask + 1)
    (hno : s'.nextOp = s.nextOp + 1) : MInv (fun k => ex k ∨ k = t.id) s' := by
  minv_facts h
  have hfresh : alookup t.id s.tasks = none := by
    cases hl : alookup t.id s.tasks with
    | none => rfl
    | some t0 => have := (h_tid _ _ hl).2; omega
  refine ⟨⟨?_, ?_, ?_, ?_, ?_, ?_, ?_⟩, ⟨?_, ?_, ?_⟩⟩
  all_goals (try rw [hst])
  all_goals (try rw [hsw])
  all_goals (try rw [hnt])
  all_goals (try rw [hno])
  · exact nodup_aset _ _ _ h_tnd
  · intro k t' hk
    rw [alookup_aset] at hk
    split at hk
    · cases hk; rename_i e; exact ⟨e, by omega⟩
    · have := h_tid k t' hk; exact ⟨this.1, by omega⟩
  · intro k t' q w hk hw'
    rw [alookup_aset] at hk
    split at hk
    · cases hk; rw [hw] at hw'; cases hw'
    · exact h_p2 k t' q w hk hw'
  · intro k t' hk hw'
    rw [alookup_aset] at hk
    split at hk
    · cases hk; rw [hw] at hw'; cases hw'
    · exact h_p3 k t' hk hw'
  · intro k t' hk hq'
    rw [alookup_aset] at hk
    split at hk
    · cases hk; rw [hq] at hq'; cases hq'
    · exact h_q1 k t' hk hq'
  · intro k t' hk hr'
    rw [alookup_aset] at hk
    split at hk
    · rename_i e; exact Or.inr (Or.inr (Or.inr e.symm))
    · rcases h_q2 k t' hk hr' with a | a | a
      · exact Or.inl a
      · exact Or.inr (Or.inl a)
      · exact Or.inr (Or.inr (Or.inl a))
  · exact h_w1
  · intro k t' hk
    rw [alookup_aset] at hk
    split at hk
    · cases hk; rw [hops]; exact ⟨by simp, by simp⟩
    · exact h_o3 k t' hk
  · intro k t1 k' t2 o h1 h2 ho1 ho2
    rw [alookup_aset] at h1 h2
    split at h1 <;> split at h2
    · rename_i e1 e2; rw [← e1, ← e2]
    · cases h1; rw [hops] at ho1
      have := h_bound k' t2 o h2 ho2
      simp at ho1; omega
    · cases h2; rw [hops] at ho2
      have := h_bound k t1 o h1 ho1
      simp at ho2; omega
    · exact h_own k t1 k' t2 o h1 h2 ho1 ho2
  · intro k t' o hk ho
    rw [alookup_aset] at hk
    split at hk
    · cases hk; rw [hops] at ho; simp at ho; omega
    · have := h_bound k t' o hk ho; omega

/-! ### `getOrCreateInvocation` of an invocation that has queued operations -/

theorem getOrCreate_single (ns : List Node) (q : ScqId) (k : Nat) (now : Nat) :
    getOrCreate ns q [k] now = if (node? ns q [k]).isSome then ns else ns ++ [mkNode q [k] now] := rfl

theorem getOrCreate_of_queuedHere {ns : List Node} {q : ScqId} {k now m : Nat} (hm : m ≠ 0)
    (h : queuedHere (getOrCreate ns q [k] now) q [k] ≥ m) : getOrCreate ns q [k] now = ns := by
  rw [getOrCreate_single] at h ⊢
  split
  · rfl
  · rename_i hn
    exfalso
    rw [if_neg hn] at h
    have hnone : node? ns q [k] = none := by
      cases hx : node? ns q [k] with
      | none => rfl
      | some n => rw [hx] at hn; exact absurd rfl hn
    have : node? (ns ++ [mkNode q [k] now]) q [k] = some (mkNode q [k] now) := by
      unfold node? at hnone ⊢
      rw [List.find?_append, hnone]
      simp [mkNode, Node.isAt]
    unfold queuedHere at h
    rw [this] at h
    simp [mkNode] at h
    exact hm h

/-! ### `task.schedule` leaves the operation table alone -/

theorem schedule_ops {h : Hints} {s s' : State} {tid : Nat} (hh : schedule h s tid = .ok s') :
    s'.ops = s.ops ∧ s'.nextOp = s.nextOp ∧ s'.nextTask = s.nextTask := by
  unfold schedule assignTo at hh
  tpaths hh
  all_goals (cases hh; exact ⟨rfl, rfl, rfl⟩)

theorem tSchedule_ops {h : Hints} {ts ts' : TState} {tid : Nat} (hh : tSchedule h ts tid = .ok ts') :
    ts'.s.ops = ts.s.ops ∧ ts'.s.nextOp = ts.s.nextOp ∧ ts'.s.nextTask = ts.s.nextTask :=
  schedule_ops (tSchedule_ref h ts tid ts' hh)

/-! ### the background learning task -/

/-- too many background tasks are queued already: the invocation exists, nothing is created -/
theorem bg_abandon_tinv {ex exo} {B ts' : TState} (hB : TInvX ex exo [] B) {q : ScqId} {k now m : Nat} (hm : m ≠ 0)
    (hq : queuedHere (getOrCreate B.nodes q [k] now) q [k] ≥ m) (hf : SFrame B.s ts'.s)
    (hnt : ts'.s.nextTask = B.s.nextTask) (hno : ts'.s.nextOp = B.s.nextOp)
    (hn : ts'.nodes = getOrCreate B.nodes q [k] now) (hw : ts'.wx = B.wx) (ho : ts'.ox = B.ox) :
    TInvX ex exo [] ts' := by
  have h1 := hB.frame hf hnt hno
  exact TInvX.mk' h1.inv (TS.of_fields h1.ts rfl (hn.trans (getOrCreate_of_queuedHere hm hq)) hw ho)

/-- a new task with one new operation in invocation `inv` is created and scheduled -/
theorem bg_schedule_tinv {exo} {h : Hints} {B ts0 ts' : TState} {bt : Task} {bo : Op} {inv : List Nat}
    (hh : tSchedule h ts0 bt.id = .ok ts') (hB : TInvX (fun _ => False) exo [] B) (hoid : OID B.s)
    (hbt : bt.id = B.s.nextTask ∧ bt.worker = none ∧ bt.queued = false ∧ bt.ops = [B.s.nextOp] ∧ bt.response = none)
    (hscq : ∃ sq ∈ B.s.scqs, sq.id = bt.scq) (hbo : bo.name = B.s.nextOp ∧ bo.inv = inv)
    (hst : ts0.s.tasks = aset bt.id bt B.s.tasks) (hsw : ts0.s.workers = B.s.workers) (hsq : ts0.s.scqs = B.s.scqs)
    (hso : ts0.s.ops = aset bo.name bo B.s.ops)
    (hnt : ts0.s.nextTask = B.s.nextTask + 1) (hno : ts0.s.nextOp = B.s.nextOp + 1) (hnow : ts0.s.now = B.s.now)
    (h0n : ts0.nodes = getOrCreate B.nodes bt.scq inv ts0.s.now)
    (h0w : ts0.wx = B.wx) (h0o : ts0.ox = aset B.s.nextOp ⟨inv, bo.prio⟩ B.ox) : TInvX (fun _ => False) exo [] ts' ∧ OID ts'.s := by
  obtain ⟨b1, b2, b3, b4, b5⟩ := hbt
  have hfresh : alookup bt.id B.s.tasks = none := by
    cases hl : alookup bt.id B.s.tasks with
    | none => rfl
    | some t0 => have := (hB.inv.core.tid _ _ hl).2; omega
  have hopf : ∀ k t', alookup k B.s.tasks = some t' → B.s.nextOp ∉ t'.ops := by
    intro k t' hk hm; have := hB.inv.oinv.bound k t' _ hk hm; omega
  have hso' : ∀ o op', ts0.s.op? o = some op' → (o = B.s.nextOp ∧ op'.inv = inv ∧ op'.prio = bo.prio) ∨
      (o ≠ B.s.nextOp ∧ ∃ op, B.s.op? o = some op ∧ op'.inv = op.inv ∧ op'.prio = op.prio) := by
    intro o op' ho
    rw [op?_def, hso, alookup_aset, hbo.1] at ho
    split at ho
    · rename_i e; cases ho; exact Or.inl ⟨e.symm, hbo.2, rfl⟩
    · rename_i e; exact Or.inr ⟨fun e' => e e'.symm, op', by rw [op?_def]; exact ho, rfl, rfl⟩
  obtain ⟨n1, n2, n3⟩ := newTask_ts (t := bt) (opn := B.s.nextOp) (inv := inv) (prio := bo.prio) (y := ⟨0, 0⟩) (s' := ts0.s)
    hB hfresh hopf b2 b3 b4 hscq hst hsw hsq hnow hso'
  have hinv : ∀ o, ts0.invOf o =
      ((((B.setOX B.s.nextOp ⟨inv, bo.prio⟩).setTX bt.id ⟨0, 0⟩).setS ts0.s).create bt.scq inv).invOf o := by
    intro o; unfold TState.invOf; rw [h0o]; rfl
  have hM : MInv (fun k => False ∨ k = bt.id) ts0.s := hB.inv.newTask b1 b2 b3 b4 hst hsw hnt hno
  have hT0 : TInvX (fun k => False ∨ k = bt.id) exo ([] ++ (prefixes inv).map (fun pi => (bt.scq, pi))) ts0 :=
    TInvX.mk' hM (TS.of_fields n1 rfl h0n h0w h0o)
  have htk : alookup bt.id ts0.s.tasks = some bt := by rw [hst, alookup_aset]; simp
  have hres := tSchedule_tinv hT0 htk b5 b2 b3
    (by intro o ho; rw [b4] at ho; simp only [List.mem_singleton] at ho; subst ho
        rw [hinv, n3, h0n]; exact n2)
    (by intro x hx
        simp only [List.nil_append, List.mem_map] at hx
        obtain ⟨pi, hpi, e⟩ := hx
        refine ⟨B.s.nextOp, by rw [b4]; exact List.mem_singleton.mpr rfl, ?_⟩
        rw [hinv, n3, ← e]
        simp only [onPathOf, decide_true, Bool.true_and]
        exact List.isPrefixOf_iff_prefix.mpr (mem_prefixes.mp hpi).1)
    hh
  obtain ⟨o1, o2, o3⟩ := tSchedule_ops hh
  refine ⟨⟨hres.inv.mono ?_, hres.tree, hres.side⟩, ?_⟩
  · rintro k ⟨hk | hk, hne⟩
    · exact hk
    · exact hne hk
  · intro k op hk
    rw [op?_def, o1, hso, alookup_aset] at hk
    split at hk
    · rename_i e; cases hk; rw [e]
    · exact hoid k op (by rw [op?_def]; exact hk)

/-! ### successful completion -/

theorem tSucc_tinv {exo} {h : Hints} {x : Extras} {ts ts' : TState} {t : Task} {bw : Bool} {l : Nat} {r : Resp}
    (hT : TInvX (fun _ => False) exo [] ts) (ht : alookup t.id ts.s.tasks = some t) (hr : t.response = none)
    (hoid : OID ts.s)
    (hh : tCompleteSucc h x ((ts.detachTree t bw).setS (BbRe.SchedTree.detachW ts.s t)) (BbRe.SchedTree.detachT t) l r = .ok ts') :
    TInvX (fun _ => False) exo [] ts' ∧ OID ts'.s := by
  have htD : (BbRe.SchedTree.detachT t).id = t.id ∧ (BbRe.SchedTree.detachT t).worker = none ∧
      (BbRe.SchedTree.detachT t).queued = false ∧ (BbRe.SchedTree.detachT t).ops = t.ops :=
    ⟨detachT_id t, rfl, detachT_queued t (queued_false_of_worker hT.inv ht), detachT_ops t⟩
  unfold tCompleteSucc at hh
  simp only [bind, Except.bind, pure, Except.pure] at hh
  split at hh
  · cases hh
  rename_i s1 hf
  obtain ⟨hB, hoid1, e1, e2, e3, e4, e5⟩ := tFinal_tinv (bw := bw) (tD := { BbRe.SchedTree.detachT t with learner := none })
    hT ht hr (fun h => h) hoid htD hf
  split at hh
  · cases hh; exact ⟨hB, hoid1⟩
  rename_i bgIdx hbg
  split at hh <;> try (cases hh; done)
  rename_i pq hpq
  split at hh
  · cases hh
    exact ⟨hB.frame (SFrame.of_eq rfl rfl rfl rfl rfl rfl) rfl rfl, OID.of_ops hoid1 rfl⟩
  rename_i hmax
  split at hh <;> try (cases hh; done)
  rename_i bsc hbsc
  split at hh <;> try (cases hh; done)
  rename_i hcross
  split at hh
  · rename_i hcnt
    cases hh
    have hq := (decide_eq_decide.mp (Decidable.of_not_not hcross)).mp hcnt
    exact ⟨bg_abandon_tinv (B := (ts.detachTree t bw).setS s1) hB hmax hq (SFrame.of_eq rfl rfl rfl rfl rfl rfl)
      rfl rfl rfl rfl rfl, OID.of_ops hoid1 rfl⟩
  · have hscq : ∃ sq ∈ s1.scqs, sq.id = ⟨(BbRe.SchedTree.detachT t).scq.pq, bsc⟩ :=
      BbRe.Lemmas.SchedLive.getElem?_mem_sizes hbsc
    refine bg_schedule_tinv (B := (ts.detachTree t bw).setS s1) (inv := [0])
      (bt := { id := s1.nextTask, digest := (BbRe.SchedTree.detachT t).digest, dkey := (BbRe.SchedTree.detachT t).dkey,
               doNotCache := true, scq := ⟨(BbRe.SchedTree.detachT t).scq.pq, bsc⟩, ops := [s1.nextOp], worker := none,
               retry := 0, response := none, gen := 0, learner := some s1.nextLearner, background := true,
               queued := false }) hh hB hoid1
      ⟨rfl, rfl, rfl, rfl, rfl⟩ hscq ⟨rfl, rfl⟩ rfl rfl rfl rfl rfl rfl rfl ?_ rfl rfl
    show getOrCreate _ _ _ (BbRe.SchedTree.detachW ts.s t).now = getOrCreate _ _ _ s1.now
    rw [e3, (detachW_next ts.s t).2.2]
    rfl

/-! ### retry on the largest size class -/

/-- a task record is replaced by one with the same id, worker, queue flag, response and operations -/
theorem MInv.taskset {ex} {s s' : State} (h : MInv ex s) {t t' : Task} (ht : alookup t.id s.tasks = some t)
    (hk : t'.id = t.id ∧ t'.worker = t.worker ∧ t'.queued = t.queued ∧ t'.ops = t.ops ∧ t'.response = t.response)
    (hst : s'.tasks = aset t.id t' s.tasks) (hsw : s'.workers = s.workers) (hnt : s'.nextTask = s.nextTask)
    (hno : s'.nextOp = s.nextOp) : MInv ex s' := by
  minv_facts h
  obtain ⟨a, b, c, d, e⟩ := hk
  refine ⟨⟨?_, ?_, ?_, ?_, ?_, ?_, ?_⟩, ⟨?_, ?_, ?_⟩⟩
  all_goals (try rw [hst])
  all_goals (try rw [hsw])
  all_goals (try rw [hnt])
  all_goals (try rw [hno])
  all_goals grind

/-- `for o in t.operations { getOrCreateInvocation(o.invocation keys) }` in the queue of `t` -/
theorem createOps_ts {ex exo X} {C : TState} (hC : TInvX ex exo X C) (t : Task) (hscq : ∃ sq ∈ C.s.scqs, sq.id = t.scq) :
    TS (X ++ t.ops.flatMap (fun o => (prefixes (C.invOf o)).map (fun pi => (t.scq, pi)))) (C.createOps t) ∧
    ∀ o ∈ t.ops, (node? (C.createOps t).nodes t.scq (C.invOf o)).isSome = true := by
  obtain ⟨sq, hsq, hid⟩ := hscq
  have hroot : (node? C.nodes t.scq []).isSome = true := by rw [← hid]; exact hC.side.roots sq hsq
  obtain ⟨a, b, c⟩ := createOps_ok hC.tree t.scq C.invOf C.s.now t.ops hroot
  refine ⟨⟨a, ?_⟩, b⟩
  have hsn := side_nodes hC.side (createOps_nframe C t) (scqs' := C.s.scqs)
    (by intro q hq; simp only [List.mem_singleton] at hq; subst hq; exact ⟨sq, hsq, hid⟩)
    (fun _ h => h) (fun _ h => Or.inl h)
  exact Side.of_nodes (ts' := C.createOps t) hC.side hsn.1 hsn.2 rfl rfl rfl rfl rfl

/-- the size-class queue of a task that is queued or executing exists -/
theorem live_scq_exists {exo X} {ts : TState} {t : Task} (hT : TInvX (fun _ => False) exo X ts)
    (ht : alookup t.id ts.s.tasks = some t) (hr : t.response = none) : ∃ sq ∈ ts.s.scqs, sq.id = t.scq := by
  obtain ⟨o, ho⟩ := List.exists_mem_of_ne_nil _ (hT.inv.oinv.o3 t.id t ht).2
  have hnode : ∃ p, (node? ts.nodes t.scq p).isSome = true := by
    rcases hT.inv.core.q2 t.id t ht hr with hq | hw | hf
    · exact ⟨_, hT.tree.rfQ _ (mem_bagQ_of_task ht hq ho)⟩
    · cases hw' : t.worker with
      | none => rw [hw'] at hw; cases hw
      | some qw => exact ⟨_, hT.tree.rfE _ (mem_bagE_of_task (q0 := qw.1) (w := qw.2) ht hw' ho)⟩
    · exact absurd hf id
  obtain ⟨p, hp⟩ := hnode
  obtain ⟨n, hn, hq, _⟩ := node?_isSome_iff.mp hp
  obtain ⟨sq, h1, h2⟩ := hT.side.nscq n hn
  exact ⟨sq, h1, h2.trans hq⟩

theorem largestScq_exists {s : State} {q : ScqId} (h : ∃ sq ∈ s.scqs, sq.id = q) :
    ∃ sq ∈ s.scqs, sq.id = largestScq s q := by
  unfold largestScq
  split
  · rename_i sc hsc
    exact BbRe.Lemmas.SchedLive.mem_sizes.mp (List.mem_of_getLast? hsc)
  · exact h

/-- the operations of the detached task are transplanted to the queue of `tr`, the task is rescheduled and
its generation bumped -/
theorem retry_schedule_tinv {exo} {h : Hints} {ts ts0 ts2 : TState} {t tr t2 : Task} {bw : Bool}
    (hsch : tSchedule h ts0 tr.id = .ok ts2) (ht2 : ts2.s.task? tr.id = some t2)
    (hT : TInvX (fun _ => False) exo [] ts) (ht : alookup t.id ts.s.tasks = some t) (hr : t.response = none)
    (hoid : OID ts.s)
    (hk : tr.id = t.id ∧ tr.worker = none ∧ tr.queued = false ∧ tr.ops = t.ops ∧ tr.response = none)
    (hscq : ∃ sq ∈ ts.s.scqs, sq.id = tr.scq)
    (hst : ts0.s.tasks = aset t.id tr ts.s.tasks) (hsw : ts0.s.workers = (BbRe.SchedTree.detachW ts.s t).workers)
    (hsq : ts0.s.scqs = ts.s.scqs) (hnt : ts0.s.nextTask = ts.s.nextTask) (hno : ts0.s.nextOp = ts.s.nextOp)
    (hso : ts0.s.ops = ts.s.ops)
    (h0n : ts0.nodes = (((ts.detachTree t bw).setS ts0.s).createOps tr).nodes)
    (h0w : ts0.wx = (ts.detachTree t bw).wx) (h0o : ts0.ox = (ts.detachTree t bw).ox) :
    TInvX (fun _ => False) exo [] (ts2.setS (ts2.s.setTask (bumpGen t2))) ∧
      OID (ts2.setS (ts2.s.setTask (bumpGen t2))).s := by
  obtain ⟨k1, k2, k3, k4, k5⟩ := hk
  have hC := detach_tinv (bw := bw) (s1 := ts0.s) (t' := tr) hT ht hr (fun h => h) ⟨k1, k2, k3, k4⟩ hst hsw hsq hnt hno
    (op?_of_ops hso)
  obtain ⟨c1, c2⟩ := createOps_ts hC tr (by rw [show ((ts.detachTree t bw).setS ts0.s).s.scqs = ts.s.scqs from hsq]; exact hscq)
  have hinv : ∀ o, ts0.invOf o = ((ts.detachTree t bw).setS ts0.s).invOf o := by
    intro o; unfold TState.invOf; rw [h0o]; rfl
  have hT0 := TInvX.mk' (exo := exo) (ts := ts0) (show MInv _ ts0.s from hC.inv) (TS.of_fields (ts2 := ts0) c1 rfl h0n h0w h0o)
  have htk : alookup tr.id ts0.s.tasks = some tr := by rw [hst, k1, alookup_aset]; simp
  have hres := tSchedule_tinv hT0 htk k5 k2 k3
    (by intro o ho; rw [hinv, h0n]; exact c2 o ho)
    (by intro x hx
        simp only [List.nil_append, List.mem_flatMap, List.mem_map] at hx
        obtain ⟨o, ho, pi, hpi, e⟩ := hx
        refine ⟨o, ho, ?_⟩
        rw [hinv, ← e]
        simp only [onPathOf, decide_true, Bool.true_and]
        exact List.isPrefixOf_iff_prefix.mpr (mem_prefixes.mp hpi).1)
    hsch
  have hres' : TInvX (fun _ => False) exo [] ts2 := ⟨hres.inv.mono (by
    rintro k ⟨hk | ⟨hk, _⟩, hne⟩
    · exact hk
    · exact hne (hk.trans k1.symm)), hres.tree, hres.side⟩
  obtain ⟨o1, o2, o3⟩ := tSchedule_ops hsch
  rw [task?_def] at ht2
  have hid2 : t2.id = tr.id := (hres'.inv.core.tid _ _ ht2).1
  have ht2' : alookup t2.id ts2.s.tasks = some t2 := by rw [hid2]; exact ht2
  have hst2 : (ts2.s.setTask (bumpGen t2)).tasks = aset t2.id (bumpGen t2) ts2.s.tasks := rfl
  refine ⟨TInvX.mk' ?_ (taskset_ts (t' := bumpGen t2) hres' ht2' ⟨rfl, rfl, rfl, rfl, rfl⟩ hst2 rfl rfl (op?_of_ops rfl)), ?_⟩
  · exact hres'.inv.taskset (t' := bumpGen t2) ht2' ⟨rfl, rfl, rfl, rfl, rfl⟩ hst2 rfl rfl rfl
  · apply OID.of_ops hoid
    show ts2.s.ops = ts.s.ops
    rw [o1, hso]

theorem tRetry_tinv {exo} {h : Hints} {x : Extras} {ts ts' : TState} {t : Task} {bw : Bool} {l : Nat} {r : Resp}
    (hT : TInvX (fun _ => False) exo [] ts) (ht : alookup t.id ts.s.tasks = some t) (hr : t.response = none)
    (hoid : OID ts.s)
    (hh : tCompleteRetry h x ((ts.detachTree t bw).setS (BbRe.SchedTree.detachW ts.s t)) (BbRe.SchedTree.detachT t) l r = .ok ts') :
    TInvX (fun _ => False) exo [] ts' ∧ OID ts'.s := by
  have hq0 := detachT_queued t (queued_false_of_worker hT.inv ht)
  unfold tCompleteRetry at hh
  simp only [bind, Except.bind, pure, Except.pure] at hh
  split at hh
  · cases hh
  rename_i ts2 hsch
  split at hh <;> try (cases hh; done)
  rename_i t2 ht2
  cases hh
  have hD := detachW_next ts.s t
  refine retry_schedule_tinv (bw := bw) (t := t)
    (tr := { BbRe.SchedTree.detachT t with
      learner := some (BbRe.SchedTree.detachW ts.s t).nextLearner,
      scq := largestScq (emit { BbRe.SchedTree.detachW ts.s t with nextLearner := (BbRe.SchedTree.detachW ts.s t).nextLearner + 1 }
        (.learnerFailed l (decide (r.code = cDeadlineExceeded)) (some (BbRe.SchedTree.detachW ts.s t).nextLearner)))
        (BbRe.SchedTree.detachT t).scq })
    hsch ht2 hT ht hr hoid
    ⟨detachT_id t, rfl, hq0, detachT_ops t, (detachT_response t).trans hr⟩ ?_ ?_ rfl (detachW_scqs _ _) hD.1 hD.2.1
    (detachW_ops _ _) ?_ rfl rfl
  · have h1 : ∃ sq ∈ (BbRe.SchedTree.detachW ts.s t).scqs, sq.id = (BbRe.SchedTree.detachT t).scq := by
      rw [detachW_scqs, detachT_scq]; exact live_scq_exists hT ht hr
    obtain ⟨sq, hm, he⟩ := largestScq_exists (s := emit { BbRe.SchedTree.detachW ts.s t with nextLearner := (BbRe.SchedTree.detachW ts.s t).nextLearner + 1 }
        (.learnerFailed l (decide (r.code = cDeadlineExceeded)) (some (BbRe.SchedTree.detachW ts.s t).nextLearner))) h1
    exact ⟨sq, by rw [← detachW_scqs ts.s t]; exact hm, he⟩
  · show aset (BbRe.SchedTree.detachT t).id _ (BbRe.SchedTree.detachW ts.s t).tasks = _
    rw [detachW_tasks]
    conv => lhs; arg 1; rw [detachT_id]
    rfl
  · rfl

/-! ### `task.complete` -/

/-- what `task.complete` leaves behind when the task does not run again and no background task is created -/
structure DonePost (s : State) (tid : Nat) (s' : State) : Prop where
  done : ∃ t', alookup tid s'.tasks = some t' ∧ t'.response.isSome = true ∧
    ∀ t, alookup tid s.tasks = some t → t'.ops = t.ops
  others : ∀ k, k ≠ tid → alookup k s'.tasks = alookup k s.tasks
  ops : ∀ o, s.op? o = none → s'.op? o = none

theorem final_post {ts : TState} {t tD : Task} {ev : Event} {r : Resp} {s1 : State}
    (ht : alookup t.id ts.s.tasks = some t) (hoid : OID ts.s) (htD : tD.id = t.id ∧ tD.ops = t.ops)
    (hf : complete.finalize (emit (BbRe.SchedTree.detachW ts.s t) ev) tD r = .ok s1) : DonePost ts.s t.id s1 := by
  have hoid0 : ∀ k op, (emit (BbRe.SchedTree.detachW ts.s t) ev).op? k = some op → op.name = k := by
    intro k op h; apply hoid k op; simpa [emit, State.op?, detachW_ops] using h
  obtain ⟨f1, _, _, _, _, _, _, _, f9, _⟩ := finalize_fields hoid0 hf
  have f1' : s1.tasks = aset t.id (bumpGen { tD with response := some r }) ts.s.tasks := by
    rw [f1, htD.1]; show aset t.id _ (BbRe.SchedTree.detachW ts.s t).tasks = _; rw [detachW_tasks]
  refine ⟨⟨bumpGen { tD with response := some r }, by rw [f1', alookup_aset]; simp, rfl, ?_⟩, ?_, ?_⟩
  · intro t0 h0; rw [ht] at h0; cases h0; exact htD.2
  · intro k hk; rw [f1', alookup_aset]; rw [if_neg (fun e => hk e.symm)]
  · intro o ho
    cases h1 : s1.op? o with
    | none => rfl
    | some op' =>
      obtain ⟨op, h2, _⟩ := f9 o op' h1
      have : ts.s.op? o = some op := by simpa [emit, State.op?, detachW_ops] using h2
      rw [ho] at this; cases this

theorem tComplete_tinv {exo} {h : Hints} {x : Extras} {ts ts' : TState} {tid : Nat} {r : Resp} {bw : Bool}
    (hT : TInvX (fun _ => False) exo [] ts) (hoid : OID ts.s) (hh : tComplete h x ts tid r bw = .ok ts') :
    TInvX (fun _ => False) exo [] ts' ∧ OID ts'.s ∧
      (¬ (r.code = cOK ∧ r.exit = 0) → (bw = false ∨ h.retry = false) → DonePost ts.s tid ts'.s) := by
  unfold tComplete at hh
  simp only [bind, Except.bind, pure, Except.pure, task?_def] at hh
  split at hh <;> try (cases hh; done)
  rename_i t ht0
  have hid : t.id = tid := (hT.inv.core.tid tid t ht0).1
  have ht : alookup t.id ts.s.tasks = some t := by rw [hid]; exact ht0
  split at hh
  · cases hh
    rename_i hdone
    exact ⟨hT, hoid, fun _ _ => ⟨⟨t, ht0, hdone, fun t0 h0 => by rw [ht0] at h0; cases h0; rfl⟩, fun _ _ => rfl, fun _ h => h⟩⟩
  rename_i hnd
  have hr : t.response = none := by
    cases hx : t.response with
    | none => rfl
    | some _ => rw [hx] at hnd; exact absurd rfl hnd
  split at hh <;> try (cases hh; done)
  rename_i l hl
  have htD : (BbRe.SchedTree.detachT t).id = t.id ∧ (BbRe.SchedTree.detachT t).worker = none ∧
      (BbRe.SchedTree.detachT t).queued = false ∧ (BbRe.SchedTree.detachT t).ops = t.ops :=
    ⟨detachT_id t, rfl, detachT_queued t (queued_false_of_worker hT.inv ht), detachT_ops t⟩
  split at hh
  · rename_i hok
    obtain ⟨a, b⟩ := tSucc_tinv hT ht hr hoid hh
    exact ⟨a, b, fun hn => absurd hok hn⟩
  rename_i hnok
  split at hh
  · rename_i hbw
    split at hh
    · rename_i hretry
      obtain ⟨a, b⟩ := tRetry_tinv hT ht hr hoid hh
      exact ⟨a, b, fun _ hor => by rcases hor with e | e <;> simp_all⟩
    · split at hh <;> try (cases hh; done)
      rename_i s1 hf
      cases hh
      obtain ⟨hB, hoid1, _⟩ := tFinal_tinv (bw := bw) (tD := { BbRe.SchedTree.detachT t with learner := none })
        hT ht hr (fun h => h) hoid htD hf
      exact ⟨hB, hoid1, fun _ _ => hid ▸ final_post (tD := { BbRe.SchedTree.detachT t with learner := none }) ht hoid ⟨htD.1, htD.2.2.2⟩ hf⟩
  · split at hh <;> try (cases hh; done)
    rename_i s1 hf
    cases hh
    obtain ⟨hB, hoid1, _⟩ := tFinal_tinv (bw := bw) (tD := { BbRe.SchedTree.detachT t with learner := none })
      hT ht hr (fun h => h) hoid htD hf
    exact ⟨hB, hoid1, fun _ _ => hid ▸ final_post (tD := { BbRe.SchedTree.detachT t with learner := none }) ht hoid ⟨htD.1, htD.2.2.2⟩ hf⟩

theorem completeOK : CompleteOK := by
  intro h x ts ts' tid r bw hI _ hh
  exact (tComplete_tinv hI.x (OID.of_inv hI.inv) hh).1.ts

end BbRe.Lemmas.SchedTree
