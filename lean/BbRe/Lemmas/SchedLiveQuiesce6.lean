import BbRe.Lemmas.SchedLiveQuiesce5
/-!
**Quiescence** (C06): after `quiesce` nothing created on behalf of clients or
workers is left.
-/
namespace BbRe.Lemmas.SchedLive
open BbRe.Sched

/-- nothing is left but predeclared queues and their queued background-learning tasks -/
structure Quiescent (s : State) : Prop where
  workers : s.workers = []
  streams : s.streams = []
  terms : s.terms = []
  cleanup : s.cleanup = []
  dedup : s.dedup = []
  queues : ∀ q sq, s.scq? q = some sq → sq.mayBeRemoved = false
  ops : ∀ o op, s.op? o = some op → op.mayExistWithoutWaiters = true ∧ op.waiters = 0
  tasks : ∀ k t, s.task? k = some t → t.background = true ∧ t.response = none ∧ t.worker = none ∧ t.queued = true
  opTask : ∀ o op, s.op? o = some op → ∃ t, s.task? op.task = some t ∧ o ∈ t.ops

theorem filter_notMem_map {α β} [DecidableEq β] (l : List α) (f : α → β) :
    l.filter (fun x => f x ∉ l.map f) = [] := by
  rw [List.filter_eq_nil_iff]
  intro x hx; simp only [decide_eq_true_eq, Classical.not_not]; exact List.mem_map.2 ⟨x, hx, rfl⟩

/-- a reachable state without streams, terms, cleanup entries and with all workers outside `Synchronize`
is quiescent, provided the waiter counts are exact -/
theorem quiescent_of_empty {s : State} (hq : QS s) (hst : s.streams = []) (htm : s.terms = [])
    (hcl : s.cleanup = []) (hws : ∀ wk ∈ s.workers, wk.inSync = false) : Quiescent s := by
  have hc := cinv_reachable hq.reach
  have hI := BbRe.Lemmas.SchedInv.inv_reachable hq.reach
  have hb := bgInv_reachable hq.reach
  have hno : ∀ k, ¬ hasK s k := by intro k ⟨e, he, _⟩; rw [hcl] at he; cases he
  have hw : s.workers = [] := by
    cases hl : s.workers with
    | nil => rfl
    | cons a r =>
      have hm : a ∈ s.workers := by rw [hl]; exact List.mem_cons_self ..
      exact absurd (hc.wOut a hm (hws a hm) (by simp [noEx])) (hno _)
  have hcnt : ∀ o, cnt s o = 0 := by intro o; unfold cnt; rw [hst]; rfl
  have hops : ∀ o op, s.op? o = some op → op.mayExistWithoutWaiters = true ∧ op.waiters = 0 := by
    intro o op e
    have hw0 : op.waiters = 0 := by rw [hq.weq o op e, hcnt]
    refine ⟨?_, hw0⟩
    cases hm : op.mayExistWithoutWaiters with
    | true => rfl
    | false =>
      rcases hc.opFg o op e hm (by simp [noEx]) with h | h
      · omega
      · exact absurd h (hno _)
  have htasks : ∀ k t, s.task? k = some t → t.background = true ∧ t.response = none ∧ t.worker = none ∧ t.queued = true := by
    intro k t ht
    -- the task has an operation, which is a background operation
    obtain ⟨hnd, hne⟩ := hI.oinv.o3 k t ht
    obtain ⟨o, ho⟩ := List.exists_mem_of_ne_nil _ hne
    obtain ⟨_, hex⟩ := hI.oinv.o2 k t o ht ho
    rcases hex with hf | ⟨op, hop, htk⟩
    · exact absurd hf (fun h => h)
    · obtain ⟨hm, _⟩ := hops o op hop
      have hbg := hb o op hop hm t (by rw [htk]; exact ht)
      obtain ⟨t', ht', hr'⟩ := hc.opBg o op hop hm
      rw [htk, ht] at ht'; injection ht' with ht'; subst ht'
      have hwn : t.worker = none := by
        cases hwk : t.worker with
        | none => rfl
        | some qw =>
          obtain ⟨q, w⟩ := qw
          obtain ⟨wk, hf, _⟩ := hI.core.p2 k t q w ht hwk
          rw [hw] at hf; simp [BbRe.Lemmas.SchedInv.wfind] at hf
      refine ⟨hbg, hr', hwn, ?_⟩
      rcases hI.core.q2 k t ht hr' with h | h | h
      · exact h
      · rw [hwn] at h; cases h
      · exact absurd h (fun h => h)
  refine ⟨hw, hst, htm, hcl, ?_, ?_, hops, htasks, hc.opT⟩
  · -- a deduplication entry would name a foreground task
    cases hd : s.dedup with
    | nil => rfl
    | cons p r =>
      obtain ⟨dk, k⟩ := p
      have hl : alookup dk s.dedup = some k := by rw [hd]; simp [alookup]
      obtain ⟨t, ht, _, _, _, hbg⟩ := hI.core.d1 dk k hl
      have := (htasks k t ht).1
      rw [hbg] at this; cases this
  · intro q sq e
    cases hm : sq.mayBeRemoved with
    | false => rfl
    | true =>
      rcases hc.scqW q sq e hm (by simp [noEx]) with ⟨wk, hmw, _⟩ | h
      · rw [hw] at hmw; cases hmw
      · exact absurd h (hno _)

/-- **quiescence.**  From every reachable state with exact waiter counts, `quiesce` reaches a reachable,
quiescent state. -/
theorem quiesce_spec {s : State} (hq : QS s) : Reachable (quiesce s) ∧ Quiescent (quiesce s) := by
  unfold quiesce
  simp only
  -- phase A
  have hqa : QS (run s (cancelSegs s.now (s.streams.map (·.client)))) :=
    qs_run hq _ (usedClients_of_none _ (by intro g hg; obtain ⟨c, _, rfl⟩ := List.mem_map.1 hg; rfl))
  obtain ⟨a1, a2⟩ := cancel_all s.now (s.streams.map (·.client)) s hq.reach rfl
  have hsa : (run s (cancelSegs s.now (s.streams.map (·.client)))).streams = [] := by
    rw [a1]; exact filter_notMem_map s.streams (·.client)
  generalize run s (cancelSegs s.now (s.streams.map (·.client))) = a at hqa hsa
  -- phase B
  have hqb : QS (run a (syncSegs a.now (a.workers.map wkey))) :=
    qs_run hqa _ (usedClients_of_none _ (by intro g hg; obtain ⟨c, _, rfl⟩ := List.mem_map.1 hg; rfl))
  obtain ⟨b1, b2, _, b4⟩ := sync_all a.now (a.workers.map wkey) a hqa.reach rfl
  have hwb : ∀ wk ∈ (run a (syncSegs a.now (a.workers.map wkey))).workers, wk.inSync = false := by
    intro wk hm
    cases hi : wk.inSync with
    | false => rfl
    | true =>
      obtain ⟨hnot, x, hx, e, _⟩ := b4 wk hm hi
      exact absurd (e ▸ List.mem_map.2 ⟨x, hx, rfl⟩) hnot
  have hsb : (run a (syncSegs a.now (a.workers.map wkey))).streams = [] := b1.trans hsa
  generalize run a (syncSegs a.now (a.workers.map wkey)) = b at hqb hwb hsb
  -- phase C
  have hqc : QS (run b (termSegs (b.terms.map (·.id)))) :=
    qs_run hqb _ (usedClients_of_none _ (by intro g hg; obtain ⟨c, _, rfl⟩ := List.mem_map.1 hg; rfl))
  obtain ⟨c1, c2, c3, _⟩ := term_all (b.terms.map (·.id)) b
  have htc : (run b (termSegs (b.terms.map (·.id)))).terms = [] := by
    rw [c1]; exact filter_notMem_map b.terms (·.id)
  have hsc : (run b (termSegs (b.terms.map (·.id)))).streams = [] := c2.trans hsb
  have hwc : ∀ wk ∈ (run b (termSegs (b.terms.map (·.id)))).workers, wk.inSync = false := by rw [c3]; exact hwb
  generalize run b (termSegs (b.terms.map (·.id))) = c at hqc htc hsc hwc
  -- phase D
  obtain ⟨d1, d2, d3, d4, d5⟩ := drain_spec (objCount c + 1) c hqc (Nat.lt_succ_self _)
  refine ⟨d1.reach, quiescent_of_empty d1 (d3.trans hsc) (d4.trans htc) d2 ?_⟩
  intro wk hm
  obtain ⟨x, hx, _, e⟩ := d5 wk hm
  rw [← e]; exact hwc x hx

/-- **quiescence along runs with fresh client ids.** -/
theorem quiesce_of_fresh (cfg : Cfg) (gs : List Seg) (hf : FreshClients gs) :
    Reachable (quiesce (run (State.init cfg) gs)) ∧ Quiescent (quiesce (run (State.init cfg) gs)) := by
  obtain ⟨a, b⟩ := weq_of_fresh cfg gs hf
  exact quiesce_spec ⟨reachable_run (Reachable.init cfg) gs, a, b⟩

end BbRe.Lemmas.SchedLive
