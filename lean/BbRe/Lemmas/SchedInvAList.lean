import BbRe.Model.SchedStep
/-!
Laws of the association-list helpers of `Model/Sched.lean` (`alookup`, `aset`,
`aerase`) and of the worker table (`worker?`, `setWorker`).
-/
namespace BbRe.Lemmas.SchedInv
open BbRe.Sched

/-- keys of an association list -/
def keys {α} (l : List (Nat × α)) : List Nat := l.map (·.1)

@[simp] theorem keys_nil {α} : keys ([] : List (Nat × α)) = [] := rfl
@[simp] theorem keys_cons {α} (p : Nat × α) (l) : keys (p :: l) = p.1 :: keys l := rfl

@[simp] theorem alookup_nil {α} (k : Nat) : alookup k ([] : List (Nat × α)) = none := rfl

theorem alookup_cons {α} (k : Nat) (p : Nat × α) (l) :
    alookup k (p :: l) = if p.1 = k then some p.2 else alookup k l := by
  cases p; rfl

theorem alookup_eq_none_iff {α} (k : Nat) (l : List (Nat × α)) : alookup k l = none ↔ k ∉ keys l := by
  induction l with
  | nil => simp
  | cons p l ih =>
    rw [alookup_cons]
    by_cases h : p.1 = k
    · simp [h]
    · simp only [h, if_false, ih, keys_cons, List.mem_cons, not_or]
      exact ⟨fun a => ⟨fun e => h e.symm, a⟩, fun a => a.2⟩

theorem alookup_isSome_iff {α} (k : Nat) (l : List (Nat × α)) : (alookup k l).isSome ↔ k ∈ keys l := by
  have := alookup_eq_none_iff k l
  cases h : alookup k l <;> simp_all

theorem mem_of_alookup {α} {k : Nat} {v : α} {l : List (Nat × α)} (h : alookup k l = some v) : (k, v) ∈ l := by
  induction l with
  | nil => simp at h
  | cons p l ih =>
    rw [alookup_cons] at h
    split at h
    · rename_i hk; cases h; cases p; simp_all
    · exact List.mem_cons_of_mem _ (ih h)

theorem alookup_of_mem {α} {k : Nat} {v : α} {l : List (Nat × α)} (hn : (keys l).Nodup) (h : (k, v) ∈ l) :
    alookup k l = some v := by
  induction l with
  | nil => simp at h
  | cons p l ih =>
    rw [alookup_cons]
    simp only [keys_cons, List.nodup_cons] at hn
    rcases List.mem_cons.mp h with h | h
    · subst h; simp
    · have : k ∈ keys l := List.mem_map.mpr ⟨(k, v), h, rfl⟩
      have hne : p.1 ≠ k := fun e => hn.1 (e ▸ this)
      simp [hne, ih hn.2 h]

theorem mem_iff_alookup {α} {k : Nat} {v : α} {l : List (Nat × α)} (hn : (keys l).Nodup) :
    (k, v) ∈ l ↔ alookup k l = some v := ⟨alookup_of_mem hn, mem_of_alookup⟩

theorem alookup_aset {α} (k k' : Nat) (v : α) (l : List (Nat × α)) :
    alookup k (aset k' v l) = if k' = k then some v else alookup k l := by
  induction l with
  | nil => simp [aset, alookup_cons]
  | cons p l ih =>
    obtain ⟨a, b⟩ := p
    unfold aset
    by_cases h : a = k'
    · subst h; simp only [if_true, alookup_cons]
      by_cases hk : a = k <;> simp [hk]
    · simp only [h, if_false, alookup_cons, ih]
      by_cases h2 : a = k
      · subst h2
        have : ¬ k' = a := fun e => h e.symm
        simp [this]
      · simp [h2]

theorem keys_aset {α} (k : Nat) (v : α) (l : List (Nat × α)) :
    keys (aset k v l) = if k ∈ keys l then keys l else keys l ++ [k] := by
  induction l with
  | nil => simp [aset]
  | cons p l ih =>
    obtain ⟨a, b⟩ := p
    unfold aset
    by_cases h : a = k
    · subst h; simp
    · have h' : ¬ k = a := fun e => h e.symm
      simp only [h, if_false, keys_cons, ih, List.mem_cons, h', false_or]
      split <;> simp

theorem mem_keys_aset {α} (k x : Nat) (v : α) (l : List (Nat × α)) :
    x ∈ keys (aset k v l) ↔ x = k ∨ x ∈ keys l := by
  rw [keys_aset]; split <;> simp <;> grind

theorem nodup_aset {α} (k : Nat) (v : α) (l : List (Nat × α)) (h : (keys l).Nodup) :
    (keys (aset k v l)).Nodup := by
  rw [keys_aset]; split
  · exact h
  · rename_i hk
    rw [List.nodup_append]
    refine ⟨h, by simp, ?_⟩
    intro a ha b hb
    simp at hb; subst hb
    exact fun e => hk (e ▸ ha)

theorem keys_aerase_sublist {α} (k : Nat) (l : List (Nat × α)) : (keys (aerase k l)).Sublist (keys l) := by
  induction l with
  | nil => simp [aerase]
  | cons p l ih =>
    obtain ⟨a, b⟩ := p
    unfold aerase
    by_cases h : a = k
    · simp [h]
    · simp only [h, if_false, keys_cons]; exact ih.cons_cons _

theorem nodup_aerase {α} (k : Nat) (l : List (Nat × α)) (h : (keys l).Nodup) : (keys (aerase k l)).Nodup :=
  (keys_aerase_sublist k l).nodup h

theorem alookup_aerase_ne {α} (k k' : Nat) (l : List (Nat × α)) (hne : k' ≠ k) :
    alookup k (aerase k' l) = alookup k l := by
  induction l with
  | nil => simp [aerase]
  | cons p l ih =>
    obtain ⟨a, b⟩ := p
    unfold aerase
    by_cases h : a = k'
    · subst h; simp [alookup_cons, hne]
    · simp only [h, if_false, alookup_cons, ih]

theorem alookup_aerase_self {α} (k : Nat) (l : List (Nat × α)) (hn : (keys l).Nodup) :
    alookup k (aerase k l) = none := by
  induction l with
  | nil => simp [aerase]
  | cons p l ih =>
    obtain ⟨a, b⟩ := p
    simp only [keys_cons, List.nodup_cons] at hn
    unfold aerase
    by_cases h : a = k
    · subst h; simp only [if_true]; exact (alookup_eq_none_iff _ _).mpr hn.1
    · simp only [h, if_false, alookup_cons, ih hn.2]

theorem alookup_aerase {α} (k k' : Nat) (l : List (Nat × α)) (hn : (keys l).Nodup) :
    alookup k (aerase k' l) = if k' = k then none else alookup k l := by
  split
  · rename_i h; subst h; exact alookup_aerase_self _ _ hn
  · rename_i h; exact alookup_aerase_ne _ _ _ h

theorem mem_keys_aerase {α} (k x : Nat) (l : List (Nat × α)) (hn : (keys l).Nodup) :
    x ∈ keys (aerase k l) ↔ x ≠ k ∧ x ∈ keys l := by
  rw [← alookup_isSome_iff, ← alookup_isSome_iff, alookup_aerase _ _ _ hn]
  by_cases h : k = x <;> simp [h] <;> grind

theorem aset_aset {α} (k : Nat) (v v' : α) (l : List (Nat × α)) : aset k v (aset k v' l) = aset k v l := by
  induction l with
  | nil => simp [aset]
  | cons p l ih =>
    obtain ⟨a, b⟩ := p
    unfold aset
    by_cases h : a = k
    · subst h; simp [aset]
    · simp only [h, if_false]; rw [aset.eq_def]; simp [h, ih]

/-! ## workers -/

/-- two worker records denote the same worker -/
def sameW (a b : Worker) : Prop := a.scq = b.scq ∧ a.id = b.id

def WNodup (ws : List Worker) : Prop := ws.Pairwise (fun a b => ¬ sameW a b)

def wfind (ws : List Worker) (q : ScqId) (i : WId) : Option Worker := ws.find? (fun x => x.scq = q ∧ x.id = i)

def wset (ws : List Worker) (w : Worker) : List Worker := ws.map (fun x => if x.scq = w.scq ∧ x.id = w.id then w else x)

theorem wfind_key {ws q i wk} (h : wfind ws q i = some wk) : wk.scq = q ∧ wk.id = i := by
  have := List.find?_some h
  simpa using this

theorem wfind_mem {ws q i wk} (h : wfind ws q i = some wk) : wk ∈ ws := List.mem_of_find?_eq_some h

theorem wfind_of_mem {ws : List Worker} {wk} (hn : WNodup ws) (h : wk ∈ ws) : wfind ws wk.scq wk.id = some wk := by
  induction ws with
  | nil => simp at h
  | cons a l ih =>
    unfold wfind
    rw [List.find?_cons]
    simp only [WNodup, List.pairwise_cons] at hn
    rcases List.mem_cons.mp h with h | h
    · subst h; simp
    · have := hn.1 wk h
      have hne : ¬ (a.scq = wk.scq ∧ a.id = wk.id) := this
      simp only [hne, decide_false]
      exact ih hn.2 h

theorem wfind_wset (ws : List Worker) (w : Worker) (q : ScqId) (i : WId) :
    wfind (wset ws w) q i =
      if w.scq = q ∧ w.id = i then (if (wfind ws q i).isSome then some w else none) else wfind ws q i := by
  induction ws with
  | nil => simp [wfind, wset]
  | cons a l ih =>
    unfold wfind wset at *
    simp only [List.map_cons, List.find?_cons]
    by_cases h1 : a.scq = w.scq ∧ a.id = w.id
    · simp only [h1, and_self, if_true]
      by_cases h2 : w.scq = q ∧ w.id = i
      · simp [h2, h1.1, h1.2]
      · have : ¬ (a.scq = q ∧ a.id = i) := by rw [h1.1, h1.2]; exact h2
        simp only [h2, this, decide_false, if_false] at ih ⊢
        exact ih
    · simp only [h1, if_false]
      by_cases h3 : a.scq = q ∧ a.id = i
      · have : ¬ (w.scq = q ∧ w.id = i) := by
          intro h; apply h1; rw [h3.1, h3.2, h.1, h.2]; exact ⟨rfl, rfl⟩
        simp [h3, this]
      · simp only [h3, decide_false]; exact ih

theorem wset_nodup (ws : List Worker) (w : Worker) (h : WNodup ws) : WNodup (wset ws w) := by
  unfold WNodup wset at *
  rw [List.pairwise_map]
  refine h.imp ?_
  intro a b hab
  unfold sameW at *
  split <;> split <;> grind

theorem wfind_append (ws : List Worker) (w : Worker) (q i) :
    wfind (ws ++ [w]) q i = match wfind ws q i with
      | some x => some x
      | none => if w.scq = q ∧ w.id = i then some w else none := by
  unfold wfind
  rw [List.find?_append]
  cases h : List.find? (fun x => decide (x.scq = q ∧ x.id = i)) ws
  · by_cases hw : w.scq = q ∧ w.id = i <;> simp [List.find?_cons, hw]
  · simp

theorem wnodup_append (ws : List Worker) (w : Worker) (h : WNodup ws) (hn : wfind ws w.scq w.id = none) :
    WNodup (ws ++ [w]) := by
  unfold WNodup at *
  rw [List.pairwise_append]
  refine ⟨h, by simp, ?_⟩
  intro a ha b hb
  simp at hb; subst hb
  unfold wfind at hn
  rw [List.find?_eq_none] at hn
  have := hn a ha
  simpa [sameW] using this

theorem wfind_filter_ne (ws : List Worker) (q i q' i') :
    wfind (ws.filter (fun x => ¬ (x.scq = q' ∧ x.id = i'))) q i =
      if q = q' ∧ i = i' then none else wfind ws q i := by
  induction ws with
  | nil => simp [wfind]
  | cons a l ih =>
    unfold wfind at *
    rw [List.filter_cons]
    by_cases h1 : a.scq = q' ∧ a.id = i'
    · simp only [h1, and_self, not_true_eq_false, decide_false, Bool.false_eq_true, if_false, ih, List.find?_cons]
      split
      · rfl
      · rename_i h2
        have : ¬ (q' = q ∧ i' = i) := fun h => h2 ⟨h.1.symm, h.2.symm⟩
        simp only [this, decide_false]
    · simp only [h1, not_false_eq_true, decide_true, if_true, List.find?_cons, ih]
      by_cases h3 : a.scq = q ∧ a.id = i
      · have : ¬ (q = q' ∧ i = i') := by intro h; apply h1; rw [h3.1, h3.2]; exact h
        simp [h3, this]
      · simp [h3]

theorem wnodup_filter (ws : List Worker) (p : Worker → Bool) (h : WNodup ws) : WNodup (ws.filter p) :=
  List.Pairwise.sublist List.filter_sublist h

end BbRe.Lemmas.SchedInv
