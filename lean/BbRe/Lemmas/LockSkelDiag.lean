import BbRe.Model.LockSkel
/-!
Diagnostics for the lock-skeleton checker (NOT part of the proof): a second
symbolic executor that mirrors `BbRe.LockSkel.execA` but carries, for every
abstract state, one path (branch choices with Go line numbers) that reaches it.
It is used only to *explain* a failed obligation `checkFn Σ f body = true`
(driver `drv_lockskel`, and the `#eval` in Properties/C14Generated.lean);
the obligations themselves are decided by the verified `checkFn`.
Also: the "acquired while holding" relation used for the lock-class graph.
Core Lean only.
-/
namespace BbRe.LockSkel.Diag
open BbRe.LockSkel

structure T where
  o : Out
  s : AS
  path : List String

structure Fail where
  what : String
  path : List String

abbrev R := Except Fail (List T)

def addNew (x : T) (l : List T) : List T :=
  if l.any (fun y => y.o == x.o && y.s == x.s) then l else l ++ [x]

def merge (a b : List T) : List T := b.foldl (fun acc x => addNew x acc) a

def bindT : List T → (T → R) → R
  | [], _ => .ok []
  | x :: rest, k =>
    match k x with
    | .error e => .error e
    | .ok r1 =>
      match bindT rest k with
      | .error e => .error e
      | .ok r2 => .ok (merge r1 r2)

structure Names where
  lock : Nat → String
  pile : Nat → String
  fn : Nat → String
  why : Nat → String
  gclass : Nat → String := fun c => s!"class#{c}"

def showHeld (nm : Names) (h : List Nat) : String :=
  "[" ++ ", ".intercalate (h.map nm.lock) ++ "]"

def explore (nm : Names) (sig : Sig) : Stmt → AS → List String → R
  | .skip, s, p => .ok [⟨.norm, s, p⟩]
  | .acq l, s, p => .ok [⟨.norm, { s with held := insertS l s.held }, p⟩]
  | .rel l, s, p =>
      if s.held.contains l then .ok [⟨.norm, { s with held := s.held.erase l }, p⟩]
      else .error ⟨s!"releases {nm.lock l} which is not held (held: {showHeld nm s.held})", p⟩
  | .pileLock q l, s, p =>
      .ok [⟨.norm, ⟨insertS l s.held, { s.c with piles := setP s.c.piles q (insertS l (getP s.c.piles q)) }⟩, p⟩]
  | .pileUnlock q l, s, p =>
      if (getP s.c.piles q).contains l then
        if s.held.contains l then
          .ok [⟨.norm, ⟨s.held.erase l, { s.c with piles := setP s.c.piles q ((getP s.c.piles q).erase l) }⟩, p⟩]
        else .error ⟨s!"LockPile.Unlock releases {nm.lock l} which is not held", p⟩
      else .error ⟨s!"LockPile.Unlock of {nm.lock l}, which is not in pile {nm.pile q}", p⟩
  | .pileUnlockAll q, s, p =>
      match removeAll s.held (getP s.c.piles q) with
      | some h => .ok [⟨.norm, ⟨h, { s.c with piles := setP s.c.piles q [] }⟩, p⟩]
      | none => .error ⟨s!"LockPile.UnlockAll of {nm.pile q} releases a lock that is not held", p⟩
  | .call g ren, s, p =>
      match callA sig g ren s.held with
      | .ok (_, h) => .ok [⟨.norm, { s with held := h }, p⟩]
      | .error (.noSig _) => .error ⟨s!"call of {nm.fn g}, which has no summary", p⟩
      | .error (.badRen _) => .error ⟨s!"call of {nm.fn g} renames a lock to one of another class", p⟩
      | .error _ =>
        let req := ((sig.get g).getD ([], [])).1
        .error ⟨s!"calls {nm.fn g} without holding what it requires on entry {showHeld nm (req.map (rn ren))} (held: {showHeld nm s.held})", p⟩
  | .need cs, s, p =>
      if holdsClass s.held cs then .ok [⟨.norm, s, p⟩]
      else .error ⟨s!"mutates state guarded by a lock of class {nm.gclass (cs.headD 0)} without holding it (held: {showHeld nm s.held})", p⟩
  | .mark _ _, s, p => .ok [⟨.norm, s, p⟩]
  | .seq a b, s, p =>
      match explore nm sig a s p with
      | .error e => .error e
      | .ok r => bindT r (fun x => if x.o = .norm then explore nm sig b x.s x.path else .ok [x])
  | .choice tag a b, s, p =>
      match explore nm sig a s (p ++ [s!"{tag}:1"]) with
      | .error e => .error e
      | .ok r1 =>
        match explore nm sig b s (p ++ [s!"{tag}:2"]) with
        | .error e => .error e
        | .ok r2 => .ok (merge r1 r2)
  | .loop ce body, s, p =>
      match explore nm sig body s (p ++ ["loop{"]) with
      | .error e => .error e
      | .ok r =>
        match r.find? (fun x => (x.o == .norm || x.o == .cont) && !(x.s == s)) with
        | some x => .error ⟨s!"loop body changes the held locks: {showHeld nm s.held} at the loop head, {showHeld nm x.s.held} after one iteration", x.path⟩
        | none =>
          .ok (merge (if ce then [⟨.norm, s, p⟩] else [])
            (r.filterMap (fun x =>
              match x.o with
              | .brk => some ⟨.norm, x.s, x.path ++ ["}break"]⟩
              | .ret => some ⟨.ret, x.s, x.path⟩
              | .pnc => some ⟨.pnc, x.s, x.path⟩
              | _ => none)))
  | .fin body d, s, p =>
      match explore nm sig body s p with
      | .error e => .error e
      | .ok r => bindT r (fun x =>
          if x.o = .pnc then .ok [x]
          else match explore nm sig d x.s (x.path ++ ["deferred:"]) with
            | .error e => .error e
            | .ok r2 => .ok (r2.map (fun y => ⟨if y.o = .pnc then .pnc else x.o, y.s, y.path⟩)))
  | .scope b, s, p =>
      match explore nm sig b s p with
      | .error e => .error e
      | .ok r => .ok (r.map (fun x => ⟨unscope x.o, x.s, x.path⟩))
  | .block b, s, p =>
      match explore nm sig b s p with
      | .error e => .error e
      | .ok r => .ok (r.map (fun x => ⟨unblock x.o, x.s, x.path⟩))
  | .setFlag v b, s, p => .ok [⟨.norm, { s with c := { s.c with flags := setF s.c.flags v b } }, p⟩]
  | .ifFlag v a b, s, p => if getF s.c.flags v then explore nm sig a s p else explore nm sig b s p
  | .ret tag, s, p => .ok [⟨.ret, s, p ++ [s!"return@{tag}"]⟩]
  | .brk, s, p => .ok [⟨.brk, s, p⟩]
  | .cont, s, p => .ok [⟨.cont, s, p⟩]
  | .panic, s, p => .ok [⟨.pnc, s, p⟩]
  | .unsupported w, _, p => .error ⟨s!"unsupported construct: {nm.why w}", p⟩

def showPath (p : List String) : String := " ".intercalate p

/-- `none` if the function meets its summary (same verdict as `checkFn`), else an explanation. -/
def explainFn (nm : Names) (sig : Sig) (f : Nat) (body : Stmt) : Option String :=
  match sig.get f with
  | none => some s!"{nm.fn f}: no summary"
  | some (req, post) =>
    match explore nm sig body ⟨sortS req, CS.init⟩ [] with
    | .error e => some s!"{nm.fn f}: {e.what}; path: {showPath e.path}"
    | .ok r =>
      match r.find? (fun x => !okFinal post (x.o, x.s)) with
      | none => none
      | some x =>
        some s!"{nm.fn f}: returns holding {showHeld nm x.s.held} but its summary says {showHeld nm (sortS post)}; path: {showPath x.path}"

def explainAll (nm : Names) (sig : Sig) (prog : Prog) : List (Nat × String) :=
  prog.filterMap (fun fb =>
    if checkFn sig fb.1 fb.2 then none
    else some (fb.1, (explainFn nm sig fb.1 fb.2).getD s!"{nm.fn fb.1}: checkFn fails (no explanation found)"))

/-- Edges contributed by one function alone. -/
def edgesOfFn (cls : List Nat) (tbl : AcqTbl) (sig : Sig) (f : Nat) (body : Stmt) : Edges :=
  match sig.get f with
  | none => []
  | some (req, _) =>
    match edgesS cls tbl sig body ⟨sortS req, CS.init⟩ [] with
    | .error _ => []
    | .ok (_, es) => es

/-- Classes reachable from `from_` in at most `fuel` steps (including `from_`). -/
def reachSet (es : Edges) : Nat → List Nat → List Nat
  | 0, seen => seen
  | fuel + 1, seen =>
    let next := es.filterMap (fun e => if seen.contains e.1 && !seen.contains e.2 then some e.2 else none)
    if next.isEmpty then seen else reachSet es fuel (seen ++ next.eraseDups)

/-- Explanation of a failed `class_graph_ok`: every acquired-while-holding edge along which
the computed rank does not increase (the edges on cycles, and same-class nesting), with the
functions in which the pair occurs. Empty iff the obligation holds. -/
def explainEdges (nm : Names) (className : Nat → String) (nClasses : Nat) (cls : List Nat)
    (tbl : AcqTbl) (sig : Sig) (prog : Prog) : List String :=
  match edgesProg cls tbl sig prog [] with
  | none => []   -- some function fails its lock-balance obligation; that is reported by `explainAll`
  | some es =>
    -- the edges that lie on a cycle (self-loops included)
    let bad := es.filter (fun e => (reachSet es nClasses [e.2]).contains e.1)
    bad.map (fun e =>
      let fns := prog.filter (fun fb => (edgesOfFn cls tbl sig fb.1 fb.2).contains e)
      s!"a lock of class {className e.2} is acquired (blocking) while one of class {className e.1} is held, which closes a cycle in the lock-class graph or nests two locks of one class without a LockPile; in: " ++
        ", ".intercalate (fns.map (fun fb => nm.fn fb.1)))

/-- Functions that fail the transaction obligation `txOk`. -/
def explainTx (nm : Names) (base : List Nat) (relT : AcqTbl) (prog : Prog) : List String :=
  prog.filterMap (fun fb =>
    if (txS base relT false fb.2 ⟨[], []⟩).2 then
      some s!"{nm.fn fb.1}: a check and the act that depends on it (e.g. ByteRangeLockSet.Test … Set) are not in one critical section: the guarding lock is released between them, so the check is stale when the act happens"
    else none)

def showEdges (className : Nat → String) (es : Edges) : List String :=
  es.map (fun e => s!"{className e.1} -> {className e.2}")

end BbRe.LockSkel.Diag
