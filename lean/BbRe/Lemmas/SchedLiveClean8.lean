import BbRe.Lemmas.SchedLiveClean7
/-!
Cleanup accounting through `Synchronize`, its wake-ups and the operator calls;
the invariant holds in every reachable state.
-/
namespace BbRe.Lemmas.SchedLive
open BbRe.Sched

theorem find?_append_other {l : List Scq} {n : Scq} {q' : ScqId} (hne : n.id ≠ q') :
    (l ++ [n]).find? (fun y => y.id = q') = l.find? (fun y => y.id = q') := by
  rw [List.find?_append]
  cases l.find? (fun y => y.id = q') with
  | some y => rfl
  | none => simp [hne]

theorem find?_append_self {l : List Scq} {n : Scq} (hnone : l.find? (fun y => y.id = n.id) = none) :
    (l ++ [n]).find? (fun y => y.id = n.id) = some n := by
  rw [List.find?_append, hnone]; simp

/-- queue stage of `Synchronize` -/
theorem syncQueue_shape {s1 s2 : State} {q : ScqId} {comps : List Nat} {pf : Nat} {w : WId} (hc : CInv noEx s1)
    (hh : syncQueue s1 q comps pf w = .ok (.inr s2)) :
    (∀ k, hasK s2 k ↔ k ≠ .scq q ∧ hasK s1 k) ∧ ((s2.cleanup.map (·.kind)).Nodup) ∧
    s2.workers = s1.workers ∧ s2.ops = s1.ops ∧ s2.tasks = s1.tasks ∧
    (∀ q', q' ≠ q → s2.scq? q' = s1.scq? q') ∧
    (∃ sq, s2.scq? q = some sq ∧ ∀ sq1, s1.scq? q = some sq1 → sq = sq1) := by
  have added : ∀ (n : Scq) (s2 : State), n.id = q → s1.scq? q = none → s2.cleanup = s1.cleanup →
      s2.scqs = s1.scqs ++ [n] → s2.workers = s1.workers → s2.ops = s1.ops → s2.tasks = s1.tasks →
      (∀ k, hasK s2 k ↔ k ≠ .scq q ∧ hasK s1 k) ∧ ((s2.cleanup.map (·.kind)).Nodup) ∧
      s2.workers = s1.workers ∧ s2.ops = s1.ops ∧ s2.tasks = s1.tasks ∧
      (∀ q', q' ≠ q → s2.scq? q' = s1.scq? q') ∧
      (∃ sq, s2.scq? q = some sq ∧ ∀ sq1, s1.scq? q = some sq1 → sq = sq1) := by
    intro n s2 hid hnone hcl hsc hw ho ht
    refine ⟨?_, by rw [hcl]; exact hc.uniq, hw, ho, ht, ?_, ?_⟩
    · intro k; rw [hasK_congr hcl]
      constructor
      · intro hh'; refine ⟨?_, hh'⟩
        intro e; subst e
        obtain ⟨⟨sq, e1, _⟩, _⟩ := hc.eS q hh'; rw [hnone] at e1; cases e1
      · exact fun h => h.2
    · intro q' hne
      simp only [State.scq?, hsc]
      exact find?_append_other (by rw [hid]; exact fun e => hne e.symm)
    · refine ⟨n, ?_, fun sq1 e => by rw [hnone] at e; cases e⟩
      simp only [State.scq?, hsc]
      have := find?_append_self (l := s1.scqs) (n := n) (by rw [hid]; exact hnone)
      rw [hid] at this; exact this
  rcases syncQueue_ok hh with ⟨⟨sq, hsq⟩, e⟩ | ⟨_, e⟩ | ⟨hn, _, e⟩ | ⟨hn, _, e⟩
  · injection e with e; subst e
    refine ⟨fun k => hasK_remove _ _ _, ?_, rfl, rfl, rfl, fun _ _ => rfl, ⟨sq, hsq, fun sq1 e => ?_⟩⟩
    · exact List.Nodup.sublist (List.Sublist.map _ List.filter_sublist) hc.uniq
    · rw [hsq] at e; injection e
  · cases e
  · injection e with e; subst e
    exact added { id := q, mayBeRemoved := true, drains := [], undrainGen := 0 } _ rfl hn rfl rfl rfl rfl rfl
  · injection e with e; subst e
    exact added { id := q, mayBeRemoved := true, drains := [], undrainGen := 0 } _ rfl hn rfl rfl rfl rfl rfl

/-- queue and worker stage together -/
theorem sync_front {s1 s2 s3 : State} {q : ScqId} {comps : List Nat} {pf : Nat} {w : WId}
    (hc : CInv noEx s1) (hw : WInv s1) (h2 : syncQueue s1 q comps pf w = .ok (.inr s2))
    (h3 : syncWorker s2 q w = .inr s3) : CInv noEx s3 := by
  obtain ⟨qK, qU, qW, qO, qT, qQ1, qQ2⟩ := syncQueue_shape hc h2
  have huniq2 : (s2.workers.map wkey).Nodup := qW ▸ hw.uniq
  rcases syncWorker_cases s2 q w with ⟨wk, _, _, e⟩ | ⟨wk, hwk, hi, e⟩ | ⟨hnone, e⟩
  · rw [e] at h3; cases h3
  · rw [e] at h3; injection h3 with h3; subst h3
    obtain ⟨hm, hq, hw'⟩ := worker?_mem hwk
    refine sync_front_cinv (q := q) (w := w) hc ?_ ?_ ?_ ?_ ?_ qQ1 qQ2 qO qT
    · intro k
      have : hasK ((s2.removeCleanup (.worker q w)).setWorker { wk with inSync := true }) k ↔ k ≠ .worker q w ∧ hasK s2 k :=
        hasK_remove _ _ _
      rw [this, qK]
      constructor
      · rintro ⟨a, b, c⟩; exact ⟨b, a, c⟩
      · rintro ⟨a, b, c⟩; exact ⟨b, a, c⟩
    · exact List.Nodup.sublist (List.Sublist.map _ List.filter_sublist) qU
    · intro x hx
      rcases mem_setWorker (s := s2.removeCleanup (.worker q w)) hx with rfl | ⟨hx1, hne⟩
      · exact .inl ⟨hq, hw', rfl⟩
      · refine .inr ⟨qW ▸ hx1, ?_⟩
        rintro ⟨a, b⟩; exact hne (by simp [wkey, a, b, hq, hw'])
    · intro x hx hne
      have hx2 : x ∈ s2.workers := qW ▸ hx
      show x ∈ ((s2.removeCleanup (.worker q w)).setWorker { wk with inSync := true }).workers
      rw [setWorker_workers, List.mem_map]
      refine ⟨x, hx2, ?_⟩
      have : ¬ wkey x = wkey ({ wk with inSync := true } : Worker) := by
        simp only [wkey, Prod.mk.injEq, hq, hw']; exact hne
      simp [this]
    · refine ⟨{ wk with inSync := true }, ?_, hq, hw'⟩
      show _ ∈ ((s2.removeCleanup (.worker q w)).setWorker { wk with inSync := true }).workers
      rw [setWorker_workers, List.mem_map]
      exact ⟨wk, hm, by simp [wkey]⟩
  · rw [e] at h3; injection h3 with h3; subst h3
    have hnoW : ¬ hasK s2 (.worker q w) := by
      intro hh
      obtain ⟨x, hx, e1, e2⟩ := hc.eW q w ((qK _).1 hh).2
      have := worker?_of_mem huniq2 (qW ▸ hx)
      rw [e1, e2, hnone] at this; cases this
    refine sync_front_cinv (q := q) (w := w) hc ?_ qU ?_ ?_ ?_ qQ1 qQ2 qO qT
    · intro k
      have : hasK (addWorker s2 q w) k ↔ hasK s2 k := hasK_congr (s := s2) (s' := addWorker s2 q w) rfl k
      rw [this, qK]
      constructor
      · rintro ⟨a, c⟩; exact ⟨a, fun e => hnoW (e ▸ (qK _).2 ⟨a, c⟩), c⟩
      · rintro ⟨a, _, c⟩; exact ⟨a, c⟩
    · intro x hx
      simp only [addWorker_workers, List.mem_append, List.mem_singleton] at hx
      rcases hx with hx | rfl
      · refine .inr ⟨qW ▸ hx, ?_⟩
        rintro ⟨a, b⟩
        have := worker?_of_mem huniq2 hx
        rw [a, b, hnone] at this; cases this
      · exact .inl ⟨rfl, rfl, rfl⟩
    · intro x hx _
      simp only [addWorker_workers, List.mem_append]; exact .inl (qW ▸ hx)
    · refine ⟨⟨q, w, none, false, false, false, true, none, none⟩, ?_, rfl, rfl⟩
      simp [addWorker_workers]

/-- the deferred re-arming of the worker cleanup -/
theorem syncReturn_cinv {s : State} {q : ScqId} {w : WId} (hc : CInv noEx s)
    (hin : ∀ wk, s.worker? q w = some wk → wk.inSync = true) : CInv noEx (syncReturn s q w) := by
  unfold syncReturn
  split
  · rename_i wk hwk
    obtain ⟨hm, hq, hw'⟩ := worker?_mem hwk
    have hnoe : ¬ hasK s (.worker q w) := by rw [← hq, ← hw']; exact hc.wIn wk hm (hin wk hwk)
    let wk2 : Worker := { wk with inSync := false, parked := false, woken := false, drainWait := none, timer := none }
    have hkk : ∀ k, hasK ((s.setWorker wk2).addCleanup (s.now + s.cfg.workerTimeout) (.worker q w)) k ↔
        k = .worker q w ∨ hasK s k := fun k => hasK_add _ _ _ _
    have hmem : ∀ x, x ∈ (s.setWorker wk2).workers → x = wk2 ∨ (x ∈ s.workers ∧ wkey x ≠ wkey wk2) := fun x => mem_setWorker
    have hback : ∀ x ∈ s.workers, ¬ (x.scq = q ∧ x.id = w) → x ∈ (s.setWorker wk2).workers := by
      intro x hx hne
      rw [setWorker_workers, List.mem_map]
      refine ⟨x, hx, ?_⟩
      have : ¬ wkey x = wkey wk2 := by simp only [wkey, wk2, Prod.mk.injEq, hq, hw']; exact hne
      simp [this]
    have hwk2 : wk2 ∈ (s.setWorker wk2).workers := by
      rw [setWorker_workers, List.mem_map]; exact ⟨wk, hm, by simp [wkey, wk2]⟩
    have hscq : ∀ q', ((s.setWorker wk2).addCleanup (s.now + s.cfg.workerTimeout) (.worker q w)).scq? q' = s.scq? q' :=
      fun _ => rfl
    refine ⟨?_, ?_, ?_, ?_, ?_, ?_, hc.opBg, ?_, hc.opT, ?_, ?_, (fun _ hq' => nomatch hq'), (fun _ _ hq' => nomatch hq')⟩
    · simp only [addCleanup_cleanup, List.map_cons, List.nodup_cons, setWorker_cleanup]
      refine ⟨?_, hc.uniq⟩
      intro hmm; obtain ⟨e, he, hk⟩ := List.mem_map.1 hmm; exact hnoe ⟨e, he, hk⟩
    · intro x hx hi hh
      rcases hmem x hx with rfl | ⟨hx1, hne⟩
      · cases hi
      · rcases (hkk _).1 hh with e | h
        · injection e with e1 e2; exact hne (by simp [wkey, wk2, e1, e2, hq, hw'])
        · exact hc.wIn x hx1 hi h
    · intro x hx hi _
      rcases hmem x hx with rfl | ⟨hx1, _⟩
      · exact (hkk _).2 (.inl (by simp [wk2, hq, hw']))
      · exact (hkk _).2 (.inr (hc.wOut x hx1 hi (by simp [noEx])))
    · intro q' w'' hh
      rcases (hkk _).1 hh with e | h
      · injection e with e1 e2; subst e1; subst e2; exact ⟨wk2, hwk2, hq, hw'⟩
      · obtain ⟨x, hx, e1, e2⟩ := hc.eW q' w'' h
        by_cases hk : x.scq = q ∧ x.id = w
        · exact ⟨wk2, hwk2, by rw [← e1, hk.1]; exact hq, by rw [← e2, hk.2]; exact hw'⟩
        · exact ⟨x, hback x hx hk, e1, e2⟩
    · intro o hh
      rcases (hkk _).1 hh with e | h
      · cases e
      · exact hc.eO o h
    · intro q' hh
      rcases (hkk _).1 hh with e | h
      · cases e
      · obtain ⟨a, b⟩ := hc.eS q' h
        refine ⟨a, ?_⟩
        intro x hx
        rcases hmem x hx with rfl | ⟨hx1, _⟩
        · exact b wk hm
        · exact b x hx1
    · intro k op e hb _
      rcases hc.opFg k op e hb (by simp [noEx]) with h | h
      · exact .inl h
      · exact .inr ((hkk _).2 (.inr h))
    · intro q' sq e hb _
      rcases hc.scqW q' sq e hb (by simp [noEx]) with ⟨x, hx, ex⟩ | h
      · by_cases hk : x.scq = q ∧ x.id = w
        · exact .inl ⟨wk2, hwk2, by rw [← ex, hk.1]; exact hq⟩
        · exact .inl ⟨x, hback x hx hk, ex⟩
      · exact .inr ((hkk _).2 (.inr h))
    · intro x hx
      rcases hmem x hx with rfl | ⟨hx1, _⟩
      · exact hc.wScq wk hm
      · exact hc.wScq x hx1
  · exact hc

end BbRe.Lemmas.SchedLive
