import BbRe.Lemmas.SchedLiveRoute
import BbRe.Lemmas.SchedLiveAssign
/-!
Outcomes of `Execute` with respect to routing, the largest size class used by
the retry branch, and what `RemoveDrain` does (C05).
-/
namespace BbRe.Lemmas.SchedLive
open BbRe.Sched

theorem streamAttach_tasks {s s' : State} {c o : Nat} (hh : streamAttach s c o = .ok s') : s'.tasks = s.tasks := by
  obtain ⟨op, _, h1⟩ := streamAttach_ok hh
  obtain ⟨op', t, _, _, ⟨r, _, _, rfl⟩ | ⟨_, rfl⟩⟩ := streamSend_ok h1 <;> simp [attachS]

/-- **No matching queue.**  Nothing is created and the call returns `UNAVAILABLE` before the hard-failure
time, `FAILED_PRECONDITION` after it. -/
theorem exec_no_queue {h : Hints} {s s1 s' : State} {now c digest dkey : Nat} {dnc : Bool} {comps : List Nat}
    {platform : Nat} {inv : List Nat} {prio : Int}
    (hh : execArrive h s now c digest dkey dnc comps platform inv prio = .ok s')
    (h1 : enter h s now = .ok s1) (hd : alookup dkey s1.dedup = none) (hr : route s1 comps platform = none) :
    s'.tasks = s1.tasks ∧ s'.ops = s1.ops ∧ s'.streams = s1.streams ∧ s'.dedup = s1.dedup ∧
    s'.events = .ret c (if s1.now < s1.cfg.hardFailTime then cUnavailable else cFailedPrecondition) ::
      .selAbandoned :: s1.events := by
  obtain ⟨s1', h1', h2 | h2 | h2⟩ := execArrive_ok hh
  all_goals (rw [h1] at h1'; injection h1' with h1'; subst h1')
  · obtain ⟨tid, _, e, _⟩ := h2; rw [hd] at e; cases e
  · obtain ⟨_, _, rfl⟩ := h2; exact ⟨rfl, rfl, rfl, rfl, rfl⟩
  · obtain ⟨_, pq, _, _, e, _⟩ := h2; rw [hr] at e; cases e

/-- **A new task goes to a size-class queue of the routed platform queue.** -/
theorem exec_new_task {h : Hints} {s s1 s' : State} {now c digest dkey : Nat} {dnc : Bool} {comps : List Nat}
    {platform : Nat} {inv : List Nat} {prio : Int}
    (hh : execArrive h s now c digest dkey dnc comps platform inv prio = .ok s')
    (h1 : enter h s now = .ok s1) (hd : alookup dkey s1.dedup = none) {pq : PQ} (hr : route s1 comps platform = some pq) :
    ∃ sc t', (∃ sq ∈ s1.scqs, sq.id = ⟨pq.id, sc⟩) ∧ s'.task? s1.nextTask = some t' ∧ t'.scq = ⟨pq.id, sc⟩ ∧
      t'.digest = digest ∧ t'.dkey = dkey ∧ t'.response = none ∧
      ∀ k, k ≠ s1.nextTask → s'.task? k = s1.task? k := by
  obtain ⟨s1', h1', h2 | h2 | h2⟩ := execArrive_ok hh
  all_goals (rw [h1] at h1'; injection h1' with h1'; subst h1')
  · obtain ⟨tid, _, e, _⟩ := h2; rw [hd] at e; cases e
  · obtain ⟨_, e, _⟩ := h2; rw [hr] at e; cases e
  · obtain ⟨_, pq', sc, s3, e, hsz, h3, h4⟩ := h2
    rw [hr] at e; injection e with e; subst e
    obtain ⟨t, t', h0, hle, e1, _⟩ := schedule_shape h3
    have ht : t = newTask s1 digest dkey dnc ⟨pq.id, sc⟩ := by simpa [State.task?] using h0.symm
    subst ht
    have etasks := streamAttach_tasks h4
    refine ⟨sc, t', getElem?_mem_sizes hsz, ?_, ?_, ?_, ?_, ?_, ?_⟩
    · simp [State.task?, etasks, e1, newTask]
    all_goals first
      | (cases hle <;> rfl)
      | skip
    intro k hk
    simp only [State.task?, etasks, e1, newTaskS_tasks, alookup_aset]
    simp [newTask, Ne.symm hk]

/-! ### the largest size class -/

theorem insertSorted_sorted (x : Nat) (l : List Nat) (h : l.Pairwise (· ≤ ·)) : (insertSorted x l).Pairwise (· ≤ ·) := by
  induction l with
  | nil => simp [insertSorted]
  | cons a r ih =>
    simp only [insertSorted]
    rw [List.pairwise_cons] at h
    split
    · rename_i hlt
      rw [List.pairwise_cons]
      refine ⟨?_, ih h.2⟩
      intro y hy
      rcases (mem_insertSorted x y r).1 hy with rfl | hy
      · omega
      · exact h.1 y hy
    · rename_i hge
      rw [List.pairwise_cons]
      refine ⟨?_, List.pairwise_cons.2 h⟩
      intro y hy
      rcases List.mem_cons.1 hy with rfl | hy
      · omega
      · have := h.1 y hy; omega

theorem sizes_sorted (s : State) (pq : Nat) : (s.sizes pq).Pairwise (· ≤ ·) := by
  unfold State.sizes
  have : ∀ (l : List Scq) (acc : List Nat), acc.Pairwise (· ≤ ·) →
      (l.foldl (fun acc q => insertSorted q.id.sc acc) acc).Pairwise (· ≤ ·) := by
    intro l; induction l with
    | nil => intro acc h; exact h
    | cons a r ih => intro acc h; exact ih _ (insertSorted_sorted _ _ h)
  exact this _ [] List.Pairwise.nil

theorem getLast?_max {l : List Nat} (h : l.Pairwise (· ≤ ·)) {m : Nat} (hm : l.getLast? = some m) : ∀ x ∈ l, x ≤ m := by
  induction l with
  | nil => simp at hm
  | cons a r ih =>
    rw [List.pairwise_cons] at h
    cases r with
    | nil => simp at hm; subst hm; simp
    | cons b r' =>
      have hm' : (b :: r').getLast? = some m := by simpa [List.getLast?_cons_cons] using hm
      have hmem : m ∈ b :: r' := List.mem_of_getLast? hm'
      intro x hx
      rcases List.mem_cons.1 hx with rfl | hx
      · exact h.1 m hmem
      · exact ih h.2 hm' x hx

/-- `largestScq` stays in the platform queue and names its largest size class -/
theorem largestScq_spec (s : State) (q : ScqId) :
    (largestScq s q).pq = q.pq ∧
    ((s.sizes q.pq) ≠ [] → (largestScq s q).sc ∈ s.sizes q.pq ∧ ∀ x ∈ s.sizes q.pq, x ≤ (largestScq s q).sc) := by
  unfold largestScq
  cases hl : (s.sizes q.pq).getLast? with
  | none => exact ⟨rfl, fun hne => absurd (List.getLast?_eq_none_iff.1 hl) hne⟩
  | some m => exact ⟨rfl, fun _ => ⟨List.mem_of_getLast? hl, getLast?_max (sizes_sorted s q.pq) hl⟩⟩

/-- **The retry branch moves the task to the largest size class of its platform queue.** -/
theorem retry_moves_to_largest {h : Hints} {s s' : State} {tid : Nat} {r : Resp} {t : Task}
    (hk : KeysOK s) (h0 : s.task? tid = some t) (hr : t.response = none) (hns : ¬ isSucc r) (hretry : h.retry = true)
    (hh : complete h s tid r true = .ok s') :
    ∃ t', s'.task? tid = some t' ∧ t'.scq = largestScq s t.scq ∧ t'.response = none := by
  obtain ⟨t0, h0', ⟨hsome, _⟩ | ⟨_, l, _, h1 | h1 | h1⟩⟩ := complete_ok hh
  all_goals (rw [h0] at h0'; injection h0' with h0'; subst h0')
  · rw [hr] at hsome; cases hsome
  · exact absurd h1.1 hns
  · obtain ⟨_, _, _, h5⟩ := h1
    have hid := (hk.tid tid t h0).1
    obtain ⟨s2, t2, h2, h3, rfl⟩ := completeRetry_ok h5
    obtain ⟨t1, t1', h4, hle, e1, _⟩ := schedule_shape h2
    have ht1 : t1 = retryT (detachW s t) (detachT t) l r := by simpa [State.task?, retryT] using h4.symm
    have ht1id : t1.id = t.id := by rw [ht1]; simp [retryT]
    have ht2 : t2 = t1' := by
      simp only [State.task?, e1, ht1id, detachT_id, alookup_aset, if_true] at h3
      injection h3 with h3; exact h3.symm
    subst ht2
    have hid2 : t2.id = t.id := by cases hle <;> exact ht1id
    have hscq : t2.scq = largestScq s t.scq := by
      have : t1.scq = largestScq s t.scq := by
        rw [ht1]; simp only [retryT, detachT_scq]
        unfold largestScq State.sizes; simp
      cases hle <;> exact this
    have hresp : t2.response = none := by cases hle <;> (rw [ht1]; simp [retryT, hr])
    refine ⟨bumpGen t2, ?_, by simp [bumpGen, hscq], by simp [bumpGen, hresp]⟩
    simp [State.task?, bumpGen, hid2, hid]
  · rcases h1.2.1 with h | h
    · cases h
    · rw [hretry] at h; cases h

end BbRe.Lemmas.SchedLive
