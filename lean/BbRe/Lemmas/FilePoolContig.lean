import BbRe.Lemmas.FilePoolInv
/-!
`getSectorsContiguous` (`contig`) and `insertSectorsContiguous` (`insertSectors`)
in terms of `List.getD · 0` (an index beyond the list is a hole).
-/
namespace BbRe.Lemmas.FilePool
open BbRe.FilePool

theorem countMore_spec (l : List Nat) : ∀ (s c fuel : Nat),
    countMore l s c fuel ≤ fuel ∧ countMore l s c fuel ≤ l.length ∧
      ∀ j, j < countMore l s c fuel → l.getD j 0 = if s = 0 then 0 else s + c + j := by
  induction l with
  | nil =>
    intro s c fuel
    cases fuel <;> simp [countMore]
  | cons x xs ih =>
    intro s c fuel
    cases fuel with
    | zero => simp [countMore]
    | succ fuel =>
      unfold countMore
      split
      · rename_i hc
        obtain ⟨h1, h2, h3⟩ := ih s (c + 1) fuel
        refine ⟨by omega, by simp only [List.length_cons]; omega, ?_⟩
        intro j hj
        cases j with
        | zero =>
          simp only [List.getD_cons_zero]
          rcases hc with ⟨hs, hx⟩ | ⟨hs, hx⟩
          · simp [hs, hx]
          · simp [hs, hx]
        | succ j =>
          simp only [List.getD_cons_succ]
          rw [h3 j (by omega)]
          split
          · rfl
          · omega
      · simp

theorem getD_drop (l : List Nat) (k j : Nat) : (l.drop k).getD j 0 = l.getD (k + j) 0 := by
  simp [List.getD_eq_getElem?_getD, List.getElem?_drop]

/-- `getSectorsContiguous`: a run of `cnt ≥ 1` entries starting at `first` that
are all holes (`s = 0`) or the consecutive device sectors `s, s+1, …`. -/
theorem contig_spec (secs : List Nat) (first endIdx : Nat) (h : first < secs.length) :
    (contig secs first endIdx).1 = secs.getD first 0 ∧ 1 ≤ (contig secs first endIdx).2 ∧
      first + (contig secs first endIdx).2 ≤ secs.length ∧
      (contig secs first endIdx).2 ≤ max 1 (endIdx - first) ∧
      ∀ j, j < (contig secs first endIdx).2 →
        secs.getD (first + j) 0 =
          if (contig secs first endIdx).1 = 0 then 0 else (contig secs first endIdx).1 + j := by
  unfold contig
  dsimp only
  obtain ⟨h1, h2, h3⟩ := countMore_spec (secs.drop (first + 1)) (secs.getD first 0) 1 (endIdx - first - 1)
  refine ⟨rfl, by omega, ?_, by omega, ?_⟩
  · simp only [List.length_drop] at h2; omega
  · intro j hj
    cases j with
    | zero => simp only [Nat.add_zero]; split <;> simp_all
    | succ j =>
      have := h3 j (by omega)
      rw [getD_drop] at this
      rw [show first + (j + 1) = first + 1 + j by omega, this]
      split
      · rfl
      · omega

theorem getD_append_replicate_zero (l : List Nat) (k q : Nat) :
    (l ++ List.replicate k 0).getD q 0 = l.getD q 0 := by
  simp only [List.getD_eq_getElem?_getD]
  by_cases h : q < l.length
  · rw [List.getElem?_append_left h]
  · rw [List.getElem?_append_right (Nat.le_of_not_lt h), List.getElem?_eq_none (Nat.le_of_not_lt h)]
    simp only [List.getElem?_replicate, Option.getD_none]
    split <;> rfl

theorem all_zero_of_getD (l : List Nat) (idx count : Nat) (h : ∀ j, j < count → l.getD (idx + j) 0 = 0) :
    ((l.drop idx).take count).all (· == 0) = true := by
  rw [List.all_eq_true]
  intro x hx
  obtain ⟨j, hj, rfl⟩ := List.getElem_of_mem hx
  simp only [List.length_take, List.length_drop] at hj
  have := h j (by omega)
  simp only [List.getD_eq_getElem?_getD] at this
  rw [List.getElem?_eq_getElem (by omega)] at this
  simp only [List.getElem_take, List.getElem_drop, beq_iff_eq]
  simpa using this

/-- `insertSectorsContiguous` in terms of entries. -/
theorem insertSectors_getD {secs secs' : List Nat} {idx first count : Nat}
    (h : insertSectors secs idx first count = some secs') (q : Nat) :
    secs'.getD q 0 = if idx ≤ q ∧ q < idx + count then first + (q - idx) else secs.getD q 0 := by
  unfold insertSectors at h
  split at h
  · rename_i hc
    simp only [Option.some.injEq] at h; subst h
    simp only [List.getD_eq_getElem?_getD]
    by_cases h1 : q < idx
    · have : ¬ (idx ≤ q ∧ q < idx + count) := by omega
      rw [if_neg this, List.append_assoc, List.getElem?_append_left (by simp; omega)]
      simp [List.getElem?_take, h1]
    · by_cases h2 : q < idx + count
      · have : idx ≤ q ∧ q < idx + count := by omega
        rw [if_pos this, List.append_assoc, List.getElem?_append_right (by simp; omega)]
        have hl : (List.take idx secs).length = idx := by simp; omega
        rw [hl, List.getElem?_append_left (by simp; omega)]
        simp [List.getElem?_range', show q - idx < count by omega]
      · have : ¬ (idx ≤ q ∧ q < idx + count) := by omega
        rw [if_neg this, List.getElem?_append_right (by simp; omega)]
        have hl : (List.take idx secs ++ List.range' first count).length = idx + count := by simp; omega
        rw [hl, List.getElem?_drop]
        congr 2; omega
  · simp at h

end BbRe.Lemmas.FilePool
