import BbRe.Lemmas.GoHeapLoops
/-!
`Push`, `Pop`, `Remove`, `Fix` of the `container/heap` model: permutation, preservation of the
heap property, minimality of the root.
-/
namespace BbRe.Lemmas.GoHeap
open BbRe.GoHeap

variable {α : Type}

/-! ### root minimality -/

theorem lessAt_root_false (less : α → α → Bool) (sw : StrictWeak less) (a : Array α) (n : Nat)
    (hn : n ≤ a.size) (h : IsHeapN less a n) : ∀ k, k < n → lessAt less a k 0 = false := by
  have swn := SWOn.of_strictWeak sw a
  intro k
  induction k using Nat.strongRecOn with
  | _ k ih =>
    intro hk
    by_cases h0 : k = 0
    · subst h0; exact swn.irrefl 0
    · have h1 := h k (by omega) hk
      have h2 := ih ((k - 1) / 2) (by omega) (by omega)
      exact swn.negTrans k ((k - 1) / 2) 0 (by omega) h1 h2

/-! ### `down` / `up` wrappers -/

theorem down_fst_size (less : α → α → Bool) (a : Array α) (i n : Nat) : (down less a i n).1.size = a.size := by
  unfold down; exact downAux_size less _ a i n

theorem down_fst_perm (less : α → α → Bool) (a : Array α) (i n : Nat) : (down less a i n).1.Perm a := by
  unfold down; exact downAux_perm less _ a i n

theorem up_size (less : α → α → Bool) (a : Array α) (j : Nat) : (up less a j).size = a.size := by
  unfold up; exact upAux_size less _ a j

theorem up_perm (less : α → α → Bool) (a : Array α) (j : Nat) : (up less a j).Perm a := by
  unfold up; exact upAux_perm less _ a j

/-- `down(h, i, n)` followed by `up(h, i)` when nothing moved — the common body of `Fix` and
`Remove` — turns `DownInv` into the heap property of the first `n` slots. -/
def siftBoth (less : α → α → Bool) (a : Array α) (i n : Nat) : Array α :=
  let r := down less a i n
  if !r.2 then up less r.1 i else r.1

theorem siftBoth_size (less : α → α → Bool) (a : Array α) (i n : Nat) : (siftBoth less a i n).size = a.size := by
  unfold siftBoth
  simp only []
  split
  · rw [up_size, down_fst_size]
  · rw [down_fst_size]

theorem siftBoth_perm (less : α → α → Bool) (a : Array α) (i n : Nat) : (siftBoth less a i n).Perm a := by
  unfold siftBoth
  simp only []
  split
  · exact (up_perm _ _ _).trans (down_fst_perm _ _ _ _)
  · exact down_fst_perm _ _ _ _

theorem siftBoth_frame (less : α → α → Bool) (a : Array α) (i n k : Nat) (hn : n ≤ a.size) (hi : i < n)
    (hk : n ≤ k) : (siftBoth less a i n)[k]? = a[k]? := by
  unfold siftBoth
  simp only []
  split
  · unfold up down
    rw [upAux_frame less _ _ _ _ (by omega) (by rw [downAux_size]; omega)]
    exact downAux_frame less _ a i n k hn (Or.inl hk)
  · unfold down
    exact downAux_frame less _ a i n k hn (Or.inl hk)

theorem siftBoth_heap (less : α → α → Bool) (sw : StrictWeak less) (a : Array α) (i n : Nat)
    (hn : n ≤ a.size) (hi : i < n) (inv : DownInv (lessAt less a) n i) :
    IsHeapN less (siftBoth less a i n) n := by
  have post := downAux_post less sw i (n - i) a i n (Nat.le_refl _) hn (Nat.le_refl _) inv (fun h => absurd rfl h)
  unfold siftBoth down
  simp only []
  split
  · rename_i hmv
    simp only [Bool.not_eq_true', decide_eq_false_iff_not, Nat.not_lt] at hmv
    have hge := downAux_ge less (n - i) a i n
    have heq : (downAux less (n - i) a i n).2 = i := by omega
    rw [heq] at post
    unfold up
    exact upAux_heap less sw i _ i n (Nat.le_refl _) hi (by rw [downAux_size]; exact hn) (upInv_of_downPost post)
  · rename_i hmv
    simp only [Bool.not_eq_true', decide_eq_false_iff_not, Nat.not_lt, Nat.not_le] at hmv
    exact isHeapN_of_downPost_moved post (by omega)

/-! ### `Fix` -/

theorem fix_eq_siftBoth (less : α → α → Bool) (a : Array α) (i : Nat) : fix less a i = siftBoth less a i a.size := rfl

theorem fix_size (less : α → α → Bool) (a : Array α) (i : Nat) : (fix less a i).size = a.size := by
  rw [fix_eq_siftBoth, siftBoth_size]

theorem fix_perm (less : α → α → Bool) (a : Array α) (i : Nat) : (fix less a i).Perm a := by
  rw [fix_eq_siftBoth]; exact siftBoth_perm _ _ _ _

/-- `Fix(h, i)` restores the heap property when only the pairs that involve position `i` may be
out of order. -/
theorem fix_heap_of_inv (less : α → α → Bool) (sw : StrictWeak less) (a : Array α) (i : Nat) (hi : i < a.size)
    (inv : DownInv (lessAt less a) a.size i) : IsHeap less (fix less a i) := by
  unfold IsHeap
  rw [fix_size, fix_eq_siftBoth]
  exact siftBoth_heap less sw a i a.size (Nat.le_refl _) hi inv

/-- Replacing the element at position `i` of a heap (= changing its key) leaves a state from
which `Fix(h, i)` restores the heap property. -/
theorem downInv_of_set (less : α → α → Bool) (sw : StrictWeak less) (a : Array α) (i : Nat) (x : α)
    (h : IsHeap less a) : DownInv (lessAt less (a.setIfInBounds i x)) (a.setIfInBounds i x).size i := by
  have swn := SWOn.of_strictWeak sw a
  have hsz : (a.setIfInBounds i x).size = a.size := by simp
  have hget : ∀ k, k ≠ i → (a.setIfInBounds i x)[k]? = a[k]? := by
    intro k hk
    rw [Array.getElem?_setIfInBounds]
    have : ¬ i = k := fun h => hk h.symm
    simp [this]
  have hless : ∀ p q, p ≠ i → q ≠ i → lessAt less (a.setIfInBounds i x) p q = lessAt less a p q := by
    intro p q hp hq
    unfold lessAt
    rw [hget p hp, hget q hq]
  rw [hsz]
  constructor
  · intro c hc0 hcn hci hpi
    rw [hless _ _ hci hpi]
    exact h c hc0 hcn
  · intro c hc0 hcn hpc hi0
    rw [hless _ _ (by omega) (by omega)]
    have h1 := h c hc0 hcn
    rw [hpc] at h1
    have h2 := h i hi0 (by omega)
    exact swn.negTrans c i _ (by omega) h1 h2

theorem fix_heap_of_set (less : α → α → Bool) (sw : StrictWeak less) (a : Array α) (i : Nat) (x : α)
    (hi : i < a.size) (h : IsHeap less a) : IsHeap less (fix less (a.setIfInBounds i x) i) :=
  fix_heap_of_inv less sw _ i (by simpa using hi) (downInv_of_set less sw a i x h)

/-! ### `Push` -/

theorem push_perm (less : α → α → Bool) (a : Array α) (x : α) : (push less a x).Perm (a.push x) := by
  unfold push; exact up_perm _ _ _

theorem push_size (less : α → α → Bool) (a : Array α) (x : α) : (push less a x).size = a.size + 1 := by
  unfold push; rw [up_size]; simp

theorem push_heap (less : α → α → Bool) (sw : StrictWeak less) (a : Array α) (x : α) (h : IsHeap less a) :
    IsHeap less (push less a x) := by
  unfold IsHeap
  rw [push_size]
  unfold push up
  apply upAux_heap less sw a.size (a.push x) a.size (a.size + 1) (Nat.le_refl _) (by omega) (by simp)
  have hless : ∀ p q, p < a.size → q < a.size → lessAt less (a.push x) p q = lessAt less a p q := by
    intro p q hp hq
    unfold lessAt
    rw [Array.getElem?_push, Array.getElem?_push]
    have : p ≠ a.size := by omega
    have : q ≠ a.size := by omega
    simp [*]
  constructor
  · intro c hc0 hcn hne
    rw [hless _ _ (by omega) (by omega)]
    exact h c hc0 (by omega)
  · intro c hc0 hcn hpc hj0
    omega

/-! ### `Pop` and `Remove` -/

theorem isHeap_pop_of_isHeapN (less : α → α → Bool) (a : Array α) (h : IsHeapN less a (a.size - 1)) :
    IsHeap less a.pop := by
  intro c hc0 hcn
  have hsz : a.pop.size = a.size - 1 := by simp
  rw [hsz] at hcn
  have := h c hc0 hcn
  unfold lessAt at this ⊢
  rw [Array.getElem?_pop, Array.getElem?_pop]
  have h1 : c < a.size - 1 := hcn
  have h2 : (c - 1) / 2 < a.size - 1 := by omega
  simp only [h1, h2, if_true]
  exact this

theorem isHeapN_mono (less : α → α → Bool) (a : Array α) (n m : Nat) (hnm : m ≤ n) (h : IsHeapN less a n) :
    IsHeapN less a m := fun c hc0 hcm => h c hc0 (by omega)

/-- The array of `Remove(h, i)` before the final `h.Pop()`: a permutation whose last element is
the old `h[i]` and whose first `Len()-1` slots form a heap. -/
theorem removePrep_spec (less : α → α → Bool) (sw : StrictWeak less) (a : Array α) (i : Nat) (hi : i < a.size)
    (h : IsHeap less a) :
    (removePrep less a i).size = a.size ∧ (removePrep less a i).Perm a ∧
      (removePrep less a i)[a.size - 1]? = a[i]? ∧ IsHeapN less (removePrep less a i) (a.size - 1) := by
  have swn := SWOn.of_strictWeak sw a
  unfold removePrep
  simp only []
  split
  · rename_i hne
    have hin : i < a.size - 1 := by omega
    have hn : a.size - 1 < a.size := by omega
    show (siftBoth less (swp a i (a.size - 1)) i (a.size - 1)).size = a.size ∧ _ ∧
      (siftBoth less (swp a i (a.size - 1)) i (a.size - 1))[a.size - 1]? = a[i]? ∧
      IsHeapN less (siftBoth less (swp a i (a.size - 1)) i (a.size - 1)) (a.size - 1)
    refine ⟨by rw [siftBoth_size, size_swp], (siftBoth_perm _ _ _ _).trans (swp_perm _ _ _), ?_, ?_⟩
    · rw [siftBoth_frame less _ i (a.size - 1) (a.size - 1) (by simp) hin (Nat.le_refl _),
        getElem?_swp a _ _ _ hi hn]
      unfold tr
      simp [hne]
    · apply siftBoth_heap less sw _ i (a.size - 1) (by simp) hin
      have hless : ∀ p q, p ≠ i → q ≠ i → p < a.size - 1 → q < a.size - 1 →
          lessAt less (swp a i (a.size - 1)) p q = lessAt less a p q := by
        intro p q hp hq hpn hqn
        rw [lessAt_swp less a _ _ _ _ hi hn]
        unfold tr
        have : p ≠ a.size - 1 := by omega
        have : q ≠ a.size - 1 := by omega
        simp [*]
      constructor
      · intro c hc0 hcn hci hpi
        rw [hless _ _ hci hpi hcn (by omega)]
        exact h c hc0 (by omega)
      · intro c hc0 hcn hpc hi0
        rw [hless _ _ (by omega) (by omega) hcn (by omega)]
        have h1 := h c hc0 (by omega)
        rw [hpc] at h1
        have h2 := h i hi0 hi
        exact swn.negTrans c i _ hi h1 h2
  · rename_i heq
    simp only [ne_eq, Decidable.not_not] at heq
    refine ⟨rfl, Array.Perm.refl _, by rw [heq], isHeapN_mono less a _ _ (by omega) h⟩

theorem push_pop_back (a : Array α) (x : α) (hx : a.back? = some x) : a.pop.push x = a := by
  rw [Array.back?_eq_getElem?] at hx
  apply Array.ext
  · have : 0 < a.size := by
      apply Nat.pos_of_ne_zero
      intro h0
      rw [Array.getElem?_eq_none (by omega)] at hx
      cases hx
    simp; omega
  · intro k hk1 hk2
    simp only [Array.getElem_push, Array.size_pop]
    split
    · simp
    · have : k = a.size - 1 := by simp at hk1; omega
      subst this
      rw [Array.getElem?_eq_getElem hk2] at hx
      exact (Option.some.inj hx).symm

theorem remove_spec (less : α → α → Bool) (sw : StrictWeak less) (a : Array α) (i : Nat) (hi : i < a.size)
    (h : IsHeap less a) :
    (remove less a i).2 = a[i]? ∧ ((remove less a i).1.push a[i]).Perm a ∧ IsHeap less (remove less a i).1 := by
  obtain ⟨hsz, hperm, hlast, hheap⟩ := removePrep_spec less sw a i hi h
  unfold remove
  simp only []
  have hback : (removePrep less a i).back? = some a[i] := by
    rw [Array.back?_eq_getElem?, hsz, hlast, Array.getElem?_eq_getElem hi]
  refine ⟨by rw [hback, Array.getElem?_eq_getElem hi], ?_, ?_⟩
  · rw [push_pop_back _ _ hback]; exact hperm
  · apply isHeap_pop_of_isHeapN
    rw [hsz]; exact hheap

theorem swp_self (a : Array α) (i : Nat) : swp a i i = a := by
  by_cases hi : i < a.size
  · apply Array.ext_getElem?
    intro k
    rw [getElem?_swp a i i k hi hi]
    unfold tr
    split
    · rename_i h; rw [h]
    · rfl
  · exact swp_oob a i i (fun h => hi h.1)

theorem removePrep_zero_eq_pop (less : α → α → Bool) (a : Array α) (h : 1 < a.size) :
    removePrep less a 0 = (down less (swp a 0 (a.size - 1)) 0 (a.size - 1)).1 := by
  unfold removePrep
  simp only []
  have : a.size - 1 ≠ 0 := by omega
  rw [if_pos this]
  split
  · -- not moved: `up(h, 0)` does nothing
    unfold up upAux; rfl
  · rfl

/-- `Pop` = `Remove(h, 0)` (the Go code differs only by an `up(h, 0)` that does nothing). -/
theorem pop_eq_remove_zero (less : α → α → Bool) (a : Array α) : pop less a = remove less a 0 := by
  unfold pop remove
  simp only []
  by_cases h : 1 < a.size
  · rw [removePrep_zero_eq_pop less a h]
  · have hsz : a.size - 1 = 0 := by omega
    unfold removePrep
    simp only [hsz, ne_eq, not_true_eq_false, if_false]
    rw [swp_self]
    unfold down downAux
    simp

theorem pop_spec (less : α → α → Bool) (sw : StrictWeak less) (a : Array α) (h0 : 0 < a.size)
    (h : IsHeap less a) :
    (pop less a).2 = a[0]? ∧ ((pop less a).1.push a[0]).Perm a ∧ IsHeap less (pop less a).1 := by
  rw [pop_eq_remove_zero]
  exact remove_spec less sw a 0 h0 h

end BbRe.Lemmas.GoHeap
