import BbRe.Lemmas.InputRootPaths
/-!
`rename` and `link` of `Model/InputRoot.lean` respect `Equiv`, and under storage
faults either are not affected or fail with `EIO` leaving an equivalent tree (C17).
-/
namespace BbRe.Lemmas.InputRoot
open BbRe.InputRoot

theorem moveEntry_equiv (c : CAS) {tl te odl ode : Node} (ht : Equiv c tl te) (ho : Equiv c odl ode)
    (p1 : Path) (x1 : Name) (p2 : Path) (x2 : Name) :
    Equiv c (moveEntry c tl p1 x1 p2 x2 odl) (moveEntry c te p1 x1 p2 x2 ode) := by
  unfold moveEntry
  have h1 := withDir_equiv c (actErase x1) (actErase_resp c x1) p1 tl te ht
  exact (withDir_equiv2 c _ _ (actPut_rel c x2 ho) p2 _ _ h1.2).2

theorem out_ne_ok_congr {a b : Out} (h : a = b) : (a ≠ .ok) = (b ≠ .ok) := by rw [h]

theorem rename_equiv (c : CAS) (l e : Node) (h : Equiv c l e) (p1 : Path) (x1 : Name) (p2 : Path)
    (x2 : Name) :
    (rename c [] l p1 x1 p2 x2).2 = (rename c [] e p1 x1 p2 x2).2 ∧
    Equiv c (rename c [] l p1 x1 p2 x2).1 (rename c [] e p1 x1 p2 x2).1 := by
  have g1 := walkTo_equiv c p1 l e h
  simp only [rename]
  generalize walkTo c [] p1 l = w1l at g1 ⊢
  generalize walkTo c [] p1 e = w1e at g1 ⊢
  obtain ⟨g1o, g1t⟩ := g1
  by_cases gk : w1e.2 = .ok
  rotate_left
  · have gk' : ¬ w1l.2 = .ok := fun hh => gk (g1o.symm.trans hh)
    simp only [ne_eq, gk, gk', not_false_eq_true, if_true]
    exact ⟨g1o, g1t⟩
  have gk' : w1l.2 = .ok := g1o.trans gk
  simp only [ne_eq, gk, gk', not_true_eq_false, if_false]
  have g2 := walkTo_equiv c p2 w1l.1 w1e.1 g1t
  generalize walkTo c [] p2 w1l.1 = w2l at g2 ⊢
  generalize walkTo c [] p2 w1e.1 = w2e at g2 ⊢
  obtain ⟨g2o, g2t⟩ := g2
  by_cases gk2 : w2e.2 = .ok
  rotate_left
  · have gk2' : ¬ w2l.2 = .ok := fun hh => gk2 (g2o.symm.trans hh)
    simp only [gk2, gk2', not_false_eq_true, if_true]
    exact ⟨g2o, g2t⟩
  have gk2' : w2l.2 = .ok := g2o.trans gk2
  simp only [gk2, gk2', not_true_eq_false, if_false]
  have h1 := withDir_equiv c actNop (actNop_resp c) p1 w2l.1 w2e.1 g2t
  generalize withDir c [] actNop p1 w2l.1 = r1l at h1 ⊢
  generalize withDir c [] actNop p1 w2e.1 = r1e at h1 ⊢
  obtain ⟨h1o, h1t⟩ := h1
  by_cases hk : r1e.2 = .ok
  rotate_left
  · have hk' : ¬ r1l.2 = .ok := fun hh => hk (h1o.symm.trans hh)
    simp only [hk, hk', not_false_eq_true, if_true]
    exact ⟨h1o, h1t⟩
  have hk' : r1l.2 = .ok := h1o.trans hk
  simp only [hk, hk', not_true_eq_false, if_false]
  have h2 := withDir_equiv c actNop (actNop_resp c) p2 r1l.1 r1e.1 h1t
  generalize withDir c [] actNop p2 r1l.1 = r2l at h2 ⊢
  generalize withDir c [] actNop p2 r1e.1 = r2e at h2 ⊢
  obtain ⟨h2o, h2t⟩ := h2
  by_cases hk2 : r2e.2 = .ok
  rotate_left
  · have hk2' : ¬ r2l.2 = .ok := fun hh => hk2 (h2o.symm.trans hh)
    simp only [hk2, hk2', not_false_eq_true, if_true]
    exact ⟨h2o, h2t⟩
  have hk2' : r2l.2 = .ok := h2o.trans hk2
  simp only [hk2, hk2', not_true_eq_false, if_false]
  rcases nodeAt_equiv c (p1 ++ [x1]) r2l.1 r2e.1 h2t with ⟨ho1, ho2⟩ | ⟨odl, ode, ho1, ho2, hod⟩ <;>
    rcases nodeAt_equiv c (p2 ++ [x2]) r2l.1 r2e.1 h2t with ⟨hn1, hn2⟩ | ⟨nwl, nwe, hn1, hn2, hnw⟩ <;>
    simp only [ho1, ho2, hn1, hn2]
  · exact ⟨by first | rfl | trivial, h2t⟩
  · exact ⟨by first | rfl | trivial, h2t⟩
  · exact ⟨by first | rfl | trivial, moveEntry_equiv c h2t hod p1 x1 p2 x2⟩
  · have hkn := hnw.kind
    have hko := hod.kind
    rw [hkn, hko]
    by_cases hd : kindOf nwe = .dir
    · simp only [hd, if_true]
      by_cases hdo : kindOf ode = .dir
      · simp only [hdo, not_true_eq_false, if_false]
        by_cases hs : p1 = p2 ∧ x1 = x2
        · simp only [hs, and_self, if_true]; exact ⟨by first | rfl | trivial, h2t⟩
        · simp only [hs, if_false]
          have h3 := withDir_equiv c _ (actForceChild_resp c x2) p2 r2l.1 r2e.1 h2t
          generalize withDir c [] (actForceChild c [] x2) p2 r2l.1 = r3l at h3 ⊢
          generalize withDir c [] (actForceChild c [] x2) p2 r2e.1 = r3e at h3 ⊢
          obtain ⟨h3o, h3t⟩ := h3
          by_cases hk3 : r3e.2 = .ok
          · have hk3' : r3l.2 = .ok := h3o.trans hk3
            simp only [hk3, hk3', not_true_eq_false, if_false]
            exact ⟨by first | rfl | trivial, moveEntry_equiv c h3t hod p1 x1 p2 x2⟩
          · have hk3' : ¬ r3l.2 = .ok := fun hh => hk3 (h3o.symm.trans hh)
            simp only [hk3, hk3', not_false_eq_true, if_true]
            exact ⟨h3o, h3t⟩
      · simp only [hdo, not_false_eq_true, if_true]; exact ⟨by first | rfl | trivial, h2t⟩
    · simp only [hd, if_false]
      by_cases hdo : kindOf ode = .dir
      · simp only [hdo, if_true]; exact ⟨by first | rfl | trivial, h2t⟩
      · simp only [hdo, if_false]
        by_cases hs : p1 = p2 ∧ x1 = x2
        · simp only [hs, and_self, if_true]; exact ⟨by first | rfl | trivial, h2t⟩
        · simp only [hs, if_false]
          exact ⟨by first | rfl | trivial, moveEntry_equiv c h2t hod p1 x1 p2 x2⟩

theorem link_equiv (c : CAS) (l e : Node) (h : Equiv c l e) (ps : Path) (xs : Name) (pd : Path)
    (xd : Name) :
    (link c [] l ps xs pd xd).2 = (link c [] e ps xs pd xd).2 ∧
    Equiv c (link c [] l ps xs pd xd).1 (link c [] e ps xs pd xd).1 := by
  have h1 := withDir_equiv c actNop (actNop_resp c) ps l e h
  simp only [link]
  generalize withDir c [] actNop ps l = r1l at h1 ⊢
  generalize withDir c [] actNop ps e = r1e at h1 ⊢
  obtain ⟨h1o, h1t⟩ := h1
  by_cases hk : r1e.2 = .ok
  rotate_left
  · have hk' : ¬ r1l.2 = .ok := fun hh => hk (h1o.symm.trans hh)
    simp only [ne_eq, hk, hk', not_false_eq_true, if_true]
    exact ⟨h1o, h1t⟩
  have hk' : r1l.2 = .ok := h1o.trans hk
  simp only [ne_eq, hk, hk', not_true_eq_false, if_false]
  rcases nodeAt_equiv c (ps ++ [xs]) r1l.1 r1e.1 h1t with ⟨ho1, ho2⟩ | ⟨vl, ve, ho1, ho2, hv⟩ <;>
    simp only [ho1, ho2]
  · exact ⟨by first | rfl | trivial, h1t⟩
  · rw [hv.kind]
    by_cases hd : kindOf ve = .dir
    · simp only [hd, if_true]; exact ⟨by first | rfl | trivial, h1t⟩
    · simp only [hd, if_false]
      exact withDir_equiv2 c _ _ (actPutNew_rel c xd hv) pd _ _ h1t

/-! ### faults -/

theorem rename_fault (c : CAS) (F : List Dig) (n : Node) (p1 : Path) (x1 : Name) (p2 : Path) (x2 : Name) :
    rename c F n p1 x1 p2 x2 = rename c [] n p1 x1 p2 x2 ∨
    ((rename c F n p1 x1 p2 x2).2 = .status .eio ∧ Equiv c (rename c F n p1 x1 p2 x2).1 n) := by
  simp only [rename]
  have j1 := walkTo_keeps c [] p1 n
  rcases walkTo_fault c F p1 n with e01 | ⟨f01, g01⟩
  rotate_left
  · right
    simp only [ne_eq, f01, reduceCtorEq, not_false_eq_true, if_true]
    exact ⟨by first | exact f01 | trivial, g01⟩
  rw [e01]
  generalize walkTo c [] p1 n = w1 at j1 ⊢
  by_cases jk : w1.2 = .ok
  rotate_left
  · left; simp only [ne_eq, jk, not_false_eq_true, if_true]
  simp only [ne_eq, jk, not_true_eq_false, if_false]
  have j2 := walkTo_keeps c [] p2 w1.1
  rcases walkTo_fault c F p2 w1.1 with e02 | ⟨f02, g02⟩
  rotate_left
  · right
    simp only [f02, reduceCtorEq, not_false_eq_true, if_true]
    exact ⟨by first | exact f02 | trivial, g02.trans j1⟩
  rw [e02]
  generalize walkTo c [] p2 w1.1 = w2 at j2 ⊢
  by_cases jk2 : w2.2 = .ok
  rotate_left
  · left; simp only [jk2, not_false_eq_true, if_true]
  simp only [jk2, not_true_eq_false, if_false]
  have k0 : Equiv c w2.1 n := j2.trans j1
  have k1 := (withDir_keeps c [] actNop (actNop_keeps c) p1 w2.1).trans k0
  rcases withDir_fault c F actNop actNop (act_fault_same c actNop) p1 w2.1 with e1 | ⟨f1, g1⟩
  rotate_left
  · right
    simp only [f1, reduceCtorEq, not_false_eq_true, if_true]
    exact ⟨by first | exact f1 | trivial, g1.trans k0⟩
  rw [e1]
  generalize withDir c [] actNop p1 w2.1 = r1 at k1 ⊢
  by_cases hk : r1.2 = .ok
  rotate_left
  · left; simp only [hk, not_false_eq_true, if_true]
  simp only [hk, not_true_eq_false, if_false]
  have k2 := withDir_keeps c [] actNop (actNop_keeps c) p2 r1.1
  rcases withDir_fault c F actNop actNop (act_fault_same c actNop) p2 r1.1 with e2 | ⟨f2, g2⟩
  rotate_left
  · right
    simp only [f2, reduceCtorEq, not_false_eq_true, if_true]
    exact ⟨by first | exact f2 | trivial, g2.trans k1⟩
  rw [e2]
  generalize withDir c [] actNop p2 r1.1 = r2 at k2 ⊢
  by_cases hk2 : r2.2 = .ok
  rotate_left
  · left; simp only [hk2, not_false_eq_true, if_true]
  simp only [hk2, not_true_eq_false, if_false]
  cases hnw : nodeAt c r2.1 (p2 ++ [x2]) with
  | none => left; rfl
  | some nw =>
    cases hod : nodeAt c r2.1 (p1 ++ [x1]) with
    | none => left; rfl
    | some od =>
      simp only []
      by_cases hd : kindOf nw = .dir
      rotate_left
      · left; simp only [hd, if_false]
      simp only [hd, if_true]
      by_cases hdo : kindOf od = .dir
      rotate_left
      · left; simp only [hdo, not_false_eq_true, if_true]
      simp only [hdo, not_true_eq_false, if_false]
      by_cases hs : p1 = p2 ∧ x1 = x2
      · left; simp only [hs, and_self, if_true]
      simp only [hs, if_false]
      rcases withDir_fault c F _ _ (actForceChild_fault c F x2) p2 r2.1 with e3 | ⟨f3, g3⟩
      · left; rw [e3]
      · right
        simp only [f3, reduceCtorEq, not_false_eq_true, if_true]
        exact ⟨by first | exact f3 | trivial, (g3.trans k2).trans k1⟩

theorem link_fault (c : CAS) (F : List Dig) (n : Node) (ps : Path) (xs : Name) (pd : Path) (xd : Name) :
    link c F n ps xs pd xd = link c [] n ps xs pd xd ∨
    ((link c F n ps xs pd xd).2 = .status .eio ∧ Equiv c (link c F n ps xs pd xd).1 n) := by
  have k1 := withDir_keeps c [] actNop (actNop_keeps c) ps n
  simp only [link]
  rcases withDir_fault c F actNop actNop (act_fault_same c actNop) ps n with e1 | ⟨f1, g1⟩
  rotate_left
  · right
    simp only [ne_eq, f1, reduceCtorEq, not_false_eq_true, if_true]
    exact ⟨by first | exact f1 | trivial, g1⟩
  rw [e1]
  generalize withDir c [] actNop ps n = r1 at k1 ⊢
  by_cases hk : r1.2 = .ok
  rotate_left
  · left; simp only [ne_eq, hk, not_false_eq_true, if_true]
  simp only [ne_eq, hk, not_true_eq_false, if_false]
  cases hv : nodeAt c r1.1 (ps ++ [xs]) with
  | none => left; rfl
  | some v =>
    simp only []
    by_cases hd : kindOf v = .dir
    · left; simp only [hd, if_true]
    simp only [hd, if_false]
    rcases withDir_fault c F _ _ (act_fault_same c (actPutNew xd v)) pd r1.1 with e2 | ⟨f2, g2⟩
    · left; exact e2
    · right; exact ⟨by first | exact f2 | trivial, g2.trans k1⟩

end BbRe.Lemmas.InputRoot
