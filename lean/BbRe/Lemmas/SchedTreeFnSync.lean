import BbRe.Lemmas.SchedTreeFnDefs
import BbRe.Lemmas.SchedTreeLinkStepA
import BbRe.Lemmas.SchedTreeLinkStepB
import BbRe.Lemmas.SchedTreeLinkStepC
import BbRe.Lemmas.SchedTreeLinkFrame
import BbRe.Lemmas.SchedInvSync
/-!
Function-level lemmas of the tree layer for `Synchronize`: `tSyncQueue`, `tSyncWorker`, `tSyncArrive`,
`tSyncWake` keep the tree part `TS []` of the invariant.
-/
namespace BbRe.Lemmas.SchedTree
open BbRe.Sched BbRe.SchedTree BbRe.Lemmas.SchedInv

/-! ### helpers -/


theorem setS_self (ts : TState) : ts.setS ts.s = ts := rfl

/-- `syncReturn` after a frame step, for a worker that is not parked -/
theorem syncReturn_ts {ex exo} {X : List (ScqId × List Nat)} {ts : TState} {s1 : State} {q : ScqId} {w : WId}
    (hT : TInvX ex exo X ts) (hf : SFrame ts.s s1)
    (hnp : ∀ wk, wfind ts.s.workers q w = some wk → wk.parked = false) :
    TS X (ts.setS (syncReturn s1 q w)) := by
  rw [syncReturn_eq]
  cases hw : s1.worker? q w with
  | none => exact hT.ts.sframe hf
  | some wk =>
    dsimp only
    have hw0 : wfind ts.s.workers q w = some wk := by
      rw [worker?_def, hf.workers] at hw; exact hw
    have hp := hnp wk hw0
    refine wset_ts (wk := wk) (wk' := resetW wk) hT hw0 ⟨rfl, rfl, rfl, hp.symm⟩ ?_ hf.tasks hf.scqs ?_
    · show wset s1.workers (resetW wk) = _
      rw [hf.workers]
    · intro o op' h
      obtain ⟨op, e, hi, hp, _⟩ := hf.ops o op' h
      exact ⟨op, e, hi, hp⟩

/-- `… ; return ts1.setS (syncReturn s13 q w)` where `ts1.setS s12` is a good state, `s12 → s13` a frame step -/
theorem syncReturn_ts2 {ts1 : TState} {s12 s13 : State} {q : ScqId} {w : WId}
    (hts : TS [] (ts1.setS s12)) (hI12 : Inv s12) (hf : SFrame s12 s13)
    (hnp : ∀ wk, wfind s12.workers q w = some wk → wk.parked = false) :
    TS [] (ts1.setS (syncReturn s13 q w)) :=
  syncReturn_ts (ts := ts1.setS s12) (TInv.mk' hI12 hts).x hf hnp

/-! ### `tSyncQueue` -/

theorem scq?_none {s : State} {q : ScqId} (h : s.scq? q = none) : ∀ sq ∈ s.scqs, sq.id ≠ q := by
  intro sq hm e
  unfold State.scq? at h
  have := List.find?_eq_none.mp h sq hm
  simp [e] at this

/-- what `syncQueue` does to the tables the tree layer looks at -/
theorem syncQueue_shape {s : State} {q : ScqId} {comps : List Nat} {platform : Nat} {w : WId} {r : State ⊕ State}
    (h : syncQueue s q comps platform w = .ok r) :
    match r with
    | .inl s1 => SFrame s s1
    | .inr s1 => ((s.scq? q).isSome = true ∧ SFrame s s1) ∨
        (s.scq? q = none ∧ ∃ sq0 : Scq, sq0.id = q ∧ s1.scqs = s.scqs ++ [sq0] ∧ s1.tasks = s.tasks ∧
          s1.workers = s.workers ∧ s1.ops = s.ops) := by
  unfold syncQueue at h
  tpaths h
  all_goals cases h
  · rename_i hq
    exact Or.inl ⟨by rw [hq]; rfl, removeCleanup_sframe _ _⟩
  · exact emit_sframe _ _
  · exact emit_sframe _ _
  · exact emit_sframe _ _
  · exact Or.inr ⟨by assumption, _, rfl, rfl, rfl, rfl, rfl⟩
  · exact Or.inr ⟨by assumption, _, rfl, rfl, rfl, rfl, rfl⟩

theorem tSyncQueue_ts {ts : TState} {q : ScqId} {comps : List Nat} {platform : Nat} {w : WId}
    {r : TState ⊕ TState} (hI : TInv ts) (hh : tSyncQueue ts q comps platform w = .ok r) :
    match r with
    | .inl t' => TS [] t'
    | .inr t' => TS [] t' := by
  have hT := hI.x
  unfold tSyncQueue at hh
  cases hsq : syncQueue ts.s q comps platform w with
  | error e => rw [hsq] at hh; cases hh
  | ok r0 =>
    rw [hsq] at hh
    have hs := syncQueue_shape hsq
    cases r0 with
    | inl s1 =>
      cases hh
      exact hT.ts.sframe hs
    | inr s1 =>
      simp only [bind, Except.bind, pure, Except.pure] at hh
      rcases hs with ⟨h1, hf⟩ | ⟨h1, sq0, h2, h3, h4, h5, h6⟩
      · rw [if_pos h1] at hh
        cases hh
        exact hT.ts.sframe hf
      · rw [h1] at hh
        cases hh
        exact newScq_ts hT (scq?_none h1) h2 h3 h4 h5 h6

/-! ### `tSyncWorker` -/

theorem tSyncWorker_ts {ts : TState} {q : ScqId} {w : WId} (hI : TInv ts)
    (hq : ∃ sq ∈ ts.s.scqs, sq.id = q) :
    match tSyncWorker ts q w with
    | .inl t' => TS [] t'
    | .inr t' => TS [] t' := by
  have hT := hI.x
  unfold tSyncWorker syncWorker
  cases hw : ts.s.worker? q w with
  | some wk =>
    dsimp only
    have hw' : wfind ts.s.workers q w = some wk := hw
    by_cases his : wk.inSync = true
    · rw [if_pos his]
      exact hT.ts.sframe (emit_sframe _ _)
    · rw [if_neg his]
      dsimp only
      rw [if_pos (show (some wk).isSome = true from rfl)]
      dsimp only
      exact wset_ts (wk := wk) (wk' := { wk with inSync := true }) hT hw' ⟨rfl, rfl, rfl, rfl⟩ rfl rfl rfl
        (op?_of_ops rfl)
  | none =>
    dsimp only
    have hw' : wfind ts.s.workers q w = none := hw
    rw [if_neg (show ¬ (none : Option Worker).isSome = true by simp)]
    dsimp only
    exact newWorker_ts hT hq hw' ⟨rfl, rfl, rfl, rfl⟩ rfl rfl rfl rfl

/-! ### `tSyncArrive` -/

/-- `tSyncArrive` after the queue and the worker have been found or created -/
def tSyncBody (h : Hints) (x : Extras) (ts : TState) (q : ScqId) (w : WId) (rep : Report) (preferIdle : Bool) :
    M TState := do
  let s := ts.s
  let some wk := s.worker? q w | throw "syncArrive: worker vanished"
  match rep with
  | .malformed => return ts.setS (syncReturn (emit s (.syncErr q w cInvalidArgument)) q w)
  | .idle => tGetCurrentOrNext h x ts q w preferIdle true
  | .executing d =>
    match wk.task with
    | some tid =>
      match s.task? tid with
      | some t =>
        if t.digest = d then return ts.setS (syncReturn (emit s (.syncNoChange q w (s.now + s.cfg.busyInterval))) q w)
        else tGetCurrentOrNext h x ts q w preferIdle false
      | none => tGetCurrentOrNext h x ts q w preferIdle false
    | none => tGetCurrentOrNext h x ts q w preferIdle false
  | .completed d r =>
    match wk.task with
    | some tid =>
      match s.task? tid with
      | some t =>
        if t.digest = d then do
          let ts ← tComplete h x ts tid r true
          tGetNextTask h x ts q w preferIdle true
        else tGetCurrentOrNext h x ts q w preferIdle true
      | none => tGetCurrentOrNext h x ts q w preferIdle true
    | none => tGetCurrentOrNext h x ts q w preferIdle true

theorem tSyncArrive_eq (h : Hints) (x : Extras) (ts : TState) (now : Nat) (q : ScqId) (comps : List Nat)
    (platform : Nat) (w : WId) (rep : Report) (pi : Bool) :
    tSyncArrive h x ts now q comps platform w rep pi =
      (tEnter h x ts now >>= fun ts => tSyncQueue ts q comps platform w >>= fun r =>
        match r with
        | .inl ts => pure ts
        | .inr ts =>
          match tSyncWorker ts q w with
          | .inl ts => pure ts
          | .inr ts => tSyncBody h x ts q w rep pi) := rfl

theorem tSyncBody_ts (hC : CompleteOK) (hN : NextOK) (hK : CurOK) {h : Hints} {x : Extras} {ts ts' : TState}
    {q : ScqId} {w : WId} {rep : Report} {pi : Bool} {wk : Worker} (hI : TInv ts)
    (hw : wfind ts.s.workers q w = some wk) (hr : Ready' wk)
    (hh : tSyncBody h x ts q w rep pi = .ok ts') : TS [] ts' := by
  have hT := hI.x
  have hnp : ∀ wk', wfind ts.s.workers q w = some wk' → wk'.parked = false := by
    intro wk' h'; rw [hw] at h'; cases h'; exact hr.parked
  have hcur : ∀ bl, tGetCurrentOrNext h x ts q w pi bl = .ok ts' → TS [] ts' :=
    fun bl h' => hK h x ts ts' q w wk pi bl hI hw hr h'
  unfold tSyncBody at hh
  simp only [worker?_def, hw] at hh
  cases rep with
  | malformed =>
    cases hh
    exact syncReturn_ts hT (emit_sframe _ _) hnp
  | idle => exact hcur _ hh
  | executing d =>
    dsimp only at hh
    split at hh
    · split at hh
      · split at hh
        · cases hh
          exact syncReturn_ts hT (emit_sframe _ _) hnp
        · exact hcur _ hh
      · exact hcur _ hh
    · exact hcur _ hh
  | completed d r =>
    dsimp only at hh
    split at hh
    · rename_i tid hwt
      split at hh
      · rename_i t ht
        split at hh
        · simp only [bind, Except.bind] at hh
          split at hh
          · cases hh
          · rename_i ts1 hc
            have hex : (alookup tid ts.s.tasks).isSome = true := by
              rw [task?_def] at ht; rw [ht]; rfl
            have hts1 := hC h x ts ts1 tid r true hI hex hc
            obtain ⟨hI1, hcp, _, _⟩ := inv_of_ref (tComplete_ref h x ts tid r true)
              (complete_spec (h := h) (r := r) (bw := true) hI.inv hex) hc
            have hw1 := complete_clears hI.inv hI1 hcp hw hwt hr.parked
            exact hN h x ts1 ts' q w _ pi true (TInv.mk' hI1 hts1) hw1
              ⟨hr.parked, hr.woken, rfl, hr.drainWait, hr.inSync⟩ hh
        · exact hcur _ hh
      · exact hcur _ hh
    · exact hcur _ hh

/-- after `syncQueue` went through, the queue exists -/
theorem syncQueue_has {s s1 : State} {q : ScqId} {comps : List Nat} {platform : Nat} {w : WId}
    (h : syncQueue s q comps platform w = .ok (.inr s1)) : ∃ sq ∈ s1.scqs, sq.id = q := by
  rcases syncQueue_shape h with ⟨h1, hf⟩ | ⟨_, sq0, h2, h3, _⟩
  · unfold State.scq? at h1
    obtain ⟨sq, hsq⟩ := Option.isSome_iff_exists.mp h1
    refine ⟨sq, ?_, ?_⟩
    · rw [hf.scqs]; exact List.mem_of_find?_eq_some hsq
    · simpa using List.find?_some hsq
  · exact ⟨sq0, by rw [h3]; exact List.mem_append_right _ List.mem_cons_self, h2⟩

theorem tSyncArrive_ts (hE : EnterOK) (hC : CompleteOK) (hN : NextOK) (hK : CurOK) {h : Hints} {x : Extras}
    {ts ts' : TState} {now : Nat} {q : ScqId} {comps : List Nat} {platform : Nat} {w : WId} {rep : Report}
    {pi : Bool} (hI : TInv ts) (hh : tSyncArrive h x ts now q comps platform w rep pi = .ok ts') :
    TS [] ts' := by
  rw [tSyncArrive_eq] at hh
  simp only [bind, Except.bind] at hh
  split at hh
  · cases hh
  · rename_i ts0 he
    have hts0 := hE h x ts ts0 now hI he
    obtain ⟨hI0, _⟩ := inv_of_ref (tEnter_ref h x ts now) (enter_spec (h := h) (t := now) hI.inv) he
    have hTI0 : TInv ts0 := TInv.mk' hI0 hts0
    split at hh
    · cases hh
    · rename_i r hq
      have htq := tSyncQueue_ts hTI0 hq
      have hrq := tSyncQueue_ref ts0 q comps platform w r hq
      have hsq := wp_of_ok (syncQueue_spec (q := q) (comps := comps) (platform := platform) (w := w) hI0) hrq
      cases r with
      | inl ts1 =>
        cases hh
        exact htq
      | inr ts1 =>
        dsimp only at hh htq
        simp only [sproj] at hrq hsq
        have hTI1 : TInv ts1 := TInv.mk' hsq.1 htq
        have hex := syncQueue_has hrq
        have htw := tSyncWorker_ts (w := w) hTI1 hex
        have hsw := syncWorker_spec (q := q) (w := w) hsq.1
        rw [tSyncWorker_ref] at hsw
        cases hw : tSyncWorker ts1 q w with
        | inl ts2 =>
          rw [hw] at hh htw
          cases hh
          exact htw
        | inr ts2 =>
          rw [hw] at hh htw hsw
          simp only [sproj] at hsw
          obtain ⟨hI2, _, wk2, hw2, hr2⟩ := hsw
          exact tSyncBody_ts hC hN hK (TInv.mk' hI2 htw) hw2 hr2 hh

/-! ### `tSyncWake` -/

/-- `tSyncWake` after `bq.enter` -/
def tWakeBody (h : Hints) (x : Extras) (ts : TState) (q : ScqId) (w : WId) (reason : Nat) : M TState := do
  let s := ts.s
  let some wk := s.worker? q w | throw "mismatch: no such worker"
  if !wk.inSync then throw "mismatch: worker is not inside Synchronize"
  match reason with
  | 1 =>
    let s := s.setWorker { wk with parked := false, woken := false, drainWait := none }
    if wk.task.isSome then return (ts.maybeDequeue wk).setS (syncReturn (← execResponse s wk) q w)
    return (ts.maybeDequeue wk).setS (syncReturn (emit s (.syncIdle q w s.now)) q w)
  | 2 =>
    let s := s.setWorker { wk with parked := false, woken := false, drainWait := none }
    return (ts.maybeDequeue wk).setS (syncReturn (emit s (.syncErr q w cCanceled)) q w)
  | 0 =>
    if !wk.woken then throw "mismatch: worker woke up although its wakeup channel is open"
    let s := s.setWorker { wk with woken := false }
    if wk.task.isSome then return ts.setS (syncReturn (← execResponse s wk) q w)
    tGetNextTask h x (ts.setS s) q w false true
  | 3 =>
    let some sq := s.scq? q | throw "syncWake: no queue"
    match wk.drainWait with
    | some g =>
      if g = sq.undrainGen then throw "mismatch: worker woke up without an undrain"
      let s := s.setWorker { wk with drainWait := none }
      tGetNextTask h x (ts.setS s) q w false true
    | none => throw "mismatch: worker is not waiting for an undrain"
  | _ => throw "bad-op"

theorem tSyncWake_eq (h : Hints) (x : Extras) (ts : TState) (now : Nat) (q : ScqId) (w : WId) (reason : Nat) :
    tSyncWake h x ts now q w reason = (tEnter h x ts now >>= fun ts => tWakeBody h x ts q w reason) := rfl

theorem tWakeBody_ts (hN : NextOK) {h : Hints} {x : Extras} {ts ts' : TState} {q : ScqId} {w : WId}
    {reason : Nat} (hI : TInv ts) (hh : tWakeBody h x ts q w reason = .ok ts') : TS [] ts' := by
  have hT := hI.x
  unfold tWakeBody at hh
  cases hw : ts.s.worker? q w with
  | none => simp only [hw] at hh; cases hh
  | some wk =>
    simp only [hw] at hh
    simp only [worker?_def] at hw
    have hk := wfind_key hw
    have hw' : wfind ts.s.workers wk.scq wk.id = some wk := by rw [hk.1, hk.2]; exact hw
    by_cases his : wk.inSync = true
    · have hng : (!wk.inSync) = false := by simp [his]
      simp only [hng, Bool.false_eq_true, if_false, bind, Except.bind, pure, Except.pure] at hh
      -- the timeout / cancel update
      have hI12 := setFlags_inv (wk := wk) (wk' := { wk with parked := false, woken := false, drainWait := none })
        hI.inv hw' rfl rfl rfl rfl rfl rfl
      have hw12 := wfind_setWorker_self (wk' := { wk with parked := false, woken := false, drainWait := none })
        hw rfl rfl
      have hts12 : TS [] ((ts.maybeDequeue wk).setS
          (ts.s.setWorker { wk with parked := false, woken := false, drainWait := none })) :=
        unpark_ts (wk' := { wk with parked := false, woken := false, drainWait := none }) hT hw
          ⟨rfl, rfl, rfl, rfl⟩ rfl rfl rfl (op?_of_ops rfl)
      have hnp12 : ∀ wk', wfind (ts.s.setWorker { wk with parked := false, woken := false, drainWait := none }).workers q w
          = some wk' → wk'.parked = false := by
        intro wk' h'
        rw [hw12] at h'
        cases h'; rfl
      split at hh
      · -- timeout
        split at hh
        · split at hh
          · cases hh
          · rename_i s13 he
            cases hh
            exact syncReturn_ts2 hts12 hI12 (execResponse_sframe he) hnp12
        · cases hh
          exact syncReturn_ts2 hts12 hI12 (emit_sframe _ _) hnp12
      · -- cancelled
        cases hh
        exact syncReturn_ts2 hts12 hI12 (emit_sframe _ _) hnp12
      · -- wake-up channel closed
        by_cases hwo : wk.woken = true
        · have hng2 : (!wk.woken) = false := by simp [hwo]
          simp only [hng2, Bool.false_eq_true, if_false] at hh
          have hp : wk.parked = false := by
            cases hp : wk.parked with
            | false => rfl
            | true => have := (hI.inv.core.w1 q w wk hw hp).2.2.1; rw [hwo] at this; cases this
          have hd : wk.drainWait = none := (hI.inv.core.w2 q w wk hw hwo).1
          have hI0 := setFlags_inv (wk := wk) (wk' := { wk with woken := false }) hI.inv hw' rfl rfl rfl hp rfl hd
          have hw0 := wfind_setWorker_self (wk' := { wk with woken := false }) hw rfl rfl
          have hts0 : TS [] (ts.setS (ts.s.setWorker { wk with woken := false })) :=
            wset_ts (wk' := { wk with woken := false }) hT hw ⟨rfl, rfl, rfl, rfl⟩ rfl rfl rfl (op?_of_ops rfl)
          split at hh
          · split at hh
            · cases hh
            · rename_i s1 he
              cases hh
              refine syncReturn_ts2 hts0 hI0 (execResponse_sframe he) ?_
              intro wk' h'; rw [hw0] at h'; cases h'; exact hp
          · rename_i hts
            have hwt : wk.task = none := by simpa using hts
            exact hN h x _ ts' q w _ false true (TInv.mk' hI0 hts0) hw0 ⟨hp, rfl, hwt, hd, his⟩ hh
        · have hng2 : (!wk.woken) = true := by simpa using hwo
          simp only [hng2, if_true] at hh
          cases hh
      · -- undrain
        split at hh
        · rename_i sq _
          split at hh
          · rename_i g hdw
            split at hh
            · cases hh
            · have h3 := hI.inv.core.w3 q w wk hw (by rw [hdw]; rfl)
              have hp : wk.parked = false := by
                cases hp : wk.parked with
                | false => rfl
                | true => have := (hI.inv.core.w1 q w wk hw hp).2.1; rw [hdw] at this; cases this
              have hwo : wk.woken = false := by
                cases hp : wk.woken with
                | false => rfl
                | true => have := (hI.inv.core.w2 q w wk hw hp).1; rw [hdw] at this; cases this
              have hI3 := setFlags_inv (wk := wk) (wk' := { wk with drainWait := none }) hI.inv hw' rfl rfl rfl hp hwo rfl
              have hw3 := wfind_setWorker_self (wk' := { wk with drainWait := none }) hw rfl rfl
              have hts3 : TS [] (ts.setS (ts.s.setWorker { wk with drainWait := none })) :=
                wset_ts (wk' := { wk with drainWait := none }) hT hw ⟨rfl, rfl, rfl, rfl⟩ rfl rfl rfl (op?_of_ops rfl)
              exact hN h x _ ts' q w _ false true (TInv.mk' hI3 hts3) hw3 ⟨hp, hwo, h3.1, rfl, his⟩ hh
          · cases hh
        · cases hh
      · cases hh
    · have hng : (!wk.inSync) = true := by simpa using his
      simp only [hng, if_true, bind, Except.bind] at hh
      cases hh

theorem tSyncWake_ts (hE : EnterOK) (hN : NextOK) {h : Hints} {x : Extras} {ts ts' : TState} {now : Nat}
    {q : ScqId} {w : WId} {reason : Nat} (hI : TInv ts)
    (hh : tSyncWake h x ts now q w reason = .ok ts') : TS [] ts' := by
  rw [tSyncWake_eq] at hh
  simp only [bind, Except.bind] at hh
  split at hh
  · cases hh
  · rename_i ts0 he
    have hts0 := hE h x ts ts0 now hI he
    obtain ⟨hI0, _⟩ := inv_of_ref (tEnter_ref h x ts now) (enter_spec (h := h) (t := now) hI.inv) he
    exact tWakeBody_ts hN (TInv.mk' hI0 hts0) hh

end BbRe.Lemmas.SchedTree
