import BbRe.Lemmas.FilePoolTrunc3
import BbRe.Lemmas.FilePoolState
/-!
Pool-wide invariant `Inv2` = `Inv` + every file satisfies `FileOK`; preserved
by every step of a well-formed history (`NewFile(holeSource, size)` with a hole
source that has no data beyond `size`).
-/
namespace BbRe.Lemmas.FilePool
open BbRe.FilePool

/-- well-formed operation: the hole source handed to `NewFile` has no data at or beyond `size`. -/
def WFOp : Op → Prop
  | .new hole size => hole.limit ≤ size
  | _ => True

instance (op : Op) : Decidable (WFOp op) := by
  cases op <;> unfold WFOp <;> infer_instance

structure Inv2 (st : State) : Prop where
  inv : Inv st
  files : ∀ (i : Nat) (f : File), st.files[i]? = some f → FileOK st.cfg.ss st.dev f

/-! ## read-only operations do not touch the device -/

theorem readFromSectors_dev (c : Cfg) (f : File) (e : Env) (n idx endIdx ow : Nat) :
    (readFromSectors c f e n idx endIdx ow).1.dev = e.dev := by
  unfold readFromSectors
  split
  · exact readHole_dev _ _ _ _
  · dsimp only
    split
    · exact readHole_dev _ _ _ _
    · exact devRead_dev _ _ _

theorem readLoop_dev (c : Cfg) (f : File) : ∀ (fuel : Nat) (e : Env) (n idx endIdx ow : Nat),
    (readLoop c f fuel e n idx endIdx ow).1.dev = e.dev := by
  intro fuel
  induction fuel with
  | zero => intro e n idx endIdx ow; rfl
  | succ fuel ih =>
    intro e n idx endIdx ow
    unfold readLoop
    dsimp only
    have h1 := readFromSectors_dev c f e n idx endIdx ow
    split
    · exact h1
    · split
      · exact h1
      · split
        · exact h1
        · dsimp only; rw [ih, h1]

theorem readAt_dev (c : Cfg) (f : File) (e : Env) (off : Int) (n : Nat) : (readAt c f e off n).1.dev = e.dev := by
  unfold readAt
  split
  · rfl
  · split
    · rfl
    · dsimp only
      split
      · rfl
      · exact readLoop_dev _ _ _ _ _ _ _ _

theorem holeSeek_dev (e : Env) : e.holeSeek.1.dev = e.dev := by
  unfold Env.holeSeek; split <;> rfl

theorem seekData_dev (c : Cfg) (f : File) (e : Env) (off : Nat) : (seekData c f e off).1.dev = e.dev := by
  unfold seekData
  dsimp only
  have h1 := holeSeek_dev e
  split
  · split
    · rename_i heq; rw [heq] at h1; exact h1
    · rename_i heq; rw [heq] at h1; exact h1
  · split
    · rfl
    · split
      · rfl
      · split
        · rename_i heq; rw [heq] at h1; exact h1
        · rename_i heq; rw [heq] at h1; exact h1

theorem seekHoleLoop_dev (c : Cfg) (f : File) : ∀ (fuel : Nat) (e : Env) (off : Nat),
    (seekHoleLoop c f fuel e off).1.dev = e.dev := by
  intro fuel
  induction fuel with
  | zero => intro e off; rfl
  | succ fuel ih =>
    intro e off
    unfold seekHoleLoop
    dsimp only
    generalize seekHoleAdvance c f off = a
    have h1 := holeSeek_dev e
    split
    · rfl
    · split
      · rename_i heq; rw [heq] at h1; exact h1
      · rename_i e1 heq; rw [heq] at h1
        split
        · exact h1
        · split
          · exact h1
          · rw [ih]; exact h1

theorem seek_dev (c : Cfg) (f : File) (e : Env) (off : Int) (data : Bool) : (seek c f e off data).1.dev = e.dev := by
  unfold seek
  split
  · rfl
  · split
    · rfl
    · split
      · exact seekData_dev _ _ _ _
      · exact seekHoleLoop_dev _ _ _ _ _

/-! ## contents of other files -/

/-- if no byte of a sector in `O` changes, the contents of a file whose sectors are all in `O` do not change. -/
theorem content_frame (ss : Nat) (O : Nat → Prop) (dev dev' : Array Byte) (g : File) (hss : 0 < ss)
    (hg : ∀ s ∈ g.sectors, s ≠ 0 → O s)
    (hfr : ∀ t k, k < ss → O (t + 1) → rd dev' (t * ss + k) = rd dev (t * ss + k)) (i : Nat) :
    content ss dev' g i = content ss dev g i := by
  unfold content
  split
  · rfl
  · rename_i hne
    obtain ⟨t, ht⟩ : ∃ t, g.sectors.getD (i / ss) 0 = t + 1 := ⟨g.sectors.getD (i / ss) 0 - 1, by omega⟩
    rw [ht, Nat.add_sub_cancel]
    apply hfr t (i % ss) (Nat.mod_lt _ hss)
    rw [← ht]
    exact hg _ ((mem_iff_getD hne).mpr ⟨_, rfl⟩) hne

theorem fileOK_frame (ss : Nat) (O : Nat → Prop) (dev dev' : Array Byte) (g : File) (hss : 0 < ss)
    (hg : ∀ s ∈ g.sectors, s ≠ 0 → O s)
    (hfr : ∀ t k, k < ss → O (t + 1) → rd dev' (t * ss + k) = rd dev (t * ss + k))
    (hok : FileOK ss dev g) : FileOK ss dev' g :=
  ⟨hok.1, fun i hi => by rw [content_frame ss O dev dev' g hss hg hfr i]; exact hok.2 i hi⟩

/-- replacing file `i` (now `FileOK`) and the device, where sectors of the other files are untouched. -/
theorem inv2_files_update {st : State} (h : Inv2 st) {i : Nat} {f f' : File} (hf : st.files[i]? = some f)
    {dev' : Array Byte} (hok : FileOK st.cfg.ss dev' f')
    (hfr : ∀ t k, k < st.cfg.ss → Oth st i (t + 1) → rd dev' (t * st.cfg.ss + k) = rd st.dev (t * st.cfg.ss + k)) :
    ∀ (j : Nat) (g : File), (st.files.set i f')[j]? = some g → FileOK st.cfg.ss dev' g := by
  intro j g hg
  have hi : i < st.files.length := (List.getElem?_eq_some_iff.mp hf).1
  rcases getElem?_set_some hi hg with ⟨rfl, rfl⟩ | ⟨hji, hg'⟩
  · exact hok
  · exact fileOK_frame st.cfg.ss (Oth st i) st.dev dev' g h.inv.ssPos
      (fun s hs hs0 => ⟨j, g, hji, hg', hs, hs0⟩) hfr (h.files j g hg')

theorem fileOK_no_sectors (ss : Nat) (dev : Array Byte) (f : File) (hs : f.sectors = [])
    (hl : f.hole.limit ≤ f.size) : FileOK ss dev f := by
  refine ⟨hl, fun i hi => ?_⟩
  rw [content_hole_of_zero _ _ _ _ (by rw [hs]; rfl)]
  exact hole_read_beyond _ _ (by omega)

theorem close_meta (f : File) (e : Env) : (close f e).1.hole = f.hole ∧ (close f e).1.size = f.size := by
  unfold close
  dsimp only
  generalize (if f.sectors.length > 0 then e.freeList f.sectors else e) = e1
  split <;> exact ⟨rfl, rfl⟩

/-- **Invariant step** for `Inv2`. -/
theorem inv2_step {st : State} (h : Inv2 st) (op : Op) (o : Oracle) (hwf : WFOp op) : Inv2 (step st op o).1 := by
  refine ⟨inv_step h.inv op o, ?_⟩
  have hcfg : ∀ e st' out, (finish e st' out).1 = st' := finish_fst
  unfold step
  dsimp only
  cases op with
  | new hole size =>
    dsimp only; rw [finish_fst]
    intro j g hg
    dsimp only at hg ⊢
    by_cases hj : j < st.files.length
    · rw [List.getElem?_append_left hj] at hg; exact h.files j g hg
    · rw [List.getElem?_append_right (Nat.le_of_not_lt hj)] at hg
      cases hjj : j - st.files.length with
      | zero =>
        rw [hjj] at hg; simp at hg; rw [← hg]
        exact fileOK_no_sectors _ _ _ rfl hwf
      | succ k => rw [hjj] at hg; simp at hg
  | read i off n =>
    dsimp only
    split
    · exact h.files
    · rename_i f hf
      rw [finish_fst]
      intro j g hg
      have : (st.put (readAt st.cfg f (st.env o) off n).1).dev = st.dev := readAt_dev _ _ _ _ _
      show FileOK st.cfg.ss (st.put (readAt st.cfg f (st.env o) off n).1).dev g
      rw [this]; exact h.files j g hg
  | write i off p =>
    dsimp only
    split
    · exact h.files
    · rename_i f hf
      rw [finish_fst]
      have hf' := file?_some hf
      have hP := inv_part h.inv hf'.1
      have hok := writeAt_fileOK (c := st.cfg) (f := f) (e := st.env o) p off h.inv.ssPos hP h.inv.noDoubleFree
        (h.files i f hf'.1)
      have hfr : ∀ t k, k < st.cfg.ss → Oth st i (t + 1) →
          rd (writeAt st.cfg f (st.env o) p off).2.1.dev (t * st.cfg.ss + k) = rd st.dev (t * st.cfg.ss + k) := by
        by_cases hneg : off < 0
        · rw [writeAt_neg p off hneg]; intro _ _ _ _; rfl
        · obtain ⟨ofs, rfl⟩ : ∃ ofs : Nat, off = (ofs : Int) := ⟨off.toNat, by omega⟩
          exact (writeAt_content (O := Oth st i) (f := f) (e := st.env o) p ofs h.inv.ssPos hP
            h.inv.noDoubleFree).2.2.2.2.2
      exact inv2_files_update h hf'.1 hok hfr
  | trunc i size =>
    dsimp only
    split
    · exact h.files
    · rename_i f hf
      rw [finish_fst]
      have hf' := file?_some hf
      have hP := inv_part h.inv hf'.1
      have hok := truncate_fileOK (c := st.cfg) (f := f) (e := st.env o) size h.inv.ssPos hP (h.files i f hf'.1)
      exact inv2_files_update h hf'.1 hok
        (fun t k hk ho => truncate_frame (c := st.cfg) (f := f) (e := st.env o) size h.inv.ssPos hP t k hk ho)
  | seek i off data =>
    dsimp only
    split
    · exact h.files
    · rename_i f hf
      rw [finish_fst]
      intro j g hg
      have : (st.put (seek st.cfg f (st.env o) off data).1).dev = st.dev := seek_dev _ _ _ _ _
      show FileOK st.cfg.ss (st.put (seek st.cfg f (st.env o) off data).1).dev g
      rw [this]; exact h.files j g hg
  | len i =>
    dsimp only
    split
    · exact h.files
    · rw [finish_fst]; exact h.files
  | close i =>
    dsimp only
    split
    · exact h.files
    · rename_i f hf
      rw [finish_fst]
      have hf' := file?_some hf
      have hP := inv_part h.inv hf'.1
      have hcl := close_part (f := f) (e := st.env o) hP h.inv.noDoubleFree
      have hokf := h.files i f hf'.1
      have hok : FileOK st.cfg.ss (close f (st.env o)).2.1.dev (close f (st.env o)).1 := by
        apply fileOK_no_sectors _ _ _ hcl.2.2.1
        have := close_meta f (st.env o)
        rw [this.1, this.2]; exact hokf.1
      exact inv2_files_update h hf'.1 hok (fun t k _ _ => by
        show rd (close f (st.env o)).2.1.dev _ = _
        rw [hcl.2.2.2.2]; rfl)

theorem inv2_init (c : Cfg) (hss : 0 < c.ss) : Inv2 (init c) :=
  ⟨inv_init c hss, by intro i f hf; simp [init] at hf⟩

theorem inv2_run {st : State} (h : Inv2 st) (ops : List (Op × Oracle)) (hwf : ∀ x ∈ ops, WFOp x.1) :
    Inv2 (run st ops) := by
  induction ops generalizing st with
  | nil => exact h
  | cons x xs ih =>
    exact ih (inv2_step h x.1 x.2 (hwf x List.mem_cons_self)) (fun y hy => hwf y (List.mem_cons_of_mem _ hy))

end BbRe.Lemmas.FilePool
