import BbRe.Lemmas.SchedLiveClean4
/-!
Cleanup accounting: stale-worker removal, `runCleanup`, `enter`.
-/
namespace BbRe.Lemmas.SchedLive
open BbRe.Sched

theorem mem_filterWorkers {s : State} {q : ScqId} {w : WId} {x : Worker} :
    x ∈ (filterWorkers s q w).workers ↔ x ∈ s.workers ∧ ¬ (x.scq = q ∧ x.id = w) := by
  simp only [filterWorkers_workers, List.mem_filter, decide_eq_true_eq]

theorem dropWorker_cinv {s : State} {q : ScqId} {w : WId} (rt : Nat) (hc : CInv { wk := some (q, w) } s)
    (hex : ∃ wk ∈ s.workers, wk.scq = q ∧ wk.id = w) : CInv noEx (dropWorker s q w rt) := by
  obtain ⟨wk0, hm0, hq0, hw0⟩ := hex
  have hnoW : ¬ hasK s (.worker q w) := hc.exWk q w rfl
  have hnoS : ¬ hasK s (.scq q) := fun hh => (hc.eS q hh).2 wk0 hm0 hq0
  -- the state after filtering, before the optional new entry
  have base : ∀ (F : State), F.workers = (filterWorkers s q w).workers → F.scqs = s.scqs → F.ops = s.ops →
      F.tasks = s.tasks → (∀ k, hasK F k ↔ (hasK s k ∨ (k = .scq q ∧ hasK F (.scq q)))) →
      ((F.cleanup.map (·.kind)).Nodup) →
      ((∃ wk ∈ F.workers, wk.scq = q) ∨ hasK F (.scq q) ∨ ∀ sq, s.scq? q = some sq → sq.mayBeRemoved = false) →
      (hasK F (.scq q) → (∃ sq, s.scq? q = some sq ∧ sq.mayBeRemoved = true) ∧ ∀ wk ∈ F.workers, wk.scq ≠ q) →
      CInv noEx F := by
    intro F fw fq fo ft fk fu fcase fnew
    have hscq : ∀ q', F.scq? q' = s.scq? q' := by intro q'; simp [State.scq?, fq]
    have hop : ∀ k, F.op? k = s.op? k := by intro k; simp [State.op?, fo]
    have htk : ∀ k, F.task? k = s.task? k := by intro k; simp [State.task?, ft]
    have hmono : ∀ k, hasK s k → hasK F k := fun k h => (fk k).2 (.inl h)
    have hmem : ∀ x, x ∈ F.workers ↔ x ∈ s.workers ∧ ¬ (x.scq = q ∧ x.id = w) := by
      intro x; rw [fw]; exact mem_filterWorkers
    refine ⟨fu, ?_, ?_, ?_, ?_, ?_, ?_, ?_, ?_, ?_, ?_, (fun _ hq => nomatch hq), (fun _ _ hq => nomatch hq)⟩
    · intro x hx hi hh
      rcases (fk _).1 hh with h | ⟨e, _⟩
      · exact hc.wIn x ((hmem x).1 hx).1 hi h
      · cases e
    · intro x hx hi _
      obtain ⟨hx1, hx2⟩ := (hmem x).1 hx
      exact hmono _ (hc.wOut x hx1 hi (by simp; exact fun a b => hx2 ⟨a, b⟩))
    · intro q' w' hh
      rcases (fk _).1 hh with h | ⟨e, _⟩
      · obtain ⟨x, hx, e1, e2⟩ := hc.eW q' w' h
        refine ⟨x, (hmem x).2 ⟨hx, ?_⟩, e1, e2⟩
        rintro ⟨a, b⟩; rw [← e1, ← e2, a, b] at h; exact hnoW h
      · cases e
    · intro o hh
      rw [hop]
      rcases (fk _).1 hh with h | ⟨e, _⟩
      · exact hc.eO o h
      · cases e
    · intro q' hh
      rw [hscq]
      rcases (fk _).1 hh with h | ⟨e, hF⟩
      · obtain ⟨a, b⟩ := hc.eS q' h
        exact ⟨a, fun x hx => b x ((hmem x).1 hx).1⟩
      · injection e with e; subst e; exact fnew hF
    · intro o op e hb; rw [hop] at e; rw [htk]; exact hc.opBg o op e hb
    · intro o op e hb _
      rw [hop] at e
      rcases hc.opFg o op e hb (by simp) with h | h
      · exact .inl h
      · exact .inr (hmono _ h)
    · intro o op e; rw [hop] at e; rw [htk]; exact hc.opT o op e
    · intro q' sq e hb _
      rw [hscq] at e
      rcases hc.scqW q' sq e hb (by simp) with ⟨x, hx, ex⟩ | h
      · by_cases hk : x.scq = q ∧ x.id = w
        · have hqq : q' = q := by rw [← ex, hk.1]
          subst hqq
          rcases fcase with h1 | h1 | h1
          · exact .inl h1
          · exact .inr h1
          · rw [h1 sq e] at hb; cases hb
        · exact .inl ⟨x, (hmem x).2 ⟨hx, hk⟩, ex⟩
      · exact .inr (hmono _ h)
    · intro x hx; rw [hscq]; exact hc.wScq x ((hmem x).1 hx).1
  unfold dropWorker
  have hsq := hc.wScq wk0 hm0
  rw [hq0] at hsq
  obtain ⟨sq, hsq⟩ := hsq
  have hsqF : (filterWorkers s q w).scq? q = some sq := hsq
  simp only [hsqF]
  split
  · rename_i hcond
    have hnoF : ∀ x ∈ (filterWorkers s q w).workers, x.scq ≠ q := by
      have := hcond.1
      simp only [Bool.not_eq_true', List.any_eq_false, decide_eq_true_eq] at this
      exact this
    refine base _ rfl rfl rfl rfl ?_ ?_ (.inr (.inl ((hasK_add _ _ _ _).2 (.inl rfl)))) ?_
    · intro k; rw [hasK_add]
      constructor
      · rintro (rfl | h)
        · exact .inr ⟨rfl, (hasK_add _ _ _ _).2 (.inl rfl)⟩
        · exact .inl h
      · rintro (h | ⟨rfl, _⟩)
        · exact .inr h
        · exact .inl rfl
    · simp only [addCleanup_cleanup, List.map_cons, List.nodup_cons]
      refine ⟨?_, hc.uniq⟩
      intro hmem
      obtain ⟨e, he, hk⟩ := List.mem_map.1 hmem
      exact hnoS ⟨e, he, hk⟩
    · intro _; exact ⟨⟨sq, hsq, hcond.2⟩, hnoF⟩
  · rename_i hcond
    refine base _ rfl rfl rfl rfl ?_ hc.uniq ?_ ?_
    · intro k
      constructor
      · exact .inl
      · rintro (h | ⟨_, h⟩)
        · exact h
        · exact absurd h hnoS
    · by_cases hany : (filterWorkers s q w).workers.any (fun x => x.scq = q) = true
      · rw [List.any_eq_true] at hany
        obtain ⟨x, hx, ex⟩ := hany
        exact .inl ⟨x, hx, by simpa using ex⟩
      · refine .inr (.inr ?_)
        intro sq' e; rw [hsq] at e; injection e with e; subst e
        cases hb : sq.mayBeRemoved with
        | false => rfl
        | true => exact absurd ⟨by simpa using hany, hb⟩ hcond
    · intro h; exact absurd h hnoS

theorem removeStaleWorker_kwc {h : Hints} {P s' : State} {q : ScqId} {w : WId} {rt : Nat}
    (hh : removeStaleWorker h P q w rt = .ok s') (hi : KWC { wk := some (q, w) } P)
    (hin : ∀ wk, P.worker? q w = some wk → wk.inSync = false) : KWC noEx s' := by
  obtain ⟨hkw, hc⟩ := hi
  refine ⟨removeStaleWorker_kw hh hkw, ?_⟩
  rcases removeStaleWorker_ok hh with ⟨hn, rfl⟩ | ⟨wk, s1, hwk, h1, rfl⟩
  · refine ⟨hc.uniq, hc.wIn, ?_, hc.eW, hc.eO, hc.eS, hc.opBg, fun k op e hb _ => hc.opFg k op e hb (by simp), hc.opT,
      fun q' sq e hb _ => hc.scqW q' sq e hb (by simp), hc.wScq, (fun _ hq => nomatch hq), (fun _ _ hq => nomatch hq)⟩
    intro x hx hi' _
    refine hc.wOut x hx hi' ?_
    simp only [ne_eq, Option.some.injEq, Prod.mk.injEq]
    rintro ⟨a, b⟩
    have := worker?_of_mem hkw.2.uniq hx
    rw [a, b, hn] at this; cases this
  · obtain ⟨hm, hq', hw'⟩ := worker?_mem hwk
    have hpk : wk.parked = false := (flags_of_not_inSync (hkw.2.ok wk hm) (hin wk hwk)).1
    rcases h1 with ⟨t, _, h1⟩ | ⟨_, rfl⟩
    · obtain ⟨keep, _⟩ := complete_keep (q := q) (w := w) h1 hkw.2
      obtain ⟨wk', e1, _⟩ := keep wk hwk hpk
      obtain ⟨hm', hq'', hw''⟩ := worker?_mem e1
      exact dropWorker_cinv rt (complete_cinv h1 hkw hc) ⟨wk', hm', hq'', hw''⟩
    · exact dropWorker_cinv rt hc ⟨wk, hm, hq', hw'⟩

/-- one iteration of the cleanup loop: pop the earliest due entry and run its callback -/
theorem callback_kwc {h : Hints} {s s' : State} {e : CleanupEntry} {rest : List CleanupEntry}
    (hi : KWC noEx s) (hp : popDue s.now s.cleanup = some (e, rest))
    (hh : callback h (setCleanup s rest) e = .ok s') : KWC noEx s' := by
  obtain ⟨hmem, _, _, rfl⟩ := popDue_some hp
  have hkwP : KW (setCleanup s (s.cleanup.filter (fun x => x ≠ e))) :=
    KWStep.of_same (s := s) rfl rfl rfl rfl rfl rfl hi.1
  have hcP := pop_cinv hi.2 hmem
  have hpop := hasK_pop hi.2.uniq hmem
  unfold callback at hh
  cases hk : e.kind with
  | worker q w =>
    simp only [hk] at hh
    rw [hk] at hcP
    refine removeStaleWorker_kwc hh ⟨hkwP, hcP⟩ ?_
    intro wk hwk
    have hwk' : s.worker? q w = some wk := hwk
    obtain ⟨hm, hq, hw⟩ := worker?_mem hwk'
    cases hin : wk.inSync with
    | false => rfl
    | true => exact absurd (by rw [hq, hw, ← hk]; exact ⟨e, hmem, rfl⟩) (hi.2.wIn wk hm hin)
  | op o =>
    simp only [hk] at hh
    rw [hk] at hcP
    exact removeOp_kwc hh ⟨hkwP, hcP⟩ (fun hh' => ((hpop _).1 hh').1 hk.symm)
  | scq q =>
    simp only [hk] at hh
    rw [hk] at hcP
    exact removeScq_kwc hh ⟨hkwP, hcP⟩

theorem runCleanup_kwc {h : Hints} {f : Nat} {s s' : State} (hi : KWC noEx s) (hh : runCleanup h f s = .ok s') :
    KWC noEx s' :=
  runCleanup_inv (KWC noEx) (fun _ _ _ _ hi' hp hcb => callback_kwc hi' hp hcb) f s s' hi hh

theorem enter_kwc {h : Hints} {s s' : State} {t : Nat} (hi : KWC noEx s) (hh : enter h s t = .ok s') : KWC noEx s' := by
  rcases enter_ok hh with ⟨_, rfl⟩ | ⟨_, h1⟩
  · exact hi
  · exact runCleanup_kwc (s := setNow s t) ⟨KWStep.of_same (s := s) rfl rfl rfl rfl rfl rfl hi.1,
      hi.2.frame (CFrame.of_same rfl rfl rfl rfl rfl)⟩ h1

end BbRe.Lemmas.SchedLive
