import BbRe.Lemmas.BuildClientSteps
/-!
`Inv` is preserved by every event of `Model/BuildClient.lean`, hence holds in
every reachable state (`inv_run`).
-/
namespace BbRe.Lemmas.BuildClient
open BbRe.BuildClient

theorem inv_emit {s s' : State} (h : Inv s) (u : Upd) (hs : emit s u = some s') : Inv s' := by
  unfold emit at hs
  split at hs
  · rename_i e hc
    split at hs
    · rename_i hg
      simp at hg hs
      subst hs
      have wf := h.curWF e hc
      exact inv_setCur h hc (wf_emit wf u hg.1.1 hg.1.2 hg.2) (by unfold push; split <;> rfl)
        (by intro r hr; simp [hg.1.1] at hr) (by intro _; unfold push; split <;> rfl)
    · simp at hs
  · simp at hs

theorem inv_finish {s s' : State} (h : Inv s) (r : Resp) (hs : finish s r = some s') : Inv s' := by
  unfold finish at hs
  split at hs
  · rename_i e hc
    split at hs
    · rename_i hg
      simp at hg hs
      subst hs
      have wf := h.curWF e hc
      exact inv_setCur h hc (wf_finish wf r hg.1.1 hg.1.2 hg.2) (by unfold push; split <;> rfl)
        (by intro r hr; simp [hg.1.1] at hr) (by intro _; unfold push; split <;> rfl)
    · simp at hs
  · simp at hs

theorem inv_close {s s' : State} (h : Inv s) (hs : close s = some s') : Inv s' := by
  unfold close at hs
  split at hs
  · rename_i e hc
    split at hs
    · rename_i hg
      simp at hg hs
      subst hs
      have wf := h.curWF e hc
      exact inv_setCur h hc (wf_close wf (by simp [hg.1.1]) hg.1.2) rfl
        (by intro r hr; exact hr) (by intro _; rfl)
    · simp at hs
  · simp at hs

theorem inv_drainRecv {s s' : State} (h : Inv s) (hs : drainRecv s = some s') : Inv s' := by
  unfold drainRecv at hs
  split at hs
  · rename_i k e hpc hc
    split at hs
    · simp at hs
    · rename_i m rest hb
      simp at hs
      subst hs
      have wf := h.curWF e hc
      exact inv_setCur h hc (wf_drainRecv wf m rest hb) rfl
        (by intro r hr; exact hr) (by intro hk; exact absurd hpc (hk k))
  · simp at hs

theorem inv_drainDone {s s' : State} (h : Inv s) (hs : drainDone s = some s') : Inv s' := by
  unfold drainDone at hs
  split at hs
  · rename_i k e hpc hc
    split at hs
    · rename_i hg
      simp at hg hs
      subst hs
      have wf := h.curWF e hc
      apply inv_finishStop
      · intro x hx
        simp at hx
        rcases hx with hx | hx
        · subst hx; exact ⟨hg.2, ⟨_, wf.fifo⟩⟩
        · exact h.retired x hx
      · rfl
      · exact h.logOK
      · cases k with
        | idle => exact h.drainIdle hpc
        | start d => exact h.drainStart d hpc
    · simp at hs
  · simp at hs


theorem inv_afterReady {s : State} (h : Inv s) (hnd : ∀ k, s.pc ≠ .drain k) (rc : Bool)
    (hrc : rc = true ∨ s.mayThink.isSome = true) : Inv (afterReady s rc) := by
  unfold afterReady
  split
  · have h1 := inv_pc h hnd (.select rc) (by simp) (by simp) (by intro rc' h'; simp at h'; subst h'; exact hrc)
    exact inv_log h1 _ trivial
  · exact inv_sendReq h hnd rc hrc

theorem inv_runBegin {s s' : State} (h : Inv s) (hs : runBegin s = some s') : Inv s' := by
  unfold runBegin at hs
  split at hs
  · rename_i hpc
    have hnd : ∀ k, s.pc ≠ .drain k := by intro k; simp [hpc]
    cases hm : s.mayThink with
    | none =>
      simp [hm] at hs
      split at hs
      · simp at hs; subst hs
        apply inv_retRun h hnd
        intro _; left; simp [snap, hm]
      · simp at hs; subst hs
        have h1 := inv_pc h hnd .ready (by simp) (by intro _; exact hm) (by simp)
        simp only [hm] at h1; exact h1
    | some t =>
      simp [hm] at hs
      split at hs
      · rename_i hg
        simp at hs; subst hs
        apply inv_retRun h hnd
        intro _; right; exact ⟨t, by simp [snap, hm], by simpa [snap] using hg.2⟩
      · simp at hs; subst hs
        exact inv_afterReady h hnd false (Or.inr (by simp [hm]))
  · simp at hs

theorem inv_readyResult {s s' : State} (h : Inv s) (ok : Bool) (hs : readyResult s ok = some s') :
    Inv s' := by
  unfold readyResult at hs
  split at hs
  · rename_i hpc
    have hnd : ∀ k, s.pc ≠ .drain k := by intro k; simp [hpc]
    split at hs
    · simp at hs; subst hs
      exact inv_afterReady h hnd true (Or.inl rfl)
    · simp at hs; subst hs
      apply inv_retRun h hnd
      intro _; left; simp [snap]; exact h.readyNone hpc
  · simp at hs

theorem inv_wakeTimer {s s' : State} (h : Inv s) (hs : wakeTimer s = some s') : Inv s' := by
  unfold wakeTimer at hs
  split at hs
  · rename_i rc hpc
    simp at hs; subst hs
    exact inv_sendReq h (by intro k; simp [hpc]) rc (h.selectRc rc hpc)
  · simp at hs

/-- `Run` returns after a reply that was not a (valid) idle instruction. -/
theorem inv_reply_ret {s : State} (h : Inv s) (ce : Bool) (hpc : s.pc = .sync ce) (r : Reply)
    (mth : Option Nat) (ns ms : Nat) (mt err : Bool)
    (hni : ∀ ts, r ≠ .reply (some ts) .idle) (hok : mt = true → mth = none) :
    Inv (retRun { s with lastReply := some r, mayThink := mth, nextSync := ns, maxSync := ms }
      mt err) := by
  obtain ⟨h1, h2, h3, h4, h5, h6, h7, h8, h9⟩ := h
  simp only [retRun]
  refine ⟨h1, h2, ?_, ?_, ?_, ?_, ?_, ?_, ?_⟩
  · unfold ReqHonest at h3 ⊢
    simp only
    split
    · rename_i hq; rw [hq] at h3; exact h3
    · rename_i d p hq
      rw [hq] at h3
      obtain ⟨x, hx, hxd, hxr, hxu⟩ := h3
      exact ⟨x, hx, hxd, hxr, fun u hp _ => hxu u hp (by intro k; simp [hpc])⟩
  · pcsimp
  · intro rc; pcsimp
  · intro d; pcsimp
  · pcsimp
  · intro ht
    obtain ⟨ts, hts⟩ := ht
    simp at hts
    exact absurd hts (hni ts)
  · exact logOK_append h9 _ (by intro hm; left; simp [snap]; exact hok hm)

theorem inv_stopThen {s : State} (h : Inv s) (ce : Bool) (_hpc : s.pc = .sync ce) (r : Reply)
    (mth : Option Nat) (ns ms : Nat) (k : DrainFor) (hk : toldFor k (some r)) :
    Inv (stopThen { s with lastReply := some r, mayThink := mth, nextSync := ns, maxSync := ms }
      k) := by
  unfold stopThen
  split
  · rename_i e hc
    simp at hc
    obtain ⟨h1, h2, h3, h4, h5, h6, h7, h8, h9⟩ := h
    refine ⟨h1, ?_, ?_, ?_, ?_, ?_, ?_, ?_, ?_⟩
    · intro x hx; simp at hx; subst hx
      obtain ⟨w1, w2, w3, w4, w5⟩ := h2 e hc
      exact ⟨w1, w2, w3, w4, w5⟩
    · unfold ReqHonest at h3 ⊢
      simp only
      split
      · rename_i hq; rw [hq] at h3; rw [hc] at h3; cases h3
      · rename_i d p hq
        rw [hq] at h3
        simp only [lastExec, hc] at h3
        obtain ⟨x, hx, hxd, hxr, hxu⟩ := h3
        simp at hx; subst hx
        exact ⟨{ e with cancelled := true }, by simp [lastExec], hxd, hxr, fun u _ hk' => absurd rfl (hk' k)⟩
    · simp
    · simp
    · intro d hd
      simp at hd; subst hd
      simpa [toldFor] using hk
    · intro hd
      simp at hd; subst hd
      simpa [toldFor] using hk
    · intro ht
      obtain ⟨ts, hts⟩ := ht
      simp at hts; subst hts
      cases k with
      | idle => left; rfl
      | start d => simp [toldFor] at hk
    · exact logOK_append h9 _ trivial
  · rename_i hc
    simp at hc
    exact inv_finishStop
      (s := { s with lastReply := some r, mayThink := mth, nextSync := ns, maxSync := ms })
      h.retired hc h.logOK k hk

theorem inv_reply {s s' : State} (h : Inv s) (r : Reply) (hs : reply s r = some s') : Inv s' := by
  unfold reply at hs
  split at hs
  · rename_i ce hpc
    cases r with
    | rpcError =>
      simp at hs; subst hs
      split
      · exact inv_reply_ret h ce hpc _ _ _ _ _ _ (by simp) (by simp)
      · exact inv_reply_ret h ce hpc _ _ _ _ _ _ (by simp) (by simp)
    | reply ts d =>
      cases ts with
      | none =>
        simp at hs; subst hs
        split
        · exact inv_reply_ret h ce hpc _ _ _ _ _ _ (by simp) (by simp)
        · exact inv_reply_ret h ce hpc _ _ _ _ _ _ (by simp) (by simp)
      | some ts =>
        cases d with
        | none =>
          simp at hs
          split at hs
          · simp at hs; subst hs
            split
            · exact inv_reply_ret h ce hpc _ _ _ _ _ _ (by simp) (by simp)
            · exact inv_reply_ret h ce hpc _ _ _ _ _ _ (by simp) (by simp)
          · simp at hs; subst hs
            split
            · exact inv_reply_ret h ce hpc _ _ _ _ _ _ (by simp) (by simp)
            · exact inv_reply_ret h ce hpc _ _ _ _ _ _ (by simp) (by simp)
        | idle =>
          simp at hs; subst hs
          split
          · exact inv_stopThen h ce hpc _ _ _ _ .idle ⟨ts, rfl⟩
          · exact inv_stopThen h ce hpc _ _ _ _ .idle ⟨ts, rfl⟩
        | unknown =>
          simp at hs; subst hs
          split
          · exact inv_reply_ret h ce hpc _ _ _ _ _ _ (by simp) (by simp)
          · exact inv_reply_ret h ce hpc _ _ _ _ _ _ (by simp) (by simp)
        | execute e =>
          cases e with
          | ok dg =>
            simp at hs; subst hs
            split
            · exact inv_stopThen h ce hpc _ _ _ _ (.start dg) ⟨ts, rfl⟩
            · exact inv_stopThen h ce hpc _ _ _ _ (.start dg) ⟨ts, rfl⟩
          | badSuffix dg =>
            simp at hs; subst hs
            split
            · exact inv_reply_ret h ce hpc _ _ _ _ _ _ (by simp) (by simp)
            · exact inv_reply_ret h ce hpc _ _ _ _ _ _ (by simp) (by simp)
          | badDigestFunction dg =>
            simp at hs; subst hs
            split
            · exact inv_reply_ret h ce hpc _ _ _ _ _ _ (by simp) (by simp)
            · exact inv_reply_ret h ce hpc _ _ _ _ _ _ (by simp) (by simp)
  · simp at hs


/-- State after the consume loop of the `select` update branch (before the
clamp of `nextSynchronizationAt` and the send). -/
def consumed (s : State) (e : Exec) (seeClose : Bool) : State :=
  let ms := e.buf ++ e.blocked.toList
  let e1 := { e with buf := [], blocked := none, received := e.received ++ updsOf ms }
  let req := applyMsgs s.req ms
  if e.closed || (seeClose && e.returned.isSome) then
    { s with req := req, cur := none,
             retired := { e1 with closed := true, cancelled := true } :: s.retired,
             log := s.log ++ [.cancelExec e.id] }
  else { s with req := req, cur := some e1 }

/-- The request state after applying all pending messages is honest w.r.t. the
consumed executor. -/
theorem honest_applied {s : State} (h : Inv s) {e : Exec} (hc : s.cur = some e)
    (hnd : ∀ k, s.pc ≠ .drain k) :
    ∃ d p, applyMsgs s.req (pending e) = .executing d p ∧ e.digest = d ∧
      (∀ r, p = .completed r → e.returned = some r) ∧
      (∀ u, p = .upd u → (e.received ++ updsOf (pending e)).getLast? = some u) := by
  have wf := h.curWF e hc
  rcases List.eq_nil_or_concat (pending e) with hp | ⟨init, m, hp⟩
  · rw [hp]
    have hh := h.honest
    unfold ReqHonest at hh
    split at hh
    · rw [hc] at hh; cases hh
    · rename_i d p hq
      simp only [lastExec, hc] at hh
      obtain ⟨x, hx, hxd, hxr, hxu⟩ := hh
      simp at hx; subst hx
      refine ⟨d, p, by simp [applyMsgs, hq], hxd, hxr, ?_⟩
      intro u hu
      simp [updsOf]
      exact hxu u hu hnd
  · have hm : m ∈ pending e := by rw [hp]; simp
    rw [hp]
    simp only [List.concat_eq_append]
    refine ⟨m.d, m.p, applyMsgs_append _ _ _, (wf.dig m hm).symm, wf.comp m hm, ?_⟩
    intro u hu
    rw [updsOf_append, ← List.append_assoc]
    simp [updsOf, updOf, hu]

theorem inv_consumed {s : State} (h : Inv s) {e : Exec} {rc : Bool} (hpc : s.pc = .select rc)
    (hc : s.cur = some e) (seeClose : Bool) : Inv (consumed s e seeClose) := by
  have hnd : ∀ k, s.pc ≠ .drain k := by intro k; simp [hpc]
  obtain ⟨d, p, hreq, hd, hr, hu⟩ := honest_applied h hc hnd
  have wf := h.curWF e hc
  unfold pending at hreq hu
  have h8 : ¬ ∃ ts, s.lastReply = some (.reply (some ts) .idle) := by
    intro ht
    rcases h.toldIdle ht with h' | ⟨_, _, h'⟩
    · exact absurd h' (hnd _)
    · rw [hc] at h'; cases h'
  unfold consumed
  simp only
  split
  · refine ⟨?_, ?_, ?_, ?_, ?_, ?_, ?_, ?_, ?_⟩
    · intro x hx
      simp at hx
      rcases hx with hx | hx
      · subst hx
        refine ⟨rfl, ?_⟩
        simp only
        have := wf.fifo; unfold pending at this
        rw [this]; exact List.prefix_refl _
      · exact h.retired x hx
    · intro x hx; simp at hx
    · unfold ReqHonest
      simp only [hreq]
      refine ⟨{ e with buf := [], blocked := none, closed := true, cancelled := true,
                       received := e.received ++ updsOf (e.buf ++ e.blocked.toList) },
        by simp [lastExec], hd, hr, fun u hp _ => hu u hp⟩
    · intro hp; simp [hpc] at hp
    · exact h.selectRc
    · intro d' hp; simp [hpc] at hp
    · intro hp; simp [hpc] at hp
    · intro ht; exact absurd ht h8
    · exact logOK_append h.logOK _ trivial
  · rename_i hcl
    simp at hcl
    refine ⟨h.retired, ?_, ?_, ?_, ?_, ?_, ?_, ?_, h.logOK⟩
    · intro x hx; simp at hx; subst hx
      refine ⟨by simp, ?_, by simp [pending], ?_, by simp [pending]⟩
      · intro hcc; simp at hcc; simp [hcc] at hcl
      · simp [pending, updsOf_nil]
        have := wf.fifo; unfold pending at this; exact this
    · unfold ReqHonest
      simp only [hreq]
      refine ⟨{ e with buf := [], blocked := none,
                       received := e.received ++ updsOf (e.buf ++ e.blocked.toList) },
        by simp [lastExec], hd, hr, fun u hp _ => hu u hp⟩
    · intro hp; simp [hpc] at hp
    · exact h.selectRc
    · intro d' hp; simp [hpc] at hp
    · intro hp; simp [hpc] at hp
    · intro ht; exact absurd ht h8

theorem inv_nextSync {s : State} (h : Inv s) (n : Nat) : Inv { s with nextSync := n } := by
  obtain ⟨h1, h2, h3, h4, h5, h6, h7, h8, h9⟩ := h
  exact ⟨h1, h2, h3, h4, h5, h6, h7, h8, h9⟩

theorem consumed_pc (s : State) (e : Exec) (c : Bool) : (consumed s e c).pc = s.pc := by
  unfold consumed; simp only; split <;> rfl

theorem consumed_mayThink (s : State) (e : Exec) (c : Bool) :
    (consumed s e c).mayThink = s.mayThink := by
  unfold consumed; simp only; split <;> rfl

theorem wakeUpdate_eq {s s' : State} {c : Bool} (hs : wakeUpdate s c = some s') :
    ∃ rc e, s.pc = .select rc ∧ s.cur = some e ∧
      s' = sendReq (let s1 := consumed s e c
                    if s1.nextSync > s1.now then { s1 with nextSync := s1.now } else s1) rc := by
  unfold wakeUpdate at hs
  split at hs
  · rename_i rc e hpc hc
    split at hs
    · simp at hs
    · simp only [Option.some.injEq] at hs
      exact ⟨rc, e, hpc, hc, hs.symm⟩
  · simp at hs

theorem inv_wakeUpdate {s s' : State} (h : Inv s) (c : Bool) (hs : wakeUpdate s c = some s') :
    Inv s' := by
  obtain ⟨rc, e, hpc, hc, rfl⟩ := wakeUpdate_eq hs
  have h1 := inv_consumed h hpc hc c
  have hrc := h.selectRc rc hpc
  simp only
  split
  · apply inv_sendReq (inv_nextSync h1 _)
    · intro k; simp [consumed_pc, hpc]
    · simpa [consumed_mayThink] using hrc
  · apply inv_sendReq h1
    · intro k; simp [consumed_pc, hpc]
    · simpa [consumed_mayThink] using hrc


theorem inv_tick {s : State} (h : Inv s) (n : Nat) : Inv { s with now := s.now + n } := by
  obtain ⟨h1, h2, h3, h4, h5, h6, h7, h8, h9⟩ := h
  exact ⟨h1, h2, h3, h4, h5, h6, h7, h8, h9⟩

theorem inv_cancel {s : State} (h : Inv s) :
    Inv { s with cancelled := true, log := s.log ++ [.cancel] } := by
  obtain ⟨h1, h2, h3, h4, h5, h6, h7, h8, h9⟩ := h
  exact ⟨h1, h2, h3, h4, h5, h6, h7, h8, logOK_cancel h9⟩

theorem inv_step? {s s' : State} (h : Inv s) (ev : Ev) (hs : step? s ev = some s') : Inv s' := by
  cases ev with
  | runBegin => exact inv_runBegin h hs
  | readyResult ok => exact inv_readyResult h ok hs
  | wakeTimer => exact inv_wakeTimer h hs
  | wakeUpdate c => exact inv_wakeUpdate h c hs
  | reply r => exact inv_reply h r hs
  | drainRecv => exact inv_drainRecv h hs
  | drainDone => exact inv_drainDone h hs
  | cancel => simp [step?] at hs; subst hs; exact inv_cancel h
  | tick n => simp [step?] at hs; subst hs; exact inv_tick h n
  | emit u => exact inv_emit h u hs
  | finish r => exact inv_finish h r hs
  | close => exact inv_close h hs

theorem inv_step {s : State} (h : Inv s) (ev : Ev) : Inv (step s ev) := by
  unfold step
  cases hs : step? s ev with
  | none => simpa using h
  | some s' => simpa using inv_step? h ev hs

theorem inv_run {s : State} (h : Inv s) (evs : List Ev) : Inv (run s evs) := by
  induction evs generalizing s with
  | nil => exact h
  | cons ev t ih => exact ih (inv_step h ev)

theorem inv_reachable (t0 : Nat) (evs : List Ev) : Inv (run (init t0) evs) :=
  inv_run (inv_init t0) evs

end BbRe.Lemmas.BuildClient
