import BbRe.Lemmas.BuildClientBound
/-!
The may-think bound after an execute instruction is the deadline handed out
with that instruction plus one minute (`Handed`), in every reachable state.
-/
namespace BbRe.Lemmas.BuildClient
open BbRe.BuildClient

/-- After a valid execute instruction (until the next scheduler reply is
processed) the may-think bound is the deadline handed out with that
instruction plus one minute — as soon as the thread has left the drain loop. -/
def Handed (s : State) : Prop :=
  ∀ ts d, s.lastReply = some (.reply (some ts) (.execute (.ok d))) →
    ((∃ k, s.pc = .drain k) → s.nextSync = ts) ∧
    ((∀ k, s.pc ≠ .drain k) → s.mayThink = some (ts + 60))

/-- Steps that keep `lastReply`, `mayThink`, and (inside the drain loop)
`nextSync`, and neither enter nor leave the drain loop. -/
theorem handed_frame {s s' : State} (h : Handed s) (h1 : s'.lastReply = s.lastReply)
    (h2 : s'.mayThink = s.mayThink) (h3 : (∃ k, s'.pc = .drain k) → s'.pc = s.pc ∧ s'.nextSync = s.nextSync)
    (h4 : (∃ k, s.pc = .drain k) → ∃ k, s'.pc = .drain k) : Handed s' := by
  intro ts d hl
  rw [h1] at hl
  obtain ⟨a, b⟩ := h ts d hl
  refine ⟨?_, ?_⟩
  · intro hk
    obtain ⟨hp, hn⟩ := h3 hk
    rw [hn]; apply a; rw [← hp]; exact hk
  · intro hk
    rw [h2]; apply b
    intro k hp
    obtain ⟨k', hk'⟩ := h4 ⟨k, hp⟩
    exact hk k' hk'

@[simp] theorem sendReq_lr (s : State) (rc : Bool) : (sendReq s rc).lastReply = s.lastReply := rfl
@[simp] theorem sendReq_mt (s : State) (rc : Bool) : (sendReq s rc).mayThink = s.mayThink := rfl
@[simp] theorem sendReq_ns (s : State) (rc : Bool) : (sendReq s rc).nextSync = s.nextSync := rfl
@[simp] theorem sendReq_pc (s : State) (rc : Bool) :
    (sendReq s rc).pc = .sync (preferOf s.req s.mayThink).2 := rfl
@[simp] theorem retRun_lr (s : State) (a b : Bool) : (retRun s a b).lastReply = s.lastReply := rfl
@[simp] theorem retRun_mt (s : State) (a b : Bool) : (retRun s a b).mayThink = s.mayThink := rfl
@[simp] theorem retRun_ns (s : State) (a b : Bool) : (retRun s a b).nextSync = s.nextSync := rfl
theorem retRun_nd (s : State) (a b : Bool) (k : DrainFor) : (retRun s a b).pc ≠ .drain k := by
  simp [retRun]; split <;> simp
@[simp] theorem afterReady_lr (s : State) (rc : Bool) : (afterReady s rc).lastReply = s.lastReply := by
  unfold afterReady; split <;> rfl
@[simp] theorem afterReady_mt (s : State) (rc : Bool) : (afterReady s rc).mayThink = s.mayThink := by
  unfold afterReady; split <;> rfl
theorem afterReady_nd (s : State) (rc : Bool) (k : DrainFor) : (afterReady s rc).pc ≠ .drain k := by
  unfold afterReady; split <;> simp

/-- A state whose thread is outside the drain loop, reached from one outside the
drain loop without touching `lastReply`/`mayThink`. -/
theorem handed_nd {s s' : State} (h : Handed s) (hs : ∀ k, s.pc ≠ .drain k)
    (h1 : s'.lastReply = s.lastReply) (h2 : s'.mayThink = s.mayThink) (h3 : ∀ k, s'.pc ≠ .drain k) :
    Handed s' :=
  handed_frame h h1 h2 (fun ⟨k, hk⟩ => absurd hk (h3 k)) (fun ⟨k, hk⟩ => absurd hk (hs k))

theorem handed_finishStop {s : State} (k : DrainFor)
    (hk : ∀ ts d, s.lastReply = some (.reply (some ts) (.execute (.ok d))) →
      k = .start d ∧ s.nextSync = ts) : Handed (finishStop s k) := by
  intro ts d hl
  cases k with
  | idle =>
    simp only [finishStop, retRun_lr] at hl
    have := (hk ts d hl).1; cases this
  | start d' =>
    simp only [finishStop, retRun_lr, touch] at hl
    have hn := (hk ts d hl).2
    refine ⟨fun ⟨k, hp⟩ => absurd hp (retRun_nd _ _ _ k), fun _ => ?_⟩
    simp [finishStop, touch, hn]

theorem handed_stopThen {s : State} (k : DrainFor)
    (hk : ∀ ts d, s.lastReply = some (.reply (some ts) (.execute (.ok d))) →
      k = .start d ∧ s.nextSync = ts) : Handed (stopThen s k) := by
  unfold stopThen
  split
  · intro ts d hl
    simp only at hl
    exact ⟨fun _ => (hk ts d hl).2, fun hnd => absurd rfl (hnd k)⟩
  · exact handed_finishStop k hk

theorem handed_replyBody {s1 s' : State} (ce : Bool) (r : Reply) (hl : s1.lastReply = some r)
    (_hpc : ∀ k, s1.pc ≠ .drain k) (hs : replyBody s1 ce r = some s') : Handed s' := by
  unfold replyBody at hs
  have none_ : ∀ (s2 : State) (a b : Bool), s2.lastReply = some r →
      (∀ ts d, r ≠ .reply (some ts) (.execute (.ok d))) → Handed (retRun s2 a b) := by
    intro s2 a b h2 hne ts d hl'
    simp only [retRun_lr] at hl'
    rw [h2] at hl'; simp at hl'
    exact absurd hl' (hne ts d)
  cases r with
  | rpcError => simp at hs; subst hs; exact none_ _ _ _ hl (by simp)
  | reply ts d =>
    cases ts with
    | none => simp at hs; subst hs; exact none_ _ _ _ hl (by simp)
    | some ts =>
      cases d with
      | none =>
        simp at hs
        split at hs <;> simp at hs <;> subst hs
        · exact none_ _ _ _ (by simpa [touch] using hl) (by simp)
        · exact none_ _ _ _ (by simpa using hl) (by simp)
      | idle =>
        simp at hs; subst hs
        apply handed_stopThen
        intro ts' d' h'; simp [hl] at h'
      | unknown => simp at hs; subst hs; exact none_ _ _ _ (by simpa using hl) (by simp)
      | execute e =>
        cases e with
        | ok dg =>
          simp at hs; subst hs
          apply handed_stopThen
          intro ts' d' h'
          simp [hl] at h'
          simp [h'.1, h'.2]
        | badSuffix dg => simp at hs; subst hs; exact none_ _ _ _ (by simpa using hl) (by simp)
        | badDigestFunction dg => simp at hs; subst hs; exact none_ _ _ _ (by simpa using hl) (by simp)

theorem runBegin_cases {s s' : State} (hs : runBegin s = some s') :
    s.pc = .top ∧ (s' = retRun s true false ∨ s' = { s with pc := .ready } ∨
      s' = afterReady s false) := by
  unfold runBegin at hs
  split at hs
  · rename_i hpc
    refine ⟨hpc, ?_⟩
    cases hm : s.mayThink with
    | none =>
      simp [hm] at hs
      split at hs <;> simp at hs <;> subst hs
      · exact Or.inl rfl
      · right; left; cases s; simp_all
    | some t =>
      simp [hm] at hs
      split at hs <;> simp at hs <;> subst hs
      · exact Or.inl rfl
      · exact Or.inr (Or.inr rfl)
  · simp at hs

theorem handed_step? {s s' : State} (hi : Inv s) (h : Handed s) (ev : Ev)
    (hs : step? s ev = some s') : Handed s' := by
  cases ev with
  | runBegin =>
    obtain ⟨hpc, hc⟩ := runBegin_cases (by simpa [step?] using hs)
    have hnd : ∀ k, s.pc ≠ .drain k := by simp [hpc]
    rcases hc with rfl | rfl | rfl
    · exact handed_nd h hnd rfl rfl (retRun_nd _ _ _)
    · exact handed_nd h hnd rfl rfl (by simp)
    · exact handed_nd h hnd (by simp) (by simp) (afterReady_nd _ _)
  | readyResult ok =>
    simp only [step?, readyResult] at hs
    split at hs
    · rename_i hpc
      have hnd : ∀ k, s.pc ≠ .drain k := by simp [hpc]
      split at hs
      · simp at hs; subst hs; exact handed_nd h hnd (by simp) (by simp) (afterReady_nd _ _)
      · simp at hs; subst hs; exact handed_nd h hnd rfl rfl (retRun_nd _ _ _)
    · simp at hs
  | wakeTimer =>
    simp only [step?, wakeTimer] at hs
    split at hs
    · rename_i hpc
      simp at hs; subst hs
      exact handed_nd h (by simp [hpc]) rfl rfl (by simp)
    · simp at hs
  | wakeUpdate c =>
    obtain ⟨rc, e, hpc, hc, rfl⟩ := wakeUpdate_eq (by simpa [step?] using hs)
    refine handed_nd h (by simp [hpc]) ?_ ?_ (by simp)
    · simp only [sendReq_lr]; unfold consumed; simp only; split <;> split <;> rfl
    · simp only [sendReq_mt]; unfold consumed; simp only; split <;> split <;> rfl
  | reply r =>
    simp only [step?] at hs
    rw [reply_eq] at hs
    split at hs
    · rename_i ce hpc
      refine handed_replyBody ce r ?_ ?_ hs
      · split <;> simp [touch]
      · intro k; split <;> simp [touch, hpc]
    · simp at hs
  | drainRecv =>
    simp only [step?, drainRecv] at hs
    split at hs
    · split at hs
      · simp at hs
      · simp at hs; subst hs
        exact handed_frame h rfl rfl (fun _ => ⟨rfl, rfl⟩) id
    · simp at hs
  | drainDone =>
    simp only [step?, drainDone] at hs
    split at hs
    · rename_i k e hpc hc
      split at hs
      · simp at hs; subst hs
        apply handed_finishStop
        intro ts d hl
        simp only at hl
        have hn := (h ts d hl).1 ⟨k, hpc⟩
        refine ⟨?_, hn⟩
        cases k with
        | idle =>
          obtain ⟨ts', h'⟩ := hi.drainIdle hpc
          rw [hl] at h'; simp at h'
        | start d' =>
          obtain ⟨ts', h'⟩ := hi.drainStart d' hpc
          rw [hl] at h'; simp at h'; rw [h'.2]
      · simp at hs
    · simp at hs
  | cancel => simp [step?] at hs; subst hs; exact handed_frame h rfl rfl (fun _ => ⟨rfl, rfl⟩) id
  | tick n => simp [step?] at hs; subst hs; exact handed_frame h rfl rfl (fun _ => ⟨rfl, rfl⟩) id
  | emit u =>
    simp only [step?, emit] at hs
    split at hs
    · split at hs
      · simp at hs; subst hs; exact handed_frame h rfl rfl (fun _ => ⟨rfl, rfl⟩) id
      · simp at hs
    · simp at hs
  | finish r =>
    simp only [step?, finish] at hs
    split at hs
    · split at hs
      · simp at hs; subst hs; exact handed_frame h rfl rfl (fun _ => ⟨rfl, rfl⟩) id
      · simp at hs
    · simp at hs
  | close =>
    simp only [step?, close] at hs
    split at hs
    · split at hs
      · simp at hs; subst hs; exact handed_frame h rfl rfl (fun _ => ⟨rfl, rfl⟩) id
      · simp at hs
    · simp at hs

theorem handed_reachable (t0 : Nat) (evs : List Ev) : Handed (run (init t0) evs) := by
  suffices ∀ s, Inv s → Handed s → Handed (run s evs) from
    this _ (inv_init t0) (by intro ts d hl; simp [init] at hl)
  induction evs with
  | nil => intro s _ h; exact h
  | cons ev t ih =>
    intro s hi h
    apply ih _ (inv_step hi ev)
    unfold step
    cases hs : step? s ev with
    | none => simpa using h
    | some s' => simpa using handed_step? hi h ev hs

end BbRe.Lemmas.BuildClient
