import BbRe.Lemmas.SchedLiveWorker2
/-!
Worker invariant through the cleanup callbacks, `enter`, client streams,
`Execute` / `WaitExecution`.
-/
namespace BbRe.Lemmas.SchedLive
open BbRe.Sched

/-- key discipline together with the worker invariant -/
def KW (s : State) : Prop := KeysOK s ∧ WInv s

/-- the relation "preserves `KW`" (reflexive, transitive) -/
def KWStep (s s' : State) : Prop := KW s → KW s'

theorem KWStep.refl (s : State) : KWStep s s := id
theorem KWStep.trans {a b c : State} (h1 : KWStep a b) (h2 : KWStep b c) : KWStep a c := fun h => h2 (h1 h)

/-- combine the already proved key-discipline step with a worker-invariant argument -/
theorem KWStep.of {allow : Prop} {s s' : State} (ht : TStep allow s s') (hw : KeysOK s → WInv s → WInv s') :
    KWStep s s' := fun ⟨hk, hwi⟩ => ⟨(ht hk).1, hw hk hwi⟩

theorem KWStep.of_same {s s' : State} (h0 : s'.workers = s.workers) (h1 : s'.nextTask = s.nextTask)
    (h2 : s'.scqs = s.scqs) (h3 : s'.tasks = s.tasks) (h4 : s'.ops = s.ops) (h5 : s'.nextOp = s.nextOp) :
    KWStep s s' :=
  KWStep.of (TStep.of_same (allow := True) h3 h4 h1 h5) (fun _ hw => winv_same hw h0 h1 h2 h3)

theorem complete_kw {h : Hints} {s s' : State} {tid : Nat} {r : Resp} {bw : Bool}
    (hh : complete h s tid r bw = .ok s') : KWStep s s' :=
  KWStep.of (complete_tstep hh) (fun hk hw => complete_winv hh hk hw)

theorem dropOpT_winv {s : State} {t : Task} {k0 : Nat} (o : Nat) (hk : KeysOK s) (hw : WInv s)
    (h0 : s.task? k0 = some t) : WInv (dropOpT s t o) := by
  have hid := (hk.tid k0 t h0).1
  unfold dropOpT
  split
  · refine hw.of_frame (X := noX) rfl ⟨Nat.le_refl _, fun _ sq' h p hp => ⟨sq', h, hp⟩, ?_⟩ (NoPtr.noX s)
    intro tid t' _ _ ht'
    simp only [State.task?, alookup_aerase _ _ _ hk.tnodup] at ht'
    split at ht'
    · cases ht'
    · exact ⟨t', ht', rfl, rfl⟩
  · exact hw.of_frame rfl (WFrame.of_aset_same (t0 := t) (t2 := { t with ops := t.ops.filter (· ≠ o) }) (k0 := t.id)
      (by rw [hid]; exact h0) rfl rfl rfl rfl rfl) (NoPtr.noX s)

theorem removeOp_kw {h : Hints} {s s' : State} {o : Nat} (hh : removeOp h s o = .ok s') : KWStep s s' := by
  rcases removeOp_ok hh with ⟨_, rfl⟩ | ⟨op, t, s1, t1, _, _, h1, h2, rfl⟩
  · exact KWStep.refl _
  · have : KWStep s s1 := by
      rcases h1 with ⟨_, h1⟩ | ⟨_, rfl⟩
      · exact (KWStep.of (eraseOp_tstep True s o) (fun _ hw => winv_same hw rfl rfl rfl rfl)).trans (complete_kw h1)
      · exact KWStep.of (eraseOp_tstep True s o) (fun _ hw => winv_same hw rfl rfl rfl rfl)
    exact this.trans (KWStep.of (dropOpT_tstep True o h2) (fun hk hw => dropOpT_winv o hk hw h2))

theorem cancelAllQueued_kw {h : Hints} {s s' : State} {q : ScqId} {r : Resp}
    (hh : cancelAllQueued h s q r = .ok s') : KWStep s s' :=
  cancelAllQueued_rel KWStep KWStep.refl (fun _ _ _ => KWStep.trans) (fun _ _ _ => complete_kw) hh

theorem find?_filter_id {l : List Scq} {q q' : ScqId} {x : Scq}
    (h : (l.filter (fun y => y.id ≠ q)).find? (fun y => y.id = q') = some x) : l.find? (fun y => y.id = q') = some x := by
  induction l with
  | nil => simp at h
  | cons a r ih =>
    simp only [List.filter_cons] at h
    by_cases ha : a.id = q
    · simp only [ha, ne_eq, not_true_eq_false, decide_false, Bool.false_eq_true, if_false] at h
      have hx := List.mem_of_find?_eq_some h
      have hxq : x.id ≠ q := by simpa using (List.mem_filter.1 hx).2
      have hxq' : x.id = q' := by simpa using List.find?_some h
      have : ¬ a.id = q' := by rw [ha, ← hxq']; exact fun e => hxq e.symm
      simp only [List.find?_cons, this, decide_false]
      exact ih h
    · simp only [ha, ne_eq, not_false_eq_true, decide_true, if_true, List.find?_cons] at h ⊢
      split
      · rename_i e; rw [e] at h; exact h
      · rename_i e; rw [e] at h; exact ih h

theorem dropScq_winv {s : State} (q : ScqId) (hw : WInv s) : WInv (dropScq s q) := by
  refine hw.of_frame (X := noX) (by simp) ⟨by simp, ?_, ?_⟩ (NoPtr.noX s)
  · intro q' sq' h p hp
    have e : (dropScq s q).scqs = s.scqs.filter (fun x => x.id ≠ q) := by unfold dropScq; split <;> rfl
    simp only [State.scq?, e] at h
    exact ⟨sq', find?_filter_id h, hp⟩
  · intro tid t' _ _ h; simp only [State.task?, dropScq_tasks] at h; exact ⟨t', h, rfl, rfl⟩

theorem removeScq_kw {h : Hints} {s s' : State} {q : ScqId} (hh : removeScq h s q = .ok s') : KWStep s s' := by
  obtain ⟨s1, h1, rfl⟩ := removeScq_ok hh
  exact (cancelAllQueued_kw h1).trans
    (KWStep.of (TStep.of_same (allow := True) (by simp) (by simp) (by simp) (by simp)) (fun _ hw => dropScq_winv q hw))

theorem dropWorker_winv {s : State} (q : ScqId) (w : WId) (rt : Nat) (hw : WInv s) : WInv (dropWorker s q w rt) := by
  have h1 : WInv (filterWorkers s q w) :=
    hw.filter (X := noX) _ rfl (WFrame.of_eq rfl rfl rfl) (NoPtr.noX s)
  unfold dropWorker
  split
  · split
    · exact winv_same h1 rfl rfl rfl rfl
    · exact h1
  · exact h1

theorem removeStaleWorker_kw {h : Hints} {s s' : State} {q : ScqId} {w : WId} {rt : Nat}
    (hh : removeStaleWorker h s q w rt = .ok s') : KWStep s s' := by
  rcases removeStaleWorker_ok hh with ⟨_, rfl⟩ | ⟨wk, s1, _, h1, rfl⟩
  · exact KWStep.refl _
  · have : KWStep s s1 := by
      rcases h1 with ⟨t, _, h1⟩ | ⟨_, rfl⟩
      · exact complete_kw h1
      · exact KWStep.refl _
    exact this.trans (KWStep.of (TStep.of_same (allow := True) (by simp) (by simp) (by simp) (by simp))
      (fun _ hw => dropWorker_winv q w rt hw))

theorem callback_kw {h : Hints} {s s' : State} {e : CleanupEntry} (hh : callback h s e = .ok s') : KWStep s s' := by
  unfold callback at hh
  split at hh
  · exact removeStaleWorker_kw hh
  · exact removeOp_kw hh
  · exact removeScq_kw hh

theorem runCleanup_kw {h : Hints} {f : Nat} {s s' : State} (hh : runCleanup h f s = .ok s') : KWStep s s' :=
  runCleanup_rel KWStep KWStep.refl (fun _ _ _ => KWStep.trans)
    (fun _ _ _ _ => KWStep.of_same rfl rfl rfl rfl rfl rfl) (fun _ _ _ => callback_kw) f s s' hh

theorem enter_kw {h : Hints} {s s' : State} {t : Nat} (hh : enter h s t = .ok s') : KWStep s s' := by
  rcases enter_ok hh with ⟨_, rfl⟩ | ⟨_, h1⟩
  · exact KWStep.refl _
  · exact (KWStep.of_same (s := s) (s' := setNow s t) rfl rfl rfl rfl rfl rfl).trans (runCleanup_kw h1)

/-! ### client-facing segments: workers, queues and task pointers are not touched -/

theorem streamSend_kw {s s' : State} {c o : Nat} (hh : streamSend s c o = .ok s') : KWStep s s' := by
  refine KWStep.of (streamSend_tstep (allow := True) hh) (fun _ hw => ?_)
  obtain ⟨op, t, _, _, ⟨r, _, _, rfl⟩ | ⟨_, rfl⟩⟩ := streamSend_ok hh
  · exact winv_same hw (by simp) (by simp) (by simp) (by simp)
  · exact winv_same hw rfl rfl rfl rfl

theorem streamAttach_kw {s s' : State} {c o : Nat} (hh : streamAttach s c o = .ok s') : KWStep s s' := by
  obtain ⟨op, h0, h1⟩ := streamAttach_ok hh
  refine KWStep.trans (b := attachS s o op) ?_ (streamSend_kw h1)
  refine KWStep.of (allow := True) ?_ (fun _ hw => winv_same hw rfl rfl rfl rfl)
  intro hk
  have hname := (hk.oname o op h0).1
  exact TStep.of_op (o2 := { op with waiters := op.waiters + 1 }) h0 rfl rfl id rfl (by simp [attachS, hname]) rfl rfl hk

theorem streamLeave_kw {s s' : State} {c code : Nat} (hh : streamLeave s c code = .ok s') : KWStep s s' := by
  refine KWStep.of (streamLeave_tstep (allow := True) hh) (fun _ hw => ?_)
  obtain ⟨st, op, _, _, _, rfl⟩ := streamLeave_ok hh
  exact winv_same hw (by simp) (by simp) (by simp) (by simp)

theorem streamWake_kw {h : Hints} {s s' : State} {now c reason : Nat}
    (hh : streamWake h s now c reason = .ok s') : KWStep s s' := by
  obtain ⟨s1, st, h1, _, ⟨_, h3⟩ | ⟨_, _, h3⟩⟩ := streamWake_ok hh
  · exact (enter_kw h1).trans (streamLeave_kw h3)
  · exact (enter_kw h1).trans (streamSend_kw h3)

theorem waitArrive_kw {h : Hints} {s s' : State} {now c name : Nat}
    (hh : waitArrive h s now c name = .ok s') : KWStep s s' := by
  obtain ⟨s1, h1, ⟨_, rfl⟩ | ⟨op, _, h2⟩⟩ := waitArrive_ok hh
  · exact (enter_kw h1).trans (KWStep.of_same rfl rfl rfl rfl rfl rfl)
  · exact (enter_kw h1).trans (streamAttach_kw h2)

theorem execArrive_kw {h : Hints} {s s' : State} {now c digest dkey : Nat} {dnc : Bool}
    {comps : List Nat} {platform : Nat} {inv : List Nat} {prio : Int}
    (hh : execArrive h s now c digest dkey dnc comps platform inv prio = .ok s') : KWStep s s' := by
  obtain ⟨s1, h1, h2 | h2 | h2⟩ := execArrive_ok hh
  · obtain ⟨tid, t, _, h0, ⟨o, _, h3⟩ | ⟨_, h3⟩⟩ := h2
    · exact ((enter_kw h1).trans (KWStep.of_same (s' := emit s1 .selAbandoned) rfl rfl rfl rfl rfl rfl)).trans (streamAttach_kw h3)
    · refine (((enter_kw h1).trans (KWStep.of_same (s' := emit s1 .selAbandoned) rfl rfl rfl rfl rfl rfl)).trans ?_).trans
        (streamAttach_kw h3)
      refine KWStep.of (addOpS_tstep True inv prio (s := emit s1 .selAbandoned) h0) (fun hk hw => ?_)
      have hid := (hk.tid tid t h0).1
      exact hw.of_frame rfl (WFrame.of_aset_same (t0 := t) (t2 := { t with ops := t.ops ++ [s1.nextOp] }) (k0 := t.id)
        (by rw [hid]; exact h0) rfl rfl rfl rfl rfl) (NoPtr.noX _)
  · obtain ⟨_, _, rfl⟩ := h2
    exact (enter_kw h1).trans (KWStep.of_same rfl rfl rfl rfl rfl rfl)
  · obtain ⟨_, pq, sc, s3, _, _, h3, h4⟩ := h2
    refine ((enter_kw h1).trans ?_).trans (streamAttach_kw h4)
    refine KWStep.of (tstep_new_then_schedule (allow := True) (s := s1) (tn := newTask s1 digest dkey dnc ⟨pq.id, sc⟩)
      (on := newOp s1 inv prio) rfl rfl rfl (by simp) (by simp) (by simp) (by simp) h3) (fun _ hw => ?_)
    have hb : WInv (newTaskS s1 digest dkey dnc ⟨pq.id, sc⟩ inv prio) := by
      refine hw.of_frame (X := noX) (by simp) ⟨by simp, ?_, ?_⟩ (NoPtr.noX _)
      · intro q sq' hq p hp; simp only [State.scq?, newTaskS_scqs] at hq; exact ⟨sq', hq, hp⟩
      · intro tid' t' hlt' _ ht'
        simp only [State.task?, newTaskS_tasks, alookup_aset] at ht'
        split at ht'
        · omega
        · exact ⟨t', ht', rfl, rfl⟩
    refine schedule_winv h3 hb ?_
    intro tb htb
    simp only [State.task?, newTaskS_tasks, alookup_aset, if_true, Option.some.injEq] at htb
    subst htb
    exact ⟨rfl, by simp, rfl⟩

end BbRe.Lemmas.SchedLive
