import BbRe.Lemmas.FilePoolWriteLoop
/-!
`WriteAt` on `content`, and the per-file invariant `FileOK` (hole source has no
data beyond the size; everything beyond the size reads as zero).
-/
namespace BbRe.Lemmas.FilePool
open BbRe.FilePool

/-- the hole source has no data at or beyond the file size, and the file's
contents beyond its size (padding inside the last sector) are zero. -/
def FileOK (ss : Nat) (dev : Array Byte) (f : File) : Prop :=
  f.hole.limit ≤ f.size ∧ ∀ i, f.size ≤ i → content ss dev f i = 0

theorem content_size_irrel (ss : Nat) (dev : Array Byte) (f : File) (sz : Nat) (i : Nat) :
    content ss dev { f with size := sz } i = content ss dev f i := rfl

theorem hole_read_beyond (h : Hole) (i : Nat) (hi : h.limit ≤ i) : h.read i = 0 := by
  unfold Hole.read Hole.isData
  rw [if_neg]
  simp; intro h1; omega

/-- **`WriteAt` on contents** (non-negative offset `o`): exactly the `n` bytes
reported written are laid over the old contents at `o`, on every path; the
size grows to `o+n` if needed; no error means everything was written; the loop
never hits one of the Go panics; sectors of other files are untouched. -/
theorem writeAt_content {O : Nat → Prop} {c : Cfg} {f : File} {e : Env} (p : List Byte) (o : Nat)
    (hss : 0 < c.ss) (hP : Part c.nsec O e.allocd (nz f.sectors)) (hd : e.dfree = false) :
    (∀ i, content c.ss (writeAt c f e p o).2.1.dev (writeAt c f e p o).1 i =
        overlay (content c.ss e.dev f) o (p.take (writeAt c f e p o).2.2.1) i) ∧
      (writeAt c f e p o).2.2.1 ≤ p.length ∧
      (writeAt c f e p o).1.size =
        (if 0 < (writeAt c f e p o).2.2.1 then max f.size (o + (writeAt c f e p o).2.2.1) else f.size) ∧
      ((writeAt c f e p o).2.2.2 = none → (writeAt c f e p o).2.2.1 = p.length) ∧
      (writeAt c f e p o).2.2.2 ≠ some .panic ∧
      (∀ t k, k < c.ss → O (t + 1) →
        rd (writeAt c f e p o).2.1.dev (t * c.ss + k) = rd e.dev (t * c.ss + k)) := by
  unfold writeAt
  rw [if_neg (by omega)]
  split
  · rename_i hp0
    refine ⟨fun i => ?_, Nat.zero_le _, by simp, fun _ => hp0.symm, by simp, fun _ _ _ _ => rfl⟩
    dsimp only; rw [List.take_zero, overlay_nil]
  · rename_i hp0
    dsimp only
    rw [Int.toNat_natCast]
    have hpos : 0 < p.length := Nat.pos_of_ne_zero hp0
    obtain ⟨lc, ll, ln, lp, lf⟩ := writeLoop_content (O := O) hss (p.length + 1) f e p (o / c.ss)
      (min ((o + p.length + c.ss - 1) / c.ss) f.sectors.length) (o % c.ss) (Nat.mod_lt _ hss) hpos
      (Nat.lt_succ_self _) hP hd
    have hsz := (writeLoop_part (O := O) (c := c) (p.length + 1) f e p (o / c.ss)
      (min ((o + p.length + c.ss - 1) / c.ss) f.sectors.length) (o % c.ss) (Nat.mod_lt _ hss) hP hd).2.2.1
    rw [div_mul_mod] at lc
    refine ⟨fun i => ?_, ll, ?_, ln, lp, lf⟩
    · split
      · exact lc i
      · exact lc i
    · split
      · rename_i hc
        rw [if_pos hc.1]
        dsimp only
        rw [Nat.max_eq_right (by rw [← hsz]; omega)]
      · rename_i hc
        split
        · rename_i hn
          rw [hsz, Nat.max_eq_left (by rw [← hsz]; omega)]
        · rw [hsz]

theorem writeAt_neg {c : Cfg} {f : File} {e : Env} (p : List Byte) (off : Int) (h : off < 0) :
    writeAt c f e p off = (f, e, 0, some .invalid) := by
  unfold writeAt; rw [if_pos h]

/-- `WriteAt` keeps the per-file invariant (on every path). -/
theorem writeAt_fileOK {O : Nat → Prop} {c : Cfg} {f : File} {e : Env} (p : List Byte) (off : Int)
    (hss : 0 < c.ss) (hP : Part c.nsec O e.allocd (nz f.sectors)) (hd : e.dfree = false)
    (hok : FileOK c.ss e.dev f) : FileOK c.ss (writeAt c f e p off).2.1.dev (writeAt c f e p off).1 := by
  by_cases hneg : off < 0
  · rw [writeAt_neg p off hneg]; exact hok
  · obtain ⟨o, rfl⟩ : ∃ o : Nat, off = (o : Int) := ⟨off.toNat, by omega⟩
    obtain ⟨hc, hl, hs, _, _, _⟩ := writeAt_content (O := O) (f := f) (e := e) p o hss hP hd
    have hhole := (writeAt_part (O := O) (c := c) (f := f) (e := e) p (o : Int) hss hP hd).2.2.2
    refine ⟨?_, fun i hi => ?_⟩
    · rw [hhole, hs]; split
      · have := hok.1; omega
      · exact hok.1
    · rw [hc i]
      unfold overlay
      have hlen : (p.take (writeAt c f e p (o : Int)).2.2.1).length = (writeAt c f e p (o : Int)).2.2.1 := by
        rw [List.length_take]; omega
      rw [hlen]
      rw [hs] at hi
      split at hi
      · rw [if_neg (by omega)]; exact hok.2 i (by omega)
      · rename_i hn
        rw [if_neg (by omega)]; exact hok.2 i hi

end BbRe.Lemmas.FilePool
