import BbRe.Lemmas.SusClock
/-!
Helper lemmas for C11, part 2: the re-arm loop of `NewContextWithTimeout` /
`NewTimer` (`loop`): termination (fuel elimination) and the loop invariant
`unsuspTo tl a + d = final`.
-/
namespace BbRe.Lemmas.SusClock
open BbRe.SusClock

/-- More fuel never changes an answer. -/
theorem loop_fuel_mono (P : Params) (tl : List Ev) (cn : Option Cancel) (initial final dl : Nat) :
    ∀ (fuel a d : Nat) (r : Result), loop P tl cn initial final dl fuel a d = some r →
      ∀ k, loop P tl cn initial final dl (fuel + k) a d = some r
  | 0, _, _, _, h, _ => by simp [loop] at h
  | fuel + 1, a, d, r, h, k => by
    have hk : fuel + 1 + k = (fuel + k) + 1 := by omega
    rw [hk]
    unfold loop at h ⊢
    simp only at h ⊢
    split
    · rename_i tc hc; simp only [hc] at h; exact h
    · rename_i hc
      simp only [hc] at h
      split
      · rename_i he
        simp only [he, if_true] at h
        split
        · rename_i hd; simp only [hd, if_true] at h; exact h
        · rename_i hd
          simp only [hd, if_false] at h
          exact loop_fuel_mono P tl cn initial final dl fuel _ _ r h k
      · rename_i he; simp only [he, if_false] at h; exact h

/-- Termination: when the threshold is positive every re-arm moves the next
expiry at least one tick (in fact `thr` ticks) towards the base deadline. -/
theorem loop_total (P : Params) (tl : List Ev) (cn : Option Cancel) (initial final dl : Nat)
    (hthr : 1 ≤ P.thr) :
    ∀ (fuel a d : Nat), 1 ≤ fuel → dl + 2 ≤ fuel + (a + d) →
      ∃ r, loop P tl cn initial final dl fuel a d = some r
  | 0, _, _, h, _ => by omega
  | fuel + 1, a, d, _, hf => by
    unfold loop
    simp only
    split
    · exact ⟨_, rfl⟩
    · split
      · rename_i he
        split
        · exact ⟨_, rfl⟩
        · rename_i hd
          exact loop_total P tl cn initial final dl hthr fuel _ _ (by omega) (by omega)
      · exact ⟨_, rfl⟩

/-- What every answer of the loop satisfies (`U = unsuspTo tl`). -/
structure LoopOk (P : Params) (tl : List Ev) (cn : Option Cancel) (t0 final dl a : Nat) (r : Result) : Prop where
  wall : r.instant ≤ dl
  start : t0 ≤ r.instant
  dur : r.dur = unsuspTo tl r.instant - unsuspTo tl t0
  budget : unsuspTo tl r.instant ≤ final
  timeout : r.reason = .timeout → final < unsuspTo tl r.instant + P.thr
  capped : r.reason = .capped → r.instant = dl
  cancelled : r.reason = .cancelled → ∃ c, cn = some c ∧ c.t = r.instant
  prompt : ∀ c, cn = some c → r.instant ≤ c.t
  armed : r.reason ≠ .cancelled → a ≤ r.instant

theorem cancelBefore_some {cn : Option Cancel} {w tc : Nat} (h : cancelBefore cn w = some tc) :
    ∃ c, cn = some c ∧ c.t = tc ∧ tc ≤ w := by
  unfold cancelBefore at h
  split at h
  · rename_i c
    split at h
    · rename_i hc
      simp only [Option.some.injEq] at h
      exact ⟨c, rfl, h, by omega⟩
    · simp at h
  · simp at h

theorem cancelBefore_none {cn : Option Cancel} {w : Nat} (h : cancelBefore cn w = none) :
    ∀ c, cn = some c → w ≤ c.t := by
  intro c hc
  subst hc
  simp only [cancelBefore] at h
  split at h
  · simp at h
  · rename_i hn; omega

theorem loop_spec (P : Params) (tl : List Ev) (cn : Option Cancel) (t0 final dl : Nat)
    (hs : Sorted tl) (hb : Balanced tl) (hcn : ∀ c, cn = some c → t0 ≤ c.t) :
    ∀ (fuel a d : Nat) (r : Result), t0 ≤ a → a ≤ dl → unsuspTo tl a + d = final →
      loop P tl cn (unsuspTo tl t0) final dl fuel a d = some r → LoopOk P tl cn t0 final dl a r
  | 0, _, _, _, _, _, _, h => by simp [loop] at h
  | fuel + 1, a, d, r, h0, hdl, hinv, h => by
    unfold loop at h
    simp only at h
    split at h
    · -- cancelled
      rename_i tc hc
      obtain ⟨c, hc1, hc2, hc3⟩ := cancelBefore_some hc
      simp only [Option.some.injEq] at h
      subst h
      have ht0 : t0 ≤ tc := hc2 ▸ hcn c hc1
      have hbud : unsuspTo tl tc ≤ final := by
        by_cases hle : a ≤ tc
        · have := unsuspTo_lipschitz tl hle
          have : tc ≤ a + d := Nat.le_trans hc3 (Nat.min_le_left _ _)
          omega
        · have := unsuspTo_mono tl (a := tc) (b := a) (by omega)
          omega
      exact {
        wall := Nat.le_trans hc3 (Nat.min_le_right _ _)
        start := ht0
        dur := by simp only [clockAt_total hs hb]
        budget := hbud
        timeout := by intro h; cases h
        capped := by intro h; cases h
        cancelled := fun _ => ⟨c, hc1, hc2⟩
        prompt := by
          intro c' hc'
          rw [hc1] at hc'
          cases hc'
          exact Nat.le_of_eq hc2.symm
        armed := by intro h; exact absurd rfl h }
    · rename_i hc
      have hnone := cancelBefore_none hc
      have hlip := unsuspTo_lipschitz tl (a := a) (b := a + d) (by omega)
      split at h
      · -- base timer expired at e = a + d ≤ dl
        rename_i he
        rw [clockAt_totalWithTime hs hb] at h
        have hmin : min (a + d) dl = a + d := Nat.min_eq_left he
        split at h
        · -- timeout
          rename_i hd
          simp only [Option.some.injEq] at h
          subst h
          exact {
            wall := he
            start := by simp only; omega
            dur := rfl
            budget := by simp only; omega
            timeout := by intro _; simp only; omega
            capped := by intro h; cases h
            cancelled := by intro h; cases h
            prompt := by
              intro c hc'
              have := hnone c hc'
              simp only; omega
            armed := by intro _; simp only; omega }
        · -- re-arm
          rename_i hd
          have ih := loop_spec P tl cn t0 final dl hs hb hcn fuel (a + d) (final - unsuspTo tl (a + d)) r
            (by omega) he (by omega) h
          exact { ih with armed := fun hr => by have := ih.armed hr; omega }
      · -- deadline of the base context
        rename_i he
        simp only [Option.some.injEq] at h
        subst h
        have hmin : min (a + d) dl = dl := Nat.min_eq_right (by omega)
        have hlip2 := unsuspTo_lipschitz tl hdl
        exact {
          wall := Nat.le_refl _
          start := by simp only; omega
          dur := by simp only [clockAt_total hs hb]
          budget := by simp only; omega
          timeout := by intro h; cases h
          capped := fun _ => rfl
          cancelled := by intro h; cases h
          prompt := by
            intro c hc'
            have := hnone c hc'
            simp only; omega
          armed := fun _ => hdl }

end BbRe.Lemmas.SusClock
