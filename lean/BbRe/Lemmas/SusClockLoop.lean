import BbRe.Lemmas.SusClockLate
/-!
Helper lemmas for C11, part 2: the re-arm loop of `NewContextWithTimeout` /
`NewTimer` (`loop`), with expiries that may be handled late: termination (fuel
elimination) and the loop invariant
`final ≤ unsuspTo a + d ≤ final + unsuspended pT a`.
-/
namespace BbRe.Lemmas.SusClock
open BbRe.SusClock

/-- The value computed when the next expiry (stamp `T`) is handled lies between the
unsuspended time at the stamp and at the handling instant. -/
theorem next_bracket {tl : List Ev} (hs : Sorted tl) (hb : Balanced tl) (T : Nat) (dv : List Delivery)
    (hok : nextOk tl (T + nextLate dv) dv = true) :
    unsuspTo tl T ≤ (nextClk tl T dv).totalWithTime T ∧
    (nextClk tl T dv).totalWithTime T ≤ unsuspTo tl (T + nextLate dv) := by
  cases dv with
  | nil =>
    simp only [nextClk, nextLate, Nat.add_zero, clockAt_totalWithTime hs hb]
    exact ⟨Nat.le_refl _, Nat.le_refl _⟩
  | cons x rest =>
    simp only [nextOk, nextLate] at hok
    have := charge_bracket hs hb (T := T) hok (Nat.le_add_right _ _)
    exact ⟨this.1, this.2.1⟩

/-- More fuel never changes an answer. -/
theorem loop_fuel_mono (P : Params) (g : Nat) (tl : List Ev) (cn : Option Cancel) (initial final dlAt : Nat)
    (dlPre : Bool) :
    ∀ (fuel a d pT : Nat) (dv : List Delivery) (o : Out),
      loop P g tl cn initial final dlAt dlPre fuel a d pT dv = o → o ≠ .outOfFuel →
      ∀ k, loop P g tl cn initial final dlAt dlPre (fuel + k) a d pT dv = o
  | 0, _, _, _, _, o, h, hne, _ => by simp [loop] at h; exact absurd h.symm hne
  | fuel + 1, a, d, pT, dv, o, h, hne, k => by
    have hk : fuel + 1 + k = (fuel + k) + 1 := by omega
    rw [hk]
    unfold loop at h ⊢
    simp only at h ⊢
    split
    · rename_i hg; simp only [hg, if_true] at h; exact h
    · rename_i hg
      simp only [hg, if_false] at h
      split
      · rename_i tc hc; simp only [hc] at h; exact h
      · rename_i hc
        simp only [hc] at h
        split
        · rename_i he
          simp only [he, if_true] at h
          split
          · rename_i hv; simp only [hv, if_true] at h; exact h
          · rename_i hv
            simp only [hv] at h
            split
            · rename_i hd; simp only [hd, if_true] at h; exact h
            · rename_i hd
              simp only [hd, if_false] at h
              exact loop_fuel_mono P g tl cn initial final dlAt dlPre fuel _ _ _ _ o h hne k
        · rename_i he; simp only [he, if_false] at h; exact h

/-- Termination: when the threshold is positive every re-arm moves the next stamp at
least one tick (in fact `thr` ticks) towards the delivery of the base deadline. -/
theorem loop_total (P : Params) (g : Nat) (tl : List Ev) (cn : Option Cancel) (initial final dlAt : Nat)
    (dlPre : Bool) (hthr : 1 ≤ P.thr) :
    ∀ (fuel a d pT : Nat) (dv : List Delivery), 1 ≤ fuel → dlAt + 2 ≤ fuel + (a + d) →
      loop P g tl cn initial final dlAt dlPre fuel a d pT dv ≠ .outOfFuel
  | 0, _, _, _, _, h, _ => by omega
  | fuel + 1, a, d, pT, dv, _, hf => by
    unfold loop
    simp only
    split
    · intro h; cases h
    · split
      · intro h; cases h
      · split
        · rename_i he
          split
          · intro h; cases h
          · split
            · intro h; cases h
            · rename_i hd
              exact loop_total P g tl cn initial final dlAt dlPre hthr fuel _ _ _ _ (by omega) (by omega)
        · intro h; cases h

/-- Without recorded late deliveries the oracle is never rejected. -/
theorem loop_nil_ok (P : Params) (g : Nat) (tl : List Ev) (cn : Option Cancel) (initial final dlAt : Nat)
    (dlPre : Bool) :
    ∀ (fuel a d pT : Nat), loop P g tl cn initial final dlAt dlPre fuel a d pT [] ≠ .badOracle
  | 0, _, _, _ => by simp [loop]
  | fuel + 1, a, d, pT => by
    unfold loop
    simp only [nextLate, nextOk, Nat.not_lt_zero, if_false, List.tail_nil, Bool.true_eq_false]
    intro h
    split at h
    · cases h
    · split at h
      · split at h
        · cases h
        · exact loop_nil_ok P g tl cn initial final dlAt dlPre fuel _ _ _ h
      · cases h

/-- What every answer of the loop satisfies (`U = unsuspTo tl`). -/
structure LoopOk (P : Params) (g : Nat) (tl : List Ev) (cn : Option Cancel) (t0 final dlAt a : Nat) (r : Result) :
    Prop where
  wall : r.instant ≤ dlAt
  start : t0 ≤ r.stamp
  stampLe : r.stamp ≤ r.instant
  late : r.instant ≤ r.stamp + g
  prevLe : r.pStamp ≤ r.pAt
  prevLate : r.pAt ≤ r.pStamp + g
  durUp : r.dur + unsuspTo tl t0 ≤ unsuspTo tl r.instant
  durLo : unsuspTo tl r.stamp ≤ r.dur + unsuspTo tl t0
  durExact : r.reason ≠ .timeout → r.dur + unsuspTo tl t0 = unsuspTo tl r.instant
  budgetStamp : unsuspTo tl r.stamp ≤ final + unsuspended tl r.pStamp r.pAt
  timeout : r.reason = .timeout → final < r.dur + unsuspTo tl t0 + P.thr
  capped : r.reason = .capped → r.instant = dlAt
  cancelled : r.reason = .cancelled → ∃ c, cn = some c ∧ c.t = r.instant
  prompt : ∀ c, cn = some c → r.instant ≤ c.t
  armed : r.reason ≠ .cancelled → a ≤ r.instant

theorem cancelBefore_some {cn : Option Cancel} {w tc : Nat} (h : cancelBefore cn w = some tc) :
    ∃ c, cn = some c ∧ c.t = tc ∧ tc ≤ w := by
  unfold cancelBefore at h
  split at h
  · rename_i c
    split at h
    · rename_i hc
      simp only [Option.some.injEq] at h
      exact ⟨c, rfl, h, by omega⟩
    · simp at h
  · simp at h

theorem cancelBefore_none {cn : Option Cancel} {w : Nat} (h : cancelBefore cn w = none) :
    ∀ c, cn = some c → w ≤ c.t := by
  intro c hc
  subst hc
  simp only [cancelBefore] at h
  split at h
  · simp at h
  · rename_i hn; omega

theorem loop_spec (P : Params) (g : Nat) (tl : List Ev) (cn : Option Cancel) (t0 final dlAt : Nat) (dlPre : Bool)
    (hs : Sorted tl) (hb : Balanced tl) (hcn : ∀ c, cn = some c → t0 ≤ c.t) :
    ∀ (fuel a d pT : Nat) (dv : List Delivery) (r : Result), t0 ≤ a → a ≤ dlAt → pT ≤ a → a ≤ pT + g →
      final ≤ unsuspTo tl a + d → unsuspTo tl a + d ≤ final + unsuspended tl pT a →
      loop P g tl cn (unsuspTo tl t0) final dlAt dlPre fuel a d pT dv = .done r →
      LoopOk P g tl cn t0 final dlAt a r
  | 0, _, _, _, _, _, _, _, _, _, _, _, h => by simp [loop] at h
  | fuel + 1, a, d, pT, dv, r, h0, hdl, hp1, hp2, hinv1, hinv2, h => by
    unfold loop at h
    simp only at h
    split at h
    · cases h
    rename_i hg
    have hlipT := unsuspTo_lipschitz tl (a := a) (b := a + d) (by omega)
    have hmono0 := unsuspTo_mono tl (a := t0) (b := a) h0
    split at h
    · -- cancelled
      rename_i tc hc
      obtain ⟨c, hc1, hc2, hc3⟩ := cancelBefore_some hc
      simp only [Out.done.injEq] at h
      subst h
      have ht0 : t0 ≤ tc := hc2 ▸ hcn c hc1
      have hat : tc ≤ a + d + nextLate dv := Nat.le_trans hc3 (Nat.min_le_left _ _)
      have hstamp : min (a + d) tc ≤ a + d := Nat.min_le_left _ _
      have hstamp2 : min (a + d) tc ≤ tc := Nat.min_le_right _ _
      have hm1 := unsuspTo_mono tl hstamp
      have hm2 := unsuspTo_mono tl hstamp2
      have hm3 := unsuspTo_mono tl ht0
      exact {
        wall := Nat.le_trans hc3 (Nat.min_le_right _ _)
        start := by simp only; omega
        stampLe := hstamp2
        late := by simp only; omega
        prevLe := hp1
        prevLate := hp2
        durUp := by simp only [clockAt_total hs hb]; omega
        durLo := by simp only [clockAt_total hs hb]; omega
        durExact := by intro _; simp only [clockAt_total hs hb]; omega
        budgetStamp := by simp only; omega
        timeout := by intro h; cases h
        capped := by intro h; cases h
        cancelled := fun _ => ⟨c, hc1, hc2⟩
        prompt := by
          intro c' hc'
          rw [hc1] at hc'
          cases hc'
          exact Nat.le_of_eq hc2.symm
        armed := by intro h; exact absurd rfl h }
    · rename_i hc
      have hnone := cancelBefore_none hc
      split at h
      · -- base timer with stamp T = a + d handled at at_ = T + late ≤ dlAt
        rename_i he
        have hat : a + d + nextLate dv ≤ dlAt := by omega
        have hmin : min (a + d + nextLate dv) dlAt = a + d + nextLate dv := Nat.min_eq_left hat
        split at h
        · cases h
        rename_i hv
        have hbr := next_bracket hs hb (a + d) dv (by simpa using hv)
        have hlipAt := unsuspTo_lipschitz tl (a := a + d) (b := a + d + nextLate dv) (by omega)
        have hmT := unsuspTo_mono tl (a := a) (b := a + d) (by omega)
        split at h
        · -- timeout
          rename_i hd
          simp only [Out.done.injEq] at h
          subst h
          exact {
            wall := hat
            start := by simp only; omega
            stampLe := by simp only; omega
            late := by simp only; omega
            prevLe := hp1
            prevLate := hp2
            durUp := by simp only; omega
            durLo := by simp only; omega
            durExact := by intro h; exact absurd rfl h
            budgetStamp := by simp only; omega
            timeout := by intro _; simp only; omega
            capped := by intro h; cases h
            cancelled := by intro h; cases h
            prompt := by
              intro c hc'
              have := hnone c hc'
              simp only; omega
            armed := by intro _; simp only; omega }
        · -- re-arm at the handling instant
          rename_i hd
          have hgap : unsuspTo tl (a + d + nextLate dv) =
              unsuspTo tl (a + d) + unsuspended tl (a + d) (a + d + nextLate dv) :=
            unsuspTo_eq_add tl (by omega)
          have ih := loop_spec P g tl cn t0 final dlAt dlPre hs hb hcn fuel (a + d + nextLate dv)
            (final - (nextClk tl (a + d) dv).totalWithTime (a + d)) (a + d) dv.tail r
            (by omega) hat (by omega) (by omega) (by omega) (by omega) h
          exact { ih with armed := fun hr => by have := ih.armed hr; omega }
      · -- deadline of the base context, delivered at dlAt ≤ at_
        rename_i he
        simp only [Out.done.injEq] at h
        subst h
        have hdlle : dlAt ≤ a + d + nextLate dv := by omega
        have hmin : min (a + d + nextLate dv) dlAt = dlAt := Nat.min_eq_right hdlle
        have hstamp : min (a + d) dlAt ≤ a + d := Nat.min_le_left _ _
        have hstamp2 : min (a + d) dlAt ≤ dlAt := Nat.min_le_right _ _
        have hm1 := unsuspTo_mono tl hstamp
        have hm2 := unsuspTo_mono tl hstamp2
        have hm3 := unsuspTo_mono tl (a := t0) (b := dlAt) (by omega)
        exact {
          wall := Nat.le_refl _
          start := by simp only; omega
          stampLe := hstamp2
          late := by simp only; omega
          prevLe := hp1
          prevLate := hp2
          durUp := by simp only [clockAt_total hs hb]; omega
          durLo := by simp only [clockAt_total hs hb]; omega
          durExact := by intro _; simp only [clockAt_total hs hb]; omega
          budgetStamp := by simp only; omega
          timeout := by intro h; cases h
          capped := fun _ => rfl
          cancelled := by intro h; cases h
          prompt := by
            intro c hc'
            have := hnone c hc'
            simp only; omega
          armed := fun _ => hdl }

end BbRe.Lemmas.SusClock
