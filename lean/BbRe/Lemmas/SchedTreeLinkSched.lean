import BbRe.Lemmas.SchedTreeLinkDetach
import BbRe.Lemmas.SchedTreeLinkStepB
import BbRe.Lemmas.SchedTreeLinkStepC
import BbRe.Lemmas.SchedTreeLinkStepD
import BbRe.Lemmas.SchedTreeLinkMInv
/-!
`task.schedule` and `task.complete` of the tree layer preserve the invariant `TInvX`.
-/
namespace BbRe.Lemmas.SchedTree
open BbRe.Sched BbRe.SchedTree BbRe.Lemmas.SchedInv

variable {X : List (ScqId × List Nat)}

theorem TInvX.log {ex exo} {ts : TState} (h : TInvX ex exo X ts) (d : Decision) : TInvX ex exo X (ts.log d) :=
  ⟨h.inv, (h.ts.of_fields (ts2 := ts.log d) rfl rfl rfl rfl).tree, (h.ts.of_fields (ts2 := ts.log d) rfl rfl rfl rfl).side⟩

theorem tWake_keys (ts : TState) (w : Worker) : (tWake ts w).nodes.map nkey = ts.nodes.map nkey := by
  show (ts.unparkTree w.scq w.id).nodes.map nkey = _
  unfold TState.unparkTree
  simp only []
  split
  · exact dequeueW_keys _ _ _ _
  · rfl

theorem tWake_isSome (ts : TState) (w : Worker) (q : ScqId) (p : List Nat) :
    (node? (tWake ts w).nodes q p).isSome = (node? ts.nodes q p).isSome :=
  node?_isSome_of_keys (tWake_keys ts w) q p

/-- `task.schedule` of a task that is neither queued nor assigned and whose invocations exist -/
theorem tSchedule_tinv {ex exo} {h : Hints} {ts ts' : TState} {tid : Nat} {t : Task}
    (hT : TInvX ex exo X ts) (ht : alookup tid ts.s.tasks = some t) (hr : t.response = none)
    (htw : t.worker = none) (hq : t.queued = false)
    (hn : ∀ o ∈ t.ops, (node? ts.nodes t.scq (ts.invOf o)).isSome = true)
    (hX : ∀ x ∈ X, ∃ o ∈ t.ops, onPathOf t.scq (ts.invOf o) x = true)
    (hh : tSchedule h ts tid = .ok ts') :
    TInvX (fun k => ex k ∧ k ≠ tid) exo [] ts' := by
  have hid : t.id = tid := (hT.inv.core.tid tid t ht).1
  have ht' : alookup t.id ts.s.tasks = some t := by rw [hid]; exact ht
  have hown : ∀ k t', alookup k ts.s.tasks = some t' → ∀ o ∈ t'.ops, o ∈ t.ops → k = t.id :=
    fun k t' hk o ho ho' => hT.inv.oinv.own k t' t.id t o hk ht' ho ho'
  unfold tSchedule at hh
  simp only [task?_def, ht] at hh
  tpaths hh
  · -- direct hand-off
    rename_i hp _ w hw hpk hadm _ w2 hw2
    have hwf := hintedWorker_some hw
    have hpk' : w.parked = true := by simpa using hpk
    have hw1 := hT.inv.core.w1 _ _ _ hwf hpk'
    have hTl := hT.log (.handoff w.scq w.id t.id ts.nodes (t.ops.map ts.invOf))
    have hT1 : TInvX ex exo X (tWake (ts.log (.handoff w.scq w.id t.id ts.nodes (t.ops.map ts.invOf))) w) :=
      TInvX.mk' (hT.inv.wake hwf) (wake_ts hTl hwf hpk')
    have hw2' : wfind (wakeWorker ts.s w).workers w.scq w.id = some w2 := by simpa using hw2
    have hk2 := wfind_key hw2'
    have hw2e : w2 = { w with parked := false, woken := true } := by
      simp only [wakeWorker, setWorker_eq, wfind_wset, hwf, and_self, Option.isSome_some, if_true, Option.some.injEq] at hw2'
      exact hw2'.symm
    have hsq : w2.scq = t.scq := by rw [hk2.1]; exact hintedWorker_scq hw
    unfold tAssignTo at hh
    rw [assignTo_eq] at hh
    have hwt2 : w2.task = none := by rw [hw2e]; exact hw1
    have htw' : t.worker.isSome = false := by rw [htw]; rfl
    simp only [hwt2, Option.isSome_none, Bool.false_eq_true, if_false, htw', bind, Except.bind, pure, Except.pure] at hh
    cases hh
    have hwf2 : wfind (wakeWorker ts.s w).workers w2.scq w2.id = some w2 := by rw [hk2.1, hk2.2]; exact hw2'
    refine TInvX.mk' ?_ (assign_ts hT1 hwf2 hwt2 (by rw [hw2e]) ht' htw hq hsq
      (fun o ho => by rw [tWake_isSome]; exact hn o ho) hX)
    exact ((hT.inv.wake hwf).assign (t := t) hwf2 hwt2 (by rw [hw2e]) ht' hr).mono
      (fun k hk => ⟨hk.1, by rw [← hid]; exact hk.2⟩)
  · -- nobody is parked: enqueue
    cases hh
    have hnd := (hT.inv.oinv.o3 tid t ht).1
    refine TInvX.mk' ?_ (enqueue_ts hT ht' htw hq hnd hown hn hX)
    exact (hT.inv.queue ht' hr htw).mono (fun k hk => ⟨hk.1, by rw [← hid]; exact hk.2⟩)

/-! ### `task.complete`: detach and final completion -/

theorem detachT_id (t : Task) : (BbRe.SchedTree.detachT t).id = t.id := by
  unfold BbRe.SchedTree.detachT; split <;> rfl
theorem detachT_worker (t : Task) : (BbRe.SchedTree.detachT t).worker = none := rfl
theorem detachT_ops (t : Task) : (BbRe.SchedTree.detachT t).ops = t.ops := by
  unfold BbRe.SchedTree.detachT; split <;> rfl
theorem detachT_scq (t : Task) : (BbRe.SchedTree.detachT t).scq = t.scq := by
  unfold BbRe.SchedTree.detachT; split <;> rfl
theorem detachT_response (t : Task) : (BbRe.SchedTree.detachT t).response = t.response := by
  unfold BbRe.SchedTree.detachT; split <;> rfl
theorem detachT_queued (t : Task) (h : t.worker = none ∨ t.queued = false) : (BbRe.SchedTree.detachT t).queued = false := by
  unfold BbRe.SchedTree.detachT
  rcases h with h | h
  · simp [h, bumpGen]
  · split <;> simp [bumpGen, h]

theorem detachW_tasks (s : State) (t : Task) : (BbRe.SchedTree.detachW s t).tasks = s.tasks := by
  unfold BbRe.SchedTree.detachW; split
  · split <;> rfl
  · rfl
theorem detachW_ops (s : State) (t : Task) : (BbRe.SchedTree.detachW s t).ops = s.ops := by
  unfold BbRe.SchedTree.detachW; split
  · split <;> rfl
  · rfl
theorem detachW_scqs (s : State) (t : Task) : (BbRe.SchedTree.detachW s t).scqs = s.scqs := by
  unfold BbRe.SchedTree.detachW; split
  · split <;> rfl
  · rfl
theorem detachW_next (s : State) (t : Task) :
    (BbRe.SchedTree.detachW s t).nextTask = s.nextTask ∧ (BbRe.SchedTree.detachW s t).nextOp = s.nextOp ∧
    (BbRe.SchedTree.detachW s t).now = s.now := by
  unfold BbRe.SchedTree.detachW; split
  · split <;> exact ⟨rfl, rfl, rfl⟩
  · exact ⟨rfl, rfl, rfl⟩
theorem detachW_workers_none (s : State) (t : Task) (h : t.worker = none) : (BbRe.SchedTree.detachW s t).workers = s.workers := by
  unfold BbRe.SchedTree.detachW; rw [h]

/-- the task record written back after the stage switch: neither queued nor assigned; the worker of an
executing task is released.  `s1` is any state with these tasks / workers. -/
theorem detach_tinv {ex exo} {ts : TState} {t t' : Task} {bw : Bool} {s1 : State}
    (hT : TInvX ex exo [] ts) (ht : alookup t.id ts.s.tasks = some t) (hr : t.response = none) (hnex : ¬ ex t.id)
    (hk : t'.id = t.id ∧ t'.worker = none ∧ t'.queued = false ∧ t'.ops = t.ops)
    (hst : s1.tasks = aset t.id t' ts.s.tasks) (hsw : s1.workers = (BbRe.SchedTree.detachW ts.s t).workers)
    (hsq : s1.scqs = ts.s.scqs) (hnt : s1.nextTask = ts.s.nextTask) (hno : s1.nextOp = ts.s.nextOp)
    (hso : ∀ o op', s1.op? o = some op' → ∃ op, ts.s.op? o = some op ∧ op'.inv = op.inv ∧ op'.prio = op.prio) :
    TInvX (fun k => ex k ∨ (k = t.id ∧ t'.response = none)) exo [] ((ts.detachTree t bw).setS s1) := by
  have hown : ∀ k t'', alookup k ts.s.tasks = some t'' → ∀ o ∈ t''.ops, o ∈ t.ops → k = t.id :=
    fun k t'' hk' o ho ho' => hT.inv.oinv.own k t'' t.id t o hk' ht ho ho'
  cases hw : t.worker with
  | none =>
    have hq : t.queued = true := by
      rcases hT.inv.core.q2 t.id t ht hr with h | h | h
      · exact h
      · rw [hw] at h; cases h
      · exact absurd h hnex
    have hsw' : s1.workers = ts.s.workers := by rw [hsw, detachW_workers_none _ _ hw]
    refine TInvX.mk' ?_ (detachQueued_ts hT ht hw hq hown ⟨hk.1, hk.2.1, hk.2.2.1⟩ hst hsw' hsq hso)
    exact hT.inv.settle (s' := s1) ht hk hst hnt hno (Or.inl ⟨hsw', hw⟩)
  | some qw =>
    obtain ⟨q0, w⟩ := qw
    refine TInvX.mk' ?_ (detachExec_ts hT ht hw ⟨hk.1, hk.2.1, hk.2.2.1⟩ hst hsw hsq hso)
    obtain ⟨wk, hwk, _⟩ := hT.inv.core.p2 t.id t q0 w ht hw
    exact hT.inv.settle (s' := s1) ht hk hst hnt hno (Or.inr ⟨q0, w, wk, hw, hwk, hsw.trans (detachW_workers ts.s t q0 w wk hw hwk)⟩)

/-- `finishOps` only changes the operation table and the cleanup queue -/
theorem finishOps_shape (ops : List Nat) : ∀ s : State, ∃ os cl, complete.finishOps s ops = { s with ops := os, cleanup := cl } := by
  induction ops with
  | nil => intro s; exact ⟨s.ops, s.cleanup, rfl⟩
  | cons o l ih =>
    intro s
    rw [finishOps_cons]
    have h1 : ∃ os cl, finishOp s o = { s with ops := os, cleanup := cl } := by
      unfold finishOp
      split
      · split
        · unfold maybeStartCleanup
          split
          · split
            · exact ⟨_, _, rfl⟩
            · exact ⟨_, _, rfl⟩
          · exact ⟨_, _, rfl⟩
        · exact ⟨_, _, rfl⟩
      · exact ⟨_, _, rfl⟩
    obtain ⟨os1, cl1, e1⟩ := h1
    obtain ⟨os2, cl2, e2⟩ := ih (finishOp s o)
    rw [e2, e1]
    exact ⟨os2, cl2, rfl⟩

/-- what `complete.finalize` does to the parts of the state the tree layer looks at -/
theorem finalize_fields {s s1 : State} {tD : Task} {r : Resp}
    (hoid : ∀ k op, s.op? k = some op → op.name = k) (hf : complete.finalize s tD r = .ok s1) :
    s1.tasks = aset tD.id (bumpGen { tD with response := some r }) s.tasks ∧ s1.workers = s.workers ∧
    s1.scqs = s.scqs ∧ s1.pqs = s.pqs ∧ s1.nextTask = s.nextTask ∧ s1.nextOp = s.nextOp ∧ s1.now = s.now ∧
    s1.nextLearner = s.nextLearner ∧
    (∀ o op', s1.op? o = some op' → ∃ op, s.op? o = some op ∧ op'.inv = op.inv ∧ op'.prio = op.prio) ∧
    (∀ k op, s1.op? k = some op → op.name = k) := by
  rw [BbRe.Lemmas.SchedInv.finalize_eq] at hf
  cases hf
  obtain ⟨os, cl, e⟩ := finishOps_shape tD.ops (finSt0 s tD r)
  have hoid0 : ∀ k op, (finSt0 s tD r).op? k = some op → op.name = k := hoid
  obtain ⟨hfr, hoid1⟩ := finishOps_sframe_oid tD.ops (finSt0 s tD r) hoid0
  refine ⟨?_, ?_, ?_, ?_, ?_, ?_, ?_, ?_, ?_, hoid1⟩
  · rw [hfr.tasks]; rfl
  · rw [hfr.workers]; rfl
  · rw [hfr.scqs]; rfl
  · rw [hfr.pqs]; rfl
  · rw [e]; rfl
  · rw [e]; rfl
  · rw [hfr.now]; rfl
  · rw [e]; rfl
  · intro o op' h
    obtain ⟨op, h1, h2, h3, _⟩ := hfr.ops o op' h
    exact ⟨op, h1, h2, h3⟩

theorem queued_false_of_worker {ex} {s : State} (h : MInv ex s) {t : Task} (ht : alookup t.id s.tasks = some t) :
    t.worker = none ∨ t.queued = false := by
  cases hq : t.queued with
  | false => exact Or.inr rfl
  | true => exact Or.inl (h.core.q1 t.id t ht hq).1

/-- **final completion**: the stage switch followed by `complete.finalize` of the detached task `tD` -/
theorem tFinal_tinv {ex exo} {ts : TState} {t tD : Task} {bw : Bool} {ev : Event} {r : Resp} {s1 : State}
    (hT : TInvX ex exo [] ts) (ht : alookup t.id ts.s.tasks = some t) (hr : t.response = none) (hnex : ¬ ex t.id)
    (hoid : ∀ k op, ts.s.op? k = some op → op.name = k)
    (htD : tD.id = t.id ∧ tD.worker = none ∧ tD.queued = false ∧ tD.ops = t.ops)
    (hf : complete.finalize (emit (BbRe.SchedTree.detachW ts.s t) ev) tD r = .ok s1) :
    TInvX ex exo [] ((ts.detachTree t bw).setS s1) ∧ (∀ k op, s1.op? k = some op → op.name = k) ∧
    s1.nextOp = ts.s.nextOp ∧ s1.nextTask = ts.s.nextTask ∧ s1.now = ts.s.now ∧ s1.scqs = ts.s.scqs ∧
    s1.pqs = ts.s.pqs := by
  have hoid0 : ∀ k op, (emit (BbRe.SchedTree.detachW ts.s t) ev).op? k = some op → op.name = k := by
    intro k op h; apply hoid k op; simpa [emit, State.op?, detachW_ops] using h
  obtain ⟨f1, f2, f3, f4, f5, f6, f7, f8, f9, f10⟩ := finalize_fields hoid0 hf
  have hn := detachW_next ts.s t
  have hk : (bumpGen { tD with response := some r }).id = t.id ∧ (bumpGen { tD with response := some r }).worker = none ∧
      (bumpGen { tD with response := some r }).queued = false ∧ (bumpGen { tD with response := some r }).ops = t.ops :=
    ⟨htD.1, htD.2.1, htD.2.2.1, htD.2.2.2⟩
  have h := detach_tinv (bw := bw) (s1 := s1) hT ht hr hnex hk
    (by rw [f1, htD.1]; show aset t.id _ (BbRe.SchedTree.detachW ts.s t).tasks = _; rw [detachW_tasks])
    (by rw [f2]; rfl) (by rw [f3]; exact detachW_scqs _ _) (by rw [f5]; exact hn.1) (by rw [f6]; exact hn.2.1)
    (by intro o op' ho
        obtain ⟨op, h1, h2, h3⟩ := f9 o op' ho
        exact ⟨op, by simpa [emit, State.op?, detachW_ops] using h1, h2, h3⟩)
  refine ⟨⟨h.inv.mono ?_, h.tree, h.side⟩, f10, by rw [f6]; exact hn.2.1, by rw [f5]; exact hn.1, by rw [f7]; exact hn.2.2,
    by rw [f3]; exact detachW_scqs _ _, ?_⟩
  · rintro k (hk' | ⟨_, hk'⟩)
    · exact hk'
    · cases hk'
  · rw [f4]; show (BbRe.SchedTree.detachW ts.s t).pqs = _
    unfold BbRe.SchedTree.detachW; split
    · split <;> rfl
    · rfl

end BbRe.Lemmas.SchedTree
