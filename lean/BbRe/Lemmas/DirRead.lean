import BbRe.Lemmas.DirOps
/-!
Paginated `VirtualReadDir` under interleaved mutation.

`listing P d s c segs` is a listing of directory `d` that starts at cookie `c`:
each segment `(pre, k)` first runs an arbitrary list of operations `pre` (any
mutations, other listings, …) and then reads one page of at most `k` entries,
resuming from the cookie returned with the last entry of the previous page.
-/
namespace BbRe.Lemmas.Dir
open BbRe.Dir

def lastCookie (c : Nat) (rs : List Report) : Nat :=
  match rs.getLast? with
  | some r => r.cookie
  | none => c

/-- The pages of a listing: store right after the page was read, status, reports. -/
def listing (P : Params) (d : Nat) : Store → Nat → List (List Op × Nat) → List (Store × Out)
  | _, _, [] => []
  | s, c, (pre, k) :: rest =>
    let r := vreaddir P (run P s pre) d c k
    r :: listing P d r.1 (lastCookie c r.2.reports) rest

def allReports (pages : List (Store × Out)) : List Report := pages.flatMap (fun p => p.2.reports)

def entryReportOf (e : Entry) : Report := ⟨e.cookie + 1, e.name, e.child⟩

/-- Entries of a page before they are turned into reports. -/
def pageEntries (P : Params) (x : Dir) (c k : Nat) : List Entry :=
  ((x.entries.dropWhile (fun e => e.cookie < c)).filter (visible P)).take k

theorem readPage_eq (P : Params) (x : Dir) (c k : Nat) : readPage P x c k = (pageEntries P x c k).map entryReportOf := rfl

theorem dropWhile_sorted (c : Nat) : ∀ (es : List Entry), es.Pairwise (fun a b => a.cookie < b.cookie) →
    es.dropWhile (fun e => e.cookie < c) = es.filter (fun e => c ≤ e.cookie)
  | [], _ => rfl
  | e :: rest, h => by
    have h' := List.pairwise_cons.mp h
    by_cases hc : e.cookie < c
    · have : ¬ c ≤ e.cookie := by omega
      simp [List.dropWhile_cons, hc, this, dropWhile_sorted c rest h'.2]
    · have hc' : c ≤ e.cookie := by omega
      have hall : rest.filter (fun e => c ≤ e.cookie) = rest := by
        apply List.filter_eq_self.mpr
        intro a ha
        have := h'.1 a ha
        simp; omega
      simp [List.dropWhile_cons, hc, hc', hall]

/-- The candidates of a page: visible entries at or after the cookie, in cookie order. -/
def candidates (P : Params) (x : Dir) (c : Nat) : List Entry :=
  (x.entries.filter (fun e => c ≤ e.cookie)).filter (visible P)

theorem pageEntries_eq {P : Params} {x : Dir} (h : DirOK P x) (c k : Nat) :
    pageEntries P x c k = (candidates P x c).take k := by
  unfold pageEntries candidates
  rw [dropWhile_sorted c x.entries h.sorted]

theorem candidates_sorted {P : Params} {x : Dir} (h : DirOK P x) (c : Nat) :
    (candidates P x c).Pairwise (fun a b => a.cookie < b.cookie) :=
  (h.sorted.sublist List.filter_sublist).sublist List.filter_sublist

theorem mem_candidates {P : Params} {x : Dir} {c : Nat} {e : Entry} :
    e ∈ candidates P x c ↔ e ∈ x.entries ∧ c ≤ e.cookie ∧ visible P e = true := by
  simp only [candidates, List.mem_filter, decide_eq_true_eq]
  constructor
  · rintro ⟨⟨h1, h2⟩, h3⟩; exact ⟨h1, h2, h3⟩
  · rintro ⟨h1, h2, h3⟩; exact ⟨⟨h1, h2⟩, h3⟩

theorem materialize_error_ne_ok {P : Params} {s : Store} {d : Nat} {e : Status} (h : materialize P s d = .error e) :
    e ≠ .ok := by
  unfold materialize at h
  split at h
  · cases h
  · split at h
    · cases h; intro hx; cases hx
    · split at h
      · cases h
      · cases h; intro hx; cases hx

theorem vreaddir_cases (P : Params) (s : Store) (d c k : Nat) :
    (∃ e, materialize P s d = .error e ∧ vreaddir P s d c k = (s, .fail e)) ∨
    (∃ s1, materialize P s d = .ok s1 ∧
      vreaddir P s d c k = (s1, { status := .ok, reports := readPage P (s1.dir d) c k })) := by
  unfold vreaddir
  split
  · rename_i e he; exact Or.inl ⟨e, he, rfl⟩
  · rename_i s1 he; exact Or.inr ⟨s1, he, rfl⟩

/-- What one page does (given the invariant before it). -/
structure PageFacts (P : Params) (s : Store) (d c k : Nat) : Prop where
  inv   : Inv P (vreaddir P s d c k).1
  le    : Le s (vreaddir P s d c k).1
  cases : ((vreaddir P s d c k).2.status ≠ .ok ∧ (vreaddir P s d c k).2.reports = []) ∨
          ((vreaddir P s d c k).2.status = .ok ∧ (vreaddir P s d c k).2.reports =
            ((candidates P ((vreaddir P s d c k).1.dir d) c).take k).map entryReportOf)

theorem pageFacts {P : Params} {s : Store} (h : Inv P s) (d c k : Nat) (hd : d < s.dirs.length) : PageFacts P s d c k := by
  have ok := vreaddir_ok h d c k hd
  refine ⟨ok.inv, ok.le, ?_⟩
  rcases vreaddir_cases P s d c k with ⟨e, he, hv⟩ | ⟨s1, he, hv⟩
  · left
    rw [hv]
    exact ⟨materialize_error_ne_ok he, rfl⟩
  · right
    have r := materialize_ok h hd he
    rw [hv]
    refine ⟨rfl, ?_⟩
    show readPage P (s1.dir d) c k = _
    rw [readPage_eq, pageEntries_eq (r.inv.dirOK d)]

/-! ### properties of one page -/

theorem take_sorted_lt {es : List Entry} (hs : es.Pairwise (fun a b => a.cookie < b.cookie)) (k : Nat) {e : Entry}
    (he : e ∈ es) (hn : e ∉ es.take k) : ∀ x ∈ es.take k, x.cookie < e.cookie := by
  have hsplit : es = es.take k ++ es.drop k := (List.take_append_drop k es).symm
  rw [hsplit] at he hs
  rcases List.mem_append.mp he with h1 | h1
  · exact absurd h1 hn
  · intro x hx
    exact (List.pairwise_append.mp hs).2.2 x hx e h1

theorem lastCookie_map_ge (c : Nat) (es : List Entry) : ∀ x ∈ es, es.Pairwise (fun a b => a.cookie < b.cookie) →
    x.cookie + 1 ≤ lastCookie c (es.map entryReportOf) := by
  intro x hx hs
  unfold lastCookie
  cases hl : (es.map entryReportOf).getLast? with
  | none =>
    rw [List.getLast?_eq_none_iff] at hl
    simp at hl; subst hl; cases hx
  | some r =>
    simp only []
    rw [List.getLast?_map] at hl
    cases hl2 : es.getLast? with
    | none => rw [hl2] at hl; simp at hl
    | some y =>
      rw [hl2] at hl; simp at hl; subst hl
      simp only [entryReportOf]
      -- y is the last entry: every other entry has a smaller cookie
      have hy : y ∈ es := List.mem_of_getLast? hl2
      by_cases hxy : x = y
      · subst hxy; exact Nat.le_refl _
      · have : x.cookie < y.cookie := by
          obtain ⟨pre, hpre⟩ : ∃ pre, es = pre ++ [y] := by
            have := List.getLast?_eq_some_iff.mp hl2
            exact this
          rw [hpre] at hs hx
          rcases List.mem_append.mp hx with h1 | h1
          · exact (List.pairwise_append.mp hs).2.2 x h1 y (by simp)
          · simp at h1; exact absurd h1 hxy
        omega

/-! ### the whole listing -/

theorem lastCookie_nil (c : Nat) : lastCookie c [] = c := rfl

theorem allReports_cons (p : Store × Out) (ps : List (Store × Out)) : allReports (p :: ps) = p.2.reports ++ allReports ps := by
  simp [allReports]

theorem listing_cons (P : Params) (d : Nat) (s : Store) (c : Nat) (pre : List Op) (k : Nat) (rest : List (List Op × Nat)) :
    listing P d s c ((pre, k) :: rest) =
      vreaddir P (run P s pre) d c k ::
        listing P d (vreaddir P (run P s pre) d c k).1 (lastCookie c (vreaddir P (run P s pre) d c k).2.reports) rest := rfl

/-- Cookies of a page are above the start cookie and below-or-equal the next start cookie. -/
theorem page_cookie_bounds {P : Params} {x : Dir} (hx : DirOK P x) (c k : Nat) :
    (((candidates P x c).take k).map entryReportOf).Pairwise (fun a b => a.cookie < b.cookie) ∧
    (∀ r ∈ ((candidates P x c).take k).map entryReportOf,
      c < r.cookie ∧ r.cookie ≤ lastCookie c (((candidates P x c).take k).map entryReportOf)) := by
  have hs : ((candidates P x c).take k).Pairwise (fun a b => a.cookie < b.cookie) :=
    (candidates_sorted hx c).sublist (List.take_sublist _ _)
  refine ⟨?_, ?_⟩
  · rw [List.pairwise_map]
    exact hs.imp (by intro a b hab; simp [entryReportOf]; exact hab)
  · intro r hr
    obtain ⟨e, he, rfl⟩ := List.mem_map.mp hr
    have hc := (mem_candidates.mp (List.mem_of_mem_take he)).2.1
    refine ⟨by simp [entryReportOf]; omega, ?_⟩
    exact lastCookie_map_ge c _ e he hs

theorem listing_cookies {P : Params} (d : Nat) :
    ∀ (segs : List (List Op × Nat)) (s : Store) (c : Nat), Inv P s → d < s.dirs.length →
      (allReports (listing P d s c segs)).Pairwise (fun a b => a.cookie < b.cookie) ∧
      ∀ r ∈ allReports (listing P d s c segs), c < r.cookie
  | [], _, _, _, _ => by simp [listing, allReports]
  | (pre, k) :: rest, s, c, h, hd => by
    have h1 := run_ok pre h
    have hd1 : d < (run P s pre).dirs.length := by have := h1.le.dirsLen; omega
    have pf := pageFacts h1.inv d c k hd1
    have hd2 : d < (vreaddir P (run P s pre) d c k).1.dirs.length := by have := pf.le.dirsLen; omega
    have ih := listing_cookies d rest (vreaddir P (run P s pre) d c k).1
      (lastCookie c (vreaddir P (run P s pre) d c k).2.reports) pf.inv hd2
    rw [listing_cons, allReports_cons]
    rcases pf.cases with ⟨_, hr⟩ | ⟨_, hr⟩
    · rw [hr] at ih ⊢
      rw [lastCookie_nil] at ih ⊢
      simpa using ih
    · have hb := page_cookie_bounds (pf.inv.dirOK d) c k
      rw [← hr] at hb
      refine ⟨?_, ?_⟩
      · rw [List.pairwise_append]
        refine ⟨hb.1, ih.1, ?_⟩
        intro a ha b hb'
        have := (hb.2 a ha).2
        have := ih.2 b hb'
        omega
      · intro r hr'
        rcases List.mem_append.mp hr' with h2 | h2
        · exact (hb.2 r h2).1
        · have := ih.2 r h2
          have hc : c ≤ lastCookie c (vreaddir P (run P s pre) d c k).2.reports := by
            cases hrs : (vreaddir P (run P s pre) d c k).2.reports with
            | nil => simp [lastCookie]
            | cons r0 rs =>
              have h0 : r0 ∈ (vreaddir P (run P s pre) d c k).2.reports := by rw [hrs]; simp
              have := hb.2 r0 h0
              rw [hrs] at this
              omega
          omega

/-- Every reported entry is an entry of the directory at the time of its page, with
its own name and child, and is not a hidden file. -/
theorem listing_sound {P : Params} (d : Nat) :
    ∀ (segs : List (List Op × Nat)) (s : Store) (c : Nat), Inv P s → d < s.dirs.length →
      ∀ p ∈ listing P d s c segs, ∀ r ∈ p.2.reports,
        ∃ e ∈ (p.1.dir d).entries, r = entryReportOf e ∧ visible P e = true
  | [], _, _, _, _ => by simp [listing]
  | (pre, k) :: rest, s, c, h, hd => by
    have h1 := run_ok pre h
    have hd1 : d < (run P s pre).dirs.length := by have := h1.le.dirsLen; omega
    have pf := pageFacts h1.inv d c k hd1
    have hd2 : d < (vreaddir P (run P s pre) d c k).1.dirs.length := by have := pf.le.dirsLen; omega
    have ih := listing_sound d rest (vreaddir P (run P s pre) d c k).1
      (lastCookie c (vreaddir P (run P s pre) d c k).2.reports) pf.inv hd2
    intro p hp r hr
    rw [listing_cons] at hp
    rcases List.mem_cons.mp hp with hp | hp
    · subst hp
      rcases pf.cases with ⟨_, hr'⟩ | ⟨_, hr'⟩
      · rw [hr'] at hr; cases hr
      · rw [hr'] at hr
        obtain ⟨e, he, rfl⟩ := List.mem_map.mp hr
        have hm := mem_candidates.mp (List.mem_of_mem_take he)
        exact ⟨e, hm.1, rfl, hm.2.2⟩
    · exact ih p hp r hr

/-- The listing ran to its end: the last page came back OK with fewer entries than asked for. -/
def finished : List (List Op × Nat) → List (Store × Out) → Prop
  | [(_, k)], [p] => p.2.status = .ok ∧ p.2.reports.length < k
  | _ :: s2 :: rest, _ :: p2 :: prest => finished (s2 :: rest) (p2 :: prest)
  | _, _ => False

/-- Completeness: an entry that is in the directory at every page of a finished listing is reported. -/
theorem listing_complete {P : Params} (d : Nat) (e : Entry) (hvis : visible P e = true) :
    ∀ (segs : List (List Op × Nat)) (s : Store) (c : Nat), Inv P s → d < s.dirs.length →
      (∀ seg ∈ segs, 1 ≤ seg.2) → c ≤ e.cookie →
      (∀ p ∈ listing P d s c segs, e ∈ (p.1.dir d).entries) →
      finished segs (listing P d s c segs) →
      entryReportOf e ∈ allReports (listing P d s c segs)
  | [], _, _, _, _, _, _, _, hf => by simp [listing, finished] at hf
  | (pre, k) :: rest, s, c, h, hd, hk, hc, hpres, hf => by
    have h1 := run_ok pre h
    have hd1 : d < (run P s pre).dirs.length := by have := h1.le.dirsLen; omega
    have pf := pageFacts h1.inv d c k hd1
    have hd2 : d < (vreaddir P (run P s pre) d c k).1.dirs.length := by have := pf.le.dirsLen; omega
    rw [listing_cons] at hpres hf ⊢
    rw [allReports_cons]
    have hk1 : 1 ≤ k := hk (pre, k) (by simp)
    have hin : e ∈ ((vreaddir P (run P s pre) d c k).1.dir d).entries := hpres _ (by simp)
    have hcand : e ∈ candidates P ((vreaddir P (run P s pre) d c k).1.dir d) c := mem_candidates.mpr ⟨hin, hc, hvis⟩
    rcases pf.cases with ⟨hst, hr⟩ | ⟨hst, hr⟩
    · -- a failed page reports nothing and does not move the cookie
      cases rest with
      | nil => simp [listing, finished] at hf; exact absurd hf.1 hst
      | cons seg2 rest2 =>
        have ih := listing_complete d e hvis (seg2 :: rest2) (vreaddir P (run P s pre) d c k).1
          (lastCookie c (vreaddir P (run P s pre) d c k).2.reports) pf.inv hd2
          (by intro sg hsg; exact hk sg (by simp [hsg])) (by rw [hr, lastCookie_nil]; exact hc)
          (by intro p hp; exact hpres p (by simp [hp]))
          (by
            obtain ⟨pre2, k2⟩ := seg2
            rw [listing_cons] at hf ⊢
            simpa [finished] using hf)
        exact List.mem_append.mpr (Or.inr ih)
    · by_cases hmem : e ∈ (candidates P ((vreaddir P (run P s pre) d c k).1.dir d) c).take k
      · apply List.mem_append.mpr; left
        rw [hr]; exact List.mem_map.mpr ⟨e, hmem, rfl⟩
      · cases rest with
        | nil =>
          -- last page was short, so nothing was cut off
          simp [listing, finished] at hf
          have hlen := hf.2
          rw [hr] at hlen
          simp at hlen
          have : (candidates P ((vreaddir P (run P s pre) d c k).1.dir d) c).take k =
              candidates P ((vreaddir P (run P s pre) d c k).1.dir d) c := by
            apply List.take_of_length_le
            omega
          rw [this] at hmem
          exact absurd hcand hmem
        | cons seg2 rest2 =>
          have hlt := take_sorted_lt (candidates_sorted (pf.inv.dirOK d) c) k hcand hmem
          -- the page is full (k ≥ 1 entries), so the next cookie is at most e's cookie
          have hne : (candidates P ((vreaddir P (run P s pre) d c k).1.dir d) c).take k ≠ [] := by
            intro hnil
            have : (candidates P ((vreaddir P (run P s pre) d c k).1.dir d) c) = [] := by
              cases hcs : candidates P ((vreaddir P (run P s pre) d c k).1.dir d) c with
              | nil => rfl
              | cons a as =>
                rw [hcs] at hnil
                cases k with
                | zero => omega
                | succ k' => simp at hnil
            rw [this] at hcand; cases hcand
          have hc' : lastCookie c (vreaddir P (run P s pre) d c k).2.reports ≤ e.cookie := by
            rw [hr]
            unfold lastCookie
            rw [List.getLast?_map]
            cases hl : ((candidates P ((vreaddir P (run P s pre) d c k).1.dir d) c).take k).getLast? with
            | none =>
              rw [List.getLast?_eq_none_iff] at hl
              exact absurd hl hne
            | some y =>
              simp only [Option.map_some, entryReportOf]
              have := hlt y (List.mem_of_getLast? hl)
              omega
          have ih := listing_complete d e hvis (seg2 :: rest2) (vreaddir P (run P s pre) d c k).1
            (lastCookie c (vreaddir P (run P s pre) d c k).2.reports) pf.inv hd2
            (by intro sg hsg; exact hk sg (by simp [hsg])) hc'
            (by intro p hp; exact hpres p (by simp [hp]))
            (by
              obtain ⟨pre2, k2⟩ := seg2
              rw [listing_cons] at hf ⊢
              simpa [finished] using hf)
          exact List.mem_append.mpr (Or.inr ih)

end BbRe.Lemmas.Dir
