import BbRe.Lemmas.SchedTreeLinkCore
/-!
Step lemmas of the tree layer: operations and tasks being added / removed (a new task with one
operation, in-flight deduplication against an executing / a queued task, `operation.remove`, dropping a
completed task or one of its operations).
-/
namespace BbRe.Lemmas.SchedTree
open BbRe.Sched BbRe.SchedTree BbRe.Lemmas.SchedInv

variable {X : List (ScqId × List Nat)}

-- some hypotheses of the step lemmas only document the intended use (`hops`, `hnow`)
set_option linter.unusedVariables false

/-! ### helpers -/

/-- `conE` reads the operation table only at the operations of the task -/
private theorem conE_oxc {ox ox' : List (Nat × OX)} {t : Task}
    (h : ∀ o ∈ t.ops, alookup o ox' = alookup o ox) : conE ox' t = conE ox t := by
  unfold conE
  cases t.worker with
  | none => rfl
  | some qw =>
    obtain ⟨q, w⟩ := qw
    simp only
    apply List.map_congr_left
    intro o ho; rw [h o ho]

private theorem conQ_oxc {ox ox' : List (Nat × OX)} {t : Task}
    (h : ∀ o ∈ t.ops, alookup o ox' = alookup o ox) : conQ ox' t = conQ ox t := by
  unfold conQ
  split
  · apply List.map_congr_left
    intro o ho; rw [h o ho]
  · rfl

private theorem conE_some (ox : List (Nat × OX)) (t : Task) {q : ScqId} {w : WId} (h : t.worker = some (q, w)) :
    conE ox t = t.ops.map (fun o => (t.scq, (match alookup o ox with | some y => y.inv | none => []), some w)) := by
  unfold conE; rw [h]; rfl

private theorem conQ_some (ox : List (Nat × OX)) (t : Task) (h : t.queued = true) :
    conQ ox t = t.ops.map (fun o => (t.scq, (match alookup o ox with | some y => y.inv | none => []), o)) := by
  unfold conQ; rw [if_pos h]; rfl

private theorem mem_bagE {ts : TState} {t : Task} {q0 : ScqId} {w : WId} {o : Nat}
    (ht : alookup t.id ts.s.tasks = some t) (hw : t.worker = some (q0, w)) (ho : o ∈ t.ops) :
    (t.scq, ts.invOf o, some w) ∈ bagE ts := by
  rw [bagE_def]
  refine List.mem_flatMap.mpr ⟨(t.id, t), mem_of_alookup ht, ?_⟩
  show _ ∈ conE ts.ox t
  rw [conE_some ts.ox t hw]
  exact List.mem_map.mpr ⟨o, ho, rfl⟩

private theorem mem_bagQ {ts : TState} {t : Task} {o : Nat}
    (ht : alookup t.id ts.s.tasks = some t) (hq : t.queued = true) (ho : o ∈ t.ops) :
    (t.scq, ts.invOf o, o) ∈ bagQ ts := by
  rw [bagQ_def]
  refine List.mem_flatMap.mpr ⟨(t.id, t), mem_of_alookup ht, ?_⟩
  show _ ∈ conQ ts.ox t
  rw [conQ_some ts.ox t hq]
  exact List.mem_map.mpr ⟨o, ho, rfl⟩

/-- the entries of `aset k v l` -/
private theorem mem_aset_cases {α} {l : List (Nat × α)} (hnd : (keys l).Nodup) {k : Nat} {v : α} {kt : Nat × α}
    (h : kt ∈ aset k v l) : kt = (k, v) ∨ (kt.1 ≠ k ∧ alookup kt.1 l = some kt.2) := by
  obtain ⟨k', v'⟩ := kt
  have := alookup_of_mem (nodup_aset k v l hnd) h
  rw [alookup_aset] at this
  by_cases hk : k = k'
  · simp only [hk, if_true, Option.some.injEq] at this
    left; rw [hk, this]
  · simp only [hk, if_false] at this
    right; exact ⟨fun e => hk e.symm, this⟩

/-- the entries of `aerase k l` -/
private theorem mem_aerase_cases {α} {l : List (Nat × α)} (hnd : (keys l).Nodup) {k : Nat} {kt : Nat × α}
    (h : kt ∈ aerase k l) : kt.1 ≠ k ∧ alookup kt.1 l = some kt.2 := by
  obtain ⟨k', v'⟩ := kt
  have := alookup_of_mem (nodup_aerase k l hnd) h
  rw [alookup_aerase _ _ _ hnd] at this
  by_cases hk : k = k'
  · simp [hk] at this
  · simp only [hk, if_false] at this
    exact ⟨fun e => hk e.symm, this⟩

/-- replacing the entry of one task, when the contribution function changes too (but not on the new
table) -/
private theorem flatMap_setTask {β} (f g : Task → List β) (l : List (Nat × Task)) (k : Nat) (t0 t1 : Task)
    (h0 : alookup k l = some t0) (hfg : ∀ kt ∈ aset k t1 l, g kt.2 = f kt.2) :
    (l.flatMap (fun kt => f kt.2) ++ f t1).Perm ((aset k t1 l).flatMap (fun kt => g kt.2) ++ f t0) := by
  have e : (aset k t1 l).flatMap (fun kt => g kt.2) = (aset k t1 l).flatMap (fun kt => f kt.2) :=
    flatMap_congr' hfg
  rw [e]
  exact flatMap_aset_some (fun kt : Nat × Task => f kt.2) k t1 l t0 h0

private theorem perm_add {α} {E E' A : List α} {c : α} (h : (E ++ (A ++ [c])).Perm (E' ++ A)) :
    (c :: E).Perm E' := by
  rw [← List.append_assoc] at h
  have h2 : ((c :: E) ++ A).Perm (E' ++ A) := (List.perm_append_singleton c (E ++ A)).symm.trans h
  exact (List.perm_append_right_iff A).mp h2

private theorem perm_remove {α} [BEq α] [LawfulBEq α] {E E' A B : List α} {c : α}
    (h : (E ++ A).Perm (E' ++ B)) (hB : B.Perm (c :: A)) : (E.erase c).Perm E' := by
  have h1 : (E ++ A).Perm ((c :: E') ++ A) :=
    h.trans ((List.Perm.append_left E' hB).trans List.perm_middle)
  have h2 : E.Perm (c :: E') := (List.perm_append_right_iff A).mp h1
  have h3 := h2.erase c
  rw [List.erase_cons_head] at h3
  exact h3

private theorem perm_filter_ne {l : List Nat} {o : Nat} (hnd : l.Nodup) (hm : o ∈ l) :
    l.Perm (o :: l.filter (· ≠ o)) := by
  induction l with
  | nil => cases hm
  | cons a r ih =>
    rw [List.nodup_cons] at hnd
    by_cases ha : a = o
    · subst ha
      have : r.filter (· ≠ a) = r := by
        rw [List.filter_eq_self]
        intro x hx
        simp only [ne_eq, decide_not, Bool.not_eq_eq_eq_not, Bool.not_true, decide_eq_false_iff_not]
        intro e; subst e; exact hnd.1 hx
      rw [List.filter_cons_of_neg (by simp), this]
    · have hm' : o ∈ r := by
        rcases List.mem_cons.mp hm with e | e
        · exact absurd e.symm ha
        · exact e
      rw [List.filter_cons_of_pos (by simpa using ha)]
      exact (List.Perm.cons a (ih hnd.2 hm')).trans (List.Perm.swap o a _)

/-- the exemptions `getOrCreate_ok` introduces are all on the path -/
private theorem prefixes_onPath (q : ScqId) (p : List Nat) :
    ∀ x ∈ [] ++ (prefixes p).map (fun pi => (q, pi)), x.1 = q ∧ x.2 <+: p := by
  intro x hx
  rw [List.nil_append] at hx
  obtain ⟨pi, hpi, e⟩ := List.mem_map.mp hx
  subst e
  exact ⟨rfl, (mem_prefixes.mp hpi).1⟩

private theorem offPath_prefixes (q : ScqId) (p : List Nat) :
    offPath ([] ++ (prefixes p).map (fun pi => (q, pi))) q p = [] := by
  apply List.eq_nil_iff_forall_not_mem.mpr
  intro x hx
  rw [mem_offPath] at hx
  exact hx.2 (prefixes_onPath q p x hx.1)

/-- `Side` of a state with the same worker extras and workers -/
private theorem side_mk {ts ts' : TState} (hS : Side ts)
    (hnodes : (∀ sq ∈ ts'.s.scqs, (node? ts'.nodes sq.id []).isSome = true) ∧
      (∀ n ∈ ts'.nodes, ∃ sq ∈ ts'.s.scqs, sq.id = n.scq))
    (hwx : ts'.wx = ts.wx) (hsw : ts'.s.workers = ts.s.workers)
    (hox : ∀ o op', ts'.s.op? o = some op' → alookup o ts'.ox = some ⟨op'.inv, op'.prio⟩)
    (hwq : ∀ k t q w, alookup k ts'.s.tasks = some t → t.worker = some (q, w) → q = t.scq) : Side ts' := by
  have hwf : ∀ q w, ts'.s.worker? q w = ts.s.worker? q w := by
    intro q w; unfold State.worker?; rw [hsw]
  have hxf : ∀ q w, ts'.wx? q w = ts.wx? q w := by
    intro q w; unfold TState.wx?; rw [hwx]
  refine ⟨hnodes.1, hnodes.2, ?_, ?_, ?_, hox, hwq⟩
  · rw [hwx]; exact hS.wxnd
  · intro q w; rw [hwf, hxf]; exact hS.wxw q w
  · intro q w wk x h1 h2
    rw [hwf] at h1; rw [hxf] at h2
    exact hS.wpl q w wk x h1 h2

private theorem side_nodes' {ts : TState} (hS : Side ts) {qs : List ScqId} {ns' : List Node} {scqs' : List Scq}
    (hf : NFrame qs ts.nodes ns') (hsq : scqs' = ts.s.scqs) (hq : ∀ q ∈ qs, ∃ sq ∈ ts.s.scqs, sq.id = q) :
    (∀ sq ∈ scqs', (node? ns' sq.id []).isSome = true) ∧ (∀ n ∈ ns', ∃ sq ∈ scqs', sq.id = n.scq) := by
  subst hsq
  exact side_nodes hS hf hq (fun sq h => h) (fun sq h => Or.inl h)

/-- the queue of an existing invocation is a registered queue -/
private theorem scq_of_node {ts : TState} (hS : Side ts) {q : ScqId} {p : List Nat}
    (h : (node? ts.nodes q p).isSome = true) : ∃ sq ∈ ts.s.scqs, sq.id = q := by
  obtain ⟨m, hm, hmq, _⟩ := node?_isSome_iff.mp h
  obtain ⟨sq, hsq, hid⟩ := hS.nscq m hm
  exact ⟨sq, hsq, by rw [hid, hmq]⟩

private theorem oxok_set {ts : TState} (hS : Side ts) {s' : State} {opn : Nat} {inv : List Nat} {prio : Int}
    (hso : ∀ o op', s'.op? o = some op' → (o = opn ∧ op'.inv = inv ∧ op'.prio = prio) ∨
      (o ≠ opn ∧ ∃ op, ts.s.op? o = some op ∧ op'.inv = op.inv ∧ op'.prio = op.prio)) :
    ∀ o op', s'.op? o = some op' → alookup o (aset opn (⟨inv, prio⟩ : OX) ts.ox) = some ⟨op'.inv, op'.prio⟩ := by
  intro o op' h
  rw [alookup_aset]
  rcases hso o op' h with ⟨e, hi, hp⟩ | ⟨hne, op, e, hi, hp⟩
  · rw [if_pos e.symm, hi, hp]
  · rw [if_neg (fun e => hne e.symm), hS.oxok o op e, hi, hp]

private theorem oxok_drop {ts : TState} (hS : Side ts) {s' : State} {o : Nat}
    (hso : ∀ o' op', s'.op? o' = some op' → o' ≠ o ∧ ∃ op, ts.s.op? o' = some op ∧ op'.inv = op.inv ∧ op'.prio = op.prio) :
    ∀ o' op', s'.op? o' = some op' → alookup o' (aerase o ts.ox) = some ⟨op'.inv, op'.prio⟩ := by
  intro o' op' h
  obtain ⟨hne, op, e, hi, hp⟩ := hso o' op' h
  rw [alookup_aerase_ne o' o ts.ox (fun e => hne e.symm), hS.oxok o' op e, hi, hp]

/-! ### a new task -/

/-- a new task (neither queued nor assigned yet) with one new operation `opn` in invocation `inv`:
`getOrCreateInvocation`, `newOperation` -/
theorem newTask_ts {ex exo} {ts : TState} {t : Task} {opn : Nat} {inv : List Nat} {prio : Int} {y : TX} {s' : State}
    (hT : TInvX ex exo X ts)
    (hfresh : alookup t.id ts.s.tasks = none) (hopf : ∀ k t', alookup k ts.s.tasks = some t' → opn ∉ t'.ops)
    (htw : t.worker = none) (hq : t.queued = false) (hops : t.ops = [opn])
    (hscq : ∃ sq ∈ ts.s.scqs, sq.id = t.scq)
    (hst : s'.tasks = aset t.id t ts.s.tasks) (hsw : s'.workers = ts.s.workers) (hsq : s'.scqs = ts.s.scqs)
    (hnow : s'.now = ts.s.now)
    (hso : ∀ o op', s'.op? o = some op' → (o = opn ∧ op'.inv = inv ∧ op'.prio = prio) ∨
      (o ≠ opn ∧ ∃ op, ts.s.op? o = some op ∧ op'.inv = op.inv ∧ op'.prio = op.prio)) :
    TS (X ++ (prefixes inv).map (fun pi => (t.scq, pi)))
      ((((ts.setOX opn ⟨inv, prio⟩).setTX t.id y).setS s').create t.scq inv) ∧
    (node? ((((ts.setOX opn ⟨inv, prio⟩).setTX t.id y).setS s').create t.scq inv).nodes t.scq inv).isSome = true ∧
    ((((ts.setOX opn ⟨inv, prio⟩).setTX t.id y).setS s').create t.scq inv).invOf opn = inv := by
  have hS := hT.side
  have htnd := hT.inv.core.tnd
  obtain ⟨sq0, hsq0, hsqid⟩ := hscq
  have hroot : (node? ts.nodes t.scq []).isSome = true := by rw [← hsqid]; exact hS.roots sq0 hsq0
  let ox' := aset opn (⟨inv, prio⟩ : OX) ts.ox
  let ts' : TState := (((ts.setOX opn ⟨inv, prio⟩).setTX t.id y).setS s').create t.scq inv
  have hnodes : ts'.nodes = getOrCreate ts.nodes t.scq inv s'.now := rfl
  have hoxo : ∀ k t', alookup k ts.s.tasks = some t' → ∀ o ∈ t'.ops, alookup o ox' = alookup o ts.ox := by
    intro k t' h o ho
    show alookup o (aset opn _ ts.ox) = _
    rw [alookup_aset, if_neg]
    intro e; subst e; exact hopf k t' h ho
  have hE' : bagE ts' = bagE ts := by
    have := bagE_newTask ts s' t ox' hfresh hst
      (fun ⟨k, t'⟩ hkt => conE_oxc (hoxo k t' (alookup_of_mem htnd hkt))) ts' rfl rfl
    rw [this, conE_unassigned _ t htw, List.append_nil]
  have hQ' : bagQ ts' = bagQ ts := by
    have := bagQ_newTask ts s' t ox' hfresh hst
      (fun ⟨k, t'⟩ hkt => conQ_oxc (hoxo k t' (alookup_of_mem htnd hkt))) ts' rfl rfl
    rw [this, conQ_unqueued _ t hq, List.append_nil]
  refine ⟨⟨?_, ?_⟩, ?_, ?_⟩
  · show TreeOK _ ts'.nodes (bagE ts') (bagI ts) (bagQ ts') (bagP ts)
    rw [hE', hQ', hnodes]
    exact getOrCreate_ok hT.tree t.scq inv s'.now hroot
  · refine side_mk hS (ts' := ts') ?_ rfl hsw (oxok_set hS hso) ?_
    · exact side_nodes' hS (getOrCreate_nframe ts.nodes t.scq inv s'.now) hsq
        (by intro q hq; rw [List.mem_singleton] at hq; subst hq; exact ⟨sq0, hsq0, hsqid⟩)
    · intro k t'' q w h1 h2
      change alookup k s'.tasks = some t'' at h1
      rw [hst, alookup_aset] at h1
      by_cases hkk : t.id = k
      · simp only [hkk, if_true, Option.some.injEq] at h1
        subst h1; rw [htw] at h2; cases h2
      · simp only [hkk, if_false] at h1
        exact hS.wq k t'' q w h1 h2
  · show (node? (getOrCreate ts.nodes t.scq inv s'.now) t.scq inv).isSome = true
    exact getOrCreate_exists ts.nodes t.scq inv s'.now hroot inv (List.prefix_refl _)
  · show (match alookup opn (aset opn (⟨inv, prio⟩ : OX) ts.ox) with | some x => x.inv | none => []) = inv
    rw [alookup_aset, if_pos rfl]

/-! ### in-flight deduplication: one more operation for a live task -/

/-- in-flight deduplication against an EXECUTING task: a new operation `opn` in invocation `inv`
(`getOrCreateInvocation`, `newOperation`, `incrementExecutingWorkersCount`) -/
theorem addOpExec_ts {ex exo} {ts : TState} {t : Task} {q0 : ScqId} {w : WId} {opn : Nat} {inv : List Nat} {prio : Int} {s' : State}
    (hT : TInvX ex exo [] ts) (ht : alookup t.id ts.s.tasks = some t) (hw : t.worker = some (q0, w))
    (hopf : ∀ k t', alookup k ts.s.tasks = some t' → opn ∉ t'.ops)
    (hst : s'.tasks = aset t.id { t with ops := t.ops ++ [opn] } ts.s.tasks) (hsw : s'.workers = ts.s.workers)
    (hsq : s'.scqs = ts.s.scqs)
    (hso : ∀ o op', s'.op? o = some op' → (o = opn ∧ op'.inv = inv ∧ op'.prio = prio) ∨
      (o ≠ opn ∧ ∃ op, ts.s.op? o = some op ∧ op'.inv = op.inv ∧ op'.prio = op.prio)) :
    TS [] (({ ((ts.create t.scq inv).setOX opn ⟨inv, prio⟩) with
              nodes := incExecR ts.legacyPrio ((ts.create t.scq inv).setOX opn ⟨inv, prio⟩).prioOf ((ts.create t.scq inv).setOX opn ⟨inv, prio⟩).nodes t.scq inv (some w) ts.s.now } : TState).setS s') := by
  have hS := hT.side
  have htnd := hT.inv.core.tnd
  have hqf : t.queued = false := by
    cases hq : t.queued with
    | false => rfl
    | true => have := (hT.inv.core.q1 t.id t ht hq).1; rw [hw] at this; cases this
  obtain ⟨o0, ho0⟩ := List.exists_mem_of_ne_nil _ (hT.inv.oinv.o3 t.id t ht).2
  have hroot : (node? ts.nodes t.scq []).isSome = true :=
    hT.tree.prefix_exists _ (hT.tree.rfE _ (mem_bagE ht hw ho0)) [] List.nil_prefix
  let ox' := aset opn (⟨inv, prio⟩ : OX) ts.ox
  let t1 : Task := { t with ops := t.ops ++ [opn] }
  let ns1 := getOrCreate ts.nodes t.scq inv ts.s.now
  let ts' : TState := ({ ((ts.create t.scq inv).setOX opn ⟨inv, prio⟩) with
      nodes := incExecR ts.legacyPrio ((ts.create t.scq inv).setOX opn ⟨inv, prio⟩).prioOf ((ts.create t.scq inv).setOX opn ⟨inv, prio⟩).nodes t.scq inv (some w) ts.s.now } : TState).setS s'
  show TS [] ts'
  have hoxo : ∀ k t', alookup k ts.s.tasks = some t' → ∀ o ∈ t'.ops, alookup o ox' = alookup o ts.ox := by
    intro k t' h o ho
    show alookup o (aset opn _ ts.ox) = _
    rw [alookup_aset, if_neg]
    intro e; subst e; exact hopf k t' h ho
  have e1 : conE ox' t1 = conE ts.ox t ++ [(t.scq, inv, some w)] := by
    rw [conE_some ox' t1 hw, conE_some ts.ox t hw]
    show (t.ops ++ [opn]).map _ = _
    rw [List.map_append]
    congr 1
    · apply List.map_congr_left
      intro o ho; rw [hoxo t.id t ht o ho]
    · show [(t.scq, (match alookup opn (aset opn (⟨inv, prio⟩ : OX) ts.ox) with | some y => y.inv | none => []), some w)] = _
      rw [alookup_aset, if_pos rfl]
  have hE' : ((t.scq, inv, some w) :: bagE ts).Perm (bagE ts') := by
    have := bagE_setTask ts s' t t1 ox' ht hst
      (fun ⟨k, t'⟩ hkt => conE_oxc (hoxo k t' (alookup_of_mem htnd hkt))) ts' rfl rfl
    rw [e1] at this
    exact perm_add this
  have hQ' : (bagQ ts).Perm (bagQ ts') := by
    have := bagQ_setTask ts s' t t1 ox' ht hst
      (fun ⟨k, t'⟩ hkt => conQ_oxc (hoxo k t' (alookup_of_mem htnd hkt))) ts' rfl rfl
    rw [conQ_unqueued _ t hqf, conQ_unqueued _ t1 hqf, List.append_nil, List.append_nil] at this
    exact this
  refine ⟨?_, ?_⟩
  · show TreeOK [] (incExecR ts.legacyPrio _ ns1 t.scq inv (some w) ts.s.now) (bagE ts') (bagI ts) (bagQ ts') (bagP ts)
    have h1 := getOrCreate_ok hT.tree t.scq inv ts.s.now hroot
    have hn1 : (node? ns1 t.scq inv).isSome = true :=
      getOrCreate_exists ts.nodes t.scq inv ts.s.now hroot inv (List.prefix_refl _)
    have h2 := incExecR_ok h1 ts.legacyPrio ((ts.create t.scq inv).setOX opn ⟨inv, prio⟩).prioOf t.scq inv (some w) ts.s.now hn1
    rw [offPath_prefixes] at h2
    exact h2.congr hE' (List.Perm.refl _) (fun c => hQ'.mem_iff) (fun c => Iff.rfl)
  · refine side_mk hS (ts' := ts') ?_ rfl hsw (oxok_set hS hso) ?_
    · exact side_nodes' hS ((getOrCreate_nframe ts.nodes t.scq inv ts.s.now).trans
          (incExecR_nframe ts.legacyPrio _ ns1 t.scq inv (some w) ts.s.now)) hsq
        (by intro q hq; simp only [List.append_nil, List.mem_singleton] at hq; subst hq; exact scq_of_node hS hroot)
    · intro k t'' q w' h1 h2
      change alookup k s'.tasks = some t'' at h1
      rw [hst, alookup_aset] at h1
      by_cases hkk : t.id = k
      · simp only [hkk, if_true, Option.some.injEq] at h1
        subst h1
        exact hS.wq t.id t q w' ht h2
      · simp only [hkk, if_false] at h1
        exact hS.wq k t'' q w' h1 h2

/-- … against a QUEUED task (`o.enqueue()`) -/
theorem addOpQueued_ts {ex exo} {ts : TState} {t : Task} {opn : Nat} {inv : List Nat} {prio : Int} {s' : State}
    (hT : TInvX ex exo [] ts) (ht : alookup t.id ts.s.tasks = some t) (hw : t.worker = none) (hq : t.queued = true)
    (hopf : ∀ k t', alookup k ts.s.tasks = some t' → opn ∉ t'.ops)
    (hst : s'.tasks = aset t.id { t with ops := t.ops ++ [opn] } ts.s.tasks) (hsw : s'.workers = ts.s.workers)
    (hsq : s'.scqs = ts.s.scqs)
    (hso : ∀ o op', s'.op? o = some op' → (o = opn ∧ op'.inv = inv ∧ op'.prio = prio) ∨
      (o ≠ opn ∧ ∃ op, ts.s.op? o = some op ∧ op'.inv = op.inv ∧ op'.prio = op.prio)) :
    TS [] (({ ((ts.create t.scq inv).setOX opn ⟨inv, prio⟩) with
              nodes := enqueueOp ((ts.create t.scq inv).setOX opn ⟨inv, prio⟩).prioOf
                ((ts.create t.scq inv).setOX opn ⟨inv, prio⟩).nodes t.scq inv opn } : TState).setS s') := by
  have hS := hT.side
  have htnd := hT.inv.core.tnd
  obtain ⟨o0, ho0⟩ := List.exists_mem_of_ne_nil _ (hT.inv.oinv.o3 t.id t ht).2
  have hroot : (node? ts.nodes t.scq []).isSome = true :=
    hT.tree.prefix_exists _ (hT.tree.rfQ _ (mem_bagQ ht hq ho0)) [] List.nil_prefix
  let ox' := aset opn (⟨inv, prio⟩ : OX) ts.ox
  let t1 : Task := { t with ops := t.ops ++ [opn] }
  let ns1 := getOrCreate ts.nodes t.scq inv ts.s.now
  let ts1 : TState := (ts.create t.scq inv).setOX opn ⟨inv, prio⟩
  let ts' : TState := ({ ts1 with nodes := enqueueOp ts1.prioOf ts1.nodes t.scq inv opn } : TState).setS s'
  show TS [] ts'
  have hoxo : ∀ k t', alookup k ts.s.tasks = some t' → ∀ o ∈ t'.ops, alookup o ox' = alookup o ts.ox := by
    intro k t' h o ho
    show alookup o (aset opn _ ts.ox) = _
    rw [alookup_aset, if_neg]
    intro e; subst e; exact hopf k t' h ho
  have e1 : conQ ox' t1 = conQ ts.ox t ++ [(t.scq, inv, opn)] := by
    rw [conQ_some ox' t1 hq, conQ_some ts.ox t hq]
    show (t.ops ++ [opn]).map _ = _
    rw [List.map_append]
    congr 1
    · apply List.map_congr_left
      intro o ho; rw [hoxo t.id t ht o ho]
    · show [(t.scq, (match alookup opn (aset opn (⟨inv, prio⟩ : OX) ts.ox) with | some y => y.inv | none => []), opn)] = _
      rw [alookup_aset, if_pos rfl]
  have hQ' : ((t.scq, inv, opn) :: bagQ ts).Perm (bagQ ts') := by
    have := bagQ_setTask ts s' t t1 ox' ht hst
      (fun ⟨k, t'⟩ hkt => conQ_oxc (hoxo k t' (alookup_of_mem htnd hkt))) ts' rfl rfl
    rw [e1] at this
    exact perm_add this
  have hE' : (bagE ts).Perm (bagE ts') := by
    have := bagE_setTask ts s' t t1 ox' ht hst
      (fun ⟨k, t'⟩ hkt => conE_oxc (hoxo k t' (alookup_of_mem htnd hkt))) ts' rfl rfl
    rw [conE_unassigned _ t hw, conE_unassigned _ t1 hw, List.append_nil, List.append_nil] at this
    exact this
  have hno : (t.scq, inv, opn) ∉ bagQ ts := by
    intro hm
    rw [bagQ_def] at hm
    obtain ⟨⟨k, t'⟩, hkt, hc⟩ := List.mem_flatMap.mp hm
    have hl : alookup k ts.s.tasks = some t' := alookup_of_mem htnd hkt
    simp only [] at hc
    unfold conQ at hc
    split at hc
    · obtain ⟨o', ho', he⟩ := List.mem_map.mp hc
      simp only [Prod.mk.injEq] at he
      have : o' = opn := he.2.2
      subst this
      exact hopf k t' hl ho'
    · cases hc
  refine ⟨?_, ?_⟩
  · show TreeOK [] (enqueueOp ts1.prioOf ns1 t.scq inv opn) (bagE ts') (bagI ts) (bagQ ts') (bagP ts)
    have h1 := getOrCreate_ok hT.tree t.scq inv ts.s.now hroot
    have hn1 : (node? ns1 t.scq inv).isSome = true :=
      getOrCreate_exists ts.nodes t.scq inv ts.s.now hroot inv (List.prefix_refl _)
    have h2 := enqueueOp_ok h1 ts1.prioOf t.scq inv opn hn1 hno
    rw [offPath_prefixes] at h2
    exact h2.congr hE' (List.Perm.refl _) (fun c => hQ'.mem_iff) (fun c => Iff.rfl)
  · refine side_mk hS (ts' := ts') ?_ rfl hsw (oxok_set hS hso) ?_
    · exact side_nodes' hS ((getOrCreate_nframe ts.nodes t.scq inv ts.s.now).trans
          (enqueueOp_nframe ts1.prioOf ns1 t.scq inv opn)) hsq
        (by intro q hq; simp only [List.append_nil, List.mem_singleton] at hq; subst hq; exact scq_of_node hS hroot)
    · intro k t'' q w' h1 h2
      change alookup k s'.tasks = some t'' at h1
      rw [hst, alookup_aset] at h1
      by_cases hkk : t.id = k
      · simp only [hkk, if_true, Option.some.injEq] at h1
        subst h1
        exact hS.wq t.id t q w' ht h2
      · simp only [hkk, if_false] at h1
        exact hS.wq k t'' q w' h1 h2

/-! ### `operation.remove` -/

private theorem removeOpTree_wx (ts : TState) (t : Task) (o : Nat) : (ts.removeOpTree t o).wx = ts.wx := by
  unfold TState.removeOpTree; split <;> rfl
private theorem removeOpTree_ox (ts : TState) (t : Task) (o : Nat) : (ts.removeOpTree t o).ox = ts.ox := by
  unfold TState.removeOpTree; split <;> rfl

private theorem removeOpTree_nodes_done (ts : TState) (t : Task) (o : Nat) {r : Resp} (hr : t.response = some r) :
    (ts.removeOpTree t o).nodes = ts.nodes := by
  unfold TState.removeOpTree; rw [hr]

private theorem removeOpTree_nodes_exec (ts : TState) (t : Task) (o : Nat) {q0 : ScqId} {w : WId}
    (hr : t.response = none) (hw : t.worker = some (q0, w)) :
    (ts.removeOpTree t o).nodes = decExecR ts.legacyPrio ts.prioOf ts.nodes t.scq (ts.invOf o) (some w) ts.s.now := by
  unfold TState.removeOpTree; rw [hr, hw]

private theorem removeOpTree_nodes_queued (ts : TState) (t : Task) (o : Nat)
    (hr : t.response = none) (hw : t.worker = none) :
    (ts.removeOpTree t o).nodes =
      pruneChain (removeQueuedOp ts.prioOf ts.nodes t.scq (ts.invOf o) o) t.scq (ups (ts.invOf o)) := by
  unfold TState.removeOpTree; rw [hr, hw]

/-- `operation.remove` of an operation `o` of a task that keeps other operations: the operation leaves its
invocation (`removeOpTree`), `task.operations` (`dropOX`) and the task's list.  `hlive`: a task that is
neither completed nor assigned is queued (`Core.q2` without the exemption). -/
theorem removeOp_ts {ex exo} {ts : TState} {t : Task} {o : Nat} {s' : State}
    (hT : TInvX ex exo [] ts) (ht : alookup t.id ts.s.tasks = some t) (hmem : o ∈ t.ops) (hnd : t.ops.Nodup)
    (hown : ∀ k t', alookup k ts.s.tasks = some t' → o ∈ t'.ops → k = t.id) (hQnd : (bagQ ts).Nodup)
    (hlive : t.response = none → t.worker = none → t.queued = true)
    (hst : s'.tasks = aset t.id { t with ops := t.ops.filter (· ≠ o) } ts.s.tasks) (hsw : s'.workers = ts.s.workers)
    (hsq : s'.scqs = ts.s.scqs) (hnow : s'.now = ts.s.now)
    (hso : ∀ o' op', s'.op? o' = some op' → o' ≠ o ∧ ∃ op, ts.s.op? o' = some op ∧ op'.inv = op.inv ∧ op'.prio = op.prio) :
    TS [] (((ts.removeOpTree t o).dropOX o).setS s') := by
  have hS := hT.side
  have htnd := hT.inv.core.tnd
  let ox' := aerase o ts.ox
  let t1 : Task := { t with ops := t.ops.filter (· ≠ o) }
  let ts' : TState := ((ts.removeOpTree t o).dropOX o).setS s'
  show TS [] ts'
  have hox' : ts'.ox = ox' := by
    show aerase o (ts.removeOpTree t o).ox = _
    rw [removeOpTree_ox]
  have hwx' : ts'.wx = ts.wx := removeOpTree_wx ts t o
  have hnodes' : ts'.nodes = (ts.removeOpTree t o).nodes := rfl
  -- the operation table is only changed at `o`, which no task lists any more
  have hoxo : ∀ kt ∈ aset t.id t1 ts.s.tasks, ∀ o' ∈ kt.2.ops, alookup o' ox' = alookup o' ts.ox := by
    intro kt hkt o' ho'
    apply alookup_aerase_ne
    intro e; subst e
    rcases mem_aset_cases htnd hkt with e | ⟨hne, hl⟩
    · subst e
      have := (List.mem_filter.mp ho').2
      simp at this
    · exact hne (hown kt.1 kt.2 hl ho')
  have hbE : bagE ts' = (aset t.id t1 ts.s.tasks).flatMap (fun kt => conE ox' kt.2) := by
    rw [bagE_def, hox']
    show s'.tasks.flatMap _ = _
    rw [hst]
  have hbQ : bagQ ts' = (aset t.id t1 ts.s.tasks).flatMap (fun kt => conQ ox' kt.2) := by
    rw [bagQ_def, hox']
    show s'.tasks.flatMap _ = _
    rw [hst]
  have hbI : bagI ts' = bagI ts := by rw [bagI_def, hwx', ← bagI_def]
  have hbP : bagP ts' = bagP ts := by rw [bagP_def, hwx', ← bagP_def]
  have hpE : (bagE ts ++ conE ts.ox t1).Perm (bagE ts' ++ conE ts.ox t) := by
    rw [hbE, bagE_def]
    exact flatMap_setTask (conE ts.ox) (conE ox') ts.s.tasks t.id t t1 ht (fun kt hkt => conE_oxc (hoxo kt hkt))
  have hpQ : (bagQ ts ++ conQ ts.ox t1).Perm (bagQ ts' ++ conQ ts.ox t) := by
    rw [hbQ, bagQ_def]
    exact flatMap_setTask (conQ ts.ox) (conQ ox') ts.s.tasks t.id t t1 ht (fun kt hkt => conQ_oxc (hoxo kt hkt))
  have hops : t.ops.Perm (o :: t1.ops) := perm_filter_ne hnd hmem
  refine ⟨?_, ?_⟩
  · show TreeOK [] ts'.nodes (bagE ts') (bagI ts') (bagQ ts') (bagP ts')
    rw [hbI, hbP, hnodes']
    cases hr : t.response with
    | some r =>
      -- completed: the task contributes nothing
      have hwn : t.worker = none := by
        cases hw : t.worker with
        | none => rfl
        | some qw =>
          have := hT.inv.core.p3 t.id t ht (by rw [hw]; rfl)
          rw [hr] at this; cases this
      have hqf : t.queued = false := by
        cases hq : t.queued with
        | false => rfl
        | true => have := (hT.inv.core.q1 t.id t ht hq).2; rw [hr] at this; cases this
      rw [conE_unassigned _ t hwn, conE_unassigned _ t1 hwn, List.append_nil, List.append_nil] at hpE
      rw [conQ_unqueued _ t hqf, conQ_unqueued _ t1 hqf, List.append_nil, List.append_nil] at hpQ
      rw [removeOpTree_nodes_done ts t o hr]
      exact hT.tree.congr hpE (List.Perm.refl _) (fun c => hpQ.mem_iff) (fun c => Iff.rfl)
    | none =>
      cases hw : t.worker with
      | some qw =>
        -- executing
        obtain ⟨q0, w⟩ := qw
        have hqf : t.queued = false := by
          cases hq : t.queued with
          | false => rfl
          | true => have := (hT.inv.core.q1 t.id t ht hq).1; rw [hw] at this; cases this
        rw [conQ_unqueued _ t hqf, conQ_unqueued _ t1 hqf, List.append_nil, List.append_nil] at hpQ
        rw [conE_some ts.ox t hw, conE_some ts.ox t1 hw] at hpE
        have hE' : ((bagE ts).erase (t.scq, ts.invOf o, some w)).Perm (bagE ts') :=
          perm_remove hpE (hops.map _)
        rw [removeOpTree_nodes_exec ts t o hr hw]
        have h := decExecR_ok hT.tree ts.legacyPrio ts.prioOf t.scq (ts.invOf o) (some w) ts.s.now (mem_bagE ht hw hmem)
          (fun x hx => nomatch hx)
        exact h.congr hE' (List.Perm.refl _) (fun c => hpQ.mem_iff) (fun c => Iff.rfl)
      | none =>
        -- queued
        have hqt : t.queued = true := hlive hr hw
        rw [conE_unassigned _ t hw, conE_unassigned _ t1 hw, List.append_nil, List.append_nil] at hpE
        rw [conQ_some ts.ox t hqt, conQ_some ts.ox t1 hqt] at hpQ
        have hQ' : ((bagQ ts).erase (t.scq, ts.invOf o, o)).Perm (bagQ ts') :=
          perm_remove hpQ (hops.map _)
        rw [removeOpTree_nodes_queued ts t o hr hw]
        have hc := mem_bagQ ht hqt hmem
        have h1 := removeQueuedOp_ok hT.tree ts.prioOf t.scq (ts.invOf o) o hc
          (fun hm => ((List.Nodup.mem_erase_iff hQnd).mp hm).1 rfl)
        have hn1 : (node? (removeQueuedOp ts.prioOf ts.nodes t.scq (ts.invOf o) o) t.scq (ts.invOf o)).isSome = true := by
          rw [removeQueuedOp_isSome]; exact hT.tree.rfQ _ hc
        have h2 := pruneChain_ok h1 t.scq (ts.invOf o) hn1 (prefixes_onPath t.scq (ts.invOf o))
        exact h2.congr hpE (List.Perm.refl _) (fun c => hQ'.mem_iff) (fun c => Iff.rfl)
  · refine side_mk hS (ts' := ts') ?_ hwx' hsw ?_ ?_
    · exact side_nodes' hS (removeOpTree_nframe ts t o) hsq (fun q hq => nomatch hq)
    · rw [hox']; exact oxok_drop hS hso
    · intro k t'' q w' h1 h2
      change alookup k s'.tasks = some t'' at h1
      rw [hst, alookup_aset] at h1
      by_cases hkk : t.id = k
      · simp only [hkk, if_true, Option.some.injEq] at h1
        subst h1
        exact hS.wq t.id t q w' ht h2
      · simp only [hkk, if_false] at h1
        exact hS.wq k t'' q w' h1 h2

/-! ### dropping a completed task / one of its operations -/

/-- the last operation of a task that is neither queued nor assigned (it was completed) is dropped together
with the task -/
theorem dropTask_ts {ex exo} {ts : TState} {t : Task} {o : Nat} {s' : State}
    (hT : TInvX ex exo X ts) (ht : alookup t.id ts.s.tasks = some t) (htw : t.worker = none) (hq : t.queued = false)
    (hown : ∀ k t', alookup k ts.s.tasks = some t' → o ∈ t'.ops → k = t.id)
    (hst : s'.tasks = aerase t.id ts.s.tasks) (hsw : s'.workers = ts.s.workers) (hsq : s'.scqs = ts.s.scqs)
    (hso : ∀ o' op', s'.op? o' = some op' → o' ≠ o ∧ ∃ op, ts.s.op? o' = some op ∧ op'.inv = op.inv ∧ op'.prio = op.prio) :
    TS X (((ts.dropOX o).dropTX t.id).setS s') := by
  have hS := hT.side
  have htnd := hT.inv.core.tnd
  let ox' := aerase o ts.ox
  let ts' : TState := ((ts.dropOX o).dropTX t.id).setS s'
  show TS X ts'
  have hoxo : ∀ kt ∈ aerase t.id ts.s.tasks, ∀ o' ∈ kt.2.ops, alookup o' ox' = alookup o' ts.ox := by
    intro kt hkt o' ho'
    apply alookup_aerase_ne
    intro e; subst e
    obtain ⟨hne, hl⟩ := mem_aerase_cases htnd hkt
    exact hne (hown kt.1 kt.2 hl ho')
  have hE' : (bagE ts).Perm (bagE ts') := by
    have := flatMap_aerase_some (fun kt : Nat × Task => conE ts.ox kt.2) t.id ts.s.tasks t ht
    simp only [] at this
    rw [conE_unassigned _ t htw, List.nil_append] at this
    rw [bagE_def, bagE_def]
    show List.Perm _ (s'.tasks.flatMap (fun kt => conE ox' kt.2))
    rw [hst, flatMap_congr' (fun kt hkt => conE_oxc (hoxo kt hkt))]
    exact this
  have hQ' : (bagQ ts).Perm (bagQ ts') := by
    have := flatMap_aerase_some (fun kt : Nat × Task => conQ ts.ox kt.2) t.id ts.s.tasks t ht
    simp only [] at this
    rw [conQ_unqueued _ t hq, List.nil_append] at this
    rw [bagQ_def, bagQ_def]
    show List.Perm _ (s'.tasks.flatMap (fun kt => conQ ox' kt.2))
    rw [hst, flatMap_congr' (fun kt hkt => conQ_oxc (hoxo kt hkt))]
    exact this
  refine ⟨?_, ?_⟩
  · show TreeOK X ts.nodes (bagE ts') (bagI ts) (bagQ ts') (bagP ts)
    exact hT.tree.congr hE' (List.Perm.refl _) (fun c => hQ'.mem_iff) (fun c => Iff.rfl)
  · refine side_mk hS (ts' := ts') ?_ rfl hsw (oxok_drop hS hso) ?_
    · exact side_nodes' hS (NFrame.refl ts.nodes) hsq (fun q hq => nomatch hq)
    · intro k t'' q w' h1 h2
      change alookup k s'.tasks = some t'' at h1
      rw [hst, alookup_aerase _ _ _ htnd] at h1
      by_cases hkk : t.id = k
      · simp [hkk] at h1
      · simp only [hkk, if_false] at h1
        exact hS.wq k t'' q w' h1 h2

/-- an operation of a task that is neither queued nor assigned is dropped, the task record is replaced by
one that is again neither queued nor assigned -/
theorem dropOpDone_ts {ex exo} {ts : TState} {t t' : Task} {o : Nat} {s' : State}
    (hT : TInvX ex exo X ts) (ht : alookup t.id ts.s.tasks = some t) (htw : t.worker = none) (hq : t.queued = false)
    (hk : t'.id = t.id ∧ t'.worker = none ∧ t'.queued = false)
    (hown : ∀ k t', alookup k ts.s.tasks = some t' → o ∈ t'.ops → k = t.id)
    (hst : s'.tasks = aset t.id t' ts.s.tasks) (hsw : s'.workers = ts.s.workers) (hsq : s'.scqs = ts.s.scqs)
    (hso : ∀ o' op', s'.op? o' = some op' → o' ≠ o ∧ ∃ op, ts.s.op? o' = some op ∧ op'.inv = op.inv ∧ op'.prio = op.prio) :
    TS X ((ts.dropOX o).setS s') := by
  have hS := hT.side
  have htnd := hT.inv.core.tnd
  let ox' := aerase o ts.ox
  let ts' : TState := (ts.dropOX o).setS s'
  show TS X ts'
  have hoxo : ∀ kt ∈ aset t.id t' ts.s.tasks, kt ≠ (t.id, t') → ∀ o' ∈ kt.2.ops, alookup o' ox' = alookup o' ts.ox := by
    intro kt hkt hne' o' ho'
    apply alookup_aerase_ne
    intro e; subst e
    rcases mem_aset_cases htnd hkt with e | ⟨hne, hl⟩
    · exact hne' e
    · exact hne (hown kt.1 kt.2 hl ho')
  have hE' : (bagE ts).Perm (bagE ts') := by
    have := flatMap_setTask (conE ts.ox) (conE ox') ts.s.tasks t.id t t' ht (by
      intro kt hkt
      by_cases e : kt = (t.id, t')
      · subst e; rw [conE_unassigned _ t' hk.2.1, conE_unassigned _ t' hk.2.1]
      · exact conE_oxc (hoxo kt hkt e))
    rw [conE_unassigned _ t htw, conE_unassigned _ t' hk.2.1, List.append_nil, List.append_nil] at this
    rw [bagE_def, bagE_def]
    show List.Perm _ (s'.tasks.flatMap (fun kt => conE ox' kt.2))
    rw [hst]; exact this
  have hQ' : (bagQ ts).Perm (bagQ ts') := by
    have := flatMap_setTask (conQ ts.ox) (conQ ox') ts.s.tasks t.id t t' ht (by
      intro kt hkt
      by_cases e : kt = (t.id, t')
      · subst e; rw [conQ_unqueued _ t' hk.2.2, conQ_unqueued _ t' hk.2.2]
      · exact conQ_oxc (hoxo kt hkt e))
    rw [conQ_unqueued _ t hq, conQ_unqueued _ t' hk.2.2, List.append_nil, List.append_nil] at this
    rw [bagQ_def, bagQ_def]
    show List.Perm _ (s'.tasks.flatMap (fun kt => conQ ox' kt.2))
    rw [hst]; exact this
  refine ⟨?_, ?_⟩
  · show TreeOK X ts.nodes (bagE ts') (bagI ts) (bagQ ts') (bagP ts)
    exact hT.tree.congr hE' (List.Perm.refl _) (fun c => hQ'.mem_iff) (fun c => Iff.rfl)
  · refine side_mk hS (ts' := ts') ?_ rfl hsw (oxok_drop hS hso) ?_
    · exact side_nodes' hS (NFrame.refl ts.nodes) hsq (fun q hq => nomatch hq)
    · intro k t'' q w' h1 h2
      change alookup k s'.tasks = some t'' at h1
      rw [hst, alookup_aset] at h1
      by_cases hkk : t.id = k
      · simp only [hkk, if_true, Option.some.injEq] at h1
        subst h1
        rw [hk.2.1] at h2; cases h2
      · simp only [hkk, if_false] at h1
        exact hS.wq k t'' q w' h1 h2

end BbRe.Lemmas.SchedTree
