import BbRe.Lemmas.SchedInvStep
/-!
`ParkedOK`: while a worker is parked in a size-class queue no task of that queue is queued,
and every parked worker is undrained and not terminating (requested by the SchedTree
refinement layer, C04 `no_queued_while_parked`).  Proved by a second pass over the helpers of
`Model/Sched.lean`; `Inv` at intermediate states comes from the existing specifications.
-/
namespace BbRe.Lemmas.SchedInv
open BbRe.Sched

/-! ## partial-correctness triples (errors ignored) -/

def wpk {α} (x : M α) (Q : α → Prop) : Prop := ∀ a, x = .ok a → Q a

theorem wpk_ok {α} {a : α} {Q : α → Prop} (h : Q a) : wpk (Except.ok a : M α) Q := by
  intro b hb; cases hb; exact h
theorem wpk_pure {α} {a : α} {Q : α → Prop} (h : Q a) : wpk (pure a : M α) Q := wpk_ok h
theorem wpk_error {α} {e : String} {Q : α → Prop} : wpk (Except.error e : M α) Q := by
  intro b hb; cases hb
theorem wpk_throw {α} {e : String} {Q : α → Prop} : wpk (throw e : M α) Q := wpk_error
theorem wpk_throw_bind {α β} {e : String} {f : α → M β} {Q : β → Prop} : wpk ((throw e : M α) >>= f) Q :=
  wpk_error
theorem wpk_bind {α β} {x : M α} {f : α → M β} {Q : β → Prop} (h : wpk x (fun a => wpk (f a) Q)) :
    wpk (x >>= f) Q := by
  intro b hb
  cases x with
  | error e => cases hb
  | ok a => exact h a rfl b hb
theorem wpk_mono {α} {x : M α} {Q Q' : α → Prop} (h : wpk x Q) (hq : ∀ a, Q a → Q' a) : wpk x Q' :=
  fun a ha => hq a (h a ha)
theorem wpk_of_wp {α} {x : M α} {Q : α → Prop} (h : wp x Q) : wpk x Q := fun _ ha => wp_of_ok h ha
theorem wpk_and {α} {x : M α} {Q Q' : α → Prop} (h : wpk x Q) (h' : wpk x Q') : wpk x (fun a => Q a ∧ Q' a) :=
  fun a ha => ⟨h a ha, h' a ha⟩

/-- close an error leaf -/
macro "pkerr" : tactic => `(tactic| first | exact wpk_error | exact wpk_throw | exact wpk_throw_bind)

/-! ## the strengthened predicate -/

structure PInv (s : State) : Prop where
  pq : ∀ wk, wk ∈ s.workers → wk.parked = true → ∀ k t, alookup k s.tasks = some t → t.queued = true →
        t.scq ≠ wk.scq
  pt : ∀ wk, wk ∈ s.workers → wk.parked = true → wk.terminating = false
  pd : ∀ wk, wk ∈ s.workers → wk.parked = true → ∀ sq, s.scq? wk.scq = some sq →
        sq.drains.any (fun p => p.matches wk.id) = false

/-- the statement requested by SchedTree -/
def ParkedOK (s : State) : Prop :=
  ∀ wk ∈ s.workers, wk.parked = true →
    queuedTasks s wk.scq = [] ∧ wk.terminating = false ∧
    (∀ sq, s.scq? wk.scq = some sq → isDrained sq wk = false)

theorem PInv.parkedOK {s : State} (hI : Inv s) (hP : PInv s) : ParkedOK s := by
  intro wk hwk hp
  refine ⟨?_, hP.pt wk hwk hp, ?_⟩
  · unfold queuedTasks
    rw [List.map_eq_nil_iff, List.filter_eq_nil_iff]
    intro ⟨k, t⟩ hm hc
    simp only [decide_eq_true_eq] at hc
    exact hP.pq wk hwk hp k t (alookup_of_mem hI.core.tnd hm) hc.2.1 hc.1
  · intro sq hsq
    unfold isDrained
    rw [hP.pt wk hwk hp, hP.pd wk hwk hp sq hsq]; rfl

/-- frame: parked workers of `s'` are unchanged records of `s`, queued tasks of `s'` were
queued in the same queue in `s`, and size-class queues are unchanged or have no drains -/
structure PF (s s' : State) : Prop where
  a : ∀ wk, wk ∈ s'.workers → wk.parked = true → wk ∈ s.workers
  b : ∀ k t', alookup k s'.tasks = some t' → t'.queued = true →
        ∃ t, alookup k s.tasks = some t ∧ t.queued = true ∧ t.scq = t'.scq
  c : ∀ q sq', s'.scq? q = some sq' → s.scq? q = some sq' ∨ sq'.drains = []

theorem PF.refl (s : State) : PF s s :=
  ⟨fun _ h _ => h, fun k t h hq => ⟨t, h, hq, rfl⟩, fun _ _ h => Or.inl h⟩

theorem PF.trans {x y z : State} (h1 : PF x y) (h2 : PF y z) : PF x z := by
  refine ⟨fun wk h hp => h1.a wk (h2.a wk h hp) hp, ?_, ?_⟩
  · intro k t' h hq
    obtain ⟨t, a, b, c⟩ := h2.b k t' h hq
    obtain ⟨t0, a0, b0, c0⟩ := h1.b k t a b
    exact ⟨t0, a0, b0, c0.trans c⟩
  · intro q sq' h
    rcases h2.c q sq' h with h | h
    · exact h1.c q sq' h
    · exact Or.inr h

theorem PF.pinv {s s' : State} (h : PF s s') (hP : PInv s) : PInv s' := by
  refine ⟨?_, fun wk hw hp => hP.pt wk (h.a wk hw hp) hp, ?_⟩
  · intro wk hw hp k t' ht hq
    obtain ⟨t, a, b, c⟩ := h.b k t' ht hq
    rw [← c]; exact hP.pq wk (h.a wk hw hp) hp k t a b
  · intro wk hw hp sq hsq
    rcases h.c _ sq hsq with h1 | h1
    · exact hP.pd wk (h.a wk hw hp) hp sq h1
    · rw [h1]; rfl

/-- frame for updates that touch neither workers, nor `queued`/`scq` of tasks, nor the queues -/
theorem PF.of_same {s s' : State} (h1 : s'.workers = s.workers) (h2 : s'.tasks = s.tasks)
    (h3 : s'.scqs = s.scqs) : PF s s' := by
  refine ⟨fun wk h _ => h1 ▸ h, fun k t h hq => ⟨t, h2 ▸ h, hq, rfl⟩, fun q sq h => Or.inl ?_⟩
  unfold State.scq? at *; rw [← h3]; exact h

theorem mem_wset {ws : List Worker} {w x : Worker} (h : x ∈ wset ws w) : x = w ∨ x ∈ ws := by
  unfold wset at h
  obtain ⟨y, hy, e⟩ := List.mem_map.mp h
  split at e
  · exact Or.inl e.symm
  · exact Or.inr (e ▸ hy)

/-- replacing a worker record by an un-parked one -/
theorem PF.setWorker_unparked {s : State} {w : Worker} (hp : w.parked = false) : PF s (s.setWorker w) := by
  refine ⟨?_, fun k t h hq => ⟨t, h, hq, rfl⟩, fun _ _ h => Or.inl h⟩
  intro wk hwk hpk
  rcases mem_wset hwk with h | h
  · subst h; rw [hp] at hpk; cases hpk
  · exact h

/-- replacing a task by one that is not queued, or is queued like before in the same queue -/
theorem PF.setTask {s : State} {t t0 : Task} (h0 : alookup t.id s.tasks = some t0)
    (hq : t.queued = false ∨ (t0.queued = true ∧ t0.scq = t.scq)) : PF s (s.setTask t) := by
  refine ⟨fun _ h _ => h, ?_, fun _ _ h => Or.inl h⟩
  intro k t' hk hqq
  simp only [State.setTask] at hk
  rw [alookup_aset] at hk
  split at hk
  · rename_i hkk; cases hk; subst hkk
    rcases hq with hq | hq
    · rw [hq] at hqq; cases hqq
    · exact ⟨t0, h0, hq.1, hq.2⟩
  · exact ⟨t', hk, hqq, rfl⟩

/-- adding a fresh, un-queued task -/
theorem PF.newTask {ts : List (Nat × Task)} {k : Nat} {t : Task} (hn : alookup k ts = none)
    (hq : t.queued = false) :
    ∀ k' t', alookup k' (aset k t ts) = some t' → t'.queued = true →
      ∃ t0, alookup k' ts = some t0 ∧ t0.queued = true ∧ t0.scq = t'.scq := by
  intro k' t' hk hqq
  rw [alookup_aset] at hk
  split at hk
  · cases hk; rw [hq] at hqq; cases hqq
  · exact ⟨t', hk, hqq, rfl⟩

theorem PF.setTask_unqueued {s : State} {t : Task} (hq : t.queued = false) : PF s (s.setTask t) := by
  refine ⟨fun _ h _ => h, ?_, fun _ _ h => Or.inl h⟩
  intro k t' hk hqq
  simp only [State.setTask] at hk
  rw [alookup_aset] at hk
  split at hk
  · cases hk; rw [hq] at hqq; cases hqq
  · exact ⟨t', hk, hqq, rfl⟩

theorem assignSt_pf {s : State} {w : Worker} {t : Task} (hp : w.parked = false) : PF s (assignSt s w t) := by
  have h1 : PF s (s.setWorker { w with task := some t.id }) := PF.setWorker_unparked hp
  have h2 : PF (s.setWorker { w with task := some t.id })
      ((s.setWorker { w with task := some t.id }).setTask
        { t with worker := some (w.scq, w.id), retry := 0, queued := false }) := PF.setTask_unqueued rfl
  exact (h1.trans h2).trans (PF.of_same rfl rfl rfl)

theorem schedule_pk {h : Hints} {s : State} {tid : Nat} (hP : PInv s) : wpk (schedule h s tid) PInv := by
  unfold schedule
  split
  · rename_i t ht
    split
    · split
      · rename_i w hh
        have hwf := hintedWorker_some hh
        by_cases hp : w.parked = true
        · simp only [hp, Bool.not_true, Bool.false_eq_true, if_false]
          simp only [wakeWorker, worker?_def, setWorker_eq, wfind_wset, hwf, Option.isSome_some, if_true, and_self]
          rw [assignTo_eq]
          split
          · pkerr
          · split
            · pkerr
            · apply wpk_ok
              have h1 : PF s (wakeWorker s w) := PF.setWorker_unparked rfl
              have h2 := assignSt_pf (s := wakeWorker s w) (w := { w with parked := false, woken := true }) (t := t) rfl
              exact (h1.trans h2).pinv hP
        · simp only [hp, Bool.not_false, if_true]; pkerr
      · pkerr
    · rename_i hnp
      apply wpk_pure
      have hnp' : anyParked s t.scq = false := by simpa using hnp
      have hall := anyParked_false hnp'
      refine ⟨?_, hP.pt, hP.pd⟩
      intro wk hwk hpk k t' hk hq
      simp only [State.setTask] at hk
      rw [alookup_aset] at hk
      split at hk
      · cases hk
        intro e
        have := hall wk hwk e.symm
        rw [hpk] at this; cases this
      · exact hP.pq wk hwk hpk k t' hk hq
  · pkerr

theorem PInv.of_same {s s' : State} (h1 : s'.workers = s.workers) (h2 : s'.tasks = s.tasks)
    (h3 : s'.scqs = s.scqs) (hP : PInv s) : PInv s' := (PF.of_same h1 h2 h3).pinv hP

theorem fstep_same3 (s : State) (o : Nat) :
    (fstep s o).workers = s.workers ∧ (fstep s o).tasks = s.tasks ∧ (fstep s o).scqs = s.scqs := by
  unfold fstep
  split
  · split
    · rw [maybeStartCleanup_eq]; exact ⟨rfl, rfl, rfl⟩
    · exact ⟨rfl, rfl, rfl⟩
  · exact ⟨rfl, rfl, rfl⟩

theorem finishOps_same3 (s : State) (ops : List Nat) :
    (complete.finishOps s ops).workers = s.workers ∧ (complete.finishOps s ops).tasks = s.tasks ∧
      (complete.finishOps s ops).scqs = s.scqs := by
  rw [finishOps_eq]
  induction ops generalizing s with
  | nil => exact ⟨rfl, rfl, rfl⟩
  | cons o r ih =>
    rw [List.foldl_cons]
    obtain ⟨a, b, c⟩ := ih (fstep s o)
    obtain ⟨a', b', c'⟩ := fstep_same3 s o
    exact ⟨a.trans a', b.trans b', c.trans c'⟩

theorem preT_queued {exo} {s : State} {tid : Nat} {t : Task} (hI : InvX (fun _ => False) exo s)
    (ht : alookup tid s.tasks = some t) : (preT t).queued = false := by
  unfold preT; split
  · simp [bumpGen]
  · rename_i hw
    cases hq : t.queued with
    | false => rfl
    | true => have := (hI.core.q1 tid t ht hq).1; simp [this] at hw

theorem detSt_pf {exo} {s : State} {tid : Nat} {t : Task} (hI : InvX (fun _ => False) exo s)
    (ht : alookup tid s.tasks = some t) : PF s (detSt s t) := by
  have hq := preT_queued hI ht
  have hpw : (preT t).worker = t.worker := by unfold preT; split <;> simp [bumpGen]
  have h1 : PF s (detachW s (preT t)) := by
    unfold detachW
    rw [hpw]
    cases htw : t.worker with
    | none => exact PF.refl s
    | some qw =>
      obtain ⟨q, w⟩ := qw
      obtain ⟨wk, hwk, hwt⟩ := hI.core.p2 tid t q w ht htw
      simp only [worker?_def, hwk]
      apply PF.setWorker_unparked
      cases hp : wk.parked with
      | false => rfl
      | true => have := (hI.core.w1 q w wk hwk hp).1; rw [hwt] at this; cases this
  exact h1.trans (PF.setTask_unqueued hq)

theorem finalize_pk {s : State} {t : Task} {e : Event} {r : Resp} (hP : PInv s) (hq : t.queued = false) :
    wpk (complete.finalize (emit s e) t r) PInv := by
  rw [finalize_eq]
  apply wpk_ok
  obtain ⟨a, b, c⟩ := finishOps_same3 (finSt0 (emit s e) t r) t.ops
  have h1 : PF s (finSt0 (emit s e) t r) := by
    refine ⟨fun _ h _ => h, ?_, fun _ _ h => Or.inl h⟩
    intro k t' hk hqq
    simp only [finSt0, emit] at hk
    rw [alookup_aset] at hk
    split at hk
    · cases hk; simp only [bumpGen] at hqq; rw [hq] at hqq; cases hqq
    · exact ⟨t', hk, hqq, rfl⟩
  exact (h1.trans (PF.of_same a b c)).pinv hP

theorem bgPart_pk {h : Hints} {Y : State} {t : Task} {i : Nat} (hP : PInv Y) : wpk (bgPart h Y t i) PInv := by
  unfold bgPart
  dsimp only
  split
  · rename_i pq _
    split
    · apply wpk_pure; exact PInv.of_same (s := Y) rfl rfl rfl hP
    · split
      · rename_i bsc _
        split
        · apply wpk_pure; exact PInv.of_same (s := Y) rfl rfl rfl hP
        · have hZ : PF Y (bgSt Y t ⟨t.scq.pq, bsc⟩ pq.bgPrio) := by
            refine ⟨fun _ h _ => h, ?_, fun _ _ h => Or.inl h⟩
            intro k t' hk hqq
            simp only [bgSt] at hk
            rw [alookup_aset] at hk
            split at hk
            · cases hk; cases hqq
            · exact ⟨t', hk, hqq, rfl⟩
          exact schedule_pk (hZ.pinv hP)
      · pkerr
  · pkerr

theorem completeOk_pk {h : Hints} {s : State} {t : Task} {r : Resp} {l : Nat} (hP : PInv s)
    (hq : t.queued = false) : wpk (completeOk h s t r l) PInv := by
  rw [completeOk_eq]
  apply wpk_bind
  refine wpk_mono (finalize_pk (t := { t with learner := none }) hP hq) ?_
  intro Y hY
  split
  · exact wpk_pure hY
  · exact bgPart_pk hY

theorem completeRetry_pk {exo} {h : Hints} {s : State} {tid : Nat} {t0 : Task} {l : Nat} {r : Resp}
    (hI : InvX (fun k => k = tid) exo s) (h0 : alookup tid s.tasks = some t0) (hr : t0.response = none)
    (hw : t0.worker = none) (hq : t0.queued = false) (hl : t0.learner = some l) (hP : PInv s) :
    wpk (completeRetry h s t0 r l) PInv := by
  have hid : t0.id = tid := (hI.core.tid tid t0 h0).1
  have hI2 := retrySt_inv r hI h0 hl
  have ht2 : alookup tid (retrySt s t0 l r).tasks = some (retryTask s t0 l r) := by
    simp only [retrySt, State.setTask, emit, retryTask]; rw [alookup_aset, hid]; simp
  have hP2 : PInv (retrySt s t0 l r) := by
    have h1 : PF s (emit { s with nextLearner := s.nextLearner + 1 }
        (.learnerFailed l (r.code = cDeadlineExceeded) (some s.nextLearner))) := PF.of_same rfl rfl rfl
    exact (h1.trans (PF.setTask_unqueued (t := retryTask s t0 l r) hq)).pinv hP
  rw [completeRetry_eq, hid]
  apply wpk_bind
  refine wpk_mono (wpk_and (wpk_of_wp (schedule_spec (h := h) hI2 ht2 hr hw)) (schedule_pk hP2)) ?_
  intro s3 ⟨⟨hI3, hp⟩, hP3⟩
  obtain ⟨t3, ht3, he3, _, _⟩ := hp.tt
  simp only [task?_def, ht3]
  apply wpk_pure
  have hid3 : t3.id = tid := (hI3.core.tid tid t3 ht3).1
  have h3 : alookup (bumpGen t3).id s3.tasks = some t3 := by simp only [bumpGen]; rw [hid3]; exact ht3
  refine (PF.setTask (t := bumpGen t3) (t0 := t3) h3 ?_).pinv hP3
  cases hq3 : t3.queued with
  | false => exact Or.inl hq3
  | true => exact Or.inr ⟨rfl, rfl⟩

theorem complete_pk {exo} {h : Hints} {s : State} {tid : Nat} {r : Resp} {bw : Bool}
    (hI : InvX (fun _ => False) exo s) (hP : PInv s) : wpk (complete h s tid r bw) PInv := by
  rw [complete_eq]
  cases ht : alookup tid s.tasks with
  | none => simp only [task?_def, ht]; pkerr
  | some t =>
    simp only [task?_def, ht]
    by_cases hr : t.response.isSome = true
    · rw [if_pos hr]; exact wpk_pure hP
    · rw [if_neg hr]
      have hr' : t.response = none := by simpa using hr
      have hq := preT_queued hI ht
      have hrp : (preT t).response = none := by unfold preT; split <;> simpa [bumpGen] using hr'
      have hID := detSt_inv hI ht hr'
      have h0 := (detSt_post hI ht).tt
      have hPD : PInv (detSt s t) := (detSt_pf hI ht).pinv hP
      split
      · pkerr
      · rename_i l hl
        by_cases h1 : r.code = cOK ∧ r.exit = 0
        · rw [if_pos h1]
          have := completeOk_pk (h := h) (r := r) (l := l) (t := { preT t with worker := none }) hPD hq
          rw [show detSt s t = (detachW s (preT t)).setTask { preT t with worker := none } from rfl,
            completeOk_setTask _ _ _ _ _ _ rfl] at this
          exact this
        · rw [if_neg h1]
          by_cases h2 : bw = true
          · rw [if_pos h2]
            by_cases h3 : h.retry = true
            · rw [if_pos h3]
              have := completeRetry_pk (h := h) (r := r) hID h0 hrp rfl hq hl hPD
              rw [show detSt s t = (detachW s (preT t)).setTask { preT t with worker := none } from rfl,
                completeRetry_setTask _ _ _ _ _ _ rfl] at this
              exact this
            · rw [if_neg h3]
              intro s' hs'
              have he' := (finalize_setTask (emit (detachW s (preT t)) (.learnerFailed l (r.code = cDeadlineExceeded) none))
                { preT t with worker := none } { ({ preT t with worker := none } : Task) with learner := none } r rfl).trans hs'
              exact finalize_pk (e := .learnerFailed l (r.code = cDeadlineExceeded) none)
                (t := { ({ preT t with worker := none } : Task) with learner := none }) (r := r) hPD hq s' he'
          · rw [if_neg h2]
            intro s' hs'
            have he' := (finalize_setTask (emit (detachW s (preT t)) (.learnerAbandoned l))
              { preT t with worker := none } { ({ preT t with worker := none } : Task) with learner := none } r rfl).trans hs'
            exact finalize_pk (e := .learnerAbandoned l)
              (t := { ({ preT t with worker := none } : Task) with learner := none }) (r := r) hPD hq s' he'

/-- replacing a task by a copy that differs in neither `queued` nor `scq` -/
theorem PF.setTask_copy {ex exo} {s : State} {tid : Nat} {t t0 : Task} (hI : InvX ex exo s)
    (h0 : alookup tid s.tasks = some t0) (hid : t.id = t0.id) (hq : t.queued = t0.queued)
    (hs : t.scq = t0.scq) : PF s (s.setTask t) := by
  have hk : t0.id = tid := (hI.core.tid tid t0 h0).1
  refine PF.setTask (t0 := t0) (by rw [hid, hk]; exact h0) ?_
  cases hq0 : t0.queued with
  | false => exact Or.inl (hq.trans hq0)
  | true => exact Or.inr ⟨rfl, hs.symm⟩

theorem removeOp_tail_pk {ex exo} {s2 : State} {o tid : Nat} {t2 : Task} (hI2 : InvX ex exo s2)
    (ht2 : alookup tid s2.tasks = some t2) (hP2 : PInv s2) :
    wpk (if (t2.ops.filter (· ≠ o)).isEmpty then pure { s2 with tasks := aerase t2.id s2.tasks }
        else pure (s2.setTask { t2 with ops := t2.ops.filter (· ≠ o) }) : M State) PInv := by
  split
  · apply wpk_pure
    refine PF.pinv (s := s2) ⟨fun _ h _ => h, ?_, fun _ _ h => Or.inl h⟩ hP2
    intro k t' hk hq
    simp only [] at hk
    rw [alookup_aerase _ _ _ hI2.core.tnd] at hk
    split at hk
    · cases hk
    · exact ⟨t', hk, hq, rfl⟩
  · apply wpk_pure
    exact (PF.setTask_copy (t := { t2 with ops := t2.ops.filter (· ≠ o) }) hI2 ht2 rfl rfl rfl).pinv hP2

theorem removeOp_pk {h : Hints} {s : State} {o : Nat} (hI : Inv s)
    (hwz : ∀ op, alookup o s.ops = some op → op.waiters = 0) (hP : PInv s) : wpk (removeOp h s o) PInv := by
  unfold removeOp
  simp only [op?_def]
  cases hop : alookup o s.ops with
  | none => exact wpk_pure hP
  | some op =>
    simp only []
    have hI1 := eraseOp_inv hI hwz
    have hP1 : PInv { s with ops := aerase o s.ops } := PInv.of_same (s := s) rfl rfl rfl hP
    obtain ⟨t, ht, hmem⟩ := hI.oinv.o1 o op hop
    have hid : t.id = op.task := (hI.core.tid _ t ht).1
    simp only [task?_def, ht]
    by_cases hlen : t.ops.length = 1
    · rw [if_pos hlen]
      apply wpk_bind
      refine wpk_mono (wpk_and (wpk_of_wp (complete_spec (h := h) (r := ⟨cCanceled, 0, 0, .noWaiters⟩) (bw := false) hI1
        (by simp only [hid, ht]; rfl))) (complete_pk hI1 hP1)) ?_
      intro s2 ⟨⟨hI2, hcp, _, _⟩, hP2⟩
      rw [hid] at hcp
      obtain ⟨t2, ht2, _, _⟩ := hcp.tt t ht
      simp only [task?_def, ht2]
      exact removeOp_tail_pk hI2 ht2 hP2
    · rw [if_neg hlen]
      simp only [pure_bind, task?_def, ht]
      exact removeOp_tail_pk hI1 ht hP1

theorem foldl_complete_pk {h : Hints} {r : Resp} (ids : List Nat) {s : State} (hI : Inv s)
    (hex : ∀ k ∈ ids, (alookup k s.tasks).isSome = true) (hP : PInv s) :
    wpk (ids.foldlM (fun s t => complete h s t r false) s) PInv := by
  induction ids generalizing s with
  | nil => exact wpk_pure hP
  | cons a rest ih =>
    rw [List.foldlM_cons]
    apply wpk_bind
    refine wpk_mono (wpk_and (wpk_of_wp (complete_spec (h := h) (r := r) (bw := false) hI (hex a (by simp))))
      (complete_pk hI hP)) ?_
    intro s1 ⟨⟨hI1, hcp, _, _⟩, hP1⟩
    exact ih hI1 (fun k hk => hcp.persist hI k (hex k (by simp [hk]))) hP1

theorem cancelAllQueued_pk {h : Hints} {s : State} {q : ScqId} {r : Resp} (hI : Inv s) (hP : PInv s) :
    wpk (cancelAllQueued h s q r) PInv := by
  unfold cancelAllQueued
  apply foldl_complete_pk _ hI _ hP
  intro k hk
  simp only [List.mem_map, List.mem_filter] at hk
  obtain ⟨⟨k', t⟩, ⟨hm, _⟩, rfl⟩ := hk
  rw [alookup_of_mem hI.core.tnd hm]; rfl

theorem find?_filter_ne {l : List Scq} {q i : ScqId} {sq : Scq}
    (h : (l.filter (fun x => x.id ≠ q)).find? (fun x => x.id = i) = some sq) :
    l.find? (fun x => x.id = i) = some sq := by
  induction l with
  | nil => simp at h
  | cons a r ih =>
    rw [List.filter_cons] at h
    rw [List.find?_cons]
    by_cases ha : a.id = i
    · simp only [ha, decide_true]
      split at h
      · rw [List.find?_cons] at h; simpa [ha] using h
      · rename_i hne
        -- `a` was filtered out, so `a.id = q = i`; everything found later has id `i = q`: impossible
        have hq : a.id = q := by simpa using hne
        have := List.find?_some h
        have hm := List.mem_of_find?_eq_some h
        have := (List.mem_filter.mp hm).2
        simp_all
    · simp only [ha, decide_false]
      split at h
      · rw [List.find?_cons] at h; simp only [ha, decide_false] at h; exact ih h
      · exact ih h

theorem removeScq_pk {h : Hints} {s : State} {q : ScqId} (hI : Inv s) (hP : PInv s) :
    wpk (removeScq h s q) PInv := by
  unfold removeScq
  apply wpk_bind
  refine wpk_mono (cancelAllQueued_pk (h := h) (q := q) (r := ⟨cUnavailable, 0, 0, .queueRemoved⟩) hI hP) ?_
  intro s1 hP1
  have hpf : ∀ pqs', PF s1 { s1 with scqs := s1.scqs.filter (fun x => x.id ≠ q), pqs := pqs' } := by
    intro pqs'
    refine ⟨fun _ h _ => h, fun k t h hq => ⟨t, h, hq, rfl⟩, ?_⟩
    intro i sq hsq
    exact Or.inl (find?_filter_ne hsq)
  simp only []
  split
  · exact wpk_pure ((hpf s1.pqs).pinv hP1)
  · exact wpk_pure ((hpf _).pinv hP1)

theorem staleTail_pk {s1 : State} {q : ScqId} {w : WId} {rt : Nat} (hP : PInv s1) :
    wpk (staleTail s1 q w rt) PInv := by
  have hpf : PF s1 { s1 with workers := s1.workers.filter (fun x => ¬ (x.scq = q ∧ x.id = w)) } :=
    ⟨fun wk h _ => (List.mem_filter.mp h).1, fun k t h hq => ⟨t, h, hq, rfl⟩, fun _ _ h => Or.inl h⟩
  have hP2 := hpf.pinv hP
  unfold staleTail
  dsimp only
  split
  · split
    · apply wpk_pure
      exact PInv.of_same (s := { s1 with workers := s1.workers.filter (fun x => ¬ (x.scq = q ∧ x.id = w)) })
        rfl rfl rfl hP2
    · exact wpk_pure hP2
  · exact wpk_pure hP2

theorem removeStaleWorker_pk {h : Hints} {s : State} {q : ScqId} {w : WId} {rt : Nat} (hI : Inv s)
    (hP : PInv s) : wpk (removeStaleWorker h s q w rt) PInv := by
  rw [removeStaleWorker_eq]
  simp only [worker?_def]
  cases hw : wfind s.workers q w with
  | none => exact wpk_pure hP
  | some wk =>
    dsimp only
    apply wpk_bind
    cases hwt : wk.task with
    | none => exact wpk_pure (staleTail_pk hP)
    | some tid =>
      dsimp only
      refine wpk_mono (complete_pk (h := h) hI hP) ?_
      intro s1 hP1
      exact staleTail_pk hP1

theorem runCleanup_pk {h : Hints} (fuel : Nat) {s : State} (hI : Inv s) (hP : PInv s) :
    wpk (runCleanup h fuel s) PInv := by
  induction fuel generalizing s with
  | zero => exact wpk_pure hP
  | succ n ih =>
    unfold runCleanup
    cases hp : popDue s.now s.cleanup with
    | none => exact wpk_pure hP
    | some er =>
      obtain ⟨e, rest⟩ := er
      dsimp only
      obtain ⟨hmem, hsub⟩ := popDue_some hp
      have hI0 : Inv { s with cleanup := rest } :=
        ⟨hI.core, hI.oinv, hI.sinv.cleanup_sub hsub, hI.linv⟩
      have hP0 : PInv { s with cleanup := rest } := PInv.of_same (s := s) rfl rfl rfl hP
      cases hk : e.kind with
      | worker q w =>
        dsimp only
        apply wpk_bind
        refine wpk_mono (wpk_and (wpk_of_wp (removeStaleWorker_spec (h := h) (rt := e.deadline) hI0))
          (removeStaleWorker_pk hI0 hP0)) ?_
        intro s1 ⟨⟨hI1, _⟩, hP1⟩
        exact ih hI1 hP1
      | op o =>
        dsimp only
        have hwz : ∀ op, alookup o ({ s with cleanup := rest } : State).ops = some op → op.waiters = 0 :=
          fun op hop => hI.sinv.s2 o op e hop hmem hk
        apply wpk_bind
        refine wpk_mono (wpk_and (wpk_of_wp (removeOp_spec (h := h) hI0 hwz)) (removeOp_pk hI0 hwz hP0)) ?_
        intro s1 ⟨⟨hI1, _⟩, hP1⟩
        exact ih hI1 hP1
      | scq q =>
        dsimp only
        apply wpk_bind
        refine wpk_mono (wpk_and (wpk_of_wp (removeScq_spec (h := h) (q := q) hI0)) (removeScq_pk hI0 hP0)) ?_
        intro s1 ⟨⟨hI1, _⟩, hP1⟩
        exact ih hI1 hP1

theorem enter_pk {h : Hints} {s : State} {t : Nat} (hI : Inv s) (hP : PInv s) : wpk (enter h s t) PInv := by
  unfold enter
  split
  · exact runCleanup_pk _ (hI.of_same rfl rfl rfl rfl rfl rfl rfl rfl rfl rfl)
      (PInv.of_same (s := s) rfl rfl rfl hP)
  · exact wpk_pure hP

/-- `enter` with both invariants -/
theorem enter_both {h : Hints} {s : State} {t : Nat} (hI : Inv s) (hP : PInv s) :
    wpk (enter h s t) (fun s' => Inv s' ∧ PInv s') :=
  wpk_and (wpk_mono (wpk_of_wp (enter_spec hI)) (fun _ h => h.1)) (enter_pk hI hP)

/-- stream operations touch neither workers, tasks nor queues -/
theorem StreamFrame.pinv {s s' : State} (h : StreamFrame s s') (hP : PInv s) : PInv s' := by
  obtain ⟨os, sts, cl, evs, he⟩ := h
  subst he
  exact PInv.of_same (s := s) rfl rfl rfl hP

theorem streamAttach_pk {ex exo} {s : State} {c o : Nat} (hI : InvX ex exo s) (hP : PInv s) :
    wpk (streamAttach s c o) PInv := by
  cases hop : alookup o s.ops with
  | none => unfold streamAttach; simp only [op?_def, hop]; pkerr
  | some op =>
    refine wpk_mono (wpk_of_wp (streamAttach_spec (c := c) hI hop)) ?_
    intro s' ⟨_, hsf, _, _⟩
    exact hsf.pinv hP

theorem streamSend_pk {ex exo} {s : State} {c o : Nat} {op : Op} (hI : InvX ex exo s)
    (hop : alookup o s.ops = some op)
    (hpre : (s.streams.filter (fun x => x.client ≠ c)).countP (fun st => st.op = o) + 1 ≤ op.waiters)
    (hP : PInv s) : wpk (streamSend s c o) PInv := by
  refine wpk_mono (wpk_of_wp (streamSend_spec hI hop hpre)) ?_
  intro s' ⟨_, hsf, _, _⟩
  exact hsf.pinv hP

theorem streamLeave_pk {ex exo} {s : State} {c code : Nat} (hI : InvX ex exo s) (hP : PInv s) :
    wpk (streamLeave s c code) PInv := by
  refine wpk_mono (wpk_of_wp (streamLeave_spec (c := c) (code := code) hI)) ?_
  intro s' ⟨_, hsf, _⟩
  exact hsf.pinv hP

theorem addOpSt_pf {ex exo} {s : State} {tid : Nat} {t : Task} {inv : List Nat} {prio : Int}
    (hI : InvX ex exo s) (ht : alookup tid s.tasks = some t) : PF s (addOpSt s tid t inv prio) := by
  have hid : t.id = tid := (hI.core.tid tid t ht).1
  refine ⟨fun _ h _ => h, ?_, fun _ _ h => Or.inl h⟩
  intro k t' hk hq
  simp only [addOpSt] at hk
  rw [alookup_aset, hid] at hk
  split at hk
  · rename_i hkk; cases hk; subst hkk; exact ⟨t, ht, hq, rfl⟩
  · exact ⟨t', hk, hq, rfl⟩

theorem newTaskSt_pf (s : State) (digest dkey : Nat) (dnc : Bool) (q : ScqId) (inv : List Nat) (prio : Int) :
    PF s (newTaskSt s digest dkey dnc q inv prio) := by
  refine ⟨fun _ h _ => h, ?_, fun _ _ h => Or.inl h⟩
  intro k t' hk hq
  simp only [newTaskSt] at hk
  rw [alookup_aset] at hk
  split at hk
  · cases hk; cases hq
  · exact ⟨t', hk, hq, rfl⟩

theorem execBody_new_pk {h : Hints} {s : State} {c digest dkey : Nat} {dnc : Bool} {q : ScqId}
    {inv : List Nat} {prio : Int} (hI : Inv s) (hnone : alookup dkey s.dedup = none) (hP : PInv s) :
    wpk (schedule h (newTaskSt s digest dkey dnc q inv prio) s.nextTask >>= fun s1 => streamAttach s1 c s.nextOp)
      PInv := by
  have hI3 := newTaskSt_inv (digest := digest) (dnc := dnc) (q := q) (inv := inv) (prio := prio) hI hnone
  have ht3 : alookup s.nextTask (newTaskSt s digest dkey dnc q inv prio).tasks =
      some (newTask s digest dkey dnc q) := by
    simp only [newTaskSt]; rw [alookup_aset, if_pos rfl]
  have hP3 := (newTaskSt_pf s digest dkey dnc q inv prio).pinv hP
  apply wpk_bind
  refine wpk_mono (wpk_and (wpk_of_wp (schedule_spec (h := h) hI3 ht3 rfl rfl)) (schedule_pk hP3)) ?_
  intro s1 ⟨⟨hI1, _⟩, hP1⟩
  exact streamAttach_pk hI1 hP1

theorem execBody_pk {h : Hints} {s : State} {c digest dkey : Nat} {dnc : Bool} {comps : List Nat}
    {platform : Nat} {inv : List Nat} {prio : Int} (hI : Inv s) (hP : PInv s) :
    wpk (execBody h s c digest dkey dnc comps platform inv prio) PInv := by
  unfold execBody
  cases hd : alookup dkey s.dedup with
  | some tid =>
    dsimp only
    obtain ⟨t, ht, _, hr, _, _⟩ := hI.core.d1 dkey tid hd
    simp only [task?_def, ht]
    have hI1 : Inv (emit s .selAbandoned) := emit_quiet_inv hI _ (fun _ => ⟨rfl, rfl⟩)
    have hP1 : PInv (emit s .selAbandoned) := PInv.of_same (s := s) rfl rfl rfl hP
    split
    · exact streamAttach_pk hI1 hP1
    · split
      · pkerr
      · have hI2 := addOpSt_inv (inv := inv) (prio := prio) hI1 ht
        have hP2 := (addOpSt_pf (inv := inv) (prio := prio) hI1 ht).pinv hP1
        exact streamAttach_pk hI2 hP2
  | none =>
    dsimp only
    split
    · apply wpk_pure
      exact PInv.of_same (s := s) rfl rfl rfl hP
    · rename_i pq _
      split
      · rename_i sc _
        have := execBody_new_pk (h := h) (c := c) (digest := digest) (dnc := dnc) (q := ⟨pq.id, sc⟩)
          (inv := inv) (prio := prio) hI hd hP
        cases dnc with
        | true => exact this
        | false => exact this
      · pkerr

theorem execArrive_pk {h : Hints} {s : State} {now c digest dkey : Nat} {dnc : Bool} {comps : List Nat}
    {platform : Nat} {inv : List Nat} {prio : Int} (hI : Inv s) (hP : PInv s) :
    wpk (execArrive h s now c digest dkey dnc comps platform inv prio) PInv := by
  rw [execArrive_eq]
  apply wpk_bind
  refine wpk_mono (enter_both hI hP) ?_
  intro s0 ⟨hI0, hP0⟩
  exact execBody_pk hI0 hP0

theorem waitArrive_pk {h : Hints} {s : State} {now c name : Nat} (hI : Inv s) (hP : PInv s) :
    wpk (waitArrive h s now c name) PInv := by
  unfold waitArrive
  apply wpk_bind
  refine wpk_mono (enter_both hI hP) ?_
  intro s0 ⟨hI0, hP0⟩
  split
  · apply wpk_pure; exact PInv.of_same (s := s0) rfl rfl rfl hP0
  · exact streamAttach_pk hI0 hP0

theorem streamWake_pk {h : Hints} {s : State} {now c reason : Nat} (hI : Inv s) (hP : PInv s) :
    wpk (streamWake h s now c reason) PInv := by
  unfold streamWake
  apply wpk_bind
  refine wpk_mono (enter_both hI hP) ?_
  intro s0 ⟨hI0, hP0⟩
  cases hf : s0.streams.find? (fun x => x.client = c) with
  | none => pkerr
  | some st =>
    dsimp only
    have hst : st ∈ s0.streams := List.mem_of_find?_eq_some hf
    have hstc : st.client = c := by simpa using List.find?_some hf
    have h3 := hI0.sinv.s3 st hst
    by_cases h2 : reason = 2
    · rw [if_pos h2]; exact streamLeave_pk hI0 hP0
    · rw [if_neg h2]
      cases hop : alookup st.op s0.ops with
      | none => rw [hop] at h3; cases h3
      | some op =>
        obtain ⟨t, ht, _⟩ := hI0.oinv.o1 _ op hop
        have hcnt := countP_filter_add_one (l := s0.streams) (p := fun x => decide (x.op = st.op))
          (q := fun x => decide (x.client ≠ c)) hst (by simp) (by simp [hstc])
        have h1 := hI0.sinv.s1 _ op hop
        have hsend := streamSend_pk (c := c) hI0 hop (by omega) hP0
        by_cases h0 : reason = 0
        · simp only [h0, if_true, op?_def, hop, task?_def, ht]
          by_cases hg : t.gen = st.snap
          · simp only [hg, if_true]; pkerr
          · simp only [hg, if_false, pure_bind]; exact hsend
        · simp only [h0, if_false, pure_bind]; exact hsend

theorem syncReturn_pf (s : State) (q : ScqId) (w : WId) : PF s (syncReturn s q w) := by
  rw [syncReturn_eq]
  cases s.worker? q w with
  | none => exact PF.refl s
  | some wk =>
    dsimp only
    exact (PF.setWorker_unparked (s := s) (w := resetW wk) rfl).trans (PF.of_same rfl rfl rfl)

theorem syncReturn_emit_pinv {s : State} (hP : PInv s) (e : Event) (q : ScqId) (w : WId) :
    PInv (syncReturn (emit s e) q w) :=
  (syncReturn_pf (emit s e) q w).pinv (PInv.of_same (s := s) rfl rfl rfl hP)

theorem execReturn_pk {s : State} {q : ScqId} {w : WId} {wk : Worker} (hP : PInv s) :
    wpk (execResponse s wk >>= fun s1 => pure (syncReturn s1 q w)) PInv := by
  unfold execResponse
  split
  · split
    · simp only [pure_bind]
      exact wpk_pure (syncReturn_emit_pinv hP _ q w)
    · pkerr
  · pkerr

theorem assignNext_pk {h : Hints} {s : State} {w : Worker} (hI : Inv s) (hwp : w.parked = false) (hP : PInv s) :
    wpk (assignNext h s w) (fun r => PInv r.1 ∧ (r.2 = false → r.1 = s ∧ queuedTasks s w.scq = [])) := by
  unfold assignNext
  split
  · split
    · rename_i t hf
      rw [assignTo_eq]
      split
      · pkerr
      · split
        · pkerr
        · simp only [ok_bind']
          have ht1 : alookup t.id (assignSt s w t).tasks =
              some { t with worker := some (w.scq, w.id), retry := 0, queued := false } := by
            simp only [assignSt, State.setTask, setWorker_eq]; rw [alookup_aset, if_pos rfl]
          simp only [task?_def, ht1]
          apply wpk_pure
          refine ⟨?_, fun h => by cases h⟩
          have h1 : PF s (assignSt s w t) := assignSt_pf hwp
          exact (h1.trans (PF.setTask_unqueued (by simp [bumpGen]))).pinv hP
    · pkerr
  · split
    · rename_i hemp
      apply wpk_pure
      exact ⟨hP, fun _ => ⟨rfl, List.isEmpty_iff.mp hemp⟩⟩
    · pkerr

/-- parking the synchronizing worker when nothing is queued in its queue and it is not drained -/
theorem park_pinv {s : State} {q : ScqId} {w : WId} {wk : Worker} {sq : Scq} {x : Option Nat} (hI : Inv s)
    (hw : wfind s.workers q w = some wk) (hsq : s.scq? q = some sq) (hnd : isDrained sq wk = false)
    (hemp : queuedTasks s q = []) (hP : PInv s) :
    PInv (s.setWorker { wk with parked := true, woken := false, timer := x }) := by
  have hk := wfind_key hw
  unfold isDrained at hnd
  simp only [Bool.or_eq_false_iff] at hnd
  refine ⟨?_, ?_, ?_⟩
  · intro wk' hwk' hp k t ht hq
    rcases mem_wset hwk' with e | hm
    · subst e
      intro hscq
      have h1 := hI.core.q1 k t ht hq
      have hmem : t ∈ queuedTasks s q := by
        unfold queuedTasks
        simp only [List.mem_map, List.mem_filter, decide_eq_true_eq]
        refine ⟨(k, t), ⟨mem_of_alookup ht, ?_, hq, by simp [h1.1], by simp [h1.2]⟩, rfl⟩
        exact hscq.trans hk.1
      rw [hemp] at hmem; cases hmem
    · exact hP.pq wk' hm hp k t ht hq
  · intro wk' hwk' hp
    rcases mem_wset hwk' with e | hm
    · subst e; exact hnd.1
    · exact hP.pt wk' hm hp
  · intro wk' hwk' hp sq' hsq'
    rcases mem_wset hwk' with e | hm
    · subst e
      have : s.scq? wk.scq = some sq' := hsq'
      rw [hk.1, hsq] at this; cases this
      have := hnd.2
      rw [hk.2] at this ⊢
      exact this
    · exact hP.pd wk' hm hp sq' hsq'

set_option maxHeartbeats 1000000 in
theorem getNextTask_pk {h : Hints} {s : State} {q : ScqId} {w : WId} {wk : Worker} {pi bl : Bool}
    (hI : Inv s) (hw : wfind s.workers q w = some wk) (hr : Ready wk) (hP : PInv s) :
    wpk (getNextTask h s q w pi bl) PInv := by
  have hk := wfind_key hw
  have hidle : PInv (syncReturn (emit s (.syncIdle q w s.now)) q w) := syncReturn_emit_pinv hP _ q w
  unfold getNextTask
  simp only [worker?_def, hw]
  split
  · rename_i sq hsq
    by_cases hpi : pi = true
    · simp only [hpi, if_true]; exact wpk_pure hidle
    · simp only [hpi, if_false]
      by_cases hd : isDrained sq wk = true
      · simp only [hd, Bool.not_true, Bool.false_eq_true, if_false]
        by_cases hb : bl = true
        · simp only [hb, Bool.not_true, Bool.false_eq_true, if_false]
          apply wpk_pure
          refine PF.pinv (PF.setWorker_unparked ?_) hP
          exact hr.parked
        · simp only [hb, Bool.not_false, if_true]; exact wpk_pure hidle
      · simp only [hd, Bool.not_false, if_true]
        have hnd : isDrained sq wk = false := by simpa using hd
        apply wpk_bind
        refine wpk_mono (assignNext_pk (h := h) (w := wk) hI hr.parked hP) ?_
        intro ⟨s1, got⟩ ⟨hP1, hf⟩
        dsimp only at hP1 hf ⊢
        cases got with
        | true =>
          simp only [if_true]
          split
          · exact execReturn_pk hP1
          · pkerr
        | false =>
          obtain ⟨hs1, hemp⟩ := hf rfl
          subst hs1
          rw [hk.1] at hemp
          simp only [Bool.false_eq_true, if_false]
          by_cases hb : bl = true
          · simp only [hb, Bool.not_true, Bool.false_eq_true, if_false, hw, hr.parked]
            apply wpk_pure
            exact park_pinv hI hw hsq hnd hemp hP
          · simp only [hb, Bool.not_false, if_true]; exact wpk_pure (syncReturn_emit_pinv hP1 _ q w)
  · pkerr

set_option maxHeartbeats 1000000 in
theorem getCurrentOrNext_pk {h : Hints} {s : State} {q : ScqId} {w : WId} {wk : Worker} {pi bl : Bool}
    (hI : Inv s) (hw : wfind s.workers q w = some wk) (hr : Ready' wk) (hP : PInv s) :
    wpk (getCurrentOrNext h s q w pi bl) PInv := by
  unfold getCurrentOrNext
  simp only [worker?_def, hw]
  cases hwt : wk.task with
  | none =>
    dsimp only
    exact getNextTask_pk hI hw ⟨hr.parked, hr.woken, hwt, hr.drainWait, hr.inSync⟩ hP
  | some tid =>
    dsimp only
    obtain ⟨t, ht, htw⟩ := hI.core.p1 q w wk tid hw hwt
    simp only [task?_def, ht]
    by_cases hret : t.retry < s.cfg.retryCount
    · simp only [hret, if_true]
      apply wpk_pure
      have hP1 : PInv (s.setTask { t with retry := t.retry + 1 }) :=
        (PF.setTask_copy (t := { t with retry := t.retry + 1 }) hI ht rfl rfl rfl).pinv hP
      exact syncReturn_emit_pinv hP1 _ q w
    · simp only [hret, if_false]
      apply wpk_bind
      refine wpk_mono (wpk_and (wpk_of_wp (complete_spec (h := h) (r := ⟨cInternal, 0, 0, .retryLimit⟩)
        (bw := false) hI (by rw [ht]; rfl))) (complete_pk hI hP)) ?_
      intro s1 ⟨⟨hI1, hcp, _, _⟩, hP1⟩
      have hw1 := complete_clears hI hI1 hcp hw hwt hr.parked
      exact getNextTask_pk hI1 hw1 ⟨hr.parked, hr.woken, rfl, hr.drainWait, hr.inSync⟩ hP1

def newScq (q : ScqId) : Scq := { id := q, mayBeRemoved := true, drains := [], undrainGen := 0 }

theorem find?_append_new {l : List Scq} {i q : ScqId} {sq : Scq}
    (h : (l ++ [newScq q]).find? (fun x => x.id = i) = some sq) :
    l.find? (fun x => x.id = i) = some sq ∨ sq.drains = [] := by
  rw [List.find?_append] at h
  cases hl : l.find? (fun x => x.id = i) with
  | some a => rw [hl] at h; exact Or.inl h
  | none =>
    rw [hl] at h
    simp only [Option.none_or, List.find?_cons] at h
    split at h
    · cases h; exact Or.inr rfl
    · simp at h

theorem syncQueue_pk {s : State} {q : ScqId} {comps : List Nat} {platform : Nat} {w : WId} (hP : PInv s) :
    wpk (syncQueue s q comps platform w) (fun r => match r with
      | .inl s1 => PInv s1
      | .inr s1 => PInv s1) := by
  have hsame : ∀ s1 : State, s1.workers = s.workers → s1.tasks = s.tasks → s1.scqs = s.scqs → PInv s1 :=
    fun s1 a b c => PInv.of_same a b c hP
  have happ : ∀ pqs', PInv { s with pqs := pqs', scqs := s.scqs ++ [newScq q] } := by
    intro pqs'
    refine PF.pinv (s := s) ⟨fun _ h _ => h, fun k t h hq => ⟨t, h, hq, rfl⟩, ?_⟩ hP
    intro i sq hsq
    exact find?_append_new hsq
  unfold syncQueue
  split
  · exact wpk_pure (hsame _ rfl rfl rfl)
  · split
    · dsimp only
      split
      · pkerr
      · split
        · pkerr
        · split
          · exact wpk_pure (hsame _ rfl rfl rfl)
          · split
            · exact wpk_pure (hsame _ rfl rfl rfl)
            · split
              · exact wpk_pure (hsame _ rfl rfl rfl)
              · exact wpk_pure (happ s.pqs)
    · exact wpk_pure (happ _)

theorem syncWorker_pinv {s : State} {q : ScqId} {w : WId} (hI : Inv s) (hP : PInv s) :
    match syncWorker s q w with
    | .inl s1 => PInv s1
    | .inr s1 => PInv s1 := by
  unfold syncWorker
  cases hw : s.worker? q w with
  | some wk =>
    dsimp only
    simp only [worker?_def] at hw
    by_cases his : wk.inSync = true
    · rw [if_pos his]; exact PInv.of_same (s := s) rfl rfl rfl hP
    · rw [if_neg his]
      have hp : wk.parked = false := by
        cases hp : wk.parked with
        | false => rfl
        | true => exact absurd (hI.core.w1 q w wk hw hp).2.2.2 his
      have h1 : PInv (s.removeCleanup (.worker q w)) := PInv.of_same (s := s) rfl rfl rfl hP
      refine PF.pinv (PF.setWorker_unparked ?_) h1
      exact hp
  | none =>
    dsimp only
    refine PF.pinv (s := s) ⟨?_, fun k t h hq => ⟨t, h, hq, rfl⟩, fun _ _ h => Or.inl h⟩ hP
    intro wk hwk hp
    rcases List.mem_append.mp hwk with h | h
    · exact h
    · simp only [List.mem_singleton] at h; subst h; cases hp

theorem syncBody_pk {h : Hints} {s : State} {q : ScqId} {w : WId} {rep : Report} {pi : Bool} {wk : Worker}
    (hI : Inv s) (hw : wfind s.workers q w = some wk) (hr : Ready' wk) (hP : PInv s) :
    wpk (syncBody h s q w rep pi) PInv := by
  unfold syncBody
  simp only [worker?_def, hw]
  cases rep with
  | malformed => exact wpk_pure (syncReturn_emit_pinv hP _ q w)
  | idle => exact getCurrentOrNext_pk hI hw hr hP
  | executing d =>
    dsimp only
    cases hwt : wk.task with
    | none =>
      simp only [Bool.false_eq_true, if_false]
      exact getCurrentOrNext_pk hI hw hr hP
    | some tid =>
      dsimp only
      split
      · exact wpk_pure (syncReturn_emit_pinv hP _ q w)
      · exact getCurrentOrNext_pk hI hw hr hP
  | completed d r =>
    dsimp only
    cases hwt : wk.task with
    | none =>
      simp only [Bool.false_eq_true, if_false]
      exact getCurrentOrNext_pk hI hw hr hP
    | some tid =>
      dsimp only
      split
      · obtain ⟨t, ht, _⟩ := hI.core.p1 q w wk tid hw hwt
        apply wpk_bind
        refine wpk_mono (wpk_and (wpk_of_wp (complete_spec (h := h) (r := r) (bw := true) hI (by rw [ht]; rfl)))
          (complete_pk hI hP)) ?_
        intro s1 ⟨⟨hI1, hcp, _, _⟩, hP1⟩
        have hw1 := complete_clears hI hI1 hcp hw hwt hr.parked
        exact getNextTask_pk hI1 hw1 ⟨hr.parked, hr.woken, rfl, hr.drainWait, hr.inSync⟩ hP1
      · exact getCurrentOrNext_pk hI hw hr hP

theorem syncArrive_pk {h : Hints} {s : State} {now : Nat} {q : ScqId} {comps : List Nat} {platform : Nat}
    {w : WId} {rep : Report} {pi : Bool} (hI : Inv s) (hP : PInv s) :
    wpk (syncArrive h s now q comps platform w rep pi) PInv := by
  rw [syncArrive_eq]
  apply wpk_bind
  refine wpk_mono (enter_both hI hP) ?_
  intro s0 ⟨hI0, hP0⟩
  apply wpk_bind
  refine wpk_mono (wpk_and (wpk_of_wp (syncQueue_spec (q := q) (comps := comps) (platform := platform) (w := w) hI0))
    (syncQueue_pk hP0)) ?_
  intro r ⟨hr, hPr⟩
  cases r with
  | inl s1 => exact wpk_pure hPr
  | inr s1 =>
    obtain ⟨hI1, _, _, _⟩ := hr
    dsimp only at hPr ⊢
    have hsw := syncWorker_spec (q := q) (w := w) hI1
    have hsp := syncWorker_pinv (q := q) (w := w) hI1 hPr
    cases hsw' : syncWorker s1 q w with
    | inl s2 => rw [hsw'] at hsp; exact wpk_pure hsp
    | inr s2 =>
      rw [hsw'] at hsw hsp
      obtain ⟨hI2, _, wk2, hw2, hr2⟩ := hsw
      exact syncBody_pk hI2 hw2 hr2 hsp

set_option maxHeartbeats 1000000 in
theorem wakeBody_pk {h : Hints} {s : State} {q : ScqId} {w : WId} {reason : Nat} (hI : Inv s) (hP : PInv s) :
    wpk (wakeBody h s q w reason) PInv := by
  unfold wakeBody
  cases hw : s.worker? q w with
  | none => pkerr
  | some wk =>
    dsimp only
    simp only [worker?_def] at hw
    have hk := wfind_key hw
    have hw' : wfind s.workers wk.scq wk.id = some wk := by rw [hk.1, hk.2]; exact hw
    by_cases his : wk.inSync = true
    · have hng : ¬ ((!wk.inSync) = true) := by simp [his]
      rw [if_neg hng]
      try simp only [pure_bind]
      have hP12 : PInv (s.setWorker { wk with parked := false, woken := false, drainWait := none }) :=
        (PF.setWorker_unparked rfl).pinv hP
      split
      · by_cases hts : wk.task.isSome = true
        · rw [if_pos hts]; exact execReturn_pk hP12
        · rw [if_neg hts]; exact wpk_pure (syncReturn_emit_pinv hP12 _ q w)
      · exact wpk_pure (syncReturn_emit_pinv hP12 _ q w)
      · by_cases hwo : wk.woken = true
        · have hng2 : ¬ ((!wk.woken) = true) := by simp [hwo]
          rw [if_neg hng2]
          try simp only [pure_bind]
          have hp : wk.parked = false := by
            cases hp : wk.parked with
            | false => rfl
            | true => have := (hI.core.w1 q w wk hw hp).2.2.1; rw [hwo] at this; cases this
          have hd : wk.drainWait = none := (hI.core.w2 q w wk hw hwo).1
          have hI0 := setFlags_inv (wk := wk) (wk' := { wk with woken := false }) hI hw' rfl rfl rfl hp rfl hd
          have hw0 := wfind_setWorker_self (wk' := { wk with woken := false }) hw rfl rfl
          have hP0 : PInv (s.setWorker { wk with woken := false }) :=
            (PF.setWorker_unparked (w := { wk with woken := false }) hp).pinv hP
          by_cases hts : wk.task.isSome = true
          · rw [if_pos hts]; exact execReturn_pk hP0
          · rw [if_neg hts]
            have hwt : wk.task = none := by simpa using hts
            exact getNextTask_pk hI0 hw0 ⟨hp, rfl, hwt, hd, his⟩ hP0
        · have hng2 : ((!wk.woken) = true) := by simpa using hwo
          rw [if_pos hng2]; pkerr
      · split
        · rename_i sq _
          cases hdw : wk.drainWait with
          | none => dsimp only; pkerr
          | some g =>
            dsimp only
            by_cases hg : g = sq.undrainGen
            · rw [if_pos hg]; pkerr
            · rw [if_neg hg]
              try simp only [pure_bind]
              have h3 := hI.core.w3 q w wk hw (by rw [hdw]; rfl)
              have hp : wk.parked = false := by
                cases hp : wk.parked with
                | false => rfl
                | true => have := (hI.core.w1 q w wk hw hp).2.1; rw [hdw] at this; cases this
              have hwo : wk.woken = false := by
                cases hp : wk.woken with
                | false => rfl
                | true => have := (hI.core.w2 q w wk hw hp).1; rw [hdw] at this; cases this
              have hI3 := setFlags_inv (wk := wk) (wk' := { wk with drainWait := none }) hI hw' rfl rfl rfl hp hwo rfl
              have hw3 := wfind_setWorker_self (wk' := { wk with drainWait := none }) hw rfl rfl
              have hP3 : PInv (s.setWorker { wk with drainWait := none }) :=
                (PF.setWorker_unparked (w := { wk with drainWait := none }) hp).pinv hP
              exact getNextTask_pk hI3 hw3 ⟨hp, hwo, h3.1, rfl, his⟩ hP3
        · pkerr
      · pkerr
    · have hng : ((!wk.inSync) = true) := by simpa using his
      rw [if_pos hng]; pkerr

theorem syncWake_pk {h : Hints} {s : State} {now : Nat} {q : ScqId} {w : WId} {reason : Nat} (hI : Inv s)
    (hP : PInv s) : wpk (syncWake h s now q w reason) PInv := by
  rw [syncWake_eq]
  apply wpk_bind
  refine wpk_mono (enter_both hI hP) ?_
  intro s0 ⟨hI0, hP0⟩
  exact wakeBody_pk hI0 hP0

theorem killOp_pk {h : Hints} {s : State} {now name code : Nat} (hI : Inv s) (hP : PInv s) :
    wpk (killOp h s now name code) PInv := by
  unfold killOp
  apply wpk_bind
  refine wpk_mono (enter_both hI hP) ?_
  intro s0 ⟨hI0, hP0⟩
  split
  · apply wpk_pure; exact PInv.of_same (s := s0) rfl rfl rfl hP0
  · apply wpk_bind
    refine wpk_mono (complete_pk (h := h) hI0 hP0) ?_
    intro s1 hP1
    apply wpk_pure; exact PInv.of_same (s := s1) rfl rfl rfl hP1

theorem killQueue_pk {h : Hints} {s : State} {now : Nat} {q : ScqId} {code : Nat} (hI : Inv s) (hP : PInv s) :
    wpk (killQueue h s now q code) PInv := by
  unfold killQueue
  apply wpk_bind
  refine wpk_mono (enter_both hI hP) ?_
  intro s0 ⟨hI0, hP0⟩
  split
  · apply wpk_pure; exact PInv.of_same (s := s0) rfl rfl rfl hP0
  · split
    · apply wpk_pure; exact PInv.of_same (s := s0) rfl rfl rfl hP0
    · apply wpk_bind
      refine wpk_mono (cancelAllQueued_pk (h := h) hI0 hP0) ?_
      intro s1 hP1
      apply wpk_pure; exact PInv.of_same (s := s1) rfl rfl rfl hP1

theorem mem_wset' {ws : List Worker} {w x : Worker} (h : x ∈ wset ws w) :
    x = w ∨ (x ∈ ws ∧ ¬ (x.scq = w.scq ∧ x.id = w.id)) := by
  unfold wset at h
  obtain ⟨y, hy, e⟩ := List.mem_map.mp h
  split at e
  · exact Or.inl e.symm
  · rename_i hne; subst e; exact Or.inr ⟨hy, hne⟩

/-- lookup of a size-class queue after `setScq` -/
theorem scq?_setScq {s : State} {nq : Scq} {i : ScqId} {sq' : Scq} (h : (s.setScq nq).scq? i = some sq') :
    (i = nq.id ∧ sq' = nq) ∨ (i ≠ nq.id ∧ s.scq? i = some sq') := by
  unfold State.scq? State.setScq at *
  revert h
  generalize s.scqs = l
  intro h
  induction l with
  | nil => simp at h
  | cons a r ih =>
    rw [List.map_cons, List.find?_cons] at h
    rw [List.find?_cons]
    by_cases ha : a.id = nq.id
    · rw [if_pos ha] at h
      by_cases hi : nq.id = i
      · simp only [hi, decide_true] at h
        cases h; exact Or.inl ⟨hi.symm, rfl⟩
      · simp only [hi, decide_false] at h
        have hai : ¬ a.id = i := by rw [ha]; exact hi
        simp only [hai, decide_false]
        exact ih h
    · rw [if_neg ha] at h
      by_cases hai : a.id = i
      · simp only [hai, decide_true] at h ⊢
        cases h
        exact Or.inr ⟨fun e => ha (hai.trans e), rfl⟩
      · simp only [hai, decide_false] at h ⊢
        exact ih h

theorem foldl_wake_parked (c : Worker → Prop) [DecidablePred c] (l : List Worker) {s : State}
    (hl : WNodup l) (hcur : ∀ w, w ∈ l → wfind s.workers w.scq w.id = some w) :
    (∀ wk, wk ∈ (l.foldl (fun s w => if c w then wakeWorker s w else s) s).workers → wk.parked = true →
        wk ∈ s.workers ∧ (wk ∈ l → ¬ c wk)) ∧
      (l.foldl (fun s w => if c w then wakeWorker s w else s) s).tasks = s.tasks ∧
      (l.foldl (fun s w => if c w then wakeWorker s w else s) s).scqs = s.scqs := by
  induction l generalizing s with
  | nil => exact ⟨fun wk h _ => ⟨h, fun hm => by cases hm⟩, rfl, rfl⟩
  | cons a r ih =>
    rw [List.foldl_cons]
    simp only [WNodup, List.pairwise_cons] at hl
    by_cases hca : c a
    · rw [if_pos hca]
      have hcur1 : ∀ w, w ∈ r → wfind (wakeWorker s a).workers w.scq w.id = some w := by
        intro w hw
        have hne := hl.1 w hw
        simp only [wakeWorker, setWorker_eq]
        rw [wfind_wset, if_neg]
        · exact hcur w (List.mem_cons_of_mem _ hw)
        · exact fun h => hne ⟨h.1, h.2⟩
      obtain ⟨h1, h2, h3⟩ := ih hl.2 hcur1
      refine ⟨?_, h2, h3⟩
      intro wk hwk hp
      obtain ⟨hm, hr⟩ := h1 wk hwk hp
      simp only [wakeWorker, setWorker_eq] at hm
      rcases mem_wset' hm with e | ⟨hm', hne⟩
      · subst e; cases hp
      · refine ⟨hm', ?_⟩
        intro hmem
        rcases List.mem_cons.mp hmem with e | e
        · subst e; exact absurd ⟨rfl, rfl⟩ hne
        · exact hr e
    · rw [if_neg hca]
      obtain ⟨h1, h2, h3⟩ := ih hl.2 (fun w hw => hcur w (List.mem_cons_of_mem _ hw))
      refine ⟨?_, h2, h3⟩
      intro wk hwk hp
      obtain ⟨hm, hr⟩ := h1 wk hwk hp
      refine ⟨hm, ?_⟩
      intro hmem
      rcases List.mem_cons.mp hmem with e | e
      · subst e; exact hca
      · exact hr e

theorem addDrain_pk {h : Hints} {s : State} {now : Nat} {q : ScqId} {p : Pattern} (hI : Inv s) (hP : PInv s) :
    wpk (addDrain h s now q p) PInv := by
  unfold addDrain
  apply wpk_bind
  refine wpk_mono (enter_both hI hP) ?_
  intro s0 ⟨hI0, hP0⟩
  split
  · apply wpk_pure; exact PInv.of_same (s := s0) rfl rfl rfl hP0
  · rename_i sq hsq
    apply wpk_pure
    have hsqid : sq.id = q := by
      have := List.find?_some hsq; simpa using this
    obtain ⟨h1, h2, h3⟩ := foldl_wake_parked (fun w => w.scq = q ∧ w.parked = true ∧ p.matches w.id = true)
      (s0.setScq { sq with drains := if sq.drains.contains p then sq.drains else sq.drains ++ [p] }).workers
      (s := s0.setScq { sq with drains := if sq.drains.contains p then sq.drains else sq.drains ++ [p] })
      hI0.core.wnd (fun w hw => wfind_of_mem hI0.core.wnd hw)
    refine ⟨?_, ?_, ?_⟩
    · intro wk hwk hp k t ht hq
      have hm := (h1 wk hwk hp).1
      simp only [emit] at ht
      rw [h2] at ht
      exact hP0.pq wk hm hp k t ht hq
    · intro wk hwk hp
      exact hP0.pt wk (h1 wk hwk hp).1 hp
    · intro wk hwk hp sq' hsq'
      obtain ⟨hm, hnc⟩ := h1 wk hwk hp
      have hm' : wk ∈ s0.workers := hm
      have hsq2 : (s0.setScq { sq with drains := if sq.drains.contains p then sq.drains else sq.drains ++ [p] }).scq? wk.scq
          = some sq' := by
        unfold State.scq? at hsq' ⊢
        simp only [emit] at hsq'
        rw [h3] at hsq'; exact hsq'
      rcases scq?_setScq hsq2 with ⟨e1, e2⟩ | ⟨e1, e2⟩
      · subst e2
        have hwq : wk.scq = q := e1.trans hsqid
        have hold := hP0.pd wk hm' hp sq (by rw [hwq]; exact hsq)
        have hnm : p.matches wk.id = false := by
          cases hpm : p.matches wk.id with
          | false => rfl
          | true => exact absurd ⟨hwq, hp, hpm⟩ (hnc hm')
        dsimp only
        split
        · exact hold
        · rw [List.any_append, hold]; simp [hnm]
      · exact hP0.pd wk hm' hp sq' e2

theorem any_filter_false {α} {l : List α} {f g : α → Bool} (h : l.any g = false) : (l.filter f).any g = false := by
  rw [List.any_eq_false] at *
  intro x hx
  exact h x (List.mem_filter.mp hx).1

theorem removeDrain_pk {h : Hints} {s : State} {now : Nat} {q : ScqId} {p : Pattern} (hI : Inv s) (hP : PInv s) :
    wpk (removeDrain h s now q p) PInv := by
  unfold removeDrain
  apply wpk_bind
  refine wpk_mono (enter_both hI hP) ?_
  intro s0 ⟨hI0, hP0⟩
  split
  · apply wpk_pure; exact PInv.of_same (s := s0) rfl rfl rfl hP0
  · rename_i sq hsq
    apply wpk_pure
    have hsqid : sq.id = q := by
      have := List.find?_some hsq; simpa using this
    refine ⟨hP0.pq, hP0.pt, ?_⟩
    intro wk hwk hp sq' hsq'
    have hwk' : wk ∈ s0.workers := hwk
    rcases scq?_setScq (s := s0) (i := wk.scq) hsq' with ⟨e1, e2⟩ | ⟨e1, e2⟩
    · subst e2
      have hwq : wk.scq = q := e1.trans hsqid
      have hold := hP0.pd wk hwk' hp sq (by rw [hwq]; exact hsq)
      exact any_filter_false hold
    · exact hP0.pd wk hwk' hp sq' e2

theorem termStep_pf {s : State} (w : Worker) (hI : Inv s) : PF s (termStep s w) := by
  unfold termStep
  cases hw : s.worker? w.scq w.id with
  | none => exact PF.refl s
  | some wk =>
    dsimp only
    simp only [worker?_def] at hw
    have hk := wfind_key hw
    have hw' : wfind s.workers wk.scq wk.id = some wk := by rw [hk.1, hk.2]; exact hw
    have hw1 := wfind_setWorker_self (wk' := { wk with terminating := true }) hw' rfl rfl
    split
    · simp only [worker?_def, hw1]
      refine ⟨?_, fun k t h hq => ⟨t, h, hq, rfl⟩, fun _ _ h => Or.inl h⟩
      intro x hx hp
      simp only [wakeWorker, setWorker_eq] at hx
      rcases mem_wset' hx with e | ⟨hm, hne⟩
      · subst e; cases hp
      · rcases mem_wset' hm with e | ⟨hm', _⟩
        · subst e; exact absurd ⟨rfl, rfl⟩ hne
        · exact hm'
    · rename_i hc
      have hp : wk.parked = false := by
        cases hp : wk.parked with
        | false => rfl
        | true =>
          have := (hI.core.w1 _ _ wk hw hp).1
          exact absurd ⟨by rw [this]; rfl, hp⟩ hc
      exact PF.setWorker_unparked hp

theorem foldl_termStep_pk (l : List Worker) {s : State} (hI : Inv s) (hP : PInv s) : PInv (l.foldl termStep s) := by
  induction l generalizing s with
  | nil => exact hP
  | cons a r ih =>
    rw [List.foldl_cons]
    exact ih (termStep_spec a hI).1 ((termStep_pf a hI).pinv hP)

theorem terminate_pk {h : Hints} {s : State} {now id : Nat} {p : Pattern} (hI : Inv s) (hP : PInv s) :
    wpk (terminate h s now id p) PInv := by
  rw [terminate_eq]
  apply wpk_bind
  refine wpk_mono (enter_both hI hP) ?_
  intro s0 ⟨hI0, hP0⟩
  dsimp only
  have hP1 := foldl_termStep_pk (s0.workers.filter (fun w => p.matches w.id)) hI0 hP0
  split
  · apply wpk_pure; exact PInv.of_same (s := List.foldl termStep s0 _) rfl rfl rfl hP1
  · apply wpk_pure; exact PInv.of_same (s := List.foldl termStep s0 _) rfl rfl rfl hP1

theorem termWake_pk {s : State} {id reason : Nat} (hP : PInv s) : wpk (termWake s id reason) PInv := by
  unfold termWake
  split
  · dsimp only
    split
    · apply wpk_pure; exact PInv.of_same (s := s) rfl rfl rfl hP
    · split
      · pkerr
      · apply wpk_pure; exact PInv.of_same (s := s) rfl rfl rfl hP
  · pkerr

theorem find?_append_nodrain {l l2 : List Scq} {i : ScqId} {sq : Scq} (h2 : ∀ x ∈ l2, x.drains = [])
    (h : (l ++ l2).find? (fun x => x.id = i) = some sq) :
    l.find? (fun x => x.id = i) = some sq ∨ sq.drains = [] := by
  rw [List.find?_append] at h
  cases hl : l.find? (fun x => x.id = i) with
  | some a => rw [hl] at h; exact Or.inl h
  | none =>
    rw [hl] at h
    simp only [Option.none_or] at h
    exact Or.inr (h2 sq (List.mem_of_find?_eq_some h))

theorem registerPQ_pinv {s : State} (id : Nat) (comps : List Nat) (platform : Nat) (sizes : List Nat)
    (bgMax : Nat) (bgPrio : Int) (hP : PInv s) : PInv (registerPQ s id comps platform sizes bgMax bgPrio) := by
  refine PF.pinv (s := s) ⟨fun _ h _ => h, fun k t h hq => ⟨t, h, hq, rfl⟩, ?_⟩ hP
  intro i sq hsq
  refine find?_append_nodrain ?_ hsq
  intro x hx
  obtain ⟨sc, _, e⟩ := List.mem_map.mp hx
  rw [← e]

theorem pinv_step {s s' : State} (g : Seg) (hI : Inv s) (hP : PInv s) (h : step s g = .ok s') : PInv s' := by
  cases g with
  | register id comps platform sizes bgMax bgPrio =>
    cases h; exact registerPQ_pinv id comps platform sizes bgMax bgPrio hP
  | exec h' now c d dk dnc comps platform inv prio => exact execArrive_pk hI hP s' h
  | wait h' now c name => exact waitArrive_pk hI hP s' h
  | streamWake h' now c reason => exact streamWake_pk hI hP s' h
  | sync h' now q comps platform w rep pi => exact syncArrive_pk hI hP s' h
  | syncWake h' now q w reason => exact syncWake_pk hI hP s' h
  | killOp h' now name code => exact killOp_pk hI hP s' h
  | killQueue h' now q code => exact killQueue_pk hI hP s' h
  | addDrain h' now q p => exact addDrain_pk hI hP s' h
  | removeDrain h' now q p => exact removeDrain_pk hI hP s' h
  | terminate h' now id p => exact terminate_pk hI hP s' h
  | termWake id reason => exact termWake_pk hP s' h
  | touch h' now => exact enter_pk hI hP s' h

theorem pinv_init (cfg : Cfg) : PInv (State.init cfg) := by
  constructor <;> simp [State.init]

theorem pinv_reachable {s : State} (h : Reachable s) : PInv s := by
  induction h with
  | init cfg => exact pinv_init cfg
  | step g hr hs ih => exact pinv_step g (inv_reachable hr) ih hs

/-- **While a worker is parked in a size-class queue no task of that queue is queued, and every
parked worker is undrained and not terminating** — in every reachable state of the scheduler model. -/
theorem parkedOK_reachable {s : State} (h : Reachable s) : ParkedOK s :=
  (pinv_reachable h).parkedOK (inv_reachable h)

end BbRe.Lemmas.SchedInv
