import BbRe.Lemmas.BRLSet
/-!
# Helper lemmas for C20: the two `panic`s in `Set` are unreachable

`Model/BRL.lean` does not model the two
`panic("New entry has multiple trailing overlapping entries, which is impossible")`
statements of `Set` (it silently overwrites the trailing part).  The functions
below are copies of the recursion skeletons of `phase1` / `phase2` that return
whether such a `panic` would be reached (`leTrailing != nil` at the moment a
second trailing part is created).  They are instrumentation next to the model,
not part of it (the differential harness exercises `phase1`/`phase2` only; a
panic of the real code would show up there as a crash).
-/
namespace BbRe.Lemmas.BRL
open BbRe.BRL BbRe.Spec.ByteLocks

/-- First loop: would the `panic` at `byte_range_lock_set.go:111-113` be reached? -/
def phase1Panics (n : Lock) (trailing : Option Lock) : List Lock → Bool
  | [] => false
  | s :: rest =>
    if n.start ≤ s.start then false
    else if s.owner = n.owner then
      if n.ty = s.ty then
        if n.start ≤ s.stop then false else phase1Panics n trailing rest
      else if n.start < s.stop then
        if n.stop < s.stop then
          trailing.isSome || phase1Panics n (some { s with start := n.stop }) rest
        else phase1Panics n trailing rest
      else phase1Panics n trailing rest
    else phase1Panics n trailing rest

/-- Second loop: would the `panic` at `byte_range_lock_set.go:170-172` be reached? -/
def phase2Panics (n : Lock) (trailing : Option Lock) : List Lock → Bool
  | [] => false
  | s :: rest =>
    if n.stop < s.start then false
    else if s.owner = n.owner then
      if n.stop ≥ s.stop then phase2Panics n trailing rest
      else if n.ty = s.ty then phase2Panics { n with stop := s.stop } trailing rest
      else trailing.isSome || phase2Panics n (some { s with start := n.stop }) rest
    else phase2Panics n trailing rest

/-- Would `Set ls l` panic? -/
def setPanics (ls : List Lock) (l : Lock) : Bool :=
  let r1 := phase1 l none ls
  phase1Panics l none ls || phase2Panics r1.2.2.1 r1.2.2.2 r1.2.1

theorem phase1Panics_false (n : Lock) (tr : Option Lock) (ls : List Lock)
    (hn : n.start < n.stop) (hp : ls.Pairwise Rel) (hin : HTr n tr ls) :
    phase1Panics n tr ls = false := by
  induction ls generalizing tr with
  | nil => rfl
  | cons s rest ih =>
    rw [List.pairwise_cons] at hp
    have hin' : HTr n tr rest := fun h e he => hin h e (by simp [he])
    unfold phase1Panics
    split
    · rfl
    · split
      · rename_i h1 h2
        have htr : tr = none := by
          cases tr with
          | none => rfl
          | some x => have := hin rfl s (by simp) h2; omega
        subst htr
        split
        · split
          · rfl
          · exact ih none hp.2 hin'
        · split
          · split
            · simp only [Option.isSome_none, Bool.false_or]
              apply ih _ hp.2
              intro _ e he ho
              have := ((hp.1 e he).2.1 (by omega)).1
              omega
            · exact ih none hp.2 hin'
          · exact ih none hp.2 hin'
      · exact ih tr hp.2 hin'

theorem phase2Panics_false (n : Lock) (tr : Option Lock) (ls : List Lock)
    (hp : ls.Pairwise Rel) (hin : HTr n tr ls) :
    phase2Panics n tr ls = false := by
  induction ls generalizing n tr with
  | nil => rfl
  | cons s rest ih =>
    rw [List.pairwise_cons] at hp
    have hin' : HTr n tr rest := fun h e he => hin h e (by simp [he])
    unfold phase2Panics
    split
    · rfl
    · split
      · rename_i h1 h2
        have htr : tr = none := by
          cases tr with
          | none => rfl
          | some x => have := hin rfl s (by simp) h2; omega
        subst htr
        split
        · exact ih n none hp.2 hin'
        · split
          · exact ih _ none hp.2 (by simp [HTr])
          · simp only [Option.isSome_none, Bool.false_or]
            apply ih _ _ hp.2
            intro _ e he ho
            have := ((hp.1 e he).2.1 (by omega)).1
            omega
      · exact ih n tr hp.2 hin'

theorem setPanics_false {ls : List Lock} {l : Lock} (hwf : WF ls) (hl : l.start < l.stop) :
    setPanics ls l = false := by
  rw [wf_iff] at hwf
  unfold setPanics
  simp only [Bool.or_eq_false_iff]
  refine ⟨phase1Panics_false l none ls hl hwf.2 (by simp [HTr]), ?_⟩
  have hn1 := phase1_n l none ls
  apply phase2Panics_false _ _ _ (hwf.2.sublist (phase1_suffix l none ls).sublist)
  exact (phase1_htr l none ls hwf.2 (by simp [HTr])).congr hn1.2.2.1 hn1.1

end BbRe.Lemmas.BRL
