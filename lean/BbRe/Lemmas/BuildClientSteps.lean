import BbRe.Lemmas.BuildClient
/-!
Preservation of `Inv` (Lemmas/BuildClient.lean) by every handler of
`Model/BuildClient.lean`.
-/
namespace BbRe.Lemmas.BuildClient
open BbRe.BuildClient

macro "pcsimp" : tactic => `(tactic| first | (simp; done) | (simp; split <;> simp))

theorem sac_append {l : List Obs} (h : SentAfterCancel l) (o : Obs)
    (ho : ∀ r sn, o = .sent r sn → Obs.cancel ∈ l → r.preferIdle = true) :
    SentAfterCancel (l ++ [o]) := by
  intro l1 l2 heq r sn hm
  rcases List.eq_nil_or_concat l2 with h2 | ⟨l2', b, h2⟩
  · subst h2; simp at hm
  · subst h2
    have e1 : l1 ++ Obs.cancel :: (l2'.concat b) = (l1 ++ Obs.cancel :: l2') ++ [b] := by simp
    rw [e1] at heq
    have hl : l = l1 ++ Obs.cancel :: l2' := List.append_inj_left' heq rfl
    have hb : [o] = [b] := List.append_inj_right' heq rfl
    simp at hb hm
    rcases hm with hm | hm
    · exact h l1 l2' hl r sn hm
    · subst hb
      exact ho r sn hm.symm (by rw [hl]; simp)

/-- Appending one entry to the log (shutdown flag unchanged). -/
theorem logOK_append {l : List Obs} {c : Bool} (h : LogInv l c) (o : Obs) (ho : ObsOK o)
    (hc : o = .cancel → c = true := by simp)
    (hs : ∀ r sn, o = .sent r sn → c = true → r.preferIdle = true := by simp) :
    LogInv (l ++ [o]) c := by
  obtain ⟨h1, h2, h3⟩ := h
  refine ⟨?_, ?_, ?_⟩
  · intro o' ho'
    simp at ho'
    rcases ho' with ho' | ho'
    · exact h1 o' ho'
    · subst ho'; exact ho
  · intro hm
    simp at hm
    rcases hm with hm | hm
    · exact h2 hm
    · exact hc hm.symm
  · exact sac_append h3 o (fun r sn e hm => hs r sn e (h2 hm))

theorem logOK_cancel {l : List Obs} {c : Bool} (h : LogInv l c) : LogInv (l ++ [.cancel]) true := by
  obtain ⟨h1, _, h3⟩ := h
  refine ⟨?_, fun _ => rfl, sac_append h3 _ (by simp)⟩
  intro o' ho'
  simp at ho'
  rcases ho' with ho' | ho'
  · exact h1 o' ho'
  · subst ho'; trivial

theorem inv_log {s : State} (h : Inv s) (o : Obs) (ho : ObsOK o)
    (hc : o = .cancel → s.cancelled = true := by simp)
    (hs : ∀ r sn, o = .sent r sn → s.cancelled = true → r.preferIdle = true := by simp) :
    Inv { s with log := s.log ++ [o] } := by
  obtain ⟨h1, h2, h3, h4, h5, h6, h7, h8, h9⟩ := h
  exact ⟨h1, h2, h3, h4, h5, h6, h7, h8, logOK_append h9 o ho hc hs⟩

def toldFor (k : DrainFor) (r : Option Reply) : Prop :=
  match k with
  | .idle => ∃ ts, r = some (.reply (some ts) .idle)
  | .start d => ∃ ts, r = some (.reply (some ts) (.execute (.ok d)))

theorem live_zero_of {s : State} (hr : ∀ e ∈ s.retired, e.closed = true ∧ e.received <+: e.emitted)
    (hc : s.cur = none) : live s = 0 := by
  simp [live, hc, filter_closed_nil hr]

theorem inv_finishStop {s : State}
    (hr : ∀ e ∈ s.retired, e.closed = true ∧ e.received <+: e.emitted)
    (hc : s.cur = none) (hl : LogInv s.log s.cancelled) (k : DrainFor) (hk : toldFor k s.lastReply) :
    Inv (finishStop s k) := by
  cases k with
  | idle =>
    simp only [finishStop, retRun]
    refine ⟨hr, ?_, ?_, ?_, ?_, ?_, ?_, ?_, ?_⟩
    · intro e he; simp [hc] at he
    · simp [ReqHonest, hc]
    · pcsimp
    · intro rc; pcsimp
    · intro d; pcsimp
    · pcsimp
    · intro _; right; simp [hc]
    · exact logOK_append hl _ (by simp [ObsOK, RetOK, snap])
  | start d =>
    simp only [finishStop, retRun, touch]
    refine ⟨hr, ?_, ?_, ?_, ?_, ?_, ?_, ?_, ?_⟩
    · intro e he; simp at he; subst he
      refine ⟨by simp [chanCap], by simp, by simp [pending], by simp [pending, updsOf], by simp [pending]⟩
    · simp [ReqHonest, lastExec]
    · pcsimp
    · intro rc; pcsimp
    · intro d; pcsimp
    · pcsimp
    · intro ht
      obtain ⟨ts, hts⟩ := ht
      obtain ⟨ts', hts'⟩ := hk
      simp at hts; rw [hts] at hts'; simp at hts'
    · have hsp : ObsOK (Obs.spawn s.nextId d (snap { s with req := .idle } false)) := by
        refine ⟨?_, ?_⟩
        · simp [snap]; exact live_zero_of (s := { s with req := .idle }) hr hc
        · simpa [snap, toldFor] using hk
      exact logOK_append (logOK_append hl _ hsp) _ (by simp [ObsOK, RetOK])

/-- Replacing the current executor by a later stage of itself. -/
theorem inv_setCur {s : State} (h : Inv s) {e e' : Exec} (hc : s.cur = some e)
    (wf : ExecWF e') (hd : e'.digest = e.digest)
    (hr : ∀ r, e.returned = some r → e'.returned = some r)
    (hv : (∀ k, s.pc ≠ .drain k) → e'.received = e.received) :
    Inv { s with cur := some e' } := by
  obtain ⟨h1, h2, h3, h4, h5, h6, h7, h8, h9⟩ := h
  refine ⟨h1, ?_, ?_, h4, h5, h6, h7, ?_, h9⟩
  · intro x hx; simp at hx; subst hx; exact wf
  · unfold ReqHonest at h3 ⊢
    simp only
    split
    · rename_i hq; rw [hq] at h3; simp at h3; simp [hc] at h3
    · rename_i d p hq
      rw [hq] at h3
      simp only [lastExec, hc] at h3
      obtain ⟨x, hx, hxd, hxr, hxu⟩ := h3
      simp at hx; subst hx
      refine ⟨e', by simp [lastExec], by rw [hd, hxd], ?_, ?_⟩
      · intro r hp; exact hr r (hxr r hp)
      · intro u hp hk; rw [hv hk]; exact hxu u hp hk
  · intro ht
    rcases h8 ht with h | ⟨_, _, h⟩
    · exact Or.inl h
    · rw [hc] at h; cases h


theorem wf_emit {e : Exec} (wf : ExecWF e) (u : Upd) (_hr : e.returned = none)
    (hb : e.blocked = none) (hc : e.closed = false) :
    ExecWF { push e ⟨e.digest, .upd u⟩ with emitted := e.emitted ++ [u] } := by
  obtain ⟨w1, w2, w3, w4, w5⟩ := wf
  unfold push
  split
  · rename_i hl
    refine ⟨?_, ?_, ?_, ?_, ?_⟩
    · simp; unfold chanCap at *; omega
    · simp [hc]
    · intro m hm
      simp [pending, hb] at hm w3 ⊢
      rcases hm with hm | hm
      · exact w3 m hm
      · subst hm; rfl
    · simp [pending, hb, updsOf_append] at w4 ⊢
      rw [← List.append_assoc, w4]; simp [updsOf, updOf]
    · intro m hm r hp
      simp [pending, hb] at hm w5 ⊢
      rcases hm with hm | hm
      · exact w5 m hm r hp
      · subst hm; simp at hp
  · rename_i hl
    refine ⟨?_, ?_, ?_, ?_, ?_⟩
    · simpa using w1
    · simp [hc]
    · intro m hm
      simp [pending, hb] at hm w3 ⊢
      rcases hm with hm | hm
      · exact w3 m hm
      · subst hm; rfl
    · simp [pending, hb, updsOf_append] at w4 ⊢
      rw [← List.append_assoc, w4]; simp [updsOf, updOf]
    · intro m hm r hp
      simp [pending, hb] at hm w5 ⊢
      rcases hm with hm | hm
      · exact w5 m hm r hp
      · subst hm; simp at hp

theorem wf_finish {e : Exec} (wf : ExecWF e) (r : Resp) (hr : e.returned = none)
    (hb : e.blocked = none) (hc : e.closed = false) :
    ExecWF { push e ⟨e.digest, .completed r⟩ with returned := some r } := by
  obtain ⟨w1, w2, w3, w4, w5⟩ := wf
  unfold push
  split
  · rename_i hl
    refine ⟨?_, ?_, ?_, ?_, ?_⟩
    · simp; unfold chanCap at *; omega
    · simp [hc]
    · intro m hm
      simp [pending, hb] at hm w3 ⊢
      rcases hm with hm | hm
      · exact w3 m hm
      · subst hm; rfl
    · simp [pending, hb, updsOf_append] at w4 ⊢
      rw [← w4]; simp [updsOf, updOf]
    · intro m hm r' hp
      simp [pending, hb] at hm w5 ⊢
      rcases hm with hm | hm
      · have := w5 m hm r' hp; simp [hr] at this
      · subst hm; simp at hp; simp [hp]
  · rename_i hl
    refine ⟨?_, ?_, ?_, ?_, ?_⟩
    · simpa using w1
    · simp [hc]
    · intro m hm
      simp [pending, hb] at hm w3 ⊢
      rcases hm with hm | hm
      · exact w3 m hm
      · subst hm; rfl
    · simp [pending, hb, updsOf_append] at w4 ⊢
      rw [← w4]; simp [updsOf, updOf]
    · intro m hm r' hp
      simp [pending, hb] at hm w5 ⊢
      rcases hm with hm | hm
      · have := w5 m hm r' hp; simp [hr] at this
      · subst hm; simp at hp; simp [hp]

theorem wf_close {e : Exec} (wf : ExecWF e) (hr : e.returned.isSome = true) (hb : e.blocked = none) :
    ExecWF { e with closed := true } := by
  obtain ⟨w1, w2, w3, w4, w5⟩ := wf
  exact ⟨w1, fun _ => ⟨hb, hr⟩, w3, w4, w5⟩

theorem wf_drainRecv {e : Exec} (wf : ExecWF e) (m : Msg) (rest : List Msg) (hbuf : e.buf = m :: rest) :
    ExecWF { e with buf := rest ++ e.blocked.toList, blocked := none,
                    received := e.received ++ updOf m } := by
  obtain ⟨w1, w2, w3, w4, w5⟩ := wf
  refine ⟨?_, ?_, ?_, ?_, ?_⟩
  · simp [hbuf] at w1 ⊢
    cases e.blocked <;> simp <;> omega
  · intro hc; have := w2 hc; simp_all
  · intro x hx
    apply w3
    simp [pending, hbuf] at hx ⊢
    rcases hx with hx | hx
    · exact Or.inr (Or.inl hx)
    · exact Or.inr (Or.inr hx)
  · simp [pending, hbuf, updsOf_append, updsOf_cons] at w4 ⊢
    exact w4
  · intro x hx r hp
    apply w5 x _ r hp
    simp [pending, hbuf] at hx ⊢
    rcases hx with hx | hx
    · exact Or.inr (Or.inl hx)
    · exact Or.inr (Or.inr hx)

theorem inv_pc {s : State} (h : Inv s) (hnd : ∀ k, s.pc ≠ .drain k) (pc' : Pc)
    (hnd' : ∀ k, pc' ≠ .drain k) (hr : pc' = .ready → s.mayThink = none)
    (hs : ∀ rc, pc' = .select rc → rc = true ∨ s.mayThink.isSome = true) :
    Inv { s with pc := pc' } := by
  obtain ⟨h1, h2, h3, h4, h5, h6, h7, h8, h9⟩ := h
  refine ⟨h1, h2, ?_, hr, hs, ?_, ?_, ?_, h9⟩
  · unfold ReqHonest at h3 ⊢
    simp only
    split
    · rename_i hq; rw [hq] at h3; exact h3
    · rename_i d p hq
      rw [hq] at h3
      obtain ⟨x, hx, hxd, hxr, hxu⟩ := h3
      exact ⟨x, hx, hxd, hxr, fun u hp _ => hxu u hp hnd⟩
  · intro d hd; exact absurd hd (hnd' _)
  · intro hd; exact absurd hd (hnd' _)
  · intro ht
    rcases h8 ht with h | h
    · exact absurd h (hnd _)
    · exact Or.inr h

theorem sentOK_of_inv {s : State} (h : Inv s) (hnd : ∀ k, s.pc ≠ .drain k) (rc : Bool)
    (hrc : rc = true ∨ s.mayThink.isSome = true) :
    SentOK ⟨s.req, s.cancelled || (preferOf s.req s.mayThink).1⟩ (snap s rc) := by
  refine ⟨?_, ?_, ?_, ?_, ?_, ?_, ?_⟩
  · intro hq
    have := h.honest; unfold ReqHonest at this
    simp at hq; rw [hq] at this
    exact live_cur_none h this
  · intro d p hq
    have hh := h.honest; unfold ReqHonest at hh
    simp at hq; rw [hq] at hh
    obtain ⟨x, hx, hxd, hxr, hxu⟩ := hh
    refine ⟨x, hx, hxd, hxr, fun u hp => ⟨hxu u hp hnd, ?_⟩⟩
    unfold lastExec at hx
    split at hx
    · rename_i e hc; simp at hx; subst hx
      have := (h.curWF _ hc).fifo
      exact ⟨_, this⟩
    · rename_i hc
      have := List.mem_of_mem_head? hx
      exact (h.retired _ this).2
  · intro d x hq hok
    simp at hq; simp [hq, preferOf, hok]
  · intro hq hm
    simp [snap] at hq hm; simp [hq, preferOf, hm]
  · intro hq hp
    simp at hq hp ⊢
    simp [hq, preferOf] at hp
    rcases hrc with hrc | hrc
    · simp [snap, hrc]
    · simp [hp.2] at hrc
  · intro hc; simp [snap] at hc; simp [hc]
  · intro ht
    simp [snap] at ht
    rcases h.toldIdle ht with hh | hh
    · exact absurd hh (hnd _)
    · exact hh.1

theorem inv_sendReq {s : State} (h : Inv s) (hnd : ∀ k, s.pc ≠ .drain k) (rc : Bool)
    (hrc : rc = true ∨ s.mayThink.isSome = true) : Inv (sendReq s rc) := by
  have h1 := inv_pc h hnd (.sync (preferOf s.req s.mayThink).2) (by simp) (by simp) (by simp)
  exact inv_log h1 _ (sentOK_of_inv h hnd rc hrc) (by simp)
    (by intro r sn e hc; simp at e hc; rw [← e.1]; simp [hc])

theorem inv_retRun {s : State} (h : Inv s) (hnd : ∀ k, s.pc ≠ .drain k) (mt err : Bool)
    (hok : RetOK mt (snap s false)) : Inv (retRun s mt err) := by
  have h1 := inv_pc h hnd (if mt && s.cancelled then .terminated else .top)
    (by intro k; split <;> simp) (by split <;> simp) (by intro rc; split <;> simp)
  exact inv_log h1 _ hok


end BbRe.Lemmas.BuildClient
