import BbRe.Lemmas.NfsInvDefs
/-!
# Group S of the invariant of `Model/NfsState.lean` is preserved by every core action

`InvS` is split into predicates on the lists it talks about (`FilesOK`, `IosOK`,
`TempsOK`, `DeadUsed`); each is shown stable under the list operations the
actions use (map at one sid, filter, append of a fresh element, growing `nextId`).
Core Lean only.
-/
namespace BbRe.Lemmas.NfsInvS
open BbRe.NfsState BbRe.NfsShare BbRe.Lemmas.NfsInv

/-! ## General helpers (exported) -/

theorem getFile_some {s : State} {sid : Nat} {f : OFile} (h : s.getFile sid = some f) :
    f ∈ s.files ∧ f.sid = sid := by
  unfold State.getFile at h
  refine ⟨List.mem_of_find?_eq_some h, ?_⟩
  have := List.find?_some h
  simpa using this

theorem getTemp_some {s : State} {tag : Nat} {t : Temp} (h : s.getTemp tag = some t) :
    t ∈ s.temps ∧ t.tag = tag := by
  unfold State.getTemp at h
  refine ⟨List.mem_of_find?_eq_some h, ?_⟩
  have := List.find?_some h
  simpa using this

theorem getClient_some {s : State} {cl : Nat} {c : Client} (h : s.getClient cl = some c) :
    c ∈ s.clients ∧ c.id = cl := by
  unfold State.getClient at h
  refine ⟨List.mem_of_find?_eq_some h, ?_⟩
  have := List.find?_some h
  simpa using this

theorem getPool_some {s : State} {file : Nat} {e : PoolEnt} (h : s.getPool file = some e) :
    e ∈ s.pool ∧ e.file = file := by
  unfold State.getPool at h
  refine ⟨List.mem_of_find?_eq_some h, ?_⟩
  have := List.find?_some h
  simpa using this

theorem mem_modFile {s : State} {sid : Nat} {g : OFile → OFile} {f : OFile} :
    f ∈ (s.modFile sid g).files ↔ ∃ f0 ∈ s.files, f = if f0.sid == sid then g f0 else f0 := by
  unfold State.modFile
  simp only [List.mem_map]
  constructor
  · rintro ⟨a, ha, rfl⟩; exact ⟨a, ha, rfl⟩
  · rintro ⟨a, ha, rfl⟩; exact ⟨a, ha, rfl⟩

/-- keys that are `Nodup` identify the element -/
theorem eq_of_nodup_map {α β} (k : α → β) : ∀ {l : List α}, (l.map k).Nodup →
    ∀ {a b}, a ∈ l → b ∈ l → k a = k b → a = b
  | [], _, _, _, ha, _, _ => by cases ha
  | x :: l, hn, a, b, ha, hb, hk => by
    simp only [List.map_cons, List.nodup_cons, List.mem_map, not_exists, not_and] at hn
    rcases List.mem_cons.1 ha with rfl | ha' <;> rcases List.mem_cons.1 hb with rfl | hb'
    · rfl
    · exact absurd hk.symm (hn.1 b hb')
    · exact absurd hk (hn.1 a ha')
    · exact eq_of_nodup_map k hn.2 ha' hb' hk

theorem nodup_map_filter {α β} (k : α → β) (p : α → Bool) {l : List α} (h : (l.map k).Nodup) :
    ((l.filter p).map k).Nodup :=
  List.Nodup.sublist (List.Sublist.map k List.filter_sublist) h

theorem nodup_map_append_fresh {α β} (k : α → β) {l : List α} {x : α} (h : (l.map k).Nodup)
    (hx : ∀ a ∈ l, k a ≠ k x) : ((l ++ [x]).map k).Nodup := by
  rw [List.map_append, List.nodup_append]
  refine ⟨h, by simp, ?_⟩
  intro a ha b hb
  simp only [List.map_cons, List.map_nil, List.mem_singleton] at hb
  subst hb
  rcases List.mem_map.1 ha with ⟨a0, ha0, rfl⟩
  exact hx a0 ha0

/-! ## `InvS` as a conjunction of list predicates -/

structure FilesOK (fs : List OFile) (n : Nat) : Prop where
  sidNodup : (fs.map (·.sid)).Nodup
  sidLt : ∀ f ∈ fs, f.sid < n
  lofsSidNodup : ∀ f ∈ fs, (f.lofs.map (·.sid)).Nodup
  lofsSidLt : ∀ f ∈ fs, ∀ l ∈ f.lofs, l.sid < n
  deadClean : ∀ f ∈ fs, f.live = false → f.share = Mask.none ∧ f.lofs = []

structure IosOK (ios : List IOrec) (n : Nat) : Prop where
  ioLt : ∀ io ∈ ios, io.sid < n
  ioTagNodup : (ios.map (·.tag)).Nodup

def TempsOK (ts : List Temp) : Prop := (ts.map (·.tag)).Nodup

def DeadUsed (fs : List OFile) (ios : List IOrec) : Prop :=
  ∀ f ∈ fs, f.live = false → ∃ io ∈ ios, io.sid = f.sid

theorem invS_iff (s : State) :
    InvS s ↔ FilesOK s.files s.nextId ∧ IosOK s.ios s.nextId ∧ TempsOK s.temps ∧ DeadUsed s.files s.ios :=
  ⟨fun h => ⟨⟨h.sidNodup, h.sidLt, h.lofsSidNodup, h.lofsSidLt, h.deadClean⟩, ⟨h.ioLt, h.ioTagNodup⟩,
      h.tempTagNodup, h.deadUsed⟩,
   fun ⟨hf, hi, ht, hd⟩ => ⟨hf.sidNodup, hf.sidLt, hi.ioLt, hi.ioTagNodup, ht, hf.lofsSidNodup,
      hf.lofsSidLt, hf.deadClean, hd⟩⟩

theorem fOK {s : State} (h : InvS s) : FilesOK s.files s.nextId := ((invS_iff s).1 h).1
theorem iOK {s : State} (h : InvS s) : IosOK s.ios s.nextId := ((invS_iff s).1 h).2.1
theorem tOK {s : State} (h : InvS s) : TempsOK s.temps := ((invS_iff s).1 h).2.2.1
theorem dU {s : State} (h : InvS s) : DeadUsed s.files s.ios := ((invS_iff s).1 h).2.2.2

theorem invS_mk {s : State} (hf : FilesOK s.files s.nextId) (hi : IosOK s.ios s.nextId)
    (ht : TempsOK s.temps) (hd : DeadUsed s.files s.ios) : InvS s := (invS_iff s).2 ⟨hf, hi, ht, hd⟩

/-- Frame rule: an action that leaves files, I/O records and temporary opens alone and
does not decrease `nextId` preserves `InvS`. -/
theorem invS_frame {s s' : State} (h : InvS s) (hf : s'.files = s.files) (hi : s'.ios = s.ios)
    (ht : s'.temps = s.temps) (hn : s.nextId ≤ s'.nextId) : InvS s' := by
  refine ⟨?_, ?_, ?_, ?_, ?_, ?_, ?_, ?_, ?_⟩
  · rw [hf]; exact h.sidNodup
  · rw [hf]; intro f m; exact Nat.lt_of_lt_of_le (h.sidLt f m) hn
  · rw [hi]; intro f m; exact Nat.lt_of_lt_of_le (h.ioLt f m) hn
  · rw [hi]; exact h.ioTagNodup
  · rw [ht]; exact h.tempTagNodup
  · rw [hf]; exact h.lofsSidNodup
  · rw [hf]; intro f m l ml; exact Nat.lt_of_lt_of_le (h.lofsSidLt f m l ml) hn
  · rw [hf]; exact h.deadClean
  · rw [hf, hi]; exact h.deadUsed

/-- `State.fail` only sets `panic`. -/
theorem invS_fail (s : State) (m : String) : InvS (s.fail m) ↔ InvS s :=
  ⟨fun h => invS_frame (s := s.fail m) (s' := s) h rfl rfl rfl (Nat.le_refl _),
   fun h => invS_frame (s := s) (s' := s.fail m) h rfl rfl rfl (Nat.le_refl _)⟩

/-! ## Stability of the list predicates -/

theorem FilesOK.mono {fs n n'} (h : FilesOK fs n) (hn : n ≤ n') : FilesOK fs n' :=
  ⟨h.sidNodup, fun f m => Nat.lt_of_lt_of_le (h.sidLt f m) hn, h.lofsSidNodup,
   fun f m l ml => Nat.lt_of_lt_of_le (h.lofsSidLt f m l ml) hn, h.deadClean⟩

theorem FilesOK.unique {fs n} (h : FilesOK fs n) {a b : OFile} (ha : a ∈ fs) (hb : b ∈ fs)
    (hab : a.sid = b.sid) : a = b :=
  eq_of_nodup_map (·.sid) h.sidNodup ha hb hab

theorem map_sid_modify (fs : List OFile) (sid : Nat) (g : OFile → OFile) (hsid : ∀ f, (g f).sid = f.sid) :
    (fs.map (fun f => if f.sid == sid then g f else f)).map (·.sid) = fs.map (·.sid) := by
  rw [List.map_map]
  apply List.map_congr_left
  intro f _
  simp only [Function.comp]
  split
  · exact hsid f
  · rfl

theorem FilesOK.filter {fs n} (h : FilesOK fs n) (p : OFile → Bool) : FilesOK (fs.filter p) n :=
  ⟨nodup_map_filter _ p h.sidNodup,
   fun f m => h.sidLt f (List.mem_filter.1 m).1,
   fun f m => h.lofsSidNodup f (List.mem_filter.1 m).1,
   fun f m => h.lofsSidLt f (List.mem_filter.1 m).1,
   fun f m => h.deadClean f (List.mem_filter.1 m).1⟩

/-- Modify the record with state ID `sid` (if any). -/
theorem FilesOK.modify {fs n} (h : FilesOK fs n) (sid : Nat) (g : OFile → OFile)
    (hsid : ∀ f, (g f).sid = f.sid)
    (hg : ∀ f ∈ fs, f.sid = sid → ((g f).lofs.map (·.sid)).Nodup ∧ (∀ l ∈ (g f).lofs, l.sid < n) ∧
      ((g f).live = false → (g f).share = Mask.none ∧ (g f).lofs = [])) :
    FilesOK (fs.map (fun f => if f.sid == sid then g f else f)) n := by
  refine ⟨?_, ?_, ?_, ?_, ?_⟩
  · rw [map_sid_modify fs sid g hsid]; exact h.sidNodup
  · intro f m
    rcases List.mem_map.1 m with ⟨f0, m0, rfl⟩
    split
    · rw [hsid]; exact h.sidLt f0 m0
    · exact h.sidLt f0 m0
  · intro f m
    rcases List.mem_map.1 m with ⟨f0, m0, rfl⟩
    split
    · next hc => exact (hg f0 m0 (by simpa using hc)).1
    · exact h.lofsSidNodup f0 m0
  · intro f m
    rcases List.mem_map.1 m with ⟨f0, m0, rfl⟩
    split
    · next hc => exact (hg f0 m0 (by simpa using hc)).2.1
    · exact h.lofsSidLt f0 m0
  · intro f m
    rcases List.mem_map.1 m with ⟨f0, m0, rfl⟩
    split
    · next hc => exact (hg f0 m0 (by simpa using hc)).2.2
    · exact h.deadClean f0 m0

/-- Append a record with a fresh state ID and no lock-owner files. -/
theorem FilesOK.append {fs n} (h : FilesOK fs n) (f : OFile) (hs : f.sid = n) (hl : f.lofs = [])
    (hlive : f.live = true) : FilesOK (fs ++ [f]) (n + 1) := by
  have h' := h.mono (Nat.le_succ n)
  refine ⟨?_, ?_, ?_, ?_, ?_⟩
  · apply nodup_map_append_fresh _ h.sidNodup
    intro a ha; have := h.sidLt a ha; show a.sid ≠ f.sid; omega
  · intro a ha
    rcases List.mem_append.1 ha with ha | ha
    · exact h'.sidLt a ha
    · simp only [List.mem_singleton] at ha; subst ha; omega
  · intro a ha
    rcases List.mem_append.1 ha with ha | ha
    · exact h'.lofsSidNodup a ha
    · simp only [List.mem_singleton] at ha; subst ha; rw [hl]; simp
  · intro a ha
    rcases List.mem_append.1 ha with ha | ha
    · exact h'.lofsSidLt a ha
    · simp only [List.mem_singleton] at ha; subst ha; rw [hl]; intro l ml; cases ml
  · intro a ha
    rcases List.mem_append.1 ha with ha | ha
    · exact h'.deadClean a ha
    · simp only [List.mem_singleton] at ha; subst ha; intro hd; rw [hlive] at hd; cases hd

theorem IosOK.mono {ios n n'} (h : IosOK ios n) (hn : n ≤ n') : IosOK ios n' :=
  ⟨fun f m => Nat.lt_of_lt_of_le (h.ioLt f m) hn, h.ioTagNodup⟩

theorem IosOK.filter {ios n} (h : IosOK ios n) (p : IOrec → Bool) : IosOK (ios.filter p) n :=
  ⟨fun io m => h.ioLt io (List.mem_filter.1 m).1, nodup_map_filter _ p h.ioTagNodup⟩

theorem IosOK.append {ios n} (h : IosOK ios n) (io : IOrec) (hs : io.sid < n)
    (ht : ios.any (fun x => x.tag == io.tag) = false) : IosOK (ios ++ [io]) n := by
  refine ⟨?_, ?_⟩
  · intro a ha
    rcases List.mem_append.1 ha with ha | ha
    · exact h.ioLt a ha
    · simp only [List.mem_singleton] at ha; subst ha; exact hs
  · apply nodup_map_append_fresh _ h.ioTagNodup
    intro a ha heq
    have : ios.any (fun x => x.tag == io.tag) = true :=
      List.any_eq_true.2 ⟨a, ha, by simpa using heq⟩
    rw [ht] at this; cases this

theorem TempsOK.filter {ts} (h : TempsOK ts) (p : Temp → Bool) : TempsOK (ts.filter p) :=
  nodup_map_filter _ p h

theorem TempsOK.append {ts} (h : TempsOK ts) (t : Temp)
    (ht : ts.any (fun x => x.tag == t.tag) = false) : TempsOK (ts ++ [t]) := by
  apply nodup_map_append_fresh _ h
  intro a ha heq
  have : ts.any (fun x => x.tag == t.tag) = true :=
    List.any_eq_true.2 ⟨a, ha, by simpa using heq⟩
  rw [ht] at this; cases this

/-- Modifying a record without killing it keeps `DeadUsed`; the I/O list may grow. -/
theorem DeadUsed.modify {fs ios ios'} (h : DeadUsed fs ios) (sid : Nat) (g : OFile → OFile)
    (hsid : ∀ f, (g f).sid = f.sid)
    (hlive : ∀ f ∈ fs, f.sid = sid → (g f).live = false → f.live = false)
    (hsub : ∀ io ∈ ios, io ∈ ios') :
    DeadUsed (fs.map (fun f => if f.sid == sid then g f else f)) ios' := by
  intro f m hd
  rcases List.mem_map.1 m with ⟨f0, m0, rfl⟩
  split at hd
  · next hc =>
    rw [if_pos hc, hsid]
    rcases h f0 m0 (hlive f0 m0 (by simpa using hc) hd) with ⟨io, mio, e⟩
    exact ⟨io, hsub io mio, e⟩
  · next hc =>
    rw [if_neg hc]
    rcases h f0 m0 hd with ⟨io, mio, e⟩
    exact ⟨io, hsub io mio, e⟩

theorem DeadUsed.append {fs ios} (h : DeadUsed fs ios) (f : OFile) (hlive : f.live = true) :
    DeadUsed (fs ++ [f]) ios := by
  intro a ha hd
  rcases List.mem_append.1 ha with ha | ha
  · exact h a ha hd
  · simp only [List.mem_singleton] at ha; subst ha; rw [hlive] at hd; cases hd

/-- What `gc` keeps is live or referred to by I/O. -/
theorem deadUsed_gc (fs : List OFile) (ios : List IOrec) :
    DeadUsed (fs.filter (fun f => f.live || ios.any (fun io => io.sid == f.sid))) ios := by
  intro f m hd
  have := (List.mem_filter.1 m).2
  rw [hd, Bool.false_or, List.any_eq_true] at this
  rcases this with ⟨io, mio, e⟩
  exact ⟨io, mio, by simpa using e⟩

/-- `gc` establishes `deadUsed` and keeps the rest. -/
theorem invS_gc {s : State} (hf : FilesOK s.files s.nextId) (hi : IosOK s.ios s.nextId)
    (ht : TempsOK s.temps) : InvS (s.gc) :=
  invS_mk (s := s.gc) (hf.filter _) hi ht (deadUsed_gc s.files s.ios)

/-! ## Helpers that do not touch files, I/O records, temporary opens or `nextId` -/

section frames
variable (s : State)

@[simp] theorem fail_files (m : String) : (s.fail m).files = s.files := rfl
@[simp] theorem fail_ios (m : String) : (s.fail m).ios = s.ios := rfl
@[simp] theorem fail_temps (m : String) : (s.fail m).temps = s.temps := rfl
@[simp] theorem fail_nextId (m : String) : (s.fail m).nextId = s.nextId := rfl

@[simp] theorem modClient_files (cl : Nat) (g : Client → Client) : (s.modClient cl g).files = s.files := rfl
@[simp] theorem modClient_ios (cl : Nat) (g : Client → Client) : (s.modClient cl g).ios = s.ios := rfl
@[simp] theorem modClient_temps (cl : Nat) (g : Client → Client) : (s.modClient cl g).temps = s.temps := rfl
@[simp] theorem modClient_nextId (cl : Nat) (g : Client → Client) : (s.modClient cl g).nextId = s.nextId := rfl

@[simp] theorem modPool_files (fl : Nat) (g : PoolEnt → PoolEnt) : (s.modPool fl g).files = s.files := rfl
@[simp] theorem modPool_ios (fl : Nat) (g : PoolEnt → PoolEnt) : (s.modPool fl g).ios = s.ios := rfl
@[simp] theorem modPool_temps (fl : Nat) (g : PoolEnt → PoolEnt) : (s.modPool fl g).temps = s.temps := rfl
@[simp] theorem modPool_nextId (fl : Nat) (g : PoolEnt → PoolEnt) : (s.modPool fl g).nextId = s.nextId := rfl

@[simp] theorem modFile_files (sid : Nat) (g : OFile → OFile) :
    (s.modFile sid g).files = s.files.map (fun f => if f.sid == sid then g f else f) := rfl
@[simp] theorem modFile_ios (sid : Nat) (g : OFile → OFile) : (s.modFile sid g).ios = s.ios := rfl
@[simp] theorem modFile_temps (sid : Nat) (g : OFile → OFile) : (s.modFile sid g).temps = s.temps := rfl
@[simp] theorem modFile_nextId (sid : Nat) (g : OFile → OFile) : (s.modFile sid g).nextId = s.nextId := rfl

@[simp] theorem gc_files : s.gc.files = s.files.filter (fun f => f.live || s.ios.any (fun io => io.sid == f.sid)) := rfl
@[simp] theorem gc_ios : s.gc.ios = s.ios := rfl
@[simp] theorem gc_temps : s.gc.temps = s.temps := rfl
@[simp] theorem gc_nextId : s.gc.nextId = s.nextId := rfl

@[simp] theorem pushPend_files (leaf : Nat) (m : Mask) : (s.pushPend leaf m).files = s.files := by
  unfold State.pushPend; split <;> rfl
@[simp] theorem pushPend_ios (leaf : Nat) (m : Mask) : (s.pushPend leaf m).ios = s.ios := by
  unfold State.pushPend; split <;> rfl
@[simp] theorem pushPend_temps (leaf : Nat) (m : Mask) : (s.pushPend leaf m).temps = s.temps := by
  unfold State.pushPend; split <;> rfl
@[simp] theorem pushPend_nextId (leaf : Nat) (m : Mask) : (s.pushPend leaf m).nextId = s.nextId := by
  unfold State.pushPend; split <;> rfl

@[simp] theorem holdClient_files (cl : Nat) : (s.holdClient cl).files = s.files := by
  unfold State.holdClient; split
  · rfl
  · simp only [modClient_files]; split <;> rfl
@[simp] theorem holdClient_ios (cl : Nat) : (s.holdClient cl).ios = s.ios := by
  unfold State.holdClient; split
  · rfl
  · simp only [modClient_ios]; split <;> rfl
@[simp] theorem holdClient_temps (cl : Nat) : (s.holdClient cl).temps = s.temps := by
  unfold State.holdClient; split
  · rfl
  · simp only [modClient_temps]; split <;> rfl
@[simp] theorem holdClient_nextId (cl : Nat) : (s.holdClient cl).nextId = s.nextId := by
  unfold State.holdClient; split
  · rfl
  · simp only [modClient_nextId]; split <;> rfl

@[simp] theorem releaseClient_files (cl : Nat) : (s.releaseClient cl).files = s.files := by
  unfold State.releaseClient; split
  · rfl
  · split
    · rfl
    · split <;> rfl
@[simp] theorem releaseClient_ios (cl : Nat) : (s.releaseClient cl).ios = s.ios := by
  unfold State.releaseClient; split
  · rfl
  · split
    · rfl
    · split <;> rfl
@[simp] theorem releaseClient_temps (cl : Nat) : (s.releaseClient cl).temps = s.temps := by
  unfold State.releaseClient; split
  · rfl
  · split
    · rfl
    · split <;> rfl
@[simp] theorem releaseClient_nextId (cl : Nat) : (s.releaseClient cl).nextId = s.nextId := by
  unfold State.releaseClient; split
  · rfl
  · split
    · rfl
    · split <;> rfl

end frames

theorem invS_pushPend {s : State} (h : InvS s) (leaf : Nat) (m : Mask) : InvS (s.pushPend leaf m) :=
  invS_frame h (by simp) (by simp) (by simp) (by simp)
theorem invS_holdClient {s : State} (h : InvS s) (cl : Nat) : InvS (s.holdClient cl) :=
  invS_frame h (by simp) (by simp) (by simp) (by simp)
theorem invS_releaseClient {s : State} (h : InvS s) (cl : Nat) : InvS (s.releaseClient cl) :=
  invS_frame h (by simp) (by simp) (by simp) (by simp)
theorem invS_modClient {s : State} (h : InvS s) (cl : Nat) (g : Client → Client) : InvS (s.modClient cl g) :=
  invS_frame h rfl rfl rfl (Nat.le_refl _)
theorem invS_modPool {s : State} (h : InvS s) (fl : Nat) (g : PoolEnt → PoolEnt) : InvS (s.modPool fl g) :=
  invS_frame h rfl rfl rfl (Nat.le_refl _)

/-! ## The actions that leave files, I/O records and temporary opens alone -/

theorem invS_tick {s : State} (h : InvS s) (d : Nat) : InvS (Do.tick s d) :=
  invS_frame h rfl rfl rfl (Nat.le_refl _)

theorem invS_setNow {s : State} (h : InvS s) : InvS (Do.setNow s) :=
  invS_frame h rfl rfl rfl (Nat.le_refl _)

theorem invS_newClient {s : State} (h : InvS s) (long ver : Nat) : InvS (Do.newClient s long ver) := by
  unfold Do.newClient; split
  · exact h
  · exact invS_frame h rfl rfl rfl (Nat.le_succ _)

theorem invS_touch {s : State} (h : InvS s) (cl : Nat) : InvS (Do.touch s cl) :=
  invS_releaseClient (invS_holdClient h cl) cl

theorem invS_confirmClient {s : State} (h : InvS s) (cl : Nat) : InvS (Do.confirmClient s cl) := by
  unfold Do.confirmClient; split
  · exact h
  · split
    · exact (invS_fail _ _).2 h
    · exact invS_modClient h _ _

theorem invS_dropClient {s : State} (h : InvS s) (cl : Nat) : InvS (Do.dropClient s cl) := by
  unfold Do.dropClient; split
  · exact h
  · repeat' split
    all_goals first | exact (invS_fail _ _).2 h | exact invS_frame h rfl rfl rfl (Nat.le_refl _)

theorem invS_addSession {s : State} (h : InvS s) (cl k : Nat) : InvS (Do.addSession s cl k) :=
  invS_modClient h _ _

theorem invS_delSession {s : State} (h : InvS s) (cl k : Nat) : InvS (Do.delSession s cl k) :=
  invS_modClient h _ _

theorem invS_holdBegin {s : State} (h : InvS s) (tag cl : Nat) : InvS (Do.holdBegin s tag cl) := by
  unfold Do.holdBegin; split
  · exact h
  · apply invS_holdClient; exact invS_frame h rfl rfl rfl (Nat.le_refl _)

theorem invS_holdEnd {s : State} (h : InvS s) (tag : Nat) : InvS (Do.holdEnd s tag) := by
  unfold Do.holdEnd; split
  · exact h
  · apply invS_releaseClient; exact invS_frame h rfl rfl rfl (Nat.le_refl _)

theorem invS_ooSet {s : State} (h : InvS s) (oo : OOwner) : InvS (Do.ooSet s oo) := by
  unfold Do.ooSet; split
  · exact h
  · repeat' split
    all_goals first | exact h | exact invS_frame h rfl rfl rfl (Nat.le_refl _)

theorem invS_ooDel {s : State} (h : InvS s) (cl key : Nat) : InvS (Do.ooDel s cl key) := by
  unfold Do.ooDel; split
  · exact (invS_fail _ _).2 h
  · exact invS_frame h rfl rfl rfl (Nat.le_refl _)

theorem invS_loRegister {s : State} (h : InvS s) (cl key : Nat) : InvS (Do.loRegister s cl key) := by
  unfold Do.loRegister; split
  · exact h
  · exact invS_frame h rfl rfl rfl (Nat.le_succ _)

theorem invS_loPrune {s : State} (h : InvS s) (id : Nat) : InvS (Do.loPrune s id) := by
  unfold Do.loPrune; split
  · exact h
  · exact invS_frame h rfl rfl rfl (Nat.le_refl _)

theorem invS_loSet {s : State} (h : InvS s) (id lastSeq : Nat) (resp : Option (Nat × String × Nat × Nat)) :
    InvS (Do.loSet s id lastSeq resp) :=
  invS_frame h rfl rfl rfl (Nat.le_refl _)

theorem invS_flush {s : State} (h : InvS s) : InvS (Do.flush s) := by
  unfold Do.flush; split
  · exact h
  · exact invS_frame h rfl rfl rfl (Nat.le_refl _)

theorem invS_setCur {s : State} (h : InvS s) (tag : Nat) : InvS (Do.setCur s tag) :=
  invS_frame h rfl rfl rfl (Nat.le_refl _)

theorem invS_setProto {s : State} (h : InvS s) (p : Proto) : InvS (Do.setProto s p) :=
  invS_frame h rfl rfl rfl (Nat.le_refl _)

/-! ## Temporary opens -/

theorem invS_vopen {s : State} (h : InvS s) (tag leaf : Nat) (m : Mask) (create trunc : Bool) :
    InvS (Do.vopen s tag leaf m create trunc) := by
  have hF := fOK h
  have hI := iOK h
  have hT := tOK h
  have hD := dU h
  unfold Do.vopen; split
  · exact h
  · next hc =>
    exact invS_mk hF hI (hT.append _ (by simpa using hc)) hD

theorem invS_tempClose {s : State} (h : InvS s) (tag : Nat) : InvS (Do.tempClose s tag) := by
  have hF := fOK h
  have hI := iOK h
  have hT := tOK h
  have hD := dU h
  unfold Do.tempClose; split
  · exact h
  · exact invS_mk hF hI (hT.filter _) hD

theorem invS_tempToPend {s : State} (h : InvS s) (tag : Nat) : InvS (Do.tempToPend s tag) := by
  have hF := fOK h
  have hI := iOK h
  have hT := tOK h
  have hD := dU h
  unfold Do.tempToPend; split
  · exact h
  · apply invS_pushPend
    exact invS_mk hF hI (hT.filter _) hD

/-! ## Two specialisations of `FilesOK.modify` -/

theorem mask_isNone {m : Mask} (h : m.isNone = true) : m = Mask.none := by
  cases m with
  | mk r w => cases r <;> cases w <;> simp [Mask.isNone, Mask.none] at h ⊢

/-- The modified record is live and stays live. -/
theorem FilesOK.modify_live {fs n} (h : FilesOK fs n) {f0 : OFile} {sid : Nat} (hf0 : f0 ∈ fs)
    (hs : f0.sid = sid) (hl : f0.live = true) (g : OFile → OFile)
    (hsid : ∀ f, (g f).sid = f.sid) (hlive : ∀ f, (g f).live = f.live)
    (hnd : ((g f0).lofs.map (·.sid)).Nodup) (hlt : ∀ l ∈ (g f0).lofs, l.sid < n) :
    FilesOK (fs.map (fun f => if f.sid == sid then g f else f)) n := by
  apply h.modify sid g hsid
  intro f hf hfs
  have : f = f0 := h.unique hf hf0 (by rw [hfs, hs])
  subst this
  refine ⟨hnd, hlt, ?_⟩
  intro hd; rw [hlive, hl] at hd; cases hd

/-- The modification keeps `live` and `share` and only drops or updates lock-owner files. -/
theorem FilesOK.modify_lofs {fs n} (h : FilesOK fs n) (sid : Nat) (g : OFile → OFile)
    (hsid : ∀ f, (g f).sid = f.sid) (hlive : ∀ f, (g f).live = f.live)
    (hshare : ∀ f, (g f).share = f.share)
    (hsub : ∀ f, ((g f).lofs.map (·.sid)).Sublist (f.lofs.map (·.sid))) :
    FilesOK (fs.map (fun f => if f.sid == sid then g f else f)) n := by
  apply h.modify sid g hsid
  intro f hf _
  refine ⟨List.Nodup.sublist (hsub f) (h.lofsSidNodup f hf), ?_, ?_⟩
  · intro l ml
    have : l.sid ∈ f.lofs.map (·.sid) := (hsub f).subset (List.mem_map.2 ⟨l, ml, rfl⟩)
    rcases List.mem_map.1 this with ⟨l0, ml0, e⟩
    have := h.lofsSidLt f hf l0 ml0
    have e' : l0.sid = l.sid := e
    omega
  · intro hd
    rw [hlive] at hd
    have hc := h.deadClean f hf hd
    refine ⟨by rw [hshare]; exact hc.1, ?_⟩
    have := hsub f
    rw [hc.2] at this
    simp only [List.map_nil, List.sublist_nil, List.map_eq_nil_iff] at this
    exact this

theorem DeadUsed.modify_live {fs ios ios'} (h : DeadUsed fs ios) (sid : Nat) (g : OFile → OFile)
    (hsid : ∀ f, (g f).sid = f.sid) (hlive : ∀ f, (g f).live = f.live)
    (hsub : ∀ io ∈ ios, io ∈ ios') :
    DeadUsed (fs.map (fun f => if f.sid == sid then g f else f)) ios' :=
  h.modify sid g hsid (fun f _ _ hd => by rw [hlive] at hd; exact hd) hsub

/-! ## Open-owner files -/

theorem invS_openNew {s : State} (h : InvS s) (tag cl owner : Nat) : InvS (Do.openNew s tag cl owner) := by
  have hF := fOK h
  have hI := iOK h
  have hT := tOK h
  have hD := dU h
  unfold Do.openNew; split
  · exact h
  · split
    · exact h
    · exact invS_mk (hF.append _ rfl rfl rfl) (hI.mono (Nat.le_succ _)) (hT.filter _)
        (hD.append _ rfl)

theorem invS_openUpgrade {s : State} (h : InvS s) (tag sid : Nat) : InvS (Do.openUpgrade s tag sid) := by
  have hF := fOK h
  have hI := iOK h
  have hT := tOK h
  have hD := dU h
  unfold Do.openUpgrade; split
  · next t f ht hf =>
    split
    · exact h
    · next hc =>
      have ⟨hm, hs⟩ := getFile_some hf
      have hl : f.live = true := by
        cases hfl : f.live
        · simp [hfl] at hc
        · rfl
      apply invS_pushPend
      refine invS_mk ?_ hI (hT.filter _) ?_
      · exact hF.modify_live hm hs hl _ (fun _ => rfl) (fun _ => rfl)
          (h.lofsSidNodup f hm) (h.lofsSidLt f hm)
      · exact hD.modify_live sid _ (fun _ => rfl) (fun _ => rfl) (fun _ m => m)
  · exact h

theorem invS_downgradeOpen {s : State} (h : InvS s) (sid : Nat) (new : Mask) :
    InvS (Do.downgradeOpen s sid new) := by
  have hF := fOK h
  have hI := iOK h
  have hT := tOK h
  have hD := dU h
  unfold Do.downgradeOpen; split
  · exact h
  · next f hf =>
    split
    · exact h
    · next hc =>
      have ⟨hm, hs⟩ := getFile_some hf
      have hl : f.live = true := by
        cases hfl : f.live
        · simp [hfl] at hc
        · rfl
      split
      · exact (invS_fail _ _).2 h
      · apply invS_pushPend
        refine invS_mk ?_ hI hT ?_
        · exact hF.modify_live hm hs hl _ (fun _ => rfl) (fun _ => rfl)
            (h.lofsSidNodup f hm) (h.lofsSidLt f hm)
        · exact hD.modify_live sid _ (fun _ => rfl) (fun _ => rfl) (fun _ m => m)

theorem invS_addLofs {s : State} (h : InvS s) (sid lo : Nat) : InvS (Do.addLofs s sid lo) := by
  have hF := fOK h
  have hI := iOK h
  have hT := tOK h
  have hD := dU h
  unfold Do.addLofs; split
  · exact h
  · next f hf =>
    split
    · exact h
    · next hc =>
      have ⟨hm, hs⟩ := getFile_some hf
      have hl : f.live = true := by
        cases hfl : f.live
        · simp [hfl] at hc
        · rfl
      split
      · exact (invS_fail _ _).2 h
      · refine invS_mk ?_ (hI.mono (Nat.le_succ _)) hT ?_
        · refine (hF.mono (Nat.le_succ _)).modify_live hm hs hl _ (fun _ => rfl) (fun _ => rfl) ?_ ?_
          · apply nodup_map_append_fresh _ (h.lofsSidNodup f hm)
            intro a ha; have := h.lofsSidLt f hm a ha
            show a.sid ≠ s.nextId; omega
          · intro l ml
            rcases List.mem_append.1 ml with ml | ml
            · exact Nat.lt_succ_of_lt (h.lofsSidLt f hm l ml)
            · simp only [List.mem_singleton] at ml; subst ml; exact Nat.lt_succ_self _
        · exact hD.modify_live sid _ (fun _ => rfl) (fun _ => rfl) (fun _ m => m)

theorem invS_removeLofs {s : State} (h : InvS s) (sid lsid : Nat) : InvS (Do.removeLofs s sid lsid) := by
  have hF := fOK h
  have hI := iOK h
  have hT := tOK h
  have hD := dU h
  unfold Do.removeLofs; split
  · exact h
  · split
    · exact h
    · split
      · exact (invS_fail _ _).2 h
      · split
        · exact (invS_fail _ _).2 h
        · apply invS_pushPend
          refine invS_mk ?_ hI hT ?_
          · exact hF.modify_lofs sid _ (fun _ => rfl) (fun _ => rfl) (fun _ => rfl)
              (fun _ => List.Sublist.map _ List.filter_sublist)
          · exact hD.modify_live sid _ (fun _ => rfl) (fun _ => rfl) (fun _ m => m)

theorem map_sid_lockCount (ls : List LOFile) (lsid : Nat) (d : Int) :
    (ls.map (fun l => if l.sid == lsid then { l with lockCount := l.lockCount + d } else l)).map (·.sid)
      = ls.map (·.sid) := by
  rw [List.map_map]
  apply List.map_congr_left
  intro l _
  simp only [Function.comp]
  split <;> rfl

theorem invS_unlockAllLofs {s : State} (h : InvS s) (sid lsid : Nat) : InvS (Do.unlockAllLofs s sid lsid) := by
  have hF := fOK h
  have hI := iOK h
  have hT := tOK h
  have hD := dU h
  unfold Do.unlockAllLofs; split
  · exact h
  · split
    · split
      · exact h
      · refine invS_mk ?_ hI hT ?_
        · exact hF.modify_lofs sid _ (fun _ => rfl) (fun _ => rfl) (fun _ => rfl)
            (fun f => by rw [map_sid_lockCount]; exact List.Sublist.refl _)
        · exact hD.modify_live sid _ (fun _ => rfl) (fun _ => rfl) (fun _ m => m)
    · exact h

theorem invS_lockSet {s : State} (h : InvS s) (sid lsid : Nat) (lk : BRL.Lock) :
    InvS (Do.lockSet s sid lsid lk) := by
  have hF := fOK h
  have hI := iOK h
  have hT := tOK h
  have hD := dU h
  unfold Do.lockSet; split
  · exact h
  · split
    · dsimp only
      split
      · exact (invS_fail _ _).2 h
      · refine invS_mk ?_ hI hT ?_
        · exact hF.modify_lofs sid _ (fun _ => rfl) (fun _ => rfl) (fun _ => rfl)
            (fun f => by rw [map_sid_lockCount]; exact List.Sublist.refl _)
        · exact hD.modify_live sid _ (fun _ => rfl) (fun _ => rfl) (fun _ m => m)
    · exact h

theorem invS_finalize {s : State} (h : InvS s) (sid : Nat) : InvS (Do.finalize s sid) := by
  have hF := fOK h
  have hI := iOK h
  have hT := tOK h
  unfold Do.finalize; split
  · exact h
  · next f hf =>
    split
    · exact h
    · next hc =>
      have ⟨hm, hs⟩ := getFile_some hf
      have hsh : f.share = Mask.none := by
        apply mask_isNone
        cases hx : f.share.isNone
        · simp [hx] at hc
        · rfl
      have hlo : f.lofs = [] := by
        cases hx : f.lofs with
        | nil => rfl
        | cons a l => simp [hx] at hc
      split
      · exact (invS_fail _ _).2 h
      · split
        · exact (invS_fail _ _).2 h
        · dsimp only
          refine invS_gc ?_ hI hT
          refine hF.modify sid (fun f => { f with live := false }) (fun _ => rfl) ?_
          intro f' hf' hfs
          have : f' = f := hF.unique hf' hm (by rw [hfs, hs])
          subst this
          refine ⟨h.lofsSidNodup f' hm, h.lofsSidLt f' hm, fun _ => ⟨hsh, hlo⟩⟩

/-! ## I/O in flight -/

theorem invS_ioBegin {s : State} (h : InvS s) (tag sid : Nat) (m : Mask) (holds : Bool) :
    InvS (Do.ioBegin s tag sid m holds) := by
  have hF := fOK h
  have hI := iOK h
  have hT := tOK h
  have hD := dU h
  unfold Do.ioBegin; split
  · exact h
  · next f hf =>
    split
    · exact h
    · next hc =>
      have ⟨hm, hs⟩ := getFile_some hf
      have hl : f.live = true := by
        cases hfl : f.live
        · simp [hfl] at hc
        · rfl
      have htag : s.ios.any (fun io => io.tag == tag) = false := by
        cases hx : s.ios.any (fun io => io.tag == tag)
        · rfl
        · rw [hx] at hc; simp at hc
      split
      · exact (invS_fail _ _).2 h
      · have key : InvS { s.modFile sid (fun f => { f with count := ‹ShareCount› }) with
            ios := s.ios ++ [{ tag := tag, sid := sid, cl := f.cl, share := m, holds := holds }] } := by
          refine invS_mk ?_ ?_ hT ?_
          · exact hF.modify_live hm hs hl _ (fun _ => rfl) (fun _ => rfl)
              (h.lofsSidNodup f hm) (h.lofsSidLt f hm)
          · exact hI.append _ (by have := h.sidLt f hm; show sid < s.nextId; omega) htag
          · exact hD.modify_live sid _ (fun _ => rfl) (fun _ => rfl)
              (fun _ m => List.mem_append_left _ m)
        split
        · exact invS_holdClient key _
        · exact key

theorem invS_ioEnd {s : State} (h : InvS s) (tag : Nat) : InvS (Do.ioEnd s tag) := by
  have hF := fOK h
  have hI := iOK h
  have hT := tOK h
  unfold Do.ioEnd; split
  · exact h
  · split
    · exact h
    · split
      · exact (invS_fail _ _).2 h
      · have hF : ∀ c : ShareCount, ∀ sid : Nat, FilesOK
            (s.files.map (fun f => if f.sid == sid then { f with count := c } else f)) s.nextId := fun c sid =>
          hF.modify_lofs sid _ (fun _ => rfl) (fun _ => rfl) (fun _ => rfl) (fun _ => List.Sublist.refl _)
        split
        · apply invS_gc
          · simp only [releaseClient_files, releaseClient_nextId, pushPend_files, pushPend_nextId,
              modFile_files, modFile_nextId]
            exact hF _ _
          · simp only [releaseClient_ios, releaseClient_nextId, pushPend_ios, pushPend_nextId,
              modFile_ios, modFile_nextId]
            exact hI.filter _
          · simp only [releaseClient_temps, pushPend_temps, modFile_temps]
            exact hT
        · apply invS_gc
          · simp only [pushPend_files, pushPend_nextId, modFile_files, modFile_nextId]
            exact hF _ _
          · simp only [pushPend_ios, pushPend_nextId, modFile_ios, modFile_nextId]
            exact hI.filter _
          · simp only [pushPend_temps, modFile_temps]
            exact hT

/-! ## Main theorems -/

theorem invS_init (ver n : Nat) : InvS (BbRe.NfsState.init ver n) := by
  refine ⟨?_, ?_, ?_, ?_, ?_, ?_, ?_, ?_, ?_⟩ <;> simp [BbRe.NfsState.init]

theorem invS_apply (s : State) (a : Act) (h : InvS s) : InvS (apply s a) := by
  unfold apply
  split
  · exact h
  · cases a with
    | tick d => exact invS_tick h d
    | setNow => exact invS_setNow h
    | newClient long ver => exact invS_newClient h long ver
    | touch cl => exact invS_touch h cl
    | confirmClient cl => exact invS_confirmClient h cl
    | dropClient cl => exact invS_dropClient h cl
    | addSession cl k => exact invS_addSession h cl k
    | delSession cl k => exact invS_delSession h cl k
    | holdBegin tag cl => exact invS_holdBegin h tag cl
    | holdEnd tag => exact invS_holdEnd h tag
    | ooSet oo => exact invS_ooSet h oo
    | ooDel cl key => exact invS_ooDel h cl key
    | loRegister cl key => exact invS_loRegister h cl key
    | loPrune id => exact invS_loPrune h id
    | loSet id lastSeq resp => exact invS_loSet h id lastSeq resp
    | vopen tag leaf m create trunc => exact invS_vopen h tag leaf m create trunc
    | tempClose tag => exact invS_tempClose h tag
    | tempToPend tag => exact invS_tempToPend h tag
    | openNew tag cl owner => exact invS_openNew h tag cl owner
    | openUpgrade tag sid => exact invS_openUpgrade h tag sid
    | downgradeOpen sid new => exact invS_downgradeOpen h sid new
    | addLofs sid lo => exact invS_addLofs h sid lo
    | removeLofs sid lsid => exact invS_removeLofs h sid lsid
    | unlockAllLofs sid lsid => exact invS_unlockAllLofs h sid lsid
    | lockSet sid lsid l => exact invS_lockSet h sid lsid l
    | finalize sid => exact invS_finalize h sid
    | ioBegin tag sid m holds => exact invS_ioBegin h tag sid m holds
    | ioEnd tag => exact invS_ioEnd h tag
    | flush => exact invS_flush h
    | setCur tag => exact invS_setCur h tag
    | proto p => exact invS_setProto h p

theorem invS_applyAll (s : State) (acts : List Act) (h : InvS s) : InvS (applyAll s acts) := by
  unfold applyAll
  induction acts generalizing s with
  | nil => exact h
  | cons a acts ih => exact ih (apply s a) (invS_apply s a h)

end BbRe.Lemmas.NfsInvS
