import BbRe.Lemmas.FairDynBasic
/-!
One level of the bottom-up walks of the dynamic C04 model: after a child changed and the parent's
`queuedChildren` heap was repaired by the heap operation the code calls (`heap.Fix`, `heap.Push`,
`heap.Remove`, or nothing when the child is not in the heap), the parent is well-formed again.
-/
namespace BbRe.Lemmas.Fair
open BbRe.Fair BbRe.GoHeap BbRe.Lemmas.GoHeap

/-- The part of `HeapTree` that concerns one invocation. -/
structure QOk (P : Inv) : Prop where
  keys : (P.kids.map Inv.key).Nodup
  qnodup : P.queued.Nodup
  qsub : ∀ k ∈ P.queued, ∃ c ∈ P.kids, c.key = k ∧ c.hasQueued = true
  qsup : ∀ c ∈ P.kids, c.hasQueued = true → c.key ∈ P.queued
  opsHeap : IsHeap opLess P.ops.toArray
  kidsHeap : IsHeap childLess (queuedNodes P).toArray

theorem heapTree_iff (P : Inv) : HeapTree P ↔ QOk P ∧ ∀ c ∈ P.kids, HeapTree c := by
  constructor
  · intro h
    cases h with
    | mk _ h1 h2 h3 h4 h5 h6 h7 => exact ⟨⟨h1, h2, h3, h4, h5, h6⟩, h7⟩
  · rintro ⟨⟨h1, h2, h3, h4, h5, h6⟩, h7⟩
    exact HeapTree.mk P h1 h2 h3 h4 h5 h6 h7

theorem filterMap_eq_map {α β : Type} (f : α → Option β) (g : α → β) :
    ∀ (l : List α), (∀ x ∈ l, f x = some (g x)) → l.filterMap f = l.map g
  | [], _ => rfl
  | a :: l, h => by
    rw [List.filterMap_cons, h a List.mem_cons_self, List.map_cons,
      filterMap_eq_map f g l (fun x hx => h x (List.mem_cons_of_mem _ hx))]

/-- When every reference resolves, the nodes of the heap are the references mapped by `kidOr`. -/
theorem queuedNodes_eq_map (P : Inv) (hsub : ∀ k ∈ P.queued, ∃ c ∈ P.kids, c.key = k) :
    queuedNodes P = P.queued.map (kidOr P.kids) := by
  unfold queuedNodes
  apply filterMap_eq_map
  intro k hk
  obtain ⟨c, hc, hck⟩ := hsub k hk
  unfold kidOr
  cases hf : P.kids.find? (fun c => c.key == k) with
  | none =>
    have := List.find?_eq_none.mp hf c hc
    simp [hck] at this
  | some d => rfl

theorem via_strictWeak {α β : Type} (f : β → α) {less : α → α → Bool} (sw : StrictWeak less) :
    StrictWeak (via f less) :=
  ⟨fun x y h => sw.asymm (f x) (f y) h, fun x y z h1 h2 => sw.negTrans (f x) (f y) (f z) h1 h2⟩

theorem qLess_eq_via (kids : List Inv) : qLess kids = via (kidOr kids) childLess := rfl

theorem isHeap_via {α β : Type} (f : β → α) (less : α → α → Bool) (a : Array β) :
    IsHeap (via f less) a ↔ IsHeap less (a.map f) := by
  unfold IsHeap IsHeapN
  simp only [lessAt_map, Array.size_map]

/-- The new state of the parent after the child `c` (`∈ P.kids`) became `c''` and the heap of
references became `q'`. -/
theorem qOk_level (P c c'' : Inv) (hP : QOk P) (hc : c ∈ P.kids) (hk : c''.key = c.key) (q' : List Nat)
    (hnd : q'.Nodup)
    (hmem : ∀ x, x ∈ q' ↔ (x ∈ P.queued ∧ x ≠ c.key) ∨ (x = c.key ∧ c''.hasQueued = true))
    (hheap : IsHeap (qLess (replaceKid P.kids c'')) q'.toArray) :
    QOk ((storeKid P c'').setQueued q') := by
  have hsub' : ∀ k ∈ q', ∃ d ∈ replaceKid P.kids c'', d.key = k ∧ d.hasQueued = true := by
    intro x hx
    rcases (hmem x).mp hx with ⟨hxq, hne⟩ | ⟨rfl, hq⟩
    · obtain ⟨d, hd, hdk, hdq⟩ := hP.qsub x hxq
      exact ⟨d, (mem_replaceKid _ _ _).mpr (Or.inr ⟨hd, by rw [hdk, hk]; exact hne⟩), hdk, hdq⟩
    · exact ⟨c'', (mem_replaceKid _ _ _).mpr (Or.inl ⟨rfl, c, hc, hk.symm⟩), hk, hq⟩
  constructor
  · simp only [storeKid, S.setQueued_kids, S.setKids_kids, replaceKid_keys]; exact hP.keys
  · simpa using hnd
  · simpa [storeKid] using hsub'
  · intro d hd hdq
    simp only [storeKid, S.setQueued_kids, S.setKids_kids] at hd
    simp only [S.setQueued_queued]
    rcases (mem_replaceKid _ _ _).mp hd with ⟨rfl, _⟩ | ⟨hdk, hne⟩
    · exact (hmem _).mpr (Or.inr ⟨hk, hdq⟩)
    · exact (hmem _).mpr (Or.inl ⟨hP.qsup d hdk hdq, by rw [← hk]; exact hne⟩)
  · simpa [storeKid] using hP.opsHeap
  · have hq : queuedNodes ((storeKid P c'').setQueued q') = q'.map (kidOr (replaceKid P.kids c'')) := by
      rw [queuedNodes_eq_map]
      · simp [storeKid]
      · intro k hkq
        simp only [S.setQueued_queued] at hkq
        obtain ⟨d, hd, hdk, _⟩ := hsub' k hkq
        exact ⟨d, by simpa [storeKid] using hd, hdk⟩
    rw [hq, qLess_eq_via, isHeap_via] at *
    simpa using hheap

/-! ### the lists after the heap operations -/

theorem nodup_of_perm_toList {a b : Array Nat} (h : a.Perm b) (hb : b.toList.Nodup) : a.toList.Nodup :=
  (Array.perm_iff_toList_perm.mp h).nodup_iff.mpr hb

theorem mem_of_perm_toList {a b : Array Nat} (h : a.Perm b) (x : Nat) : x ∈ a.toList ↔ x ∈ b.toList :=
  (Array.perm_iff_toList_perm.mp h).mem_iff

/-- The nodes seen through the new children: only the position of the changed child differs. -/
theorem map_kidOr_replace_at (kids : List Inv) (c'' c : Inv) (hc : c ∈ kids) (hk : c''.key = c.key)
    (q : List Nat) (hq : q.Nodup) (idx : Nat) (hidx : refIndex q c.key = some idx) :
    q.toArray.map (kidOr (replaceKid kids c'')) = (q.toArray.map (kidOr kids)).setIfInBounds idx c'' := by
  obtain ⟨hlt, hget⟩ := refIndex_some q c.key idx hidx
  apply Array.ext_getElem?
  intro j
  rw [Array.getElem?_setIfInBounds, Array.getElem?_map, Array.getElem?_map]
  simp only [List.getElem?_toArray, Array.size_map, List.size_toArray]
  by_cases hj : idx = j
  · subst hj
    rw [if_pos rfl, if_pos hlt, hget]
    simp only [Option.map_some]
    rw [← hk, kidOr_replaceKid_self kids c'' c hc hk.symm]
  · rw [if_neg hj]
    cases hqj : q[j]? with
    | none => rfl
    | some x =>
      simp only [Option.map_some]
      have hx : x ≠ c''.key := by
        intro hx
        rw [hk] at hx
        subst hx
        -- two positions of the same reference in a Nodup list
        have h1 : q[idx]? = q[j]? := by rw [hget, hqj]
        have := (List.getElem?_inj hlt hq).mp h1
        exact hj this
      rw [kidOr_replaceKid_ne kids c'' x hx]

theorem map_kidOr_replace_absent (kids : List Inv) (c'' : Inv) (q : List Nat) (hq : c''.key ∉ q) :
    q.toArray.map (kidOr (replaceKid kids c'')) = q.toArray.map (kidOr kids) := by
  apply Array.ext_getElem?
  intro j
  rw [Array.getElem?_map, Array.getElem?_map]
  simp only [List.getElem?_toArray]
  cases hqj : q[j]? with
  | none => rfl
  | some x =>
    simp only [Option.map_some]
    have : x ∈ q := List.mem_of_getElem? hqj
    rw [kidOr_replaceKid_ne kids c'' x (fun h => hq (h ▸ this))]

theorem queuedNodes_toArray (P : Inv) (hP : QOk P) :
    (queuedNodes P).toArray = P.queued.toArray.map (kidOr P.kids) := by
  rw [queuedNodes_eq_map P (fun k hk => by obtain ⟨c, hc, hck, _⟩ := hP.qsub k hk; exact ⟨c, hc, hck⟩)]
  simp

theorem mem_of_refIndex (q : List Nat) (k idx : Nat) (h : refIndex q k = some idx) : k ∈ q :=
  List.mem_of_getElem? (refIndex_some q k idx h).2

/-- `heap.Fix` after the key of a child that is in the heap changed. -/
theorem qOk_fix (P c c'' : Inv) (hP : QOk P) (hc : c ∈ P.kids) (hk : c''.key = c.key) (idx : Nat)
    (hidx : refIndex P.queued c.key = some idx) (hq : c''.hasQueued = true) :
    QOk ((storeKid P c'').setQueued (fix (qLess (replaceKid P.kids c'')) P.queued.toArray idx).toList) := by
  have hkq := mem_of_refIndex _ _ _ hidx
  have hperm := fix_perm (qLess (replaceKid P.kids c'')) P.queued.toArray idx
  apply qOk_level P c c'' hP hc hk
  · exact nodup_of_perm_toList hperm (by simpa using hP.qnodup)
  · intro x
    rw [mem_of_perm_toList hperm]
    simp only [hq, and_true]
    constructor
    · intro hx
      by_cases hxk : x = c.key
      · exact Or.inr hxk
      · exact Or.inl ⟨hx, hxk⟩
    · rintro (⟨hx, _⟩ | rfl)
      · exact hx
      · exact hkq
  · rw [Array.toArray_toList, qLess_eq_via, isHeap_via, fix_map,
      map_kidOr_replace_at P.kids c'' c hc hk P.queued hP.qnodup idx hidx]
    apply fix_heap_of_set childLess childLess_strictWeak
    · simpa using (refIndex_some _ _ _ hidx).1
    · rw [← queuedNodes_toArray P hP]; exact hP.kidsHeap

/-- `heap.Push` of a child that was not in the heap. -/
theorem qOk_push (P c c'' : Inv) (hP : QOk P) (hc : c ∈ P.kids) (hk : c''.key = c.key)
    (hidx : refIndex P.queued c.key = none) (hq : c''.hasQueued = true) :
    QOk ((storeKid P c'').setQueued (push (qLess (replaceKid P.kids c'')) P.queued.toArray c''.key).toList) := by
  have hkq : c.key ∉ P.queued := (refIndex_none_iff _ _).mp hidx
  have hperm := push_perm (qLess (replaceKid P.kids c'')) P.queued.toArray c''.key
  apply qOk_level P c c'' hP hc hk
  · apply nodup_of_perm_toList hperm
    simp only [Array.toList_push]
    rw [List.nodup_append]
    refine ⟨hP.qnodup, by simp, ?_⟩
    intro a ha b hb
    simp only [List.mem_singleton] at hb
    subst hb
    intro hab; subst hab; rw [hk] at ha; exact hkq ha
  · intro x
    rw [mem_of_perm_toList hperm]
    simp only [Array.toList_push, List.mem_append, List.mem_singleton, hq, and_true, hk]
    constructor
    · rintro (hx | rfl)
      · exact Or.inl ⟨hx, fun h => hkq (h ▸ hx)⟩
      · exact Or.inr rfl
    · rintro (⟨hx, _⟩ | rfl)
      · exact Or.inl hx
      · exact Or.inr rfl
  · rw [Array.toArray_toList, qLess_eq_via, isHeap_via, push_map,
      map_kidOr_replace_absent P.kids c'' P.queued (by rw [hk]; exact hkq),
      kidOr_replaceKid_self P.kids c'' c hc hk.symm]
    apply push_heap childLess childLess_strictWeak
    rw [← queuedNodes_toArray P hP]; exact hP.kidsHeap

/-- The child is not in the heap and has no queued work: nothing to do. -/
theorem qOk_keep (P c c'' : Inv) (hP : QOk P) (hc : c ∈ P.kids) (hk : c''.key = c.key)
    (hidx : refIndex P.queued c.key = none) (hq : c''.hasQueued = false) :
    QOk ((storeKid P c'').setQueued P.queued) := by
  have hkq : c.key ∉ P.queued := (refIndex_none_iff _ _).mp hidx
  apply qOk_level P c c'' hP hc hk
  · exact hP.qnodup
  · intro x
    simp only [hq, Bool.false_eq_true, and_false, or_false]
    exact ⟨fun hx => ⟨hx, fun h => hkq (h ▸ hx)⟩, fun h => h.1⟩
  · rw [qLess_eq_via, isHeap_via, map_kidOr_replace_absent P.kids c'' P.queued (by rw [hk]; exact hkq),
      ← queuedNodes_toArray P hP]
    exact hP.kidsHeap

/-- The fields `childLess` reads. -/
def KeyEq (a b : Inv) : Prop := a.exec = b.exec ∧ a.prio = b.prio ∧ a.started = b.started

theorem childLess_congr (a b x y : Inv) (h1 : KeyEq a b) (h2 : KeyEq x y) : childLess a x = childLess b y := by
  unfold childLess
  rw [h1.1, h1.2.1, h1.2.2, h2.1, h2.2.1, h2.2.2]

theorem KeyEq.refl (a : Inv) : KeyEq a a := ⟨rfl, rfl, rfl⟩

theorem isHeap_set_keyEq (A : Array Inv) (idx : Nat) (x c : Inv) (hA : A[idx]? = some c) (hke : KeyEq x c)
    (h : IsHeap childLess A) : IsHeap childLess (A.setIfInBounds idx x) := by
  have hl : ∀ p r, lessAt childLess (A.setIfInBounds idx x) p r = lessAt childLess A p r := by
    intro p r
    unfold lessAt
    rw [Array.getElem?_setIfInBounds, Array.getElem?_setIfInBounds]
    have hlt : idx < A.size := by
      apply Nat.lt_of_not_le
      intro hge
      rw [Array.getElem?_eq_none hge] at hA
      cases hA
    by_cases hp : idx = p <;> by_cases hr : idx = r
    · subst hp; subst hr; simp only [if_true, if_pos hlt, hA]
      exact childLess_congr x c x c hke hke
    · subst hp; simp only [if_true, if_pos hlt, if_neg hr, hA]
      cases A[r]? with
      | none => rfl
      | some y => exact childLess_congr x c y y hke (KeyEq.refl y)
    · subst hr; simp only [if_true, if_pos hlt, if_neg hp, hA]
      cases A[p]? with
      | none => rfl
      | some y => exact childLess_congr y y x c (KeyEq.refl y) hke
    · simp only [if_neg hp, if_neg hr]
  intro k hk0 hkn
  rw [hl]
  exact h k hk0 (by simpa using hkn)

/-- `heap.Remove` of a child that no longer has queued work (its keys are unchanged). -/
theorem qOk_remove (P c c'' : Inv) (hP : QOk P) (hc : c ∈ P.kids) (hk : c''.key = c.key) (idx : Nat)
    (hidx : refIndex P.queued c.key = some idx) (hq : c''.hasQueued = false) (hke : KeyEq c'' c) :
    QOk ((storeKid P c'').setQueued (remove (qLess (replaceKid P.kids c'')) P.queued.toArray idx).1.toList) := by
  obtain ⟨hlt, hget⟩ := refIndex_some _ _ _ hidx
  have hsz : idx < P.queued.toArray.size := by simpa using hlt
  have hsw : StrictWeak (qLess (replaceKid P.kids c'')) := via_strictWeak _ childLess_strictWeak
  have hA : IsHeap childLess (P.queued.toArray.map (kidOr P.kids)) := by
    rw [← queuedNodes_toArray P hP]; exact hP.kidsHeap
  have hheap0 : IsHeap (qLess (replaceKid P.kids c'')) P.queued.toArray := by
    rw [qLess_eq_via, isHeap_via, map_kidOr_replace_at P.kids c'' c hc hk P.queued hP.qnodup idx hidx]
    apply isHeap_set_keyEq _ idx c'' c _ hke hA
    rw [Array.getElem?_map]
    simp only [List.getElem?_toArray, hget, Option.map_some]
    exact congrArg some (kidOr_of_child P c.key c (child_of_mem P hP.keys c hc))
  obtain ⟨_, hperm, hres⟩ := remove_spec (qLess (replaceKid P.kids c'')) hsw P.queued.toArray idx hsz hheap0
  have hidxv : P.queued.toArray[idx] = c.key := by
    have : P.queued.toArray[idx]? = some c.key := by simpa using hget
    rw [Array.getElem?_eq_getElem hsz] at this
    exact Option.some.inj this
  rw [hidxv] at hperm
  have hnd0 : ((remove (qLess (replaceKid P.kids c'')) P.queued.toArray idx).1.push c.key).toList.Nodup :=
    nodup_of_perm_toList hperm (by simpa using hP.qnodup)
  simp only [Array.toList_push] at hnd0
  rw [List.nodup_append] at hnd0
  apply qOk_level P c c'' hP hc hk
  · exact hnd0.1
  · intro x
    have hm := mem_of_perm_toList hperm x
    simp only [Array.toList_push, List.mem_append, List.mem_singleton] at hm
    simp only [hq, Bool.false_eq_true, and_false, or_false]
    constructor
    · intro hx
      refine ⟨hm.mp (Or.inl hx), ?_⟩
      intro hxk
      exact hnd0.2.2 x hx c.key (by simp) hxk
    · rintro ⟨hx, hne⟩
      rcases hm.mpr hx with h | h
      · exact h
      · exact absurd h hne
  · rw [Array.toArray_toList]; exact hres

end BbRe.Lemmas.Fair
