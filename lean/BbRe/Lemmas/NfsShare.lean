/-
Lemmas about the share-reservation algebra of the NFSv4 servers (C18):
the counters of `shareCount` agree with the multiset of the holders' masks, and
`upgrade` / `downgrade` / `clone` preserve that agreement and return exactly
the "overlap" / "became zero" bits.  Core Lean only.
-/
import BbRe.Model.NfsShare

namespace BbRe.Lemmas.NfsShare
open BbRe.NfsShare

/-- The counters agree with the list of holders' masks. -/
def Consistent (sc : ShareCount) (hs : List Mask) : Prop :=
  ∀ bit : Bool, sc.get bit = hs.countP (fun h => h.get bit)

theorem consistent_iff (sc : ShareCount) (hs : List Mask) :
    Consistent sc hs ↔
      (sc.readers = hs.countP (fun h => h.r) ∧ sc.writers = hs.countP (fun h => h.w)) := by
  constructor
  · intro h
    have h0 := h false
    have h1 := h true
    simp only [ShareCount.get, Mask.get] at h0 h1
    exact ⟨by simpa using h0, by simpa using h1⟩
  · rintro ⟨h0, h1⟩ bit
    cases bit
    · simpa [ShareCount.get, Mask.get] using h0
    · simpa [ShareCount.get, Mask.get] using h1

instance (sc : ShareCount) (hs : List Mask) : Decidable (Consistent sc hs) :=
  decidable_of_iff _ (consistent_iff sc hs).symm

theorem consistent_nil : Consistent ShareCount.zero [] := by
  intro bit; cases bit <;> rfl

/-! ### counting one position -/

theorem countP_mid (p : Mask → Bool) (pre post : List Mask) (x : Mask) :
    (pre ++ x :: post).countP p = pre.countP p + (if p x then 1 else 0) + post.countP p := by
  rw [List.countP_append, List.countP_cons]; omega

theorem countP_app (p : Mask → Bool) (pre post : List Mask) :
    (pre ++ post).countP p = pre.countP p + post.countP p := List.countP_append

theorem countP_pos_get (hs : List Mask) (bit : Bool) :
    0 < hs.countP (fun h => h.get bit) ↔ ∃ m ∈ hs, m.get bit = true := by
  rw [List.countP_pos_iff]

theorem countP_zero_get (hs : List Mask) (bit : Bool) :
    hs.countP (fun h => h.get bit) = 0 ↔ ∀ m ∈ hs, m.get bit = false := by
  rw [List.countP_eq_zero]
  constructor
  · intro h m hm
    have := h m hm
    cases hg : m.get bit <;> simp_all
  · intro h m hm
    simp [h m hm]

/-- a counter is positive iff somebody holds the bit -/
theorem consistent_pos_iff {sc hs} (h : Consistent sc hs) (bit : Bool) :
    0 < sc.get bit ↔ ∃ m ∈ hs, m.get bit = true := by
  rw [h bit]; exact countP_pos_get hs bit

theorem none_get (bit : Bool) : Mask.none.get bit = false := by
  cases bit <;> rfl

/-- holders without any bit do not matter -/
theorem consistent_drop_none {sc : ShareCount} {pre post : List Mask} :
    Consistent sc (pre ++ Mask.none :: post) ↔ Consistent sc (pre ++ post) := by
  unfold Consistent
  constructor
  · intro h bit
    have := h bit
    rw [countP_mid, none_get] at this
    rw [countP_app]; simpa using this
  · intro h bit
    have := h bit
    rw [countP_app] at this
    rw [countP_mid, none_get]; simpa using this

/-- `Consistent` does not depend on the order of the holders. -/
theorem consistent_perm {sc : ShareCount} {hs hs' : List Mask} (hp : hs.Perm hs') :
    Consistent sc hs ↔ Consistent sc hs' := by
  unfold Consistent
  constructor
  · intro h bit; rw [h bit]; exact hp.countP_eq _
  · intro h bit; rw [h bit]; exact (hp.countP_eq _).symm

/-! ### bit selectors of the three operations -/

theorem union_get (a b : Mask) (bit : Bool) : (a.union b).get bit = (a.get bit || b.get bit) := by
  cases bit <;> rfl

theorem subset_get {a b : Mask} (h : a.subset b = true) (bit : Bool) :
    a.get bit = true → b.get bit = true := by
  obtain ⟨ar, aw⟩ := a
  obtain ⟨br, bw⟩ := b
  cases bit <;> cases ar <;> cases aw <;> cases br <;> cases bw <;>
    simp_all [Mask.subset, Mask.diff, Mask.isNone, Mask.get]

theorem upgrade_fst_get (sc : ShareCount) (cur new : Mask) (bit : Bool) :
    (upgrade sc cur new).1.get bit = (upBit (sc.get bit) (cur.get bit) (new.get bit)).1 := by
  cases bit <;> rfl

theorem upgrade_overlap_get (sc : ShareCount) (cur new : Mask) (bit : Bool) :
    (upgrade sc cur new).2.2.get bit = (upBit (sc.get bit) (cur.get bit) (new.get bit)).2 := by
  cases bit <;> rfl

theorem downgrade_some_get {sc : ShareCount} {cur new : Mask} {sc' : ShareCount} {z : Mask}
    (h : downgrade sc cur new = some (sc', z)) (bit : Bool) :
    downBit (sc.get bit) (cur.get bit) (new.get bit) = some (sc'.get bit, z.get bit) := by
  unfold downgrade at h
  split at h
  · rename_i r w hr hw
    simp only [Option.some.injEq, Prod.mk.injEq] at h
    obtain ⟨h1, h2⟩ := h
    subst h1; subst h2
    cases bit
    · simpa [ShareCount.get, Mask.get] using hr
    · simpa [ShareCount.get, Mask.get] using hw
  · cases h

theorem clone_some_get {sc : ShareCount} {m : Mask} {sc' : ShareCount}
    (h : clone sc m = some sc') (bit : Bool) :
    cloneBit (sc.get bit) (m.get bit) = some (sc'.get bit) := by
  unfold clone at h
  split at h
  · rename_i r w hr hw
    simp only [Option.some.injEq] at h
    subst h
    cases bit
    · simpa [ShareCount.get, Mask.get] using hr
    · simpa [ShareCount.get, Mask.get] using hw
  · cases h

/-! ### per-bit lemmas -/

theorem upBit_count (a b : Nat) (cur new : Bool) :
    (upBit (a + (if cur then 1 else 0) + b) cur new).1
      = a + (if (cur || new) then 1 else 0) + b := by
  unfold upBit
  cases cur <;> cases new <;> simp <;> omega

theorem downBit_count (a b : Nat) (cur new : Bool) (hsub : new = true → cur = true) :
    downBit (a + (if cur then 1 else 0) + b) cur new
      = some (a + (if new then 1 else 0) + b,
          cur && !new && decide (a + (if new then 1 else 0) + b = 0)) := by
  unfold downBit
  cases cur <;> cases new <;> simp_all <;> omega

theorem cloneBit_some (c : Nat) (b : Bool) (c' : Nat) (h : cloneBit c b = some c') :
    c' = (if b then 1 else 0) + c := by
  unfold cloneBit at h
  cases b
  · simp at h ⊢; omega
  · simp at h ⊢; omega

theorem cloneBit_ok (c : Nat) (b : Bool) (h : b = true → 0 < c) :
    cloneBit c b = some ((if b then 1 else 0) + c) := by
  unfold cloneBit
  cases b
  · simp
  · have := h rfl
    simp; omega

/-! ### the operations -/

/-- `upgrade` of the holder `cur` (at any position) -/
theorem upgrade_consistent (sc : ShareCount) (cur new : Mask) (pre post : List Mask)
    (h : Consistent sc (pre ++ cur :: post)) :
    Consistent (upgrade sc cur new).1 (pre ++ cur.union new :: post) ∧
    (upgrade sc cur new).2.1 = cur.union new ∧
    ∀ bit, (upgrade sc cur new).2.2.get bit = true ↔
      (new.get bit = true ∧ ∃ m ∈ pre ++ cur :: post, m.get bit = true) := by
  refine ⟨?_, rfl, ?_⟩
  · intro bit
    rw [upgrade_fst_get, h bit, countP_mid, countP_mid, union_get, upBit_count]
  · intro bit
    rw [upgrade_overlap_get, ← consistent_pos_iff h bit]
    unfold upBit
    simp

/-- same for downgrade without knowing it succeeds (still needs new ⊆ cur) -/
theorem downgrade_consistent_of_some (sc : ShareCount) (cur new : Mask) (pre post : List Mask)
    (h : Consistent sc (pre ++ cur :: post)) (hsub : new.subset cur = true)
    (sc' : ShareCount) (z : Mask) (hd : downgrade sc cur new = some (sc', z)) :
    Consistent sc' (pre ++ new :: post) ∧
      ∀ bit, z.get bit = true ↔
        (cur.get bit = true ∧ new.get bit = false ∧
          ∀ m ∈ pre ++ new :: post, m.get bit = false) := by
  have key : ∀ bit,
      sc'.get bit = (pre ++ new :: post).countP (fun h => h.get bit) ∧
      z.get bit = (cur.get bit && !new.get bit &&
        decide ((pre ++ new :: post).countP (fun h => h.get bit) = 0)) := by
    intro bit
    have h1 := downgrade_some_get hd bit
    rw [h bit, countP_mid, downBit_count _ _ _ _ (subset_get hsub bit)] at h1
    simp only [Option.some.injEq, Prod.mk.injEq] at h1
    rw [countP_mid]
    exact ⟨h1.1.symm, h1.2.symm⟩
  refine ⟨fun bit => (key bit).1, ?_⟩
  intro bit
  rw [(key bit).2, ← countP_zero_get]
  simp [and_assoc]

/-- `downgrade` of the holder `cur` to a subset `new`: no panic, counters stay consistent, and the
returned mask is exactly the set of bits nobody holds any more. -/
theorem downgrade_consistent (sc : ShareCount) (cur new : Mask) (pre post : List Mask)
    (h : Consistent sc (pre ++ cur :: post)) (hsub : new.subset cur = true) :
    ∃ sc' z, downgrade sc cur new = some (sc', z) ∧
      Consistent sc' (pre ++ new :: post) ∧
      ∀ bit, z.get bit = true ↔
        (cur.get bit = true ∧ new.get bit = false ∧
          ∀ m ∈ pre ++ new :: post, m.get bit = false) := by
  have hr := downBit_count (pre.countP (fun h => h.get false)) (post.countP (fun h => h.get false))
    (cur.get false) (new.get false) (subset_get hsub false)
  have hw := downBit_count (pre.countP (fun h => h.get true)) (post.countP (fun h => h.get true))
    (cur.get true) (new.get true) (subset_get hsub true)
  rw [← countP_mid, ← h false] at hr
  rw [← countP_mid, ← h true] at hw
  have hd : ∃ p, downgrade sc cur new = some p := by
    unfold downgrade
    simp only [ShareCount.get, Mask.get, Bool.false_eq_true, if_false, if_true] at hr hw
    rw [hr, hw]
    exact ⟨_, rfl⟩
  obtain ⟨⟨sc', z⟩, hd⟩ := hd
  exact ⟨sc', z, hd, downgrade_consistent_of_some sc cur new pre post h hsub sc' z hd⟩

/-- without the precondition `clone` either panics or stays consistent -/
theorem clone_consistent_of_some (sc : ShareCount) (m : Mask) (hs : List Mask)
    (h : Consistent sc hs) (sc' : ShareCount) (hc : clone sc m = some sc') :
    Consistent sc' (m :: hs) := by
  intro bit
  have := cloneBit_some _ _ _ (clone_some_get hc bit)
  rw [this, h bit, List.countP_cons]
  omega

/-- `clone` of a mask whose bits are all held by somebody: no panic, and the clone is a new
holder -/
theorem clone_consistent (sc : ShareCount) (m : Mask) (hs : List Mask) (h : Consistent sc hs)
    (hm : ∀ bit, m.get bit = true → ∃ x ∈ hs, x.get bit = true) :
    ∃ sc', clone sc m = some sc' ∧ Consistent sc' (m :: hs) := by
  have hr := cloneBit_ok (sc.get false) (m.get false)
    (fun hb => (consistent_pos_iff h false).2 (hm false hb))
  have hw := cloneBit_ok (sc.get true) (m.get true)
    (fun hb => (consistent_pos_iff h true).2 (hm true hb))
  have hc : ∃ sc', clone sc m = some sc' := by
    unfold clone
    simp only [ShareCount.get, Mask.get, Bool.false_eq_true, if_false, if_true] at hr hw
    rw [hr, hw]
    exact ⟨_, rfl⟩
  obtain ⟨sc', hc⟩ := hc
  exact ⟨sc', hc, clone_consistent_of_some sc m hs h sc' hc⟩

/-! ### non-vacuity -/

example : Consistent ⟨2, 1⟩ [Mask.both, Mask.read] := by decide
example : ¬ Consistent ⟨1, 1⟩ [Mask.both, Mask.read] := by decide
example : Consistent ⟨2, 1⟩ ([Mask.read] ++ Mask.none :: [Mask.both]) := by decide

/-- an upgrade with overlap: the second holder (`read`) asks for `both`; `write` was
already held by the first holder, `read` by itself -/
example : upgrade ⟨2, 1⟩ Mask.read Mask.both = (⟨2, 2⟩, Mask.both, Mask.both) := by decide
example : Consistent (upgrade ⟨2, 1⟩ Mask.read Mask.both).1 ([Mask.both] ++ Mask.both :: []) := by
  decide
/-- an upgrade without overlap: the first opener -/
example : upgrade ⟨0, 0⟩ Mask.none Mask.read = (⟨1, 0⟩, Mask.read, Mask.none) := by decide
/-- partial overlap -/
example : upgrade ⟨1, 0⟩ Mask.none Mask.both = (⟨2, 1⟩, Mask.both, Mask.read) := by decide

/-- a downgrade returning a becameZero bit: the only writer gives up `write` -/
example : downgrade ⟨2, 1⟩ Mask.both Mask.read = some (⟨2, 0⟩, Mask.write) := by decide
example : Mask.read.subset Mask.both = true := by decide
example : Consistent ⟨2, 0⟩ ([] ++ Mask.read :: [Mask.read]) := by decide
/-- a downgrade that leaves the bit held by somebody else -/
example : downgrade ⟨2, 1⟩ Mask.read Mask.none = some (⟨1, 1⟩, Mask.none) := by decide
/-- a downgrade that panics (counters not consistent with a holder of `read`) -/
example : downgrade ⟨0, 0⟩ Mask.read Mask.none = none := by decide

/-- clone of a held mask -/
example : clone ⟨2, 1⟩ Mask.both = some ⟨3, 2⟩ := by decide
example : Consistent ⟨3, 2⟩ [Mask.both, Mask.both, Mask.read] := by decide
/-- a clone that panics -/
example : clone ⟨0, 0⟩ Mask.read = none := by decide
example : clone ⟨2, 0⟩ Mask.both = none := by decide

end BbRe.Lemmas.NfsShare
