import BbRe.Model.FileRef
/-!
Counting the threads that hold a frozen reader (C16).  `FrozenCount pc n` says that
exactly `n` threads are at a program counter that owns a `frozenFileBackedFile`;
the threads are an arbitrary (infinite) id space, so the count is taken over a
finite duplicate-free support list.
-/
namespace BbRe.Lemmas.FileRef
open BbRe.FileRef

def FrozenCount (pc : Nat → PC) (n : Nat) : Prop :=
  ∃ ts : List Nat, ts.Nodup ∧ (∀ t, t ∉ ts → (pc t).isFrozen = false) ∧
    n = ts.countP (fun t => (pc t).isFrozen)

theorem FrozenCount.init : FrozenCount (fun _ => PC.idle) 0 :=
  ⟨[], List.nodup_nil, fun _ _ => rfl, rfl⟩

theorem countP_pos_of_mem {p : Nat → Bool} {t : Nat} :
    ∀ {ts : List Nat}, t ∈ ts → p t = true → 0 < ts.countP p
  | x :: xs, hm, hp => by
    rw [List.countP_cons]
    rcases List.mem_cons.mp hm with rfl | hm
    · simp [hp]
    · have := countP_pos_of_mem hm hp
      omega

theorem FrozenCount.pos {pc : Nat → PC} {n t : Nat} (h : FrozenCount pc n)
    (ht : (pc t).isFrozen = true) : 0 < n := by
  obtain ⟨ts, _, hout, rfl⟩ := h
  have hm : t ∈ ts := by
    refine Classical.byContradiction fun hn => ?_
    have := hout t hn
    simp [ht] at this
  exact countP_pos_of_mem (p := fun t => (pc t).isFrozen) hm ht

theorem countP_zero_all {p : Nat → Bool} :
    ∀ {ts : List Nat}, ts.countP p = 0 → ∀ t ∈ ts, p t = false
  | [], _, t, hm => by cases hm
  | x :: xs, h, t, hm => by
    rw [List.countP_cons] at h
    rcases List.mem_cons.mp hm with rfl | hm
    · cases hp : p t
      · rfl
      · simp [hp] at h
    · exact countP_zero_all (by omega) t hm

theorem FrozenCount.zero_all {pc : Nat → PC} (h : FrozenCount pc 0) (t : Nat) :
    (pc t).isFrozen = false := by
  obtain ⟨ts, _, hout, hc⟩ := h
  by_cases hm : t ∈ ts
  · exact countP_zero_all (p := fun t => (pc t).isFrozen) hc.symm t hm
  · exact hout t hm

theorem FrozenCount.congr {pc pc' : Nat → PC} {n : Nat} (h : FrozenCount pc n)
    (e : ∀ t, (pc' t).isFrozen = (pc t).isFrozen) : FrozenCount pc' n := by
  obtain ⟨ts, hnd, hout, hc⟩ := h
  refine ⟨ts, hnd, fun t ht => by rw [e]; exact hout t ht, ?_⟩
  rw [hc]
  congr 1
  funext t
  rw [e]

theorem countP_update (p : PC → Bool) (pc : Nat → PC) (t : Nat) (v : PC) :
    ∀ (ts : List Nat), ts.Nodup →
      (t ∈ ts → ts.countP (fun x => p (if x = t then v else pc x)) + b2n (p (pc t))
                  = ts.countP (fun x => p (pc x)) + b2n (p v)) ∧
      (t ∉ ts → ts.countP (fun x => p (if x = t then v else pc x))
                  = ts.countP (fun x => p (pc x)))
  | [], _ => ⟨fun h => absurd h List.not_mem_nil, fun _ => rfl⟩
  | x :: xs, hnd => by
    have hnd' := List.nodup_cons.mp hnd
    have ih := countP_update p pc t v xs hnd'.2
    constructor
    · intro hm
      by_cases hx : x = t
      · subst hx
        have := ih.2 hnd'.1
        simp only [List.countP_cons, if_true, this]
        unfold b2n
        cases p (pc x) <;> cases p v <;> simp <;> omega
      · have hm' : t ∈ xs := by
          rcases List.mem_cons.mp hm with h | h
          · exact absurd h.symm hx
          · exact h
        have := ih.1 hm'
        simp only [List.countP_cons, if_neg hx]
        omega
    · intro hm
      have hx : x ≠ t := fun h => hm (by simp [h])
      have hm' : t ∉ xs := fun h => hm (List.mem_cons_of_mem _ h)
      have := ih.2 hm'
      simp only [List.countP_cons, if_neg hx, this]

theorem FrozenCount.set {pc : Nat → PC} {n : Nat} (t : Nat) (v : PC) (h : FrozenCount pc n) :
    FrozenCount (fun x => if x = t then v else pc x)
      (n - b2n (pc t).isFrozen + b2n v.isFrozen) := by
  obtain ⟨ts, hnd, hout, hc⟩ := h
  by_cases hm : t ∈ ts
  · refine ⟨ts, hnd, ?_, ?_⟩
    · intro x hx
      have : x ≠ t := fun e => hx (e ▸ hm)
      simp only [if_neg this]
      exact hout x hx
    · have h1 := (countP_update PC.isFrozen pc t v ts hnd).1 hm
      have h2 : b2n (pc t).isFrozen ≤ n := by
        cases hf : (pc t).isFrozen
        · simp [b2n]
        · have := countP_pos_of_mem (p := fun t => (pc t).isFrozen) hm hf
          simp only [b2n, if_true]
          omega
      show _ = List.countP (fun x => PC.isFrozen (if x = t then v else pc x)) ts
      omega
  · refine ⟨t :: ts, List.nodup_cons.mpr ⟨hm, hnd⟩, ?_, ?_⟩
    · intro x hx
      have hxt : x ≠ t := fun e => hx (by simp [e])
      have hxs : x ∉ ts := fun e => hx (List.mem_cons_of_mem _ e)
      simp only [if_neg hxt]
      exact hout x hxs
    · have h1 := (countP_update PC.isFrozen pc t v ts hnd).2 hm
      have h2 := hout t hm
      show _ = List.countP (fun x => PC.isFrozen (if x = t then v else pc x)) (t :: ts)
      simp only [List.countP_cons, if_true, h1, h2]
      unfold b2n
      cases v.isFrozen <;> simp <;> omega

end BbRe.Lemmas.FileRef
