import BbRe.Model.Bitmap
/-! Word-level (`BitVec 64`) lemmas for the bitmap allocator: trailing zeros and the
masks built by `allocateAt` / `FreeContiguous` / `FreeList`, all as statements about `getLsbD`. -/
namespace BbRe.Lemmas.Bitmap
open BbRe.Bitmap

theorem tzGo_spec (w : Word) (i fuel : Nat) :
    i ≤ tzGo w i fuel ∧ tzGo w i fuel ≤ i + fuel ∧
    (∀ j, i ≤ j → j < tzGo w i fuel → w.getLsbD j = false) ∧
    (tzGo w i fuel < i + fuel → w.getLsbD (tzGo w i fuel) = true) := by
  induction fuel generalizing i with
  | zero => simp [tzGo]; intro j h1 h2; omega
  | succ f ih =>
    unfold tzGo
    split
    · rename_i h
      refine ⟨by omega, by omega, ?_, fun _ => h⟩
      intro j h1 h2; omega
    · rename_i h
      obtain ⟨a, b, c, d⟩ := ih (i + 1)
      refine ⟨by omega, by omega, ?_, ?_⟩
      · intro j h1 h2
        by_cases hj : j = i
        · subst hj; simpa using h
        · exact c j (by omega) h2
      · intro h2; exact d (by omega)

theorem tz_le (w : Word) : tz w ≤ 64 := by
  have := (tzGo_spec w 0 64).2.1; simpa [tz] using this

theorem tz_below (w : Word) (j : Nat) (h : j < tz w) : w.getLsbD j = false :=
  (tzGo_spec w 0 64).2.2.1 j (by omega) h

theorem tz_bit (w : Word) (h : tz w < 64) : w.getLsbD (tz w) = true :=
  (tzGo_spec w 0 64).2.2.2 (by simpa [tz] using h)

theorem tz_lt_of_ne_zero (w : Word) (h : w ≠ 0) : tz w < 64 := by
  have hle := tz_le w
  by_cases hh : tz w < 64
  · exact hh
  · exfalso; apply h
    apply BitVec.eq_of_getLsbD_eq
    intro i hi
    simp
    exact tz_below w i (by omega)

theorem tz_le_of_bit (w : Word) (j : Nat) (h : w.getLsbD j = true) : tz w ≤ j := by
  by_cases hh : tz w ≤ j
  · exact hh
  · have := tz_below w j (by omega); simp [h] at this

theorem getLsbD_allBits (j : Nat) : allBits.getLsbD j = decide (j < 64) := by
  unfold allBits; rw [BitVec.getLsbD_allOnes]

theorem getLsbD_allBits_shl (k j : Nat) : (allBits <<< k).getLsbD j = (decide (k ≤ j) && decide (j < 64)) := by
  rw [BitVec.getLsbD_shiftLeft, getLsbD_allBits, Bool.eq_iff_iff]
  simp; omega

theorem getLsbD_low (a j : Nat) : (~~~(allBits <<< a)).getLsbD j = (decide (j < a) && decide (j < 64)) := by
  rw [BitVec.getLsbD_not, getLsbD_allBits_shl, Bool.eq_iff_iff]
  simp; omega

theorem getLsbD_lowshift (a s j : Nat) : (~~~(allBits <<< a) <<< s).getLsbD j = (decide (s ≤ j) && decide (j < s + a) && decide (j < 64)) := by
  rw [BitVec.getLsbD_shiftLeft, getLsbD_low, Bool.eq_iff_iff]
  simp; omega

/-- clearing the run `[s, s+a)` of a word -/
theorem getLsbD_clear (w : Word) (a s j : Nat) :
    (w &&& ~~~(~~~(allBits <<< a) <<< s)).getLsbD j = (w.getLsbD j && !(decide (s ≤ j) && decide (j < s + a))) := by
  rw [BitVec.getLsbD_and, BitVec.getLsbD_not, getLsbD_lowshift, Bool.eq_iff_iff]
  have := BitVec.getLsbD_of_ge w j
  by_cases hj : j < 64
  · simp [hj]
  · have : w.getLsbD j = false := BitVec.getLsbD_of_ge w j (by omega)
    simp [this]

theorem getLsbD_keepFrom (w : Word) (a j : Nat) :
    (w &&& (allBits <<< a)).getLsbD j = (w.getLsbD j && decide (a ≤ j)) := by
  rw [BitVec.getLsbD_and, getLsbD_allBits_shl, Bool.eq_iff_iff]
  by_cases hj : j < 64
  · simp [hj]
  · have : w.getLsbD j = false := BitVec.getLsbD_of_ge w j (by omega)
    simp [this]

theorem getLsbD_shr (w : Word) (s j : Nat) : (w >>> s).getLsbD j = w.getLsbD (s + j) := by
  simp [BitVec.getLsbD_ushiftRight]


theorem getLsbD_ge (w : Word) (j : Nat) (h : 64 ≤ j) : w.getLsbD j = false :=
  BitVec.getLsbD_of_ge w j h

theorem lt_of_getLsbD {w : Word} {j : Nat} (h : w.getLsbD j = true) : j < 64 := by
  by_cases hj : j < 64
  · exact hj
  · rw [getLsbD_ge w j (by omega)] at h; cases h

/-- the mask of `FreeContiguous`: `count` low bits -/
theorem getLsbD_freeMask (count j : Nat) :
    (if count < 64 then ~~~(allBits <<< count) else allBits : Word).getLsbD j
      = (decide (j < count) && decide (j < 64)) := by
  split
  · exact getLsbD_low count j
  · rw [getLsbD_allBits, Bool.eq_iff_iff]; simp; omega

theorem getLsbD_freeMask_shl (count off j : Nat) :
    ((if count < 64 then ~~~(allBits <<< count) else allBits : Word) <<< off).getLsbD j
      = (decide (off ≤ j) && decide (j < off + count) && decide (j < 64)) := by
  rw [BitVec.getLsbD_shiftLeft, getLsbD_freeMask, Bool.eq_iff_iff]
  simp; omega

theorem getLsbD_one_shl (b j : Nat) : ((1 : Word) <<< b).getLsbD j = (decide (j = b) && decide (j < 64)) := by
  rw [BitVec.getLsbD_shiftLeft, Bool.eq_iff_iff]
  simp [BitVec.getLsbD_one]; omega

theorem eq_zero_iff_bits (w : Word) : w = 0 ↔ ∀ j, j < 64 → w.getLsbD j = false := by
  constructor
  · intro h j _; subst h; simp
  · intro h; apply BitVec.eq_of_getLsbD_eq; intro i hi; simp; exact h i hi

theorem eq_allBits_iff_bits (w : Word) : w = allBits ↔ ∀ j, j < 64 → w.getLsbD j = true := by
  constructor
  · intro h j hj; subst h; rw [getLsbD_allBits]; simp [hj]
  · intro h; apply BitVec.eq_of_getLsbD_eq; intro i hi; rw [getLsbD_allBits]; simp [hi]; exact h i hi

theorem and_eq_zero_iff (w m : Word) : w &&& m = 0 ↔ ∀ j, m.getLsbD j = true → w.getLsbD j = false := by
  rw [eq_zero_iff_bits]
  constructor
  · intro h j hm
    have := h j (lt_of_getLsbD hm)
    rw [BitVec.getLsbD_and, hm] at this
    simpa using this
  · intro h j _
    rw [BitVec.getLsbD_and]
    by_cases hm : m.getLsbD j = true
    · rw [h j hm]; rfl
    · simp at hm; rw [hm]; simp

theorem allBits_ne_zero : allBits ≠ (0 : Word) := by decide

theorem tz_not_zero : tz (~~~(0 : Word)) = 0 := by decide

end BbRe.Lemmas.Bitmap
