import BbRe.Lemmas.InputRootEquiv
/-!
Every operation of `Model/InputRoot.lean` respects `Equiv` (C17): outputs depend
only on the observable tree, and a storage fault either is not hit or produces
`EIO` and leaves an equivalent tree.
-/
namespace BbRe.Lemmas.InputRoot
open BbRe.InputRoot

/-- An action on the contents of a directory respects equivalence. -/
def ActResp (c : CAS) (act : Children → Children × Out) : Prop :=
  ∀ a b, ChRel (Equiv c) a b → (act a).2 = (act b).2 ∧ ChRel (Equiv c) (act a).1 (act b).1

/-- Two actions that treat equivalent contents alike (e.g. attach equivalent nodes). -/
def ActRel (c : CAS) (actL actE : Children → Children × Out) : Prop :=
  ∀ a b, ChRel (Equiv c) a b → (actL a).2 = (actE b).2 ∧ ChRel (Equiv c) (actL a).1 (actE b).1

theorem withDir_equiv2 (c : CAS) (actL actE : Children → Children × Out) (hact : ActRel c actL actE) :
    ∀ (p : Path) (l e : Node), Equiv c l e →
      (withDir c [] actL p l).2 = (withDir c [] actE p e).2 ∧
      Equiv c (withDir c [] actL p l).1 (withDir c [] actE p e).1 := by
  intro p
  induction p with
  | nil =>
    intro l e h
    have hc := h.contents
    cases hl : contents c [] l <;> cases he : contents c [] e <;> rw [hl, he] at hc <;>
      simp only [ContRel] at hc <;> simp only [withDir, hl, he]
    · exact ⟨by first | rfl | trivial, h⟩
    · exact ⟨by first | rfl | trivial, h⟩
    · exact ⟨(hact _ _ hc).1, equiv_dir (hact _ _ hc).2⟩
  | cons x rest ih =>
    intro l e h
    have hc := h.contents
    cases hl : contents c [] l <;> cases he : contents c [] e <;> rw [hl, he] at hc <;>
      simp only [ContRel] at hc <;> simp only [withDir, hl, he]
    · exact ⟨by first | rfl | trivial, h⟩
    · exact ⟨by first | rfl | trivial, h⟩
    · rename_i a b
      rcases chrel_lookup hc x with ⟨h1, h2⟩ | ⟨ca, cb, h1, h2, hr⟩
      · simp only [h1, h2]; exact ⟨by first | rfl | trivial, equiv_dir hc⟩
      · simp only [h1, h2]
        have := ih ca cb hr
        exact ⟨this.1, equiv_dir (chrel_replaceFirst hc x this.2)⟩

theorem withDir_equiv (c : CAS) (act : Children → Children × Out) (hact : ActResp c act) :
    ∀ (p : Path) (l e : Node), Equiv c l e →
      (withDir c [] act p l).2 = (withDir c [] act p e).2 ∧
      Equiv c (withDir c [] act p l).1 (withDir c [] act p e).1 :=
  withDir_equiv2 c act act hact

/-! ### faults -/

theorem fetch_fault (c : CAS) (F : List Dig) (d : Dig) (m : Option Path) :
    fetch c F d m = fetch c [] d m ∨ (fetch c F d m).result = .error .unavailable := by
  by_cases h : d ∈ F
  · right; simp [fetch, fetchBase, h]
  · left; simp [fetch, fetchBase, h]

theorem contents_fault (c : CAS) (F : List Dig) (n : Node) :
    contents c F n = contents c [] n ∨ contents c F n = .err .unavailable := by
  cases n with
  | lazy d m =>
    rcases fetch_fault c F d m with h | h
    · left; simp [contents, h]
    · right; simp [contents, h]
  | _ => left; rfl

/-- An action under faults either behaves as without, or fails with `EIO` and leaves
equivalent contents. -/
def ActFault (c : CAS) (actF act0 : Children → Children × Out) : Prop :=
  ∀ ch, actF ch = act0 ch ∨ ((actF ch).2 = .status .eio ∧ ChRel (Equiv c) (actF ch).1 ch)

theorem withDir_fault (c : CAS) (F : List Dig) (actF act0 : Children → Children × Out)
    (hact : ActFault c actF act0) :
    ∀ (p : Path) (n : Node),
      withDir c F actF p n = withDir c [] act0 p n ∨
      ((withDir c F actF p n).2 = .status .eio ∧ Equiv c (withDir c F actF p n).1 n) := by
  intro p
  induction p with
  | nil =>
    intro n
    rcases contents_fault c F n with h | h
    · cases hn : contents c [] n with
      | notDir => left; simp [withDir, h, hn]
      | err e => left; simp [withDir, h, hn]
      | ok ch =>
        rcases hact ch with ha | ⟨ha1, ha2⟩
        · left; simp [withDir, h, hn, ha]
        · right
          simp only [withDir, h, hn]
          exact ⟨ha1, (equiv_dir ha2).trans (equiv_force hn)⟩
    · right; simp only [withDir, h]; exact ⟨by first | rfl | trivial, Equiv.refl c n⟩
  | cons x rest ih =>
    intro n
    rcases contents_fault c F n with h | h
    · cases hn : contents c [] n with
      | notDir => left; simp [withDir, h, hn]
      | err e => left; simp [withDir, h, hn]
      | ok ch =>
        cases hx : lookup ch x with
        | none => left; simp [withDir, h, hn, hx]
        | some child =>
          rcases ih child with hc | ⟨hc1, hc2⟩
          · left; simp [withDir, h, hn, hx, hc]
          · right
            simp only [withDir, h, hn, hx]
            refine ⟨hc1, (equiv_dir ?_).trans (equiv_force hn)⟩
            exact chrel_replace_self (Equiv.refl c) ch x child _ hx hc2
    · right; simp only [withDir, h]; exact ⟨by first | rfl | trivial, Equiv.refl c n⟩

/-- Exploration never changes the observable tree, with or without faults. -/
def ActKeeps (c : CAS) (act : Children → Children × Out) : Prop :=
  ∀ ch, ChRel (Equiv c) (act ch).1 ch

theorem withDir_keeps (c : CAS) (F : List Dig) (act : Children → Children × Out)
    (hact : ActKeeps c act) :
    ∀ (p : Path) (n : Node), Equiv c (withDir c F act p n).1 n := by
  intro p
  induction p with
  | nil =>
    intro n
    cases hn : contents c F n with
    | notDir => simp only [withDir, hn]; exact Equiv.refl c n
    | err e => simp only [withDir, hn]; exact Equiv.refl c n
    | ok ch =>
      simp only [withDir, hn]
      rcases contents_fault c F n with h | h
      · rw [hn] at h; exact (equiv_dir (hact ch)).trans (equiv_force h.symm)
      · rw [hn] at h; cases h
  | cons x rest ih =>
    intro n
    cases hn : contents c F n with
    | notDir => simp only [withDir, hn]; exact Equiv.refl c n
    | err e => simp only [withDir, hn]; exact Equiv.refl c n
    | ok ch =>
      simp only [withDir, hn]
      have hn0 : contents c [] n = .ok ch := by
        rcases contents_fault c F n with h | h
        · rw [hn] at h; exact h.symm
        · rw [hn] at h; cases h
      cases hx : lookup ch x with
      | none => simp only []; exact equiv_force hn0
      | some child =>
        simp only []
        refine (equiv_dir ?_).trans (equiv_force hn0)
        exact chrel_replace_self (Equiv.refl c) ch x child _ hx (ih child)

/-! ### the actions -/

theorem actLookup_resp (c : CAS) (x : Name) : ActResp c (actLookup x) := by
  intro a b h
  refine ⟨?_, h⟩
  rcases chrel_lookup h x with ⟨h1, h2⟩ | ⟨ca, cb, h1, h2, hr⟩
  · simp [actLookup, h1, h2]
  · simp [actLookup, h1, h2, hr.kind]

theorem actReaddir_resp (c : CAS) : ActResp c actReaddir := by
  intro a b h
  refine ⟨?_, h⟩
  simp only [actReaddir]
  rw [chrel_kinds (fun _ _ hr => Equiv.kind hr) h]

theorem leafOut_kind (c : CAS) (F : List Dig) (op : LeafOp) {a b : Node}
    (h : kindOf a = kindOf b) : leafOut c F op a = leafOut c F op b := by
  cases a <;> cases b <;> simp_all [kindOf, leafOut]

theorem actLeaf_resp (c : CAS) (F : List Dig) (op : LeafOp) (x : Name) :
    ActResp c (actLeaf c F op x) := by
  intro a b h
  refine ⟨?_, h⟩
  rcases chrel_lookup h x with ⟨h1, h2⟩ | ⟨ca, cb, h1, h2, hr⟩
  · simp [actLeaf, h1, h2]
  · simp [actLeaf, h1, h2, leafOut_kind c F op hr.kind]

theorem actRemove_resp (c : CAS) (x : Name) : ActResp c (actRemove c [] x) := by
  intro a b h
  rcases chrel_lookup h x with ⟨h1, h2⟩ | ⟨ca, cb, h1, h2, hr⟩
  · simp only [actRemove, h1, h2]; exact ⟨by first | rfl | trivial, h⟩
  · simp only [actRemove, h1, h2]
    have hc := hr.contents
    cases hl : contents c [] ca <;> cases he : contents c [] cb <;> rw [hl, he] at hc <;>
      simp only [ContRel] at hc
    · exact ⟨by first | rfl | trivial, chrel_eraseFirst h x⟩
    · exact ⟨by first | rfl | trivial, h⟩
    · rename_i ga gb
      cases hc with
      | nil => exact ⟨by first | rfl | trivial, chrel_eraseFirst h x⟩
      | cons hab hrest =>
        exact ⟨by first | rfl | trivial, chrel_replaceFirst h x (equiv_dir (.cons hab hrest))⟩

theorem actCreate_resp (c : CAS) (x : Name) : ActResp c (actCreate x) := by
  intro a b h
  rcases chrel_lookup h x with ⟨h1, h2⟩ | ⟨ca, cb, h1, h2, _⟩
  · simp only [actCreate, h1, h2]
    exact ⟨by first | rfl | trivial, chrel_append h (.cons (Equiv.refl c _) .nil)⟩
  · simp only [actCreate, h1, h2]; exact ⟨by first | rfl | trivial, h⟩

theorem actMkdir_resp (c : CAS) (x : Name) : ActResp c (actMkdir x) := by
  intro a b h
  rcases chrel_lookup h x with ⟨h1, h2⟩ | ⟨ca, cb, h1, h2, _⟩
  · simp only [actMkdir, h1, h2]
    exact ⟨by first | rfl | trivial, chrel_append h (.cons (Equiv.refl c _) .nil)⟩
  · simp only [actMkdir, h1, h2]; exact ⟨by first | rfl | trivial, h⟩

theorem any_hasName_congr {R : Node → Node → Prop} {a b : Children} (h : ChRel R a b)
    (new : Children) :
    new.any (fun e => hasName a e.1) = new.any (fun e => hasName b e.1) := by
  induction new with
  | nil => rfl
  | cons e es ih => simp [List.any_cons, chrel_hasName h e.1, ih]

theorem actMerge_resp (c : CAS) (new : Children) : ActResp c (actMerge new) := by
  intro a b h
  simp only [actMerge, any_hasName_congr h new]
  split
  · exact ⟨by first | rfl | trivial, h⟩
  · exact ⟨by first | rfl | trivial, chrel_append h (ChRel.refl (Equiv.refl c) new)⟩

theorem actNop_resp (c : CAS) : ActResp c actNop := fun _ _ h => ⟨rfl, h⟩

theorem actErase_resp (c : CAS) (x : Name) : ActResp c (actErase x) :=
  fun _ _ h => ⟨rfl, chrel_eraseFirst h x⟩

theorem actForceChild_resp (c : CAS) (x : Name) : ActResp c (actForceChild c [] x) := by
  intro a b h
  rcases chrel_lookup h x with ⟨h1, h2⟩ | ⟨ca, cb, h1, h2, hr⟩
  · simp only [actForceChild, h1, h2]; exact ⟨by first | rfl | trivial, h⟩
  · simp only [actForceChild, h1, h2]
    have hc := hr.contents
    cases hl : contents c [] ca <;> cases he : contents c [] cb <;> rw [hl, he] at hc <;>
      simp only [ContRel] at hc
    · exact ⟨by first | rfl | trivial, h⟩
    · exact ⟨by first | rfl | trivial, h⟩
    · cases hc with
      | nil => exact ⟨by first | rfl | trivial, chrel_replaceFirst h x (equiv_dir .nil)⟩
      | cons hab hrest =>
        exact ⟨by first | rfl | trivial, chrel_replaceFirst h x (equiv_dir (.cons hab hrest))⟩

theorem actPut_rel (c : CAS) (x : Name) {v w : Node} (hvw : Equiv c v w) :
    ActRel c (actPut x v) (actPut x w) := by
  intro a b h
  rcases chrel_lookup h x with ⟨h1, h2⟩ | ⟨ca, cb, h1, h2, _⟩
  · simp only [actPut, h1, h2]
    exact ⟨by first | rfl | trivial, chrel_append h (.cons hvw .nil)⟩
  · simp only [actPut, h1, h2]
    exact ⟨by first | rfl | trivial, chrel_replaceFirst h x hvw⟩

theorem actPutNew_rel (c : CAS) (x : Name) {v w : Node} (hvw : Equiv c v w) :
    ActRel c (actPutNew x v) (actPutNew x w) := by
  intro a b h
  rcases chrel_lookup h x with ⟨h1, h2⟩ | ⟨ca, cb, h1, h2, _⟩
  · simp only [actPutNew, h1, h2]
    exact ⟨by first | rfl | trivial, chrel_append h (.cons hvw .nil)⟩
  · simp only [actPutNew, h1, h2]; exact ⟨by first | rfl | trivial, h⟩

/-! ### actions under faults -/

theorem leafOut_fault (c : CAS) (F : List Dig) (op : LeafOp) (n : Node) :
    leafOut c F op n = leafOut c [] op n ∨ leafOut c F op n = .status .eio := by
  cases n with
  | file d x m =>
    cases op with
    | read off len =>
      by_cases h0 : min len (d.size - off) = 0
      · left; simp [leafOut, h0]
      · by_cases h : d ∈ F
        · right; simp [leafOut, h, h0]
        · left; simp [leafOut, h]
    | _ => left; rfl
  | _ => left; cases op <;> rfl

theorem actLeaf_fault (c : CAS) (F : List Dig) (op : LeafOp) (x : Name) :
    ActFault c (actLeaf c F op x) (actLeaf c [] op x) := by
  intro ch
  cases hx : lookup ch x with
  | none => left; simp [actLeaf, hx]
  | some n =>
    rcases leafOut_fault c F op n with h | h
    · left; simp [actLeaf, hx, h]
    · right; simp only [actLeaf, hx, h]; exact ⟨by first | rfl | trivial, ChRel.refl (Equiv.refl c) ch⟩

theorem actRemove_fault (c : CAS) (F : List Dig) (x : Name) :
    ActFault c (actRemove c F x) (actRemove c [] x) := by
  intro ch
  cases hx : lookup ch x with
  | none => left; simp [actRemove, hx]
  | some n =>
    rcases contents_fault c F n with h | h
    · left; simp [actRemove, hx, h]
    · right; simp only [actRemove, hx, h]; exact ⟨by first | rfl | trivial, ChRel.refl (Equiv.refl c) ch⟩

theorem act_fault_same (c : CAS) (act : Children → Children × Out) : ActFault c act act :=
  fun _ => Or.inl rfl

theorem actForceChild_fault (c : CAS) (F : List Dig) (x : Name) :
    ActFault c (actForceChild c F x) (actForceChild c [] x) := by
  intro ch
  cases hx : lookup ch x with
  | none => left; simp [actForceChild, hx]
  | some n =>
    rcases contents_fault c F n with h | h
    · left; simp [actForceChild, hx, h]
    · right; simp only [actForceChild, hx, h]; exact ⟨by first | rfl | trivial, ChRel.refl (Equiv.refl c) ch⟩

/-! ### exploration keeps the tree -/

theorem actLeaf_keeps (c : CAS) (F : List Dig) (op : LeafOp) (x : Name) :
    ActKeeps c (actLeaf c F op x) := fun ch => ChRel.refl (Equiv.refl c) ch

theorem actLookup_keeps (c : CAS) (x : Name) : ActKeeps c (actLookup x) :=
  fun ch => ChRel.refl (Equiv.refl c) ch

theorem actReaddir_keeps (c : CAS) : ActKeeps c actReaddir :=
  fun ch => ChRel.refl (Equiv.refl c) ch

theorem actNop_keeps (c : CAS) : ActKeeps c actNop :=
  fun ch => ChRel.refl (Equiv.refl c) ch

theorem actForceChild_keeps (c : CAS) (F : List Dig) (x : Name) : ActKeeps c (actForceChild c F x) := by
  intro ch
  cases hx : lookup ch x with
  | none => simp only [actForceChild, hx]; exact ChRel.refl (Equiv.refl c) ch
  | some n =>
    simp only [actForceChild, hx]
    cases hn : contents c F n with
    | notDir => exact ChRel.refl (Equiv.refl c) ch
    | err e => exact ChRel.refl (Equiv.refl c) ch
    | ok g =>
      have hn0 : contents c [] n = .ok g := by
        rcases contents_fault c F n with h | h
        · rw [hn] at h; exact h.symm
        · rw [hn] at h; cases h
      cases g with
      | nil => exact chrel_replace_self (Equiv.refl c) ch x n _ hx (equiv_force hn0)
      | cons g gs => exact chrel_replace_self (Equiv.refl c) ch x n _ hx (equiv_force hn0)

/-! ### walking to a directory -/

theorem actIsDir_resp (c : CAS) (x : Name) : ActResp c (actIsDir x) := by
  intro a b h
  refine ⟨?_, h⟩
  rcases chrel_lookup h x with ⟨h1, h2⟩ | ⟨ca, cb, h1, h2, hr⟩
  · simp [actIsDir, h1, h2]
  · simp [actIsDir, h1, h2, hr.kind]

theorem actIsDir_keeps (c : CAS) (x : Name) : ActKeeps c (actIsDir x) :=
  fun ch => ChRel.refl (Equiv.refl c) ch

theorem walkTo_equiv (c : CAS) (p : Path) (l e : Node) (h : Equiv c l e) :
    (walkTo c [] p l).2 = (walkTo c [] p e).2 ∧ Equiv c (walkTo c [] p l).1 (walkTo c [] p e).1 := by
  simp only [walkTo]
  cases p.getLast? with
  | none => exact ⟨rfl, h⟩
  | some x => exact withDir_equiv c _ (actIsDir_resp c x) _ l e h

theorem walkTo_keeps (c : CAS) (F : List Dig) (p : Path) (n : Node) : Equiv c (walkTo c F p n).1 n := by
  simp only [walkTo]
  cases p.getLast? with
  | none => exact Equiv.refl c n
  | some x => exact withDir_keeps c F _ (actIsDir_keeps c x) _ n

theorem walkTo_fault (c : CAS) (F : List Dig) (p : Path) (n : Node) :
    walkTo c F p n = walkTo c [] p n ∨
    ((walkTo c F p n).2 = .status .eio ∧ Equiv c (walkTo c F p n).1 n) := by
  simp only [walkTo]
  cases p.getLast? with
  | none => left; rfl
  | some x => exact withDir_fault c F _ _ (act_fault_same c _) _ n

end BbRe.Lemmas.InputRoot
