import BbRe.Lemmas.SchedLiveDefs
/-! Frame (projection) lemmas of the primitive updates. -/
namespace BbRe.Lemmas.SchedLive
open BbRe.Sched

@[simp] theorem setTask_cfg (s : State) (t : Task) : (s.setTask t).cfg = s.cfg := rfl
@[simp] theorem setTask_now (s : State) (t : Task) : (s.setTask t).now = s.now := rfl
@[simp] theorem setTask_pqs (s : State) (t : Task) : (s.setTask t).pqs = s.pqs := rfl
@[simp] theorem setTask_scqs (s : State) (t : Task) : (s.setTask t).scqs = s.scqs := rfl
@[simp] theorem setTask_workers (s : State) (t : Task) : (s.setTask t).workers = s.workers := rfl
@[simp] theorem setTask_ops (s : State) (t : Task) : (s.setTask t).ops = s.ops := rfl
@[simp] theorem setTask_dedup (s : State) (t : Task) : (s.setTask t).dedup = s.dedup := rfl
@[simp] theorem setTask_cleanup (s : State) (t : Task) : (s.setTask t).cleanup = s.cleanup := rfl
@[simp] theorem setTask_streams (s : State) (t : Task) : (s.setTask t).streams = s.streams := rfl
@[simp] theorem setTask_terms (s : State) (t : Task) : (s.setTask t).terms = s.terms := rfl
@[simp] theorem setTask_nextTask (s : State) (t : Task) : (s.setTask t).nextTask = s.nextTask := rfl
@[simp] theorem setTask_nextOp (s : State) (t : Task) : (s.setTask t).nextOp = s.nextOp := rfl
@[simp] theorem setTask_nextLearner (s : State) (t : Task) : (s.setTask t).nextLearner = s.nextLearner := rfl
@[simp] theorem setTask_events (s : State) (t : Task) : (s.setTask t).events = s.events := rfl
@[simp] theorem setTask_assigned (s : State) (t : Task) : (s.setTask t).assigned = s.assigned := rfl

@[simp] theorem setOp_cfg (s : State) (o : Op) : (s.setOp o).cfg = s.cfg := rfl
@[simp] theorem setOp_now (s : State) (o : Op) : (s.setOp o).now = s.now := rfl
@[simp] theorem setOp_pqs (s : State) (o : Op) : (s.setOp o).pqs = s.pqs := rfl
@[simp] theorem setOp_scqs (s : State) (o : Op) : (s.setOp o).scqs = s.scqs := rfl
@[simp] theorem setOp_workers (s : State) (o : Op) : (s.setOp o).workers = s.workers := rfl
@[simp] theorem setOp_tasks (s : State) (o : Op) : (s.setOp o).tasks = s.tasks := rfl
@[simp] theorem setOp_dedup (s : State) (o : Op) : (s.setOp o).dedup = s.dedup := rfl
@[simp] theorem setOp_cleanup (s : State) (o : Op) : (s.setOp o).cleanup = s.cleanup := rfl
@[simp] theorem setOp_streams (s : State) (o : Op) : (s.setOp o).streams = s.streams := rfl
@[simp] theorem setOp_terms (s : State) (o : Op) : (s.setOp o).terms = s.terms := rfl
@[simp] theorem setOp_nextTask (s : State) (o : Op) : (s.setOp o).nextTask = s.nextTask := rfl
@[simp] theorem setOp_nextOp (s : State) (o : Op) : (s.setOp o).nextOp = s.nextOp := rfl
@[simp] theorem setOp_nextLearner (s : State) (o : Op) : (s.setOp o).nextLearner = s.nextLearner := rfl
@[simp] theorem setOp_events (s : State) (o : Op) : (s.setOp o).events = s.events := rfl
@[simp] theorem setOp_assigned (s : State) (o : Op) : (s.setOp o).assigned = s.assigned := rfl

@[simp] theorem setWorker_cfg (s : State) (w : Worker) : (s.setWorker w).cfg = s.cfg := rfl
@[simp] theorem setWorker_now (s : State) (w : Worker) : (s.setWorker w).now = s.now := rfl
@[simp] theorem setWorker_pqs (s : State) (w : Worker) : (s.setWorker w).pqs = s.pqs := rfl
@[simp] theorem setWorker_scqs (s : State) (w : Worker) : (s.setWorker w).scqs = s.scqs := rfl
@[simp] theorem setWorker_tasks (s : State) (w : Worker) : (s.setWorker w).tasks = s.tasks := rfl
@[simp] theorem setWorker_ops (s : State) (w : Worker) : (s.setWorker w).ops = s.ops := rfl
@[simp] theorem setWorker_dedup (s : State) (w : Worker) : (s.setWorker w).dedup = s.dedup := rfl
@[simp] theorem setWorker_cleanup (s : State) (w : Worker) : (s.setWorker w).cleanup = s.cleanup := rfl
@[simp] theorem setWorker_streams (s : State) (w : Worker) : (s.setWorker w).streams = s.streams := rfl
@[simp] theorem setWorker_terms (s : State) (w : Worker) : (s.setWorker w).terms = s.terms := rfl
@[simp] theorem setWorker_nextTask (s : State) (w : Worker) : (s.setWorker w).nextTask = s.nextTask := rfl
@[simp] theorem setWorker_nextOp (s : State) (w : Worker) : (s.setWorker w).nextOp = s.nextOp := rfl
@[simp] theorem setWorker_nextLearner (s : State) (w : Worker) : (s.setWorker w).nextLearner = s.nextLearner := rfl
@[simp] theorem setWorker_events (s : State) (w : Worker) : (s.setWorker w).events = s.events := rfl
@[simp] theorem setWorker_assigned (s : State) (w : Worker) : (s.setWorker w).assigned = s.assigned := rfl

@[simp] theorem setScq_cfg (s : State) (q : Scq) : (s.setScq q).cfg = s.cfg := rfl
@[simp] theorem setScq_now (s : State) (q : Scq) : (s.setScq q).now = s.now := rfl
@[simp] theorem setScq_pqs (s : State) (q : Scq) : (s.setScq q).pqs = s.pqs := rfl
@[simp] theorem setScq_workers (s : State) (q : Scq) : (s.setScq q).workers = s.workers := rfl
@[simp] theorem setScq_tasks (s : State) (q : Scq) : (s.setScq q).tasks = s.tasks := rfl
@[simp] theorem setScq_ops (s : State) (q : Scq) : (s.setScq q).ops = s.ops := rfl
@[simp] theorem setScq_dedup (s : State) (q : Scq) : (s.setScq q).dedup = s.dedup := rfl
@[simp] theorem setScq_cleanup (s : State) (q : Scq) : (s.setScq q).cleanup = s.cleanup := rfl
@[simp] theorem setScq_streams (s : State) (q : Scq) : (s.setScq q).streams = s.streams := rfl
@[simp] theorem setScq_terms (s : State) (q : Scq) : (s.setScq q).terms = s.terms := rfl
@[simp] theorem setScq_nextTask (s : State) (q : Scq) : (s.setScq q).nextTask = s.nextTask := rfl
@[simp] theorem setScq_nextOp (s : State) (q : Scq) : (s.setScq q).nextOp = s.nextOp := rfl
@[simp] theorem setScq_nextLearner (s : State) (q : Scq) : (s.setScq q).nextLearner = s.nextLearner := rfl
@[simp] theorem setScq_events (s : State) (q : Scq) : (s.setScq q).events = s.events := rfl
@[simp] theorem setScq_assigned (s : State) (q : Scq) : (s.setScq q).assigned = s.assigned := rfl

@[simp] theorem emit_cfg (s : State) (e : Event) : (emit s e).cfg = s.cfg := rfl
@[simp] theorem emit_now (s : State) (e : Event) : (emit s e).now = s.now := rfl
@[simp] theorem emit_pqs (s : State) (e : Event) : (emit s e).pqs = s.pqs := rfl
@[simp] theorem emit_scqs (s : State) (e : Event) : (emit s e).scqs = s.scqs := rfl
@[simp] theorem emit_workers (s : State) (e : Event) : (emit s e).workers = s.workers := rfl
@[simp] theorem emit_tasks (s : State) (e : Event) : (emit s e).tasks = s.tasks := rfl
@[simp] theorem emit_ops (s : State) (e : Event) : (emit s e).ops = s.ops := rfl
@[simp] theorem emit_dedup (s : State) (e : Event) : (emit s e).dedup = s.dedup := rfl
@[simp] theorem emit_cleanup (s : State) (e : Event) : (emit s e).cleanup = s.cleanup := rfl
@[simp] theorem emit_streams (s : State) (e : Event) : (emit s e).streams = s.streams := rfl
@[simp] theorem emit_terms (s : State) (e : Event) : (emit s e).terms = s.terms := rfl
@[simp] theorem emit_nextTask (s : State) (e : Event) : (emit s e).nextTask = s.nextTask := rfl
@[simp] theorem emit_nextOp (s : State) (e : Event) : (emit s e).nextOp = s.nextOp := rfl
@[simp] theorem emit_nextLearner (s : State) (e : Event) : (emit s e).nextLearner = s.nextLearner := rfl
@[simp] theorem emit_assigned (s : State) (e : Event) : (emit s e).assigned = s.assigned := rfl

@[simp] theorem addCleanup_cfg (s : State) (d : Nat) (k : CleanupKind) : (s.addCleanup d k).cfg = s.cfg := rfl
@[simp] theorem addCleanup_now (s : State) (d : Nat) (k : CleanupKind) : (s.addCleanup d k).now = s.now := rfl
@[simp] theorem addCleanup_pqs (s : State) (d : Nat) (k : CleanupKind) : (s.addCleanup d k).pqs = s.pqs := rfl
@[simp] theorem addCleanup_scqs (s : State) (d : Nat) (k : CleanupKind) : (s.addCleanup d k).scqs = s.scqs := rfl
@[simp] theorem addCleanup_workers (s : State) (d : Nat) (k : CleanupKind) : (s.addCleanup d k).workers = s.workers := rfl
@[simp] theorem addCleanup_tasks (s : State) (d : Nat) (k : CleanupKind) : (s.addCleanup d k).tasks = s.tasks := rfl
@[simp] theorem addCleanup_ops (s : State) (d : Nat) (k : CleanupKind) : (s.addCleanup d k).ops = s.ops := rfl
@[simp] theorem addCleanup_dedup (s : State) (d : Nat) (k : CleanupKind) : (s.addCleanup d k).dedup = s.dedup := rfl
@[simp] theorem addCleanup_streams (s : State) (d : Nat) (k : CleanupKind) : (s.addCleanup d k).streams = s.streams := rfl
@[simp] theorem addCleanup_terms (s : State) (d : Nat) (k : CleanupKind) : (s.addCleanup d k).terms = s.terms := rfl
@[simp] theorem addCleanup_nextTask (s : State) (d : Nat) (k : CleanupKind) : (s.addCleanup d k).nextTask = s.nextTask := rfl
@[simp] theorem addCleanup_nextOp (s : State) (d : Nat) (k : CleanupKind) : (s.addCleanup d k).nextOp = s.nextOp := rfl
@[simp] theorem addCleanup_nextLearner (s : State) (d : Nat) (k : CleanupKind) : (s.addCleanup d k).nextLearner = s.nextLearner := rfl
@[simp] theorem addCleanup_events (s : State) (d : Nat) (k : CleanupKind) : (s.addCleanup d k).events = s.events := rfl
@[simp] theorem addCleanup_assigned (s : State) (d : Nat) (k : CleanupKind) : (s.addCleanup d k).assigned = s.assigned := rfl

@[simp] theorem removeCleanup_cfg (s : State) (k : CleanupKind) : (s.removeCleanup k).cfg = s.cfg := rfl
@[simp] theorem removeCleanup_now (s : State) (k : CleanupKind) : (s.removeCleanup k).now = s.now := rfl
@[simp] theorem removeCleanup_pqs (s : State) (k : CleanupKind) : (s.removeCleanup k).pqs = s.pqs := rfl
@[simp] theorem removeCleanup_scqs (s : State) (k : CleanupKind) : (s.removeCleanup k).scqs = s.scqs := rfl
@[simp] theorem removeCleanup_workers (s : State) (k : CleanupKind) : (s.removeCleanup k).workers = s.workers := rfl
@[simp] theorem removeCleanup_tasks (s : State) (k : CleanupKind) : (s.removeCleanup k).tasks = s.tasks := rfl
@[simp] theorem removeCleanup_ops (s : State) (k : CleanupKind) : (s.removeCleanup k).ops = s.ops := rfl
@[simp] theorem removeCleanup_dedup (s : State) (k : CleanupKind) : (s.removeCleanup k).dedup = s.dedup := rfl
@[simp] theorem removeCleanup_streams (s : State) (k : CleanupKind) : (s.removeCleanup k).streams = s.streams := rfl
@[simp] theorem removeCleanup_terms (s : State) (k : CleanupKind) : (s.removeCleanup k).terms = s.terms := rfl
@[simp] theorem removeCleanup_nextTask (s : State) (k : CleanupKind) : (s.removeCleanup k).nextTask = s.nextTask := rfl
@[simp] theorem removeCleanup_nextOp (s : State) (k : CleanupKind) : (s.removeCleanup k).nextOp = s.nextOp := rfl
@[simp] theorem removeCleanup_nextLearner (s : State) (k : CleanupKind) : (s.removeCleanup k).nextLearner = s.nextLearner := rfl
@[simp] theorem removeCleanup_events (s : State) (k : CleanupKind) : (s.removeCleanup k).events = s.events := rfl
@[simp] theorem removeCleanup_assigned (s : State) (k : CleanupKind) : (s.removeCleanup k).assigned = s.assigned := rfl

@[simp] theorem wakeWorker_cfg (s : State) (w : Worker) : (wakeWorker s w).cfg = s.cfg := rfl
@[simp] theorem wakeWorker_now (s : State) (w : Worker) : (wakeWorker s w).now = s.now := rfl
@[simp] theorem wakeWorker_pqs (s : State) (w : Worker) : (wakeWorker s w).pqs = s.pqs := rfl
@[simp] theorem wakeWorker_scqs (s : State) (w : Worker) : (wakeWorker s w).scqs = s.scqs := rfl
@[simp] theorem wakeWorker_tasks (s : State) (w : Worker) : (wakeWorker s w).tasks = s.tasks := rfl
@[simp] theorem wakeWorker_ops (s : State) (w : Worker) : (wakeWorker s w).ops = s.ops := rfl
@[simp] theorem wakeWorker_dedup (s : State) (w : Worker) : (wakeWorker s w).dedup = s.dedup := rfl
@[simp] theorem wakeWorker_cleanup (s : State) (w : Worker) : (wakeWorker s w).cleanup = s.cleanup := rfl
@[simp] theorem wakeWorker_streams (s : State) (w : Worker) : (wakeWorker s w).streams = s.streams := rfl
@[simp] theorem wakeWorker_terms (s : State) (w : Worker) : (wakeWorker s w).terms = s.terms := rfl
@[simp] theorem wakeWorker_nextTask (s : State) (w : Worker) : (wakeWorker s w).nextTask = s.nextTask := rfl
@[simp] theorem wakeWorker_nextOp (s : State) (w : Worker) : (wakeWorker s w).nextOp = s.nextOp := rfl
@[simp] theorem wakeWorker_nextLearner (s : State) (w : Worker) : (wakeWorker s w).nextLearner = s.nextLearner := rfl
@[simp] theorem wakeWorker_events (s : State) (w : Worker) : (wakeWorker s w).events = s.events := rfl
@[simp] theorem wakeWorker_assigned (s : State) (w : Worker) : (wakeWorker s w).assigned = s.assigned := rfl

@[simp] theorem detachW_cfg (s : State) (t : Task) : (detachW s t).cfg = s.cfg := by unfold detachW; (repeat' split) <;> rfl
@[simp] theorem detachW_now (s : State) (t : Task) : (detachW s t).now = s.now := by unfold detachW; (repeat' split) <;> rfl
@[simp] theorem detachW_pqs (s : State) (t : Task) : (detachW s t).pqs = s.pqs := by unfold detachW; (repeat' split) <;> rfl
@[simp] theorem detachW_scqs (s : State) (t : Task) : (detachW s t).scqs = s.scqs := by unfold detachW; (repeat' split) <;> rfl
@[simp] theorem detachW_tasks (s : State) (t : Task) : (detachW s t).tasks = s.tasks := by unfold detachW; (repeat' split) <;> rfl
@[simp] theorem detachW_ops (s : State) (t : Task) : (detachW s t).ops = s.ops := by unfold detachW; (repeat' split) <;> rfl
@[simp] theorem detachW_dedup (s : State) (t : Task) : (detachW s t).dedup = s.dedup := by unfold detachW; (repeat' split) <;> rfl
@[simp] theorem detachW_cleanup (s : State) (t : Task) : (detachW s t).cleanup = s.cleanup := by unfold detachW; (repeat' split) <;> rfl
@[simp] theorem detachW_streams (s : State) (t : Task) : (detachW s t).streams = s.streams := by unfold detachW; (repeat' split) <;> rfl
@[simp] theorem detachW_terms (s : State) (t : Task) : (detachW s t).terms = s.terms := by unfold detachW; (repeat' split) <;> rfl
@[simp] theorem detachW_nextTask (s : State) (t : Task) : (detachW s t).nextTask = s.nextTask := by unfold detachW; (repeat' split) <;> rfl
@[simp] theorem detachW_nextOp (s : State) (t : Task) : (detachW s t).nextOp = s.nextOp := by unfold detachW; (repeat' split) <;> rfl
@[simp] theorem detachW_nextLearner (s : State) (t : Task) : (detachW s t).nextLearner = s.nextLearner := by unfold detachW; (repeat' split) <;> rfl
@[simp] theorem detachW_events (s : State) (t : Task) : (detachW s t).events = s.events := by unfold detachW; (repeat' split) <;> rfl
@[simp] theorem detachW_assigned (s : State) (t : Task) : (detachW s t).assigned = s.assigned := by unfold detachW; (repeat' split) <;> rfl

@[simp] theorem dropDedup_cfg (s : State) (t : Task) : (dropDedup s t).cfg = s.cfg := by unfold dropDedup; split <;> rfl
@[simp] theorem dropDedup_now (s : State) (t : Task) : (dropDedup s t).now = s.now := by unfold dropDedup; split <;> rfl
@[simp] theorem dropDedup_pqs (s : State) (t : Task) : (dropDedup s t).pqs = s.pqs := by unfold dropDedup; split <;> rfl
@[simp] theorem dropDedup_scqs (s : State) (t : Task) : (dropDedup s t).scqs = s.scqs := by unfold dropDedup; split <;> rfl
@[simp] theorem dropDedup_workers (s : State) (t : Task) : (dropDedup s t).workers = s.workers := by unfold dropDedup; split <;> rfl
@[simp] theorem dropDedup_tasks (s : State) (t : Task) : (dropDedup s t).tasks = s.tasks := by unfold dropDedup; split <;> rfl
@[simp] theorem dropDedup_ops (s : State) (t : Task) : (dropDedup s t).ops = s.ops := by unfold dropDedup; split <;> rfl
@[simp] theorem dropDedup_cleanup (s : State) (t : Task) : (dropDedup s t).cleanup = s.cleanup := by unfold dropDedup; split <;> rfl
@[simp] theorem dropDedup_streams (s : State) (t : Task) : (dropDedup s t).streams = s.streams := by unfold dropDedup; split <;> rfl
@[simp] theorem dropDedup_terms (s : State) (t : Task) : (dropDedup s t).terms = s.terms := by unfold dropDedup; split <;> rfl
@[simp] theorem dropDedup_nextTask (s : State) (t : Task) : (dropDedup s t).nextTask = s.nextTask := by unfold dropDedup; split <;> rfl
@[simp] theorem dropDedup_nextOp (s : State) (t : Task) : (dropDedup s t).nextOp = s.nextOp := by unfold dropDedup; split <;> rfl
@[simp] theorem dropDedup_nextLearner (s : State) (t : Task) : (dropDedup s t).nextLearner = s.nextLearner := by unfold dropDedup; split <;> rfl
@[simp] theorem dropDedup_events (s : State) (t : Task) : (dropDedup s t).events = s.events := by unfold dropDedup; split <;> rfl
@[simp] theorem dropDedup_assigned (s : State) (t : Task) : (dropDedup s t).assigned = s.assigned := by unfold dropDedup; split <;> rfl

@[simp] theorem maybeStartCleanup_cfg (s : State) (o : Nat) : (maybeStartCleanup s o).cfg = s.cfg := by unfold maybeStartCleanup; (repeat' split) <;> rfl
@[simp] theorem maybeStartCleanup_now (s : State) (o : Nat) : (maybeStartCleanup s o).now = s.now := by unfold maybeStartCleanup; (repeat' split) <;> rfl
@[simp] theorem maybeStartCleanup_pqs (s : State) (o : Nat) : (maybeStartCleanup s o).pqs = s.pqs := by unfold maybeStartCleanup; (repeat' split) <;> rfl
@[simp] theorem maybeStartCleanup_scqs (s : State) (o : Nat) : (maybeStartCleanup s o).scqs = s.scqs := by unfold maybeStartCleanup; (repeat' split) <;> rfl
@[simp] theorem maybeStartCleanup_workers (s : State) (o : Nat) : (maybeStartCleanup s o).workers = s.workers := by unfold maybeStartCleanup; (repeat' split) <;> rfl
@[simp] theorem maybeStartCleanup_tasks (s : State) (o : Nat) : (maybeStartCleanup s o).tasks = s.tasks := by unfold maybeStartCleanup; (repeat' split) <;> rfl
@[simp] theorem maybeStartCleanup_ops (s : State) (o : Nat) : (maybeStartCleanup s o).ops = s.ops := by unfold maybeStartCleanup; (repeat' split) <;> rfl
@[simp] theorem maybeStartCleanup_dedup (s : State) (o : Nat) : (maybeStartCleanup s o).dedup = s.dedup := by unfold maybeStartCleanup; (repeat' split) <;> rfl
@[simp] theorem maybeStartCleanup_streams (s : State) (o : Nat) : (maybeStartCleanup s o).streams = s.streams := by unfold maybeStartCleanup; (repeat' split) <;> rfl
@[simp] theorem maybeStartCleanup_terms (s : State) (o : Nat) : (maybeStartCleanup s o).terms = s.terms := by unfold maybeStartCleanup; (repeat' split) <;> rfl
@[simp] theorem maybeStartCleanup_nextTask (s : State) (o : Nat) : (maybeStartCleanup s o).nextTask = s.nextTask := by unfold maybeStartCleanup; (repeat' split) <;> rfl
@[simp] theorem maybeStartCleanup_nextOp (s : State) (o : Nat) : (maybeStartCleanup s o).nextOp = s.nextOp := by unfold maybeStartCleanup; (repeat' split) <;> rfl
@[simp] theorem maybeStartCleanup_nextLearner (s : State) (o : Nat) : (maybeStartCleanup s o).nextLearner = s.nextLearner := by unfold maybeStartCleanup; (repeat' split) <;> rfl
@[simp] theorem maybeStartCleanup_events (s : State) (o : Nat) : (maybeStartCleanup s o).events = s.events := by unfold maybeStartCleanup; (repeat' split) <;> rfl
@[simp] theorem maybeStartCleanup_assigned (s : State) (o : Nat) : (maybeStartCleanup s o).assigned = s.assigned := by unfold maybeStartCleanup; (repeat' split) <;> rfl

@[simp] theorem finishOp_cfg (s : State) (o : Nat) : (finishOp s o).cfg = s.cfg := by unfold finishOp; (repeat' split) <;> simp
@[simp] theorem finishOp_now (s : State) (o : Nat) : (finishOp s o).now = s.now := by unfold finishOp; (repeat' split) <;> simp
@[simp] theorem finishOp_pqs (s : State) (o : Nat) : (finishOp s o).pqs = s.pqs := by unfold finishOp; (repeat' split) <;> simp
@[simp] theorem finishOp_scqs (s : State) (o : Nat) : (finishOp s o).scqs = s.scqs := by unfold finishOp; (repeat' split) <;> simp
@[simp] theorem finishOp_workers (s : State) (o : Nat) : (finishOp s o).workers = s.workers := by unfold finishOp; (repeat' split) <;> simp
@[simp] theorem finishOp_tasks (s : State) (o : Nat) : (finishOp s o).tasks = s.tasks := by unfold finishOp; (repeat' split) <;> simp
@[simp] theorem finishOp_dedup (s : State) (o : Nat) : (finishOp s o).dedup = s.dedup := by unfold finishOp; (repeat' split) <;> simp
@[simp] theorem finishOp_streams (s : State) (o : Nat) : (finishOp s o).streams = s.streams := by unfold finishOp; (repeat' split) <;> simp
@[simp] theorem finishOp_terms (s : State) (o : Nat) : (finishOp s o).terms = s.terms := by unfold finishOp; (repeat' split) <;> simp
@[simp] theorem finishOp_nextTask (s : State) (o : Nat) : (finishOp s o).nextTask = s.nextTask := by unfold finishOp; (repeat' split) <;> simp
@[simp] theorem finishOp_nextOp (s : State) (o : Nat) : (finishOp s o).nextOp = s.nextOp := by unfold finishOp; (repeat' split) <;> simp
@[simp] theorem finishOp_nextLearner (s : State) (o : Nat) : (finishOp s o).nextLearner = s.nextLearner := by unfold finishOp; (repeat' split) <;> simp
@[simp] theorem finishOp_events (s : State) (o : Nat) : (finishOp s o).events = s.events := by unfold finishOp; (repeat' split) <;> simp
@[simp] theorem finishOp_assigned (s : State) (o : Nat) : (finishOp s o).assigned = s.assigned := by unfold finishOp; (repeat' split) <;> simp

@[simp] theorem finishOps_cfg (s : State) (l : List Nat) : (complete.finishOps s l).cfg = s.cfg := by induction l generalizing s with | nil => rfl | cons o r ih => rw [finishOps_cons, ih]; simp
@[simp] theorem finishOps_now (s : State) (l : List Nat) : (complete.finishOps s l).now = s.now := by induction l generalizing s with | nil => rfl | cons o r ih => rw [finishOps_cons, ih]; simp
@[simp] theorem finishOps_pqs (s : State) (l : List Nat) : (complete.finishOps s l).pqs = s.pqs := by induction l generalizing s with | nil => rfl | cons o r ih => rw [finishOps_cons, ih]; simp
@[simp] theorem finishOps_scqs (s : State) (l : List Nat) : (complete.finishOps s l).scqs = s.scqs := by induction l generalizing s with | nil => rfl | cons o r ih => rw [finishOps_cons, ih]; simp
@[simp] theorem finishOps_workers (s : State) (l : List Nat) : (complete.finishOps s l).workers = s.workers := by induction l generalizing s with | nil => rfl | cons o r ih => rw [finishOps_cons, ih]; simp
@[simp] theorem finishOps_tasks (s : State) (l : List Nat) : (complete.finishOps s l).tasks = s.tasks := by induction l generalizing s with | nil => rfl | cons o r ih => rw [finishOps_cons, ih]; simp
@[simp] theorem finishOps_dedup (s : State) (l : List Nat) : (complete.finishOps s l).dedup = s.dedup := by induction l generalizing s with | nil => rfl | cons o r ih => rw [finishOps_cons, ih]; simp
@[simp] theorem finishOps_streams (s : State) (l : List Nat) : (complete.finishOps s l).streams = s.streams := by induction l generalizing s with | nil => rfl | cons o r ih => rw [finishOps_cons, ih]; simp
@[simp] theorem finishOps_terms (s : State) (l : List Nat) : (complete.finishOps s l).terms = s.terms := by induction l generalizing s with | nil => rfl | cons o r ih => rw [finishOps_cons, ih]; simp
@[simp] theorem finishOps_nextTask (s : State) (l : List Nat) : (complete.finishOps s l).nextTask = s.nextTask := by induction l generalizing s with | nil => rfl | cons o r ih => rw [finishOps_cons, ih]; simp
@[simp] theorem finishOps_nextOp (s : State) (l : List Nat) : (complete.finishOps s l).nextOp = s.nextOp := by induction l generalizing s with | nil => rfl | cons o r ih => rw [finishOps_cons, ih]; simp
@[simp] theorem finishOps_nextLearner (s : State) (l : List Nat) : (complete.finishOps s l).nextLearner = s.nextLearner := by induction l generalizing s with | nil => rfl | cons o r ih => rw [finishOps_cons, ih]; simp
@[simp] theorem finishOps_events (s : State) (l : List Nat) : (complete.finishOps s l).events = s.events := by induction l generalizing s with | nil => rfl | cons o r ih => rw [finishOps_cons, ih]; simp
@[simp] theorem finishOps_assigned (s : State) (l : List Nat) : (complete.finishOps s l).assigned = s.assigned := by induction l generalizing s with | nil => rfl | cons o r ih => rw [finishOps_cons, ih]; simp

@[simp] theorem finalizeS_cfg (s : State) (t : Task) (r : Resp) : (finalizeS s t r).cfg = s.cfg := by simp [finalizeS]
@[simp] theorem finalizeS_now (s : State) (t : Task) (r : Resp) : (finalizeS s t r).now = s.now := by simp [finalizeS]
@[simp] theorem finalizeS_pqs (s : State) (t : Task) (r : Resp) : (finalizeS s t r).pqs = s.pqs := by simp [finalizeS]
@[simp] theorem finalizeS_scqs (s : State) (t : Task) (r : Resp) : (finalizeS s t r).scqs = s.scqs := by simp [finalizeS]
@[simp] theorem finalizeS_workers (s : State) (t : Task) (r : Resp) : (finalizeS s t r).workers = s.workers := by simp [finalizeS]
@[simp] theorem finalizeS_streams (s : State) (t : Task) (r : Resp) : (finalizeS s t r).streams = s.streams := by simp [finalizeS]
@[simp] theorem finalizeS_terms (s : State) (t : Task) (r : Resp) : (finalizeS s t r).terms = s.terms := by simp [finalizeS]
@[simp] theorem finalizeS_nextTask (s : State) (t : Task) (r : Resp) : (finalizeS s t r).nextTask = s.nextTask := by simp [finalizeS]
@[simp] theorem finalizeS_nextOp (s : State) (t : Task) (r : Resp) : (finalizeS s t r).nextOp = s.nextOp := by simp [finalizeS]
@[simp] theorem finalizeS_nextLearner (s : State) (t : Task) (r : Resp) : (finalizeS s t r).nextLearner = s.nextLearner := by simp [finalizeS]
@[simp] theorem finalizeS_events (s : State) (t : Task) (r : Resp) : (finalizeS s t r).events = s.events := by simp [finalizeS]
@[simp] theorem finalizeS_assigned (s : State) (t : Task) (r : Resp) : (finalizeS s t r).assigned = s.assigned := by simp [finalizeS]

@[simp] theorem bumpLearner_cfg (s : State) : (bumpLearner s).cfg = s.cfg := rfl
@[simp] theorem bumpLearner_now (s : State) : (bumpLearner s).now = s.now := rfl
@[simp] theorem bumpLearner_pqs (s : State) : (bumpLearner s).pqs = s.pqs := rfl
@[simp] theorem bumpLearner_scqs (s : State) : (bumpLearner s).scqs = s.scqs := rfl
@[simp] theorem bumpLearner_workers (s : State) : (bumpLearner s).workers = s.workers := rfl
@[simp] theorem bumpLearner_tasks (s : State) : (bumpLearner s).tasks = s.tasks := rfl
@[simp] theorem bumpLearner_ops (s : State) : (bumpLearner s).ops = s.ops := rfl
@[simp] theorem bumpLearner_dedup (s : State) : (bumpLearner s).dedup = s.dedup := rfl
@[simp] theorem bumpLearner_cleanup (s : State) : (bumpLearner s).cleanup = s.cleanup := rfl
@[simp] theorem bumpLearner_streams (s : State) : (bumpLearner s).streams = s.streams := rfl
@[simp] theorem bumpLearner_terms (s : State) : (bumpLearner s).terms = s.terms := rfl
@[simp] theorem bumpLearner_nextTask (s : State) : (bumpLearner s).nextTask = s.nextTask := rfl
@[simp] theorem bumpLearner_nextOp (s : State) : (bumpLearner s).nextOp = s.nextOp := rfl
@[simp] theorem bumpLearner_events (s : State) : (bumpLearner s).events = s.events := rfl
@[simp] theorem bumpLearner_assigned (s : State) : (bumpLearner s).assigned = s.assigned := rfl

@[simp] theorem succS_cfg (s : State) (t : Task) (ev : Event) (r : Resp) : (succS s t ev r).cfg = s.cfg := by simp [succS]
@[simp] theorem succS_now (s : State) (t : Task) (ev : Event) (r : Resp) : (succS s t ev r).now = s.now := by simp [succS]
@[simp] theorem succS_pqs (s : State) (t : Task) (ev : Event) (r : Resp) : (succS s t ev r).pqs = s.pqs := by simp [succS]
@[simp] theorem succS_scqs (s : State) (t : Task) (ev : Event) (r : Resp) : (succS s t ev r).scqs = s.scqs := by simp [succS]
@[simp] theorem succS_workers (s : State) (t : Task) (ev : Event) (r : Resp) : (succS s t ev r).workers = s.workers := by simp [succS]
@[simp] theorem succS_streams (s : State) (t : Task) (ev : Event) (r : Resp) : (succS s t ev r).streams = s.streams := by simp [succS]
@[simp] theorem succS_terms (s : State) (t : Task) (ev : Event) (r : Resp) : (succS s t ev r).terms = s.terms := by simp [succS]
@[simp] theorem succS_nextTask (s : State) (t : Task) (ev : Event) (r : Resp) : (succS s t ev r).nextTask = s.nextTask := by simp [succS]
@[simp] theorem succS_nextOp (s : State) (t : Task) (ev : Event) (r : Resp) : (succS s t ev r).nextOp = s.nextOp := by simp [succS]
@[simp] theorem succS_nextLearner (s : State) (t : Task) (ev : Event) (r : Resp) : (succS s t ev r).nextLearner = s.nextLearner := by simp [succS]
@[simp] theorem succS_assigned (s : State) (t : Task) (ev : Event) (r : Resp) : (succS s t ev r).assigned = s.assigned := by simp [succS]

@[simp] theorem retryS_cfg (s : State) (l : Nat) (r : Resp) : (retryS s l r).cfg = s.cfg := rfl
@[simp] theorem retryS_now (s : State) (l : Nat) (r : Resp) : (retryS s l r).now = s.now := rfl
@[simp] theorem retryS_pqs (s : State) (l : Nat) (r : Resp) : (retryS s l r).pqs = s.pqs := rfl
@[simp] theorem retryS_scqs (s : State) (l : Nat) (r : Resp) : (retryS s l r).scqs = s.scqs := rfl
@[simp] theorem retryS_workers (s : State) (l : Nat) (r : Resp) : (retryS s l r).workers = s.workers := rfl
@[simp] theorem retryS_tasks (s : State) (l : Nat) (r : Resp) : (retryS s l r).tasks = s.tasks := rfl
@[simp] theorem retryS_ops (s : State) (l : Nat) (r : Resp) : (retryS s l r).ops = s.ops := rfl
@[simp] theorem retryS_dedup (s : State) (l : Nat) (r : Resp) : (retryS s l r).dedup = s.dedup := rfl
@[simp] theorem retryS_cleanup (s : State) (l : Nat) (r : Resp) : (retryS s l r).cleanup = s.cleanup := rfl
@[simp] theorem retryS_streams (s : State) (l : Nat) (r : Resp) : (retryS s l r).streams = s.streams := rfl
@[simp] theorem retryS_terms (s : State) (l : Nat) (r : Resp) : (retryS s l r).terms = s.terms := rfl
@[simp] theorem retryS_nextTask (s : State) (l : Nat) (r : Resp) : (retryS s l r).nextTask = s.nextTask := rfl
@[simp] theorem retryS_nextOp (s : State) (l : Nat) (r : Resp) : (retryS s l r).nextOp = s.nextOp := rfl
@[simp] theorem retryS_assigned (s : State) (l : Nat) (r : Resp) : (retryS s l r).assigned = s.assigned := rfl

@[simp] theorem eraseOp_cfg (s : State) (o : Nat) : (eraseOp s o).cfg = s.cfg := rfl
@[simp] theorem eraseOp_now (s : State) (o : Nat) : (eraseOp s o).now = s.now := rfl
@[simp] theorem eraseOp_pqs (s : State) (o : Nat) : (eraseOp s o).pqs = s.pqs := rfl
@[simp] theorem eraseOp_scqs (s : State) (o : Nat) : (eraseOp s o).scqs = s.scqs := rfl
@[simp] theorem eraseOp_workers (s : State) (o : Nat) : (eraseOp s o).workers = s.workers := rfl
@[simp] theorem eraseOp_tasks (s : State) (o : Nat) : (eraseOp s o).tasks = s.tasks := rfl
@[simp] theorem eraseOp_dedup (s : State) (o : Nat) : (eraseOp s o).dedup = s.dedup := rfl
@[simp] theorem eraseOp_cleanup (s : State) (o : Nat) : (eraseOp s o).cleanup = s.cleanup := rfl
@[simp] theorem eraseOp_streams (s : State) (o : Nat) : (eraseOp s o).streams = s.streams := rfl
@[simp] theorem eraseOp_terms (s : State) (o : Nat) : (eraseOp s o).terms = s.terms := rfl
@[simp] theorem eraseOp_nextTask (s : State) (o : Nat) : (eraseOp s o).nextTask = s.nextTask := rfl
@[simp] theorem eraseOp_nextOp (s : State) (o : Nat) : (eraseOp s o).nextOp = s.nextOp := rfl
@[simp] theorem eraseOp_nextLearner (s : State) (o : Nat) : (eraseOp s o).nextLearner = s.nextLearner := rfl
@[simp] theorem eraseOp_events (s : State) (o : Nat) : (eraseOp s o).events = s.events := rfl
@[simp] theorem eraseOp_assigned (s : State) (o : Nat) : (eraseOp s o).assigned = s.assigned := rfl

@[simp] theorem dropOpT_cfg (s : State) (t : Task) (o : Nat) : (dropOpT s t o).cfg = s.cfg := by unfold dropOpT; split <;> rfl
@[simp] theorem dropOpT_now (s : State) (t : Task) (o : Nat) : (dropOpT s t o).now = s.now := by unfold dropOpT; split <;> rfl
@[simp] theorem dropOpT_pqs (s : State) (t : Task) (o : Nat) : (dropOpT s t o).pqs = s.pqs := by unfold dropOpT; split <;> rfl
@[simp] theorem dropOpT_scqs (s : State) (t : Task) (o : Nat) : (dropOpT s t o).scqs = s.scqs := by unfold dropOpT; split <;> rfl
@[simp] theorem dropOpT_workers (s : State) (t : Task) (o : Nat) : (dropOpT s t o).workers = s.workers := by unfold dropOpT; split <;> rfl
@[simp] theorem dropOpT_ops (s : State) (t : Task) (o : Nat) : (dropOpT s t o).ops = s.ops := by unfold dropOpT; split <;> rfl
@[simp] theorem dropOpT_dedup (s : State) (t : Task) (o : Nat) : (dropOpT s t o).dedup = s.dedup := by unfold dropOpT; split <;> rfl
@[simp] theorem dropOpT_cleanup (s : State) (t : Task) (o : Nat) : (dropOpT s t o).cleanup = s.cleanup := by unfold dropOpT; split <;> rfl
@[simp] theorem dropOpT_streams (s : State) (t : Task) (o : Nat) : (dropOpT s t o).streams = s.streams := by unfold dropOpT; split <;> rfl
@[simp] theorem dropOpT_terms (s : State) (t : Task) (o : Nat) : (dropOpT s t o).terms = s.terms := by unfold dropOpT; split <;> rfl
@[simp] theorem dropOpT_nextTask (s : State) (t : Task) (o : Nat) : (dropOpT s t o).nextTask = s.nextTask := by unfold dropOpT; split <;> rfl
@[simp] theorem dropOpT_nextOp (s : State) (t : Task) (o : Nat) : (dropOpT s t o).nextOp = s.nextOp := by unfold dropOpT; split <;> rfl
@[simp] theorem dropOpT_nextLearner (s : State) (t : Task) (o : Nat) : (dropOpT s t o).nextLearner = s.nextLearner := by unfold dropOpT; split <;> rfl
@[simp] theorem dropOpT_events (s : State) (t : Task) (o : Nat) : (dropOpT s t o).events = s.events := by unfold dropOpT; split <;> rfl
@[simp] theorem dropOpT_assigned (s : State) (t : Task) (o : Nat) : (dropOpT s t o).assigned = s.assigned := by unfold dropOpT; split <;> rfl

@[simp] theorem dropScq_cfg (s : State) (q : ScqId) : (dropScq s q).cfg = s.cfg := by unfold dropScq; split <;> rfl
@[simp] theorem dropScq_now (s : State) (q : ScqId) : (dropScq s q).now = s.now := by unfold dropScq; split <;> rfl
@[simp] theorem dropScq_workers (s : State) (q : ScqId) : (dropScq s q).workers = s.workers := by unfold dropScq; split <;> rfl
@[simp] theorem dropScq_tasks (s : State) (q : ScqId) : (dropScq s q).tasks = s.tasks := by unfold dropScq; split <;> rfl
@[simp] theorem dropScq_ops (s : State) (q : ScqId) : (dropScq s q).ops = s.ops := by unfold dropScq; split <;> rfl
@[simp] theorem dropScq_dedup (s : State) (q : ScqId) : (dropScq s q).dedup = s.dedup := by unfold dropScq; split <;> rfl
@[simp] theorem dropScq_cleanup (s : State) (q : ScqId) : (dropScq s q).cleanup = s.cleanup := by unfold dropScq; split <;> rfl
@[simp] theorem dropScq_streams (s : State) (q : ScqId) : (dropScq s q).streams = s.streams := by unfold dropScq; split <;> rfl
@[simp] theorem dropScq_terms (s : State) (q : ScqId) : (dropScq s q).terms = s.terms := by unfold dropScq; split <;> rfl
@[simp] theorem dropScq_nextTask (s : State) (q : ScqId) : (dropScq s q).nextTask = s.nextTask := by unfold dropScq; split <;> rfl
@[simp] theorem dropScq_nextOp (s : State) (q : ScqId) : (dropScq s q).nextOp = s.nextOp := by unfold dropScq; split <;> rfl
@[simp] theorem dropScq_nextLearner (s : State) (q : ScqId) : (dropScq s q).nextLearner = s.nextLearner := by unfold dropScq; split <;> rfl
@[simp] theorem dropScq_events (s : State) (q : ScqId) : (dropScq s q).events = s.events := by unfold dropScq; split <;> rfl
@[simp] theorem dropScq_assigned (s : State) (q : ScqId) : (dropScq s q).assigned = s.assigned := by unfold dropScq; split <;> rfl

@[simp] theorem filterWorkers_cfg (s : State) (q : ScqId) (w : WId) : (filterWorkers s q w).cfg = s.cfg := rfl
@[simp] theorem filterWorkers_now (s : State) (q : ScqId) (w : WId) : (filterWorkers s q w).now = s.now := rfl
@[simp] theorem filterWorkers_pqs (s : State) (q : ScqId) (w : WId) : (filterWorkers s q w).pqs = s.pqs := rfl
@[simp] theorem filterWorkers_scqs (s : State) (q : ScqId) (w : WId) : (filterWorkers s q w).scqs = s.scqs := rfl
@[simp] theorem filterWorkers_tasks (s : State) (q : ScqId) (w : WId) : (filterWorkers s q w).tasks = s.tasks := rfl
@[simp] theorem filterWorkers_ops (s : State) (q : ScqId) (w : WId) : (filterWorkers s q w).ops = s.ops := rfl
@[simp] theorem filterWorkers_dedup (s : State) (q : ScqId) (w : WId) : (filterWorkers s q w).dedup = s.dedup := rfl
@[simp] theorem filterWorkers_cleanup (s : State) (q : ScqId) (w : WId) : (filterWorkers s q w).cleanup = s.cleanup := rfl
@[simp] theorem filterWorkers_streams (s : State) (q : ScqId) (w : WId) : (filterWorkers s q w).streams = s.streams := rfl
@[simp] theorem filterWorkers_terms (s : State) (q : ScqId) (w : WId) : (filterWorkers s q w).terms = s.terms := rfl
@[simp] theorem filterWorkers_nextTask (s : State) (q : ScqId) (w : WId) : (filterWorkers s q w).nextTask = s.nextTask := rfl
@[simp] theorem filterWorkers_nextOp (s : State) (q : ScqId) (w : WId) : (filterWorkers s q w).nextOp = s.nextOp := rfl
@[simp] theorem filterWorkers_nextLearner (s : State) (q : ScqId) (w : WId) : (filterWorkers s q w).nextLearner = s.nextLearner := rfl
@[simp] theorem filterWorkers_events (s : State) (q : ScqId) (w : WId) : (filterWorkers s q w).events = s.events := rfl
@[simp] theorem filterWorkers_assigned (s : State) (q : ScqId) (w : WId) : (filterWorkers s q w).assigned = s.assigned := rfl

@[simp] theorem dropWorker_cfg (s : State) (q : ScqId) (w : WId) (rt : Nat) : (dropWorker s q w rt).cfg = s.cfg := by unfold dropWorker; (repeat' split) <;> rfl
@[simp] theorem dropWorker_now (s : State) (q : ScqId) (w : WId) (rt : Nat) : (dropWorker s q w rt).now = s.now := by unfold dropWorker; (repeat' split) <;> rfl
@[simp] theorem dropWorker_pqs (s : State) (q : ScqId) (w : WId) (rt : Nat) : (dropWorker s q w rt).pqs = s.pqs := by unfold dropWorker; (repeat' split) <;> rfl
@[simp] theorem dropWorker_scqs (s : State) (q : ScqId) (w : WId) (rt : Nat) : (dropWorker s q w rt).scqs = s.scqs := by unfold dropWorker; (repeat' split) <;> rfl
@[simp] theorem dropWorker_tasks (s : State) (q : ScqId) (w : WId) (rt : Nat) : (dropWorker s q w rt).tasks = s.tasks := by unfold dropWorker; (repeat' split) <;> rfl
@[simp] theorem dropWorker_ops (s : State) (q : ScqId) (w : WId) (rt : Nat) : (dropWorker s q w rt).ops = s.ops := by unfold dropWorker; (repeat' split) <;> rfl
@[simp] theorem dropWorker_dedup (s : State) (q : ScqId) (w : WId) (rt : Nat) : (dropWorker s q w rt).dedup = s.dedup := by unfold dropWorker; (repeat' split) <;> rfl
@[simp] theorem dropWorker_streams (s : State) (q : ScqId) (w : WId) (rt : Nat) : (dropWorker s q w rt).streams = s.streams := by unfold dropWorker; (repeat' split) <;> rfl
@[simp] theorem dropWorker_terms (s : State) (q : ScqId) (w : WId) (rt : Nat) : (dropWorker s q w rt).terms = s.terms := by unfold dropWorker; (repeat' split) <;> rfl
@[simp] theorem dropWorker_nextTask (s : State) (q : ScqId) (w : WId) (rt : Nat) : (dropWorker s q w rt).nextTask = s.nextTask := by unfold dropWorker; (repeat' split) <;> rfl
@[simp] theorem dropWorker_nextOp (s : State) (q : ScqId) (w : WId) (rt : Nat) : (dropWorker s q w rt).nextOp = s.nextOp := by unfold dropWorker; (repeat' split) <;> rfl
@[simp] theorem dropWorker_nextLearner (s : State) (q : ScqId) (w : WId) (rt : Nat) : (dropWorker s q w rt).nextLearner = s.nextLearner := by unfold dropWorker; (repeat' split) <;> rfl
@[simp] theorem dropWorker_events (s : State) (q : ScqId) (w : WId) (rt : Nat) : (dropWorker s q w rt).events = s.events := by unfold dropWorker; (repeat' split) <;> rfl
@[simp] theorem dropWorker_assigned (s : State) (q : ScqId) (w : WId) (rt : Nat) : (dropWorker s q w rt).assigned = s.assigned := by unfold dropWorker; (repeat' split) <;> rfl

@[simp] theorem setCleanup_cfg (s : State) (cs : List CleanupEntry) : (setCleanup s cs).cfg = s.cfg := rfl
@[simp] theorem setCleanup_now (s : State) (cs : List CleanupEntry) : (setCleanup s cs).now = s.now := rfl
@[simp] theorem setCleanup_pqs (s : State) (cs : List CleanupEntry) : (setCleanup s cs).pqs = s.pqs := rfl
@[simp] theorem setCleanup_scqs (s : State) (cs : List CleanupEntry) : (setCleanup s cs).scqs = s.scqs := rfl
@[simp] theorem setCleanup_workers (s : State) (cs : List CleanupEntry) : (setCleanup s cs).workers = s.workers := rfl
@[simp] theorem setCleanup_tasks (s : State) (cs : List CleanupEntry) : (setCleanup s cs).tasks = s.tasks := rfl
@[simp] theorem setCleanup_ops (s : State) (cs : List CleanupEntry) : (setCleanup s cs).ops = s.ops := rfl
@[simp] theorem setCleanup_dedup (s : State) (cs : List CleanupEntry) : (setCleanup s cs).dedup = s.dedup := rfl
@[simp] theorem setCleanup_streams (s : State) (cs : List CleanupEntry) : (setCleanup s cs).streams = s.streams := rfl
@[simp] theorem setCleanup_terms (s : State) (cs : List CleanupEntry) : (setCleanup s cs).terms = s.terms := rfl
@[simp] theorem setCleanup_nextTask (s : State) (cs : List CleanupEntry) : (setCleanup s cs).nextTask = s.nextTask := rfl
@[simp] theorem setCleanup_nextOp (s : State) (cs : List CleanupEntry) : (setCleanup s cs).nextOp = s.nextOp := rfl
@[simp] theorem setCleanup_nextLearner (s : State) (cs : List CleanupEntry) : (setCleanup s cs).nextLearner = s.nextLearner := rfl
@[simp] theorem setCleanup_events (s : State) (cs : List CleanupEntry) : (setCleanup s cs).events = s.events := rfl
@[simp] theorem setCleanup_assigned (s : State) (cs : List CleanupEntry) : (setCleanup s cs).assigned = s.assigned := rfl

@[simp] theorem setNow_cfg (s : State) (t : Nat) : (setNow s t).cfg = s.cfg := rfl
@[simp] theorem setNow_pqs (s : State) (t : Nat) : (setNow s t).pqs = s.pqs := rfl
@[simp] theorem setNow_scqs (s : State) (t : Nat) : (setNow s t).scqs = s.scqs := rfl
@[simp] theorem setNow_workers (s : State) (t : Nat) : (setNow s t).workers = s.workers := rfl
@[simp] theorem setNow_tasks (s : State) (t : Nat) : (setNow s t).tasks = s.tasks := rfl
@[simp] theorem setNow_ops (s : State) (t : Nat) : (setNow s t).ops = s.ops := rfl
@[simp] theorem setNow_dedup (s : State) (t : Nat) : (setNow s t).dedup = s.dedup := rfl
@[simp] theorem setNow_cleanup (s : State) (t : Nat) : (setNow s t).cleanup = s.cleanup := rfl
@[simp] theorem setNow_streams (s : State) (t : Nat) : (setNow s t).streams = s.streams := rfl
@[simp] theorem setNow_terms (s : State) (t : Nat) : (setNow s t).terms = s.terms := rfl
@[simp] theorem setNow_nextTask (s : State) (t : Nat) : (setNow s t).nextTask = s.nextTask := rfl
@[simp] theorem setNow_nextOp (s : State) (t : Nat) : (setNow s t).nextOp = s.nextOp := rfl
@[simp] theorem setNow_nextLearner (s : State) (t : Nat) : (setNow s t).nextLearner = s.nextLearner := rfl
@[simp] theorem setNow_events (s : State) (t : Nat) : (setNow s t).events = s.events := rfl
@[simp] theorem setNow_assigned (s : State) (t : Nat) : (setNow s t).assigned = s.assigned := rfl

@[simp] theorem dropStream_cfg (s : State) (c : Nat) : (dropStream s c).cfg = s.cfg := rfl
@[simp] theorem dropStream_now (s : State) (c : Nat) : (dropStream s c).now = s.now := rfl
@[simp] theorem dropStream_pqs (s : State) (c : Nat) : (dropStream s c).pqs = s.pqs := rfl
@[simp] theorem dropStream_scqs (s : State) (c : Nat) : (dropStream s c).scqs = s.scqs := rfl
@[simp] theorem dropStream_workers (s : State) (c : Nat) : (dropStream s c).workers = s.workers := rfl
@[simp] theorem dropStream_tasks (s : State) (c : Nat) : (dropStream s c).tasks = s.tasks := rfl
@[simp] theorem dropStream_ops (s : State) (c : Nat) : (dropStream s c).ops = s.ops := rfl
@[simp] theorem dropStream_dedup (s : State) (c : Nat) : (dropStream s c).dedup = s.dedup := rfl
@[simp] theorem dropStream_cleanup (s : State) (c : Nat) : (dropStream s c).cleanup = s.cleanup := rfl
@[simp] theorem dropStream_terms (s : State) (c : Nat) : (dropStream s c).terms = s.terms := rfl
@[simp] theorem dropStream_nextTask (s : State) (c : Nat) : (dropStream s c).nextTask = s.nextTask := rfl
@[simp] theorem dropStream_nextOp (s : State) (c : Nat) : (dropStream s c).nextOp = s.nextOp := rfl
@[simp] theorem dropStream_nextLearner (s : State) (c : Nat) : (dropStream s c).nextLearner = s.nextLearner := rfl
@[simp] theorem dropStream_events (s : State) (c : Nat) : (dropStream s c).events = s.events := rfl
@[simp] theorem dropStream_assigned (s : State) (c : Nat) : (dropStream s c).assigned = s.assigned := rfl

@[simp] theorem addStream_cfg (s : State) (st : Stream) : (addStream s st).cfg = s.cfg := rfl
@[simp] theorem addStream_now (s : State) (st : Stream) : (addStream s st).now = s.now := rfl
@[simp] theorem addStream_pqs (s : State) (st : Stream) : (addStream s st).pqs = s.pqs := rfl
@[simp] theorem addStream_scqs (s : State) (st : Stream) : (addStream s st).scqs = s.scqs := rfl
@[simp] theorem addStream_workers (s : State) (st : Stream) : (addStream s st).workers = s.workers := rfl
@[simp] theorem addStream_tasks (s : State) (st : Stream) : (addStream s st).tasks = s.tasks := rfl
@[simp] theorem addStream_ops (s : State) (st : Stream) : (addStream s st).ops = s.ops := rfl
@[simp] theorem addStream_dedup (s : State) (st : Stream) : (addStream s st).dedup = s.dedup := rfl
@[simp] theorem addStream_cleanup (s : State) (st : Stream) : (addStream s st).cleanup = s.cleanup := rfl
@[simp] theorem addStream_terms (s : State) (st : Stream) : (addStream s st).terms = s.terms := rfl
@[simp] theorem addStream_nextTask (s : State) (st : Stream) : (addStream s st).nextTask = s.nextTask := rfl
@[simp] theorem addStream_nextOp (s : State) (st : Stream) : (addStream s st).nextOp = s.nextOp := rfl
@[simp] theorem addStream_nextLearner (s : State) (st : Stream) : (addStream s st).nextLearner = s.nextLearner := rfl
@[simp] theorem addStream_events (s : State) (st : Stream) : (addStream s st).events = s.events := rfl
@[simp] theorem addStream_assigned (s : State) (st : Stream) : (addStream s st).assigned = s.assigned := rfl

@[simp] theorem sendDone_cfg (s : State) (c o : Nat) (op : Op) (t : Task) (r : Resp) : (sendDone s c o op t r).cfg = s.cfg := by simp [sendDone]
@[simp] theorem sendDone_now (s : State) (c o : Nat) (op : Op) (t : Task) (r : Resp) : (sendDone s c o op t r).now = s.now := by simp [sendDone]
@[simp] theorem sendDone_pqs (s : State) (c o : Nat) (op : Op) (t : Task) (r : Resp) : (sendDone s c o op t r).pqs = s.pqs := by simp [sendDone]
@[simp] theorem sendDone_scqs (s : State) (c o : Nat) (op : Op) (t : Task) (r : Resp) : (sendDone s c o op t r).scqs = s.scqs := by simp [sendDone]
@[simp] theorem sendDone_workers (s : State) (c o : Nat) (op : Op) (t : Task) (r : Resp) : (sendDone s c o op t r).workers = s.workers := by simp [sendDone]
@[simp] theorem sendDone_tasks (s : State) (c o : Nat) (op : Op) (t : Task) (r : Resp) : (sendDone s c o op t r).tasks = s.tasks := by simp [sendDone]
@[simp] theorem sendDone_dedup (s : State) (c o : Nat) (op : Op) (t : Task) (r : Resp) : (sendDone s c o op t r).dedup = s.dedup := by simp [sendDone]
@[simp] theorem sendDone_terms (s : State) (c o : Nat) (op : Op) (t : Task) (r : Resp) : (sendDone s c o op t r).terms = s.terms := by simp [sendDone]
@[simp] theorem sendDone_nextTask (s : State) (c o : Nat) (op : Op) (t : Task) (r : Resp) : (sendDone s c o op t r).nextTask = s.nextTask := by simp [sendDone]
@[simp] theorem sendDone_nextOp (s : State) (c o : Nat) (op : Op) (t : Task) (r : Resp) : (sendDone s c o op t r).nextOp = s.nextOp := by simp [sendDone]
@[simp] theorem sendDone_nextLearner (s : State) (c o : Nat) (op : Op) (t : Task) (r : Resp) : (sendDone s c o op t r).nextLearner = s.nextLearner := by simp [sendDone]
@[simp] theorem sendDone_assigned (s : State) (c o : Nat) (op : Op) (t : Task) (r : Resp) : (sendDone s c o op t r).assigned = s.assigned := by simp [sendDone]

@[simp] theorem sendPark_cfg (s : State) (c o : Nat) (t : Task) : (sendPark s c o t).cfg = s.cfg := rfl
@[simp] theorem sendPark_now (s : State) (c o : Nat) (t : Task) : (sendPark s c o t).now = s.now := rfl
@[simp] theorem sendPark_pqs (s : State) (c o : Nat) (t : Task) : (sendPark s c o t).pqs = s.pqs := rfl
@[simp] theorem sendPark_scqs (s : State) (c o : Nat) (t : Task) : (sendPark s c o t).scqs = s.scqs := rfl
@[simp] theorem sendPark_workers (s : State) (c o : Nat) (t : Task) : (sendPark s c o t).workers = s.workers := rfl
@[simp] theorem sendPark_tasks (s : State) (c o : Nat) (t : Task) : (sendPark s c o t).tasks = s.tasks := rfl
@[simp] theorem sendPark_ops (s : State) (c o : Nat) (t : Task) : (sendPark s c o t).ops = s.ops := rfl
@[simp] theorem sendPark_dedup (s : State) (c o : Nat) (t : Task) : (sendPark s c o t).dedup = s.dedup := rfl
@[simp] theorem sendPark_cleanup (s : State) (c o : Nat) (t : Task) : (sendPark s c o t).cleanup = s.cleanup := rfl
@[simp] theorem sendPark_terms (s : State) (c o : Nat) (t : Task) : (sendPark s c o t).terms = s.terms := rfl
@[simp] theorem sendPark_nextTask (s : State) (c o : Nat) (t : Task) : (sendPark s c o t).nextTask = s.nextTask := rfl
@[simp] theorem sendPark_nextOp (s : State) (c o : Nat) (t : Task) : (sendPark s c o t).nextOp = s.nextOp := rfl
@[simp] theorem sendPark_nextLearner (s : State) (c o : Nat) (t : Task) : (sendPark s c o t).nextLearner = s.nextLearner := rfl
@[simp] theorem sendPark_assigned (s : State) (c o : Nat) (t : Task) : (sendPark s c o t).assigned = s.assigned := rfl

@[simp] theorem attachS_cfg (s : State) (o : Nat) (op : Op) : (attachS s o op).cfg = s.cfg := rfl
@[simp] theorem attachS_now (s : State) (o : Nat) (op : Op) : (attachS s o op).now = s.now := rfl
@[simp] theorem attachS_pqs (s : State) (o : Nat) (op : Op) : (attachS s o op).pqs = s.pqs := rfl
@[simp] theorem attachS_scqs (s : State) (o : Nat) (op : Op) : (attachS s o op).scqs = s.scqs := rfl
@[simp] theorem attachS_workers (s : State) (o : Nat) (op : Op) : (attachS s o op).workers = s.workers := rfl
@[simp] theorem attachS_tasks (s : State) (o : Nat) (op : Op) : (attachS s o op).tasks = s.tasks := rfl
@[simp] theorem attachS_dedup (s : State) (o : Nat) (op : Op) : (attachS s o op).dedup = s.dedup := rfl
@[simp] theorem attachS_streams (s : State) (o : Nat) (op : Op) : (attachS s o op).streams = s.streams := rfl
@[simp] theorem attachS_terms (s : State) (o : Nat) (op : Op) : (attachS s o op).terms = s.terms := rfl
@[simp] theorem attachS_nextTask (s : State) (o : Nat) (op : Op) : (attachS s o op).nextTask = s.nextTask := rfl
@[simp] theorem attachS_nextOp (s : State) (o : Nat) (op : Op) : (attachS s o op).nextOp = s.nextOp := rfl
@[simp] theorem attachS_nextLearner (s : State) (o : Nat) (op : Op) : (attachS s o op).nextLearner = s.nextLearner := rfl
@[simp] theorem attachS_events (s : State) (o : Nat) (op : Op) : (attachS s o op).events = s.events := rfl
@[simp] theorem attachS_assigned (s : State) (o : Nat) (op : Op) : (attachS s o op).assigned = s.assigned := rfl

@[simp] theorem leaveS_cfg (s : State) (c : Nat) (st : Stream) (op : Op) (code : Nat) : (leaveS s c st op code).cfg = s.cfg := by simp [leaveS]
@[simp] theorem leaveS_now (s : State) (c : Nat) (st : Stream) (op : Op) (code : Nat) : (leaveS s c st op code).now = s.now := by simp [leaveS]
@[simp] theorem leaveS_pqs (s : State) (c : Nat) (st : Stream) (op : Op) (code : Nat) : (leaveS s c st op code).pqs = s.pqs := by simp [leaveS]
@[simp] theorem leaveS_scqs (s : State) (c : Nat) (st : Stream) (op : Op) (code : Nat) : (leaveS s c st op code).scqs = s.scqs := by simp [leaveS]
@[simp] theorem leaveS_workers (s : State) (c : Nat) (st : Stream) (op : Op) (code : Nat) : (leaveS s c st op code).workers = s.workers := by simp [leaveS]
@[simp] theorem leaveS_tasks (s : State) (c : Nat) (st : Stream) (op : Op) (code : Nat) : (leaveS s c st op code).tasks = s.tasks := by simp [leaveS]
@[simp] theorem leaveS_dedup (s : State) (c : Nat) (st : Stream) (op : Op) (code : Nat) : (leaveS s c st op code).dedup = s.dedup := by simp [leaveS]
@[simp] theorem leaveS_terms (s : State) (c : Nat) (st : Stream) (op : Op) (code : Nat) : (leaveS s c st op code).terms = s.terms := by simp [leaveS]
@[simp] theorem leaveS_nextTask (s : State) (c : Nat) (st : Stream) (op : Op) (code : Nat) : (leaveS s c st op code).nextTask = s.nextTask := by simp [leaveS]
@[simp] theorem leaveS_nextOp (s : State) (c : Nat) (st : Stream) (op : Op) (code : Nat) : (leaveS s c st op code).nextOp = s.nextOp := by simp [leaveS]
@[simp] theorem leaveS_nextLearner (s : State) (c : Nat) (st : Stream) (op : Op) (code : Nat) : (leaveS s c st op code).nextLearner = s.nextLearner := by simp [leaveS]
@[simp] theorem leaveS_assigned (s : State) (c : Nat) (st : Stream) (op : Op) (code : Nat) : (leaveS s c st op code).assigned = s.assigned := by simp [leaveS]

@[simp] theorem addOpS_cfg (s : State) (tid : Nat) (t : Task) (inv : List Nat) (prio : Int) : (addOpS s tid t inv prio).cfg = s.cfg := rfl
@[simp] theorem addOpS_now (s : State) (tid : Nat) (t : Task) (inv : List Nat) (prio : Int) : (addOpS s tid t inv prio).now = s.now := rfl
@[simp] theorem addOpS_pqs (s : State) (tid : Nat) (t : Task) (inv : List Nat) (prio : Int) : (addOpS s tid t inv prio).pqs = s.pqs := rfl
@[simp] theorem addOpS_scqs (s : State) (tid : Nat) (t : Task) (inv : List Nat) (prio : Int) : (addOpS s tid t inv prio).scqs = s.scqs := rfl
@[simp] theorem addOpS_workers (s : State) (tid : Nat) (t : Task) (inv : List Nat) (prio : Int) : (addOpS s tid t inv prio).workers = s.workers := rfl
@[simp] theorem addOpS_dedup (s : State) (tid : Nat) (t : Task) (inv : List Nat) (prio : Int) : (addOpS s tid t inv prio).dedup = s.dedup := rfl
@[simp] theorem addOpS_cleanup (s : State) (tid : Nat) (t : Task) (inv : List Nat) (prio : Int) : (addOpS s tid t inv prio).cleanup = s.cleanup := rfl
@[simp] theorem addOpS_streams (s : State) (tid : Nat) (t : Task) (inv : List Nat) (prio : Int) : (addOpS s tid t inv prio).streams = s.streams := rfl
@[simp] theorem addOpS_terms (s : State) (tid : Nat) (t : Task) (inv : List Nat) (prio : Int) : (addOpS s tid t inv prio).terms = s.terms := rfl
@[simp] theorem addOpS_nextTask (s : State) (tid : Nat) (t : Task) (inv : List Nat) (prio : Int) : (addOpS s tid t inv prio).nextTask = s.nextTask := rfl
@[simp] theorem addOpS_nextLearner (s : State) (tid : Nat) (t : Task) (inv : List Nat) (prio : Int) : (addOpS s tid t inv prio).nextLearner = s.nextLearner := rfl
@[simp] theorem addOpS_events (s : State) (tid : Nat) (t : Task) (inv : List Nat) (prio : Int) : (addOpS s tid t inv prio).events = s.events := rfl
@[simp] theorem addOpS_assigned (s : State) (tid : Nat) (t : Task) (inv : List Nat) (prio : Int) : (addOpS s tid t inv prio).assigned = s.assigned := rfl

@[simp] theorem newTaskS_cfg (s : State) (digest dkey : Nat) (dnc : Bool) (q : ScqId) (inv : List Nat) (prio : Int) : (newTaskS s digest dkey dnc q inv prio).cfg = s.cfg := by unfold newTaskS; split <;> rfl
@[simp] theorem newTaskS_now (s : State) (digest dkey : Nat) (dnc : Bool) (q : ScqId) (inv : List Nat) (prio : Int) : (newTaskS s digest dkey dnc q inv prio).now = s.now := by unfold newTaskS; split <;> rfl
@[simp] theorem newTaskS_pqs (s : State) (digest dkey : Nat) (dnc : Bool) (q : ScqId) (inv : List Nat) (prio : Int) : (newTaskS s digest dkey dnc q inv prio).pqs = s.pqs := by unfold newTaskS; split <;> rfl
@[simp] theorem newTaskS_scqs (s : State) (digest dkey : Nat) (dnc : Bool) (q : ScqId) (inv : List Nat) (prio : Int) : (newTaskS s digest dkey dnc q inv prio).scqs = s.scqs := by unfold newTaskS; split <;> rfl
@[simp] theorem newTaskS_workers (s : State) (digest dkey : Nat) (dnc : Bool) (q : ScqId) (inv : List Nat) (prio : Int) : (newTaskS s digest dkey dnc q inv prio).workers = s.workers := by unfold newTaskS; split <;> rfl
@[simp] theorem newTaskS_cleanup (s : State) (digest dkey : Nat) (dnc : Bool) (q : ScqId) (inv : List Nat) (prio : Int) : (newTaskS s digest dkey dnc q inv prio).cleanup = s.cleanup := by unfold newTaskS; split <;> rfl
@[simp] theorem newTaskS_streams (s : State) (digest dkey : Nat) (dnc : Bool) (q : ScqId) (inv : List Nat) (prio : Int) : (newTaskS s digest dkey dnc q inv prio).streams = s.streams := by unfold newTaskS; split <;> rfl
@[simp] theorem newTaskS_terms (s : State) (digest dkey : Nat) (dnc : Bool) (q : ScqId) (inv : List Nat) (prio : Int) : (newTaskS s digest dkey dnc q inv prio).terms = s.terms := by unfold newTaskS; split <;> rfl
@[simp] theorem newTaskS_assigned (s : State) (digest dkey : Nat) (dnc : Bool) (q : ScqId) (inv : List Nat) (prio : Int) : (newTaskS s digest dkey dnc q inv prio).assigned = s.assigned := by unfold newTaskS; split <;> rfl

@[simp] theorem parkS_cfg (s : State) (wk : Worker) : (parkS s wk).cfg = s.cfg := rfl
@[simp] theorem parkS_now (s : State) (wk : Worker) : (parkS s wk).now = s.now := rfl
@[simp] theorem parkS_pqs (s : State) (wk : Worker) : (parkS s wk).pqs = s.pqs := rfl
@[simp] theorem parkS_scqs (s : State) (wk : Worker) : (parkS s wk).scqs = s.scqs := rfl
@[simp] theorem parkS_tasks (s : State) (wk : Worker) : (parkS s wk).tasks = s.tasks := rfl
@[simp] theorem parkS_ops (s : State) (wk : Worker) : (parkS s wk).ops = s.ops := rfl
@[simp] theorem parkS_dedup (s : State) (wk : Worker) : (parkS s wk).dedup = s.dedup := rfl
@[simp] theorem parkS_cleanup (s : State) (wk : Worker) : (parkS s wk).cleanup = s.cleanup := rfl
@[simp] theorem parkS_streams (s : State) (wk : Worker) : (parkS s wk).streams = s.streams := rfl
@[simp] theorem parkS_terms (s : State) (wk : Worker) : (parkS s wk).terms = s.terms := rfl
@[simp] theorem parkS_nextTask (s : State) (wk : Worker) : (parkS s wk).nextTask = s.nextTask := rfl
@[simp] theorem parkS_nextOp (s : State) (wk : Worker) : (parkS s wk).nextOp = s.nextOp := rfl
@[simp] theorem parkS_nextLearner (s : State) (wk : Worker) : (parkS s wk).nextLearner = s.nextLearner := rfl
@[simp] theorem parkS_events (s : State) (wk : Worker) : (parkS s wk).events = s.events := rfl
@[simp] theorem parkS_assigned (s : State) (wk : Worker) : (parkS s wk).assigned = s.assigned := rfl

@[simp] theorem drainWaitS_cfg (s : State) (wk : Worker) (sq : Scq) : (drainWaitS s wk sq).cfg = s.cfg := rfl
@[simp] theorem drainWaitS_now (s : State) (wk : Worker) (sq : Scq) : (drainWaitS s wk sq).now = s.now := rfl
@[simp] theorem drainWaitS_pqs (s : State) (wk : Worker) (sq : Scq) : (drainWaitS s wk sq).pqs = s.pqs := rfl
@[simp] theorem drainWaitS_scqs (s : State) (wk : Worker) (sq : Scq) : (drainWaitS s wk sq).scqs = s.scqs := rfl
@[simp] theorem drainWaitS_tasks (s : State) (wk : Worker) (sq : Scq) : (drainWaitS s wk sq).tasks = s.tasks := rfl
@[simp] theorem drainWaitS_ops (s : State) (wk : Worker) (sq : Scq) : (drainWaitS s wk sq).ops = s.ops := rfl
@[simp] theorem drainWaitS_dedup (s : State) (wk : Worker) (sq : Scq) : (drainWaitS s wk sq).dedup = s.dedup := rfl
@[simp] theorem drainWaitS_cleanup (s : State) (wk : Worker) (sq : Scq) : (drainWaitS s wk sq).cleanup = s.cleanup := rfl
@[simp] theorem drainWaitS_streams (s : State) (wk : Worker) (sq : Scq) : (drainWaitS s wk sq).streams = s.streams := rfl
@[simp] theorem drainWaitS_terms (s : State) (wk : Worker) (sq : Scq) : (drainWaitS s wk sq).terms = s.terms := rfl
@[simp] theorem drainWaitS_nextTask (s : State) (wk : Worker) (sq : Scq) : (drainWaitS s wk sq).nextTask = s.nextTask := rfl
@[simp] theorem drainWaitS_nextOp (s : State) (wk : Worker) (sq : Scq) : (drainWaitS s wk sq).nextOp = s.nextOp := rfl
@[simp] theorem drainWaitS_nextLearner (s : State) (wk : Worker) (sq : Scq) : (drainWaitS s wk sq).nextLearner = s.nextLearner := rfl
@[simp] theorem drainWaitS_events (s : State) (wk : Worker) (sq : Scq) : (drainWaitS s wk sq).events = s.events := rfl
@[simp] theorem drainWaitS_assigned (s : State) (wk : Worker) (sq : Scq) : (drainWaitS s wk sq).assigned = s.assigned := rfl

@[simp] theorem addScq_cfg (s : State) (q : ScqId) : (addScq s q).cfg = s.cfg := rfl
@[simp] theorem addScq_now (s : State) (q : ScqId) : (addScq s q).now = s.now := rfl
@[simp] theorem addScq_pqs (s : State) (q : ScqId) : (addScq s q).pqs = s.pqs := rfl
@[simp] theorem addScq_workers (s : State) (q : ScqId) : (addScq s q).workers = s.workers := rfl
@[simp] theorem addScq_tasks (s : State) (q : ScqId) : (addScq s q).tasks = s.tasks := rfl
@[simp] theorem addScq_ops (s : State) (q : ScqId) : (addScq s q).ops = s.ops := rfl
@[simp] theorem addScq_dedup (s : State) (q : ScqId) : (addScq s q).dedup = s.dedup := rfl
@[simp] theorem addScq_cleanup (s : State) (q : ScqId) : (addScq s q).cleanup = s.cleanup := rfl
@[simp] theorem addScq_streams (s : State) (q : ScqId) : (addScq s q).streams = s.streams := rfl
@[simp] theorem addScq_terms (s : State) (q : ScqId) : (addScq s q).terms = s.terms := rfl
@[simp] theorem addScq_nextTask (s : State) (q : ScqId) : (addScq s q).nextTask = s.nextTask := rfl
@[simp] theorem addScq_nextOp (s : State) (q : ScqId) : (addScq s q).nextOp = s.nextOp := rfl
@[simp] theorem addScq_nextLearner (s : State) (q : ScqId) : (addScq s q).nextLearner = s.nextLearner := rfl
@[simp] theorem addScq_events (s : State) (q : ScqId) : (addScq s q).events = s.events := rfl
@[simp] theorem addScq_assigned (s : State) (q : ScqId) : (addScq s q).assigned = s.assigned := rfl

@[simp] theorem addPqScq_cfg (s : State) (q : ScqId) (comps : List Nat) (pf : Nat) : (addPqScq s q comps pf).cfg = s.cfg := rfl
@[simp] theorem addPqScq_now (s : State) (q : ScqId) (comps : List Nat) (pf : Nat) : (addPqScq s q comps pf).now = s.now := rfl
@[simp] theorem addPqScq_workers (s : State) (q : ScqId) (comps : List Nat) (pf : Nat) : (addPqScq s q comps pf).workers = s.workers := rfl
@[simp] theorem addPqScq_tasks (s : State) (q : ScqId) (comps : List Nat) (pf : Nat) : (addPqScq s q comps pf).tasks = s.tasks := rfl
@[simp] theorem addPqScq_ops (s : State) (q : ScqId) (comps : List Nat) (pf : Nat) : (addPqScq s q comps pf).ops = s.ops := rfl
@[simp] theorem addPqScq_dedup (s : State) (q : ScqId) (comps : List Nat) (pf : Nat) : (addPqScq s q comps pf).dedup = s.dedup := rfl
@[simp] theorem addPqScq_cleanup (s : State) (q : ScqId) (comps : List Nat) (pf : Nat) : (addPqScq s q comps pf).cleanup = s.cleanup := rfl
@[simp] theorem addPqScq_streams (s : State) (q : ScqId) (comps : List Nat) (pf : Nat) : (addPqScq s q comps pf).streams = s.streams := rfl
@[simp] theorem addPqScq_terms (s : State) (q : ScqId) (comps : List Nat) (pf : Nat) : (addPqScq s q comps pf).terms = s.terms := rfl
@[simp] theorem addPqScq_nextTask (s : State) (q : ScqId) (comps : List Nat) (pf : Nat) : (addPqScq s q comps pf).nextTask = s.nextTask := rfl
@[simp] theorem addPqScq_nextOp (s : State) (q : ScqId) (comps : List Nat) (pf : Nat) : (addPqScq s q comps pf).nextOp = s.nextOp := rfl
@[simp] theorem addPqScq_nextLearner (s : State) (q : ScqId) (comps : List Nat) (pf : Nat) : (addPqScq s q comps pf).nextLearner = s.nextLearner := rfl
@[simp] theorem addPqScq_events (s : State) (q : ScqId) (comps : List Nat) (pf : Nat) : (addPqScq s q comps pf).events = s.events := rfl
@[simp] theorem addPqScq_assigned (s : State) (q : ScqId) (comps : List Nat) (pf : Nat) : (addPqScq s q comps pf).assigned = s.assigned := rfl

@[simp] theorem addWorker_cfg (s : State) (q : ScqId) (w : WId) : (addWorker s q w).cfg = s.cfg := rfl
@[simp] theorem addWorker_now (s : State) (q : ScqId) (w : WId) : (addWorker s q w).now = s.now := rfl
@[simp] theorem addWorker_pqs (s : State) (q : ScqId) (w : WId) : (addWorker s q w).pqs = s.pqs := rfl
@[simp] theorem addWorker_scqs (s : State) (q : ScqId) (w : WId) : (addWorker s q w).scqs = s.scqs := rfl
@[simp] theorem addWorker_tasks (s : State) (q : ScqId) (w : WId) : (addWorker s q w).tasks = s.tasks := rfl
@[simp] theorem addWorker_ops (s : State) (q : ScqId) (w : WId) : (addWorker s q w).ops = s.ops := rfl
@[simp] theorem addWorker_dedup (s : State) (q : ScqId) (w : WId) : (addWorker s q w).dedup = s.dedup := rfl
@[simp] theorem addWorker_cleanup (s : State) (q : ScqId) (w : WId) : (addWorker s q w).cleanup = s.cleanup := rfl
@[simp] theorem addWorker_streams (s : State) (q : ScqId) (w : WId) : (addWorker s q w).streams = s.streams := rfl
@[simp] theorem addWorker_terms (s : State) (q : ScqId) (w : WId) : (addWorker s q w).terms = s.terms := rfl
@[simp] theorem addWorker_nextTask (s : State) (q : ScqId) (w : WId) : (addWorker s q w).nextTask = s.nextTask := rfl
@[simp] theorem addWorker_nextOp (s : State) (q : ScqId) (w : WId) : (addWorker s q w).nextOp = s.nextOp := rfl
@[simp] theorem addWorker_nextLearner (s : State) (q : ScqId) (w : WId) : (addWorker s q w).nextLearner = s.nextLearner := rfl
@[simp] theorem addWorker_events (s : State) (q : ScqId) (w : WId) : (addWorker s q w).events = s.events := rfl
@[simp] theorem addWorker_assigned (s : State) (q : ScqId) (w : WId) : (addWorker s q w).assigned = s.assigned := rfl

@[simp] theorem addTerm_cfg (s : State) (tc : TermCall) : (addTerm s tc).cfg = s.cfg := rfl
@[simp] theorem addTerm_now (s : State) (tc : TermCall) : (addTerm s tc).now = s.now := rfl
@[simp] theorem addTerm_pqs (s : State) (tc : TermCall) : (addTerm s tc).pqs = s.pqs := rfl
@[simp] theorem addTerm_scqs (s : State) (tc : TermCall) : (addTerm s tc).scqs = s.scqs := rfl
@[simp] theorem addTerm_workers (s : State) (tc : TermCall) : (addTerm s tc).workers = s.workers := rfl
@[simp] theorem addTerm_tasks (s : State) (tc : TermCall) : (addTerm s tc).tasks = s.tasks := rfl
@[simp] theorem addTerm_ops (s : State) (tc : TermCall) : (addTerm s tc).ops = s.ops := rfl
@[simp] theorem addTerm_dedup (s : State) (tc : TermCall) : (addTerm s tc).dedup = s.dedup := rfl
@[simp] theorem addTerm_cleanup (s : State) (tc : TermCall) : (addTerm s tc).cleanup = s.cleanup := rfl
@[simp] theorem addTerm_streams (s : State) (tc : TermCall) : (addTerm s tc).streams = s.streams := rfl
@[simp] theorem addTerm_nextTask (s : State) (tc : TermCall) : (addTerm s tc).nextTask = s.nextTask := rfl
@[simp] theorem addTerm_nextOp (s : State) (tc : TermCall) : (addTerm s tc).nextOp = s.nextOp := rfl
@[simp] theorem addTerm_nextLearner (s : State) (tc : TermCall) : (addTerm s tc).nextLearner = s.nextLearner := rfl
@[simp] theorem addTerm_events (s : State) (tc : TermCall) : (addTerm s tc).events = s.events := rfl
@[simp] theorem addTerm_assigned (s : State) (tc : TermCall) : (addTerm s tc).assigned = s.assigned := rfl

@[simp] theorem dropTerm_cfg (s : State) (id : Nat) : (dropTerm s id).cfg = s.cfg := rfl
@[simp] theorem dropTerm_now (s : State) (id : Nat) : (dropTerm s id).now = s.now := rfl
@[simp] theorem dropTerm_pqs (s : State) (id : Nat) : (dropTerm s id).pqs = s.pqs := rfl
@[simp] theorem dropTerm_scqs (s : State) (id : Nat) : (dropTerm s id).scqs = s.scqs := rfl
@[simp] theorem dropTerm_workers (s : State) (id : Nat) : (dropTerm s id).workers = s.workers := rfl
@[simp] theorem dropTerm_tasks (s : State) (id : Nat) : (dropTerm s id).tasks = s.tasks := rfl
@[simp] theorem dropTerm_ops (s : State) (id : Nat) : (dropTerm s id).ops = s.ops := rfl
@[simp] theorem dropTerm_dedup (s : State) (id : Nat) : (dropTerm s id).dedup = s.dedup := rfl
@[simp] theorem dropTerm_cleanup (s : State) (id : Nat) : (dropTerm s id).cleanup = s.cleanup := rfl
@[simp] theorem dropTerm_streams (s : State) (id : Nat) : (dropTerm s id).streams = s.streams := rfl
@[simp] theorem dropTerm_nextTask (s : State) (id : Nat) : (dropTerm s id).nextTask = s.nextTask := rfl
@[simp] theorem dropTerm_nextOp (s : State) (id : Nat) : (dropTerm s id).nextOp = s.nextOp := rfl
@[simp] theorem dropTerm_nextLearner (s : State) (id : Nat) : (dropTerm s id).nextLearner = s.nextLearner := rfl
@[simp] theorem dropTerm_events (s : State) (id : Nat) : (dropTerm s id).events = s.events := rfl
@[simp] theorem dropTerm_assigned (s : State) (id : Nat) : (dropTerm s id).assigned = s.assigned := rfl

@[simp] theorem assignS_cfg (s : State) (w : Worker) (t : Task) : (assignS s w t).cfg = s.cfg := rfl
@[simp] theorem assignS_now (s : State) (w : Worker) (t : Task) : (assignS s w t).now = s.now := rfl
@[simp] theorem assignS_pqs (s : State) (w : Worker) (t : Task) : (assignS s w t).pqs = s.pqs := rfl
@[simp] theorem assignS_scqs (s : State) (w : Worker) (t : Task) : (assignS s w t).scqs = s.scqs := rfl
@[simp] theorem assignS_ops (s : State) (w : Worker) (t : Task) : (assignS s w t).ops = s.ops := rfl
@[simp] theorem assignS_dedup (s : State) (w : Worker) (t : Task) : (assignS s w t).dedup = s.dedup := rfl
@[simp] theorem assignS_cleanup (s : State) (w : Worker) (t : Task) : (assignS s w t).cleanup = s.cleanup := rfl
@[simp] theorem assignS_streams (s : State) (w : Worker) (t : Task) : (assignS s w t).streams = s.streams := rfl
@[simp] theorem assignS_terms (s : State) (w : Worker) (t : Task) : (assignS s w t).terms = s.terms := rfl
@[simp] theorem assignS_nextTask (s : State) (w : Worker) (t : Task) : (assignS s w t).nextTask = s.nextTask := rfl
@[simp] theorem assignS_nextOp (s : State) (w : Worker) (t : Task) : (assignS s w t).nextOp = s.nextOp := rfl
@[simp] theorem assignS_nextLearner (s : State) (w : Worker) (t : Task) : (assignS s w t).nextLearner = s.nextLearner := rfl
@[simp] theorem assignS_events (s : State) (w : Worker) (t : Task) : (assignS s w t).events = s.events := rfl

@[simp] theorem bgState_cfg (s : State) (t : Task) (bq : ScqId) (bl : Nat) (pq : PQ) : (bgState s t bq bl pq).cfg = s.cfg := rfl
@[simp] theorem bgState_now (s : State) (t : Task) (bq : ScqId) (bl : Nat) (pq : PQ) : (bgState s t bq bl pq).now = s.now := rfl
@[simp] theorem bgState_pqs (s : State) (t : Task) (bq : ScqId) (bl : Nat) (pq : PQ) : (bgState s t bq bl pq).pqs = s.pqs := rfl
@[simp] theorem bgState_scqs (s : State) (t : Task) (bq : ScqId) (bl : Nat) (pq : PQ) : (bgState s t bq bl pq).scqs = s.scqs := rfl
@[simp] theorem bgState_workers (s : State) (t : Task) (bq : ScqId) (bl : Nat) (pq : PQ) : (bgState s t bq bl pq).workers = s.workers := rfl
@[simp] theorem bgState_dedup (s : State) (t : Task) (bq : ScqId) (bl : Nat) (pq : PQ) : (bgState s t bq bl pq).dedup = s.dedup := rfl
@[simp] theorem bgState_cleanup (s : State) (t : Task) (bq : ScqId) (bl : Nat) (pq : PQ) : (bgState s t bq bl pq).cleanup = s.cleanup := rfl
@[simp] theorem bgState_streams (s : State) (t : Task) (bq : ScqId) (bl : Nat) (pq : PQ) : (bgState s t bq bl pq).streams = s.streams := rfl
@[simp] theorem bgState_terms (s : State) (t : Task) (bq : ScqId) (bl : Nat) (pq : PQ) : (bgState s t bq bl pq).terms = s.terms := rfl
@[simp] theorem bgState_nextLearner (s : State) (t : Task) (bq : ScqId) (bl : Nat) (pq : PQ) : (bgState s t bq bl pq).nextLearner = s.nextLearner := rfl
@[simp] theorem bgState_events (s : State) (t : Task) (bq : ScqId) (bl : Nat) (pq : PQ) : (bgState s t bq bl pq).events = s.events := rfl
@[simp] theorem bgState_assigned (s : State) (t : Task) (bq : ScqId) (bl : Nat) (pq : PQ) : (bgState s t bq bl pq).assigned = s.assigned := rfl

@[simp] theorem syncReturn_cfg (s : State) (q : ScqId) (w : WId) : (syncReturn s q w).cfg = s.cfg := by unfold syncReturn; split <;> rfl
@[simp] theorem syncReturn_now (s : State) (q : ScqId) (w : WId) : (syncReturn s q w).now = s.now := by unfold syncReturn; split <;> rfl
@[simp] theorem syncReturn_pqs (s : State) (q : ScqId) (w : WId) : (syncReturn s q w).pqs = s.pqs := by unfold syncReturn; split <;> rfl
@[simp] theorem syncReturn_scqs (s : State) (q : ScqId) (w : WId) : (syncReturn s q w).scqs = s.scqs := by unfold syncReturn; split <;> rfl
@[simp] theorem syncReturn_tasks (s : State) (q : ScqId) (w : WId) : (syncReturn s q w).tasks = s.tasks := by unfold syncReturn; split <;> rfl
@[simp] theorem syncReturn_ops (s : State) (q : ScqId) (w : WId) : (syncReturn s q w).ops = s.ops := by unfold syncReturn; split <;> rfl
@[simp] theorem syncReturn_dedup (s : State) (q : ScqId) (w : WId) : (syncReturn s q w).dedup = s.dedup := by unfold syncReturn; split <;> rfl
@[simp] theorem syncReturn_streams (s : State) (q : ScqId) (w : WId) : (syncReturn s q w).streams = s.streams := by unfold syncReturn; split <;> rfl
@[simp] theorem syncReturn_terms (s : State) (q : ScqId) (w : WId) : (syncReturn s q w).terms = s.terms := by unfold syncReturn; split <;> rfl
@[simp] theorem syncReturn_nextTask (s : State) (q : ScqId) (w : WId) : (syncReturn s q w).nextTask = s.nextTask := by unfold syncReturn; split <;> rfl
@[simp] theorem syncReturn_nextOp (s : State) (q : ScqId) (w : WId) : (syncReturn s q w).nextOp = s.nextOp := by unfold syncReturn; split <;> rfl
@[simp] theorem syncReturn_nextLearner (s : State) (q : ScqId) (w : WId) : (syncReturn s q w).nextLearner = s.nextLearner := by unfold syncReturn; split <;> rfl
@[simp] theorem syncReturn_events (s : State) (q : ScqId) (w : WId) : (syncReturn s q w).events = s.events := by unfold syncReturn; split <;> rfl
@[simp] theorem syncReturn_assigned (s : State) (q : ScqId) (w : WId) : (syncReturn s q w).assigned = s.assigned := by unfold syncReturn; split <;> rfl

@[simp] theorem registerPQ_cfg (s : State) (id : Nat) (comps : List Nat) (pf : Nat) (sizes : List Nat) (bm : Nat) (bp : Int) : (registerPQ s id comps pf sizes bm bp).cfg = s.cfg := rfl
@[simp] theorem registerPQ_now (s : State) (id : Nat) (comps : List Nat) (pf : Nat) (sizes : List Nat) (bm : Nat) (bp : Int) : (registerPQ s id comps pf sizes bm bp).now = s.now := rfl
@[simp] theorem registerPQ_workers (s : State) (id : Nat) (comps : List Nat) (pf : Nat) (sizes : List Nat) (bm : Nat) (bp : Int) : (registerPQ s id comps pf sizes bm bp).workers = s.workers := rfl
@[simp] theorem registerPQ_tasks (s : State) (id : Nat) (comps : List Nat) (pf : Nat) (sizes : List Nat) (bm : Nat) (bp : Int) : (registerPQ s id comps pf sizes bm bp).tasks = s.tasks := rfl
@[simp] theorem registerPQ_ops (s : State) (id : Nat) (comps : List Nat) (pf : Nat) (sizes : List Nat) (bm : Nat) (bp : Int) : (registerPQ s id comps pf sizes bm bp).ops = s.ops := rfl
@[simp] theorem registerPQ_dedup (s : State) (id : Nat) (comps : List Nat) (pf : Nat) (sizes : List Nat) (bm : Nat) (bp : Int) : (registerPQ s id comps pf sizes bm bp).dedup = s.dedup := rfl
@[simp] theorem registerPQ_cleanup (s : State) (id : Nat) (comps : List Nat) (pf : Nat) (sizes : List Nat) (bm : Nat) (bp : Int) : (registerPQ s id comps pf sizes bm bp).cleanup = s.cleanup := rfl
@[simp] theorem registerPQ_streams (s : State) (id : Nat) (comps : List Nat) (pf : Nat) (sizes : List Nat) (bm : Nat) (bp : Int) : (registerPQ s id comps pf sizes bm bp).streams = s.streams := rfl
@[simp] theorem registerPQ_terms (s : State) (id : Nat) (comps : List Nat) (pf : Nat) (sizes : List Nat) (bm : Nat) (bp : Int) : (registerPQ s id comps pf sizes bm bp).terms = s.terms := rfl
@[simp] theorem registerPQ_nextTask (s : State) (id : Nat) (comps : List Nat) (pf : Nat) (sizes : List Nat) (bm : Nat) (bp : Int) : (registerPQ s id comps pf sizes bm bp).nextTask = s.nextTask := rfl
@[simp] theorem registerPQ_nextOp (s : State) (id : Nat) (comps : List Nat) (pf : Nat) (sizes : List Nat) (bm : Nat) (bp : Int) : (registerPQ s id comps pf sizes bm bp).nextOp = s.nextOp := rfl
@[simp] theorem registerPQ_nextLearner (s : State) (id : Nat) (comps : List Nat) (pf : Nat) (sizes : List Nat) (bm : Nat) (bp : Int) : (registerPQ s id comps pf sizes bm bp).nextLearner = s.nextLearner := rfl
@[simp] theorem registerPQ_events (s : State) (id : Nat) (comps : List Nat) (pf : Nat) (sizes : List Nat) (bm : Nat) (bp : Int) : (registerPQ s id comps pf sizes bm bp).events = s.events := rfl
@[simp] theorem registerPQ_assigned (s : State) (id : Nat) (comps : List Nat) (pf : Nat) (sizes : List Nat) (bm : Nat) (bp : Int) : (registerPQ s id comps pf sizes bm bp).assigned = s.assigned := rfl

end BbRe.Lemmas.SchedLive

namespace BbRe.Lemmas.SchedLive
open BbRe.Sched

@[simp] theorem setTask_tasks (s : State) (t : Task) : (s.setTask t).tasks = aset t.id t s.tasks := rfl
@[simp] theorem setOp_ops (s : State) (o : Op) : (s.setOp o).ops = aset o.name o s.ops := rfl
@[simp] theorem emit_events (s : State) (e : Event) : (emit s e).events = e :: s.events := rfl
@[simp] theorem addCleanup_cleanup (s : State) (d : Nat) (k : CleanupKind) : (s.addCleanup d k).cleanup = ⟨d, k⟩ :: s.cleanup := rfl
@[simp] theorem removeCleanup_cleanup (s : State) (k : CleanupKind) :
    (s.removeCleanup k).cleanup = s.cleanup.filter (fun e => e.kind ≠ k) := rfl
@[simp] theorem assignS_assigned (s : State) (w : Worker) (t : Task) :
    (assignS s w t).assigned = (w.scq, w.id, t.id) :: s.assigned := rfl
@[simp] theorem assignS_tasks (s : State) (w : Worker) (t : Task) :
    (assignS s w t).tasks = aset t.id { t with worker := some (w.scq, w.id), retry := 0, queued := false } s.tasks := rfl
@[simp] theorem bgState_nextTask (s : State) (t : Task) (bq : ScqId) (bl : Nat) (pq : PQ) :
    (bgState s t bq bl pq).nextTask = s.nextTask + 1 := rfl
@[simp] theorem bgState_nextOp (s : State) (t : Task) (bq : ScqId) (bl : Nat) (pq : PQ) :
    (bgState s t bq bl pq).nextOp = s.nextOp + 1 := rfl
@[simp] theorem bgState_tasks (s : State) (t : Task) (bq : ScqId) (bl : Nat) (pq : PQ) :
    (bgState s t bq bl pq).tasks = aset s.nextTask (bgTask s t bq bl) s.tasks := rfl
@[simp] theorem bgState_ops (s : State) (t : Task) (bq : ScqId) (bl : Nat) (pq : PQ) :
    (bgState s t bq bl pq).ops = aset s.nextOp (bgOp s pq) s.ops := rfl
@[simp] theorem bumpLearner_nextLearner (s : State) : (bumpLearner s).nextLearner = s.nextLearner + 1 := rfl
@[simp] theorem succS_events (s : State) (t : Task) (ev : Event) (r : Resp) : (succS s t ev r).events = ev :: s.events := by
  simp [succS]
@[simp] theorem succS_tasks (s : State) (t : Task) (ev : Event) (r : Resp) :
    (succS s t ev r).tasks = aset t.id (bumpGen { t with learner := none, response := some r }) s.tasks := by
  simp [succS, finalizeS, bumpGen]
@[simp] theorem retryS_events (s : State) (l : Nat) (r : Resp) :
    (retryS s l r).events = .learnerFailed l (r.code = cDeadlineExceeded) (some s.nextLearner) :: s.events := rfl
@[simp] theorem retryS_nextLearner (s : State) (l : Nat) (r : Resp) : (retryS s l r).nextLearner = s.nextLearner + 1 := rfl
@[simp] theorem setCleanup_cleanup (s : State) (cs : List CleanupEntry) : (setCleanup s cs).cleanup = cs := rfl
@[simp] theorem setNow_now (s : State) (t : Nat) : (setNow s t).now = t := rfl
@[simp] theorem eraseOp_ops (s : State) (o : Nat) : (eraseOp s o).ops = aerase o s.ops := rfl
@[simp] theorem dropStream_streams (s : State) (c : Nat) : (dropStream s c).streams = s.streams.filter (fun x => x.client ≠ c) := rfl
@[simp] theorem addStream_streams (s : State) (st : Stream) : (addStream s st).streams = st :: s.streams := rfl
@[simp] theorem sendPark_streams (s : State) (c o : Nat) (t : Task) :
    (sendPark s c o t).streams = ⟨c, o, t.gen, s.now + s.cfg.updateInterval⟩ :: s.streams.filter (fun x => x.client ≠ c) := rfl
@[simp] theorem sendPark_events (s : State) (c o : Nat) (t : Task) :
    (sendPark s c o t).events = .msg c o t.stage false 0 0 :: s.events := rfl
@[simp] theorem sendDone_streams (s : State) (c o : Nat) (op : Op) (t : Task) (r : Resp) :
    (sendDone s c o op t r).streams = s.streams.filter (fun x => x.client ≠ c) := by simp [sendDone]
@[simp] theorem sendDone_events (s : State) (c o : Nat) (op : Op) (t : Task) (r : Resp) :
    (sendDone s c o op t r).events = .ret c cOK :: .msg c o t.stage true r.code r.tok :: s.events := by simp [sendDone]
@[simp] theorem leaveS_streams (s : State) (c : Nat) (st : Stream) (op : Op) (code : Nat) :
    (leaveS s c st op code).streams = s.streams.filter (fun x => x.client ≠ c) := by simp [leaveS]
@[simp] theorem leaveS_events (s : State) (c : Nat) (st : Stream) (op : Op) (code : Nat) :
    (leaveS s c st op code).events = .ret c code :: s.events := by simp [leaveS]
@[simp] theorem filterWorkers_workers (s : State) (q : ScqId) (w : WId) :
    (filterWorkers s q w).workers = s.workers.filter (fun x => ¬ (x.scq = q ∧ x.id = w)) := rfl
@[simp] theorem addOpS_nextOp (s : State) (tid : Nat) (t : Task) (inv : List Nat) (prio : Int) :
    (addOpS s tid t inv prio).nextOp = s.nextOp + 1 := rfl
@[simp] theorem newTaskS_nextOp (s : State) (digest dkey : Nat) (dnc : Bool) (q : ScqId) (inv : List Nat) (prio : Int) :
    (newTaskS s digest dkey dnc q inv prio).nextOp = s.nextOp + 1 := by unfold newTaskS; split <;> rfl
@[simp] theorem newTaskS_nextTask (s : State) (digest dkey : Nat) (dnc : Bool) (q : ScqId) (inv : List Nat) (prio : Int) :
    (newTaskS s digest dkey dnc q inv prio).nextTask = s.nextTask + 1 := by unfold newTaskS; split <;> rfl
@[simp] theorem newTaskS_nextLearner (s : State) (digest dkey : Nat) (dnc : Bool) (q : ScqId) (inv : List Nat) (prio : Int) :
    (newTaskS s digest dkey dnc q inv prio).nextLearner = s.nextLearner + 1 := by unfold newTaskS; split <;> rfl
@[simp] theorem newTaskS_events (s : State) (digest dkey : Nat) (dnc : Bool) (q : ScqId) (inv : List Nat) (prio : Int) :
    (newTaskS s digest dkey dnc q inv prio).events = .selSelect s.nextLearner :: s.events := by unfold newTaskS; split <;> rfl
@[simp] theorem newTaskS_tasks (s : State) (digest dkey : Nat) (dnc : Bool) (q : ScqId) (inv : List Nat) (prio : Int) :
    (newTaskS s digest dkey dnc q inv prio).tasks = aset s.nextTask (newTask s digest dkey dnc q) s.tasks := by
  unfold newTaskS; split <;> rfl
@[simp] theorem newTaskS_ops (s : State) (digest dkey : Nat) (dnc : Bool) (q : ScqId) (inv : List Nat) (prio : Int) :
    (newTaskS s digest dkey dnc q inv prio).ops = aset s.nextOp (newOp s inv prio) s.ops := by
  unfold newTaskS; split <;> rfl
@[simp] theorem addOpS_tasks (s : State) (tid : Nat) (t : Task) (inv : List Nat) (prio : Int) :
    (addOpS s tid t inv prio).tasks = aset t.id { t with ops := t.ops ++ [s.nextOp] } s.tasks := rfl
@[simp] theorem addOpS_ops (s : State) (tid : Nat) (t : Task) (inv : List Nat) (prio : Int) :
    (addOpS s tid t inv prio).ops = aset s.nextOp { name := s.nextOp, task := tid, inv := inv, prio := prio, waiters := 0, mayExistWithoutWaiters := false } s.ops := rfl
@[simp] theorem addTerm_terms (s : State) (tc : TermCall) : (addTerm s tc).terms = tc :: s.terms := rfl
@[simp] theorem dropTerm_terms (s : State) (id : Nat) : (dropTerm s id).terms = s.terms.filter (fun t => t.id ≠ id) := rfl
@[simp] theorem addWorker_workers (s : State) (q : ScqId) (w : WId) :
    (addWorker s q w).workers = s.workers ++ [{ scq := q, id := w, task := none, terminating := false, parked := false, woken := false, inSync := true, drainWait := none, timer := none }] := rfl
@[simp] theorem finalizeS_tasks (s : State) (t : Task) (r : Resp) :
    (finalizeS s t r).tasks = aset t.id (bumpGen { t with response := some r }) s.tasks := by
  simp [finalizeS, bumpGen]

/-! lookups through `setWorker` / `setScq` -/

theorem find?_map_upd {α} (l : List α) (p key : α → Bool) (w : α) (_hw : key w = true)
    (hp : ∀ x, key x = true → p x = p w) (hp2 : p w = true → ∀ x, p x = true → key x = true) :
    (l.map (fun x => if key x then w else x)).find? p =
      if p w then (l.find? p).map (fun _ => w) else l.find? p := by
  induction l with
  | nil => simp
  | cons a r ih =>
    simp only [List.map_cons, List.find?_cons]
    by_cases hk : key a = true
    · have := hp a hk
      simp only [hk, if_true]
      by_cases hpw : p w = true
      · simp [hpw, this]
      · simp only [hpw, this] at ih ⊢; simpa using ih
    · simp only [hk]
      by_cases hpa : p a = true
      · have : ¬ p w = true := fun h => hk (hp2 h a hpa)
        simp [hpa, this]
      · have hpa' : p a = false := by simpa using hpa
        simp only [hpa', Bool.false_eq_true, if_false]; exact ih

theorem worker?_setWorker (s : State) (w : Worker) (q : ScqId) (i : WId) :
    (s.setWorker w).worker? q i =
      if w.scq = q ∧ w.id = i then (s.worker? q i).map (fun _ => w) else s.worker? q i := by
  unfold State.setWorker State.worker?
  simp only
  have := find?_map_upd s.workers (fun x => decide (x.scq = q ∧ x.id = i))
    (fun x => decide (x.scq = w.scq ∧ x.id = w.id)) w (by simp)
    (by intro x hx; simp at hx; simp [hx.1, hx.2])
    (by intro h x hx; simp at h hx; simp [hx.1, hx.2, h.1, h.2])
  simp only [decide_eq_true_eq] at this
  exact this

theorem scq?_setScq (s : State) (sq : Scq) (q : ScqId) :
    (s.setScq sq).scq? q = if sq.id = q then (s.scq? q).map (fun _ => sq) else s.scq? q := by
  unfold State.setScq State.scq?
  simp only
  have := find?_map_upd s.scqs (fun x => decide (x.id = q)) (fun x => decide (x.id = sq.id)) sq (by simp)
    (by intro x hx; simp at hx; simp [hx])
    (by intro h x hx; simp at h hx; simp [hx, h])
  simp only [decide_eq_true_eq] at this
  exact this

end BbRe.Lemmas.SchedLive
