import BbRe.Lemmas.DirInv
/-!
`Le s s'`: the store `s'` is a later state of `s` — nothing is deallocated, the
change counter of no directory goes back, a directory whose change counter is
unchanged has exactly the same entry list, tombstones stay, file-system ids
stay.  Reflexive, transitive, and satisfied by every primitive update; hence by
every operation (see `DirOps.lean`).
-/
namespace BbRe.Lemmas.Dir
open BbRe.Dir

structure Le (s s' : Store) : Prop where
  dirsLen   : s.dirs.length ≤ s'.dirs.length
  leavesLen : s.leaves.length ≤ s'.leaves.length
  cid       : ∀ d, (s.dir d).changeID ≤ (s'.dir d).changeID
  same      : ∀ d, d < s.dirs.length → (s'.dir d).changeID = (s.dir d).changeID → (s'.dir d).entries = (s.dir d).entries
  del       : ∀ d, (s.dir d).deleted = true → (s'.dir d).deleted = true
  fs        : ∀ d, d < s.dirs.length → (s'.dir d).fs = (s.dir d).fs

theorem Le.refl (s : Store) : Le s s :=
  ⟨Nat.le_refl _, Nat.le_refl _, fun _ => Nat.le_refl _, fun _ _ _ => rfl, fun _ h => h, fun _ _ => rfl⟩

theorem Le.trans {a b c : Store} (h1 : Le a b) (h2 : Le b c) : Le a c := by
  refine ⟨Nat.le_trans h1.dirsLen h2.dirsLen, Nat.le_trans h1.leavesLen h2.leavesLen,
    fun d => Nat.le_trans (h1.cid d) (h2.cid d), ?_, fun d h => h2.del d (h1.del d h), ?_⟩
  · intro d hd he
    have e1 := h1.cid d
    have e2 := h2.cid d
    have hb : (b.dir d).changeID = (a.dir d).changeID := by omega
    have hc : (c.dir d).changeID = (b.dir d).changeID := by omega
    rw [h2.same d (by have := h1.dirsLen; omega) hc, h1.same d hd hb]
  · intro d hd
    rw [h2.fs d (by have := h1.dirsLen; omega), h1.fs d hd]

/-- Stores with the same directories. -/
theorem Le.of_dirs_eq {s s' : Store} (h : s'.dirs = s.dirs) (hl : s.leaves.length ≤ s'.leaves.length) : Le s s' := by
  have hd : ∀ d, s'.dir d = s.dir d := fun d => dir_eq_of_dirs h d
  refine ⟨by rw [h]; exact Nat.le_refl _, hl, ?_, ?_, ?_, ?_⟩
  · intro d; rw [hd]; exact Nat.le_refl _
  · intro d _ _; rw [hd]
  · intro d hh; rw [hd]; exact hh
  · intro d _; rw [hd]

/-- Replacing one directory record by a later version of it. -/
theorem Le.setDir (s : Store) (d : Nat) (x : Dir)
    (hc : (s.dir d).changeID ≤ x.changeID)
    (hs : x.changeID = (s.dir d).changeID → x.entries = (s.dir d).entries)
    (hdel : (s.dir d).deleted = true → x.deleted = true) (hfs : x.fs = (s.dir d).fs) :
    Le s (s.setDir d x) := by
  refine ⟨by simp, by simp, ?_, ?_, ?_, ?_⟩
  · intro d'
    rw [dir_setDir]
    by_cases h : d = d' ∧ d < s.dirs.length
    · obtain ⟨rfl, _⟩ := h; simp [*]
    · simp [h]
  · intro d' _ he
    rw [dir_setDir] at he ⊢
    by_cases h : d = d' ∧ d < s.dirs.length
    · obtain ⟨rfl, h2⟩ := h; simp [h2] at he ⊢; exact hs he
    · simp [h]
  · intro d' hh
    rw [dir_setDir]
    by_cases h : d = d' ∧ d < s.dirs.length
    · obtain ⟨rfl, h2⟩ := h; simp [h2]; exact hdel hh
    · simp [h]; exact hh
  · intro d' _
    rw [dir_setDir]
    by_cases h : d = d' ∧ d < s.dirs.length
    · obtain ⟨rfl, h2⟩ := h; simp [h2]; exact hfs
    · simp [h]

theorem Le.attach (s : Store) (d name nn : Nat) (c : Child) : Le s (s.modDir d (fun x => x.attach name nn c)) := by
  apply Le.setDir
  · simp
  · intro h; simp at h
  · intro h; simpa using h
  · simp

theorem Le.detach (s : Store) (d n : Nat) : Le s (s.modDir d (fun x => x.detach n)) := by
  apply Le.setDir
  · simp
  · intro h; simp at h
  · intro h; simpa using h
  · simp

theorem filter_eq_self_of_neg_empty (es : List Entry) (p : Entry → Bool)
    (h : (es.filter (fun e => !p e)).length = 0) : es.filter p = es := by
  apply List.filter_eq_self.mpr
  intro a ha
  cases hp : p a with
  | true => rfl
  | false =>
    have : a ∈ es.filter (fun e => !p e) := List.mem_filter.mpr ⟨ha, by simp [hp]⟩
    have h0 : es.filter (fun e => !p e) = [] := List.eq_nil_of_length_eq_zero h
    rw [h0] at this; cases this

theorem Le.shrink (s : Store) (d : Nat) (p : Entry → Bool) :
    Le s (s.setDir d { s.dir d with entries := (s.dir d).entries.filter p,
                                     changeID := (s.dir d).changeID + ((s.dir d).entries.filter (fun e => !p e)).length }) := by
  apply Le.setDir
  · simp
  · intro h
    exact filter_eq_self_of_neg_empty _ p (by simp at h; simpa using h)
  · intro h; simpa using h
  · simp

theorem Le.unlazy (s : Store) (d : Nat) : Le s (s.modDir d (fun x => { x with lazy := none })) := by
  apply Le.setDir <;> simp

theorem Le.pushDir (s : Store) (x : Dir) : Le s (s.pushDir x) := by
  refine ⟨by simp, by simp, ?_, ?_, ?_, ?_⟩
  · intro d
    by_cases h : d < s.dirs.length
    · rw [dir_pushDir_lt s x d h]; exact Nat.le_refl _
    · rw [dir_default s d (by omega)]; exact Nat.zero_le _
  · intro d h _; rw [dir_pushDir_lt s x d h]
  · intro d hh
    by_cases h : d < s.dirs.length
    · rw [dir_pushDir_lt s x d h]; exact hh
    · rw [dir_default s d (by omega)] at hh; cases hh
  · intro d h; rw [dir_pushDir_lt s x d h]

theorem Le.link (s : Store) (l : Nat) : Le s (s.link l) := Le.of_dirs_eq rfl (by simp)
theorem Le.unlink (s : Store) (l : Nat) : Le s (s.unlink l) := Le.of_dirs_eq rfl (by simp)
theorem Le.pushLeaf (s : Store) (x : Leaf) : Le s (s.pushLeaf x) := Le.of_dirs_eq rfl (by simp)

theorem Le.unlinkLeaves (s : Store) (es : List Entry) : Le s (unlinkLeaves s es) :=
  Le.of_dirs_eq (unlinkLeaves_dirs s es) (by rw [unlinkLeaves_leaves_length]; exact Nat.le_refl _)

theorem Le.clearDir (s : Store) (d : Nat) (del : Bool) : Le s (clearDir s d del) := by
  rw [clearDir_eq]
  apply Le.trans (Le.unlinkLeaves s (s.dir d).entries)
  have hd : (BbRe.Dir.unlinkLeaves s (s.dir d).entries).dir d = s.dir d := dir_eq_of_dirs (unlinkLeaves_dirs s _) d
  apply Le.setDir
  · rw [hd]; simp [clearedDir]
  · rw [hd]; intro h
    simp [clearedDir] at h ⊢
    first
      | exact h
      | exact h.symm
      | exact (List.eq_nil_of_length_eq_zero h).symm
  · rw [hd]; intro h; simp [clearedDir, h]
  · rw [hd]; simp [clearedDir]

theorem Le.removeTree (fuel : Nat) (s : Store) (stack : List Nat) : Le s (removeTree fuel s stack) := by
  induction fuel generalizing s stack with
  | zero => simp [BbRe.Dir.removeTree]; exact Le.refl s
  | succ n ih =>
    cases stack with
    | nil => simp [BbRe.Dir.removeTree]; exact Le.refl s
    | cons d rest =>
      simp only [BbRe.Dir.removeTree]
      exact Le.trans (Le.clearDir s d true) (ih _ _)

theorem Le.postRemove (s : Store) (es : List Entry) : Le s (postRemove s es) := by
  unfold BbRe.Dir.postRemove
  exact Le.trans (Le.unlinkLeaves s es) (Le.removeTree _ _ _)

/-- Chains `Le` through nested primitive updates. -/
macro "le_chain" : tactic =>
  `(tactic| repeat (first
    | assumption
    | exact Le.refl _
    | (apply Le.trans _ (Le.attach _ _ _ _ _))
    | (apply Le.trans _ (Le.detach _ _ _))
    | (apply Le.trans _ (Le.unlazy _ _))
    | (apply Le.trans _ (Le.pushDir _ _))
    | (apply Le.trans _ (Le.link _ _))
    | (apply Le.trans _ (Le.unlink _ _))
    | (apply Le.trans _ (Le.pushLeaf _ _))
    | (apply Le.trans _ (Le.clearDir _ _ _))
    | (apply Le.trans _ (Le.postRemove _ _))
    | (apply Le.trans _ (Le.removeTree _ _ _))))

end BbRe.Lemmas.Dir
