import BbRe.Lemmas.InputRootRename
/-!
State level corollaries for C17: every operation of `step` respects `SEquiv`,
leaves the CAS alone, and under faults is unaffected or fails with an I/O error.
-/
namespace BbRe.Lemmas.InputRoot
open BbRe.InputRoot

/-- Same storage, equivalent trees. -/
def SEquiv (l e : State) : Prop := l.cas = e.cas ∧ Equiv l.cas l.root e.root

theorem SEquiv.refl (s : State) : SEquiv s s := ⟨rfl, Equiv.refl _ _⟩

theorem SEquiv.symm {l e : State} (h : SEquiv l e) : SEquiv e l :=
  ⟨h.1.symm, h.1 ▸ h.2.symm⟩

theorem SEquiv.trans {a b d : State} (h1 : SEquiv a b) (h2 : SEquiv b d) : SEquiv a d :=
  ⟨h1.1.trans h2.1, h1.2.trans (h1.1 ▸ h2.2)⟩

theorem step_cas (s : State) (F : List Dig) (op : Op) : (step s F op).1.cas = s.cas := by
  cases op with
  | merge d m =>
    simp only [step, merge]
    split
    · rfl
    · split <;> rfl
  | _ => rfl

theorem run_cas (s : State) (hs : List (List Dig × Op)) : (run s hs).1.cas = s.cas := by
  induction hs generalizing s with
  | nil => rfl
  | cons h rest ih =>
    obtain ⟨F, op⟩ := h
    simp only [run]
    rw [ih, step_cas]

theorem merge_equiv (l e : State) (d : Dig) (m : Bool) (h : SEquiv l e) :
    (merge l [] d m).2 = (merge e [] d m).2 ∧ SEquiv (merge l [] d m).1 (merge e [] d m).1 := by
  obtain ⟨hc, hr⟩ := h
  simp only [merge, ← hc]
  cases (fetch l.cas [] d (if m = true then some [] else none)).result with
  | error err => exact ⟨rfl, hc, hr⟩
  | ok new =>
    simp only []
    have hcon := hr.contents
    cases hl : contents l.cas [] l.root <;> cases he : contents l.cas [] e.root <;>
      rw [hl, he] at hcon <;> simp only [ContRel] at hcon
    · exact ⟨rfl, hc, hr⟩
    · exact ⟨rfl, hc, hr⟩
    · have := actMerge_resp l.cas new _ _ hcon
      exact ⟨this.1, rfl, equiv_dir this.2⟩

theorem onDir_equiv (l e : State) (h : SEquiv l e) (act : Children → Children × Out)
    (hact : ActResp l.cas act) (p : Path) :
    (withDir l.cas [] act p l.root).2 = (withDir l.cas [] act p e.root).2 ∧
    Equiv l.cas (withDir l.cas [] act p l.root).1 (withDir l.cas [] act p e.root).1 :=
  withDir_equiv l.cas act hact p _ _ h.2

theorem step_equiv (l e : State) (op : Op) (h : SEquiv l e) :
    (step l [] op).2 = (step e [] op).2 ∧ SEquiv (step l [] op).1 (step e [] op).1 := by
  have hc := h.1
  cases op with
  | merge d m => exact merge_equiv l e d m h
  | lookup p x =>
    have := onDir_equiv l e h _ (actLookup_resp l.cas x) p
    simp only [step, ← hc]; exact ⟨this.1, rfl, this.2⟩
  | readdir p =>
    have := onDir_equiv l e h _ (actReaddir_resp l.cas) p
    simp only [step, ← hc]; exact ⟨this.1, rfl, this.2⟩
  | leaf o p x =>
    have := onDir_equiv l e h _ (actLeaf_resp l.cas [] o x) p
    simp only [step, ← hc]; exact ⟨this.1, rfl, this.2⟩
  | remove p x =>
    have := onDir_equiv l e h _ (actRemove_resp l.cas x) p
    simp only [step, ← hc]; exact ⟨this.1, rfl, this.2⟩
  | create p x =>
    have := onDir_equiv l e h _ (actCreate_resp l.cas x) p
    simp only [step, ← hc]; exact ⟨this.1, rfl, this.2⟩
  | mkdir p x =>
    have := onDir_equiv l e h _ (actMkdir_resp l.cas x) p
    simp only [step, ← hc]; exact ⟨this.1, rfl, this.2⟩
  | rename p1 x1 p2 x2 =>
    have := rename_equiv l.cas l.root e.root h.2 p1 x1 p2 x2
    simp only [step, ← hc]; exact ⟨this.1, rfl, this.2⟩
  | link ps xs pd xd =>
    have := link_equiv l.cas l.root e.root h.2 ps xs pd xd
    simp only [step, ← hc]; exact ⟨this.1, rfl, this.2⟩

/-- Output of an operation that a storage fault made fail. -/
def isFaultOut (o : Out) : Prop := o = .status .eio ∨ o = .mergeErr .unavailable

theorem merge_fault (s : State) (F : List Dig) (d : Dig) (m : Bool) :
    merge s F d m = merge s [] d m ∨ (isFaultOut (merge s F d m).2 ∧ (merge s F d m).1 = s) := by
  simp only [merge]
  rcases fetch_fault s.cas F d (if m = true then some [] else none) with h | h
  · rw [h]
    cases (fetch s.cas [] d (if m = true then some [] else none)).result with
    | error e => left; rfl
    | ok new =>
      simp only []
      rcases contents_fault s.cas F s.root with h2 | h2
      · left; rw [h2]
      · right; rw [h2]; exact ⟨Or.inl rfl, rfl⟩
  · right; rw [h]; exact ⟨Or.inr rfl, rfl⟩

theorem onDir_fault (s : State) (F : List Dig) (actF act0 : Children → Children × Out)
    (hact : ActFault s.cas actF act0) (p : Path) :
    (({ s with root := (withDir s.cas F actF p s.root).1 } : State), (withDir s.cas F actF p s.root).2) =
      (({ s with root := (withDir s.cas [] act0 p s.root).1 } : State), (withDir s.cas [] act0 p s.root).2) ∨
    (isFaultOut (withDir s.cas F actF p s.root).2 ∧
      SEquiv { s with root := (withDir s.cas F actF p s.root).1 } s) := by
  rcases withDir_fault s.cas F actF act0 hact p s.root with h | ⟨h1, h2⟩
  · left; rw [h]
  · right; exact ⟨Or.inl h1, rfl, h2⟩

theorem step_fault (s : State) (F : List Dig) (op : Op) :
    step s F op = step s [] op ∨ (isFaultOut (step s F op).2 ∧ SEquiv (step s F op).1 s) := by
  cases op with
  | merge d m =>
    rcases merge_fault s F d m with h | ⟨h1, h2⟩
    · left; exact h
    · right; refine ⟨h1, ?_⟩; simp only [step]; rw [h2]; exact SEquiv.refl s
  | lookup p x => exact onDir_fault s F _ _ (act_fault_same s.cas _) p
  | readdir p => exact onDir_fault s F _ _ (act_fault_same s.cas _) p
  | leaf o p x => exact onDir_fault s F _ _ (actLeaf_fault s.cas F o x) p
  | remove p x => exact onDir_fault s F _ _ (actRemove_fault s.cas F x) p
  | create p x => exact onDir_fault s F _ _ (act_fault_same s.cas _) p
  | mkdir p x => exact onDir_fault s F _ _ (act_fault_same s.cas _) p
  | rename p1 x1 p2 x2 =>
    rcases rename_fault s.cas F s.root p1 x1 p2 x2 with h | ⟨h1, h2⟩
    · left; simp only [step, h]
    · right; exact ⟨Or.inl h1, rfl, h2⟩
  | link ps xs pd xd =>
    rcases link_fault s.cas F s.root ps xs pd xd with h | ⟨h1, h2⟩
    · left; simp only [step, h]
    · right; exact ⟨Or.inl h1, rfl, h2⟩

/-! ### merging with and without the access monitoring wrapper -/

theorem actMerge_rel (c : CAS) {newL newE : Children} (hn : ChRel (Equiv c) newL newE) :
    ActRel c (actMerge newL) (actMerge newE) := by
  intro a b h
  have hfun : (fun e : Name × Node => hasName a e.1) = (fun e => hasName b e.1) :=
    funext fun e => chrel_hasName h e.1
  have hany : newL.any (fun e => hasName a e.1) = newE.any (fun e => hasName b e.1) := by
    rw [hfun]
    induction hn with
    | nil => rfl
    | cons _ _ ih => simp only [List.any_cons, ih]
  simp only [actMerge, hany]
  split
  · exact ⟨rfl, h⟩
  · exact ⟨rfl, chrel_append h hn⟩

/-- The same fetched entries wrapped for two different monitors (or none). -/
theorem annotated_rel (c : CAS) (ch : Children) (m m' : Option Path) :
    ChRel (Equiv c) (ch.map (annotate m)) (ch.map (annotate m')) := by
  induction ch with
  | nil => exact .nil
  | cons e es ih =>
    obtain ⟨n, v⟩ := e
    cases v with
    | lazy d a => simp only [List.map_cons, annotate]; exact .cons (equiv_mon c d _ _) ih
    | file d x a =>
      simp only [List.map_cons, annotate]
      refine .cons ?_ ih
      rw [equiv_iff]
      exact ⟨rfl, by simp [contents, ContRel]⟩
    | sym t => simp only [List.map_cons, annotate]; exact .cons (Equiv.refl c _) ih
    | loc => simp only [List.map_cons, annotate]; exact .cons (Equiv.refl c _) ih
    | dir g => simp only [List.map_cons, annotate]; exact .cons (Equiv.refl c _) ih

/-! ### directories that cannot be loaded -/

theorem bad_equiv {c : CAS} {a b : Node} {e : Err} (h : Equiv c a b)
    (he : contents c [] a = .err e) : contents c [] b = .err e := by
  have hc := h.contents
  rw [he] at hc
  cases hb : contents c [] b <;> rw [hb] at hc <;> simp only [ContRel] at hc
  rw [hc]

/-- The path an operation walks first. -/
def firstPath : Op → Option Path
  | .merge _ _ => none
  | .lookup p _ => some p
  | .readdir p => some p
  | .leaf _ p _ => some p
  | .remove p _ => some p
  | .create p _ => some p
  | .mkdir p _ => some p
  | .rename _ _ _ _ => none
  | .link ps _ _ _ => some ps

/-- The directories a rename works in (old and new), the directory a link attaches to. -/
def viaPaths : Op → List Path
  | .rename p1 _ p2 _ => [p1, p2]
  | .link _ _ pd _ => [pd]
  | _ => []

theorem bad_persists {c : CAS} {t t' : Node} (hk : Equiv c t' t) {p : Path} {b : Node} {e : Err}
    (hb : nodeAt c t p = some b) (he : contents c [] b = .err e) :
    ∃ b', nodeAt c t' p = some b' ∧ contents c [] b' = .err e := by
  rcases nodeAt_equiv c p _ _ hk with ⟨_, h2⟩ | ⟨va, vb, h1, h2, hv⟩
  · rw [hb] at h2; cases h2
  · rw [hb] at h2; cases h2
    exact ⟨va, h1, bad_equiv hv.symm he⟩

theorem step_through_bad (s : State) (F : List Dig) (op : Op) (p q : Path) (b : Node) (e : Err)
    (hpath : firstPath op = some (p ++ q))
    (hb : nodeAt s.cas s.root p = some b) (he : contents s.cas [] b = .err e) :
    (step s F op).2 = .status .eio := by
  have key := fun act => withDir_through_bad s.cas F act p q s.root b e hb he
  cases op with
  | merge d m => cases hpath
  | lookup p' x => simp only [firstPath, Option.some.injEq] at hpath; subst hpath; exact key _
  | readdir p' => simp only [firstPath, Option.some.injEq] at hpath; subst hpath; exact key _
  | leaf o p' x => simp only [firstPath, Option.some.injEq] at hpath; subst hpath; exact key _
  | remove p' x => simp only [firstPath, Option.some.injEq] at hpath; subst hpath; exact key _
  | create p' x => simp only [firstPath, Option.some.injEq] at hpath; subst hpath; exact key _
  | mkdir p' x => simp only [firstPath, Option.some.injEq] at hpath; subst hpath; exact key _
  | rename p1 x1 p2 x2 => cases hpath
  | link ps xs pd xd =>
    simp only [firstPath, Option.some.injEq] at hpath; subst hpath
    have k := key actNop
    simp only [step, link, k, ne_eq, reduceCtorEq, not_false_eq_true, if_true]

/-- Nothing can be renamed out of, renamed into or linked into a directory that
cannot be loaded (or anything below it). -/
theorem step_into_bad (s : State) (F : List Dig) (op : Op) (p q : Path) (b : Node) (e : Err)
    (hpath : (p ++ q) ∈ viaPaths op)
    (hb : nodeAt s.cas s.root p = some b) (he : contents s.cas [] b = .err e) :
    (step s F op).2 ≠ .ok := by
  cases op with
  | rename p1 x1 p2 x2 =>
    simp only [step, rename]
    have j1 := walkTo_keeps s.cas F p1 s.root
    generalize walkTo s.cas F p1 s.root = w1 at j1 ⊢
    by_cases h1 : w1.2 = .ok
    rotate_left
    · simp only [ne_eq, h1, not_false_eq_true, if_true]
    simp only [ne_eq, h1, not_true_eq_false, if_false]
    have j2 := (walkTo_keeps s.cas F p2 w1.1).trans j1
    generalize walkTo s.cas F p2 w1.1 = w2 at j2 ⊢
    by_cases h2 : w2.2 = .ok
    rotate_left
    · simp only [h2, not_false_eq_true, if_true]
    simp only [h2, not_true_eq_false, if_false]
    simp only [viaPaths, List.mem_cons, List.not_mem_nil, or_false] at hpath
    rcases hpath with hp | hp
    · obtain ⟨b', hb', he'⟩ := bad_persists j2 hb he
      have k := withDir_through_bad s.cas F actNop p q _ b' e hb' he'
      rw [hp] at k
      simp only [k, reduceCtorEq, not_false_eq_true, if_true]
    · have j3 := (withDir_keeps s.cas F actNop (actNop_keeps s.cas) p1 w2.1).trans j2
      generalize withDir s.cas F actNop p1 w2.1 = r1 at j3 ⊢
      by_cases h3 : r1.2 = .ok
      rotate_left
      · simp only [h3, not_false_eq_true, if_true]
      simp only [h3, not_true_eq_false, if_false]
      obtain ⟨b', hb', he'⟩ := bad_persists j3 hb he
      have k := withDir_through_bad s.cas F actNop p q _ b' e hb' he'
      rw [hp] at k
      simp only [k, reduceCtorEq, not_false_eq_true, if_true]
  | link ps xs pd xd =>
    simp only [viaPaths, List.mem_cons, List.not_mem_nil, or_false] at hpath
    have j1 := withDir_keeps s.cas F actNop (actNop_keeps s.cas) ps s.root
    simp only [step, link]
    generalize withDir s.cas F actNop ps s.root = r1 at j1 ⊢
    by_cases h1 : r1.2 = .ok
    · simp only [ne_eq, h1, not_true_eq_false, if_false]
      obtain ⟨b', hb', he'⟩ := bad_persists j1 hb he
      cases nodeAt s.cas r1.1 (ps ++ [xs]) with
      | none => simp
      | some v =>
        simp only []
        split
        · simp
        · rw [← hpath, withDir_through_bad s.cas F _ p q _ b' e hb' he']; simp
    · simp only [ne_eq, h1, not_false_eq_true, if_true]
  | merge d m => simp [viaPaths] at hpath
  | lookup p' x => simp [viaPaths] at hpath
  | readdir p' => simp [viaPaths] at hpath
  | leaf o p' x => simp [viaPaths] at hpath
  | remove p' x => simp [viaPaths] at hpath
  | create p' x => simp [viaPaths] at hpath
  | mkdir p' x => simp [viaPaths] at hpath

/-! ### where an attached node ends up -/

theorem lookup_replaceFirst_self (ch : Children) (x : Name) (v w : Node) (h : lookup ch x = some w) :
    lookup (replaceFirst ch x v) x = some v := by
  induction ch with
  | nil => simp [lookup] at h
  | cons e es ih =>
    obtain ⟨n, u⟩ := e
    by_cases hn : n = x
    · simp [replaceFirst, lookup, hn]
    · simp only [lookup, hn, if_false] at h
      simp [replaceFirst, lookup, hn, ih h]

theorem lookup_append_new (ch : Children) (x : Name) (v : Node) (h : lookup ch x = none) :
    lookup (ch ++ [(x, v)]) x = some v := by
  induction ch with
  | nil => simp [lookup]
  | cons e es ih =>
    obtain ⟨n, u⟩ := e
    by_cases hn : n = x
    · simp [lookup, hn] at h
    · simp only [lookup, hn, if_false] at h
      simp [lookup, hn, ih h]

/-- After a successful attach of `v` as `x` in the directory `p`, the path `p/x`
denotes exactly `v` (a lazy directory stays the lazy directory it was). -/
theorem put_lands (c : CAS) (x : Name) (v : Node) : ∀ (p : Path) (t : Node),
    (withDir c [] (actPut x v) p t).2 = .ok →
    nodeAt c (withDir c [] (actPut x v) p t).1 (p ++ [x]) = some v := by
  intro p
  induction p with
  | nil =>
    intro t h
    simp only [withDir] at h ⊢
    cases ht : contents c [] t with
    | notDir => simp [ht] at h
    | err e => simp [ht] at h
    | ok ch =>
      simp only [List.nil_append, nodeAt, contents, actPut]
      cases hx : lookup ch x with
      | none => simp [lookup_append_new ch x v hx]
      | some w => simp [lookup_replaceFirst_self ch x v w hx]
  | cons y rest ih =>
    intro t h
    simp only [withDir] at h ⊢
    cases ht : contents c [] t with
    | notDir => simp [ht] at h
    | err e => simp [ht] at h
    | ok ch =>
      simp only [ht] at h ⊢
      cases hy : lookup ch y with
      | none => simp [hy] at h
      | some child =>
        simp only [hy] at h ⊢
        simp only [List.cons_append, nodeAt, contents, lookup_replaceFirst_self ch y _ child hy]
        exact ih child h

end BbRe.Lemmas.InputRoot
