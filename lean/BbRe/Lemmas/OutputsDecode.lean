import BbRe.Lemmas.OutputsErrors
/-!
Helper lemmas for C10 (`tree_wellformed`, last clause): decoding the root message of a Tree
reproduces the directory (special files left out, entries grouped by kind, symlink targets
normalised).
-/
namespace BbRe.Lemmas.Outputs
open BbRe.Outputs

mutual
/-- Decode a `Directory` message (children are referenced by their own message). -/
def decodeMsg : DirMsg → Node
  | .mk fs ds ss =>
    .dir true (fs.map (fun e => (e.1, Node.file e.2.2 e.2.1)) ++ decodeDirs ds ++
      ss.map (fun e => (e.1, Node.symlink e.2)))
def decodeDirs : List (Name × DirMsg) → Entries
  | [] => []
  | (n, m) :: rest => (n, decodeMsg m) :: decodeDirs rest
end

def filesOfE : Entries → Entries
  | [] => []
  | (n, .file x c) :: rest => (n, .file x c) :: filesOfE rest
  | _ :: rest => filesOfE rest

def symlinksOfE : Entries → Entries
  | [] => []
  | (n, .symlink t) :: rest => (n, .symlink (normTarget t)) :: symlinksOfE rest
  | _ :: rest => symlinksOfE rest

mutual
/-- What REv2 can say about a directory: regular files, then subdirectories (recursively), then
symlinks with normalised targets; special files are left out. -/
def canonNode : Node → Node
  | .dir _ es => .dir true (filesOfE es ++ canonDirsOf es ++ symlinksOfE es)
  | .file x c => .file x c
  | .symlink t => .symlink t
  | .special => .special
def canonDirsOf : Entries → Entries
  | [] => []
  | (n, .dir r ces) :: rest => (n, canonNode (.dir r ces)) :: canonDirsOf rest
  | (_, .file _ _) :: rest => canonDirsOf rest
  | (_, .symlink _) :: rest => canonDirsOf rest
  | (_, .special) :: rest => canonDirsOf rest
end

@[simp] theorem noFaults_putFails (b : Blob) : noFaults.putFails b = false := rfl
@[simp] theorem noFaults_readlinkFails (t : Str) : noFaults.readlinkFails t = false := rfl

theorem files_decode (es : Entries) :
    (es.filterMap (fileOf noFaults)).map (fun e => (e.1, Node.file e.2.2 e.2.1)) = filesOfE es := by
  induction es with
  | nil => rfl
  | cons p rest ih =>
    obtain ⟨n, nd⟩ := p
    cases nd <;> simp [List.filterMap_cons, fileOf, filesOfE, ih]

theorem symlinks_decode (es : Entries) :
    (es.filterMap (symlinkOf noFaults)).map (fun e => (e.1, Node.symlink e.2)) = symlinksOfE es := by
  induction es with
  | nil => rfl
  | cons p rest ih =>
    obtain ⟨n, nd⟩ := p
    cases nd <;> simp [List.filterMap_cons, symlinkOf, symlinksOfE, ih]

def PDecode (n : Node) : Prop :=
  cleanDir noFaults n = true → ∃ m, encodeDir noFaults n = some m ∧ decodeMsg m = canonNode n

theorem dirs_decode (es : Entries) (h : ∀ p ∈ es, PDecode p.2) (hc : cleanEntries noFaults es = true) :
    decodeDirs (es.filterMap (dirOf noFaults)) = canonDirsOf es := by
  induction es with
  | nil => rfl
  | cons p rest ih =>
    obtain ⟨n, nd⟩ := p
    have ihr := ih (fun q hq => h q (List.mem_cons_of_mem _ hq))
    cases nd with
    | file x c =>
      simp only [cleanEntries, Bool.and_eq_true] at hc
      simp [List.filterMap_cons, dirOf, canonDirsOf, ihr hc.2]
    | symlink t =>
      simp only [cleanEntries, Bool.and_eq_true] at hc
      simp [List.filterMap_cons, dirOf, canonDirsOf, ihr hc.2]
    | special =>
      simp only [cleanEntries] at hc
      simp [List.filterMap_cons, dirOf, canonDirsOf, ihr hc]
    | dir r ces =>
      simp only [cleanEntries, Bool.and_eq_true] at hc
      obtain ⟨m, hm, hd⟩ := h (n, .dir r ces) (by simp) hc.1
      simp only [List.filterMap_cons, dirOf, hm, Option.map_some, decodeDirs, canonDirsOf, hd, ihr hc.2]

theorem pdecode_all : ∀ n, PDecode n := by
  apply Node.induct
  · intro r es ih hc
    simp only [cleanDir, Bool.and_eq_true] at hc
    obtain ⟨hr, hce⟩ := hc
    subst hr
    refine ⟨encodeEntries noFaults es (.mk [] [] []), by simp [encodeDir], ?_⟩
    obtain ⟨hf, hd, hs⟩ := encodeEntries_lists noFaults es (.mk [] [] [])
    simp only [DirMsg.files, DirMsg.dirs, DirMsg.symlinks, List.nil_append] at hf hd hs
    cases hm : encodeEntries noFaults es (.mk [] [] []) with
    | mk fs ds ss =>
      rw [hm] at hf hd hs
      simp only at hf hd hs
      subst hf; subst hd; subst hs
      simp only [decodeMsg, canonNode, files_decode, symlinks_decode, dirs_decode es ih hce]
  · intro x c hc; simp [cleanDir] at hc
  · intro t hc; simp [cleanDir] at hc
  · intro hc; simp [cleanDir] at hc

end BbRe.Lemmas.Outputs
