import BbRe.Model.Outputs
/-!
Helper lemmas for C10 (`exact_listing`, `errors_do_not_lie`): registering one more
output path in the `outputNode` trie adds to the upload result exactly what that
path alone contributes (`single`), whatever is already in the trie.
-/
namespace BbRe.Lemmas.Outputs
open BbRe.Outputs

/-! ### `Res` algebra -/

@[simp] theorem Res.files_append (a b : Res) : (a ++ b).files = a.files ++ b.files := rfl
@[simp] theorem Res.dirs_append (a b : Res) : (a ++ b).dirs = a.dirs ++ b.dirs := rfl
@[simp] theorem Res.symlinks_append (a b : Res) : (a ++ b).symlinks = a.symlinks ++ b.symlinks := rfl
@[simp] theorem Res.errs_append (a b : Res) : (a ++ b).errs = a.errs ++ b.errs := rfl
@[simp] theorem Res.empty_files : ({} : Res).files = [] := rfl
@[simp] theorem Res.empty_dirs : ({} : Res).dirs = [] := rfl
@[simp] theorem Res.empty_symlinks : ({} : Res).symlinks = [] := rfl
@[simp] theorem Res.empty_errs : ({} : Res).errs = [] := rfl
@[simp] theorem Res.err_files (e : Err) : (Res.err e).files = [] := rfl
@[simp] theorem Res.err_dirs (e : Err) : (Res.err e).dirs = [] := rfl
@[simp] theorem Res.err_symlinks (e : Err) : (Res.err e).symlinks = [] := rfl
@[simp] theorem Res.err_errs (e : Err) : (Res.err e).errs = [e] := rfl

/-- `r'` is `r` plus the contribution `e`: entry lists up to order, and "no error" iff neither had one. -/
structure Adds (r' r e : Res) : Prop where
  files : r'.files.Perm (r.files ++ e.files)
  dirs : r'.dirs.Perm (r.dirs ++ e.dirs)
  symlinks : r'.symlinks.Perm (r.symlinks ++ e.symlinks)
  errs : r'.errs = [] ↔ (r.errs = [] ∧ e.errs = [])

theorem Adds.self_append (r e : Res) : Adds (r ++ e) r e :=
  ⟨by simp, by simp, by simp, by simp⟩

theorem Adds.of_empty (e : Res) : Adds e {} e :=
  ⟨by simp, by simp, by simp, by simp⟩

theorem Adds.zero (r : Res) : Adds r r {} :=
  ⟨by simp, by simp, by simp, by simp⟩

theorem perm_mid {α : Type} {a' a e : List α} (x y : List α) (h : a'.Perm (a ++ e)) :
    (x ++ a' ++ y).Perm ((x ++ a ++ y) ++ e) := by
  have h1 : (x ++ a' ++ y).Perm (x ++ (a ++ e) ++ y) :=
    (List.Perm.append_left x h).append_right y
  refine h1.trans ?_
  simp only [List.append_assoc]
  refine List.Perm.append_left x (List.Perm.append_left a ?_)
  exact List.perm_append_comm

theorem Adds.mid {a' a e : Res} (x y : Res) (h : Adds a' a e) : Adds (x ++ a' ++ y) (x ++ a ++ y) e where
  files := by simpa using perm_mid x.files y.files h.files
  dirs := by simpa using perm_mid x.dirs y.dirs h.dirs
  symlinks := by simpa using perm_mid x.symlinks y.symlinks h.symlinks
  errs := by
    have := h.errs
    simp only [Res.errs_append, List.append_eq_nil_iff]
    constructor
    · rintro ⟨⟨hx, ha⟩, hy⟩
      exact ⟨⟨⟨hx, (this.1 ha).1⟩, hy⟩, (this.1 ha).2⟩
    · rintro ⟨⟨⟨hx, ha⟩, hy⟩, he⟩
      exact ⟨⟨hx, this.2 ⟨ha, he⟩⟩, hy⟩

@[simp] theorem Res.append_empty (a : Res) : a ++ ({} : Res) = a := by
  cases a; show Res.append _ _ = _; simp [Res.append]

@[simp] theorem Res.empty_append (a : Res) : ({} : Res) ++ a = a := by
  cases a; show Res.append _ _ = _; simp [Res.append]

theorem Res.append_assoc (a b c : Res) : a ++ b ++ c = a ++ (b ++ c) := by
  cases a; cases b; cases c
  show Res.append (Res.append _ _) _ = Res.append _ (Res.append _ _)
  simp [Res.append]

theorem Adds.left {a' a e : Res} (x : Res) (h : Adds a' a e) : Adds (x ++ a') (x ++ a) e := by
  simpa using Adds.mid x {} h

theorem Adds.right {a' a e : Res} (y : Res) (h : Adds a' a e) : Adds (a' ++ y) (a ++ y) e := by
  simpa using Adds.mid {} y h

theorem Adds.trans {r2 r1 r0 e1 e2 : Res} (h1 : Adds r1 r0 e1) (h2 : Adds r2 r1 e2) :
    Adds r2 r0 (e1 ++ e2) where
  files := by
    refine h2.files.trans ?_
    simpa [List.append_assoc] using List.Perm.append_right e2.files h1.files
  dirs := by
    refine h2.dirs.trans ?_
    simpa [List.append_assoc] using List.Perm.append_right e2.dirs h1.dirs
  symlinks := by
    refine h2.symlinks.trans ?_
    simpa [List.append_assoc] using List.Perm.append_right e2.symlinks h1.symlinks
  errs := by
    rw [h2.errs, h1.errs]
    simp [and_assoc]

/-! ### one declared path alone -/

/-- What `uploadOutputs` does for a single declared location `cs ++ [last]` with string `s`,
walking down from the directory `es`: the flat specification of the trie traversal. -/
def single (env : Env) (up : Bool) : List Name → Name → Str → Entries → Res
  | [], last, s, es => uploadPath env up es last [s]
  | c :: cs, last, s, es =>
    match lookupE c es with
    | none => {}
    | some (.dir _ ces) => single env up cs last s ces
    | some _ => .err .fs

/-- Appending one more string to an already expected name adds that string's entries. -/
theorem uode_snoc (env : Env) (up : Bool) (n : Node) (v : List Str) (s : Str) :
    Adds (uploadOutputDirectoryEntered env up n (v ++ [s])) (uploadOutputDirectoryEntered env up n v)
      (uploadOutputDirectoryEntered env up n [s]) := by
  unfold uploadOutputDirectoryEntered
  cases hu : n.uploadDirectory env {} with
  | mk r st =>
    cases r with
    | none => exact ⟨by simp, by simp, by simp, by simp⟩
    | some root =>
      refine ⟨by simp, ?_, by simp, by simp⟩
      simp only
      split <;> simp

theorem uploadPath_snoc (env : Env) (up : Bool) (es : Entries) (k : Name) (v : List Str) (s : Str) :
    Adds (uploadPath env up es k (v ++ [s])) (uploadPath env up es k v) (uploadPath env up es k [s]) := by
  unfold uploadPath
  cases hl : lookupE k es with
  | none => exact ⟨by simp, by simp, by simp, by simp⟩
  | some n =>
    cases n with
    | dir r ces => exact uode_snoc env up _ v s
    | file x c =>
      simp only
      split
      · exact ⟨by simp, by simp, by simp, by simp⟩
      · exact ⟨by simp, by simp, by simp, by simp⟩
    | symlink t =>
      simp only
      split
      · exact ⟨by simp, by simp, by simp, by simp⟩
      · exact ⟨by simp, by simp, by simp, by simp⟩
    | special => exact ⟨by simp, by simp, by simp, by simp⟩

theorem uploadPaths_addPath (env : Env) (up : Bool) (es : Entries) (name : Name) (s : Str)
    (ps : List (Name × List Str)) :
    Adds (uploadPaths env up es (addPath name s ps)) (uploadPaths env up es ps)
      (uploadPath env up es name [s]) := by
  induction ps with
  | nil => simpa [addPath, uploadPaths] using Adds.of_empty _
  | cons kv rest ih =>
    obtain ⟨k, v⟩ := kv
    unfold addPath
    split
    · rename_i hk
      subst hk
      simp only [uploadPaths]
      exact Adds.right _ (uploadPath_snoc env up es k v s)
    · simp only [uploadPaths]
      exact Adds.left _ ih

theorem upload_empty (env : Env) (up : Bool) (es : Entries) : ONode.empty.upload env up es = {} := by
  simp [ONode.empty, ONode.upload, uploadPaths, uploadSubs]

/-- What a subdirectory entry of the trie contributes. -/
def subRes (es : Entries) (c : Name) (f : Entries → Res) : Res :=
  match lookupE c es with
  | none => {}
  | some (.dir _ ces) => f ces
  | some _ => .err .fs

theorem uploadSubs_cons (env : Env) (up : Bool) (k : Name) (v : ONode) (rest : List (Name × ONode))
    (es : Entries) :
    uploadSubs env up ((k, v) :: rest) es = subRes es k (v.upload env up) ++ uploadSubs env up rest es := by
  rw [uploadSubs]
  unfold subRes
  cases lookupE k es with
  | none => rfl
  | some n => cases n <;> rfl

theorem subRes_adds (es : Entries) (c : Name) (f' f e : Entries → Res)
    (h : ∀ ces, Adds (f' ces) (f ces) (e ces)) :
    Adds (subRes es c f') (subRes es c f) (subRes es c e) := by
  unfold subRes
  cases lookupE c es with
  | none => exact Adds.zero _
  | some n =>
    cases n with
    | dir r ces => exact h ces
    | file x c => exact ⟨by simp, by simp, by simp, by simp⟩
    | symlink t => exact ⟨by simp, by simp, by simp, by simp⟩
    | special => exact ⟨by simp, by simp, by simp, by simp⟩

theorem uploadSubs_alterSub (env : Env) (up : Bool) (c : Name) (F : ONode → ONode) (e : Entries → Res)
    (hF : ∀ child ces, Adds ((F child).upload env up ces) (child.upload env up ces) (e ces))
    (subs : List (Name × ONode)) (es : Entries) :
    Adds (uploadSubs env up (alterSub c F subs) es) (uploadSubs env up subs es) (subRes es c e) := by
  induction subs with
  | nil =>
    simp only [alterSub, uploadSubs_cons]
    have h0 : uploadSubs env up [] es = {} := by simp [uploadSubs]
    rw [h0]
    simp only [Res.append_empty]
    unfold subRes
    cases lookupE c es with
    | none => exact Adds.zero _
    | some n =>
      cases n with
      | dir r ces =>
        have := hF .empty ces
        rw [upload_empty] at this
        exact this
      | file x c => exact Adds.of_empty _
      | symlink t => exact Adds.of_empty _
      | special => exact Adds.of_empty _
  | cons kv rest ih =>
    obtain ⟨k, v⟩ := kv
    unfold alterSub
    split
    · rename_i hk
      subst hk
      simp only [uploadSubs_cons]
      exact Adds.right _ (subRes_adds es k _ _ e (hF v))
    · simp only [uploadSubs_cons]
      exact Adds.left _ ih

/-- Registering `(cs ++ [last], s)` adds exactly `single cs last s` to the upload result. -/
theorem upload_insert (env : Env) (up : Bool) (cs : List Name) (last : Name) (s : Str) (n : ONode)
    (es : Entries) :
    Adds ((n.insert cs last s).upload env up es) (n.upload env up es) (single env up cs last s es) := by
  induction cs generalizing n es with
  | nil =>
    cases n with
    | mk ps subs =>
      simp only [ONode.insert, ONode.upload, single]
      exact Adds.right _ (uploadPaths_addPath env up es last s ps)
  | cons c cs ih =>
    cases n with
    | mk ps subs =>
      simp only [ONode.insert, ONode.upload]
      have := uploadSubs_alterSub env up c (ONode.insert cs last s) (single env up cs last s)
        (fun child ces => ih child ces) subs es
      have h2 : subRes es c (single env up cs last s) = single env up (c :: cs) last s es := by
        unfold subRes
        rw [single]
      rw [h2] at this
      exact Adds.left _ this

/-! ### the whole hierarchy -/

/-- lstat-walk from a node along names (symlinks are not followed). -/
def walkN : List Name → Node → Option Node
  | [], n => some n
  | c :: cs, .dir _ es =>
    match lookupE c es with
    | none => none
    | some n' => walkN cs n'
  | _ :: _, _ => none

/-- Contribution of one declared path string `p` (resolved against `wd`) on the root `root`. -/
def specOne (env : Env) (up : Bool) (wd : List Name) (root : Node) (p : Str) : Res :=
  match resolveRel wd p with
  | .error _ => {}
  | .ok comps =>
    match splitLast comps with
    | none => uploadOutputDirectoryEntered env up root [p]
    | some (i, l) =>
      match root with
      | .dir _ es => single env up i l p es
      | _ => {}

def sumRes : List Res → Res
  | [] => {}
  | r :: rs => r ++ sumRes rs

theorem uploadOutputs_register (env : Env) (force : Bool) (wd : List Name) (h h' : Hierarchy) (p : Str)
    (r : Bool) (es : Entries) (hr : h.register wd p = .ok h') :
    h'.upDirs = h.upDirs ∧
    Adds (h'.uploadOutputs env force (.dir r es)) (h.uploadOutputs env force (.dir r es))
      (specOne env (h.upDirs || force) wd (.dir r es) p) := by
  unfold Hierarchy.register at hr
  unfold specOne
  cases hres : resolveRel wd p with
  | error e => simp [hres] at hr
  | ok comps =>
    simp only [hres] at hr
    cases hsl : splitLast comps with
    | none =>
      simp only [hsl, Except.ok.injEq] at hr
      subst hr
      refine ⟨rfl, ?_⟩
      simp only [Hierarchy.uploadOutputs, hsl]
      refine Adds.right _ ?_
      cases hroots : h.roots with
      | nil => simpa using Adds.of_empty _
      | cons a as =>
        simp only [List.cons_append, List.isEmpty_cons, Bool.false_eq_true, ↓reduceIte]
        exact uode_snoc env _ _ (a :: as) p
    | some il =>
      obtain ⟨i, l⟩ := il
      simp only [hsl, Except.ok.injEq] at hr
      subst hr
      refine ⟨rfl, ?_⟩
      simp only [Hierarchy.uploadOutputs, hsl]
      exact Adds.left _ (upload_insert env _ i l p h.root es)

theorem uploadOutputs_registerAll (env : Env) (force : Bool) (wd : List Name) (h h' : Hierarchy)
    (ps : List Str) (r : Bool) (es : Entries) (hr : registerAll wd h ps = .ok h') :
    h'.upDirs = h.upDirs ∧
    Adds (h'.uploadOutputs env force (.dir r es)) (h.uploadOutputs env force (.dir r es))
      (sumRes (ps.map (specOne env (h.upDirs || force) wd (.dir r es)))) := by
  induction ps generalizing h with
  | nil =>
    simp only [registerAll, Except.ok.injEq] at hr
    subst hr
    exact ⟨rfl, by simpa [sumRes] using Adds.zero _⟩
  | cons p ps ih =>
    simp only [registerAll] at hr
    cases h1 : h.register wd p with
    | error e => simp [h1] at hr
    | ok hm =>
      simp only [h1] at hr
      obtain ⟨hu1, ha1⟩ := uploadOutputs_register env force wd h hm p r es h1
      obtain ⟨hu2, ha2⟩ := ih hm hr
      refine ⟨hu2.trans hu1, ?_⟩
      rw [hu1] at ha2
      simpa [sumRes] using Adds.trans ha1 ha2

theorem sumRes_files (l : List Res) : (sumRes l).files = l.flatMap (·.files) := by
  induction l with
  | nil => rfl
  | cons a as ih => simp [sumRes, ih]

theorem sumRes_dirs (l : List Res) : (sumRes l).dirs = l.flatMap (·.dirs) := by
  induction l with
  | nil => rfl
  | cons a as ih => simp [sumRes, ih]

theorem sumRes_symlinks (l : List Res) : (sumRes l).symlinks = l.flatMap (·.symlinks) := by
  induction l with
  | nil => rfl
  | cons a as ih => simp [sumRes, ih]

theorem sumRes_errs_nil (l : List Res) : (sumRes l).errs = [] ↔ ∀ r ∈ l, r.errs = [] := by
  induction l with
  | nil => simp [sumRes]
  | cons a as ih => simp [sumRes, ih]

theorem emptyHierarchy_upload (env : Env) (force up : Bool) (r : Bool) (es : Entries) :
    (Hierarchy.mk .empty [] up).uploadOutputs env force (.dir r es) = {} := by
  simp [Hierarchy.uploadOutputs, upload_empty]

end BbRe.Lemmas.Outputs
