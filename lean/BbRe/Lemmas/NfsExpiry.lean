import BbRe.Lemmas.NfsInv
/-!
# Lease expiry empties the server (C18.expiry_empties)

`expireActs s` is the first loop of the server's `enter()`: it removes every client record
at the head of the idle list whose lease has run out.  When nothing is in flight and every
lease has run out, the loop removes every client record (`expire_removes_all`), and once the
files it closed are flushed (`ll.closeAll()`), no record of any kind is left and the ledger
of opens and closes is balanced (`expiry_empties`).  Core Lean only.
-/
namespace BbRe.Lemmas.NfsExpiry
open BbRe.NfsState BbRe.NfsShare BbRe.Lemmas.NfsInv
open BbRe.Lemmas.NfsInvC (ids mem_ids getClient_some getClient_none)

/-- nothing is in flight -/
structure Quiescent (s : State) : Prop where
  noPanic : s.panic = none
  noHolders : s.holders = []
  noIos : s.ios = []
  noTemps : s.temps = []
  noPend : s.pend = []

/-! ## No client record left -/

/-- consequences of "no client record is left" in a state satisfying the invariant -/
theorem no_clients_empty (s : State) (h : Inv s) (hc : s.clients = []) :
    s.idle = [] ∧ s.holders = [] ∧ s.oowners = [] ∧ s.lowners = [] ∧ s.pool = [] ∧
    (∀ f ∈ s.files, f.live = false) ∧ (s.ios = [] → s.files = []) ∧
    (s.ios = [] → s.pend = [] → s.temps = [] → ∀ leaf bit, opens s leaf bit = closes s leaf bit) := by
  have hnone : ∀ {P : Client → Prop}, ¬ ∃ c ∈ s.clients, P c := by
    intro P ⟨c, hm, _⟩; rw [hc] at hm; cases hm
  have hlive : ∀ f ∈ s.files, f.live = false := by
    intro f hf
    cases hl : f.live with
    | false => rfl
    | true => exact absurd (h.r.fileCl f hf hl) hnone
  have hfiles : s.ios = [] → s.files = [] := by
    intro hio
    apply List.eq_nil_iff_forall_not_mem.mpr
    intro f hf
    obtain ⟨io, hm, _⟩ := h.s.deadUsed f hf (hlive f hf)
    rw [hio] at hm; cases hm
  refine ⟨?_, ?_, ?_, ?_, ?_, hlive, hfiles, ?_⟩
  · apply List.eq_nil_iff_forall_not_mem.mpr
    intro id hid
    obtain ⟨c, hm, _⟩ := (h.c.idleIff id).mp hid
    exact hnone (P := fun _ => True) ⟨c, hm, trivial⟩
  · apply List.eq_nil_iff_forall_not_mem.mpr
    intro x hx
    exact hnone (h.c.holderCl x hx)
  · apply List.eq_nil_iff_forall_not_mem.mpr
    intro x hx
    exact hnone (h.r.ooCl x hx)
  · apply List.eq_nil_iff_forall_not_mem.mpr
    intro x hx
    exact hnone (h.r.loCl x hx)
  · apply List.eq_nil_iff_forall_not_mem.mpr
    intro e he
    obtain ⟨h1, h2⟩ := h.p.poolCount e he
    have h0 : liveOn s e.file = 0 := by
      unfold liveOn
      apply List.countP_eq_zero.mpr
      intro f hf
      rw [hlive f hf]
      simp
    omega
  · intro hio hp ht leaf bit
    have := h.g.ledger leaf bit
    rw [this]
    unfold held heldFiles heldPend heldTemps
    rw [hfiles hio, hp, ht]
    rfl

/-! ## `applyAll`, and `panic` is sticky -/

theorem applyAll_nil (s : State) : applyAll s [] = s := rfl
theorem applyAll_cons (s : State) (a : Act) (acts : List Act) :
    applyAll s (a :: acts) = applyAll (apply s a) acts := rfl

theorem applyAll_append (s : State) (xs ys : List Act) :
    applyAll s (xs ++ ys) = applyAll (applyAll s xs) ys := by
  unfold applyAll; exact List.foldl_append

theorem apply_of_panic (s : State) (a : Act) (h : s.panic ≠ none) : apply s a = s := by
  unfold apply
  rw [if_pos]
  cases hp : s.panic with
  | none => exact absurd hp h
  | some m => rfl

theorem applyAll_of_panic (s : State) (acts : List Act) (h : s.panic ≠ none) : applyAll s acts = s := by
  induction acts with
  | nil => rfl
  | cons a rest ih => rw [applyAll_cons, apply_of_panic s a h]; exact ih

/-- if a run ends without panic, it had not panicked after any prefix -/
theorem panic_none_of_applyAll (s : State) (xs ys : List Act)
    (h : (applyAll s (xs ++ ys)).panic = none) : (applyAll s xs).panic = none := by
  rw [applyAll_append] at h
  cases hp : (applyAll s xs).panic with
  | none => rfl
  | some m =>
    rw [applyAll_of_panic _ ys (by rw [hp]; intro e; cases e)] at h
    rw [hp] at h; cases h

theorem apply_dropClient (s : State) (cl : Nat) (h : s.panic = none) :
    apply s (.dropClient cl) = Do.dropClient s cl := by
  unfold apply; rw [if_neg (by rw [h]; simp)]

theorem apply_flush (s : State) (h : s.panic = none) : apply s .flush = Do.flush s := by
  unfold apply; rw [if_neg (by rw [h]; simp)]

/-! ## What the actions of the expiry loop leave alone -/

/-- the kinds of actions the expiry loop performs -/
def isExp : Act → Bool
  | .unlockAllLofs .. => true
  | .removeLofs .. => true
  | .loPrune .. => true
  | .downgradeOpen .. => true
  | .finalize .. => true
  | .ooDel .. => true
  | .delSession .. => true
  | .dropClient .. => true
  | _ => false

/-- `s'` has the in-flight records of `s`, no client id that `s` did not have, and its new
`leavesToClose` entries belong to the current request -/
structure Q (s s' : State) : Prop where
  holders : s'.holders = s.holders
  ios : s'.ios = s.ios
  temps : s'.temps = s.temps
  cur : s'.cur = s.cur
  pend : ∀ p ∈ s'.pend, p ∈ s.pend ∨ p.1 = s.cur
  ids : ∀ id ∈ ids s', id ∈ ids s

theorem Q.refl (s : State) : Q s s := ⟨rfl, rfl, rfl, rfl, fun _ hp => Or.inl hp, fun _ h => h⟩

theorem Q.trans {a b c : State} (h1 : Q a b) (h2 : Q b c) : Q a c := by
  refine ⟨h2.holders.trans h1.holders, h2.ios.trans h1.ios, h2.temps.trans h1.temps,
    h2.cur.trans h1.cur, ?_, fun id h => h1.ids id (h2.ids id h)⟩
  intro p hp
  rcases h2.pend p hp with h | h
  · exact h1.pend p h
  · exact Or.inr (h.trans h1.cur)

theorem Q_fail (s : State) (m : String) : Q s (s.fail m) :=
  ⟨rfl, rfl, rfl, rfl, fun _ hp => Or.inl hp, fun _ h => h⟩

theorem Q_pushPend (s : State) (l : Nat) (m : Mask) : Q s (s.pushPend l m) := by
  unfold State.pushPend
  split
  · exact Q.refl s
  · refine ⟨rfl, rfl, rfl, rfl, ?_, fun _ h => h⟩
    intro p hp
    rcases List.mem_append.mp hp with h | h
    · exact Or.inl h
    · rw [List.mem_singleton] at h; subst h; exact Or.inr rfl

theorem Q_modFile (s : State) (sid : Nat) (g : OFile → OFile) : Q s (s.modFile sid g) :=
  ⟨rfl, rfl, rfl, rfl, fun _ hp => Or.inl hp, fun _ h => h⟩

macro "q_tac" : tactic =>
  `(tactic| ((repeat' split) <;>
      first
      | exact Q.refl _
      | exact Q_fail _ _
      | exact ⟨rfl, rfl, rfl, rfl, fun _ hp => Or.inl hp, fun _ h => h⟩
      | exact Q.trans (Q_modFile _ _ _) (Q_pushPend _ _ _)))

theorem Q_unlockAllLofs (s : State) (sid lsid : Nat) : Q s (Do.unlockAllLofs s sid lsid) := by
  unfold Do.unlockAllLofs; q_tac
theorem Q_removeLofs (s : State) (sid lsid : Nat) : Q s (Do.removeLofs s sid lsid) := by
  unfold Do.removeLofs; q_tac
theorem Q_loPrune (s : State) (id : Nat) : Q s (Do.loPrune s id) := by
  unfold Do.loPrune; q_tac
theorem Q_downgradeOpen (s : State) (sid : Nat) (new : Mask) : Q s (Do.downgradeOpen s sid new) := by
  unfold Do.downgradeOpen; q_tac
theorem Q_finalize (s : State) (sid : Nat) : Q s (Do.finalize s sid) := by
  unfold Do.finalize; q_tac
theorem Q_ooDel (s : State) (cl key : Nat) : Q s (Do.ooDel s cl key) := by
  unfold Do.ooDel; q_tac
theorem Q_delSession (s : State) (cl k : Nat) : Q s (Do.delSession s cl k) :=
  ⟨rfl, rfl, rfl, rfl, fun _ hp => Or.inl hp,
    fun _ h => (BbRe.Lemmas.NfsInvC.ids_delSession s cl k) ▸ h⟩
theorem Q_dropClient (s : State) (cl : Nat) : Q s (Do.dropClient s cl) := by
  unfold Do.dropClient
  (repeat' split) <;> first
    | exact Q.refl _
    | exact Q_fail _ _
    | (refine ⟨rfl, rfl, rfl, rfl, fun _ hp => Or.inl hp, ?_⟩
       intro id hid
       obtain ⟨c, hc, rfl⟩ := mem_ids.mp hid
       exact mem_ids.mpr ⟨c, (List.mem_filter.mp hc).1, rfl⟩)

theorem Q_apply (s : State) (a : Act) (h : isExp a = true) : Q s (apply s a) := by
  unfold apply
  split
  · exact Q.refl s
  · cases a <;> simp only [] <;> first
      | exact Q_unlockAllLofs ..
      | exact Q_removeLofs ..
      | exact Q_loPrune ..
      | exact Q_downgradeOpen ..
      | exact Q_finalize ..
      | exact Q_ooDel ..
      | exact Q_delSession ..
      | exact Q_dropClient ..
      | exact Bool.noConfusion h

theorem Q_applyAll (s : State) (acts : List Act) (h : ∀ a ∈ acts, isExp a = true) :
    Q s (applyAll s acts) := by
  induction acts generalizing s with
  | nil => exact Q.refl s
  | cons a rest ih =>
    rw [applyAll_cons]
    exact Q.trans (Q_apply s a (h a (List.mem_cons_self ..)))
      (ih (apply s a) (fun b hb => h b (List.mem_cons_of_mem _ hb)))

/-! ## The actions of the expiry loop -/

theorem isExp_closeAndFinalize (s : State) (sid : Nat) : ∀ a ∈ closeAndFinalizeActs s sid, isExp a = true := by
  intro a ha
  unfold closeAndFinalizeActs closeStartActs at ha
  split at ha
  · simp only [List.nil_append, List.mem_singleton] at ha; subst ha; rfl
  · simp only [List.mem_append, List.mem_flatMap, List.mem_cons, List.not_mem_nil, or_false] at ha
    rcases ha with (⟨l, _, rfl | rfl | rfl⟩ | rfl) | rfl <;> rfl

/-- `removeClientActs s cl` ends with `dropClient cl`; everything is of an expiry kind -/
theorem removeClientActs_split (s : State) (cl : Nat) :
    ∃ pre, removeClientActs s cl = pre ++ [Act.dropClient cl] ∧ ∀ a ∈ pre, isExp a = true := by
  refine ⟨_, rfl, ?_⟩
  intro a ha
  simp only [List.mem_append, List.mem_flatMap, List.mem_map] at ha
  rcases ha with (⟨f, _, h⟩ | ⟨o, _, rfl⟩) | h
  · exact isExp_closeAndFinalize s f.sid a h
  · rfl
  · split at h
    · obtain ⟨k, _, rfl⟩ := List.mem_map.mp h; rfl
    · cases h

theorem isExp_removeClientActs (s : State) (cl : Nat) : ∀ a ∈ removeClientActs s cl, isExp a = true := by
  obtain ⟨pre, e, hpre⟩ := removeClientActs_split s cl
  intro a ha
  rw [e] at ha
  rcases List.mem_append.mp ha with h | h
  · exact hpre a h
  · rw [List.mem_singleton] at h; subst h; rfl

theorem isExp_flatMap (s : State) (l : List Nat) : ∀ a ∈ l.flatMap (removeClientActs s), isExp a = true := by
  intro a ha
  obtain ⟨cl, _, h⟩ := List.mem_flatMap.mp ha
  exact isExp_removeClientActs s cl a h

theorem isExp_expireActs (s : State) : ∀ a ∈ expireActs s, isExp a = true :=
  isExp_flatMap s _

/-! ## `dropClient` removes the record unless it panics -/

theorem dropClient_removes (s : State) (cl : Nat) (h : (Do.dropClient s cl).panic = none) :
    cl ∉ ids (Do.dropClient s cl) := by
  unfold Do.dropClient at h ⊢
  split
  · rename_i hg
    intro hm
    obtain ⟨c, hc, e⟩ := mem_ids.mp hm
    exact getClient_none s cl hg c hc e
  · rename_i c hg
    rw [hg] at h
    dsimp only at h
    repeat' split
    all_goals first
      | (rename_i h1; rw [if_pos h1] at h; cases h; done)
      | (rename_i h1 h2; rw [if_neg h1, if_pos h2] at h; cases h; done)
      | (rename_i h1 h2 h3; rw [if_neg h1, if_neg h2, if_pos h3] at h; cases h; done)
      | (rename_i h1 h2 h3 h4; rw [if_neg h1, if_neg h2, if_neg h3, if_pos h4] at h; cases h; done)
      | (rename_i h1 h2 h3 h4 h5; rw [if_neg h1, if_neg h2, if_neg h3, if_neg h4, if_pos h5] at h; cases h; done)
      | (intro hm
         obtain ⟨c', hc', e⟩ := mem_ids.mp hm
         have := (List.mem_filter.mp hc').2
         simp only [bne_iff_ne, ne_eq] at this
         exact this e)

/-! ## Every lease has run out: the loop visits every record -/

theorem takeWhile_all {α : Type} (p : α → Bool) : ∀ (l : List α), (∀ x ∈ l, p x = true) → l.takeWhile p = l
  | [], _ => rfl
  | x :: l, h => by
    rw [List.takeWhile_cons, if_pos (h x (List.mem_cons_self ..)),
      takeWhile_all p l (fun y hy => h y (List.mem_cons_of_mem _ hy))]

theorem all_idle (s : State) (h : Inv s) (hh : s.holders = []) (hio : s.ios = []) :
    ∀ c ∈ s.clients, c.id ∈ s.idle := by
  intro c hc
  have h0 : c.hold = 0 := by
    rw [h.c.holdCount c hc]; unfold holdsOf; rw [hh, hio]; rfl
  exact (h.c.idleIff c.id).mpr ⟨c, hc, rfl, h0⟩

theorem expired_eq_idle (s : State) (h : Inv s)
    (hexp : ∀ c ∈ s.clients, c.lastSeen + s.lease < s.now) : expiredClients s = s.idle := by
  unfold expiredClients
  apply takeWhile_all
  intro cl hcl
  obtain ⟨c, hc, e, _⟩ := (h.c.idleIff cl).mp hcl
  cases hg : s.getClient cl with
  | none => exact absurd e (getClient_none s cl hg c hc)
  | some c' =>
    obtain ⟨hc', _⟩ := getClient_some s cl c' hg
    exact decide_eq_true (hexp c' hc')

/-- the expiry loop removes every record when all leases have run out (unless the server panics,
which the known finding "lock-owner shared by two open-owners" can cause) -/
theorem expire_removes_all (s : State) (h : Inv s) (hq : Quiescent s)
    (hexp : ∀ c ∈ s.clients, c.lastSeen + s.lease < s.now)
    (hp : (applyAll s (expireActs s)).panic = none) :
    (applyAll s (expireActs s)).clients = [] := by
  have hE := expired_eq_idle s h hexp
  have hnot : ∀ cl ∈ s.idle, cl ∉ ids (applyAll s (expireActs s)) := by
    intro cl hcl
    rw [← hE] at hcl
    obtain ⟨l1, l2, hl⟩ := List.append_of_mem hcl
    obtain ⟨pre, e, _⟩ := removeClientActs_split s cl
    have hsplit : expireActs s =
        ((l1.flatMap (removeClientActs s) ++ pre) ++ [Act.dropClient cl]) ++ l2.flatMap (removeClientActs s) := by
      unfold expireActs
      rw [hl, List.flatMap_append, List.flatMap_cons, e]
      simp only [List.append_assoc]
    rw [hsplit] at hp ⊢
    have hp1 := panic_none_of_applyAll _ _ _ hp
    have hp0 := panic_none_of_applyAll _ _ _ hp1
    rw [applyAll_append] at hp1
    rw [applyAll_append, applyAll_append _ _ [Act.dropClient cl]]
    rw [applyAll_cons, applyAll_nil, apply_dropClient _ _ hp0] at hp1 ⊢
    intro hm
    exact dropClient_removes _ cl hp1 ((Q_applyAll _ _ (isExp_flatMap s l2)).ids cl hm)
  have hsub := (Q_applyAll s _ (isExp_expireActs s)).ids
  apply List.eq_nil_iff_forall_not_mem.mpr
  intro c hc
  have hm : c.id ∈ ids (applyAll s (expireActs s)) := mem_ids.mpr ⟨c, hc, rfl⟩
  obtain ⟨c', hc', e⟩ := mem_ids.mp (hsub c.id hm)
  have := all_idle s h hq.noHolders hq.noIos c' hc'
  rw [e] at this
  exact hnot c.id this hm

/-! ## `ll.closeAll()` -/

theorem flush_panic (s : State) : (Do.flush s).panic = s.panic := by
  unfold Do.flush; split <;> rfl

theorem applyAll_flush_panic : ∀ (n : Nat) (s : State),
    (applyAll s (List.replicate n Act.flush)).panic = s.panic
  | 0, _ => rfl
  | n + 1, s => by
    rw [List.replicate_succ, applyAll_cons, applyAll_flush_panic n]
    cases hp : s.panic with
    | none => rw [apply_flush s hp, flush_panic, hp]
    | some m => rw [apply_of_panic s _ (by rw [hp]; intro e; cases e), hp]

theorem flush_cons (s : State) (x : Nat × Nat × Mask) (rest : List (Nat × Nat × Mask))
    (hp : s.pend = x :: rest) (hx : x.1 = s.cur) :
    Do.flush s = { s with pend := rest, log := s.log ++ [.closeEv x.2.1 x.2.2] } := by
  obtain ⟨t, leaf, m⟩ := x
  have hx' : ((t, leaf, m).1 == s.cur) = true := by simpa using hx
  unfold Do.flush
  rw [hp, List.find?_cons_of_pos (by exact hx'), List.eraseP_cons_of_pos (by exact hx')]

/-- when every entry of `leavesToClose` belongs to the current request, `closeAll` empties it -/
theorem flush_all : ∀ (n : Nat) (s : State), s.panic = none → (∀ p ∈ s.pend, p.1 = s.cur) →
    s.pend.length = n →
    (applyAll s (List.replicate n Act.flush)).pend = [] ∧
    (applyAll s (List.replicate n Act.flush)).clients = s.clients ∧
    (applyAll s (List.replicate n Act.flush)).ios = s.ios ∧
    (applyAll s (List.replicate n Act.flush)).temps = s.temps
  | 0, s, _, _, hn => ⟨List.eq_nil_of_length_eq_zero hn, rfl, rfl, rfl⟩
  | n + 1, s, h0, hall, hn => by
    cases hp : s.pend with
    | nil => rw [hp] at hn; cases hn
    | cons x rest =>
      have hx : x.1 = s.cur := hall x (hp ▸ List.mem_cons_self ..)
      rw [List.replicate_succ, applyAll_cons, apply_flush s h0, flush_cons s x rest hp hx]
      have := flush_all n { s with pend := rest, log := s.log ++ [.closeEv x.2.1 x.2.2] } h0
        (fun p hm => hall p (hp ▸ List.mem_cons_of_mem _ hm))
        (by rw [hp] at hn; simpa using hn)
      exact this

/-! ## The property -/

/-- after the expiry loop and `ll.closeAll()` nothing at all is left and the ledger is balanced to zero -/
theorem expiry_empties (s : State) (h : Inv s) (hq : Quiescent s)
    (hexp : ∀ c ∈ s.clients, c.lastSeen + s.lease < s.now) :
    let s1 := applyAll s (expireActs s)
    let s2 := applyAll s1 (List.replicate s1.pend.length Act.flush)
    s2.panic = none →
    s2.clients = [] ∧ s2.idle = [] ∧ s2.holders = [] ∧ s2.oowners = [] ∧ s2.lowners = [] ∧
    s2.files = [] ∧ s2.pool = [] ∧ s2.ios = [] ∧ s2.temps = [] ∧ s2.pend = [] ∧
    ∀ leaf bit, opens s2 leaf bit = closes s2 leaf bit := by
  intro s1 s2 hp2
  have hp1 : s1.panic = none := by rw [← applyAll_flush_panic s1.pend.length s1]; exact hp2
  have hcl1 : s1.clients = [] := expire_removes_all s h hq hexp hp1
  have q := Q_applyAll s _ (isExp_expireActs s)
  have htags : ∀ p ∈ s1.pend, p.1 = s1.cur := by
    intro p hm
    rcases q.pend p hm with h' | h'
    · rw [hq.noPend] at h'; cases h'
    · exact h'.trans q.cur.symm
  obtain ⟨f1, f2, f3, f4⟩ := flush_all s1.pend.length s1 hp1 htags rfl
  have hinv : Inv s2 := inv_applyAll _ _ (inv_applyAll s _ h)
  have hcl2 : s2.clients = [] := f2.trans hcl1
  have hio2 : s2.ios = [] := f3.trans (q.ios.trans hq.noIos)
  have htm2 : s2.temps = [] := f4.trans (q.temps.trans hq.noTemps)
  obtain ⟨e1, e2, e3, e4, e5, _, e7, e8⟩ := no_clients_empty s2 hinv hcl2
  exact ⟨hcl2, e1, e2, e3, e4, e7 hio2, e5, hio2, htm2, f1, e8 hio2 f1 htm2⟩

/-! ## Non-vacuity

A reachable state with one confirmed client record (one session), one open file, one
lock-owner with a lock-owner file holding a byte-range lock, whose lease has run out: the
hypotheses of `expiry_empties` hold, and the run does not panic. -/

def demoState : State := applyAll (init 41 1)
  [.newClient 5 0, .confirmClient 1, .addSession 1 7, .vopen 10 0 Mask.both false false, .openNew 10 1 3,
   .loRegister 1 9, .addLofs 2 3, .lockSet 2 4 ⟨0, 10, 0, .excl⟩, .tick 1000, .setNow]

example : Inv demoState := inv_reachable 41 1 _
example : Quiescent demoState := ⟨by decide, by rfl, by rfl, by rfl, by rfl⟩
example : ∀ c ∈ demoState.clients, c.lastSeen + demoState.lease < demoState.now := by decide
example : demoState.files.length = 1 ∧ demoState.lowners.length = 1 ∧ demoState.clients.length = 1 ∧
    demoState.pool.map (fun e => e.locks.length) = [1] := by decide
example : (expireActs demoState).length = 7 := by decide
example : (applyAll (applyAll demoState (expireActs demoState))
    (List.replicate (applyAll demoState (expireActs demoState)).pend.length Act.flush)).panic = none := by
  decide
example : (applyAll demoState (expireActs demoState)).pend.length = 1 := by decide

end BbRe.Lemmas.NfsExpiry
