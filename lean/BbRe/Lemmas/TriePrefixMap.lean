/-
The finite-map specification (Spec/PrefixMap.lean): lookup after `set`/`erase`, and what
`longestPrefix` returns.
-/
import BbRe.Spec.PrefixMap
namespace BbRe.Lemmas.TriePrefixMap
open BbRe.Spec.PrefixMap

theorem get_nil (k : Key) : get ([] : PrefixMap) k = none := rfl
theorem get_cons (k' : Key) (v : Nat) (r : PrefixMap) (k : Key) :
    get ((k', v) :: r) k = if k' = k then some v else get r k := rfl

theorem get_erase (m : PrefixMap) (k k' : Key) :
    get (erase m k) k' = if k' = k then none else get m k' := by
  induction m with
  | nil => simp [erase, get_nil]
  | cons e r ih =>
    obtain ⟨k0, v0⟩ := e
    have ih' : get (List.filter (fun e => decide (e.1 ≠ k)) r) k' = if k' = k then none else get r k' := ih
    simp only [erase, List.filter_cons]
    by_cases h0 : k0 = k
    · subst h0
      simp only [ne_eq, not_true_eq_false, decide_false, Bool.false_eq_true, if_false, ih', get_cons]
      by_cases h : k' = k0
      · simp [h]
      · have h' : ¬ k0 = k' := fun e => h e.symm
        simp [h, h']
    · simp only [ne_eq, h0, not_false_eq_true, decide_true, if_true, get_cons, ih']
      by_cases h : k0 = k'
      · subst h; simp [h0]
      · simp [h]

theorem get_set (m : PrefixMap) (k : Key) (v : Nat) (k' : Key) :
    get (set m k v) k' = if k' = k then some v else get m k' := by
  show get ((k, v) :: erase m k) k' = _
  simp only [get_cons, get_erase]
  by_cases h : k = k'
  · simp [h]
  · have h' : ¬ k' = k := fun e => h e.symm
    simp [h, h']

theorem toInt_nonneg_iff (o : Option Nat) : 0 ≤ toInt o ↔ o.isSome := by
  cases o <;> simp [toInt] <;> omega

theorem toInt_eq_neg_one_iff (o : Option Nat) : toInt o = -1 ↔ o = none := by
  cases o <;> simp [toInt] <;> omega

theorem toInt_ge (o : Option Nat) : -1 ≤ toInt o := by
  cases o <;> simp [toInt] <;> omega

theorem toInt_inj {a b : Option Nat} (h : toInt a = toInt b) : a = b := by
  cases a <;> cases b <;> simp [toInt] at h ⊢ <;> omega

/-- `longestPrefixFrom` returns the value of the longest `q <+: rest` with `pre ++ q` registered. -/
theorem longestPrefixFrom_some_iff (m : PrefixMap) (plat : Plat) (pre rest : List Comp) (v : Nat) :
    longestPrefixFrom m plat pre rest = some v ↔
      ∃ q, q <+: rest ∧ get m ⟨pre ++ q, plat⟩ = some v ∧
        ∀ q', q' <+: rest → q.length < q'.length → get m ⟨pre ++ q', plat⟩ = none := by
  induction rest generalizing pre v with
  | nil =>
    simp only [longestPrefixFrom, List.prefix_nil]
    constructor
    · intro h
      refine ⟨[], rfl, by simpa using h, ?_⟩
      intro q' hq' hl; subst hq'; simp at hl
    · rintro ⟨q, hq, hg, _⟩
      subst hq; simpa using hg
  | cons c cs ih =>
    simp only [longestPrefixFrom]
    cases hrec : longestPrefixFrom m plat (pre ++ [c]) cs with
    | some w =>
      obtain ⟨q, hq, hg, hmax⟩ := (ih (pre ++ [c]) w).1 hrec
      simp only
      constructor
      · intro h
        simp only [Option.some.injEq] at h; subst h
        refine ⟨c :: q, (List.cons_prefix_cons).2 ⟨rfl, hq⟩, by simpa [List.append_assoc] using hg, ?_⟩
        intro q' hq' hl
        cases q' with
        | nil => simp at hl
        | cons d ds =>
          obtain ⟨hd, hds⟩ := (List.cons_prefix_cons).1 hq'
          subst hd
          have := hmax ds hds (by simpa using hl)
          simpa [List.append_assoc] using this
      · rintro ⟨q2, hq2, hg2, hmax2⟩
        -- q2 must be c :: q
        cases q2 with
        | nil =>
          have := hmax2 (c :: q) ((List.cons_prefix_cons).2 ⟨rfl, hq⟩) (by simp)
          simp only [List.append_assoc, List.cons_append, List.nil_append] at hg this
          rw [this] at hg; cases hg
        | cons d ds =>
          obtain ⟨hd, hds⟩ := (List.cons_prefix_cons).1 hq2
          subst hd
          have h2 : longestPrefixFrom m plat (pre ++ [d]) cs = some v := by
            rw [ih]
            refine ⟨ds, hds, by simpa [List.append_assoc] using hg2, ?_⟩
            intro q' hq' hl
            have := hmax2 (d :: q') ((List.cons_prefix_cons).2 ⟨rfl, hq'⟩) (by simpa using hl)
            simpa [List.append_assoc] using this
          rw [hrec] at h2; exact h2
    | none =>
      simp only
      have hnone : ∀ q, q <+: cs → get m ⟨pre ++ [c] ++ q, plat⟩ = none := by
        intro q hq
        -- otherwise the recursive call would find a value
        cases hg : get m ⟨pre ++ [c] ++ q, plat⟩ with
        | none => rfl
        | some w =>
          exfalso
          -- pick the longest registered prefix: by strong induction on the remaining length
          have : ∃ w', longestPrefixFrom m plat (pre ++ [c]) cs = some w' := by
            clear hrec ih
            generalize hpc : pre ++ [c] = pc at hg
            clear hpc
            induction cs generalizing pc q with
            | nil =>
              have := List.prefix_nil.1 hq; subst this
              exact ⟨w, by simpa [longestPrefixFrom] using hg⟩
            | cons e es ihe =>
              simp only [longestPrefixFrom]
              cases q with
              | nil =>
                cases hr : longestPrefixFrom m plat (pc ++ [e]) es with
                | some w' => exact ⟨w', rfl⟩
                | none => exact ⟨w, by simpa using hg⟩
              | cons d ds =>
                obtain ⟨hd, hds⟩ := (List.cons_prefix_cons).1 hq
                subst hd
                obtain ⟨w', hw'⟩ := ihe ds hds (pc ++ [d]) (by simpa [List.append_assoc] using hg)
                exact ⟨w', by rw [hw']⟩
          obtain ⟨w', hw'⟩ := this
          rw [hrec] at hw'; cases hw'
      constructor
      · intro h
        refine ⟨[], List.nil_prefix, by simpa using h, ?_⟩
        intro q' hq' hl
        cases q' with
        | nil => simp at hl
        | cons d ds =>
          obtain ⟨hd, hds⟩ := (List.cons_prefix_cons).1 hq'
          subst hd
          simpa [List.append_assoc] using hnone ds hds
      · rintro ⟨q2, hq2, hg2, _⟩
        cases q2 with
        | nil => simpa using hg2
        | cons d ds =>
          obtain ⟨hd, hds⟩ := (List.cons_prefix_cons).1 hq2
          subst hd
          have := hnone ds hds
          simp only [List.append_assoc, List.cons_append, List.nil_append] at this hg2
          rw [this] at hg2; cases hg2

theorem longestPrefixFrom_none_iff (m : PrefixMap) (plat : Plat) (pre rest : List Comp) :
    longestPrefixFrom m plat pre rest = none ↔ ∀ q, q <+: rest → get m ⟨pre ++ q, plat⟩ = none := by
  constructor
  · intro h q hq
    cases hg : get m ⟨pre ++ q, plat⟩ with
    | none => rfl
    | some w =>
      exfalso
      -- among the registered prefixes take a longest one
      have : ∀ n, ∀ q, q <+: rest → rest.length - q.length ≤ n → (∃ w, get m ⟨pre ++ q, plat⟩ = some w) →
          ∃ v, longestPrefixFrom m plat pre rest = some v := by
        intro n
        induction n with
        | zero =>
          intro q hq hn ⟨w, hw⟩
          refine ⟨w, (longestPrefixFrom_some_iff m plat pre rest w).2 ⟨q, hq, hw, ?_⟩⟩
          intro q' hq' hl
          have := hq'.length_le
          omega
        | succ n ihn =>
          intro q hq hn ⟨w, hw⟩
          by_cases hex : ∃ q', q' <+: rest ∧ q.length < q'.length ∧ ∃ w', get m ⟨pre ++ q', plat⟩ = some w'
          · obtain ⟨q', hq', hl, hw'⟩ := hex
            exact ihn q' hq' (by omega) hw'
          · refine ⟨w, (longestPrefixFrom_some_iff m plat pre rest w).2 ⟨q, hq, hw, ?_⟩⟩
            intro q' hq' hl
            cases hg' : get m ⟨pre ++ q', plat⟩ with
            | none => rfl
            | some w' => exact absurd ⟨q', hq', hl, w', hg'⟩ hex
      obtain ⟨v, hv⟩ := this rest.length q hq (by omega) ⟨w, hg⟩
      rw [h] at hv; cases hv
  · intro h
    cases hr : longestPrefixFrom m plat pre rest with
    | none => rfl
    | some v =>
      obtain ⟨q, hq, hg, _⟩ := (longestPrefixFrom_some_iff m plat pre rest v).1 hr
      rw [h q hq] at hg; cases hg

end BbRe.Lemmas.TriePrefixMap
