import BbRe.Model.Idle
import BbRe.Model.BuildDirs
import BbRe.Lemmas.Idle
import BbRe.Lemmas.IdleDirs
/-!
Invariant of the coupled system `BbRe.Worker` (invoker + build directories):
both components stay reachable in their own transition systems and every
directory thread between `begin` and `release` is a user of the invoker.
-/
namespace BbRe.Lemmas.IdleWorker
open BbRe
open BbRe.Lemmas.Idle BbRe.Lemmas.IdleDirs

/-- A user stays a user in every invoker step except its own `Release`. -/
theorem step_keeps_inUse {i i' : Idle.State} (op : Idle.Op) (hs : Idle.step i op = some i')
    (x : Nat) (hx : i.pc x = .inUse) : op = .releaseEnter x ∨ i'.pc x = .inUse := by
  have body : ∀ t, i.pc t ≠ .inUse → (Idle.acquireBody i t).pc x = .inUse := by
    intro t ht
    have hne : x ≠ t := fun e => ht (e ▸ hx)
    unfold Idle.acquireBody
    split
    · simp [hne, hx]
    · split
      · unfold Idle.startClean
        split <;> simp [hne, hx]
      · simp [hne, hx]
  cases op with
  | acquireEnter t =>
    right
    simp only [Idle.step] at hs
    split at hs
    · cases hs
    · split at hs
      · rename_i hpc; cases hs; exact body t (by rw [hpc]; simp)
      · cases hs
  | wake t =>
    right
    simp only [Idle.step] at hs
    split at hs
    · cases hs
    · split at hs
      · rename_i c hpc
        split at hs
        · cases hs; exact body t (by rw [hpc]; simp)
        · cases hs
      · cases hs
  | cancel t =>
    right
    simp only [Idle.step] at hs
    split at hs
    · cases hs
    · split at hs
      · rename_i c hpc
        cases hs
        have hne : x ≠ t := by intro e; subst e; rw [hpc] at hx; cases hx
        simp [hne, hx]
      · cases hs
  | cleanDone t ok =>
    right
    simp only [Idle.step] at hs
    split at hs
    · cases hs
    · split at hs
      · cases hs
      · split at hs
        · rename_i hpc
          have hne : x ≠ t := by intro e; subst e; rw [hpc] at hx; cases hx
          split at hs <;> cases hs <;> simp [hne, hx]
        · rename_i hpc
          have hne : x ≠ t := by intro e; subst e; rw [hpc] at hx; cases hx
          cases hs; simp [hne, hx]
        · cases hs
  | releaseEnter t =>
    by_cases e : x = t
    · left; rw [e]
    · right
      simp only [Idle.step] at hs
      split at hs
      · cases hs
      · split at hs
        · split at hs
          · cases hs; exact hx
          · split at hs
            · cases hs; simp [e, hx]
            · cases hs
              unfold Idle.startClean
              split <;> simp [e, hx]
        · cases hs

/-- Plain directory operations never turn a non-user into a user. -/
theorem plain_keeps_nonuser {d d' : BuildDirs.State} (op : BuildDirs.Op) (hp : Worker.plainDirOp op = true)
    (hs : BuildDirs.step d op = some d') (x : Nat) (hx : BuildDirs.DPC.user (d'.pc x) = true) :
    BuildDirs.DPC.user (d.pc x) = true := by
  cases op <;> simp only [Worker.plainDirOp] at hp <;> simp only [BuildDirs.step] at hs <;>
    (try cases hp) <;> split at hs <;>
    (try (split at hs)) <;> (try cases hs) <;>
    (first
      | exact hx
      | (simp only [IdleDirs.setPc_pc] at hx
         split at hx
         · rename_i e; subst e; simp_all [BuildDirs.DPC.user]
         · exact hx))

structure WInv (s : Worker.State) : Prop where
  idle : Idle.Reachable s.idle
  dirs : BuildDirs.Reachable s.dirs
  coupled : ∀ t, BuildDirs.DPC.user (s.dirs.pc t) = true → s.idle.pc t = .inUse

/-- While a cleaner call runs no directory thread is a user, so emptying the
root is an enabled `clean` step of `Model/BuildDirs.lean`. -/
theorem no_dir_users_while_cleaning {s : Worker.State} (h : WInv s) (t : Nat)
    (ht : (s.idle.pc t).cleaning = true) :
    (∀ x, BuildDirs.DPC.user (s.dirs.pc x) = false) ∧ s.dirs.active = 0 := by
  have inv := inv_reachable h.idle
  have hw : s.idle.wakeup ≠ none := by
    intro hw; rw [inv.cleanNone hw t] at ht; cases ht
  have nouse : ∀ x, s.idle.pc x ≠ .inUse := by
    intro x hx
    obtain ⟨l, _, hl2, hl3⟩ := inv.users
    have hmem := (hl2 x).2 hx
    rw [inv.useZero hw] at hl3
    rw [List.eq_nil_of_length_eq_zero hl3.symm] at hmem
    cases hmem
  have nodir : ∀ x, BuildDirs.DPC.user (s.dirs.pc x) = false := by
    intro x
    cases hu : BuildDirs.DPC.user (s.dirs.pc x)
    · rfl
    · exact absurd (h.coupled x hu) (nouse x)
  refine ⟨nodir, ?_⟩
  obtain ⟨l, _, h2, h3⟩ := (dinv_reachable h.dirs).users
  cases l with
  | nil => simpa using h3
  | cons a l =>
    have := (h2 a).1 (List.mem_cons_self ..)
    rw [nodir a] at this; cases this

theorem winv_init : WInv Worker.init :=
  ⟨.init, .init, by intro t h; simp [Worker.init, BuildDirs.init, BuildDirs.DPC.user] at h⟩

theorem winv_step {s s' : Worker.State} (h : WInv s) (hs : Worker.Step s s') : WInv s' := by
  cases hs with
  | idle op i' hstep hrel hnc =>
    refine ⟨.step op h.idle hstep, h.dirs, ?_⟩
    intro x hx
    rcases step_keeps_inUse op hstep x (h.coupled x hx) with e | e
    · have := hrel x e
      rw [this] at hx; cases hx
    · exact e
  | «begin» t d d' hin hstep =>
    refine ⟨h.idle, .step _ h.dirs hstep, ?_⟩
    intro x hx
    simp only [BuildDirs.step] at hstep
    split at hstep
    · cases hstep
      simp only [IdleDirs.setPc_pc] at hx
      split at hx
      · rename_i e; subst e; exact hin
      · exact h.coupled x hx
    · cases hstep
  | dir op d' hp hstep =>
    exact ⟨h.idle, .step _ h.dirs hstep, fun x hx => h.coupled x (plain_keeps_nonuser op hp hstep x hx)⟩
  | release t i' d' hi hd =>
    refine ⟨.step _ h.idle hi, .step _ h.dirs hd, ?_⟩
    intro x hx
    simp only [BuildDirs.step] at hd
    split at hd
    · cases hd
      simp only [IdleDirs.setPc_pc] at hx
      split at hx
      · simp [BuildDirs.DPC.user] at hx
      · rename_i e
        rcases step_keeps_inUse _ hi x (h.coupled x hx) with e' | e'
        · cases e'; exact absurd rfl e
        · exact e'
    · cases hd
  | cleanDone t ok i' hi =>
    have hclean : (s.idle.pc t).cleaning = true := by
      have inv := inv_reachable h.idle
      simp only [Idle.step] at hi
      simp only [inv.noPanic, Bool.false_eq_true, ↓reduceIte] at hi
      split at hi
      · cases hi
      · split at hi
        · rename_i hpc; rw [hpc]; rfl
        · rename_i hpc; rw [hpc]; rfl
        · cases hi
    have hact := (no_dir_users_while_cleaning h t hclean).2
    have hd : BuildDirs.step s.dirs (.clean ok) =
        some (if ok then { s.dirs with root := [] } else s.dirs) := by
      simp only [BuildDirs.step, hact, ↓reduceIte]
      cases ok <;> rfl
    refine ⟨.step _ h.idle hi, .step _ h.dirs hd, ?_⟩
    intro x hx
    have hx' : BuildDirs.DPC.user (s.dirs.pc x) = true := by
      cases ok <;> exact hx
    rcases step_keeps_inUse _ hi x (h.coupled x hx') with e | e
    · cases e
    · exact e

theorem winv_reachable {s : Worker.State} (h : Worker.Reachable s) : WInv s := by
  induction h with
  | init => exact winv_init
  | step _ hs ih => exact winv_step ih hs

end BbRe.Lemmas.IdleWorker
