import BbRe.Model.FilePool
/-!
Helper lemmas for `Model/FilePool.lean`: the byte store, the abstract allocator
(`Env.alloc`, `Env.freeList`), and the list functions on sector lists.
-/
namespace BbRe.Lemmas.FilePool
open BbRe.FilePool

/-! ## Block device -/

theorem rd_setByte (dev : Array Byte) (i : Nat) (b : Byte) (j : Nat) :
    rd (setByte dev i b) j = if j = i then b else rd dev j := by
  unfold rd setByte
  split
  · simp [Array.getD_eq_getD_getElem?, Array.getElem?_setIfInBounds]
    split <;> simp_all
    · omega
  · rename_i h
    simp [Array.getD_eq_getD_getElem?, Array.getElem?_push, Array.getElem?_append]
    by_cases h1 : j < dev.size
    · have : j ≠ i := by omega
      simp [h1, this]
    · by_cases h2 : j = i
      · subst h2; simp [h1]
      · have h3 : ¬ (j - dev.size = i - dev.size) := by omega
        simp [h1, h2, h3, Array.getElem?_replicate]
        split <;> simp

/-- Pointwise specification of a device write. -/
theorem rd_writeBytes (p : List Byte) : ∀ (dev : Array Byte) (off i : Nat),
    rd (writeBytes dev off p) i =
      if off ≤ i ∧ i < off + p.length then p.getD (i - off) 0 else rd dev i := by
  induction p with
  | nil => intro dev off i; simp [writeBytes]; omega
  | cons b bs ih =>
    intro dev off i
    simp only [writeBytes, ih, rd_setByte, List.length_cons]
    by_cases h1 : i = off
    · subst h1
      have : ¬ (i + 1 ≤ i ∧ i < i + 1 + bs.length) := by omega
      simp [this]
    · by_cases h2 : off + 1 ≤ i ∧ i < off + 1 + bs.length
      · have h3 : off ≤ i ∧ i < off + (bs.length + 1) := by omega
        have h4 : i - off = (i - (off+1)) + 1 := by omega
        simp [h2, h3, h4]
      · have h3 : ¬ (off ≤ i ∧ i < off + (bs.length + 1)) := by omega
        simp [h2, h3, h1]

theorem rd_writeBytes_outside (p : List Byte) (dev : Array Byte) (off i : Nat)
    (h : i < off ∨ off + p.length ≤ i) : rd (writeBytes dev off p) i = rd dev i := by
  rw [rd_writeBytes]; split
  · omega
  · rfl

theorem readBytes_length (dev : Array Byte) (off n : Nat) : (readBytes dev off n).length = n := by
  simp [readBytes]

theorem readBytes_getD (dev : Array Byte) (off n j : Nat) (h : j < n) :
    (readBytes dev off n).getD j 0 = rd dev (off + j) := by
  simp [readBytes, List.getD_eq_getElem?_getD, h]

theorem holeBytes_length (h : Hole) (off n : Nat) : (h.bytes off n).length = n := by
  simp [Hole.bytes]

theorem holeBytes_getD (h : Hole) (off n j : Nat) (hj : j < n) :
    (h.bytes off n).getD j 0 = h.read (off + j) := by
  simp [Hole.bytes, List.getD_eq_getElem?_getD, hj]

/-! ## Non-zero entries of a sector list -/

def nz (l : List Nat) : List Nat := l.filter (· ≠ 0)

theorem mem_nz {l : List Nat} {s : Nat} : s ∈ nz l ↔ s ∈ l ∧ s ≠ 0 := by
  simp [nz, List.mem_filter]

theorem nz_append (a b : List Nat) : nz (a ++ b) = nz a ++ nz b := by
  simp [nz, List.filter_append]

theorem nz_replicate_zero (k : Nat) : nz (List.replicate k 0) = [] := by
  simp [nz, List.filter_eq_nil_iff]

/-! ## Freeing -/

theorem foldl_freeOne (L : List Nat) : ∀ (A : List Nat) (d : Bool), A.Nodup →
    (∀ s ∈ L, s ≠ 0 → s ∈ A) → (nz L).Nodup →
    (L.foldl freeOne (A, d)).2 = d ∧ (L.foldl freeOne (A, d)).1.Nodup ∧
      ∀ s, s ∈ (L.foldl freeOne (A, d)).1 ↔ (s ∈ A ∧ ¬ (s ∈ L ∧ s ≠ 0)) := by
  induction L with
  | nil => intro A d hA _ _; simp [hA]
  | cons x xs ih =>
    intro A d hA hsub hnd
    simp only [List.foldl_cons]
    by_cases hx : x = 0
    · subst hx
      have h1 : freeOne (A, d) 0 = (A, d) := by simp [freeOne]
      rw [h1]
      have hnd' : (nz xs).Nodup := by simpa [nz] using hnd
      obtain ⟨a, b, c⟩ := ih A d hA (fun s hs h0 => hsub s (List.mem_cons_of_mem _ hs) h0) hnd'
      refine ⟨a, b, fun s => ?_⟩
      rw [c]
      constructor
      · rintro ⟨h1, h2⟩; refine ⟨h1, ?_⟩; rintro ⟨h3, h4⟩
        rcases List.mem_cons.mp h3 with h5 | h5
        · exact h4 h5
        · exact h2 ⟨h5, h4⟩
      · rintro ⟨h1, h2⟩; exact ⟨h1, fun ⟨h3, h4⟩ => h2 ⟨List.mem_cons_of_mem _ h3, h4⟩⟩
    · have hxA : x ∈ A := hsub x (List.mem_cons_self) hx
      have h1 : freeOne (A, d) x = (A.erase x, d) := by simp [freeOne, hx, hxA]
      rw [h1]
      have hnd2 : (x :: nz xs).Nodup := by simpa [nz, hx] using hnd
      have hnd' : (nz xs).Nodup := (List.nodup_cons.mp hnd2).2
      have hxn : x ∉ nz xs := (List.nodup_cons.mp hnd2).1
      have hA' : (A.erase x).Nodup := hA.erase x
      obtain ⟨a, b, c⟩ := ih (A.erase x) d hA' (by
        intro s hs h0
        have : s ≠ x := by
          intro e; subst e; exact hxn (mem_nz.mpr ⟨hs, h0⟩)
        exact (List.Nodup.mem_erase_iff hA).mpr ⟨this, hsub s (List.mem_cons_of_mem _ hs) h0⟩) hnd'
      refine ⟨a, b, fun s => ?_⟩
      rw [c, List.Nodup.mem_erase_iff hA]
      constructor
      · rintro ⟨⟨h1, h2⟩, h3⟩; refine ⟨h2, ?_⟩; rintro ⟨h4, h5⟩
        rcases List.mem_cons.mp h4 with h6 | h6
        · exact h1 h6
        · exact h3 ⟨h6, h5⟩
      · rintro ⟨h1, h2⟩
        refine ⟨⟨?_, h1⟩, fun ⟨h3, h4⟩ => h2 ⟨List.mem_cons_of_mem _ h3, h4⟩⟩
        intro e; subst e; exact h2 ⟨List.mem_cons_self, hx⟩

end BbRe.Lemmas.FilePool
