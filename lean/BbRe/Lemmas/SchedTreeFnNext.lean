import BbRe.Lemmas.SchedTreeFnDefs
/-!
`worker.assignNextQueuedTask`, `getNextTask`, `getCurrentOrNextTask` at the level of the tree layer's
functions: the tree part of the invariant is kept by `tAssignNext`, `tGetNextTask`, `tGetCurrentOrNext`.
-/
namespace BbRe.Lemmas.SchedTree
open BbRe.Sched BbRe.SchedTree BbRe.Lemmas.SchedInv

/-- what membership in `queuedTasks` says (more than `mem_queuedTasks`: also the queue and the flag) -/
private theorem mem_queuedTasks' {s : State} {q : ScqId} {t : Task} (hn : (keys s.tasks).Nodup)
    (h : t ∈ queuedTasks s q) :
    ∃ k, alookup k s.tasks = some t ∧ t.scq = q ∧ t.queued = true ∧ t.worker = none ∧ t.response = none := by
  unfold queuedTasks at h
  simp only [List.mem_map, List.mem_filter] at h
  obtain ⟨⟨k, t'⟩, ⟨hm, hp⟩, rfl⟩ := h
  simp only [decide_eq_true_eq] at hp
  refine ⟨k, alookup_of_mem hn hm, hp.1, hp.2.1, ?_, ?_⟩
  · simpa using hp.2.2.1
  · simpa using hp.2.2.2

/-- `worker.assignNextQueuedTask` keeps the tree part of the invariant -/
theorem tAssignNext_ts {h : Hints} {x : Extras} {ts ts' : TState} {w : Worker} {got : Bool} (hI : TInv ts)
    (hw : wfind ts.s.workers w.scq w.id = some w) (hwt : w.task = none) (hwp : w.parked = false)
    (hh : tAssignNext h x ts w = .ok (ts', got)) : TS [] ts' := by
  unfold tAssignNext at hh
  split at hh
  · rename_i a _
    split at hh
    · rename_i t hf
      have hm := List.mem_of_find?_eq_some hf
      obtain ⟨k, hk, hsq, hq, htw, hr⟩ := mem_queuedTasks' hI.inv.core.tnd hm
      have hid : t.id = k := (hI.inv.core.tid k t hk).1
      have ht : alookup t.id ts.s.tasks = some t := by rw [hid]; exact hk
      split at hh
      · rename_i c hc
        unfold tAssignTo at hh
        simp only [log_s, assignTo_eq, hwt, htw, Option.isSome_none, Bool.false_eq_true, if_false, ok_bind',
          pure_bind] at hh
        have ht1 : alookup t.id (assignSt ts.s w t).tasks =
            some { t with worker := some (w.scq, w.id), retry := 0, queued := false } := by
          simp only [assignSt, State.setTask, setWorker_eq]; rw [alookup_aset, if_pos rfl]
        simp only [deqOps_s, setS_s, task?_def, ht1, pure_ok, Except.ok.injEq, Prod.mk.injEq] at hh
        obtain ⟨hh, -⟩ := hh
        subst hh
        have hT := hI.x.log (.pick w.scq w.id t.id (snapshot ts.opOf ts.nodes w.scq) (ts.view w) c.1 c.2)
        have hM := hI.x.inv
        exact pick_ts (t2 := bumpGen { t with worker := some (w.scq, w.id), retry := 0, queued := false })
          (r := c.2) hT hw hwt hwp ht htw hq hsq.symm (hM.oinv.o3 _ _ ht).1
          (fun k' t' hk' o ho ho' => hM.oinv.own k' t' t.id t o hk' ht ho ho')
          ⟨rfl, rfl, rfl, rfl, rfl⟩
          (by simp only [State.setTask, assignSt, setWorker_eq, bumpGen, aset_aset]; rfl)
          (by simp only [State.setTask, assignSt, setWorker_eq]; rfl) rfl rfl
      · cases hh
    · cases hh
  · split at hh
    · split at hh
      · cases hh
      · cases hh; exact hI.ts
    · cases hh

/-- the `Sched` facts about the result of `tAssignNext` (from `assignNext_spec` through the refinement) -/
theorem tAssignNext_post {h : Hints} {x : Extras} {ts ts' : TState} {w : Worker} {got : Bool} (hI : Inv ts.s)
    (hw : wfind ts.s.workers w.scq w.id = some w) (hwt : w.task = none) (hwp : w.parked = false)
    (hwd : w.drainWait = none) (hh : tAssignNext h x ts w = .ok (ts', got)) :
    Inv ts'.s ∧ (got = false → ts'.s = ts.s) ∧
      (got = true → ∃ tid, wfind ts'.s.workers w.scq w.id = some { w with task := some tid }) := by
  have h1 := wp_of_ok (assignNext_spec (h := h) hI hw hwt hwp hwd) (tAssignNext_ref h x ts w ts' got hh)
  exact ⟨h1.1, h1.2.2.2.1, h1.2.2.2.2⟩

/-- `return ts.setS (syncReturn s1 q w)` where `s1` is a frame step away from `ts.s` and the worker is not
parked -/
private theorem syncReturn_ts {ex} {X : List (ScqId × List Nat)} {ts : TState} {s1 : State} {q : ScqId} {w : WId}
    (hT : TS X ts) (hf : SFrame ts.s s1) (hM : MInv ex s1)
    (hnp : ∀ wk, wfind ts.s.workers q w = some wk → wk.parked = false) :
    TS X (ts.setS (syncReturn s1 q w)) := by
  have hT1 : TInvX ex (fun _ => False) X (ts.setS s1) := ⟨hM, TreeOK.of_sframe hT.tree hf, Side.of_sframe hT.side hf⟩
  rw [syncReturn_eq]
  cases hw : s1.worker? q w with
  | none => exact hT1.ts
  | some wk =>
    dsimp only
    simp only [worker?_def] at hw
    have hp : wk.parked = false := hnp wk (by rw [← hf.workers]; exact hw)
    have h2 : TS X ((ts.setS s1).setS (s1.setWorker (resetW wk))) :=
      wset_ts (wk := wk) (wk' := resetW wk) hT1 hw ⟨rfl, rfl, rfl, hp.symm⟩ rfl rfl rfl
        (fun o op' ho => ⟨op', ho, rfl, rfl⟩)
    have hf3 : SFrame ((ts.setS s1).setS (s1.setWorker (resetW wk))).s
        { s1.setWorker (resetW wk) with cleanup := ⟨s1.now + s1.cfg.workerTimeout, .worker q w⟩ :: s1.cleanup } :=
      SFrame.of_eq rfl rfl rfl rfl rfl rfl
    have h3 : TS X (((ts.setS s1).setS (s1.setWorker (resetW wk))).setS
        { s1.setWorker (resetW wk) with cleanup := ⟨s1.now + s1.cfg.workerTimeout, .worker q w⟩ :: s1.cleanup }) :=
      ⟨TreeOK.of_sframe h2.tree hf3, Side.of_sframe h2.side hf3⟩
    exact h3

private theorem execResponse_next {s s' : State} {w : Worker} (h : execResponse s w = .ok s') :
    s'.nextTask = s.nextTask ∧ s'.nextOp = s.nextOp := by
  unfold execResponse at h
  tpaths h
  cases h; exact ⟨rfl, rfl⟩

/-- `getNextTask` keeps the tree part of the invariant -/
theorem nextOK : NextOK := by
  intro h x ts ts' q w wk pi bl hI hw hr hh
  have hk := wfind_key hw
  have hw' : wfind ts.s.workers wk.scq wk.id = some wk := by rw [hk.1, hk.2]; exact hw
  have hM : MInv (fun _ => False) ts.s := hI.x.inv
  have hidle : ∀ e, TS [] (ts.setS (syncReturn (emit ts.s e) q w)) := fun e =>
    syncReturn_ts hI.ts (emit_sframe _ _) (hM.of_eq rfl rfl rfl rfl)
      (fun wk1 h1 => by rw [hw] at h1; cases h1; exact hr.parked)
  unfold tGetNextTask at hh
  simp only [worker?_def, hw] at hh
  split at hh
  · rename_i sq hsq
    by_cases hpi : pi = true
    · simp only [hpi, if_true, pure_ok, Except.ok.injEq] at hh
      subst hh; exact hidle _
    · simp only [hpi, Bool.false_eq_true, if_false] at hh
      by_cases hd : isDrained sq wk = true
      · simp only [hd, Bool.not_true, Bool.false_eq_true, if_false] at hh
        by_cases hb : bl = true
        · simp only [hb, Bool.not_true, Bool.false_eq_true, if_false, pure_ok, Except.ok.injEq] at hh
          subst hh
          exact wset_ts
            (wk' := { wk with drainWait := some sq.undrainGen, timer := some (wk.timer.getD (ts.s.now + ts.s.cfg.idleInterval)) })
            hI.x hw ⟨rfl, rfl, rfl, rfl⟩ rfl rfl rfl (fun o op' ho => ⟨op', ho, rfl, rfl⟩)
        · simp only [hb, Bool.not_false, if_true, pure_ok, Except.ok.injEq] at hh
          subst hh; exact hidle _
      · simp only [hd, Bool.not_false, if_true] at hh
        cases ha : tAssignNext h x ts wk with
        | error e => rw [ha] at hh; cases hh
        | ok r =>
          obtain ⟨ts1, got⟩ := r
          rw [ha] at hh
          simp only [ok_bind'] at hh
          have hT1 : TS [] ts1 := tAssignNext_ts hI hw' hr.task hr.parked ha
          obtain ⟨hI1, hf, hg⟩ := tAssignNext_post hI.inv hw' hr.task hr.parked hr.drainWait ha
          have hM1 : MInv (fun _ => False) ts1.s := MInv.of_inv hI1
          cases got with
          | true =>
            obtain ⟨tid, hw1⟩ := hg rfl
            generalize hwk1 : ({ wk with task := some tid } : Worker) = wk1 at hw1
            have hp1 : wk1.parked = false := by rw [← hwk1]; exact hr.parked
            rw [hk.1, hk.2] at hw1
            simp only [if_true, hw1] at hh
            cases he : execResponse ts1.s wk1 with
            | error e => rw [he] at hh; cases hh
            | ok s2 =>
              rw [he] at hh
              simp only [ok_bind', pure_ok, Except.ok.injEq] at hh
              subst hh
              have hf2 := execResponse_sframe he
              exact syncReturn_ts hT1 hf2
                (hM1.of_eq hf2.tasks hf2.workers (execResponse_next he).1 (execResponse_next he).2)
                (fun wk2 h1 => by rw [hw1] at h1; cases h1; exact hp1)
          | false =>
            have hs1 := hf rfl
            have hw1 : wfind ts1.s.workers q w = some wk := by rw [hs1]; exact hw
            simp only [Bool.false_eq_true, if_false] at hh
            by_cases hb : bl = true
            · simp only [hb, Bool.not_true, Bool.false_eq_true, if_false, hw1, hr.parked, pure_ok,
                Except.ok.injEq] at hh
              subst hh
              exact park_ts
                (wk' := { wk with parked := true, woken := false, timer := some (wk.timer.getD (ts1.s.now + ts1.s.cfg.idleInterval)) })
                (TInvX.mk' (exo := fun _ => False) hM1 hT1) hw1 hr.task hr.parked ⟨rfl, rfl, hr.task, rfl⟩ rfl rfl rfl rfl
            · simp only [hb, Bool.not_false, if_true, pure_ok, Except.ok.injEq] at hh
              subst hh
              exact syncReturn_ts hT1 (emit_sframe _ _) (hM1.of_eq rfl rfl rfl rfl)
                (fun wk1 h1 => by rw [hw1] at h1; cases h1; exact hr.parked)
  · cases hh

/-- `getCurrentOrNextTask` keeps the tree part of the invariant, provided `task.complete` does -/
theorem curOK (hC : CompleteOK) : CurOK := by
  intro h x ts ts' q w wk pi bl hI hw hr hh
  unfold tGetCurrentOrNext at hh
  simp only [worker?_def, hw] at hh
  cases hwt : wk.task with
  | none =>
    simp only [hwt] at hh
    exact nextOK h x ts ts' q w wk pi bl hI hw ⟨hr.parked, hr.woken, hwt, hr.drainWait, hr.inSync⟩ hh
  | some tid =>
    simp only [hwt] at hh
    obtain ⟨t, ht, htw⟩ := hI.inv.core.p1 q w wk tid hw hwt
    simp only [task?_def, ht] at hh
    have hid : t.id = tid := (hI.inv.core.tid tid t ht).1
    by_cases hret : t.retry < ts.s.cfg.retryCount
    · simp only [hret, if_true, pure_ok, Except.ok.injEq] at hh
      subst hh
      have hI1 : Inv (ts.s.setTask { t with retry := t.retry + 1 }) := setRetry_inv (n := t.retry + 1) hI.inv ht
      have ht' : alookup t.id ts.s.tasks = some t := by rw [hid]; exact ht
      have h1 : TS [] (ts.setS (ts.s.setTask { t with retry := t.retry + 1 })) :=
        taskset_ts (t' := { t with retry := t.retry + 1 }) hI.x ht' ⟨rfl, rfl, rfl, rfl, rfl⟩ rfl rfl rfl
          (fun o op' ho => ⟨op', ho, rfl, rfl⟩)
      have h2 := syncReturn_ts (ts := ts.setS (ts.s.setTask { t with retry := t.retry + 1 })) (q := q) (w := w) h1
        (emit_sframe _ (.syncExecute q w t.digest (ts.s.now + ts.s.cfg.busyInterval)))
        ((MInv.of_inv hI1).of_eq rfl rfl rfl rfl)
        (fun wk1 hw1 => by
          have : wfind ts.s.workers q w = some wk1 := hw1
          rw [hw] at this; cases this; exact hr.parked)
      exact h2
    · simp only [hret, if_false] at hh
      cases hc : tComplete h x ts tid ⟨cInternal, 0, 0, .retryLimit⟩ false with
      | error e => rw [hc] at hh; cases hh
      | ok ts1 =>
        rw [hc] at hh
        simp only [ok_bind'] at hh
        have hex : (alookup tid ts.s.tasks).isSome = true := by rw [ht]; rfl
        have hT1 : TS [] ts1 := hC h x ts ts1 tid _ false hI hex hc
        obtain ⟨hI1, hcp, -, -⟩ := inv_of_ref (tComplete_ref h x ts tid _ false) (complete_spec (h := h) hI.inv hex) hc
        have hw1 := complete_clears hI.inv hI1 hcp hw hwt hr.parked
        exact nextOK h x ts1 ts' q w _ pi bl (TInv.mk' hI1 hT1) hw1
          ⟨hr.parked, hr.woken, rfl, hr.drainWait, hr.inSync⟩ hh

end BbRe.Lemmas.SchedTree
