import BbRe.Model.NaiveDir
import BbRe.Lemmas.InputRootFetch
/-!
The eager merge (`Model/NaiveDir.lean`), one directory level: if the walk of a directory
ends without an error of the walker and without a failed download, its three loops have
accepted exactly a well-formed Directory message and created exactly its entries.
-/
namespace BbRe.Lemmas.NaiveDir
open BbRe.InputRoot BbRe.NaiveDir BbRe.Lemmas.InputRoot

/-- A loop that ends clean has appended one entry per element, each under a valid, fresh name. -/
theorem loop_ok {α : Type} (step : α → Children → Bool → StepR) (nameOf : α → Name)
    (mk : α → Option Node) (P : α → Prop)
    (H : ∀ e ch bad ch', step e ch bad = .next ch' false →
      bad = false ∧ validName (nameOf e) = true ∧ hasName ch (nameOf e) = false ∧
      (∃ v, mk e = some v ∧ ch' = ch ++ [(nameOf e, v)]) ∧ P e) :
    ∀ (es : List α) (ch : Children) (bad : Bool) (ch' : Children),
      loop step es ch bad = ⟨ch', false, none⟩ →
      bad = false ∧ GoodList nameOf mk es ch ∧ ch' = ch ++ conv nameOf mk es ∧ ∀ e ∈ es, P e := by
  intro es
  induction es with
  | nil =>
    intro ch bad ch' h
    simp only [loop, R.mk.injEq] at h
    exact ⟨h.2.1, ⟨by simp, by simp, by simp⟩, by simp [conv, h.1], by simp⟩
  | cons e rest ih =>
    intro ch bad ch' h
    simp only [loop] at h
    cases hs : step e ch bad with
    | stop c1 b1 err => simp [hs] at h
    | next ch1 b1 =>
      simp only [hs] at h
      obtain ⟨hb1, hgood, hch', hP⟩ := ih ch1 b1 ch' h
      subst hb1
      obtain ⟨hbad, hval, hfresh, ⟨v, hv, hch1⟩, hPe⟩ := H e ch bad ch1 hs
      subst hch1
      obtain ⟨g1, g2, g3⟩ := hgood
      refine ⟨hbad, ⟨?_, ?_, ?_⟩, ?_, ?_⟩
      · intro e' he'
        rcases List.mem_cons.1 he' with rfl | he'
        · exact ⟨hval, by simp [hv]⟩
        · exact g1 e' he'
      · simp only [List.map_cons, List.nodup_cons]
        refine ⟨?_, g2⟩
        intro hmem
        obtain ⟨e', he', heq⟩ := List.mem_map.1 hmem
        have := g3 e' he'
        rw [hasName_append, hasName_single, heq] at this
        simp at this
      · intro e' he'
        rcases List.mem_cons.1 he' with rfl | he'
        · exact hfresh
        · have := g3 e' he'
          rw [hasName_append] at this
          simp only [Bool.or_eq_false_iff] at this
          exact this.1
      · rw [hch']
        simp [conv, hv]
      · intro e' he'
        rcases List.mem_cons.1 he' with rfl | he'
        · exact hPe
        · exact hP e' he'

theorem hasName_of_lookup_none (ch : Children) (x : Name) (h : lookup ch x = none) :
    hasName ch x = false := by simp [hasName, h]

/-- Every call made for a file entry succeeded: the file could be created, the blob was
read from the storage, `Chtimes` worked. -/
def FileCalls (c : CAS) (O : Oracle) (p : Path) (e : FileNode) : Prop :=
  ∃ d, parseDigest c.hashLen e.digest = some d ∧ O.fails .create (p ++ [e.name]) = false ∧
    O.cas.contains d = false ∧ (assoc c.blobs d).isSome = true ∧ O.fails .chtimes (p ++ [e.name]) = false

/-- `Mkdir` and `EnterDirectory` of a directory entry succeeded. -/
def DirCalls (O : Oracle) (p : Path) (e : DirNode) : Prop :=
  O.fails .mkdir (p ++ [e.name]) = false ∧ O.fails .enter (p ++ [e.name]) = false

/-- `Symlink` of a symlink entry succeeded. -/
def SymCalls (O : Oracle) (p : Path) (e : SymNode) : Prop := O.fails .symlink (p ++ [e.name]) = false

theorem fileStep_next (c : CAS) (O : Oracle) (p : Path) (e : FileNode) (ch : Children) (bad : Bool)
    (ch' : Children) (h : fileStep c O p e ch bad = .next ch' false) :
    bad = false ∧ validName e.name = true ∧ hasName ch e.name = false ∧
      (∃ v, mkFile c.hashLen e = some v ∧ ch' = ch ++ [(e.name, v)]) ∧ FileCalls c O p e := by
  unfold fileStep at h
  split at h
  · cases h
  · rename_i hv
    split at h
    · cases h
    · rename_i d hd
      split at h
      · cases h
      · split at h
        · rename_i ch'' hg
          simp only [StepR.next.injEq] at h
          obtain ⟨rfl, rfl⟩ := h
          unfold getFile at hg
          split at hg
          · cases hg
          · rename_i hn
            split at hg
            · cases hg
            · rename_i hc
              split at hg
              · cases hg
              · rename_i b hb
                split at hg
                · cases hg
                · rename_i ht
                  simp only [Option.some.injEq] at hg
                  simp only [Bool.or_eq_true, not_or, Bool.not_eq_true] at hn
                  refine ⟨rfl, by simpa using hv, hn.1, ⟨_, ?_, hg.symm⟩, d, hd, hn.2, by simpa using hc, by simp [hb], by simpa using ht⟩
                  simp [mkFile, hd]
        · simp at h

/-- What a directory entry becomes: the merge of its digest into the fresh directory. -/
def mkDirN (c : CAS) (O : Oracle) (f : Nat) (p : Path) (e : DirNode) : Option Node :=
  (parseDigest c.hashLen e.digest).bind fun d =>
    let r := mergeDirIn c O f d (p ++ [e.name]) [] false
    if !r.failed && r.err.isNone then some (.dir r.ch) else none

theorem dirStep_next (c : CAS) (O : Oracle) (f : Nat) (p : Path) (e : DirNode) (ch : Children)
    (bad : Bool) (ch' : Children)
    (h : dirStep c O (fun d' q b => mergeDirIn c O f d' q [] b) p e ch bad = .next ch' false) :
    bad = false ∧ validName e.name = true ∧ hasName ch e.name = false ∧
      (∃ v, mkDirN c O f p e = some v ∧ ch' = ch ++ [(e.name, v)]) ∧ DirCalls O p e := by
  unfold dirStep at h
  split at h
  · cases h
  · rename_i hv
    split at h
    · cases h
    · rename_i d hd
      split at h
      · cases h
      · rename_i hl
        split at h
        · cases h
        · rename_i hmk
          split at h
          · cases h
          · rename_i hen
            simp only at h
            split at h
            · cases h
            · rename_i herr
              simp only [StepR.next.injEq, Bool.or_eq_false_iff] at h
              obtain ⟨rfl, rfl, hf⟩ := h
              refine ⟨rfl, by simpa using hv, hasName_of_lookup_none _ _ hl, ⟨_, ?_, rfl⟩, by simpa using hmk, by simpa using hen⟩
              simp [mkDirN, hd, hf, herr]

theorem symStep_next (O : Oracle) (p : Path) (e : SymNode) (ch : Children) (bad : Bool)
    (ch' : Children) (h : symStep O p e ch bad = .next ch' false) :
    bad = false ∧ validName e.name = true ∧ hasName ch e.name = false ∧
      (∃ v, mkSym e = some v ∧ ch' = ch ++ [(e.name, v)]) ∧ SymCalls O p e := by
  unfold symStep at h
  split at h
  · cases h
  · rename_i hv
    split at h
    · cases h
    · rename_i ht
      split at h
      · cases h
      · rename_i hl
        split at h
        · cases h
        · rename_i hsy
          simp only [StepR.next.injEq] at h
          obtain ⟨rfl, rfl⟩ := h
          refine ⟨rfl, by simpa using hv, hasName_of_lookup_none _ _ hl, ⟨_, ?_, rfl⟩, by simpa [SymCalls] using hsy⟩
          have : targetOk e.target = true := by simpa using ht
          simp [mkSym, this]

/-- The contents an eager merge leaves in a directory when it ends clean. -/
def naiveChildren (c : CAS) (O : Oracle) (f : Nat) (p : Path) (m : DirMsg) : Children :=
  conv FileNode.name (mkFile c.hashLen) m.files ++ conv DirNode.name (mkDirN c O f p) m.dirs ++
    conv SymNode.name mkSym m.syms

/-- One level of the walk. -/
theorem level_ok (c : CAS) (O : Oracle) (f : Nat) (d : Dig) (p : Path) (ch : Children)
    (h : mergeDirIn c O (f + 1) d p [] false = ⟨ch, false, none⟩) :
    ∃ m, getDirectory c O.cas d = .ok m ∧
      GoodList FileNode.name (mkFile c.hashLen) m.files [] ∧
      GoodList DirNode.name (mkDirN c O f p) m.dirs (conv FileNode.name (mkFile c.hashLen) m.files) ∧
      GoodList SymNode.name mkSym m.syms
        (conv FileNode.name (mkFile c.hashLen) m.files ++ conv DirNode.name (mkDirN c O f p) m.dirs) ∧
      ch = naiveChildren c O f p m ∧
      (∀ e ∈ m.files, FileCalls c O p e) ∧ (∀ e ∈ m.dirs, DirCalls O p e) ∧
      (∀ e ∈ m.syms, SymCalls O p e) := by
  simp only [mergeDirIn] at h
  cases hg : getDirectory c O.cas d with
  | error e => simp [hg] at h
  | ok m =>
    refine ⟨m, rfl, ?_⟩
    simp only [hg] at h
    generalize hr1 : loop (fileStep c O p) m.files [] false = r1 at h
    cases hr1e : r1.err with
    | some e1 =>
      simp only [hr1e] at h
      rw [h] at hr1e
      cases hr1e
    | none =>
      simp only [hr1e] at h
      generalize hr2 : loop (dirStep c O (fun d' q b => mergeDirIn c O f d' q [] b) p) m.dirs r1.ch r1.failed = r2 at h
      cases hr2e : r2.err with
      | some e2 =>
        simp only [hr2e] at h
        rw [h] at hr2e
        cases hr2e
      | none =>
        simp only [hr2e] at h
        obtain ⟨hf2, hg3, hch, hP3⟩ := loop_ok (symStep O p) SymNode.name mkSym (SymCalls O p) (symStep_next O p) _ _ _ _ h
        have hr2' : loop (dirStep c O (fun d' q b => mergeDirIn c O f d' q [] b) p) m.dirs r1.ch r1.failed
            = ⟨r2.ch, false, none⟩ := by
          rw [hr2]; cases r2; simp_all
        obtain ⟨hf1, hg2, hch2, hP2⟩ := loop_ok _ DirNode.name (mkDirN c O f p) (DirCalls O p) (dirStep_next c O f p) _ _ _ _ hr2'
        have hr1' : loop (fileStep c O p) m.files [] false = ⟨r1.ch, false, none⟩ := by
          rw [hr1]; cases r1; simp_all
        obtain ⟨_, hg1, hch1, hP1⟩ := loop_ok _ FileNode.name (mkFile c.hashLen) (FileCalls c O p) (fileStep_next c O p) _ _ _ _ hr1'
        simp only [List.nil_append] at hch1
        rw [hch1] at hch2 hg2
        rw [hch2] at hch hg3
        exact ⟨hg1, hg2, hg3, by rw [hch]; rfl, hP1, hP2, hP3⟩

end BbRe.Lemmas.NaiveDir
