import BbRe.Lemmas.BRLWF
/-!
# Helper lemmas for C20: `setList` changes exactly the owner's bytes in the range
-/
namespace BbRe.Lemmas.BRL
open BbRe.BRL BbRe.Spec.ByteLocks

variable {ls : List Lock} {l : Lock} {pre kept rest2 : List Lock} {n2 : Lock} {tr2 : Option Lock}

/-- An unlock request is never grown: nothing in a well-formed table has its type. -/
theorem Pieces.n2_range_unlock (P : Pieces ls l pre kept rest2 n2 tr2)
    (hok : ∀ e ∈ ls, Ok e) (hl : l.start < l.stop) (hty : l.ty = .unlocked) :
    n2.start = l.start ∧ n2.stop = l.stop := by
  have h1 := P.n2_start
  have h2 := P.n2_stop
  constructor
  · by_cases h : n2.start = l.start
    · exact h
    · rcases P.n2_cov n2.start (Nat.le_refl _) (by omega) with h' | ⟨e, he, _, het, _⟩
      · omega
      · exact absurd (het.trans hty) (hok e he).2
  · by_cases h : n2.stop = l.stop
    · exact h
    · rcases P.n2_cov l.stop (by omega) (by omega) with h' | ⟨e, he, _, het, _⟩
      · omega
      · exact absurd (het.trans hty) (hok e he).2

/-- Owner's view after a lock request. -/
theorem Pieces.abs_lock (P : Pieces ls l pre kept rest2 n2 tr2) (b : Nat) :
    abs (pre ++ n2 :: (kept ++ (tr2.toList ++ rest2))) l.owner b =
      if l.start ≤ b ∧ b < l.stop then some l.ty else abs ls l.owner b := by
  rw [P.abs_eq b, abs_cons]
  simp [Covers]

/-- Owner's view after an unlock request. -/
theorem Pieces.abs_unlock (P : Pieces ls l pre kept rest2 n2 tr2)
    (hok : ∀ e ∈ ls, Ok e) (hl : l.start < l.stop) (hty : l.ty = .unlocked) (b : Nat) :
    abs (pre ++ (kept ++ (tr2.toList ++ rest2))) l.owner b =
      if l.start ≤ b ∧ b < l.stop then none else abs ls l.owner b := by
  obtain ⟨hs, he⟩ := P.n2_range_unlock hok hl hty
  have ho := P.n2_owner
  split
  · rename_i hb
    rw [abs_eq_none_iff]
    intro e hmem hc
    simp only [List.mem_append, Option.mem_toList] at hmem
    rcases hmem with hm | hm | hm | hm
    · have := (P.pre_b e hm).2.2 hc.1; omega
    · exact (P.kept_b e hm).2.1 hc.1
    · obtain ⟨_, _, hxs, _⟩ := P.tr_ok e hm; omega
    · have := (P.rest_b e hm).2; omega
  · rename_i hb
    have h := P.abs_lock b
    rw [if_neg hb] at h
    rw [← h, abs_append, abs_append pre, abs_cons]
    have : ¬ Covers n2 l.owner b := by
      intro hc; apply hb; omega
    rw [if_neg this]

/-- The key refinement fact for the requesting owner. -/
theorem setList_abs_own (hwf : WF ls) (hl : l.start < l.stop) (b : Nat) :
    abs (setList ls l) l.owner b =
      if l.start ≤ b ∧ b < l.stop then (if l.ty = .unlocked then none else some l.ty)
      else abs ls l.owner b := by
  rw [wf_iff] at hwf
  have P := pieces ls l hwf.1 hwf.2 hl
  by_cases hty : l.ty = .unlocked
  · rw [setList_unlock_eq ls l hty, P.abs_unlock hwf.1 hl hty b]
    simp [hty]
  · rw [setList_lock_eq ls l hty, P.abs_lock b]
    simp [hty]

/-- Other owners see no change at all (no hypothesis needed). -/
theorem setList_abs_other (ls : List Lock) (l : Lock) {o : Nat} (ho : o ≠ l.owner) (b : Nat) :
    abs (setList ls l) o b = abs ls o b := by
  have h := setList_filter_others ls l
  have hp : ∀ e : Lock, e.owner = o → decide (e.owner ≠ l.owner) = true := by
    intro e he; simp; omega
  rw [← abs_filter_owner (setList ls l) o b _ hp, ← abs_filter_owner ls o b _ hp, h]

end BbRe.Lemmas.BRL
