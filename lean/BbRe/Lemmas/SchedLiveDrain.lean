import BbRe.Lemmas.SchedLiveClean10
import BbRe.Lemmas.SchedLiveAssign
/-!
The **undrain snapshot invariant**: a worker blocked on `undrainWakeup` captured a
generation of its size-class queue that is not ahead of the queue's current one
(`drainWait = some g → g ≤ undrainGen`).  Hence after every `RemoveDrain` the wake-up
of each such worker is enabled.

Needs both the worker invariants and the cleanup invariants: a queue is removed only when it has no
workers, and a worker's queue exists (so a re-created queue, generation 0, has no waiting worker).
-/
namespace BbRe.Lemmas.SchedLive
open BbRe.Sched

/-- the invariant -/
def DInv (s : State) : Prop :=
  ∀ wk ∈ s.workers, ∀ g, wk.drainWait = some g → ∀ sq, s.scq? wk.scq = some sq → g ≤ sq.undrainGen

/-- no new waiting worker, no new or rewound queue -/
structure DStep (s s' : State) : Prop where
  w : ∀ wk' ∈ s'.workers, ∀ g, wk'.drainWait = some g → ∃ wk ∈ s.workers, wkey wk = wkey wk' ∧ wk.drainWait = some g
  q : ∀ q sq', s'.scq? q = some sq' → ∃ sq, s.scq? q = some sq ∧ sq.undrainGen ≤ sq'.undrainGen

theorem DStep.refl (s : State) : DStep s s :=
  ⟨fun wk h _ hg => ⟨wk, h, rfl, hg⟩, fun _ sq h => ⟨sq, h, Nat.le_refl _⟩⟩

theorem DStep.trans {a b c : State} (h1 : DStep a b) (h2 : DStep b c) : DStep a c := by
  refine ⟨?_, ?_⟩
  · intro wk' hm g hg
    obtain ⟨wb, hb, e1, g1⟩ := h2.w wk' hm g hg
    obtain ⟨wa, ha, e2, g2⟩ := h1.w wb hb g g1
    exact ⟨wa, ha, e2.trans e1, g2⟩
  · intro q sq' hq
    obtain ⟨sb, hb, l1⟩ := h2.q q sq' hq
    obtain ⟨sa, ha, l2⟩ := h1.q q sb hb
    exact ⟨sa, ha, Nat.le_trans l2 l1⟩

theorem dw_of_eq {s s' : State} (hw : s'.workers = s.workers) :
    ∀ wk' ∈ s'.workers, ∀ g, wk'.drainWait = some g → ∃ wk ∈ s.workers, wkey wk = wkey wk' ∧ wk.drainWait = some g := by
  intro wk h _ hg; exact ⟨wk, hw ▸ h, rfl, hg⟩

theorem dq_of_eq {s s' : State} (hq : s'.scqs = s.scqs) :
    ∀ q sq', s'.scq? q = some sq' → ∃ sq, s.scq? q = some sq ∧ sq.undrainGen ≤ sq'.undrainGen := by
  intro q sq h; refine ⟨sq, ?_, Nat.le_refl _⟩
  unfold State.scq? at h ⊢; rw [← hq]; exact h

theorem DStep.of_same {s s' : State} (hw : s'.workers = s.workers) (hq : s'.scqs = s.scqs) : DStep s s' :=
  ⟨dw_of_eq hw, dq_of_eq hq⟩

/-- replacing a worker record by one that does not wait, or waits like a present record of the same key -/
theorem DStep.of_setWorker (s : State) (w' : Worker)
    (hw : w'.drainWait = none ∨ ∃ w ∈ s.workers, wkey w = wkey w' ∧ w.drainWait = w'.drainWait) :
    DStep s (s.setWorker w') := by
  refine ⟨?_, dq_of_eq rfl⟩
  intro x hx g hg
  rcases mem_setWorker hx with rfl | ⟨hx1, _⟩
  · rcases hw with h | ⟨w, hm, e1, e2⟩
    · rw [h] at hg; cases hg
    · exact ⟨w, hm, e1, e2.trans hg⟩
  · exact ⟨x, hx1, rfl, hg⟩

theorem DStep.of_lookup {s : State} {q : ScqId} {w : WId} {wk : Worker} (hwk : s.worker? q w = some wk)
    (w' : Worker) (h1 : w'.scq = wk.scq) (h2 : w'.id = wk.id) (h3 : w'.drainWait = none ∨ w'.drainWait = wk.drainWait) :
    DStep s (s.setWorker w') := by
  refine DStep.of_setWorker s w' ?_
  rcases h3 with h | h
  · exact .inl h
  · exact .inr ⟨wk, (worker?_mem hwk).1, by simp [wkey, h1, h2], h.symm⟩

/-- the general step relation: additionally a worker may start waiting with a current snapshot -/
def DRel (s s' : State) : Prop :=
  ∀ wk' ∈ s'.workers, ∀ g, wk'.drainWait = some g → ∀ sq', s'.scq? wk'.scq = some sq' →
    (∃ wk ∈ s.workers, wkey wk = wkey wk' ∧ wk.drainWait = some g ∧
      ∃ sq, s.scq? wk.scq = some sq ∧ sq.undrainGen ≤ sq'.undrainGen) ∨
    g ≤ sq'.undrainGen

theorem DStep.rel {s s' : State} (h : DStep s s') : DRel s s' := by
  intro wk' hm g hg sq' hsq
  obtain ⟨wk, hw, e, hd⟩ := h.w wk' hm g hg
  obtain ⟨sq, hq, l⟩ := h.q _ sq' hsq
  have : wk.scq = wk'.scq := by simp only [wkey, Prod.mk.injEq] at e; exact e.1
  exact .inl ⟨wk, hw, e, hd, sq, by rw [this]; exact hq, l⟩

theorem DRel.refl (s : State) : DRel s s := (DStep.refl s).rel

theorem DRel.trans {a b c : State} (h1 : DRel a b) (h2 : DRel b c) : DRel a c := by
  intro wk'' hm g hg sq'' hsq
  rcases h2 wk'' hm g hg sq'' hsq with ⟨wb, hb, e1, g1, sb, hsb, l1⟩ | h
  · rcases h1 wb hb g g1 sb hsb with ⟨wa, ha, e2, g2, sa, hsa, l2⟩ | h
    · exact .inl ⟨wa, ha, e2.trans e1, g2, sa, hsa, Nat.le_trans l2 l1⟩
    · exact .inr (Nat.le_trans h l1)
  · exact .inr h

theorem DInv.step {s s' : State} (hi : DInv s) (h : DRel s s') : DInv s' := by
  intro wk' hm g hg sq' hsq
  rcases h wk' hm g hg sq' hsq with ⟨wk, hw, _, hd, sq, hq, l⟩ | h
  · exact Nat.le_trans (hi wk hw g hd sq hq) l
  · exact h

/-! ### the cleanup and `complete` -/

theorem detachW_dstep (s : State) (t : Task) : DStep s (detachW s t) := by
  unfold detachW
  split
  · split
    · rename_i q w wk hwk
      exact DStep.of_lookup hwk _ rfl rfl (.inr rfl)
    · exact DStep.refl _
  · exact DStep.refl _

theorem schedule_dstep {h : Hints} {s s' : State} {tid : Nat} (hh : schedule h s tid = .ok s') : DStep s s' := by
  obtain ⟨t, _, ⟨_, rfl⟩ | ⟨_, w, w1, hhw, _, hw1, _, _, rfl⟩⟩ := schedule_ok hh
  · exact DStep.of_same rfl rfl
  · have hm := hintedWorker_mem hhw
    have a1 : DStep s (wakeWorker s w) := DStep.of_setWorker s _ (.inr ⟨w, hm, rfl, rfl⟩)
    have a2 : DStep (wakeWorker s w) ((wakeWorker s w).setWorker { w1 with task := some t.id }) :=
      DStep.of_lookup hw1 _ rfl rfl (.inr rfl)
    exact (a1.trans a2).trans (DStep.of_same (by simp [assignS]) (by simp [assignS]))

theorem complete_dstep {h : Hints} {s s' : State} {tid : Nat} {r : Resp} {bw : Bool}
    (hh : complete h s tid r bw = .ok s') : DStep s s' := by
  obtain ⟨t, _, ⟨_, rfl⟩ | ⟨_, l, _, h1 | h1 | h1⟩⟩ := complete_ok hh
  · exact DStep.refl _
  · refine (detachW_dstep s t).trans ?_
    obtain ⟨ev, _, rfl | ⟨ev', _, rfl⟩ | ⟨bq, pq, h2, _⟩⟩ := completeSucc_ok h1.2
    · exact DStep.of_same (by simp) (by simp)
    · exact DStep.of_same (by simp) (by simp)
    · exact (DStep.of_same (s' := bgState (bumpLearner (succS (detachW s t) (detachT t) ev r)) { detachT t with learner := none } bq
          (succS (detachW s t) (detachT t) ev r).nextLearner pq) (by simp) (by simp)).trans (schedule_dstep h2)
  · obtain ⟨_, _, _, h5⟩ := h1
    obtain ⟨s2, t2, h2, _, rfl⟩ := completeRetry_ok h5
    refine (detachW_dstep s t).trans ?_
    exact ((DStep.of_same (s' := (retryS (detachW s t) l r).setTask (retryT (detachW s t) (detachT t) l r)) (by simp) (by simp)).trans
      (schedule_dstep h2)).trans (DStep.of_same rfl rfl)
  · obtain ⟨_, _, ev, _, rfl⟩ := h1
    exact (detachW_dstep s t).trans (DStep.of_same (by simp) (by simp))

theorem cancelAllQueued_dstep {h : Hints} {s s' : State} {q : ScqId} {r : Resp}
    (hh : cancelAllQueued h s q r = .ok s') : DStep s s' :=
  cancelAllQueued_rel DStep DStep.refl (fun _ _ _ => DStep.trans) (fun _ _ _ => complete_dstep) hh

theorem find?_filter_some {α} {p f : α → Bool} {l : List α} {a : α} (h : (l.filter f).find? p = some a)
    (hpf : ∀ x, p x = true → f x = true) : l.find? p = some a := by
  induction l with
  | nil => simp at h
  | cons x r ih =>
    simp only [List.filter_cons] at h
    by_cases hp : p x = true
    · have hf := hpf x hp
      rw [if_pos hf] at h
      simp only [List.find?_cons, hp] at h ⊢; exact h
    · simp only [List.find?_cons, Bool.not_eq_true] at hp ⊢
      rw [hp]; simp only
      split at h
      · simp only [List.find?_cons, hp] at h; exact ih h
      · exact ih h

theorem dropScq_dstep (s : State) (q : ScqId) : DStep s (dropScq s q) := by
  have hs : (dropScq s q).scqs = s.scqs.filter (fun x => x.id ≠ q) := by unfold dropScq; split <;> rfl
  have hw : (dropScq s q).workers = s.workers := by unfold dropScq; split <;> rfl
  refine ⟨dw_of_eq hw, ?_⟩
  intro q' sq' hq'
  refine ⟨sq', ?_, Nat.le_refl _⟩
  unfold State.scq? at hq' ⊢
  rw [hs] at hq'
  refine find?_filter_some hq' ?_
  intro x hx
  simp only [decide_eq_true_eq] at hx ⊢
  -- a queue found by the filtered lookup is not `q`
  have := List.find?_some hq'
  have hm := List.mem_of_find?_eq_some hq'
  by_cases hxq : x.id = q
  · -- then q' = q, but `sq'` survived the filter
    have h1 : sq'.id = q' := by simpa using this
    have h2 := (List.mem_filter.1 hm).2
    simp only [decide_eq_true_eq] at h2
    exact absurd (h1.trans (hx.symm.trans hxq)) h2
  · exact hxq

theorem callback_dstep {h : Hints} {s s' : State} {e : CleanupEntry} (hh : callback h s e = .ok s') : DStep s s' := by
  unfold callback at hh
  split at hh
  · rename_i q w _
    rcases removeStaleWorker_ok hh with ⟨_, rfl⟩ | ⟨wk, s1, _, h1, rfl⟩
    · exact DStep.refl _
    · have h1' : DStep s s1 := by
        rcases h1 with ⟨t, _, h1⟩ | ⟨_, rfl⟩
        · exact complete_dstep h1
        · exact DStep.refl _
      refine h1'.trans ?_
      have hw : (dropWorker s1 q w e.deadline).workers = (filterWorkers s1 q w).workers := by
        unfold dropWorker; (repeat' split) <;> rfl
      have hq : (dropWorker s1 q w e.deadline).scqs = s1.scqs := by
        unfold dropWorker; (repeat' split) <;> rfl
      refine ⟨?_, dq_of_eq hq⟩
      intro x hx g hg
      rw [hw] at hx
      exact ⟨x, (mem_filterWorkers.1 hx).1, rfl, hg⟩
  · rcases removeOp_ok hh with ⟨_, rfl⟩ | ⟨op, t, s1, t1, _, _, h1, _, rfl⟩
    · exact DStep.refl _
    · have h1' : DStep s s1 := by
        rcases h1 with ⟨_, h1⟩ | ⟨_, rfl⟩
        · exact (DStep.of_same (s := s) (s' := eraseOp s _) rfl rfl).trans (complete_dstep h1)
        · exact DStep.of_same rfl rfl
      exact h1'.trans (DStep.of_same (by simp) (by simp))
  · obtain ⟨s1, h1, rfl⟩ := removeScq_ok hh
    exact (cancelAllQueued_dstep h1).trans (dropScq_dstep s1 _)

theorem enter_dstep {h : Hints} {s s' : State} {t : Nat} (hh : enter h s t = .ok s') : DStep s s' := by
  rcases enter_ok hh with ⟨_, rfl⟩ | ⟨_, h1⟩
  · exact DStep.refl _
  · exact (DStep.of_same (s := s) (s' := setNow s t) rfl rfl).trans
      (runCleanup_rel DStep DStep.refl (fun _ _ _ => DStep.trans) (fun _ _ _ _ => DStep.of_same rfl rfl)
        (fun _ _ _ => callback_dstep) _ _ _ h1)

/-! ### `Synchronize` -/

theorem emit_dstep (s : State) (ev : Event) : DStep s (emit s ev) := DStep.of_same rfl rfl

theorem syncReturn_dstep (s : State) (q : ScqId) (w : WId) : DStep s (syncReturn s q w) := by
  unfold syncReturn
  split
  · rename_i wk hwk
    exact (DStep.of_lookup hwk { wk with inSync := false, parked := false, woken := false, drainWait := none, timer := none }
      rfl rfl (.inl rfl)).trans (DStep.of_same (by simp) (by simp))
  · exact DStep.refl _

theorem assignNext_dstep {h : Hints} {s s1 : State} {w : Worker} {got : Bool} (hm : w ∈ s.workers)
    (hh : assignNext h s w = .ok (s1, got)) : DStep s s1 := by
  rcases assignNext_ok hh with ⟨_, rfl, _⟩ | ⟨_, t, t', _, _, _, _, rfl⟩
  · exact DStep.refl _
  · have a1 : DStep s (s.setWorker { w with task := some t.id }) := DStep.of_setWorker s _ (.inr ⟨w, hm, rfl, rfl⟩)
    exact a1.trans (DStep.of_same (by simp [assignS]) (by simp [assignS]))

theorem execResponse_dstep {s s' : State} {w : Worker} (hh : execResponse s w = .ok s') : DStep s s' := by
  obtain ⟨tid, t, _, _, rfl⟩ := execResponse_ok hh
  exact DStep.of_same rfl rfl

theorem drainWaitS_drel {s : State} {q : ScqId} {w : WId} {wk : Worker} {sq : Scq}
    (hwk : s.worker? q w = some wk) (hsq : s.scq? q = some sq) : DRel s (drainWaitS s wk sq) := by
  intro x hx g hg sq' hsq'
  unfold drainWaitS at hx hsq'
  have hsq'' : s.scq? x.scq = some sq' := hsq'
  rcases mem_setWorker hx with rfl | ⟨hx1, _⟩
  · right
    simp only at hg hsq''
    rw [(worker?_mem hwk).2.1, hsq] at hsq''
    injection hsq'' with e; injection hg with hg
    rw [← e, ← hg]; exact Nat.le_refl _
  · exact .inl ⟨x, hx1, rfl, hg, sq', hsq'', Nat.le_refl _⟩

theorem getNextTask_drel {h : Hints} {s s' : State} {q : ScqId} {w : WId} {pi block : Bool}
    (hh : getNextTask h s q w pi block = .ok s') : DRel s s' := by
  obtain ⟨wk, sq, hwk, hsq, h1 | h1 | h1⟩ := getNextTask_ok hh
  · obtain ⟨_, rfl⟩ := h1
    exact ((DStep.of_same (s' := emit s (.syncIdle q w s.now)) rfl rfl).trans (syncReturn_dstep _ q w)).rel
  · obtain ⟨_, _, s1, got, h2, h3⟩ := h1
    have a1 := assignNext_dstep (worker?_mem hwk).1 h2
    rcases h3 with h3 | h3 | h3
    · obtain ⟨_, wk1, s2, _, h4, rfl⟩ := h3
      exact ((a1.trans (execResponse_dstep h4)).trans (syncReturn_dstep _ q w)).rel
    · obtain ⟨_, _, rfl⟩ := h3
      exact ((a1.trans (DStep.of_same (s' := emit s1 (.syncIdle q w s1.now)) rfl rfl)).trans (syncReturn_dstep _ q w)).rel
    · obtain ⟨_, _, wk1, hwk1, _, rfl⟩ := h3
      exact (a1.trans (by unfold parkS; exact DStep.of_lookup hwk1 _ rfl rfl (.inr rfl))).rel
  · obtain ⟨_, _, h2 | h2⟩ := h1
    · obtain ⟨_, rfl⟩ := h2
      exact ((DStep.of_same (s' := emit s (.syncIdle q w s.now)) rfl rfl).trans (syncReturn_dstep _ q w)).rel
    · obtain ⟨_, rfl⟩ := h2; exact drainWaitS_drel hwk hsq

theorem getCurrentOrNext_drel {h : Hints} {s s' : State} {q : ScqId} {w : WId} {pi block : Bool}
    (hh : getCurrentOrNext h s q w pi block = .ok s') : DRel s s' := by
  obtain ⟨wk, hwk, h1 | h1⟩ := getCurrentOrNext_ok hh
  · exact getNextTask_drel h1.2
  · obtain ⟨tid, t, _, _, h2 | h2⟩ := h1
    · obtain ⟨_, rfl⟩ := h2
      exact ((DStep.of_same (s' := emit (s.setTask { t with retry := t.retry + 1 })
        (.syncExecute q w t.digest (s.now + s.cfg.busyInterval))) (by simp) (by simp)).trans (syncReturn_dstep _ q w)).rel
    · obtain ⟨_, s1, h3, h4⟩ := h2
      exact (complete_dstep h3).rel.trans (getNextTask_drel h4)

/-- appending queues does not change the lookups that succeed -/
theorem scq?_append {s s' : State} {l : List Scq} (he : s'.scqs = s.scqs ++ l) {q : ScqId} {sq : Scq}
    (h : s.scq? q = some sq) : s'.scq? q = some sq := by
  unfold State.scq? at h ⊢
  rw [he, List.find?_append, h]; rfl

/-- a state with the same workers and more queues, when every worker's queue exists -/
theorem drel_append {s s' : State} {l : List Scq} (hw : s'.workers = s.workers) (he : s'.scqs = s.scqs ++ l)
    (hex : ∀ wk ∈ s.workers, ∃ sq, s.scq? wk.scq = some sq) : DRel s s' := by
  intro x hx g hg sq' hsq'
  rw [hw] at hx
  obtain ⟨sq, hsq⟩ := hex x hx
  have := scq?_append he hsq
  rw [hsq'] at this; injection this with this; subst this
  exact .inl ⟨x, hx, rfl, hg, sq', hsq, Nat.le_refl _⟩

theorem syncQueue_drel {s : State} {q : ScqId} {comps : List Nat} {pf : Nat} {w : WId} {x : State ⊕ State}
    (hh : syncQueue s q comps pf w = .ok x) (hex : ∀ wk ∈ s.workers, ∃ sq, s.scq? wk.scq = some sq) :
    DRel s (unsum x) := by
  rcases syncQueue_ok hh with ⟨_, rfl⟩ | ⟨_, rfl⟩ | ⟨_, _, rfl⟩ | ⟨_, _, rfl⟩
  · exact (DStep.of_same (by simp [unsum]) (by simp [unsum])).rel
  · exact (DStep.of_same rfl rfl).rel
  · exact drel_append (l := [{ id := q, mayBeRemoved := true, drains := [], undrainGen := 0 }]) rfl rfl hex
  · exact drel_append (l := [{ id := q, mayBeRemoved := true, drains := [], undrainGen := 0 }]) rfl rfl hex

theorem syncWorker_dstep (s : State) (q : ScqId) (w : WId) : DStep s (unsum (syncWorker s q w)) := by
  rcases syncWorker_cases s q w with ⟨wk, _, _, e⟩ | ⟨wk, hwk, _, e⟩ | ⟨_, e⟩ <;> rw [e]
  · exact DStep.of_same rfl rfl
  · have hwk' : (s.removeCleanup (.worker q w)).worker? q w = some wk := hwk
    exact (DStep.of_same (s' := s.removeCleanup (.worker q w)) (by simp) (by simp)).trans
      (DStep.of_lookup hwk' _ rfl rfl (.inr rfl))
  · refine ⟨?_, dq_of_eq rfl⟩
    intro x hx g hg
    simp only [unsum, addWorker, List.mem_append, List.mem_singleton] at hx
    rcases hx with hx | rfl
    · exact ⟨x, hx, rfl, hg⟩
    · cases hg

theorem syncArrive_drel {h : Hints} {s s' : State} {now : Nat} {q : ScqId} {comps : List Nat} {pf : Nat}
    {w : WId} {rep : Report} {pi : Bool} (hh : syncArrive h s now q comps pf w rep pi = .ok s')
    (hex : ∀ s1, enter h s now = .ok s1 → ∀ wk ∈ s1.workers, ∃ sq, s1.scq? wk.scq = some sq) : DRel s s' := by
  obtain ⟨s1, x, h1, h2, h3⟩ := syncArrive_ok hh
  refine (enter_dstep h1).rel.trans ?_
  have hq := syncQueue_drel h2 (hex s1 h1)
  rcases h3 with rfl | ⟨s2, rfl, h3⟩
  · exact hq
  · refine DRel.trans (b := s2) hq ?_
    have hwk' := syncWorker_dstep s2 q w
    rcases h3 with h3 | ⟨s3, wk, h3, hwk, h4⟩
    · rw [h3] at hwk'; exact hwk'.rel
    · rw [h3] at hwk'
      refine DRel.trans (b := s3) hwk'.rel ?_
      rcases h4 with ⟨_, rfl⟩ | ⟨_, h4⟩ | ⟨d, _, _, rfl⟩ | ⟨d, _, _, h4⟩ | ⟨d, r, tid, s4, _, _, htk, h4, h5⟩ | ⟨d, r, _, _, h4⟩
      · exact ((DStep.of_same (s' := emit s3 (.syncErr q w cInvalidArgument)) rfl rfl).trans (syncReturn_dstep _ q w)).rel
      · exact getCurrentOrNext_drel h4
      · exact ((DStep.of_same (s' := emit s3 (.syncNoChange q w (s3.now + s3.cfg.busyInterval))) rfl rfl).trans
          (syncReturn_dstep _ q w)).rel
      · exact getCurrentOrNext_drel h4
      · exact (complete_dstep h4).rel.trans (getNextTask_drel h5)
      · exact getCurrentOrNext_drel h4

theorem syncWake_drel {h : Hints} {s s' : State} {now : Nat} {q : ScqId} {w : WId} {reason : Nat}
    (hh : syncWake h s now q w reason = .ok s') : DRel s s' := by
  obtain ⟨s1, wk, h1, hwk, hin, h2⟩ := syncWake_ok hh
  refine (enter_dstep h1).rel.trans ?_
  have r1 : DStep s1 (s1.setWorker { wk with parked := false, woken := false, drainWait := none }) :=
    DStep.of_lookup hwk _ rfl rfl (.inl rfl)
  have r2 : DStep s1 (s1.setWorker { wk with woken := false }) := DStep.of_lookup hwk _ rfl rfl (.inr rfl)
  have r3 : DStep s1 (s1.setWorker { wk with drainWait := none }) := DStep.of_lookup hwk _ rfl rfl (.inl rfl)
  rcases h2 with ⟨_, h2 | h2⟩ | ⟨_, rfl⟩ | ⟨_, hwo, h2 | h2⟩ | ⟨_, sq, g, _, hdw, _, h2⟩
  · obtain ⟨s3, _, h3, rfl⟩ := h2
    exact ((r1.trans (execResponse_dstep h3)).trans (syncReturn_dstep _ q w)).rel
  · obtain ⟨_, rfl⟩ := h2
    exact ((r1.trans (emit_dstep _ _)).trans (syncReturn_dstep _ q w)).rel
  · exact ((r1.trans (emit_dstep _ _)).trans (syncReturn_dstep _ q w)).rel
  · obtain ⟨s3, _, h3, rfl⟩ := h2
    exact ((r2.trans (execResponse_dstep h3)).trans (syncReturn_dstep _ q w)).rel
  · exact r2.rel.trans (getNextTask_drel h2.2)
  · exact r3.rel.trans (getNextTask_drel h2)

/-! ### the other segments -/

theorem streamSend_dstep {s s' : State} {c o : Nat} (hh : streamSend s c o = .ok s') : DStep s s' := by
  obtain ⟨op', t, _, _, ⟨r, _, _, rfl⟩ | ⟨_, rfl⟩⟩ := streamSend_ok hh <;> exact DStep.of_same (by simp) (by simp)

theorem streamAttach_dstep {s s' : State} {c o : Nat} (hh : streamAttach s c o = .ok s') : DStep s s' := by
  obtain ⟨op, _, h1⟩ := streamAttach_ok hh
  exact (DStep.of_same (s' := attachS s o op) (by simp [attachS]) (by simp [attachS])).trans (streamSend_dstep h1)

theorem streamLeave_dstep {s s' : State} {c code : Nat} (hh : streamLeave s c code = .ok s') : DStep s s' := by
  obtain ⟨st, op, _, _, _, rfl⟩ := streamLeave_ok hh; exact DStep.of_same (by simp) (by simp)

theorem drainWake_fold (q : ScqId) (p : Pattern) (s0 : State) : ∀ (l : List Worker) (s : State),
    (∀ x ∈ l, x ∈ s0.workers) → DStep s0 s → DStep s0 (l.foldl (drainWake q p) s) := by
  intro l
  induction l with
  | nil => intro s _ h; exact h
  | cons a r ih =>
    intro s hl h
    simp only [List.foldl_cons]
    refine ih _ (fun x hx => hl x (List.mem_cons_of_mem _ hx)) ?_
    unfold drainWake
    split
    · refine ⟨?_, fun q' sq' hq' => h.q q' sq' hq'⟩
      intro x hx g hg
      rcases mem_setWorker hx with rfl | ⟨hx1, _⟩
      · exact ⟨a, hl a (List.mem_cons_self ..), rfl, hg⟩
      · exact h.w x hx1 g hg
    · exact h

theorem termMark_dstep (s : State) (w : Worker) : DStep s (termMark s w) := by
  unfold termMark
  split
  · rename_i w0 hw0
    have a1 : DStep s (s.setWorker { w0 with terminating := true }) := DStep.of_lookup hw0 _ rfl rfl (.inr rfl)
    split
    · split
      · rename_i w1 hw1
        exact a1.trans (DStep.of_setWorker _ _ (.inr ⟨w1, (worker?_mem hw1).1, rfl, rfl⟩))
      · exact a1
    · exact a1
  · exact DStep.refl _

theorem termMark_fold : ∀ (l : List Worker) (s : State), DStep s (l.foldl termMark s) := by
  intro l
  induction l with
  | nil => intro s; exact DStep.refl _
  | cons a r ih => intro s; simp only [List.foldl_cons]; exact (termMark_dstep s a).trans (ih _)

theorem setScq_dstep {s : State} {q : ScqId} {sq sq' : Scq} (hsq : s.scq? q = some sq) (hid : sq'.id = sq.id)
    (hg : sq.undrainGen ≤ sq'.undrainGen) : DStep s (s.setScq sq') := by
  refine ⟨dw_of_eq rfl, ?_⟩
  intro q' x hx
  rw [scq?_setScq] at hx
  have hidq : sq.id = q := by
    have := List.find?_some (show s.scqs.find? (fun x => x.id = q) = some sq from hsq); simpa using this
  split at hx
  · rename_i he
    have : q' = q := by rw [← he, hid, hidq]
    subst this
    rw [hsq] at hx; simp only [Option.map_some, Option.some.injEq] at hx; subst hx
    exact ⟨sq, hsq, hg⟩
  · exact ⟨x, hx, Nat.le_refl _⟩

/-- **every segment**, from a reachable state -/
theorem step_drel {s s' : State} {g : Seg} (hs : Reachable s) (hstep : step s g = .ok s') : DRel s s' := by
  cases g with
  | register id comps pf sizes bm bp =>
    simp only [step, pure_ok] at hstep; subst hstep
    exact drel_append (l := sizes.map (fun sc => { id := ⟨id, sc⟩, mayBeRemoved := false, drains := [], undrainGen := 0 }))
      rfl rfl (cinv_reachable hs).wScq
  | exec h now c0 d dk dnc comps pf inv prio =>
    refine DStep.rel ?_
    obtain ⟨s1, h1, h2 | h2 | h2⟩ := execArrive_ok hstep
    · obtain ⟨tid, t, _, h0, ⟨o, _, h3⟩ | ⟨_, h3⟩⟩ := h2
      · exact ((enter_dstep h1).trans (DStep.of_same (s' := emit s1 .selAbandoned) rfl rfl)).trans (streamAttach_dstep h3)
      · exact ((enter_dstep h1).trans (DStep.of_same (s' := addOpS (emit s1 .selAbandoned) tid t inv prio)
          (by simp) (by simp))).trans (streamAttach_dstep h3)
    · obtain ⟨_, _, rfl⟩ := h2
      exact (enter_dstep h1).trans (DStep.of_same rfl rfl)
    · obtain ⟨_, pq, sc, s3, _, _, h3, h4⟩ := h2
      exact (((enter_dstep h1).trans (DStep.of_same (s' := newTaskS s1 d dk dnc ⟨pq.id, sc⟩ inv prio) (by simp) (by simp))).trans
        (schedule_dstep h3)).trans (streamAttach_dstep h4)
  | wait h now c0 name =>
    refine DStep.rel ?_
    obtain ⟨s1, h1, ⟨_, rfl⟩ | ⟨op, _, h2⟩⟩ := waitArrive_ok hstep
    · exact (enter_dstep h1).trans (DStep.of_same rfl rfl)
    · exact (enter_dstep h1).trans (streamAttach_dstep h2)
  | streamWake h now c0 reason =>
    refine DStep.rel ?_
    obtain ⟨s1, st, h1, _, ⟨_, h3⟩ | ⟨_, _, h3⟩⟩ := streamWake_ok hstep
    · exact (enter_dstep h1).trans (streamLeave_dstep h3)
    · exact (enter_dstep h1).trans (streamSend_dstep h3)
  | sync h now q comps pf w rep pi =>
    refine syncArrive_drel hstep ?_
    intro s1 h1
    exact (cinv_reachable (Reachable.step (.touch h now) hs h1)).wScq
  | syncWake h now q w reason => exact syncWake_drel hstep
  | killOp h now name code =>
    refine DStep.rel ?_
    obtain ⟨s1, h1, ⟨_, rfl⟩ | ⟨op, s2, _, h2, rfl⟩⟩ := killOp_ok hstep
    · exact (enter_dstep h1).trans (DStep.of_same rfl rfl)
    · exact ((enter_dstep h1).trans (complete_dstep h2)).trans (DStep.of_same rfl rfl)
  | killQueue h now q code =>
    refine DStep.rel ?_
    obtain ⟨s1, h1, ⟨ev, _, rfl⟩ | ⟨s2, h2, rfl⟩⟩ := killQueue_ok hstep
    · exact (enter_dstep h1).trans (DStep.of_same rfl rfl)
    · exact ((enter_dstep h1).trans (cancelAllQueued_dstep h2)).trans (DStep.of_same rfl rfl)
  | addDrain h now q p =>
    refine DStep.rel ?_
    obtain ⟨s1, h1, ⟨_, rfl⟩ | ⟨sq, hsq, rfl⟩⟩ := addDrain_ok hstep
    · exact (enter_dstep h1).trans (DStep.of_same rfl rfl)
    · refine ((enter_dstep h1).trans ?_).trans (emit_dstep _ _)
      exact drainWake_fold q p s1 s1.workers _ (fun _ hx => hx) (setScq_dstep hsq rfl (Nat.le_refl _))
  | removeDrain h now q p =>
    refine DStep.rel ?_
    obtain ⟨s1, h1, ⟨_, rfl⟩ | ⟨sq, hsq, rfl⟩⟩ := removeDrain_ok hstep
    · exact (enter_dstep h1).trans (DStep.of_same rfl rfl)
    · exact ((enter_dstep h1).trans (setScq_dstep (sq' := { sq with drains := sq.drains.filter (· ≠ p), undrainGen := sq.undrainGen + 1 })
        hsq rfl (Nat.le_succ _))).trans (emit_dstep _ _)
  | terminate h now id p =>
    refine DStep.rel ?_
    obtain ⟨s1, h1, h2⟩ := terminate_ok hstep
    simp only at h2
    have e := termMark_fold (s1.workers.filter (fun w => p.matches w.id)) s1
    rcases h2 with ⟨_, rfl⟩ | ⟨_, rfl⟩
    · exact ((enter_dstep h1).trans e).trans (DStep.of_same rfl rfl)
    · exact ((enter_dstep h1).trans e).trans (DStep.of_same rfl rfl)
  | termWake id reason =>
    refine DStep.rel ?_
    obtain ⟨tc, _, ⟨_, rfl⟩ | ⟨_, _, rfl⟩⟩ := termWake_ok hstep <;> exact DStep.of_same rfl rfl
  | touch h now => exact (enter_dstep hstep).rel

/-- **the undrain snapshot invariant** -/
theorem dinv_reachable {s : State} (hs : Reachable s) : DInv s := by
  induction hs with
  | init cfg => intro wk hm; cases hm
  | step g hs hstep ih => exact ih.step (step_drel hs hstep)

/-- after a successful `RemoveDrain` on queue `q`, the snapshot of every worker of `q` that waits for an undrain
is strictly behind the queue's generation -/
theorem removeDrain_stale {s s' : State} (hs : Reachable s) {h : Hints} {now : Nat} {q : ScqId} {p : Pattern}
    (hstep : step s (.removeDrain h now q p) = .ok s') {w : WId} {wk : Worker} {g : Nat}
    (hwk : s'.worker? q w = some wk) (hdw : wk.drainWait = some g) :
    ∃ sq', s'.scq? q = some sq' ∧ g < sq'.undrainGen := by
  obtain ⟨s1, h1, h2⟩ := removeDrain_ok hstep
  have hr1 : Reachable s1 := Reachable.step (.touch h now) hs h1
  obtain ⟨hm, hq, _⟩ := worker?_mem hwk
  rcases h2 with ⟨hn, rfl⟩ | ⟨sq, hsq, rfl⟩
  · have hm1 : wk ∈ s1.workers := hm
    obtain ⟨sq, hsq⟩ := (cinv_reachable hr1).wScq wk hm1
    rw [hq, hn] at hsq; cases hsq
  · have hm1 : wk ∈ s1.workers := hm
    have hidq : sq.id = q := by
      have := List.find?_some (show s1.scqs.find? (fun x => x.id = q) = some sq from hsq); simpa using this
    refine ⟨{ sq with drains := sq.drains.filter (· ≠ p), undrainGen := sq.undrainGen + 1 }, ?_, ?_⟩
    · show (s1.setScq _).scq? q = _
      rw [scq?_setScq, if_pos hidq, hsq]; rfl
    · have := dinv_reachable hr1 wk hm1 g hdw sq (by rw [hq]; exact hsq)
      exact Nat.lt_succ_of_le this

end BbRe.Lemmas.SchedLive
