import BbRe.Lemmas.SchedTreeLinkCore
/-!
Step lemmas of the tree layer: `worker.wakeUp` of a parked worker, enqueueing the operations of a task,
and replacing a worker / task record by one that looks the same to the tree layer.
-/
namespace BbRe.Lemmas.SchedTree
open BbRe.Sched BbRe.SchedTree BbRe.Lemmas.SchedInv

variable {X : List (ScqId × List Nat)}

/-! ### `worker.wakeUp` -/

theorem unparkTree_nodes (ts : TState) (q : ScqId) (w : WId) (p : List Nat) (h : ts.lastOf q w = some p) :
    (ts.unparkTree q w).nodes = dequeueW ts.nodes q p w := by
  unfold TState.unparkTree; simp only [h]

/-- an entry of `setWX l q w g` with key `(q, w)` is `g y` for some `y` -/
theorem mem_setWX_key {l : List WX} {q : ScqId} {w : WId} {g : WX → WX} {x : WX}
    (hx : x ∈ setWX l q w g) (hk : x.scq = q ∧ x.id = w) : ∃ y, x = g y := by
  unfold setWX at hx
  obtain ⟨y, _, hy⟩ := List.mem_map.mp hx
  by_cases hc : y.scq = q ∧ y.id = w
  · simp only [hc, and_self, if_true] at hy; exact ⟨y, hy.symm⟩
  · simp only [hc, if_false] at hy
    subst hy; exact absurd hk hc

theorem wake_tree {ex exo} {ts : TState} {w : Worker} (hT : TInvX ex exo X ts)
    (hw : wfind ts.s.workers w.scq w.id = some w) (hp : w.parked = true) :
    TreeOK X (tWake ts w).nodes (bagE (tWake ts w)) (bagI (tWake ts w)) (bagQ (tWake ts w)) (bagP (tWake ts w)) := by
  have hwt : w.task = none := hT.inv.core.w1 w.scq w.id w hw hp
  obtain ⟨x0, hx0, hxq, hxi, hxp, hxl⟩ := hT.side.wx_of_worker hw
  have hlast : ∃ p, x0.last = some p := by
    cases hl : x0.last with
    | none => have := hxl.mp hl; rw [hwt] at this; cases this
    | some p => exact ⟨p, rfl⟩
  obtain ⟨p, hpl⟩ := hlast
  have hlo : ts.lastOf w.scq w.id = some p := by rw [lastOf_of_find hx0, hpl]
  let g : WX → WX := fun y => { y with parked := false }
  have hg : ∀ y, wxkey (g y) = wxkey y := fun y => rfl
  have hwx' : (tWake ts w).wx = setWX ts.wx w.scq w.id g := rfl
  have hnodes : (tWake ts w).nodes = dequeueW ts.nodes w.scq p w.id := unparkTree_nodes ts w.scq w.id p hlo
  have hE' : bagE (tWake ts w) = bagE ts := rfl
  have hQ' : bagQ (tWake ts w) = bagQ ts := rfl
  have hP' : ((bagP ts).erase (w.scq, p, w.id)).Perm (bagP (tWake ts w)) := by
    have := bagP_setWX ts.wx w.scq w.id g hg hT.side.wxnd x0 hx0
    have e1 : conP (g x0) = [] := rfl
    have e2 : conP x0 = [(w.scq, p, w.id)] := by unfold conP; rw [hpl, hxq, hxi, hxp, hp]; rfl
    rw [e1, e2, List.append_nil] at this
    rw [bagP_def, bagP_def, hwx']
    exact perm_erase_of_append this
  have hI' : (bagI ts).Perm (bagI (tWake ts w)) := by
    have := bagI_setWX ts.wx w.scq w.id g hg hT.side.wxnd x0 hx0
    have e1 : conI (g x0) = conI x0 := rfl
    rw [e1] at this
    rw [bagI_def, bagI_def, hwx']
    exact (List.perm_append_right_iff _).mp this
  have hc : (w.scq, p, w.id) ∈ bagP ts := by
    rw [bagP_def]
    refine List.mem_flatMap.mpr ⟨x0, List.mem_of_find?_eq_some hx0, ?_⟩
    unfold conP; rw [hpl, hxq, hxi, hxp, hp]; simp
  have h1 : (w.scq, p, w.id) ∉ (bagP ts).erase (w.scq, p, w.id) := by
    intro hm
    have hm' := hP'.mem_iff.mp hm
    rw [bagP_def, hwx'] at hm'
    obtain ⟨x, hx, hcx⟩ := List.mem_flatMap.mp hm'
    have hxpark : x.parked = true ∧ x.scq = w.scq ∧ x.id = w.id := by
      unfold conP at hcx
      split at hcx
      · rename_i hpk
        cases hl : x.last with
        | none => rw [hl] at hcx; cases hcx
        | some p' =>
          rw [hl] at hcx
          simp only [List.mem_singleton, Prod.mk.injEq] at hcx
          exact ⟨hpk, hcx.1.symm, hcx.2.2.symm⟩
      · cases hcx
    obtain ⟨y, hy⟩ := mem_setWX_key hx hxpark.2
    rw [hy] at hxpark
    exact absurd hxpark.1 (by simp [g])
  have h := dequeueW_ok hT.tree w.scq p w.id hc h1
  rw [hnodes, hE', hQ']
  exact h.congr (List.Perm.refl _) hI' (fun c => Iff.rfl) (fun c => hP'.mem_iff)

theorem wake_side {ex exo} {ts : TState} {w : Worker} (hT : TInvX ex exo X ts)
    (hw : wfind ts.s.workers w.scq w.id = some w) : Side (tWake ts w) := by
  have hS := hT.side
  obtain ⟨x0, hx0, hxq, hxi, hxp, hxl⟩ := hS.wx_of_worker hw
  let g : WX → WX := fun y => { y with parked := false }
  have hg : ∀ y, wxkey (g y) = wxkey y := fun y => rfl
  have hwx' : (tWake ts w).wx = setWX ts.wx w.scq w.id g := rfl
  have hnodes := side_nodes hS (tWake_nframe ts w) (scqs' := ts.s.scqs) (by intro q hq; cases hq)
    (fun sq h => h) (fun sq h => Or.inl h)
  refine ⟨hnodes.1, hnodes.2, ?_, ?_, ?_, ?_, ?_⟩
  · rw [hwx']
    show ((setWX ts.wx w.scq w.id g).map wxkey).Nodup
    rw [setWX_keys ts.wx w.scq w.id g hg]; exact hS.wxnd
  · intro q' w'
    show (List.find? _ _).isSome = (wfind (wset ts.s.workers _) q' w').isSome
    rw [hwx', find?_setWX _ _ _ _ hg, wfind_wset]
    have := hS.wxw q' w'
    rw [worker?_def, wx?_eq] at this
    by_cases hk : w.scq = q' ∧ w.id = w'
    · simp only [hk, and_self, if_true, Option.isSome_map]
      rw [this]; cases (wfind ts.s.workers q' w') <;> rfl
    · simp only [hk, if_false, Option.isSome_map]; exact this
  · intro q' w' wk x hwk hx
    rw [worker?_def] at hwk
    change wfind (wset ts.s.workers _) q' w' = some wk at hwk
    rw [wfind_wset] at hwk
    change List.find? _ _ = some x at hx
    rw [hwx', find?_setWX _ _ _ _ hg] at hx
    by_cases hk : w.scq = q' ∧ w.id = w'
    · simp only [hk, and_self, if_true] at hwk
      rw [← hk.1, ← hk.2, hw] at hwk
      simp only [Option.isSome_some, if_true, Option.some.injEq] at hwk
      rw [← hk.1, ← hk.2, hx0] at hx
      simp only [Option.map_some, hxq, hxi, and_self, if_true, Option.some.injEq] at hx
      subst hwk; subst hx
      exact ⟨rfl, hxl⟩
    · simp only [hk, if_false] at hwk
      cases hf : ts.wx.find? (fun x => x.scq = q' ∧ x.id = w') with
      | none => rw [hf] at hx; cases hx
      | some y =>
        rw [hf] at hx
        have hyk := List.find?_some hf
        simp only [decide_eq_true_eq] at hyk
        have : ¬ (y.scq = w.scq ∧ y.id = w.id) := by rw [hyk.1, hyk.2]; exact fun h => hk ⟨h.1.symm, h.2.symm⟩
        simp only [Option.map_some, this, if_false, Option.some.injEq] at hx
        subst hx
        exact hS.wpl q' w' wk y (by rw [worker?_def]; exact hwk) hf
  · exact hS.oxok
  · exact hS.wq

/-- `worker.wakeUp` of a parked worker: it leaves `idleSynchronizingWorkers` -/
theorem wake_ts {ex exo} {ts : TState} {w : Worker} (hT : TInvX ex exo X ts)
    (hw : wfind ts.s.workers w.scq w.id = some w) (hp : w.parked = true) :
    TS X (tWake ts w) :=
  ⟨wake_tree hT hw hp, wake_side hT hw⟩

/-! ### `for o in t.operations { o.enqueue() }` -/

theorem enqOps_nodes (ts : TState) (t : Task) :
    (ts.enqOps t).nodes = t.ops.foldl (fun ns o => enqueueOp ts.prioOf ns t.scq (ts.invOf o) o) ts.nodes := rfl

theorem conQ_queued (ts : TState) (t : Task) :
    conQ ts.ox { t with queued := true } = t.ops.map (fun o => (t.scq, ts.invOf o, o)) := by
  unfold conQ; simp only [if_true]; rfl

/-- `for o in t.operations { o.enqueue() }`: the task becomes queued -/
theorem enqueue_ts {ex exo} {ts : TState} {t : Task} (hT : TInvX ex exo X ts)
    (ht : alookup t.id ts.s.tasks = some t) (htw : t.worker = none) (hq : t.queued = false)
    (hnd : t.ops.Nodup)
    (hown : ∀ k t', alookup k ts.s.tasks = some t' → ∀ o ∈ t'.ops, o ∈ t.ops → k = t.id)
    (hn : ∀ o ∈ t.ops, (node? ts.nodes t.scq (ts.invOf o)).isSome = true)
    (hX : ∀ x ∈ X, ∃ o ∈ t.ops, onPathOf t.scq (ts.invOf o) x = true) :
    TS [] ((ts.enqOps t).setS (ts.s.setTask { t with queued := true })) := by
  let t1 : Task := { t with queued := true }
  let ts' : TState := (ts.enqOps t).setS (ts.s.setTask t1)
  show TS [] ts'
  have hS := hT.side
  -- no operation of `t` is queued
  have hnq : ∀ o ∈ t.ops, (t.scq, ts.invOf o, o) ∉ bagQ ts := by
    intro o ho hm
    rw [bagQ_def] at hm
    obtain ⟨kt, hkt, hc⟩ := List.mem_flatMap.mp hm
    obtain ⟨k, t'⟩ := kt
    have hl : alookup k ts.s.tasks = some t' := alookup_of_mem hT.inv.core.tnd hkt
    simp only [] at hc
    unfold conQ at hc
    split at hc
    · rename_i hqd
      obtain ⟨o', ho', he⟩ := List.mem_map.mp hc
      simp only [Prod.mk.injEq] at he
      have : o' = o := he.2.2
      subst this
      have hk := hown k t' hl o' ho' ho
      subst hk
      rw [ht] at hl; cases hl
      rw [hq] at hqd; cases hqd
    · cases hc
  have h1 := enqOps_ok hT.tree ts.prioOf t.scq ts.invOf t.ops hn hnd hnq
  have hX0 : X.filter (fun x => !t.ops.any (fun o => onPathOf t.scq (ts.invOf o) x)) = [] := by
    rw [List.filter_eq_nil_iff]
    intro x hx
    obtain ⟨o, ho, hon⟩ := hX x hx
    have : t.ops.any (fun o => onPathOf t.scq (ts.invOf o) x) = true := List.any_eq_true.mpr ⟨o, ho, hon⟩
    simp [this]
  rw [hX0] at h1
  have hE' : (bagE ts).Perm (bagE ts') := by
    have := bagE_setTask ts (ts.s.setTask t1) t t1 ts.ox ht rfl (fun _ _ => rfl) ts' rfl rfl
    rw [conE_unassigned _ t htw, conE_unassigned _ t1 htw, List.append_nil, List.append_nil] at this
    exact this
  have hQ' : (t.ops.map (fun o => (t.scq, ts.invOf o, o)) ++ bagQ ts).Perm (bagQ ts') := by
    have := bagQ_setTask ts (ts.s.setTask t1) t t1 ts.ox ht rfl (fun _ _ => rfl) ts' rfl rfl
    rw [conQ_unqueued _ t hq, conQ_queued ts t, List.append_nil] at this
    exact List.perm_append_comm.trans this
  refine ⟨?_, ?_⟩
  · show TreeOK [] (ts.enqOps t).nodes (bagE ts') (bagI ts') (bagQ ts') (bagP ts')
    rw [enqOps_nodes]
    exact h1.congr hE' (List.Perm.refl _) (fun c => hQ'.mem_iff) (fun c => Iff.rfl)
  · have hnodes := side_nodes hS (enqOps_nframe ts t) (scqs' := ts.s.scqs) (by intro q hq; cases hq)
      (fun sq h => h) (fun sq h => Or.inl h)
    refine ⟨hnodes.1, hnodes.2, hS.wxnd, hS.wxw, hS.wpl, hS.oxok, ?_⟩
    intro k t' q' w' hk hw'
    change alookup k (aset t.id t1 ts.s.tasks) = some t' at hk
    rw [alookup_aset] at hk
    by_cases hkk : t.id = k
    · simp only [hkk, if_true, Option.some.injEq] at hk
      subst hk
      have : t.worker = some (q', w') := hw'
      rw [htw] at this; cases this
    · simp only [hkk, if_false] at hk
      exact hS.wq k t' q' w' hk hw'

/-! ### record updates the tree layer does not see -/

/-- a worker record is replaced by one with the same `task` and `parked` (everything else of the scheduler
state that the tree layer looks at is unchanged) -/
theorem wset_ts {ex exo} {ts : TState} {q : ScqId} {w : WId} {wk wk' : Worker} {s' : State}
    (hT : TInvX ex exo X ts) (hw : wfind ts.s.workers q w = some wk)
    (hk : wk'.scq = wk.scq ∧ wk'.id = wk.id ∧ wk'.task = wk.task ∧ wk'.parked = wk.parked)
    (hsw : s'.workers = wset ts.s.workers wk') (hst : s'.tasks = ts.s.tasks) (hsq : s'.scqs = ts.s.scqs)
    (hso : ∀ o op', s'.op? o = some op' → ∃ op, ts.s.op? o = some op ∧ op'.inv = op.inv ∧ op'.prio = op.prio) :
    TS X (ts.setS s') := by
  have hS := hT.side
  obtain ⟨hwq, hwi⟩ := wfind_key hw
  refine ⟨?_, ?_⟩
  · obtain ⟨h1, h2, h3, h4⟩ := bags_setS_of_tasks ts s' hst
    rw [h1, h2, h3, h4]
    exact hT.tree
  · have hwf : ∀ q' w', wfind s'.workers q' w' =
        if wk'.scq = q' ∧ wk'.id = w' then (if (wfind ts.s.workers q' w').isSome then some wk' else none)
        else wfind ts.s.workers q' w' := by
      intro q' w'; rw [hsw, wfind_wset]
    refine ⟨?_, ?_, hS.wxnd, ?_, ?_, ?_, ?_⟩
    · intro sq hsq'
      exact hS.roots sq (hsq ▸ hsq')
    · intro n hn
      obtain ⟨sq, h1, h2⟩ := hS.nscq n hn
      exact ⟨sq, hsq.symm ▸ h1, h2⟩
    · intro q' w'
      show (ts.wx? q' w').isSome = (s'.worker? q' w').isSome
      rw [worker?_def, hwf, hS.wxw q' w', worker?_def]
      by_cases hc : wk'.scq = q' ∧ wk'.id = w'
      · simp only [hc, and_self, if_true]
        cases (wfind ts.s.workers q' w') <;> rfl
      · simp only [hc, if_false]
    · intro q' w' wk1 x h1 h2
      change ts.wx? q' w' = some x at h2
      change wfind s'.workers q' w' = some wk1 at h1
      rw [hwf] at h1
      by_cases hc : wk'.scq = q' ∧ wk'.id = w'
      · simp only [hc, and_self, if_true] at h1
        have hq' : q' = q := by rw [← hc.1, hk.1, hwq]
        have hw' : w' = w := by rw [← hc.2, hk.2.1, hwi]
        subst hq'; subst hw'
        rw [hw] at h1
        simp only [Option.isSome_some, if_true, Option.some.injEq] at h1
        subst h1
        have := hS.wpl q' w' wk x (by rw [worker?_def]; exact hw) h2
        rw [hk.2.2.1, hk.2.2.2]; exact this
      · simp only [hc, if_false] at h1
        exact hS.wpl q' w' wk1 x (by rw [worker?_def]; exact h1) h2
    · intro o op' h
      obtain ⟨op, e, hi, hp⟩ := hso o op' h
      show alookup o ts.ox = _
      rw [hS.oxok o op e, hi, hp]
    · intro k t q' w' h1 h2
      exact hS.wq k t q' w' (hst ▸ h1) h2

theorem conE_congr (ox : List (Nat × OX)) {t t' : Task}
    (hk : t'.worker = t.worker ∧ t'.ops = t.ops ∧ t'.scq = t.scq) : conE ox t' = conE ox t := by
  unfold conE; rw [hk.1, hk.2.1, hk.2.2]

theorem conQ_congr (ox : List (Nat × OX)) {t t' : Task}
    (hk : t'.queued = t.queued ∧ t'.ops = t.ops ∧ t'.scq = t.scq) : conQ ox t' = conQ ox t := by
  unfold conQ; rw [hk.1, hk.2.1, hk.2.2]

/-- a task record is replaced by one with the same `worker`, `queued`, `ops`, `scq` -/
theorem taskset_ts {ex exo} {ts : TState} {t t' : Task} {s' : State}
    (hT : TInvX ex exo X ts) (ht : alookup t.id ts.s.tasks = some t)
    (hk : t'.id = t.id ∧ t'.worker = t.worker ∧ t'.queued = t.queued ∧ t'.ops = t.ops ∧ t'.scq = t.scq)
    (hst : s'.tasks = aset t.id t' ts.s.tasks) (hsw : s'.workers = ts.s.workers) (hsq : s'.scqs = ts.s.scqs)
    (hso : ∀ o op', s'.op? o = some op' → ∃ op, ts.s.op? o = some op ∧ op'.inv = op.inv ∧ op'.prio = op.prio) :
    TS X (ts.setS s') := by
  have hS := hT.side
  have ht' : alookup t'.id ts.s.tasks = some t := by rw [hk.1]; exact ht
  have hst' : s'.tasks = aset t'.id t' ts.s.tasks := by rw [hk.1]; exact hst
  have hE' : (bagE ts).Perm (bagE (ts.setS s')) := by
    have := bagE_setTask ts s' t t' ts.ox ht' hst' (fun _ _ => rfl) (ts.setS s') rfl rfl
    rw [conE_congr ts.ox ⟨hk.2.1, hk.2.2.2.1, hk.2.2.2.2⟩] at this
    exact (List.perm_append_right_iff _).mp this
  have hQ' : (bagQ ts).Perm (bagQ (ts.setS s')) := by
    have := bagQ_setTask ts s' t t' ts.ox ht' hst' (fun _ _ => rfl) (ts.setS s') rfl rfl
    rw [conQ_congr ts.ox ⟨hk.2.2.1, hk.2.2.2.1, hk.2.2.2.2⟩] at this
    exact (List.perm_append_right_iff _).mp this
  refine ⟨?_, ?_⟩
  · show TreeOK X ts.nodes (bagE (ts.setS s')) (bagI ts) (bagQ (ts.setS s')) (bagP ts)
    exact hT.tree.congr hE' (List.Perm.refl _) (fun c => hQ'.mem_iff) (fun c => Iff.rfl)
  · have hwf : ∀ q w, s'.worker? q w = ts.s.worker? q w := by
      intro q w; unfold State.worker?; rw [hsw]
    refine ⟨?_, ?_, hS.wxnd, ?_, ?_, ?_, ?_⟩
    · intro sq hsq'
      exact hS.roots sq (hsq ▸ hsq')
    · intro n hn
      obtain ⟨sq, h1, h2⟩ := hS.nscq n hn
      exact ⟨sq, hsq.symm ▸ h1, h2⟩
    · intro q w
      show (ts.wx? q w).isSome = (s'.worker? q w).isSome
      rw [hwf]; exact hS.wxw q w
    · intro q w wk x h1 h2
      exact hS.wpl q w wk x ((hwf q w) ▸ h1) h2
    · intro o op' h
      obtain ⟨op, e, hi, hp⟩ := hso o op' h
      show alookup o ts.ox = _
      rw [hS.oxok o op e, hi, hp]
    · intro k t'' q w h1 h2
      change alookup k s'.tasks = some t'' at h1
      rw [hst, alookup_aset] at h1
      by_cases hkk : t.id = k
      · simp only [hkk, if_true, Option.some.injEq] at h1
        subst h1
        rw [hk.2.1] at h2
        rw [hk.2.2.2.2]
        exact hS.wq t.id t q w ht h2
      · simp only [hkk, if_false] at h1
        exact hS.wq k t'' q w h1 h2

end BbRe.Lemmas.SchedTree
