import BbRe.Lemmas.FairDynCache
import BbRe.Lemmas.FairDynParked
/-!
Invocations that are in no heap appear (`getOrCreateInvocation`) and disappear (`removeIfEmpty`):
the invariants of the dynamic C04 model are not affected.
-/

namespace BbRe.Lemmas.Fair
open BbRe.Fair BbRe.GoHeap BbRe.Lemmas.GoHeap

/-! ### generic walks whose upper levels only store the changed child -/

theorem heap_store_walk (leaf : Inv → Inv)
    (hleaf : ∀ i, HeapTree i → HeapTree (leaf i) ∧ (leaf i).key = i.key ∧ KeyEq (leaf i) i ∧ (leaf i).hasQueued = i.hasQueued) :
    ∀ (path : List Nat) (t : Inv), HeapTree t →
      HeapTree (updatePath leaf storeKid path t) ∧ (updatePath leaf storeKid path t).key = t.key ∧
      KeyEq (updatePath leaf storeKid path t) t ∧ (updatePath leaf storeKid path t).hasQueued = t.hasQueued := by
  intro path
  induction path with
  | nil => intro t ht; exact hleaf t ht
  | cons k p ih =>
    intro t ht
    cases hck : t.child k with
    | none =>
      have : updatePath leaf storeKid (k :: p) t = t := by simp only [updatePath, hck]
      rw [this]; exact ⟨ht, rfl, KeyEq.refl t, rfl⟩
    | some c =>
      obtain ⟨hcmem, _⟩ := mem_of_child t k c hck
      have hq := (heapTree_iff t).mp ht
      obtain ⟨hc't, hc'k, hc'e, hc'q⟩ := ih c (hq.2 c hcmem)
      rw [updatePath_cons _ _ k p t c hck]
      generalize updatePath leaf storeKid p c = c' at hc't hc'k hc'e hc'q
      have hN : QOk (storeKid t c') :=
        qOk_same t c c' _ hq.1 hcmem hc'k hc'e hc'q (by simp [storeKid]) (by simp [storeKid]) (by simp [storeKid])
      exact ⟨heapTree_of_level t c' _ ht hc't hN (by simp [storeKid]), by simp [storeKid],
        ⟨by simp [storeKid], by simp [storeKid], by simp [storeKid]⟩,
        hasQueued_storeKid t c c' hq.1.keys hcmem hc'k hc'q _ (by simp [storeKid]) (by simp [storeKid])⟩

theorem parked_store_walk (leaf : Inv → Inv)
    (hleaf : ∀ i, ParkedTree i → ParkedTree (leaf i) ∧ (leaf i).key = i.key ∧ (leaf i).hasParked = i.hasParked) :
    ∀ (path : List Nat) (t : Inv), ParkedTree t →
      ParkedTree (updatePath leaf storeKid path t) ∧ (updatePath leaf storeKid path t).key = t.key ∧
      (updatePath leaf storeKid path t).hasParked = t.hasParked := by
  intro path
  induction path with
  | nil => intro t ht; exact hleaf t ht
  | cons k p ih =>
    intro t ht
    cases hck : t.child k with
    | none =>
      have : updatePath leaf storeKid (k :: p) t = t := by simp only [updatePath, hck]
      rw [this]; exact ⟨ht, rfl, rfl⟩
    | some c =>
      obtain ⟨hcmem, _⟩ := mem_of_child t k c hck
      have hq := (parkedTree_iff t).mp ht
      obtain ⟨hc't, hc'k, hc'q⟩ := ih c (hq.2 c hcmem)
      rw [updatePath_cons _ _ k p t c hck]
      generalize updatePath leaf storeKid p c = c' at hc't hc'k hc'q
      have hN : POk (storeKid t c') :=
        pOk_same t c c' _ hq.1 hcmem hc'k hc'q (by simp [storeKid]) (by simp [storeKid])
      exact ⟨parkedTree_of_level t c' _ ht hc't hN (by simp [storeKid]), by simp [storeKid],
        hasParked_congr t _ (by simp [storeKid]) (by simp [storeKid])⟩

theorem cache_store_walk (leaf : Inv → Inv)
    (hleaf : ∀ i, HeapTree i → CacheTree i → CacheTree (leaf i) ∧ (cacheNode i → cacheNode (leaf i)) ∧
      (leaf i).prio = i.prio ∧ (leaf i).key = i.key) :
    ∀ (path : List Nat) (t : Inv), HeapTree t → CacheTree t →
      CacheTree (updatePath leaf storeKid path t) ∧ (cacheNode t → cacheNode (updatePath leaf storeKid path t)) ∧
      (updatePath leaf storeKid path t).prio = t.prio ∧ (updatePath leaf storeKid path t).key = t.key := by
  intro path
  induction path with
  | nil => intro t ht h; exact hleaf t ht h
  | cons k p ih =>
    intro t hnd h
    cases hck : t.child k with
    | none =>
      have : updatePath leaf storeKid (k :: p) t = t := by simp only [updatePath, hck]
      rw [this]; exact ⟨h, id, rfl, rfl⟩
    | some c =>
      obtain ⟨hcmem, _⟩ := mem_of_child t k c hck
      have hcall := ((cacheTree_iff t).mp h) c hcmem
      have hq := (heapTree_iff t).mp hnd
      obtain ⟨i1, i2, i3, i4⟩ := ih c (hq.2 c hcmem) hcall.2
      rw [updatePath_cons _ _ k p t c hck]
      generalize updatePath leaf storeKid p c = c' at i1 i2 i3 i4
      refine ⟨?_, ?_, by simp [storeKid], by simp [storeKid]⟩
      · rw [cacheTree_iff]
        intro d hd
        simp only [storeKid, S.setKids_kids] at hd
        rcases (mem_replaceKid _ _ _).mp hd with ⟨rfl, _⟩ | ⟨hd', _⟩
        · exact ⟨i2 hcall.1, i1⟩
        · exact ((cacheTree_iff t).mp h) d hd'
      · intro hn
        unfold cacheNode at hn ⊢
        simp only [storeKid, S.setKids_ops, S.setKids_prio, S.setKids_queued, S.setKids_kids]
        cases hops : t.ops with
        | cons o _ => rw [hops] at hn; exact hn
        | nil =>
          rw [hops] at hn
          simp only [] at hn ⊢
          rcases hn with hnil | ⟨g0, hg0, hg0q, hg0p⟩
          · exact Or.inl hnil
          · right
            by_cases hgk : g0.key = c.key
            · have : g0 = c := kid_unique t.kids hq.1.keys c g0 hcmem hg0 hgk
              subst this
              exact ⟨c', (mem_replaceKid _ _ _).mpr (Or.inl ⟨rfl, g0, hcmem, i4.symm⟩), by rw [i4]; exact hg0q,
                by rw [i3]; exact hg0p⟩
            · exact ⟨g0, (mem_replaceKid _ _ _).mpr (Or.inr ⟨hg0, by rw [i4]; exact hgk⟩), hg0q, hg0p⟩

/-! ### the two leaf functions -/

def createLeaf (k now : Nat) (i : Inv) : Inv :=
  if (i.child k).isSome then i else i.setKids (i.kids ++ [emptyInv k now])

def keepKid (k : Nat) (c : Inv) : Bool :=
  !(c.key == k && !c.isQueued && c.exec == 0 && !c.hasParked && c.kids.isEmpty)

def removeLeaf (k : Nat) (i : Inv) : Inv := i.setKids (i.kids.filter (keepKid k))

theorem createInvocation_eq (k now : Nat) : createInvocation k now = updatePath (createLeaf k now) storeKid := rfl
theorem removeInvocation_eq (k : Nat) : removeInvocation k = updatePath (removeLeaf k) storeKid := rfl

theorem emptyInv_hasQueued (k now : Nat) : (emptyInv k now).hasQueued = false := by
  rw [hasQueued_eq]; rfl
theorem emptyInv_hasParked (k now : Nat) : (emptyInv k now).hasParked = false := rfl

theorem heapTree_emptyInv (k now : Nat) : HeapTree (emptyInv k now) := by
  refine HeapTree.mk _ (by simp [emptyInv, Inv.kids]) (by simp [emptyInv, Inv.queued]) ?_ ?_ ?_ ?_ ?_
  · intro x hx; simp [emptyInv, Inv.queued] at hx
  · intro c hc; simp [emptyInv, Inv.kids] at hc
  · intro c _ hcn; simp [emptyInv, Inv.ops] at hcn
  · intro c _ hcn; simp [queuedNodes, emptyInv, Inv.queued] at hcn
  · intro c hc; simp [emptyInv, Inv.kids] at hc

theorem isQueued_of_heapTree (c : Inv) (h : HeapTree c) : c.isQueued = c.hasQueued :=
  isQueued_eq_hasQueued c ((wf_iff c).mp h.wf)

theorem filterMap_congr_mem {α β : Type} (f g : α → Option β) : ∀ (l : List α), (∀ x ∈ l, f x = g x) →
    l.filterMap f = l.filterMap g
  | [], _ => rfl
  | a :: l, h => by
    rw [List.filterMap_cons, List.filterMap_cons, h a List.mem_cons_self,
      filterMap_congr_mem f g l fun x hx => h x (List.mem_cons_of_mem _ hx)]

theorem find?_and_of_find? {α : Type} (p q : α → Bool) : ∀ (l : List α) (d : α), l.find? q = some d → p d = true →
    l.find? (fun a => p a && q a) = some d
  | [], _, h, _ => by cases h
  | a :: l, d, h, hp => by
    rw [List.find?_cons] at h ⊢
    cases hq : q a with
    | true =>
      rw [hq] at h
      simp only [Option.some.injEq] at h
      subst h
      simp [hp]
    | false =>
      rw [hq] at h
      simp only [Bool.and_false]
      exact find?_and_of_find? p q l d h hp

/-- The nodes of `queuedChildren` do not change when children that are not referenced come or go. -/
theorem queuedNodes_of_lookup (i N : Inv) (hq : N.queued = i.queued)
    (hfind : ∀ x ∈ i.queued, (N.kids.find? fun c => c.key == x) = i.kids.find? fun c => c.key == x) :
    queuedNodes N = queuedNodes i := by
  unfold queuedNodes
  rw [hq]
  exact filterMap_congr_mem _ _ _ hfind

theorem heap_createLeaf (k now : Nat) (i : Inv) (h : HeapTree i) :
    HeapTree (createLeaf k now i) ∧ (createLeaf k now i).key = i.key ∧ KeyEq (createLeaf k now i) i ∧
      (createLeaf k now i).hasQueued = i.hasQueued := by
  unfold createLeaf
  split
  · exact ⟨h, rfl, KeyEq.refl i, rfl⟩
  · rename_i hnone
    have hk : ∀ c ∈ i.kids, c.key ≠ k := by
      intro c hc hck
      have : i.child k = none := by
        cases hh : i.child k with
        | none => rfl
        | some _ => rw [hh] at hnone; simp at hnone
      unfold Inv.child at this
      have := List.find?_eq_none.mp this c hc
      simp [hck] at this
    have hq := (heapTree_iff i).mp h
    refine ⟨?_, by simp, ⟨by simp, by simp, by simp⟩, ?_⟩
    · rw [heapTree_iff]
      constructor
      · constructor
        · simp only [S.setKids_kids, List.map_append, List.map_cons, List.map_nil]
          rw [List.nodup_append]
          refine ⟨hq.1.keys, by simp, ?_⟩
          intro a ha b hb
          simp only [List.mem_singleton] at hb
          subst hb
          obtain ⟨c, hc, rfl⟩ := List.mem_map.mp ha
          exact hk c hc
        · simpa using hq.1.qnodup
        · intro x hx
          obtain ⟨c, hc, hck, hcq⟩ := hq.1.qsub x (by simpa using hx)
          exact ⟨c, by simp [hc], hck, hcq⟩
        · intro c hc hcq
          simp only [S.setKids_kids, List.mem_append, List.mem_singleton] at hc
          rcases hc with hc | rfl
          · simpa using hq.1.qsup c hc hcq
          · rw [emptyInv_hasQueued] at hcq; cases hcq
        · simpa using hq.1.opsHeap
        · rw [queuedNodes_of_lookup i _ (by simp)]
          · exact hq.1.kidsHeap
          · intro x hx
            simp only [S.setKids_kids, List.find?_append]
            obtain ⟨c, hc, hck, _⟩ := hq.1.qsub x hx
            have := child_of_mem i hq.1.keys c hc
            unfold Inv.child at this
            rw [← hck, this]; rfl
      · intro c hc
        simp only [S.setKids_kids, List.mem_append, List.mem_singleton] at hc
        rcases hc with hc | rfl
        · exact hq.2 c hc
        · exact heapTree_emptyInv k now
    · rw [hasQueued_eq, hasQueued_eq]
      simp only [S.setKids_ops, S.setKids_kids, List.any_append, List.any_cons, List.any_nil, emptyInv_hasQueued,
        Bool.or_false]

theorem keepKid_of_hasQueued (k : Nat) (c : Inv) (hc : HeapTree c) (hq : c.hasQueued = true) : keepKid k c = true := by
  unfold keepKid
  rw [isQueued_of_heapTree c hc, hq]
  simp

theorem heap_removeLeaf (k : Nat) (i : Inv) (h : HeapTree i) :
    HeapTree (removeLeaf k i) ∧ (removeLeaf k i).key = i.key ∧ KeyEq (removeLeaf k i) i ∧
      (removeLeaf k i).hasQueued = i.hasQueued := by
  have hq := (heapTree_iff i).mp h
  unfold removeLeaf
  refine ⟨?_, by simp, ⟨by simp, by simp, by simp⟩, ?_⟩
  · rw [heapTree_iff]
    constructor
    · constructor
      · simp only [S.setKids_kids]
        exact List.Nodup.sublist (List.Sublist.map _ List.filter_sublist) hq.1.keys
      · simpa using hq.1.qnodup
      · intro x hx
        obtain ⟨c, hc, hck, hcq⟩ := hq.1.qsub x (by simpa using hx)
        exact ⟨c, by simpa using List.mem_filter.mpr ⟨hc, keepKid_of_hasQueued k c (hq.2 c hc) hcq⟩, hck, hcq⟩
      · intro c hc hcq
        simp only [S.setKids_kids] at hc
        simpa using hq.1.qsup c (List.mem_filter.mp hc).1 hcq
      · simpa using hq.1.opsHeap
      · rw [queuedNodes_of_lookup i _ (by simp)]
        · exact hq.1.kidsHeap
        · intro x hx
          simp only [S.setKids_kids, List.find?_filter]
          obtain ⟨c, hc, hck, hcq⟩ := hq.1.qsub x hx
          have hf := child_of_mem i hq.1.keys c hc
          unfold Inv.child at hf
          rw [hck] at hf
          rw [hf]
          have := find?_and_of_find? (keepKid k) _ i.kids c hf (keepKid_of_hasQueued k c (hq.2 c hc) hcq)
          rw [← this]
          congr 1
          funext a
          have : decide (a.key = x) = (a.key == x) := by
            by_cases h : a.key = x <;> simp [h]
          cases keepKid k a <;> simp [this]
    · intro c hc
      simp only [S.setKids_kids] at hc
      exact hq.2 c (List.mem_filter.mp hc).1
  · rw [hasQueued_eq, hasQueued_eq]
    simp only [S.setKids_ops, S.setKids_kids, List.any_filter]
    congr 1
    apply any_congr_mem
    intro c hc
    cases hcq : c.hasQueued with
    | false => simp
    | true => rw [keepKid_of_hasQueued k c (hq.2 c hc) hcq]; rfl

theorem parkedTree_emptyInv (k now : Nat) : ParkedTree (emptyInv k now) := by
  refine ParkedTree.mk _ ⟨by simp [emptyInv, Inv.kids], by simp [emptyInv, Inv.parkedKids], ?_, ?_⟩ ?_
  · intro x hx; simp [emptyInv, Inv.parkedKids] at hx
  · intro c hc; simp [emptyInv, Inv.kids] at hc
  · intro c hc; simp [emptyInv, Inv.kids] at hc

theorem parked_createLeaf (k now : Nat) (i : Inv) (h : ParkedTree i) :
    ParkedTree (createLeaf k now i) ∧ (createLeaf k now i).key = i.key ∧ (createLeaf k now i).hasParked = i.hasParked := by
  unfold createLeaf
  split
  · exact ⟨h, rfl, rfl⟩
  · rename_i hnone
    have hk : ∀ c ∈ i.kids, c.key ≠ k := by
      intro c hc hck
      have : i.child k = none := by
        cases hh : i.child k with
        | none => rfl
        | some _ => rw [hh] at hnone; simp at hnone
      unfold Inv.child at this
      have := List.find?_eq_none.mp this c hc
      simp [hck] at this
    have hq := (parkedTree_iff i).mp h
    refine ⟨?_, by simp, hasParked_congr i _ (by simp) (by simp)⟩
    rw [parkedTree_iff]
    constructor
    · constructor
      · simp only [S.setKids_kids, List.map_append, List.map_cons, List.map_nil]
        rw [List.nodup_append]
        refine ⟨hq.1.keys, by simp, ?_⟩
        intro a ha b hb
        simp only [List.mem_singleton] at hb
        subst hb
        obtain ⟨c, hc, rfl⟩ := List.mem_map.mp ha
        exact hk c hc
      · simpa using hq.1.pnodup
      · intro x hx
        obtain ⟨c, hc, hck, hcq⟩ := hq.1.psub x (by simpa using hx)
        exact ⟨c, by simp [hc], hck, hcq⟩
      · intro c hc hcq
        simp only [S.setKids_kids, List.mem_append, List.mem_singleton] at hc
        rcases hc with hc | rfl
        · simpa using hq.1.psup c hc hcq
        · rw [emptyInv_hasParked] at hcq; cases hcq
    · intro c hc
      simp only [S.setKids_kids, List.mem_append, List.mem_singleton] at hc
      rcases hc with hc | rfl
      · exact hq.2 c hc
      · exact parkedTree_emptyInv k now

theorem keepKid_of_hasParked (k : Nat) (c : Inv) (hq : c.hasParked = true) : keepKid k c = true := by
  unfold keepKid; rw [hq]; simp

theorem parked_removeLeaf (k : Nat) (i : Inv) (h : ParkedTree i) :
    ParkedTree (removeLeaf k i) ∧ (removeLeaf k i).key = i.key ∧ (removeLeaf k i).hasParked = i.hasParked := by
  have hq := (parkedTree_iff i).mp h
  unfold removeLeaf
  refine ⟨?_, by simp, hasParked_congr i _ (by simp) (by simp)⟩
  rw [parkedTree_iff]
  constructor
  · constructor
    · simp only [S.setKids_kids]
      exact List.Nodup.sublist (List.Sublist.map _ List.filter_sublist) hq.1.keys
    · simpa using hq.1.pnodup
    · intro x hx
      obtain ⟨c, hc, hck, hcq⟩ := hq.1.psub x (by simpa using hx)
      exact ⟨c, by simpa using List.mem_filter.mpr ⟨hc, keepKid_of_hasParked k c hcq⟩, hck, hcq⟩
    · intro c hc hcq
      simp only [S.setKids_kids] at hc
      simpa using hq.1.psup c (List.mem_filter.mp hc).1 hcq
  · intro c hc
    simp only [S.setKids_kids] at hc
    exact hq.2 c (List.mem_filter.mp hc).1

theorem cacheTree_emptyInv (k now : Nat) : CacheTree (emptyInv k now) :=
  CacheTree.mk _ (by intro c hc; simp [emptyInv, Inv.kids] at hc) (by intro c hc; simp [emptyInv, Inv.kids] at hc)

theorem cache_createLeaf (k now : Nat) (i : Inv) (_ : HeapTree i) (h : CacheTree i) :
    CacheTree (createLeaf k now i) ∧ (cacheNode i → cacheNode (createLeaf k now i)) ∧
      (createLeaf k now i).prio = i.prio ∧ (createLeaf k now i).key = i.key := by
  unfold createLeaf
  split
  · exact ⟨h, id, rfl, rfl⟩
  · refine ⟨?_, ?_, by simp, by simp⟩
    · rw [cacheTree_iff]
      intro c hc
      simp only [S.setKids_kids, List.mem_append, List.mem_singleton] at hc
      rcases hc with hc | rfl
      · exact ((cacheTree_iff i).mp h) c hc
      · exact ⟨Or.inl rfl, cacheTree_emptyInv k now⟩
    · intro hn
      unfold cacheNode at hn ⊢
      simp only [S.setKids_ops, S.setKids_prio, S.setKids_queued, S.setKids_kids]
      cases hops : i.ops with
      | cons o _ => rw [hops] at hn; exact hn
      | nil =>
        rw [hops] at hn
        simp only [] at hn ⊢
        rcases hn with hnil | ⟨g, hg, hgq, hgp⟩
        · exact Or.inl hnil
        · exact Or.inr ⟨g, by simp [hg], hgq, hgp⟩

theorem cache_removeLeaf (k : Nat) (i : Inv) (hi : HeapTree i) (h : CacheTree i) :
    CacheTree (removeLeaf k i) ∧ (cacheNode i → cacheNode (removeLeaf k i)) ∧
      (removeLeaf k i).prio = i.prio ∧ (removeLeaf k i).key = i.key := by
  have hq := (heapTree_iff i).mp hi
  unfold removeLeaf
  refine ⟨?_, ?_, by simp, by simp⟩
  · rw [cacheTree_iff]
    intro c hc
    simp only [S.setKids_kids] at hc
    exact ((cacheTree_iff i).mp h) c (List.mem_filter.mp hc).1
  · intro hn
    unfold cacheNode at hn ⊢
    simp only [S.setKids_ops, S.setKids_prio, S.setKids_queued, S.setKids_kids]
    cases hops : i.ops with
    | cons o _ => rw [hops] at hn; exact hn
    | nil =>
      rw [hops] at hn
      simp only [] at hn ⊢
      rcases hn with hnil | ⟨g, hg, hgq, hgp⟩
      · exact Or.inl hnil
      · refine Or.inr ⟨g, List.mem_filter.mpr ⟨hg, ?_⟩, hgq, hgp⟩
        exact keepKid_of_hasQueued k g (hq.2 g hg) ((mem_queued_iff i g hq.1 hg).mp hgq)

/-! ### exact caches -/

theorem firstPrio_of_lookup (i N : Inv) (ho : N.ops = i.ops) (hq : N.queued = i.queued) (hp : N.prio = i.prio)
    (hfind : ∀ x ∈ i.queued, (N.kids.find? fun c => c.key == x) = i.kids.find? fun c => c.key == x) :
    firstPrio N = firstPrio i := by
  unfold firstPrio
  rw [ho, hq, hp]
  cases i.ops with
  | cons _ _ => rfl
  | nil =>
    cases hqq : i.queued with
    | nil => rfl
    | cons b _ =>
      simp only []
      unfold kidOr
      rw [hfind b (by rw [hqq]; exact List.mem_cons_self)]

theorem exactTree_emptyInv (k now : Nat) : ExactTree (emptyInv k now) :=
  ExactTree.mk _ (by intro c hc; simp [emptyInv, Inv.kids] at hc) (by intro c hc; simp [emptyInv, Inv.kids] at hc)

theorem exact_createLeaf (k now : Nat) (i : Inv) (hi : HeapTree i) (h : ExactTree i) :
    ExactTree (createLeaf k now i) ∧ (createLeaf k now i).prio = i.prio ∧
      firstPrio (createLeaf k now i) = firstPrio i ∧ (createLeaf k now i).key = i.key := by
  have hq := (heapTree_iff i).mp hi
  unfold createLeaf
  split
  · exact ⟨h, rfl, rfl, rfl⟩
  · refine ⟨?_, by simp, ?_, by simp⟩
    · rw [exactTree_iff]
      intro c hc
      simp only [S.setKids_kids, List.mem_append, List.mem_singleton] at hc
      rcases hc with hc | rfl
      · exact ((exactTree_iff i).mp h) c hc
      · exact ⟨rfl, exactTree_emptyInv k now⟩
    · apply firstPrio_of_lookup i _ (by simp) (by simp) (by simp)
      intro x hx
      simp only [S.setKids_kids, List.find?_append]
      obtain ⟨c, hc, hck, _⟩ := hq.1.qsub x hx
      have := child_of_mem i hq.1.keys c hc
      unfold Inv.child at this
      rw [← hck, this]; rfl

theorem exact_removeLeaf (k : Nat) (i : Inv) (hi : HeapTree i) (h : ExactTree i) :
    ExactTree (removeLeaf k i) ∧ (removeLeaf k i).prio = i.prio ∧
      firstPrio (removeLeaf k i) = firstPrio i ∧ (removeLeaf k i).key = i.key := by
  have hq := (heapTree_iff i).mp hi
  unfold removeLeaf
  refine ⟨?_, by simp, ?_, by simp⟩
  · rw [exactTree_iff]
    intro c hc
    simp only [S.setKids_kids] at hc
    exact ((exactTree_iff i).mp h) c (List.mem_filter.mp hc).1
  · apply firstPrio_of_lookup i _ (by simp) (by simp) (by simp)
    intro x hx
    simp only [S.setKids_kids, List.find?_filter]
    obtain ⟨c, hc, hck, hcq⟩ := hq.1.qsub x hx
    have hf := child_of_mem i hq.1.keys c hc
    unfold Inv.child at hf
    rw [hck] at hf
    rw [hf]
    have := find?_and_of_find? (keepKid k) _ i.kids c hf (keepKid_of_hasQueued k c (hq.2 c hc) hcq)
    rw [← this]
    congr 1
    funext a
    have : decide (a.key = x) = (a.key == x) := by
      by_cases h : a.key = x <;> simp [h]
    cases keepKid k a <;> simp [this]

theorem exact_create (k now : Nat) (path : List Nat) (t : Inv) (ht : HeapTree t) (h : ExactTree t) :
    ExactTree (createInvocation k now path t) :=
  (exact_stable _ storeKid (exact_createLeaf k now) (by intro P c'; simp [storeKid]) path t ht h).1

theorem exact_removeInvocation (k : Nat) (path : List Nat) (t : Inv) (ht : HeapTree t) (h : ExactTree t) :
    ExactTree (removeInvocation k path t) :=
  (exact_stable _ storeKid (exact_removeLeaf k) (by intro P c'; simp [storeKid]) path t ht h).1

end BbRe.Lemmas.Fair
