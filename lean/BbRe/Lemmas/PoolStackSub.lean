import BbRe.Lemmas.PoolStack
import BbRe.Lemmas.FilePoolOps2
/-!
The file layer never holds a sector it was not handed: after any operation of `Model/FilePool.lean`
the allocated list is contained in the allocated list before it plus the sectors of the allocator
answers supplied with the operation (`step_allocd_sub`).  `Bd S e`: everything allocated in `e`, and
everything the remaining answers could still add, lies in `S`.
-/
namespace BbRe.Lemmas.PoolStack
open BbRe BbRe.PoolStack BbRe.FilePool BbRe.Lemmas.FilePool

def Bd (S : Nat → Prop) (e : Env) : Prop :=
  (∀ s ∈ e.allocd, S s) ∧ (∀ s ∈ ansSectors e.answers, S s)

theorem Bd.same {S : Nat → Prop} {e e' : Env} (h : Bd S e) (hs : SameAlloc e e') : Bd S e' := by
  obtain ⟨a, _, c⟩ := hs
  exact ⟨by rw [a]; exact h.1, by rw [c]; exact h.2⟩

theorem Bd.alloc {S : Nat → Prop} {e : Env} (h : Bd S e) (c : Cfg) (m : Nat) : Bd S (e.alloc c m).1 := by
  unfold Env.alloc
  split
  · exact h
  · rename_i rest heq
    refine ⟨h.1, fun s hs => h.2 s ?_⟩
    rw [heq]; simpa [ansSectors] using hs
  · rename_i first count rest heq
    have h2 : ∀ s ∈ ansSectors rest, S s := fun s hs => h.2 s (by
      rw [heq]; simp only [ansSectors, List.mem_append]; exact Or.inr hs)
    have h3 : ∀ s ∈ List.range' first count, S s := fun s hs => h.2 s (by
      rw [heq]; simp only [ansSectors, List.mem_append]; exact Or.inl hs)
    split
    · refine ⟨fun s hs => ?_, h2⟩
      rcases List.mem_append.1 hs with h' | h'
      · exact h3 s h'
      · exact h.1 s h'
    · exact ⟨h.1, h2⟩

theorem foldl_freeOne_sub (l : List Nat) : ∀ (a : List Nat × Bool), ∀ s ∈ (l.foldl freeOne a).1, s ∈ a.1 := by
  induction l with
  | nil => intro a s hs; exact hs
  | cons x xs ih =>
    intro a s hs
    simp only [List.foldl_cons] at hs
    have := ih _ s hs
    unfold freeOne at this
    split at this
    · exact this
    · split at this
      · exact List.mem_of_mem_erase this
      · exact this

theorem Bd.freeList {S : Nat → Prop} {e : Env} (h : Bd S e) (l : List Nat) : Bd S (e.freeList l) := by
  unfold Env.freeList
  exact ⟨fun s hs => h.1 s (foldl_freeOne_sub l _ s hs), h.2⟩

theorem Bd.wns {S : Nat → Prop} {e : Env} (h : Bd S e) (c : Cfg) (hole : Hole) (p : List Byte) (idx ow : Nat) :
    Bd S (writeToNewSectors c hole e p idx ow).1 := by
  unfold writeToNewSectors
  have ha := h.alloc c ((ow + p.length + c.ss - 1) / c.ss)
  split
  · rename_i e1 heq; rw [heq] at ha; exact ha
  · rename_i e1 heq; rw [heq] at ha; exact ha
  · rename_i e1 first got heq
    rw [heq] at ha
    dsimp only
    have hp := wnsPhases_same c hole e1 (List.take (got * c.ss - ow) p) first idx ow
    split
    · rename_i e2 x heq2
      rw [heq2] at hp
      exact Bd.freeList (ha.same hp) _
    · rename_i e2 heq2
      rw [heq2] at hp
      exact ha.same hp

theorem Bd.wns' {S : Nat → Prop} {e : Env} (h : Bd S e) {c : Cfg} {hole : Hole} {p : List Byte} {idx ow : Nat}
    {r : Env × Except Err (Nat × Nat × Nat)} (heq : writeToNewSectors c hole e p idx ow = r) : Bd S r.1 :=
  heq ▸ h.wns c hole p idx ow

theorem Bd.wts {S : Nat → Prop} {e : Env} (h : Bd S e) (c : Cfg) (f : File) (p : List Byte) (idx endIdx ow : Nat) :
    Bd S (writeToSectors c f e p idx endIdx ow).2.1 := by
  unfold writeToSectors
  split
  · split
    · rename_i heq; exact h.wns' heq
    · rename_i heq
      try dsimp only
      split <;> exact h.wns' heq
  · dsimp only
    split
    · split
      · rename_i heq; exact h.wns' heq
      · rename_i heq
        try dsimp only
        split <;> exact h.wns' heq
    · split <;> exact h.same (devWrite_same _ _ _)

theorem Bd.wloop {S : Nat → Prop} (c : Cfg) : ∀ (fuel : Nat) (f : File) (e : Env) (p : List Byte) (idx endIdx ow : Nat),
    Bd S e → Bd S (writeLoop c fuel f e p idx endIdx ow).2.1 := by
  intro fuel
  induction fuel with
  | zero => intro f e p idx endIdx ow h; exact h
  | succ k ih =>
    intro f e p idx endIdx ow h
    unfold writeLoop
    dsimp only
    have hw := h.wts c f p idx endIdx ow
    split
    · exact hw
    · split
      · exact hw
      · exact ih _ _ _ _ _ _ hw

theorem Bd.wat {S : Nat → Prop} {e : Env} (h : Bd S e) (c : Cfg) (f : File) (p : List Byte) (off : Int) :
    Bd S (writeAt c f e p off).2.1 := by
  unfold writeAt
  split
  · exact h
  · split
    · exact h
    · dsimp only
      exact Bd.wloop c _ _ _ _ _ _ _ h

theorem Bd.truncSecs {S : Nat → Prop} {e : Env} (h : Bd S e) (f : File) (k : Nat) : Bd S (truncateSectors f e k).2 := by
  unfold truncateSectors
  split
  · exact h.freeList _
  · exact h

theorem Bd.trunc {S : Nat → Prop} {e : Env} (h : Bd S e) (c : Cfg) (f : File) (size : Int) :
    Bd S (truncate c f e size).2.1 := by
  unfold truncate
  split
  · exact h
  · dsimp only
    generalize hzr : (if size.toNat % c.ss ≠ 0 ∧ size.toNat < f.size ∧ size.toNat / c.ss < f.sectors.length ∧
        f.sectors.getD (size.toNat / c.ss) 0 ≠ 0 then
        e.devWrite ((f.sectors.getD (size.toNat / c.ss) 0 - 1) * c.ss + size.toNat % c.ss)
          (List.replicate (min (c.ss - size.toNat % c.ss) (f.size - size.toNat)) 0)
        else (e, none)) = zr
    have hs : SameAlloc e zr.1 := by
      rw [← hzr]; split
      · exact devWrite_same _ _ _
      · exact SameAlloc.refl e
    have h1 := h.same hs
    split
    · exact h1
    · generalize (if size.toNat % c.ss = 0 then size.toNat / c.ss else size.toNat / c.ss + 1) = k
      have ht := h1.truncSecs f k
      split
      · split
        · exact ⟨ht.1, ht.2⟩
        · exact ht
      · exact ht

theorem Bd.close {S : Nat → Prop} {e : Env} (h : Bd S e) (f : File) : Bd S (close f e).2.1 := by
  unfold FilePool.close
  dsimp only
  have h1 : Bd S (if f.sectors.length > 0 then e.freeList f.sectors else e) := by
    split
    · exact h.freeList _
    · exact h
  generalize (if f.sectors.length > 0 then e.freeList f.sectors else e) = e1 at h1 ⊢
  split
  · exact ⟨h1.1, h1.2⟩
  · exact h1

/-- the environment an operation starts in -/
theorem Bd.env (st : FilePool.State) (o : Oracle) :
    Bd (fun s => s ∈ st.allocd ∨ s ∈ ansSectors o.answers) (st.env o) :=
  ⟨fun _ hs => Or.inl hs, fun _ hs => Or.inr hs⟩

theorem finish_allocd (e : Env) (st : FilePool.State) (out : Out) : (finish e st out).1 = st := by
  unfold finish; split <;> rfl

/-- **The file layer never holds a sector it was not handed.** -/
theorem step_allocd_sub (st : FilePool.State) (op : Op) (o : Oracle) :
    ∀ s ∈ (FilePool.step st op o).1.allocd, s ∈ st.allocd ∨ s ∈ ansSectors o.answers := by
  have h0 := Bd.env st o
  unfold FilePool.step
  dsimp only
  split
  · rw [finish_allocd]; exact fun s hs => Or.inl hs
  · split
    · exact fun s hs => Or.inl hs
    · rw [finish_allocd]
      exact (h0.same (readAt_same _ _ _ _ _)).1
  · split
    · exact fun s hs => Or.inl hs
    · rw [finish_allocd]
      exact (h0.wat _ _ _ _).1
  · split
    · exact fun s hs => Or.inl hs
    · rw [finish_allocd]
      exact (h0.trunc _ _ _).1
  · split
    · exact fun s hs => Or.inl hs
    · rw [finish_allocd]
      exact (h0.same (seek_same _ _ _ _ _)).1
  · split
    · exact fun s hs => Or.inl hs
    · rw [finish_allocd]; exact fun s hs => Or.inl hs
  · split
    · exact fun s hs => Or.inl hs
    · rw [finish_allocd]
      exact (h0.close _).1

end BbRe.Lemmas.PoolStack
