import BbRe.Lemmas.SchedTreePrimQueue
import BbRe.Lemmas.SchedTreePrimRefresh
import BbRe.Lemmas.SchedTreePrimCreate
/-!
The loops `for o in t.operations { … }` of the tree layer (`TState.incOps`, `decOps`, `enqOps`, `deqOps`,
`createOps`): the single-step lemmas of `SchedTreePrim*.lean` lifted to `List.foldl` over operation names.
-/
namespace BbRe.Lemmas.SchedTree
open BbRe.Sched BbRe.SchedTree
variable {X : List (ScqId × List Nat)} {ns : List Node} {E : List EC} {I : List IC} {Q : List QC} {P : List PC}

/-! ### existence of nodes under key-preserving updates -/

/-- existence of a node only depends on the list of keys -/
theorem node?_isSome_of_keys {ns ns' : List Node} (h : ns'.map nkey = ns.map nkey) (q : ScqId) (p : List Nat) :
    (node? ns' q p).isSome = (node? ns q p).isSome := by
  have key : ∀ l : List Node, (node? l q p).isSome = true ↔ (q, p) ∈ l.map nkey := by
    intro l
    rw [node?_isSome_iff, List.mem_map]
    constructor
    · rintro ⟨n, hn, h1, h2⟩; exact ⟨n, hn, by rw [nkey, h1, h2]⟩
    · rintro ⟨n, hn, e⟩
      have e1 : n.scq = q := congrArg Prod.fst e
      have e2 : n.path = p := congrArg Prod.snd e
      exact ⟨n, hn, e1, e2⟩
  rw [Bool.eq_iff_iff, key, key, h]

theorem updNode_keys (ns : List Node) (q : ScqId) (p : List Nat) (f : Node → Node)
    (hf : ∀ n ∈ ns, n.isAt q p = true → nkey (f n) = nkey n) :
    (updNode ns q p f).map nkey = ns.map nkey := by
  unfold updNode
  rw [List.map_map]
  apply List.map_congr_left
  intro n hn
  show nkey (if n.isAt q p then f n else n) = nkey n
  by_cases hc : n.isAt q p = true
  · rw [if_pos hc]; exact hf n hn hc
  · rw [if_neg hc]

theorem updPrio_key (prioOf : Nat → Int) (ns : List Node) (n : Node) : nkey (updPrio prioOf ns n) = nkey n := by
  rw [PrimQueue.updPrio_eq]; rfl

theorem enqStep_keys (prioOf : Nat → Int) (q : ScqId) (ns : List Node) (pi : List Nat) :
    (enqStep prioOf q ns pi).map nkey = ns.map nkey := by
  unfold enqStep
  split
  · rfl
  · rename_i i hi
    obtain ⟨_, h1, h2⟩ := node?_some hi
    simp only
    rw [updNode_keys, updNode_keys]
    · intro n _ hat
      obtain ⟨a, b⟩ := (isAt_iff n q pi).mp hat
      rw [updPrio_key]; unfold nkey; rw [h1, h2, a, b]
    · intro _ _ _; rfl

theorem deqStep_keys (prioOf : Nat → Int) (q : ScqId) (ns : List Node) (pi : List Nat) :
    (deqStep prioOf q ns pi).map nkey = ns.map nkey := by
  unfold deqStep
  split
  · rfl
  · rename_i i hi
    obtain ⟨_, h1, h2⟩ := node?_some hi
    have hk : (updNode ns q pi (fun _ => updPrio prioOf ns i)).map nkey = ns.map nkey := by
      apply updNode_keys
      intro n _ hat
      obtain ⟨a, b⟩ := (isAt_iff n q pi).mp hat
      rw [updPrio_key]; unfold nkey; rw [h1, h2, a, b]
    simp only
    split
    · rw [updNode_keys, hk]
      intro _ _ _; rfl
    · exact hk

theorem foldl_keys (step : List Node → List Nat → List Node)
    (hs : ∀ ns pi, (step ns pi).map nkey = ns.map nkey) (l : List (List Nat)) :
    ∀ ns : List Node, (l.foldl step ns).map nkey = ns.map nkey := by
  induction l with
  | nil => intro ns; rfl
  | cons a r ih => intro ns; rw [List.foldl_cons, ih, hs]

/-- existence of nodes is not changed by the primitives that only map over the node list -/
theorem incExec_isSome (ns : List Node) (q : ScqId) (p : List Nat) (k : WKey) (now : Nat) (q' : ScqId) (p' : List Nat) :
    (node? (incExec ns q p k now) q' p').isSome = (node? ns q' p').isSome := by
  unfold incExec
  rw [updPath_eq_map, node?_map, Option.isSome_map]
  exact keepsKey_ite (fun n => ⟨rfl, rfl⟩)

theorem incExecR_isSome (lg : Bool) (pr : Nat → Int) (ns : List Node) (q : ScqId) (p : List Nat) (k : WKey) (now : Nat)
    (q' : ScqId) (p' : List Nat) :
    (node? (incExecR lg pr ns q p k now) q' p').isSome = (node? ns q' p').isSome := by
  unfold incExecR
  split
  · exact incExec_isSome ns q p k now q' p'
  · rw [refreshUp_isSome]; exact incExec_isSome ns q p k now q' p'

theorem enqueueOp_isSome (prioOf : Nat → Int) (ns : List Node) (q : ScqId) (p : List Nat) (o : Nat) (q' : ScqId) (p' : List Nat) :
    (node? (enqueueOp prioOf ns q p o) q' p').isSome = (node? ns q' p').isSome := by
  apply node?_isSome_of_keys
  unfold enqueueOp
  rw [foldl_keys _ (enqStep_keys prioOf q), updNode_keys]
  intro _ _ _; rfl

theorem removeQueuedOp_isSome (prioOf : Nat → Int) (ns : List Node) (q : ScqId) (p : List Nat) (o : Nat) (q' : ScqId) (p' : List Nat) :
    (node? (removeQueuedOp prioOf ns q p o) q' p').isSome = (node? ns q' p').isSome := by
  apply node?_isSome_of_keys
  unfold removeQueuedOp
  rw [foldl_keys _ (deqStep_keys prioOf q), updNode_keys]
  intro _ _ _; rfl

/-! ### the loops -/

theorem mem_filter_offOps {X : List (ScqId × List Nat)} {q : ScqId} {inv : Nat → List Nat} {ops : List Nat}
    {x : ScqId × List Nat} :
    x ∈ X.filter (fun x => !ops.any (fun o => onPathOf q (inv o) x)) ↔
      x ∈ X ∧ ∀ o ∈ ops, onPathOf q (inv o) x = false := by
  rw [List.mem_filter]
  simp only [Bool.not_eq_eq_eq_not, Bool.not_true, List.any_eq_false, Bool.not_eq_true]

theorem filter_offOps_cons_sub (X : List (ScqId × List Nat)) (q : ScqId) (inv : Nat → List Nat) (o : Nat) (rest : List Nat) :
    ∀ x ∈ (offPath X q (inv o)).filter (fun x => !rest.any (fun o => onPathOf q (inv o) x)),
      x ∈ X.filter (fun x => !(o :: rest).any (fun o => onPathOf q (inv o) x)) := by
  intro x hx
  rw [mem_filter_offOps] at hx ⊢
  obtain ⟨hx1, hx2⟩ := hx
  unfold offPath at hx1
  rw [List.mem_filter] at hx1
  refine ⟨hx1.1, ?_⟩
  intro o' ho'
  rcases List.mem_cons.mp ho' with e | e
  · subst e; simpa using hx1.2
  · exact hx2 o' e

/-- `for o in ops { incrementExecutingWorkersCount(inv o, k) }`; afterwards no invocation on the path of
one of the operations is exempt -/
theorem incOps_ok (h : TreeOK X ns E I Q P) (lg : Bool) (pr : Nat → Int) (q : ScqId) (inv : Nat → List Nat) (k : WKey) (now : Nat) (ops : List Nat)
    (hn : ∀ o ∈ ops, (node? ns q (inv o)).isSome = true) :
    TreeOK (X.filter (fun x => !ops.any (fun o => onPathOf q (inv o) x)))
      (ops.foldl (fun ns o => incExecR lg pr ns q (inv o) k now) ns)
      (ops.map (fun o => (q, inv o, k)) ++ E) I Q P := by
  induction ops generalizing X ns E with
  | nil => exact h.exempt_more _ (fun x hx => mem_filter_offOps.mpr ⟨hx, fun o ho => nomatch ho⟩)
  | cons o rest ih =>
    have h1 := incExecR_ok h lg pr q (inv o) k now (hn o List.mem_cons_self)
    have h2 := ih h1 (fun o' ho' => by rw [incExecR_isSome]; exact hn o' (List.mem_cons_of_mem _ ho'))
    rw [List.foldl_cons, List.map_cons, List.cons_append]
    exact (h2.congr List.perm_middle (List.Perm.refl _) (fun _ => Iff.rfl) (fun _ => Iff.rfl)).exempt_more _
      (filter_offOps_cons_sub X q inv o rest)

/-- `for o in ops { decrementExecutingWorkersCount(inv o, k) }` when nothing is exempt -/
theorem decOps_ok (lg : Bool) (pr : Nat → Int) (q : ScqId) (inv : Nat → List Nat) (k : WKey) (now : Nat) (ops : List Nat) :
    ∀ {ns : List Node}, TreeOK [] ns (ops.map (fun o => (q, inv o, k)) ++ E) I Q P →
      TreeOK [] (ops.foldl (fun ns o => decExecR lg pr ns q (inv o) k now) ns) E I Q P := by
  induction ops with
  | nil => intro ns h; simpa using h
  | cons o rest ih =>
    intro ns h
    rw [List.map_cons, List.cons_append] at h
    have h1 := decExecR_ok h lg pr q (inv o) k now List.mem_cons_self (fun x hx => by cases hx)
    rw [List.erase_cons_head] at h1
    rw [List.foldl_cons]
    exact ih h1

/-- `for o in ops { o.enqueue() }` -/
theorem enqOps_ok (h : TreeOK X ns E I Q P) (prioOf : Nat → Int) (q : ScqId) (inv : Nat → List Nat) (ops : List Nat)
    (hn : ∀ o ∈ ops, (node? ns q (inv o)).isSome = true) (hnd : ops.Nodup) (hq : ∀ o ∈ ops, (q, inv o, o) ∉ Q) :
    TreeOK (X.filter (fun x => !ops.any (fun o => onPathOf q (inv o) x)))
      (ops.foldl (fun ns o => enqueueOp prioOf ns q (inv o) o) ns)
      E I (ops.map (fun o => (q, inv o, o)) ++ Q) P := by
  induction ops generalizing X ns Q with
  | nil => exact h.exempt_more _ (fun x hx => mem_filter_offOps.mpr ⟨hx, fun o ho => nomatch ho⟩)
  | cons o rest ih =>
    rw [List.nodup_cons] at hnd
    have h1 := enqueueOp_ok h prioOf q (inv o) o (hn o List.mem_cons_self) (hq o List.mem_cons_self)
    have h2 := ih h1 (fun o' ho' => by rw [enqueueOp_isSome]; exact hn o' (List.mem_cons_of_mem _ ho')) hnd.2
      (fun o' ho' hm => by
        rcases List.mem_cons.mp hm with e | e
        · have : o' = o := by injection e with _ e; injection e
          subst this; exact hnd.1 ho'
        · exact hq o' (List.mem_cons_of_mem _ ho') e)
    rw [List.foldl_cons, List.map_cons, List.cons_append]
    refine (h2.congr (List.Perm.refl _) (List.Perm.refl _) (fun c => ?_) (fun _ => Iff.rfl)).exempt_more _
      (filter_offOps_cons_sub X q inv o rest)
    simp only [List.mem_append, List.mem_cons]
    constructor
    · rintro (a | a | a)
      · exact Or.inr (Or.inl a)
      · exact Or.inl a
      · exact Or.inr (Or.inr a)
    · rintro (a | a | a)
      · exact Or.inr (Or.inl a)
      · exact Or.inl a
      · exact Or.inr (Or.inr a)

/-- `for o in ops { o.removeQueuedFromInvocation() }`: the invocations on the paths become exempt -/
theorem deqOps_ok (h : TreeOK X ns E I Q P) (prioOf : Nat → Int) (q : ScqId) (inv : Nat → List Nat) (ops : List Nat)
    (hQ : Q.Nodup) (hnd : ops.Nodup) (hq : ∀ o ∈ ops, (q, inv o, o) ∈ Q) :
    TreeOK (X ++ ops.flatMap (fun o => (prefixes (inv o)).map (fun pi => (q, pi))))
      (ops.foldl (fun ns o => removeQueuedOp prioOf ns q (inv o) o) ns)
      E I (Q.filter (fun c => !(ops.map (fun o => (q, inv o, o))).contains c)) P := by
  induction ops generalizing X ns Q with
  | nil =>
    refine (h.congr (List.Perm.refl _) (List.Perm.refl _) (fun c => ?_) (fun _ => Iff.rfl)).exempt_more _
      (fun x hx => by simpa using hx)
    simp
  | cons o rest ih =>
    rw [List.nodup_cons] at hnd
    have hne : ∀ o' ∈ rest, (q, inv o', o') ≠ (q, inv o, o) := by
      intro o' ho' e
      have : o' = o := by injection e with _ e; injection e
      subst this; exact hnd.1 ho'
    have h1 := removeQueuedOp_ok h prioOf q (inv o) o (hq o List.mem_cons_self)
      (fun hm => (hQ.mem_erase_iff.mp hm).1 rfl)
    have h2 := ih h1 (hQ.erase _) hnd.2
      (fun o' ho' => hQ.mem_erase_iff.mpr ⟨hne o' ho', hq o' (List.mem_cons_of_mem _ ho')⟩)
    rw [List.foldl_cons, List.flatMap_cons, ← List.append_assoc]
    refine h2.congr (List.Perm.refl _) (List.Perm.refl _) (fun c => ?_) (fun _ => Iff.rfl)
    simp only [List.mem_filter, hQ.mem_erase_iff, List.map_cons, List.contains_cons, Bool.not_or,
      Bool.and_eq_true, Bool.not_eq_eq_eq_not, Bool.not_true, beq_eq_false_iff_ne, ne_eq]
    constructor
    · rintro ⟨⟨a, b⟩, c'⟩; exact ⟨b, a, c'⟩
    · rintro ⟨b, a, c'⟩; exact ⟨⟨a, b⟩, c'⟩

/-- `for o in ops { getOrCreateInvocation(inv o) }` -/
theorem createOps_ok (h : TreeOK X ns E I Q P) (q : ScqId) (inv : Nat → List Nat) (now : Nat) (ops : List Nat)
    (hroot : (node? ns q []).isSome = true) :
    TreeOK (X ++ ops.flatMap (fun o => (prefixes (inv o)).map (fun pi => (q, pi))))
      (ops.foldl (fun ns o => getOrCreate ns q (inv o) now) ns) E I Q P ∧
    (∀ o ∈ ops, (node? (ops.foldl (fun ns o => getOrCreate ns q (inv o) now) ns) q (inv o)).isSome = true) ∧
    (∀ q' p' n, node? ns q' p' = some n → node? (ops.foldl (fun ns o => getOrCreate ns q (inv o) now) ns) q' p' = some n) := by
  induction ops generalizing X ns with
  | nil =>
    refine ⟨by simpa using h, fun o ho => (nomatch ho), fun _ _ _ hn => hn⟩
  | cons o rest ih =>
    have h1 := getOrCreate_ok h q (inv o) now hroot
    have hroot1 : (node? (getOrCreate ns q (inv o) now) q []).isSome = true :=
      getOrCreate_exists ns q (inv o) now hroot [] (List.nil_prefix)
    obtain ⟨a, b, c⟩ := ih h1 hroot1
    rw [List.foldl_cons, List.flatMap_cons, ← List.append_assoc]
    refine ⟨a, ?_, ?_⟩
    · intro o' ho'
      rcases List.mem_cons.mp ho' with e | e
      · subst e
        have hs := getOrCreate_exists ns q (inv o') now hroot (inv o') (List.prefix_refl _)
        cases hn : node? (getOrCreate ns q (inv o') now) q (inv o') with
        | none => rw [hn] at hs; cases hs
        | some n => rw [c _ _ _ hn]; rfl
      · exact b o' e
    · intro q' p' n hn
      exact c _ _ _ (getOrCreate_mono ns q (inv o) now q' p' n hn)

end BbRe.Lemmas.SchedTree
