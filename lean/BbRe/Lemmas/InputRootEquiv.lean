import BbRe.Model.InputRoot
/-!
Observational equivalence of directory hierarchies that differ only in which
directories have been initialised already ("equal up to forcing"), for C17.

`eqv c k a b`: `a` and `b` show the same kinds and names down to depth `k`, where
the contents of a lazy directory are what a fault-free fetch would produce.
`Equiv` = for every depth.  The unfolding lemma `equiv_iff` is what the proofs use.
-/
namespace BbRe.Lemmas.InputRoot
open BbRe.InputRoot

/-- Pairwise relation of two children lists: same names in the same order. -/
inductive ChRel (R : Node → Node → Prop) : Children → Children → Prop
  | nil : ChRel R [] []
  | cons {n : Name} {a b : Node} {as bs : Children} :
      R a b → ChRel R as bs → ChRel R ((n, a) :: as) ((n, b) :: bs)

def ContRel (R : Node → Node → Prop) : Contents → Contents → Prop
  | .notDir, .notDir => True
  | .err e, .err e' => e = e'
  | .ok a, .ok b => ChRel R a b
  | _, _ => False

def eqv (c : CAS) : Nat → Node → Node → Prop
  | 0, a, b => kindOf a = kindOf b
  | k + 1, a, b => kindOf a = kindOf b ∧ ContRel (eqv c k) (contents c [] a) (contents c [] b)

def Equiv (c : CAS) (a b : Node) : Prop := ∀ k, eqv c k a b

theorem ChRel.mono {R S : Node → Node → Prop} (h : ∀ a b, R a b → S a b) :
    ∀ {x y : Children}, ChRel R x y → ChRel S x y := by
  intro x y hr
  induction hr with
  | nil => exact .nil
  | cons hab _ ih => exact .cons (h _ _ hab) ih

theorem ContRel.mono {R S : Node → Node → Prop} (h : ∀ a b, R a b → S a b) :
    ∀ {x y : Contents}, ContRel R x y → ContRel S x y := by
  intro x y hr
  cases x <;> cases y <;> simp_all [ContRel]
  exact ChRel.mono h hr

theorem chrel_forall {R : Nat → Node → Node → Prop} :
    ∀ {x y : Children}, (∀ k, ChRel (R k) x y) → ChRel (fun a b => ∀ k, R k a b) x y := by
  intro x
  induction x with
  | nil =>
    intro y h
    cases h 0
    exact .nil
  | cons e es ih =>
    intro y h
    cases hy : y with
    | nil => have := h 0; rw [hy] at this; cases this
    | cons f fs =>
      subst hy
      have h0 := h 0
      cases h0 with
      | cons hab hrest =>
        refine .cons (fun k => ?_) (ih (fun k => ?_))
        · have := h k; cases this with | cons h1 _ => exact h1
        · have := h k; cases this with | cons _ h2 => exact h2

theorem equiv_iff (c : CAS) (a b : Node) :
    Equiv c a b ↔ kindOf a = kindOf b ∧ ContRel (Equiv c) (contents c [] a) (contents c [] b) := by
  constructor
  · intro h
    refine ⟨h 0, ?_⟩
    have h1 : ∀ k, ContRel (eqv c k) (contents c [] a) (contents c [] b) := fun k => (h (k + 1)).2
    cases ha : contents c [] a <;> cases hb : contents c [] b <;> rw [ha, hb] at h1 <;>
      simp only [ContRel] at h1 ⊢
    all_goals first
      | exact h1 0
      | exact chrel_forall h1
      | trivial
  · intro ⟨hk, hc⟩ k
    cases k with
    | zero => exact hk
    | succ k => exact ⟨hk, ContRel.mono (fun a b h => h k) hc⟩

theorem eqv_refl (c : CAS) : ∀ k a, eqv c k a a := by
  intro k
  induction k with
  | zero => intro a; rfl
  | succ k ih =>
    intro a
    refine ⟨rfl, ?_⟩
    cases contents c [] a with
    | notDir => trivial
    | err e => rfl
    | ok ch =>
      simp only [ContRel]
      induction ch with
      | nil => exact .nil
      | cons e es ihh => obtain ⟨n, v⟩ := e; exact .cons (ih v) ihh

theorem Equiv.refl (c : CAS) (a : Node) : Equiv c a a := fun k => eqv_refl c k a

theorem ChRel.refl {R : Node → Node → Prop} (h : ∀ a, R a a) : ∀ x : Children, ChRel R x x := by
  intro x
  induction x with
  | nil => exact .nil
  | cons e es ih => obtain ⟨n, v⟩ := e; exact .cons (h v) ih

theorem ChRel.symm {R : Node → Node → Prop} (h : ∀ a b, R a b → R b a) :
    ∀ {x y : Children}, ChRel R x y → ChRel R y x := by
  intro x y hr
  induction hr with
  | nil => exact .nil
  | cons hab _ ih => exact .cons (h _ _ hab) ih

theorem ChRel.trans {R : Node → Node → Prop} (h : ∀ a b d, R a b → R b d → R a d) :
    ∀ {x y z : Children}, ChRel R x y → ChRel R y z → ChRel R x z := by
  intro x y z hxy
  induction hxy generalizing z with
  | nil => intro hyz; cases hyz; exact .nil
  | cons hab _ ih =>
    intro hyz
    cases hyz with
    | cons hbd hrest => exact .cons (h _ _ _ hab hbd) (ih hrest)

theorem eqv_symm (c : CAS) : ∀ k a b, eqv c k a b → eqv c k b a := by
  intro k
  induction k with
  | zero => intro a b h; exact h.symm
  | succ k ih =>
    intro a b ⟨hk, hc⟩
    refine ⟨hk.symm, ?_⟩
    cases ha : contents c [] a <;> cases hb : contents c [] b <;> rw [ha, hb] at hc <;>
      simp only [ContRel] at hc ⊢
    · exact hc.symm
    · exact ChRel.symm ih hc

theorem eqv_trans (c : CAS) : ∀ k a b d, eqv c k a b → eqv c k b d → eqv c k a d := by
  intro k
  induction k with
  | zero => intro a b d h1 h2; exact h1.trans h2
  | succ k ih =>
    intro a b d ⟨hk1, hc1⟩ ⟨hk2, hc2⟩
    refine ⟨hk1.trans hk2, ?_⟩
    cases ha : contents c [] a <;> cases hb : contents c [] b <;> cases hd : contents c [] d <;>
      rw [ha, hb] at hc1 <;> rw [hb, hd] at hc2 <;> simp only [ContRel] at hc1 hc2 ⊢
    · exact hc1.trans hc2
    · exact ChRel.trans ih hc1 hc2

theorem Equiv.symm {c : CAS} {a b : Node} (h : Equiv c a b) : Equiv c b a :=
  fun k => eqv_symm c k a b (h k)

theorem Equiv.trans {c : CAS} {a b d : Node} (h1 : Equiv c a b) (h2 : Equiv c b d) : Equiv c a d :=
  fun k => eqv_trans c k a b d (h1 k) (h2 k)

/-! ### children lists -/

theorem chrel_lookup {R : Node → Node → Prop} {a b : Children} (h : ChRel R a b) (x : Name) :
    (lookup a x = none ∧ lookup b x = none) ∨
    ∃ ca cb, lookup a x = some ca ∧ lookup b x = some cb ∧ R ca cb := by
  induction h with
  | nil => left; exact ⟨rfl, rfl⟩
  | @cons n ca cb as bs hab _ ih =>
    by_cases hn : n = x
    · right; exact ⟨ca, cb, by simp [lookup, hn], by simp [lookup, hn], hab⟩
    · simpa [lookup, hn] using ih

theorem chrel_replaceFirst {R : Node → Node → Prop} {a b : Children} (h : ChRel R a b) (x : Name)
    {v w : Node} (hvw : R v w) : ChRel R (replaceFirst a x v) (replaceFirst b x w) := by
  induction h with
  | nil => exact .nil
  | @cons n ca cb as bs hab hrest ih =>
    by_cases hn : n = x
    · simp only [replaceFirst, hn, if_true]; exact .cons hvw hrest
    · simp only [replaceFirst, hn, if_false]; exact .cons hab ih

theorem chrel_eraseFirst {R : Node → Node → Prop} {a b : Children} (h : ChRel R a b) (x : Name) :
    ChRel R (eraseFirst a x) (eraseFirst b x) := by
  induction h with
  | nil => exact .nil
  | @cons n ca cb as bs hab hrest ih =>
    by_cases hn : n = x
    · simp only [eraseFirst, hn, if_true]; exact hrest
    · simp only [eraseFirst, hn, if_false]; exact .cons hab ih

theorem chrel_append {R : Node → Node → Prop} {a b a' b' : Children} (h : ChRel R a b)
    (h' : ChRel R a' b') : ChRel R (a ++ a') (b ++ b') := by
  induction h with
  | nil => simpa using h'
  | cons hab _ ih => exact .cons hab ih

/-- Replacing a child by a related node gives a list related to the original. -/
theorem chrel_replace_self {R : Node → Node → Prop} (hrefl : ∀ a, R a a) :
    ∀ (a : Children) (x : Name) (ca v : Node), lookup a x = some ca → R v ca →
      ChRel R (replaceFirst a x v) a := by
  intro a
  induction a with
  | nil => intro x ca v h; simp [lookup] at h
  | cons e es ih =>
    intro x ca v h hv
    obtain ⟨n, w⟩ := e
    by_cases hn : n = x
    · simp only [lookup, hn, if_true, Option.some.injEq] at h
      subst h
      simp only [replaceFirst, hn, if_true]
      exact .cons hv (ChRel.refl hrefl es)
    · simp only [lookup, hn, if_false] at h
      simp only [replaceFirst, hn, if_false]
      exact .cons (hrefl w) (ih x ca v h hv)

theorem chrel_map {R : Node → Node → Prop} (g : Node → Node) (h : ∀ n, R (g n) n) :
    ∀ ch : Children, ChRel R (ch.map fun e => (e.1, g e.2)) ch := by
  intro ch
  induction ch with
  | nil => exact .nil
  | cons e es ih => obtain ⟨n, v⟩ := e; exact .cons (h v) ih

theorem chrel_kinds {R : Node → Node → Prop} (hk : ∀ a b, R a b → kindOf a = kindOf b)
    {a b : Children} (h : ChRel R a b) :
    a.map (fun e => (e.1, kindOf e.2)) = b.map (fun e => (e.1, kindOf e.2)) := by
  induction h with
  | nil => rfl
  | cons hab _ ih => simp [hk _ _ hab, ih]

theorem chrel_hasName {R : Node → Node → Prop} {a b : Children} (h : ChRel R a b) (x : Name) :
    hasName a x = hasName b x := by
  rcases chrel_lookup h x with ⟨h1, h2⟩ | ⟨ca, cb, h1, h2, _⟩ <;> simp [hasName, h1, h2]

theorem chrel_nil_left {R : Node → Node → Prop} {b : Children} (h : ChRel R [] b) : b = [] := by
  cases h; rfl

theorem chrel_cons_left {R : Node → Node → Prop} {e : Name × Node} {es b : Children}
    (h : ChRel R (e :: es) b) : ∃ f fs, b = f :: fs := by
  cases h; exact ⟨_, _, rfl⟩

/-! ### nodes -/

theorem Equiv.kind {c : CAS} {a b : Node} (h : Equiv c a b) : kindOf a = kindOf b := h 0

theorem Equiv.contents {c : CAS} {a b : Node} (h : Equiv c a b) :
    ContRel (Equiv c) (contents c [] a) (contents c [] b) := ((equiv_iff c a b).1 h).2

theorem contents_ok_kind {c : CAS} {F : List Dig} {n : Node} {ch : Children}
    (h : contents c F n = .ok ch) : kindOf n = .dir := by
  cases n <;> simp [contents] at h <;> rfl

/-- Equivalent children lists give equivalent directories. -/
theorem equiv_dir {c : CAS} {a b : Children} (h : ChRel (Equiv c) a b) :
    Equiv c (.dir a) (.dir b) := by
  rw [equiv_iff]
  exact ⟨rfl, by simpa [contents, ContRel] using h⟩

/-- Initialising a directory is not observable. -/
theorem equiv_force {c : CAS} {n : Node} {ch : Children} (h : contents c [] n = .ok ch) :
    Equiv c (.dir ch) n := by
  rw [equiv_iff]
  refine ⟨(contents_ok_kind h).symm, ?_⟩
  rw [h]
  simpa [contents, ContRel] using ChRel.refl (Equiv.refl c) ch

/-! ### the access monitoring wrapper is invisible -/

theorem fetch_result_mon (c : CAS) (F : List Dig) (d : Dig) (m : Option Path) :
    (fetch c F d m).result =
      match (fetchBase c F d).result with
      | .ok ch => .ok (ch.map (annotate m))
      | .error e => .error e := rfl

theorem fetch_created_mon (c : CAS) (F : List Dig) (d : Dig) (m : Option Path) :
    (fetch c F d m).created = (fetchBase c F d).created ∧
    (fetch c F d m).unlinked = (fetchBase c F d).unlinked := ⟨rfl, rfl⟩

/-- Directories that differ only in the monitor they (and everything below them) are
wrapped for cannot be told apart. -/
theorem eqv_mon (c : CAS) : ∀ (k : Nat) (d : Dig) (m m' : Option Path),
    eqv c k (.lazy d m) (.lazy d m') := by
  intro k
  induction k with
  | zero => intro d m m'; rfl
  | succ k ih =>
    intro d m m'
    refine ⟨rfl, ?_⟩
    simp only [contents, fetch_result_mon]
    cases (fetchBase c [] d).result with
    | error e => simp [ContRel]
    | ok ch =>
      simp only [ContRel]
      induction ch with
      | nil => exact .nil
      | cons e es ihh =>
        obtain ⟨n, v⟩ := e
        simp only [List.map_cons]
        cases v with
        | lazy d' a => simp only [annotate]; exact ChRel.cons (ih d' _ _) ihh
        | file d' x a =>
          simp only [annotate]
          refine ChRel.cons ?_ ihh
          cases k with
          | zero => rfl
          | succ k => exact ⟨rfl, by simp [contents, ContRel]⟩
        | sym t => simp only [annotate]; exact ChRel.cons (eqv_refl c k _) ihh
        | loc => simp only [annotate]; exact ChRel.cons (eqv_refl c k _) ihh
        | dir g => simp only [annotate]; exact ChRel.cons (eqv_refl c k _) ihh

theorem equiv_mon (c : CAS) (d : Dig) (m m' : Option Path) : Equiv c (.lazy d m) (.lazy d m') :=
  fun k => eqv_mon c k d m m'

end BbRe.Lemmas.InputRoot
