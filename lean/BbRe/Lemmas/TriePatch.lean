/-
bb-storage `InstanceNamePatcher` with an empty new prefix: the byte-string code (`patchString`)
strips exactly the prefix's components (`patchSuffix`).
-/
import BbRe.Model.Trie
namespace BbRe.Lemmas.TriePatch
open BbRe.Model.Trie
open BbRe.Spec.PrefixMap (Comp)

theorem joinName_cons_cons (c d : Str) (r : List Str) :
    joinName (c :: d :: r) = c ++ slash :: joinName (d :: r) := rfl

theorem joinName_ne_nil {l : List Str} (hl : l ≠ []) (hne : ∀ c, c ∈ l → c ≠ []) : joinName l ≠ [] := by
  match l, hl with
  | [c], _ => exact hne c (by simp)
  | c :: d :: r, _ =>
    rw [joinName_cons_cons]
    intro h
    have := hne c (by simp)
    cases c with
    | nil => exact this rfl
    | cons a b => simp at h

theorem joinName_append {a b : List Str} (ha : a ≠ []) (hb : b ≠ []) :
    joinName (a ++ b) = joinName a ++ slash :: joinName b := by
  induction a with
  | nil => exact absurd rfl ha
  | cons c r ih =>
    cases r with
    | nil =>
      cases b with
      | nil => exact absurd rfl hb
      | cons d s => rfl
    | cons d r' =>
      have := ih (by simp)
      simp only [List.cons_append] at this ⊢
      rw [joinName_cons_cons, joinName_cons_cons, this]
      simp

/-- on joined component lists the string patcher drops the prefix's components. -/
theorem patchString_join (pfx sfx : List Str) (hp : ∀ c, c ∈ pfx → c ≠ []) (hs : ∀ c, c ∈ sfx → c ≠ []) :
    patchString (joinName pfx) (joinName (pfx ++ sfx)) = joinName sfx := by
  unfold patchString
  by_cases hpn : pfx = []
  · subst hpn; simp [joinName]
  · have hj : joinName pfx ≠ [] := joinName_ne_nil hpn hp
    rw [if_neg hj]
    by_cases hsn : sfx = []
    · subst hsn
      simp [joinName]
    · have hjs : joinName sfx ≠ [] := joinName_ne_nil hsn hs
      have hlen : 0 < (joinName sfx).length := List.length_pos_iff.2 hjs
      rw [joinName_append hpn hsn]
      simp only [List.length_append, List.length_cons]
      rw [if_pos (by omega)]
      have : (joinName pfx).length + 1 = (joinName pfx ++ [slash]).length := by simp
      rw [this]
      have h2 : joinName pfx ++ slash :: joinName sfx = (joinName pfx ++ [slash]) ++ joinName sfx := by simp
      rw [h2, List.drop_left]

/-- `patchSuffix` (what `PQIndex.execute` uses) is `patchString` under any interning of
components as non-empty strings. -/
theorem patchSuffix_string_level (name : Comp → Str) (hname : ∀ c, name c ≠ [])
    (pfx inst : List Comp) (h : pfx <+: inst) :
    patchString (joinName (pfx.map name)) (joinName (inst.map name)) =
      joinName ((patchSuffix pfx inst).map name) := by
  obtain ⟨t, rfl⟩ := h
  have : patchSuffix pfx (pfx ++ t) = t := by simp [patchSuffix]
  rw [this, List.map_append]
  apply patchString_join
  · intro c hc; obtain ⟨x, _, rfl⟩ := List.mem_map.1 hc; exact hname x
  · intro c hc; obtain ⟨x, _, rfl⟩ := List.mem_map.1 hc; exact hname x

end BbRe.Lemmas.TriePatch
