import BbRe.Lemmas.GoHeapBasic
/-!
The loops `up` and `down` of `container/heap` restore the heap property from the two
"one position may be wrong" invariants.  Everything is relative to a heap size `n ≤ a.size`
(`Pop`/`Remove` sift inside the first `n = Len()-1` slots).
-/
namespace BbRe.Lemmas.GoHeap
open BbRe.GoHeap

variable {α : Type}

/-- Every pair (parent, child) is in order except possibly the pair *above* `j`; moreover the
children of `j` are not less than `j`'s parent (so that moving `j` up is safe). -/
structure UpInv (R : Nat → Nat → Bool) (n j : Nat) : Prop where
  other : ∀ c, 0 < c → c < n → c ≠ j → R c ((c - 1) / 2) = false
  grand : ∀ c, 0 < c → c < n → (c - 1) / 2 = j → 0 < j → R c ((j - 1) / 2) = false

/-- Every pair (parent, child) is in order except possibly the pairs that involve `i`; moreover
the children of `i` are not less than `i`'s parent. -/
structure DownInv (R : Nat → Nat → Bool) (n i : Nat) : Prop where
  other : ∀ c, 0 < c → c < n → c ≠ i → (c - 1) / 2 ≠ i → R c ((c - 1) / 2) = false
  grand : ∀ c, 0 < c → c < n → (c - 1) / 2 = i → 0 < i → R c ((i - 1) / 2) = false

theorem UpInv.step {R : Nat → Nat → Bool} {m n j : Nat} (sw : SWOn R m) (hn : n ≤ m) (hj : j < n)
    (hj0 : 0 < j) (inv : UpInv R n j) (hlt : R j ((j - 1) / 2) = true) :
    UpInv (fun p q => R (tr ((j - 1) / 2) j p) (tr ((j - 1) / 2) j q)) n ((j - 1) / 2) := by
  have hij : (j - 1) / 2 < j := by omega
  constructor
  · intro c hc0 hcn hci
    show R (tr ((j - 1) / 2) j c) (tr ((j - 1) / 2) j ((c - 1) / 2)) = false
    by_cases hcj : c = j
    · subst hcj
      have h1 : tr ((c - 1) / 2) c c = (c - 1) / 2 := by unfold tr; simp
      have h2 : tr ((c - 1) / 2) c ((c - 1) / 2) = c := by unfold tr; simp
      rw [h1, h2]
      exact sw.asymm _ _ hlt
    · have h1 : tr ((j - 1) / 2) j c = c := by unfold tr; simp [hci, hcj]
      rw [h1]
      by_cases hp1 : (c - 1) / 2 = (j - 1) / 2
      · -- sibling of j
        have h2 : tr ((j - 1) / 2) j ((c - 1) / 2) = j := by unfold tr; simp [hp1]
        rw [h2]
        have h3 := inv.other c hc0 hcn hcj
        rw [hp1] at h3
        -- R c i = false, R j i = true ⊢ R c j = false
        have h4 : R ((j - 1) / 2) j = false := sw.asymm _ _ hlt
        exact sw.negTrans c ((j - 1) / 2) j (by omega) h3 h4
      · by_cases hp2 : (c - 1) / 2 = j
        · have h2 : tr ((j - 1) / 2) j ((c - 1) / 2) = (j - 1) / 2 := by
            unfold tr; rw [hp2]; simp
          rw [h2]
          exact inv.grand c hc0 hcn hp2 hj0
        · have h2 : tr ((j - 1) / 2) j ((c - 1) / 2) = (c - 1) / 2 := by unfold tr; simp [hp1, hp2]
          rw [h2]
          exact inv.other c hc0 hcn hcj
  · intro c hc0 hcn hpc hi0
    show R (tr ((j - 1) / 2) j c) (tr ((j - 1) / 2) j (((j - 1) / 2 - 1) / 2)) = false
    have h2 : tr ((j - 1) / 2) j (((j - 1) / 2 - 1) / 2) = ((j - 1) / 2 - 1) / 2 := by
      unfold tr
      have : ((j - 1) / 2 - 1) / 2 ≠ (j - 1) / 2 := by omega
      have : ((j - 1) / 2 - 1) / 2 ≠ j := by omega
      simp [*]
    rw [h2]
    have hi := inv.other ((j - 1) / 2) hi0 (by omega) (by omega)
    by_cases hcj : c = j
    · subst hcj
      have h1 : tr ((c - 1) / 2) c c = (c - 1) / 2 := by unfold tr; simp
      rw [h1]; exact hi
    · have hci : c ≠ (j - 1) / 2 := by omega
      have h1 : tr ((j - 1) / 2) j c = c := by unfold tr; simp [hci, hcj]
      rw [h1]
      have h3 := inv.other c hc0 hcn hcj
      rw [hpc] at h3
      exact sw.negTrans c ((j - 1) / 2) _ (by omega) h3 hi

theorem isHeapN_of_upInv_root {R : Nat → Nat → Bool} {n : Nat} (inv : UpInv R n 0) :
    ∀ c, 0 < c → c < n → R c ((c - 1) / 2) = false :=
  fun c h0 hn => inv.other c h0 hn (by omega)

theorem isHeapN_of_upInv_ok {R : Nat → Nat → Bool} {n j : Nat} (inv : UpInv R n j)
    (h : R j ((j - 1) / 2) = false) : ∀ c, 0 < c → c < n → R c ((c - 1) / 2) = false := by
  intro c h0 hn
  by_cases hc : c = j
  · subst hc; exact h
  · exact inv.other c h0 hn hc

theorem upAux_size (less : α → α → Bool) : ∀ fuel (a : Array α) j, (upAux less fuel a j).size = a.size := by
  intro fuel
  induction fuel with
  | zero => intro a j; rfl
  | succ f ih =>
    intro a j
    unfold upAux
    simp only []
    split
    · rfl
    · rw [ih]; simp

theorem upAux_perm (less : α → α → Bool) : ∀ fuel (a : Array α) j, (upAux less fuel a j).Perm a := by
  intro fuel
  induction fuel with
  | zero => intro a j; exact Array.Perm.refl _
  | succ f ih =>
    intro a j
    unfold upAux
    simp only []
    split
    · exact Array.Perm.refl _
    · exact (ih _ _).trans (swp_perm _ _ _)

/-- `up` from `j` does not touch positions above `j`. -/
theorem upAux_frame (less : α → α → Bool) : ∀ fuel (a : Array α) j k, j < k → j < a.size →
    (upAux less fuel a j)[k]? = a[k]? := by
  intro fuel
  induction fuel with
  | zero => intro a j k _ _; rfl
  | succ f ih =>
    intro a j k hjk hj
    unfold upAux
    simp only []
    split
    · rfl
    · have hi : (j - 1) / 2 < a.size := by omega
      rw [ih _ _ _ (by omega) (by simp; omega), getElem?_swp a _ _ _ hi hj]
      unfold tr
      have : k ≠ (j - 1) / 2 := by omega
      have : k ≠ j := by omega
      simp [*]

theorem upAux_heap (less : α → α → Bool) (sw : StrictWeak less) :
    ∀ fuel (a : Array α) j n, j ≤ fuel → j < n → n ≤ a.size → UpInv (lessAt less a) n j →
      IsHeapN less (upAux less fuel a j) n := by
  intro fuel
  induction fuel with
  | zero =>
    intro a j n hf hjn hn inv
    have : j = 0 := by omega
    subst this
    exact isHeapN_of_upInv_root inv
  | succ f ih =>
    intro a j n hf hjn hn inv
    unfold upAux
    simp only []
    split
    · rename_i hbr
      simp only [Bool.or_eq_true, decide_eq_true_eq, Bool.not_eq_true'] at hbr
      rcases hbr with h | h
      · have : j = 0 := by omega
        subst this
        exact isHeapN_of_upInv_root inv
      · exact isHeapN_of_upInv_ok inv h
    · rename_i hbr
      simp only [Bool.or_eq_true, decide_eq_true_eq, Bool.not_eq_true', not_or, Bool.not_eq_false] at hbr
      have hj0 : 0 < j := by omega
      have hi : (j - 1) / 2 < a.size := by omega
      have hj : j < a.size := by omega
      apply ih _ _ _ (by omega) (by omega) (by simp; omega)
      have key := UpInv.step (SWOn.of_strictWeak sw a) hn hjn hj0 inv hbr.2
      constructor
      · intro c h0 hcn hne
        rw [lessAt_swp less a _ _ _ _ hi hj]
        exact key.other c h0 hcn hne
      · intro c h0 hcn hp hi0
        rw [lessAt_swp less a _ _ _ _ hi hj]
        exact key.grand c h0 hcn hp hi0

/-! ### `down` -/

/-- What holds when the loop of `down` (started at `i0`) stops at position `i`. -/
structure DownPost (R : Nat → Nat → Bool) (n i0 i : Nat) : Prop where
  inv : DownInv R n i
  kids : ∀ c, 0 < c → c < n → (c - 1) / 2 = i → R c i = false
  above : i ≠ i0 → R i ((i - 1) / 2) = false

theorem DownInv.step {R : Nat → Nat → Bool} {m n i j : Nat} (sw : SWOn R m) (_hn : n ≤ m)
    (hjn : j < n) (hji : (j - 1) / 2 = i) (hj0 : 0 < j) (inv : DownInv R n i)
    (hmin : ∀ c, 0 < c → c < n → (c - 1) / 2 = i → R c j = false) (hlt : R j i = true) :
    DownInv (fun p q => R (tr i j p) (tr i j q)) n j ∧ R (tr i j j) (tr i j i) = false := by
  have hij : i < j := by omega
  have t_i : tr i j i = j := by unfold tr; simp
  have t_j : tr i j j = i := by unfold tr; simp
  refine ⟨⟨?_, ?_⟩, ?_⟩
  · intro c hc0 hcn hcj hpj
    show R (tr i j c) (tr i j ((c - 1) / 2)) = false
    by_cases hci : c = i
    · subst hci
      have h2 : tr c j ((c - 1) / 2) = (c - 1) / 2 := by
        unfold tr
        have : (c - 1) / 2 ≠ c := by omega
        simp [*]
      rw [t_i, h2]
      exact inv.grand j hj0 hjn hji hc0
    · have h1 : tr i j c = c := by unfold tr; simp [hci, hcj]
      rw [h1]
      by_cases hpi : (c - 1) / 2 = i
      · rw [hpi, t_i]
        exact hmin c hc0 hcn hpi
      · have h2 : tr i j ((c - 1) / 2) = (c - 1) / 2 := by unfold tr; simp [hpi, hpj]
        rw [h2]
        exact inv.other c hc0 hcn hci hpi
  · intro c hc0 hcn hpc _
    show R (tr i j c) (tr i j ((j - 1) / 2)) = false
    rw [hji, t_i]
    have hci : c ≠ i := by omega
    have hcj : c ≠ j := by omega
    have h1 : tr i j c = c := by unfold tr; simp [hci, hcj]
    rw [h1]
    have := inv.other c hc0 hcn hci (by omega)
    rw [hpc] at this
    exact this
  · rw [t_i, t_j]
    exact sw.asymm _ _ hlt

/-- The child `down` compares with: the right one iff it exists and is `less` than the left one. -/
def smaller (less : α → α → Bool) (a : Array α) (i n : Nat) : Nat :=
  if (2 * i + 1 + 1 < n && lessAt less a (2 * i + 1 + 1) (2 * i + 1)) = true then 2 * i + 1 + 1 else 2 * i + 1

theorem downAux_succ (less : α → α → Bool) (f : Nat) (a : Array α) (i n : Nat) :
    downAux less (f + 1) a i n =
      if 2 * i + 1 ≥ n then (a, i)
      else if (!(lessAt less a (smaller less a i n) i)) = true then (a, i)
      else downAux less f (swp a i (smaller less a i n)) (smaller less a i n) n := rfl

theorem smaller_bounds (less : α → α → Bool) (a : Array α) (i n : Nat) (h : 2 * i + 1 < n) :
    smaller less a i n < n ∧ i < smaller less a i n ∧ (smaller less a i n - 1) / 2 = i := by
  unfold smaller
  split
  · rename_i h'; simp only [Bool.and_eq_true, decide_eq_true_eq] at h'; omega
  · omega

theorem downAux_size (less : α → α → Bool) : ∀ fuel (a : Array α) i n,
    (downAux less fuel a i n).1.size = a.size := by
  intro fuel
  induction fuel with
  | zero => intro a i n; rfl
  | succ f ih =>
    intro a i n
    rw [downAux_succ]
    split
    · rfl
    · split
      · rfl
      · rw [ih]; simp

theorem downAux_perm (less : α → α → Bool) : ∀ fuel (a : Array α) i n,
    (downAux less fuel a i n).1.Perm a := by
  intro fuel
  induction fuel with
  | zero => intro a i n; exact Array.Perm.refl _
  | succ f ih =>
    intro a i n
    rw [downAux_succ]
    split
    · exact Array.Perm.refl _
    · split
      · exact Array.Perm.refl _
      · exact (ih _ _ _).trans (swp_perm _ _ _)

theorem downAux_ge (less : α → α → Bool) : ∀ fuel (a : Array α) i n,
    i ≤ (downAux less fuel a i n).2 := by
  intro fuel
  induction fuel with
  | zero => intro a i n; exact Nat.le_refl _
  | succ f ih =>
    intro a i n
    rw [downAux_succ]
    split
    · exact Nat.le_refl _
    · split
      · exact Nat.le_refl _
      · refine Nat.le_trans ?_ (ih _ _ _)
        have := smaller_bounds less a i n (by omega)
        omega

/-- `down(h, i, n)` does not touch positions `≥ n` nor positions `< i`. -/
theorem downAux_frame (less : α → α → Bool) : ∀ fuel (a : Array α) i n k, n ≤ a.size → (n ≤ k ∨ k < i) →
    (downAux less fuel a i n).1[k]? = a[k]? := by
  intro fuel
  induction fuel with
  | zero => intro a i n k _ _; rfl
  | succ f ih =>
    intro a i n k hn hk
    rw [downAux_succ]
    split
    · rfl
    · rename_i hj1
      split
      · rfl
      · have hb := smaller_bounds less a i n (by omega)
        rw [ih _ _ _ _ (by simp; omega) (by omega), getElem?_swp a _ _ _ (by omega) (by omega)]
        unfold tr
        split
        · omega
        · split
          · omega
          · rfl

theorem downAux_post (less : α → α → Bool) (sw : StrictWeak less) (i0 : Nat) :
    ∀ fuel (a : Array α) i n, n - i ≤ fuel → n ≤ a.size → i0 ≤ i →
      DownInv (lessAt less a) n i → (i ≠ i0 → lessAt less a i ((i - 1) / 2) = false) →
      DownPost (lessAt less (downAux less fuel a i n).1) n i0 (downAux less fuel a i n).2 := by
  intro fuel
  induction fuel with
  | zero =>
    intro a i n hf hn hi0 inv habove
    show DownPost (lessAt less a) n i0 i
    refine ⟨inv, ?_, habove⟩
    intro c hc0 hcn hpc
    omega
  | succ f ih =>
    intro a i n hf hn hi0 inv habove
    rw [downAux_succ]
    split
    · refine ⟨inv, ?_, habove⟩
      intro c hc0 hcn hpc
      omega
    · rename_i hj1
      have hj1n : 2 * i + 1 < n := by omega
      have swn := SWOn.of_strictWeak sw a
      -- the smaller child
      generalize hj : smaller less a i n = j
      have hjprop : j < n ∧ (j - 1) / 2 = i ∧ 0 < j ∧
          ∀ c, 0 < c → c < n → (c - 1) / 2 = i → lessAt less a c j = false := by
        unfold smaller at hj
        split at hj
        · rename_i h
          simp only [Bool.and_eq_true, decide_eq_true_eq] at h
          subst hj
          refine ⟨h.1, by omega, by omega, ?_⟩
          intro c hc0 hcn hpc
          have : c = 2 * i + 1 ∨ c = 2 * i + 1 + 1 := by omega
          rcases this with rfl | rfl
          · exact swn.asymm _ _ h.2
          · exact swn.irrefl _
        · rename_i h
          simp only [Bool.and_eq_true, decide_eq_true_eq, not_and, Bool.not_eq_true] at h
          subst hj
          refine ⟨hj1n, by omega, by omega, ?_⟩
          intro c hc0 hcn hpc
          have : c = 2 * i + 1 ∨ c = 2 * i + 1 + 1 := by omega
          rcases this with rfl | rfl
          · exact swn.irrefl _
          · exact h hcn
      obtain ⟨hjn, hji, hj0, hmin⟩ := hjprop
      split
      · rename_i hbr
        simp only [Bool.not_eq_true', ] at hbr
        refine ⟨inv, ?_, habove⟩
        intro c hc0 hcn hpc
        exact swn.negTrans c j i (by omega) (hmin c hc0 hcn hpc) hbr
      · rename_i hbr
        simp only [Bool.not_eq_true', Bool.not_eq_false] at hbr
        have hia : i < a.size := by omega
        have hja : j < a.size := by omega
        have key := DownInv.step swn hn hjn hji hj0 inv hmin hbr
        apply ih _ _ _ (by omega) (by simp; omega) (by omega)
        · constructor
          · intro c h0 hcn h1 h2
            rw [lessAt_swp less a _ _ _ _ hia hja]
            exact key.1.other c h0 hcn h1 h2
          · intro c h0 hcn hp hi0'
            rw [lessAt_swp less a _ _ _ _ hia hja]
            exact key.1.grand c h0 hcn hp hi0'
        · intro _
          rw [lessAt_swp less a _ _ _ _ hia hja, hji]
          exact key.2

theorem isHeapN_of_downPost_moved {R : Nat → Nat → Bool} {n i0 i : Nat} (p : DownPost R n i0 i) (h : i ≠ i0) :
    ∀ c, 0 < c → c < n → R c ((c - 1) / 2) = false := by
  intro c h0 hn
  by_cases hc : c = i
  · subst hc; exact p.above h
  · by_cases hp : (c - 1) / 2 = i
    · rw [hp]; exact p.kids c h0 hn hp
    · exact p.inv.other c h0 hn hc hp

theorem upInv_of_downPost {R : Nat → Nat → Bool} {n i0 i : Nat} (p : DownPost R n i0 i) : UpInv R n i := by
  constructor
  · intro c h0 hn hc
    by_cases hp : (c - 1) / 2 = i
    · rw [hp]; exact p.kids c h0 hn hp
    · exact p.inv.other c h0 hn hc hp
  · exact p.inv.grand

end BbRe.Lemmas.GoHeap
