import BbRe.Lemmas.SchedLiveQuiesce2
/-!
Exact waiter counts along every run whose client ids are fresh.
-/
namespace BbRe.Lemmas.SchedLive
open BbRe.Sched

theorem weq_of_ostep {s s' : State} (hk : KeysOK s) (hw : WakeInv s) (he : WEq s) (hst : s'.streams = s.streams)
    (ho : OStep s s') : WEq s' := by
  obtain ⟨_, r⟩ := ho hk
  intro o op' e
  have hc : cnt s' o = cnt s o := by unfold cnt; rw [hst]
  rw [hc]
  rcases r.keep o op' e with ⟨op, e0, w0⟩ | ⟨hf, w0⟩
  · rw [w0]; exact he o op e0
  · rw [w0]
    unfold cnt
    symm
    rw [List.length_eq_zero_iff, List.filter_eq_nil_iff]
    intro st hm; have := (hw st hm).1; simp only [decide_eq_true_eq]; omega

/-- a fresh operation without waiters -/
theorem weq_fresh_op {s s' : State} (hw : WakeInv s) (he : WEq s) (hst : s'.streams = s.streams)
    (hop : ∀ k, k ≠ s.nextOp → s'.op? k = s.op? k)
    (hnew : ∀ op, s'.op? s.nextOp = some op → op.waiters = 0) : WEq s' := by
  intro k op e
  have hc : cnt s' k = cnt s k := by unfold cnt; rw [hst]
  rw [hc]
  by_cases hk : k = s.nextOp
  · subst hk
    rw [hnew op e]
    unfold cnt; symm
    rw [List.length_eq_zero_iff, List.filter_eq_nil_iff]
    intro st hm; have := (hw st hm).1; simp only [decide_eq_true_eq]; omega
  · rw [hop k hk] at e; exact he k op e

theorem hasStream_congr {s s' : State} (h : s'.streams = s.streams) (c : Nat) : hasStream s' c = hasStream s c := by
  unfold hasStream; rw [h]

/-- **Exact waiter counts, per segment.**  If the client of an `Execute` / `WaitExecution` segment has no
parked stream (fresh client ids), every segment keeps `waiters = #parked streams` for every operation and
one stream per client. -/
theorem weq_step {s s' : State} {g : Seg} (hi : KWC noEx s) (hw : WakeInv s) (hn : ClientsNodup s) (he : WEq s)
    (hfresh : ∀ c, isAttachOf c g = true → hasStream s c = false) (hstep : step s g = .ok s') :
    WEq s' ∧ ClientsNodup s' ∧ (∀ st ∈ s'.streams, (∃ st0 ∈ s.streams, st0.client = st.client) ∨ isAttachOf st.client g = true) := by
  have hk := hi.1.1
  have viaO : s'.streams = s.streams → OStep s s' →
      WEq s' ∧ ClientsNodup s' ∧ (∀ st ∈ s'.streams, (∃ st0 ∈ s.streams, st0.client = st.client) ∨ isAttachOf st.client g = true) := by
    intro e o
    refine ⟨weq_of_ostep hk hw he e o, by unfold ClientsNodup; rw [e]; exact hn, fun st hm => .inl ⟨st, e ▸ hm, rfl⟩⟩
  have afterEnter : ∀ {h : Hints} {now : Nat} {s1 : State}, enter h s now = .ok s1 →
      KWC noEx s1 ∧ WakeInv s1 ∧ WEq s1 ∧ ClientsNodup s1 ∧ s1.streams = s.streams := by
    intro h now s1 h1
    have hi1 := enter_kwc hi h1
    have hst := (enter_frame h1).streams
    refine ⟨hi1, ?_, weq_of_ostep hk hw he hst (enter_ostep hi h1), by unfold ClientsNodup; rw [hst]; exact hn, hst⟩
    obtain ⟨_, rel⟩ := enter_tstep (allow := True) h1 hk
    intro st hm
    rw [hst] at hm
    obtain ⟨hlt, hinv⟩ := hw st hm
    refine ⟨Nat.lt_of_lt_of_le hlt rel.no, ?_⟩
    intro op' t' e1 e2
    obtain ⟨op, e3, e4⟩ := rel.ops _ _ hlt e1
    have hlt2 := (hk.oname _ _ e3).2.2
    rw [e4] at e2
    obtain ⟨t, e5, le⟩ := rel.tasks _ _ hlt2 e2
    obtain ⟨i1, i2⟩ := hinv op t e3 e5
    have := le.gen
    refine ⟨by omega, ?_⟩
    intro hsome
    cases hrt : t.response with
    | some r => have := i2 (by simp [hrt]); omega
    | none =>
      have := le.bump (.inr (by rw [hrt]; intro e; rw [e] at hsome; cases hsome))
      omega
  -- repackaging the result of an attach of client `c0`
  have pack : ∀ {c0 : Nat} {s1 : State}, s1.streams = s.streams → isAttachOf c0 g = true →
      (WEq s' ∧ ClientsNodup s' ∧ (∀ st ∈ s'.streams, st ∈ s1.streams ∨ st.client = c0)) →
      WEq s' ∧ ClientsNodup s' ∧ (∀ st ∈ s'.streams, (∃ st0 ∈ s.streams, st0.client = st.client) ∨ isAttachOf st.client g = true) := by
    intro c0 s1 e1 ha ⟨a, b, c⟩
    refine ⟨a, b, fun st hm => ?_⟩
    rcases c st hm with h | h
    · exact .inl ⟨st, e1 ▸ h, rfl⟩
    · exact .inr (h ▸ ha)
  cases g with
  | register id comps pf sizes bm bp =>
    simp only [step, pure_ok] at hstep; subst hstep
    exact viaO rfl (OStep.of_same rfl rfl rfl rfl)
  | exec h now c0 d dk dnc comps pf inv prio =>
    have hatt : isAttachOf c0 (.exec h now c0 d dk dnc comps pf inv prio) = true := by simp [isAttachOf]
    have hf0 := hfresh c0 hatt
    obtain ⟨s1, h1, h2 | h2 | h2⟩ := execArrive_ok hstep
    all_goals obtain ⟨hi1, hw1, he1, hn1, hst1⟩ := afterEnter h1
    all_goals have hf1 : hasStream s1 c0 = false := by rw [hasStream_congr hst1]; exact hf0
    · obtain ⟨tid, t, _, h0, ⟨o, _, h3⟩ | ⟨_, h3⟩⟩ := h2
      · exact pack (s1 := emit s1 .selAbandoned) hst1 hatt (streamAttach_weq (s := emit s1 .selAbandoned)
          (TStep.of_same (allow := True) (s := s1) (s' := emit s1 .selAbandoned) rfl rfl rfl rfl hi1.1.1).1 hn1 he1 hf1 h3)
      · have hkE : KeysOK (emit s1 .selAbandoned) :=
          (TStep.of_same (allow := True) (s := s1) (s' := emit s1 .selAbandoned) rfl rfl rfl rfl hi1.1.1).1
        have hkA := (addOpS_tstep True inv prio (s := emit s1 .selAbandoned) h0 hkE).1
        refine pack (s1 := addOpS (emit s1 .selAbandoned) tid t inv prio) hst1 hatt (streamAttach_weq hkA hn1 ?_ hf1 h3)
        refine weq_fresh_op (s := s1) hw1 he1 rfl ?_ ?_
        · intro k hk'; simp [State.op?, alookup_aset, Ne.symm hk']
        · intro op e; simp [State.op?, alookup_aset] at e; subst e; rfl
    · obtain ⟨_, _, rfl⟩ := h2
      exact ⟨he1, hn1, fun st hm => .inl ⟨st, hst1 ▸ hm, rfl⟩⟩
    · obtain ⟨_, pq, sc, s3, _, _, h3, h4⟩ := h2
      have hk3 : KeysOK s3 := ((tstep_new_then_schedule (allow := True) (s := s1) (tn := newTask s1 d dk dnc ⟨pq.id, sc⟩)
        (on := newOp s1 inv prio) rfl rfl rfl (by simp) (by simp) (by simp) (by simp) h3) hi1.1.1).1
      obtain ⟨_, _, _, _, _, e2, _, _⟩ := schedule_shape h3
      have hst3 : s3.streams = s1.streams := by rw [(schedule_frame h3).streams]; simp
      refine pack (s1 := s3) (hst3.trans hst1) hatt (streamAttach_weq hk3 (by unfold ClientsNodup; rw [hst3]; exact hn1) ?_
        (by rw [hasStream_congr hst3]; exact hf1) h4)
      refine weq_fresh_op (s := s1) hw1 he1 hst3 ?_ ?_
      · intro k hk'; simp [State.op?, e2, alookup_aset, Ne.symm hk']
      · intro op e; simp [State.op?, e2, alookup_aset, newOp] at e; subst e; rfl
  | wait h now c0 name =>
    have hatt : isAttachOf c0 (.wait h now c0 name) = true := by simp [isAttachOf]
    have hf0 := hfresh c0 hatt
    obtain ⟨s1, h1, ⟨_, rfl⟩ | ⟨op, _, h2⟩⟩ := waitArrive_ok hstep
    all_goals obtain ⟨hi1, hw1, he1, hn1, hst1⟩ := afterEnter h1
    · exact ⟨he1, hn1, fun st hm => .inl ⟨st, hst1 ▸ hm, rfl⟩⟩
    · exact pack (s1 := s1) hst1 hatt (streamAttach_weq hi1.1.1 hn1 he1 (by rw [hasStream_congr hst1]; exact hf0) h2)
  | streamWake h now c0 reason =>
    obtain ⟨s1, st, h1, hst, ⟨_, h3⟩ | ⟨_, _, h3⟩⟩ := streamWake_ok hstep
    all_goals obtain ⟨hi1, hw1, he1, hn1, hst1⟩ := afterEnter h1
    · obtain ⟨a, b, c⟩ := streamLeave_weq hi1.1.1 hn1 he1 h3
      exact ⟨a, b, fun x hx => .inl ⟨x, hst1 ▸ c x hx, rfl⟩⟩
    · have hm := List.mem_of_find?_eq_some hst
      have hcl : st.client = c0 := by simpa using List.find?_some hst
      have hpre : WPre s1 c0 st.op := by
        intro k op e
        rw [he1 k op e, cnt_split hn1 hm hcl k]
        by_cases hko : st.op = k
        · simp [hko]
        · have : ¬ k = st.op := fun e' => hko e'.symm
          simp [hko, this]
      obtain ⟨a, b, c⟩ := streamSend_weq hi1.1.1 hn1 hpre h3
      refine ⟨a, b, fun x hx => ?_⟩
      rcases c x hx with h' | h'
      · exact .inl ⟨x, hst1 ▸ h', rfl⟩
      · -- the re-parked stream is the woken client's own: it was parked before
        exact .inl ⟨st, hst1 ▸ hm, by rw [hcl, h']⟩
  | sync h now q comps pf w rep pi => exact viaO (syncArrive_frame hstep).streams (syncArrive_ostep hi hstep)
  | syncWake h now q w reason => exact viaO (syncWake_frame hstep).streams (syncWake_ostep hi hstep)
  | killOp h now name code =>
    refine viaO (killOp_frame hstep).streams ?_
    obtain ⟨s1, h1, ⟨_, rfl⟩ | ⟨op, s2, _, h2, rfl⟩⟩ := killOp_ok hstep
    · exact (enter_ostep hi h1).trans (OStep.of_same rfl rfl rfl rfl)
    · exact ((enter_ostep hi h1).trans (complete_ostep h2)).trans (OStep.of_same rfl rfl rfl rfl)
  | killQueue h now q code =>
    refine viaO (killQueue_frame hstep).streams ?_
    obtain ⟨s1, h1, ⟨ev, _, rfl⟩ | ⟨s2, h2, rfl⟩⟩ := killQueue_ok hstep
    · exact (enter_ostep hi h1).trans (OStep.of_same rfl rfl rfl rfl)
    · exact ((enter_ostep hi h1).trans (cancelAllQueued_ostep h2)).trans (OStep.of_same rfl rfl rfl rfl)
  | addDrain h now q p =>
    refine viaO (addDrain_frame hstep).streams ?_
    obtain ⟨s1, h1, ⟨_, rfl⟩ | ⟨sq, _, rfl⟩⟩ := addDrain_ok hstep
    · exact (enter_ostep hi h1).trans (OStep.of_same rfl rfl rfl rfl)
    · obtain ⟨a1, a2, a3, a4, _⟩ := foldl_fields (drainWake q p)
        (by intro a b; unfold drainWake; split <;> exact ⟨rfl, rfl, rfl, rfl, rfl⟩) s1.workers
        (s1.setScq { sq with drains := if sq.drains.contains p then sq.drains else sq.drains ++ [p] })
      exact (enter_ostep hi h1).trans (OStep.of_same a1 a2 a3 a4)
  | removeDrain h now q p =>
    refine viaO (removeDrain_frame hstep).streams ?_
    obtain ⟨s1, h1, ⟨_, rfl⟩ | ⟨sq, _, rfl⟩⟩ := removeDrain_ok hstep
    · exact (enter_ostep hi h1).trans (OStep.of_same rfl rfl rfl rfl)
    · exact (enter_ostep hi h1).trans (OStep.of_same rfl rfl rfl rfl)
  | terminate h now id p =>
    refine viaO (terminate_sframe hstep).streams ?_
    obtain ⟨s1, h1, h2⟩ := terminate_ok hstep
    simp only at h2
    obtain ⟨a1, a2, a3, a4, _⟩ := foldl_fields termMark
      (by intro a b; unfold termMark; (repeat' split) <;> exact ⟨rfl, rfl, rfl, rfl, rfl⟩)
      (s1.workers.filter (fun w => p.matches w.id)) s1
    rcases h2 with ⟨_, rfl⟩ | ⟨_, rfl⟩ <;> exact (enter_ostep hi h1).trans (OStep.of_same a1 a2 a3 a4)
  | termWake id reason =>
    refine viaO (termWake_sframe hstep).streams ?_
    obtain ⟨tc, _, ⟨_, rfl⟩ | ⟨_, _, rfl⟩⟩ := termWake_ok hstep <;> exact OStep.of_same rfl rfl rfl rfl
  | touch h now => exact viaO (enter_frame hstep).streams (enter_ostep hi hstep)

/-! ### runs with fresh client ids -/

/-- the client id an `Execute` / `WaitExecution` segment attaches -/
def attachClient : Seg → Option Nat
  | .exec _ _ c _ _ _ _ _ _ _ => some c
  | .wait _ _ c _ => some c
  | _ => none

/-- client ids used by the attach segments of a run, in order -/
def usedClients (gs : List Seg) : List Nat := gs.filterMap attachClient

/-- **Client ids are fresh**: no two `Execute` / `WaitExecution` segments of the run use the same client
id (each id names one call, as in the Go server where a stream is a call). -/
def FreshClients (gs : List Seg) : Prop := (usedClients gs).Nodup

theorem isAttachOf_iff (c : Nat) (g : Seg) : isAttachOf c g = true ↔ attachClient g = some c := by
  cases g <;> simp only [isAttachOf, attachClient, beq_iff_eq, Option.some.injEq, reduceCtorEq] <;> simp

structure QI (used : List Nat) (s : State) : Prop where
  reach : Reachable s
  weq : WEq s
  nodup : ClientsNodup s
  cl : ∀ st ∈ s.streams, st.client ∈ used

theorem QI.mono {used used' : List Nat} {s : State} (h : QI used s) (hsub : ∀ c ∈ used, c ∈ used') : QI used' s :=
  ⟨h.reach, h.weq, h.nodup, fun st hm => hsub _ (h.cl st hm)⟩

theorem qi_run (gs : List Seg) : ∀ (used : List Nat) (s : State), QI used s → (usedClients gs).Nodup →
    (∀ c ∈ usedClients gs, c ∉ used) → QI (used ++ usedClients gs) (run s gs) := by
  induction gs with
  | nil => intro used s h _ _; simpa [usedClients, run] using h
  | cons g rest ih =>
    intro used s h hnd hdis
    -- split the used-list of `g :: rest`
    have huc : usedClients (g :: rest) = (attachClient g).toList ++ usedClients rest := by
      unfold usedClients; cases hg : attachClient g <;> simp [List.filterMap_cons, hg]
    rw [huc] at hnd hdis
    have hnd' : (usedClients rest).Nodup := (List.nodup_append.1 hnd).2.1
    have hdis' : ∀ c ∈ usedClients rest, c ∉ used ++ (attachClient g).toList := by
      intro c hc hm
      rcases List.mem_append.1 hm with hm | hm
      · exact hdis c (List.mem_append_right _ hc) hm
      · exact (List.nodup_append.1 hnd).2.2 c hm c hc rfl
    have key : QI (used ++ (attachClient g).toList) (run s [g]) := by
      unfold run
      split
      · rename_i s1 h1
        have hfresh : ∀ c, isAttachOf c g = true → hasStream s c = false := by
          intro c hc
          rw [isAttachOf_iff] at hc
          have hnot : c ∉ used := hdis c (List.mem_append_left _ (by simp [hc]))
          unfold hasStream
          rw [List.any_eq_false]
          intro st hm; simp only [decide_eq_true_eq]
          intro e; exact hnot (e ▸ h.cl st hm)
        obtain ⟨a, b, c⟩ := weq_step (kwc_reachable h.reach) (wakeInv_reachable h.reach) h.nodup h.weq hfresh h1
        refine ⟨Reachable.step g h.reach h1, a, b, ?_⟩
        intro st hm
        rcases c st hm with ⟨st0, hm0, e0⟩ | hatt
        · exact List.mem_append_left _ (e0 ▸ h.cl st0 hm0)
        · rw [isAttachOf_iff] at hatt
          exact List.mem_append_right _ (by simp [hatt])
      · exact h.mono (fun c hc => List.mem_append_left _ hc)
    have hrun : run s (g :: rest) = run (run s [g]) rest := by
      cases hs : step s g with
      | ok s1 => simp [run, hs]
      | error e => simp [run, hs]
    rw [hrun, huc, ← List.append_assoc]
    exact ih _ _ key hnd' hdis'

/-- **No waiter leaks**: along a run with fresh client ids every operation's waiter count equals the number
of streams parked on it, and every client has at most one parked stream. -/
theorem weq_of_fresh (cfg : Cfg) (gs : List Seg) (hf : FreshClients gs) :
    WEq (run (State.init cfg) gs) ∧ ClientsNodup (run (State.init cfg) gs) := by
  have h0 : QI [] (State.init cfg) :=
    ⟨Reachable.init cfg, by intro o op e; simp [State.init, State.op?] at e, by simp [ClientsNodup, State.init],
     by intro st hm; simp [State.init] at hm⟩
  have := qi_run gs [] _ h0 hf (by simp)
  exact ⟨this.weq, this.nodup⟩

end BbRe.Lemmas.SchedLive
