import BbRe.Lemmas.SchedLiveClean3
import BbRe.Lemmas.SchedLiveRoute
/-!
Cleanup accounting through the cleanup callbacks, `runCleanup` and `enter`.
-/
namespace BbRe.Lemmas.SchedLive
open BbRe.Sched

/-- the object whose entry was just popped is exempt until its callback has run -/
def exOf : CleanupKind → Ex
  | .worker q w => { wk := some (q, w) }
  | .op o => { op := some o }
  | .scq q => { scq := some q }

/-- popping an entry leaves the invariant intact up to the exemption of its object -/
theorem pop_cinv {s : State} {e : CleanupEntry} (hc : CInv noEx s) (he : e ∈ s.cleanup) :
    CInv (exOf e.kind) (setCleanup s (s.cleanup.filter (fun x => x ≠ e))) := by
  have hp := hasK_pop hc.uniq he
  have hsub : ∀ k, hasK (setCleanup s (s.cleanup.filter (fun x => x ≠ e))) k → hasK s k := fun k h => ((hp k).1 h).2
  have hkeep : ∀ k, k ≠ e.kind → hasK s k → hasK (setCleanup s (s.cleanup.filter (fun x => x ≠ e))) k :=
    fun k h1 h2 => (hp k).2 ⟨h1, h2⟩
  have hek : hasK s e.kind := ⟨e, he, rfl⟩
  refine ⟨?_, ?_, ?_, ?_, ?_, ?_, hc.opBg, ?_, hc.opT, ?_, hc.wScq, ?_, ?_⟩
  · exact List.Nodup.sublist (List.Sublist.map _ List.filter_sublist) hc.uniq
  · intro wk hm hi hh; exact hc.wIn wk hm hi (hsub _ hh)
  · intro wk hm hi hx
    refine hkeep _ ?_ (hc.wOut wk hm hi (by simp [noEx]))
    intro hk; rw [← hk] at hx; simp [exOf] at hx
  · intro q w hh; exact hc.eW q w (hsub _ hh)
  · intro o hh; exact hc.eO o (hsub _ hh)
  · intro q hh; exact hc.eS q (hsub _ hh)
  · intro o op ho hb hx
    rcases hc.opFg o op ho hb (by simp [noEx]) with h | h
    · exact .inl h
    · refine .inr (hkeep _ ?_ h)
      intro hk; rw [← hk] at hx; simp [exOf] at hx
  · intro q sq hq hb hx
    rcases hc.scqW q sq hq hb (by simp [noEx]) with h | h
    · exact .inl h
    · refine .inr (hkeep _ ?_ h)
      intro hk; rw [← hk] at hx; simp [exOf] at hx
  · intro q hq
    have hk : e.kind = .scq q := by
      cases hkk : e.kind <;> simp [exOf, hkk] at hq
      subst hq; rfl
    refine ⟨(hc.eS q (hk ▸ hek)).2, ?_⟩
    intro hh; exact ((hp _).1 hh).1 hk.symm
  · intro q w hq
    have hk : e.kind = .worker q w := by
      cases hkk : e.kind <;> simp [exOf, hkk] at hq
      obtain ⟨rfl, rfl⟩ := hq; rfl
    intro hh; exact ((hp _).1 hh).1 hk.symm

/-- invariant bundle carried through the cleanup loop -/
def KWC (x : Ex) (s : State) : Prop := KW s ∧ CInv x s

theorem complete_kwc {x : Ex} {h : Hints} {s s' : State} {tid : Nat} {r : Resp} {bw : Bool}
    (hh : complete h s tid r bw = .ok s') (hi : KWC x s) : KWC x s' :=
  ⟨complete_kw hh hi.1, complete_cinv hh hi.1 hi.2⟩

theorem cancelAllQueued_kwc {x : Ex} {h : Hints} {s s' : State} {q : ScqId} {r : Resp}
    (hh : cancelAllQueued h s q r = .ok s') (hi : KWC x s) : KWC x s' :=
  cancelAllQueued_inv (KWC x) (fun _ _ _ hi' h1 => complete_kwc h1 hi') hi hh

/-! ### operation removal -/

theorem eraseOp_cinv {s : State} {o : Nat} (hk : KeysOK s) (hc : CInv { op := some o } s) (hno : ¬ hasK s (.op o)) :
    CInv noEx (eraseOp s o) := by
  have hop : ∀ k, (eraseOp s o).op? k = if o = k then none else s.op? k := by
    intro k; simp [State.op?, alookup_aerase _ _ _ hk.onodup]
  have hkk : ∀ k, hasK (eraseOp s o) k ↔ hasK s k := hasK_congr rfl
  refine ⟨hc.uniq, hc.wIn, ?_, hc.eW, ?_, hc.eS, ?_, ?_, ?_, ?_, hc.wScq, (fun _ hq => nomatch hq), (fun _ _ hq => nomatch hq)⟩
  · intro wk hm hi _; exact hc.wOut wk hm hi (by simp)
  · intro o' hh
    obtain ⟨op, e, a, b⟩ := hc.eO o' hh
    have : ¬ o = o' := by intro e'; subst e'; exact hno hh
    exact ⟨op, by rw [hop]; simp [this, e], a, b⟩
  · intro k op e hb
    rw [hop] at e; split at e
    · cases e
    · exact hc.opBg k op e hb
  · intro k op e hb _
    rw [hop] at e; split at e
    · cases e
    · rename_i hne; exact hc.opFg k op e hb (by simp; exact fun e' => hne e'.symm)
  · intro k op e
    rw [hop] at e; split at e
    · cases e
    · exact hc.opT k op e
  · intro q sq e hb _; exact hc.scqW q sq e hb (by simp)

theorem dropOpT_cinv {s : State} {t : Task} {k0 : Nat} {o : Nat} (hk : KeysOK s) (hc : CInv noEx s)
    (h0 : s.task? k0 = some t) (hno : s.op? o = none) : CInv noEx (dropOpT s t o) := by
  have hid := (hk.tid k0 t h0).1
  unfold dropOpT
  split
  · rename_i hemp
    -- no operation refers to the erased task
    have hnone : ∀ k op, s.op? k = some op → op.task ≠ t.id := by
      intro k op e htk
      obtain ⟨t1, e1, e2⟩ := hc.opT k op e
      rw [htk, hid, h0] at e1; injection e1 with e1; subst e1
      have hko : k ≠ o := by intro e'; subst e'; rw [hno] at e; cases e
      have : k ∈ t.ops.filter (· ≠ o) := List.mem_filter.2 ⟨e2, by simpa using hko⟩
      rw [List.isEmpty_iff] at hemp; rw [hemp] at this; cases this
    have htk : ∀ k, k ≠ t.id → ({ s with tasks := aerase t.id s.tasks } : State).task? k = s.task? k := by
      intro k hk'; simp [State.task?, alookup_aerase_ne _ _ _ (Ne.symm hk')]
    refine ⟨hc.uniq, hc.wIn, hc.wOut, hc.eW, hc.eO, hc.eS, ?_, hc.opFg, ?_, hc.scqW, hc.wScq, hc.exScq, hc.exWk⟩
    · intro k op e hb
      obtain ⟨t1, e1, e2⟩ := hc.opBg k op e hb
      exact ⟨t1, by rw [htk _ (hnone k op e)]; exact e1, e2⟩
    · intro k op e
      obtain ⟨t1, e1, e2⟩ := hc.opT k op e
      exact ⟨t1, by rw [htk _ (hnone k op e)]; exact e1, e2⟩
  · have htk : ∀ k, (s.setTask { t with ops := t.ops.filter (· ≠ o) }).task? k =
        if k0 = k then some { t with ops := t.ops.filter (· ≠ o) } else s.task? k := by
      intro k; simp [State.task?, alookup_aset, hid]
    refine ⟨hc.uniq, hc.wIn, hc.wOut, hc.eW, hc.eO, hc.eS, ?_, hc.opFg, ?_, hc.scqW, hc.wScq, hc.exScq, hc.exWk⟩
    · intro k op e hb
      obtain ⟨t1, e1, e2⟩ := hc.opBg k op e hb
      rw [htk]
      split
      · rename_i hkk; rw [← hkk, h0] at e1; injection e1 with e1; subst e1; exact ⟨_, rfl, e2⟩
      · exact ⟨t1, e1, e2⟩
    · intro k op e
      obtain ⟨t1, e1, e2⟩ := hc.opT k op e
      rw [htk]
      split
      · rename_i hkk; rw [← hkk, h0] at e1; injection e1 with e1; subst e1
        have e' : s.op? k = some op := e
        have hko : k ≠ o := by intro e''; subst e''; rw [hno] at e'; cases e'
        exact ⟨_, rfl, List.mem_filter.2 ⟨e2, by simpa using hko⟩⟩
      · exact ⟨t1, e1, e2⟩

theorem removeOp_kwc {h : Hints} {P s' : State} {o : Nat} (hh : removeOp h P o = .ok s')
    (hi : KWC { op := some o } P) (hno : ¬ hasK P (.op o)) : KWC noEx s' := by
  obtain ⟨hkw, hc⟩ := hi
  refine ⟨removeOp_kw hh hkw, ?_⟩
  rcases removeOp_ok hh with ⟨hn, rfl⟩ | ⟨op, t, s1, t1, hop, _, h1, h2, rfl⟩
  · -- the operation is gone already: nothing is exempt
    refine ⟨hc.uniq, hc.wIn, fun wk hm hi' _ => hc.wOut wk hm hi' (by simp), hc.eW, hc.eO, hc.eS, hc.opBg, ?_, hc.opT,
      fun q sq e hb _ => hc.scqW q sq e hb (by simp), hc.wScq, (fun _ hq => nomatch hq), (fun _ _ hq => nomatch hq)⟩
    intro k opk e hb _
    exact hc.opFg k opk e hb (by simp; intro e'; subst e'; rw [hn] at e; cases e)
  · have hkE : KW (eraseOp P o) := KWStep.of (eraseOp_tstep True P o) (fun _ hw => winv_same hw rfl rfl rfl rfl) hkw
    have hcE := eraseOp_cinv hkw.1 hc hno
    have hlt : o < P.nextOp := (hkw.1.oname o op hop).2.1
    have hnoE : (eraseOp P o).op? o = none := by simp [State.op?, alookup_aerase _ _ _ hkw.1.onodup]
    have h1' : KWC noEx s1 ∧ s1.op? o = none := by
      rcases h1 with ⟨_, h1⟩ | ⟨_, rfl⟩
      · refine ⟨complete_kwc h1 ⟨hkE, hcE⟩, ?_⟩
        obtain ⟨_, rel⟩ := complete_tstep h1 hkE.1
        cases hs : s1.op? o with
        | none => rfl
        | some op1 =>
          obtain ⟨op0, e0, _⟩ := rel.ops o op1 hlt hs
          rw [hnoE] at e0; cases e0
      · exact ⟨⟨hkE, hcE⟩, hnoE⟩
    exact dropOpT_cinv h1'.1.1.1 h1'.1.2 h2 h1'.2

/-! ### queue removal -/

theorem find?_filter_id' {l : List Scq} {q q' : ScqId} (hne : q' ≠ q) :
    (l.filter (fun y => y.id ≠ q)).find? (fun y => y.id = q') = l.find? (fun y => y.id = q') := by
  induction l with
  | nil => rfl
  | cons a r ih =>
    by_cases ha : a.id = q
    · have h1 : (a :: r).filter (fun y => y.id ≠ q) = r.filter (fun y => y.id ≠ q) := by
        simp [ha]
      have h2 : ¬ a.id = q' := by rw [ha]; exact fun e => hne e.symm
      rw [h1, ih, List.find?_cons]; simp [h2]
    · have h1 : (a :: r).filter (fun y => y.id ≠ q) = a :: r.filter (fun y => y.id ≠ q) := by
        simp [ha]
      rw [h1, List.find?_cons, List.find?_cons, ih]

theorem find?_filter_self {l : List Scq} {q : ScqId} :
    (l.filter (fun y => y.id ≠ q)).find? (fun y => y.id = q) = none := by
  rw [List.find?_eq_none]
  intro x hx
  simpa using (List.mem_filter.1 hx).2

theorem dropScq_cinv {s : State} {q : ScqId} (hc : CInv { scq := some q } s) : CInv noEx (dropScq s q) := by
  have hscq : ∀ q', (dropScq s q).scq? q' = if q' = q then none else s.scq? q' := by
    intro q'
    have e : (dropScq s q).scqs = s.scqs.filter (fun x => x.id ≠ q) := by unfold dropScq; split <;> rfl
    simp only [State.scq?, e]
    split
    · rename_i h; subst h; exact find?_filter_self
    · rename_i h; exact find?_filter_id' h
  have hkk : ∀ k, hasK (dropScq s q) k ↔ hasK s k := hasK_congr (by simp)
  have hop : ∀ k, (dropScq s q).op? k = s.op? k := by intro k; simp [State.op?]
  have htk : ∀ k, (dropScq s q).task? k = s.task? k := by intro k; simp [State.task?]
  obtain ⟨hnow, hnoe⟩ := hc.exScq q rfl
  refine ⟨by simpa using hc.uniq, ?_, ?_, ?_, ?_, ?_, ?_, ?_, ?_, ?_, ?_, (fun _ hq => nomatch hq), (fun _ _ hq => nomatch hq)⟩
  · intro wk hm hi; rw [hkk]; exact hc.wIn wk (by simpa using hm) hi
  · intro wk hm hi _; rw [hkk]; exact hc.wOut wk (by simpa using hm) hi (by simp)
  · intro q' w hh; simpa using hc.eW q' w ((hkk _).1 hh)
  · intro o hh; rw [hop]; exact hc.eO o ((hkk _).1 hh)
  · intro q' hh
    have hh' := (hkk _).1 hh
    have hne : q' ≠ q := by intro e; subst e; exact hnoe hh'
    obtain ⟨a, b⟩ := hc.eS q' hh'
    rw [hscq]; simp only [hne, if_false]
    exact ⟨a, by simpa using b⟩
  · intro o op e hb; rw [hop] at e; rw [htk]; exact hc.opBg o op e hb
  · intro o op e hb _; rw [hop] at e; rw [hkk]; exact hc.opFg o op e hb (by simp)
  · intro o op e; rw [hop] at e; rw [htk]; exact hc.opT o op e
  · intro q' sq e hb _
    rw [hscq] at e
    split at e
    · cases e
    · rename_i hne
      rw [hkk]
      rcases hc.scqW q' sq e hb (by simp; exact fun e' => hne e') with h | h
      · exact .inl (by simpa using h)
      · exact .inr h
  · intro wk hm
    have hm' : wk ∈ s.workers := by simpa using hm
    rw [hscq]
    have := hnow wk hm'
    simp only [this, if_false]
    exact hc.wScq wk hm'

theorem removeScq_kwc {h : Hints} {P s' : State} {q : ScqId} (hh : removeScq h P q = .ok s')
    (hi : KWC { scq := some q } P) : KWC noEx s' := by
  refine ⟨removeScq_kw hh hi.1, ?_⟩
  obtain ⟨s1, h1, rfl⟩ := removeScq_ok hh
  exact dropScq_cinv (cancelAllQueued_kwc h1 hi).2

end BbRe.Lemmas.SchedLive
