import BbRe.Lemmas.SchedTreePrioFixPrim
/-!
Tree-level reading of `PrioFix`: on the snapshot (`Fair.Inv`) of a node list in which every non-root
invocation's cached priority is a fixpoint of `updateFirstOperationPriority`, every invocation below the root
caches its TRUE priority (`TrueDefs.truthful`): the least priority of its directly queued operations, or else
the cached priority of the queued child the heap order puts first.  The definitions do not depend on the order
in which the snapshot lists `ops` / `queued`.
-/
namespace BbRe.Lemmas.SchedTree
open BbRe.Sched BbRe.SchedTree

namespace TrueDefs
open BbRe

/-- the queued child `updateFirstOperationPriority` reads: the first of the children listed in `queued` that no
other listed child is `Fair.childLess` than (any heap root is such a child) -/
def firstKid (c : Fair.Inv) : Option Fair.Inv :=
  let ks := c.queued.filterMap (fun k => c.child k)
  match ks.find? (fun g => ks.all (fun g' => !Fair.childLess g' g)) with
  | some g => some g
  | none => ks.head?

/-- the priority of the operation expected to be executed next below `c` -/
def truePrio (c : Fair.Inv) : Int :=
  if !c.ops.isEmpty then minPrio (c.ops.map (·.prio))
  else match firstKid c with
    | some g => g.prio
    | none => c.prio

mutual
/-- every invocation below the root caches its true priority -/
def truthful : Fair.Inv → Bool
  | .mk _ _ _ _ _ _ _ _ _ kids => kids.all (fun c => c.prio == truePrio c) && truthfulL kids
def truthfulL : List Fair.Inv → Bool
  | [] => true
  | c :: cs => truthful c && truthfulL cs
end

/-! ### the reading of `truthful` -/

mutual
/-- the operations queued at or below an invocation: its own and, recursively, those of the children listed in
`queued` -/
def allOps : Fair.Inv → List Fair.Op
  | .mk _ ops queued _ _ _ _ _ _ kids => ops ++ allOpsL queued kids
def allOpsL (queued : List Nat) : List Fair.Inv → List Fair.Op
  | [] => []
  | c :: cs => (if queued.contains c.key then allOps c else []) ++ allOpsL queued cs
end

mutual
/-- every key listed in `queued` is the key of a child (`i.children[k]`) that is itself queued -/
def queuedLive : Fair.Inv → Bool
  | .mk _ _ queued _ _ _ _ _ _ kids =>
    queued.all (fun k => (kids.find? (fun c => c.key == k)).any Fair.Inv.isQueued) && queuedLiveL kids
def queuedLiveL : List Fair.Inv → Bool
  | [] => true
  | c :: cs => queuedLive c && queuedLiveL cs
end

/-- `c` is an invocation strictly below `t` -/
inductive Below : Fair.Inv → Fair.Inv → Prop
  | kid {t c : Fair.Inv} : c ∈ t.kids → Below t c
  | step {t c d : Fair.Inv} : c ∈ t.kids → Below c d → Below t d

end TrueDefs

open TrueDefs

/-! ### unfolding -/

theorem truthfulL_eq (cs : List Fair.Inv) : truthfulL cs = cs.all truthful := by
  induction cs with
  | nil => rfl
  | cons c cs ih => rw [truthfulL, ih, List.all_cons]

theorem truthful_eq (i : Fair.Inv) :
    truthful i = (i.kids.all (fun c => c.prio == truePrio c) && i.kids.all truthful) := by
  cases i with
  | mk k ops q p e s pk pkk c kids => rw [truthful, truthfulL_eq]; rfl

/-! ### what `firstKid` / `truePrio` read -/

/-- what `Fair.childLess` reads of a snapshot node -/
def ckI (g : Fair.Inv) : CK := (g.exec, g.prio, g.started)

theorem fairChildLess_ck (a b : Fair.Inv) : Fair.childLess a b = lessK (ckI a) (ckI b) := rfl

theorem firstKid_ck (c : Fair.Inv) :
    (firstKid c).map ckI = bestK ((c.queued.filterMap (fun k => c.child k)).map ckI) := by
  unfold firstKid bestK
  simp only []
  rw [List.find?_map, List.head?_map]
  have : ((fun g => ((c.queued.filterMap (fun k => c.child k)).map ckI).all (fun g' => !lessK g' g)) ∘ ckI) =
      (fun g => (c.queued.filterMap (fun k => c.child k)).all (fun g' => !Fair.childLess g' g)) := by
    funext g
    simp only [Function.comp, List.all_map, fairChildLess_ck]
    rfl
  rw [this]
  cases (c.queued.filterMap (fun k => c.child k)).find?
      (fun g => (c.queued.filterMap (fun k => c.child k)).all (fun g' => !Fair.childLess g' g)) with
  | none => rfl
  | some g => rfl

/-- `truePrio` as a function of the operations' priorities, the cache and the listed children's `ckI` -/
theorem truePrio_eq (c : Fair.Inv) :
    truePrio c = if !c.ops.isEmpty then minPrio (c.ops.map (·.prio))
      else match bestK ((c.queued.filterMap (fun k => c.child k)).map ckI) with
        | some x => x.2.1
        | none => c.prio := by
  unfold truePrio
  split
  · rfl
  · rw [← firstKid_ck]
    cases firstKid c with
    | none => rfl
    | some g => rfl

/-! ### `childKeys`, `maxDepth` -/

theorem mem_childKeys {ns : List Node} {q : ScqId} {p : List Nat} {k : Nat} :
    k ∈ childKeys ns q p ↔ ∃ m ∈ ns, m.scq = q ∧ m.path = p ++ [k] := by
  unfold childKeys
  simp only [List.mem_map, List.mem_filter, Bool.and_eq_true, decide_eq_true_eq, List.isPrefixOf_iff_prefix]
  constructor
  · rintro ⟨m, ⟨hm, ⟨hq, hl⟩, hp⟩, hk⟩
    refine ⟨m, hm, hq, ?_⟩
    obtain ⟨t, ht⟩ := hp
    rw [← ht] at hl hk ⊢
    rw [List.length_append] at hl
    match t, hl, hk with
    | [x], _, hk => rw [lastKey_snoc] at hk; rw [hk]
    | [], hl, _ => simp at hl
    | _ :: _ :: _, hl, _ => simp at hl
  · rintro ⟨m, hm, hq, hp⟩
    refine ⟨m, ⟨hm, ⟨hq, ?_⟩, ?_⟩, ?_⟩
    · rw [hp]; simp
    · rw [hp]; exact List.prefix_append _ _
    · rw [hp, lastKey_snoc]

theorem mem_childKeys_iff_node {ns : List Node} {q : ScqId} {p : List Nat} {k : Nat} :
    k ∈ childKeys ns q p ↔ (node? ns q (p ++ [k])).isSome = true := by
  rw [mem_childKeys, node?_isSome_iff]

theorem foldl_maxDepth_ge (q : ScqId) : ∀ (ns : List Node) (d : Nat),
    d ≤ ns.foldl (fun d n => if n.scq = q then max d n.path.length else d) d ∧
    ∀ n ∈ ns, n.scq = q → n.path.length ≤ ns.foldl (fun d n => if n.scq = q then max d n.path.length else d) d
  | [], d => ⟨Nat.le_refl _, fun _ h => by cases h⟩
  | a :: l, d => by
    rw [List.foldl_cons]
    have ih := foldl_maxDepth_ge q l (if a.scq = q then max d a.path.length else d)
    constructor
    · refine Nat.le_trans ?_ ih.1
      split
      · exact Nat.le_max_left _ _
      · exact Nat.le_refl _
    · intro n hn hq
      rcases List.mem_cons.mp hn with e | hm
      · refine Nat.le_trans ?_ ih.1
        rw [← e, if_pos hq]
        exact Nat.le_max_right _ _
      · exact ih.2 n hm hq

theorem length_le_maxDepth {ns : List Node} {q : ScqId} {n : Node} (hn : n ∈ ns) (hq : n.scq = q) :
    n.path.length ≤ maxDepth ns q :=
  (foldl_maxDepth_ge q ns 0).2 n hn hq

/-! ### fields of `toInv` -/

theorem toInv_fields {opOf : Nat → Fair.Op} {enc : WId → Nat} {ns : List Node} {q : ScqId} {p : List Nat} {n : Node}
    (h : node? ns q p = some n) (fuel : Nat) :
    (toInv opOf enc ns q fuel p).ops = n.qops.map opOf ∧ (toInv opOf enc ns q fuel p).queued = n.qkids ∧
    (toInv opOf enc ns q fuel p).prio = n.prio ∧ ckI (toInv opOf enc ns q fuel p) = ck n := by
  cases fuel with
  | zero => simp only [toInv, h]; exact ⟨rfl, rfl, rfl, rfl⟩
  | succ f => simp only [toInv, h]; exact ⟨rfl, rfl, rfl, rfl⟩

theorem toInv_key (opOf : Nat → Fair.Op) (enc : WId → Nat) (ns : List Node) (q : ScqId) (p : List Nat) (fuel : Nat) :
    (toInv opOf enc ns q fuel p).key = lastKey p := by
  cases fuel with
  | zero => simp only [toInv]; cases node? ns q p <;> rfl
  | succ f => simp only [toInv]; cases node? ns q p <;> rfl

theorem toInv_kids {opOf : Nat → Fair.Op} {enc : WId → Nat} {ns : List Node} {q : ScqId} {p : List Nat} {n : Node}
    (h : node? ns q p = some n) (f : Nat) :
    (toInv opOf enc ns q (f + 1) p).kids = (childKeys ns q p).map (fun k => toInv opOf enc ns q f (p ++ [k])) := by
  simp only [toInv, h]; rfl

theorem toInv_kids_none {opOf : Nat → Fair.Op} {enc : WId → Nat} {ns : List Node} {q : ScqId} {p : List Nat}
    (h : node? ns q p = none) (fuel : Nat) : (toInv opOf enc ns q fuel p).kids = [] := by
  cases fuel with
  | zero => simp only [toInv, h]; rfl
  | succ f => simp only [toInv, h]; rfl

theorem toInv_kids_zero (opOf : Nat → Fair.Op) (enc : WId → Nat) (ns : List Node) (q : ScqId) (p : List Nat) :
    (toInv opOf enc ns q 0 p).kids = [] := by
  simp only [toInv]; cases node? ns q p <;> rfl

theorem find?_eq_self (k : Nat) : ∀ (l : List Nat), l.find? (fun k' => k' == k) = if k ∈ l then some k else none
  | [] => rfl
  | a :: l => by
    rw [List.find?_cons]
    by_cases h : a = k
    · subst h; simp
    · have : (a == k) = false := by simpa using h
      rw [this, find?_eq_self k l]
      have : (k ∈ a :: l) ↔ k ∈ l := by
        rw [List.mem_cons]; constructor
        · rintro (e | e); exact absurd e.symm h; exact e
        · exact Or.inr
      simp only [this]

/-- `i.children[k]` on the snapshot: the snapshot of the node at `p ++ [k]`, exactly when that node exists -/
theorem toInv_child {opOf : Nat → Fair.Op} {enc : WId → Nat} {ns : List Node} {q : ScqId} {p : List Nat} {n : Node}
    (h : node? ns q p = some n) (f : Nat) (k : Nat) :
    (toInv opOf enc ns q (f + 1) p).child k =
      (node? ns q (p ++ [k])).map (fun _ => toInv opOf enc ns q f (p ++ [k])) := by
  unfold Fair.Inv.child
  rw [toInv_kids h, List.find?_map]
  have : ((fun c : Fair.Inv => c.key == k) ∘ fun k' => toInv opOf enc ns q f (p ++ [k'])) = fun k' => k' == k := by
    funext k'
    simp only [Function.comp, toInv_key, lastKey_snoc]
  rw [this, find?_eq_self]
  by_cases hk : k ∈ childKeys ns q p
  · rw [if_pos hk]
    obtain ⟨c, hc⟩ := Option.isSome_iff_exists.mp (mem_childKeys_iff_node.mp hk)
    rw [hc]; rfl
  · rw [if_neg hk]
    have : node? ns q (p ++ [k]) = none := by
      cases hc : node? ns q (p ++ [k]) with
      | none => rfl
      | some c => exact absurd (mem_childKeys_iff_node.mpr (by rw [hc]; rfl)) hk
    rw [this]; rfl

/-- the listed children of the snapshot node, as `updateFirstOperationPriority` sees them, are those of the flat node -/
theorem toInv_kidsK {opOf : Nat → Fair.Op} {enc : WId → Nat} {ns : List Node} {q : ScqId} {p : List Nat} {n : Node}
    (h : node? ns q p = some n) (f : Nat) :
    ((toInv opOf enc ns q (f + 1) p).queued.filterMap (fun k => (toInv opOf enc ns q (f + 1) p).child k)).map ckI =
      kidsK ns n := by
  obtain ⟨_, hq, hp⟩ := node?_some h
  unfold kidsK
  rw [List.map_filterMap, (toInv_fields h (f + 1)).2.1]
  apply filterMap_congr'
  intro k _
  rw [toInv_child h, hq, hp]
  unfold ckAt
  cases hc : node? ns q (p ++ [k]) with
  | none => rfl
  | some c =>
    simp only [Option.map_some]
    rw [(toInv_fields hc f).2.2.2]

/-- the true priority of a snapshot node that still has its children is what `updateFirstOperationPriority` stores -/
theorem truePrio_toInv {pr : Nat → Int} {opOf : Nat → Fair.Op} {enc : WId → Nat} {ns : List Node} {q : ScqId}
    {p : List Nat} {n : Node} (hop : ∀ o, (opOf o).prio = pr o) (h : node? ns q p = some n) (f : Nat) :
    truePrio (toInv opOf enc ns q (f + 1) p) = (updPrio pr ns n).prio := by
  rw [truePrio_eq, updPrio_prio, toInv_kidsK h f]
  obtain ⟨ho, _, hpr, _⟩ := toInv_fields (opOf := opOf) (enc := enc) h (f + 1)
  rw [ho, hpr]
  unfold upval
  have e1 : (n.qops.map opOf).isEmpty = n.qops.isEmpty := by cases n.qops <;> rfl
  have e2 : (n.qops.map opOf).map (·.prio) = n.qops.map pr := by
    rw [List.map_map]; apply List.map_congr_left; intro o _; exact hop o
  rw [e1, e2]
  split
  · rfl
  · cases bestK (kidsK ns n) with
    | none => rfl
    | some x => rfl

/-! ### the snapshot is truthful -/

theorem truthful_toInv {pr : Nat → Int} {ns : List Node} {opOf : Nat → Fair.Op} {enc : WId → Nat} (q : ScqId)
    (hf : PrioFix pr ns) (hop : ∀ o, (opOf o).prio = pr o) :
    ∀ (fuel : Nat) (p : List Nat), maxDepth ns q + 1 ≤ fuel + p.length →
      truthful (toInv opOf enc ns q fuel p) = true
  | 0, p, _ => by rw [truthful_eq, toInv_kids_zero]; rfl
  | f + 1, p, hd => by
    rw [truthful_eq]
    cases h : node? ns q p with
    | none => rw [toInv_kids_none h]; rfl
    | some n =>
      rw [toInv_kids h, List.all_map, List.all_map, Bool.and_eq_true, List.all_eq_true, List.all_eq_true]
      have key : ∀ k ∈ childKeys ns q p,
          ((toInv opOf enc ns q f (p ++ [k])).prio == truePrio (toInv opOf enc ns q f (p ++ [k]))) = true ∧
          truthful (toInv opOf enc ns q f (p ++ [k])) = true := by
        intro k hk
        have hd' : maxDepth ns q + 1 ≤ f + (p ++ [k]).length := by
          rw [List.length_append, List.length_singleton]; omega
        refine ⟨?_, truthful_toInv q hf hop f (p ++ [k]) hd'⟩
        obtain ⟨c, hc⟩ := Option.isSome_iff_exists.mp (mem_childKeys_iff_node.mp hk)
        obtain ⟨hcm, hcq, hcp⟩ := node?_some hc
        have hlen := length_le_maxDepth hcm hcq
        rw [hcp, List.length_append, List.length_singleton] at hlen
        obtain ⟨f', rfl⟩ : ∃ f', f = f' + 1 := ⟨f - 1, by omega⟩
        rw [truePrio_toInv hop hc f', (toInv_fields hc (f' + 1)).2.2.1, hf c hcm (by rw [hcp]; simp)]
        exact beq_self_eq_true _
      exact ⟨fun k hk => (key k hk).1, fun k hk => (key k hk).2⟩

theorem truthful_snapshot {pr : Nat → Int} {ns : List Node} {opOf : Nat → Fair.Op} (q : ScqId)
    (hf : PrioFix pr ns) (hs : StructOK ns) (hop : ∀ o, (opOf o).prio = pr o) :
    TrueDefs.truthful (snapshot opOf ns q) = true := by
  have _ := hs
  unfold snapshot
  exact truthful_toInv q hf hop _ _ (by simp)

/-! ### the reading of `truthful`: the cache of a queued invocation is the priority of an operation queued at or
below it -/

theorem minPrio_spec : ∀ (l : List Int), l ≠ [] → minPrio l ∈ l ∧ ∀ x ∈ l, minPrio l ≤ x
  | [], h => absurd rfl h
  | [a], _ => by simp [minPrio]
  | a :: b :: r, _ => by
    have ih := minPrio_spec (b :: r) (List.cons_ne_nil _ _)
    have e : minPrio (a :: b :: r) = min a (minPrio (b :: r)) := by rw [minPrio]; simp
    rw [e]
    constructor
    · by_cases h : a ≤ minPrio (b :: r)
      · rw [Int.min_eq_left h]; exact List.mem_cons_self
      · rw [Int.min_eq_right (by omega)]; exact List.mem_cons_of_mem _ ih.1
    · intro x hx
      rcases List.mem_cons.mp hx with e | hm
      · rw [e]; exact Int.min_le_left _ _
      · exact Int.le_trans (Int.min_le_right _ _) (ih.2 x hm)

theorem allOpsL_mem {qd : List Nat} {o : Fair.Op} : ∀ {cs : List Fair.Inv},
    o ∈ allOpsL qd cs ↔ ∃ c ∈ cs, qd.contains c.key = true ∧ o ∈ allOps c
  | [] => by simp [allOpsL]
  | a :: cs => by
    rw [allOpsL, List.mem_append, allOpsL_mem (cs := cs)]
    constructor
    · rintro (h | ⟨c, hc, h⟩)
      · split at h
        · exact ⟨a, List.mem_cons_self, ‹_›, h⟩
        · cases h
      · exact ⟨c, List.mem_cons_of_mem _ hc, h⟩
    · rintro ⟨c, hc, hk, ho⟩
      rcases List.mem_cons.mp hc with e | hm
      · left; rw [← e, if_pos hk]; exact ho
      · exact Or.inr ⟨c, hm, hk, ho⟩

theorem allOps_mem {i : Fair.Inv} {o : Fair.Op} :
    o ∈ allOps i ↔ o ∈ i.ops ∨ ∃ c ∈ i.kids, i.queued.contains c.key = true ∧ o ∈ allOps c := by
  cases i with
  | mk k ops q p e s pk pkk c kids => rw [allOps, List.mem_append, allOpsL_mem]; rfl

theorem queuedLiveL_eq (cs : List Fair.Inv) : queuedLiveL cs = cs.all queuedLive := by
  induction cs with
  | nil => rfl
  | cons c cs ih => rw [queuedLiveL, ih, List.all_cons]

theorem queuedLive_eq (i : Fair.Inv) :
    queuedLive i = (i.queued.all (fun k => (i.child k).any Fair.Inv.isQueued) && i.kids.all queuedLive) := by
  cases i with
  | mk k ops q p e s pk pkk c kids => rw [queuedLive, queuedLiveL_eq]; rfl

theorem firstKid_mem {c g : Fair.Inv} (h : firstKid c = some g) : g ∈ c.queued.filterMap (fun k => c.child k) := by
  unfold firstKid at h
  simp only [] at h
  split at h
  · rename_i g' hg'
    cases h
    exact List.mem_of_find?_eq_some hg'
  · obtain ⟨ys, hy⟩ := List.head?_eq_some_iff.mp h
    rw [hy]; exact List.mem_cons_self

theorem firstKid_isSome {c : Fair.Inv} (h : c.queued.filterMap (fun k => c.child k) ≠ []) :
    ∃ g, firstKid c = some g := by
  unfold firstKid
  simp only []
  split
  · exact ⟨_, rfl⟩
  · obtain ⟨g, ys, hy⟩ := List.exists_cons_of_ne_nil h
    exact ⟨g, by rw [hy]; rfl⟩

theorem mem_of_child {c g : Fair.Inv} {k : Nat} (h : c.child k = some g) : g ∈ c.kids ∧ g.key = k := by
  unfold Fair.Inv.child at h
  exact ⟨List.mem_of_find?_eq_some h, by simpa using List.find?_some h⟩

/-- for the operations queued directly at `c`: the cache is the least of their priorities -/
theorem truthful_ops {t c : Fair.Inv} (ht : truthful t = true) (hc : c ∈ t.kids) (ho : c.ops ≠ []) :
    (∃ o ∈ c.ops, o.prio = c.prio) ∧ ∀ o ∈ c.ops, c.prio ≤ o.prio := by
  rw [truthful_eq, Bool.and_eq_true, List.all_eq_true] at ht
  have hcp : c.prio = truePrio c := by simpa using ht.1 c hc
  have he : c.ops.isEmpty = false := by cases hh : c.ops with
    | nil => exact absurd hh ho
    | cons _ _ => rfl
  have htp : truePrio c = minPrio (c.ops.map (·.prio)) := by
    unfold truePrio; rw [he]; rfl
  have hm := minPrio_spec (c.ops.map (·.prio)) (by simpa using ho)
  rw [← htp, ← hcp] at hm
  constructor
  · obtain ⟨o, ho1, ho2⟩ := List.mem_map.mp hm.1
    exact ⟨o, ho1, ho2⟩
  · intro o hom
    exact hm.2 _ (List.mem_map.mpr ⟨o, hom, rfl⟩)

theorem sizeOf_lt_of_mem_kids {t c : Fair.Inv} (hc : c ∈ t.kids) : sizeOf c < sizeOf t := by
  cases t with
  | mk k ops q p e s pk pkk cc kids =>
    have := List.sizeOf_lt_of_mem (show c ∈ kids from hc)
    simp only [Fair.Inv.mk.sizeOf_spec]
    omega

theorem truthful_reading_aux : ∀ (n : Nat) (t : Fair.Inv), sizeOf t ≤ n → truthful t = true → queuedLive t = true →
    ∀ c ∈ t.kids, c.isQueued = true → ∃ o ∈ allOps c, o.prio = c.prio := by
  intro n
  induction n with
  | zero =>
    intro t hn _ _ c hc _
    have := sizeOf_lt_of_mem_kids hc
    omega
  | succ n ih =>
  intro t hn ht hl c hc hq
  by_cases ho : c.ops = []
  · have ht' := ht
    have hl' := hl
    rw [truthful_eq, Bool.and_eq_true, List.all_eq_true, List.all_eq_true] at ht'
    rw [queuedLive_eq, Bool.and_eq_true, List.all_eq_true, List.all_eq_true] at hl'
    have hcp : c.prio = truePrio c := by simpa using ht'.1 c hc
    have hlc := hl'.2 c hc
    have hlc' := hlc
    rw [queuedLive_eq, Bool.and_eq_true, List.all_eq_true] at hlc'
    have hqd : c.queued ≠ [] := by
      unfold Fair.Inv.isQueued at hq; rw [ho] at hq
      intro e; rw [e] at hq; simp at hq
    obtain ⟨k, rest, hk⟩ := List.exists_cons_of_ne_nil hqd
    have hk1 := hlc'.1 k (by rw [hk]; exact List.mem_cons_self)
    have hks : c.queued.filterMap (fun k => c.child k) ≠ [] := by
      rw [hk, List.filterMap_cons]
      cases hck : c.child k with
      | none => rw [hck] at hk1; simp at hk1
      | some g0 => simp
    obtain ⟨g, hg⟩ := firstKid_isSome hks
    have htp : truePrio c = g.prio := by
      unfold truePrio; rw [ho, hg]; rfl
    obtain ⟨k', hk', hgc⟩ := List.mem_filterMap.mp (firstKid_mem hg)
    obtain ⟨hgm, hgk⟩ := mem_of_child hgc
    have hgq : g.isQueued = true := by
      have := hlc'.1 k' hk'
      rw [hgc] at this; simpa using this
    obtain ⟨o, ho1, ho2⟩ := ih c (by have := sizeOf_lt_of_mem_kids hc; omega) (ht'.2 c hc) hlc g hgm hgq
    refine ⟨o, allOps_mem.mpr (Or.inr ⟨g, hgm, ?_, ho1⟩), by rw [ho2, hcp, htp]⟩
    rw [hgk]; simpa using hk'
  · obtain ⟨o, ho1, ho2⟩ := (truthful_ops ht hc ho).1
    exact ⟨o, allOps_mem.mpr (Or.inl ho1), ho2⟩

/-- the cache of a queued child of the root of a truthful tree is the priority of an operation queued at or below it -/
theorem truthful_reading_kid (t : Fair.Inv) (ht : truthful t = true) (hl : queuedLive t = true) :
    ∀ c ∈ t.kids, c.isQueued = true → ∃ o ∈ allOps c, o.prio = c.prio :=
  truthful_reading_aux (sizeOf t) t (Nat.le_refl _) ht hl

theorem truthful_of_mem {t c : Fair.Inv} (ht : truthful t = true) (hc : c ∈ t.kids) : truthful c = true := by
  rw [truthful_eq, Bool.and_eq_true, List.all_eq_true, List.all_eq_true] at ht
  exact ht.2 c hc

theorem queuedLive_of_mem {t c : Fair.Inv} (ht : queuedLive t = true) (hc : c ∈ t.kids) : queuedLive c = true := by
  rw [queuedLive_eq, Bool.and_eq_true, List.all_eq_true, List.all_eq_true] at ht
  exact ht.2 c hc

/-- THE READING: in a truthful tree (whose `queued` lists name queued children), the cache of every invocation `c`
below the root that has queued work is the priority of an operation queued at or below `c`; when operations are
queued directly at `c`, it is the least of their priorities. -/
theorem truthful_reading {t c : Fair.Inv} (hb : Below t c) (ht : truthful t = true) (hl : queuedLive t = true) :
    (c.isQueued = true → ∃ o ∈ allOps c, o.prio = c.prio) ∧
    (c.ops ≠ [] → (∃ o ∈ c.ops, o.prio = c.prio) ∧ ∀ o ∈ c.ops, c.prio ≤ o.prio) := by
  induction hb with
  | kid hc => exact ⟨truthful_reading_kid _ ht hl _ hc, truthful_ops ht hc⟩
  | step hc _ ih => exact ih (truthful_of_mem ht hc) (queuedLive_of_mem hl hc)

/-! ### the snapshot's `queued` lists name queued children (`StructOK`) -/

theorem toInv_isQueued {opOf : Nat → Fair.Op} {enc : WId → Nat} {ns : List Node} {q : ScqId} {p : List Nat} {n : Node}
    (h : node? ns q p = some n) (fuel : Nat) : (toInv opOf enc ns q fuel p).isQueued = n.isQueued := by
  obtain ⟨ho, hq, _, _⟩ := toInv_fields (opOf := opOf) (enc := enc) h fuel
  unfold Fair.Inv.isQueued Node.isQueued
  rw [ho, hq]
  cases n.qops <;> rfl

theorem toInv_queued_none {opOf : Nat → Fair.Op} {enc : WId → Nat} {ns : List Node} {q : ScqId} {p : List Nat}
    (h : node? ns q p = none) (fuel : Nat) : (toInv opOf enc ns q fuel p).queued = [] := by
  cases fuel with
  | zero => simp only [toInv, h]; rfl
  | succ f => simp only [toInv, h]; rfl

theorem queuedLive_toInv {ns : List Node} {opOf : Nat → Fair.Op} {enc : WId → Nat} (q : ScqId) (hs : StructOK ns) :
    ∀ (fuel : Nat) (p : List Nat), maxDepth ns q + 1 ≤ fuel + p.length →
      queuedLive (toInv opOf enc ns q fuel p) = true
  | fuel, p, hd => by
    rw [queuedLive_eq, Bool.and_eq_true, List.all_eq_true, List.all_eq_true]
    cases h : node? ns q p with
    | none =>
      rw [toInv_queued_none h, toInv_kids_none h]
      exact ⟨fun _ hk => (by cases hk), fun _ hk => (by cases hk)⟩
    | some n =>
      obtain ⟨hn, hnq, hnp⟩ := node?_some h
      have hkid : ∀ k ∈ n.qkids, ∃ c, node? ns q (p ++ [k]) = some c ∧ c.isQueued = true := by
        intro k hk
        have := hs.2 n hn k hk
        rwa [hnq, hnp] at this
      cases fuel with
      | zero =>
        -- no node of queue `q` is that deep
        have hnil : n.qkids = [] := by
          cases hh : n.qkids with
          | nil => rfl
          | cons k r =>
            obtain ⟨c, hc, _⟩ := hkid k (by rw [hh]; exact List.mem_cons_self)
            obtain ⟨hcm, hcq, hcp⟩ := node?_some hc
            have hlen := length_le_maxDepth hcm hcq
            rw [hcp, List.length_append, List.length_singleton] at hlen
            omega
        rw [(toInv_fields h 0).2.1, hnil, toInv_kids_zero]
        exact ⟨fun _ hk => (by cases hk), fun _ hk => (by cases hk)⟩
      | succ f =>
        constructor
        · intro k hk
          rw [(toInv_fields h (f + 1)).2.1] at hk
          obtain ⟨c, hc, hcq⟩ := hkid k hk
          rw [toInv_child h, hc]
          simp only [Option.map_some, Option.any_some]
          rw [toInv_isQueued hc, hcq]
        · intro g hg
          rw [toInv_kids h] at hg
          obtain ⟨k, _, rfl⟩ := List.mem_map.mp hg
          exact queuedLive_toInv q hs f (p ++ [k]) (by rw [List.length_append, List.length_singleton]; omega)

theorem queuedLive_snapshot {ns : List Node} {opOf : Nat → Fair.Op} (q : ScqId) (hs : StructOK ns) :
    TrueDefs.queuedLive (snapshot opOf ns q) = true := by
  unfold snapshot
  exact queuedLive_toInv q hs _ _ (by simp)

/-- the reading on the snapshot of a node list satisfying `PrioFix` -/
theorem snapshot_reading {pr : Nat → Int} {ns : List Node} {opOf : Nat → Fair.Op} (q : ScqId)
    (hf : PrioFix pr ns) (hs : StructOK ns) (hop : ∀ o, (opOf o).prio = pr o) {c : Fair.Inv}
    (hb : TrueDefs.Below (snapshot opOf ns q) c) :
    (c.isQueued = true → ∃ o ∈ TrueDefs.allOps c, o.prio = c.prio) ∧
    (c.ops ≠ [] → (∃ o ∈ c.ops, o.prio = c.prio) ∧ ∀ o ∈ c.ops, c.prio ≤ o.prio) :=
  truthful_reading hb (truthful_snapshot q hf hs hop) (queuedLive_snapshot q hs)

end BbRe.Lemmas.SchedTree
