import BbRe.Lemmas.SchedTreeFnDefs
import BbRe.Lemmas.SchedInvCleanup
import BbRe.Lemmas.SchedLiveClean10
/-!
The two cross-checks of the tree layer's cleanup callbacks are dead code.

`tRemoveScq` rejects the removal of a size-class queue that still has workers and `tRemoveStaleWorker` the
removal of a worker that is parked inside `Synchronize` (`Model/Sched.lean` does neither; the tree layer could
not keep its invariant there).  The cleanup accounting invariant of C06 (`Lemmas/SchedLiveClean*.lean`,
`KWC`) says that the cleanup queue never schedules either.  Here: on every state whose `Sched` component
satisfies the invariants of `Model/Sched.lean` (in particular on every reachable state of the tree layer)
`bq.enter` — the only caller of the callbacks — computes exactly what the copy without the cross-checks
computes, for every answer (results and errors alike).
-/
namespace BbRe.Lemmas.SchedTree
open BbRe.Sched BbRe.SchedTree BbRe.Lemmas.SchedInv BbRe.Lemmas.SchedLive

/-- `tRemoveScq` without the cross-check -/
def tRemoveScqNG (h : Hints) (x : Extras) (ts : TState) (q : ScqId) : M TState := do
  let ts ← tCancelAllQueued h x ts q ⟨cUnavailable, 0, 0, .queueRemoved⟩
  let s := { ts.s with scqs := ts.s.scqs.filter (fun y => y.id ≠ q) }
  if s.scqs.any (fun y => y.id.pq = q.pq) then return (ts.dropScqTree q).setS s
  return ((ts.dropScqTree q).dropLimits q.pq).setS { s with pqs := s.pqs.filter (fun p => p.id ≠ q.pq) }

/-- `tRemoveStaleWorker` without the cross-check -/
def tRemoveStaleWorkerNG (h : Hints) (x : Extras) (ts : TState) (q : ScqId) (w : WId) (removalTime : Nat) : M TState := do
  let some wk := ts.s.worker? q w | return ts
  let ts ← match wk.task with
    | some t => tComplete h x ts t ⟨cUnavailable, 0, 0, .workerDisappeared⟩ false
    | none => pure ts
  let s := { ts.s with workers := ts.s.workers.filter (fun y => ¬ (y.scq = q ∧ y.id = w)) }
  let ts := (ts.dropWorkerTree q w).setS s
  match s.scq? q with
  | some sq =>
    if !s.workers.any (fun y => y.scq = q) ∧ sq.mayBeRemoved
    then return ts.setS (s.addCleanup (removalTime + s.cfg.pqTimeout) (.scq q)) else return ts
  | none => return ts

/-- `tRunCleanup` without the cross-checks -/
def tRunCleanupNG (h : Hints) (x : Extras) : Nat → TState → M TState
  | 0, ts => pure ts
  | fuel + 1, ts =>
    match popDue ts.s.now ts.s.cleanup with
    | none => pure ts
    | some (e, rest) => do
      let ts := ts.setS { ts.s with cleanup := rest }
      let ts ← match e.kind with
        | .worker q w => tRemoveStaleWorkerNG h x ts q w e.deadline
        | .op o => tRemoveOp h x ts o
        | .scq q => tRemoveScqNG h x ts q
      tRunCleanupNG h x fuel ts

/-- `tEnter` without the cross-checks -/
def tEnterNG (h : Hints) (x : Extras) (ts : TState) (t : Nat) : M TState :=
  if t > ts.s.now then tRunCleanupNG h x (cleanupFuel ts.s) (ts.setS { ts.s with now := t }) else pure ts

theorem tRemoveScq_ng {h : Hints} {x : Extras} {ts : TState} {q : ScqId} (hI : Inv ts.s)
    (hnw : ∀ wk ∈ ts.s.workers, wk.scq ≠ q) : tRemoveScq h x ts q = tRemoveScqNG h x ts q := by
  unfold tRemoveScq tRemoveScqNG
  simp only [bind, Except.bind, pure, Except.pure]
  cases hc : tCancelAllQueued h x ts q ⟨cUnavailable, 0, 0, .queueRemoved⟩ with
  | error e => rfl
  | ok ts1 =>
    simp only []
    obtain ⟨_, _, hwex⟩ := inv_of_ref (tCancelAllQueued_ref h x ts q _) (cancelAllQueued_spec hI) hc
    have hg : (ts1.s.workers.any fun y => decide (y.scq = q)) = false := by
      rw [Bool.eq_false_iff]
      intro hany
      obtain ⟨wk, hwk, e⟩ := List.any_eq_true.mp hany
      have e' : wk.scq = q := by simpa using e
      have h1 : (wfind ts1.s.workers wk.scq wk.id).isSome = true := by
        unfold wfind
        rw [List.find?_isSome]
        exact ⟨wk, hwk, by simp⟩
      rw [hwex] at h1
      cases hf : wfind ts.s.workers wk.scq wk.id with
      | none => rw [hf] at h1; cases h1
      | some wk0 => exact hnw wk0 (wfind_mem hf) ((wfind_key hf).1.trans e')
    rw [hg]
    rfl

theorem tRemoveStaleWorker_ng {h : Hints} {x : Extras} {ts : TState} {q : ScqId} {w : WId} {rt : Nat}
    (hnp : ∀ wk, ts.s.worker? q w = some wk → wk.parked = false) :
    tRemoveStaleWorker h x ts q w rt = tRemoveStaleWorkerNG h x ts q w rt := by
  unfold tRemoveStaleWorker tRemoveStaleWorkerNG
  cases hw : ts.s.worker? q w with
  | none => rfl
  | some wk =>
    simp only [bind, Except.bind, pure, Except.pure]
    rw [hnp wk hw]
    rfl

/-- what the cleanup loop relies on between callbacks -/
def CleanOK (s : State) : Prop := Inv s ∧ KWC noEx s

/-- the state after a callback satisfies the loop invariant again -/
theorem cleanOK_callback {h : Hints} {s s1 : State} {e : CleanupEntry} {rest : List CleanupEntry} (hc : CleanOK s)
    (hp : popDue s.now s.cleanup = some (e, rest)) (hcall : callback h (setCleanup s rest) e = .ok s1) : CleanOK s1 := by
  obtain ⟨hI, hK⟩ := hc
  obtain ⟨hmem, _, _, hrest⟩ := BbRe.Lemmas.SchedLive.popDue_some hp
  have hsub : ∀ y, y ∈ rest → y ∈ s.cleanup := by
    intro y hy; rw [hrest] at hy; exact (List.mem_filter.mp hy).1
  have hI0 : Inv (setCleanup s rest) := ⟨hI.core, hI.oinv, hI.sinv.cleanup_sub hsub, hI.linv⟩
  refine ⟨?_, callback_kwc hK hp hcall⟩
  unfold callback at hcall
  cases hk : e.kind with
  | worker q w => rw [hk] at hcall; exact (wp_of_ok (removeStaleWorker_spec hI0) hcall).1
  | op o =>
    rw [hk] at hcall
    exact (wp_of_ok (removeOp_spec hI0 (fun op hop => hI.sinv.s2 o op e hop hmem hk)) hcall).1
  | scq q => rw [hk] at hcall; exact (wp_of_ok (removeScq_spec hI0) hcall).1

theorem tRunCleanup_ng {h : Hints} {x : Extras} : ∀ (fuel : Nat) (ts : TState), CleanOK ts.s →
    tRunCleanup h x fuel ts = tRunCleanupNG h x fuel ts := by
  intro fuel
  induction fuel with
  | zero => intro ts _; rfl
  | succ n ih =>
    intro ts hc
    obtain ⟨hI, hK⟩ := hc
    unfold tRunCleanup tRunCleanupNG
    cases hp : popDue ts.s.now ts.s.cleanup with
    | none => rfl
    | some er =>
      obtain ⟨e, rest⟩ := er
      obtain ⟨hmem, _, _, hrest⟩ := BbRe.Lemmas.SchedLive.popDue_some hp
      have hsub : ∀ y, y ∈ rest → y ∈ ts.s.cleanup := by
        intro y hy; rw [hrest] at hy; exact (List.mem_filter.mp hy).1
      have hI0 : Inv { ts.s with cleanup := rest } :=
        ⟨hI.core, hI.oinv, hI.sinv.cleanup_sub hsub, hI.linv⟩
      have hcP := pop_cinv hK.2 hmem
      rw [← hrest] at hcP
      have hcall : ∀ ts1 : TState, callback h (setCleanup ts.s rest) e = .ok ts1.s → CleanOK ts1.s :=
        fun ts1 hc1 => cleanOK_callback ⟨hI, hK⟩ hp hc1
      simp only []
      cases hk : e.kind with
      | worker q w =>
        simp only [bind, Except.bind]
        have hng : tRemoveStaleWorker h x (ts.setS { ts.s with cleanup := rest }) q w e.deadline =
            tRemoveStaleWorkerNG h x (ts.setS { ts.s with cleanup := rest }) q w e.deadline := by
          apply tRemoveStaleWorker_ng
          intro wk hwk
          have hwk' : ts.s.worker? q w = some wk := hwk
          obtain ⟨hm, hq, hw⟩ := worker?_mem hwk'
          have hin : wk.inSync = false := by
            cases hin : wk.inSync with
            | false => rfl
            | true => exact absurd (by rw [hq, hw, ← hk]; exact ⟨e, hmem, rfl⟩) (hK.2.wIn wk hm hin)
          exact (flags_of_not_inSync (hK.1.2.ok wk hm) hin).1
        rw [← hng]
        cases hr : tRemoveStaleWorker h x (ts.setS { ts.s with cleanup := rest }) q w e.deadline with
        | error err => rfl
        | ok ts1 =>
          simp only []
          apply ih
          apply hcall
          unfold callback; rw [hk]
          exact tRemoveStaleWorker_ref h x _ q w _ ts1 hr
      | op o =>
        simp only [bind, Except.bind]
        cases hr : tRemoveOp h x (ts.setS { ts.s with cleanup := rest }) o with
        | error err => rfl
        | ok ts1 =>
          simp only []
          apply ih
          apply hcall
          unfold callback; rw [hk]
          exact tRemoveOp_ref h x _ o ts1 hr
      | scq q =>
        simp only [bind, Except.bind]
        have hng : tRemoveScq h x (ts.setS { ts.s with cleanup := rest }) q =
            tRemoveScqNG h x (ts.setS { ts.s with cleanup := rest }) q := by
          apply tRemoveScq_ng hI0
          rw [hk] at hcP
          exact (hcP.exScq q rfl).1
        rw [← hng]
        cases hr : tRemoveScq h x (ts.setS { ts.s with cleanup := rest }) q with
        | error err => rfl
        | ok ts1 =>
          simp only []
          apply ih
          apply hcall
          unfold callback; rw [hk]
          exact tRemoveScq_ref h x _ q ts1 hr

/-- **the cross-checks never fire**: on a state whose `Sched` component satisfies the invariant of
`Model/Sched.lean` and the cleanup accounting invariant of C06, `bq.enter` of the tree layer is `bq.enter`
without the cross-checks -/
theorem tEnter_ng {h : Hints} {x : Extras} {ts : TState} {now : Nat} (hI : Inv ts.s) (hK : KWC noEx ts.s) :
    tEnter h x ts now = tEnterNG h x ts now := by
  unfold tEnter tEnterNG
  split
  · apply tRunCleanup_ng
    refine ⟨hI.of_same rfl rfl rfl rfl rfl rfl rfl rfl rfl rfl, ?_⟩
    exact ⟨KWStep.of_same (s := ts.s) rfl rfl rfl rfl rfl rfl hK.1, hK.2.frame (CFrame.of_same rfl rfl rfl rfl rfl)⟩
  · rfl

end BbRe.Lemmas.SchedTree
