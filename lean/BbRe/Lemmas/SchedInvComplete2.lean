import BbRe.Lemmas.SchedInvComplete
/-! Specification of `task.complete` (assembly of the pieces of `SchedInvComplete`). -/
namespace BbRe.Lemmas.SchedInv
open BbRe.Sched

theorem finalize_setTask (s : State) (t0 t : Task) (r : Resp) (hid : t0.id = t.id) :
    complete.finalize (s.setTask t0) t r = complete.finalize s t r := by
  rw [finalize_eq, finalize_eq, finSt0_setTask _ _ _ _ hid]

theorem completeOk_setTask (h : Hints) (s : State) (t0 t : Task) (r : Resp) (l : Nat) (hid : t0.id = t.id) :
    completeOk h (s.setTask t0) t r l = completeOk h s t r l := by
  rw [completeOk_eq, completeOk_eq]
  have : ∀ e, emit (s.setTask t0) e = (emit s e).setTask t0 := fun _ => rfl
  rw [this, finalize_setTask _ _ { t with learner := none } _ hid]
  rfl

theorem retrySt_setTask (s : State) (t0 t : Task) (l : Nat) (r : Resp) (hid : t0.id = t.id) :
    retrySt (s.setTask t0) t l r = retrySt s t l r := by
  unfold retrySt
  simp only [State.setTask, emit, hid, aset_aset]
  rfl

theorem completeRetry_setTask (h : Hints) (s : State) (t0 t : Task) (r : Resp) (l : Nat) (hid : t0.id = t.id) :
    completeRetry h (s.setTask t0) t r l = completeRetry h s t r l := by
  rw [completeRetry_eq, completeRetry_eq, retrySt_setTask _ _ _ _ _ hid]


theorem wp_congr_ok {α} {x : M α} {a : α} {Q : α → Prop} (h : x = .ok a) (hq : Q a) : wp x Q := by
  subst h; exact hq

/-- frame of `complete h s tid r bw` -/
structure CompPost (s : State) (tid : Nat) (s' : State) : Prop where
  fr : Fr s s'
  rw : RW s s'
  wex : ∀ q w, (wfind s'.workers q w).isSome = (wfind s.workers q w).isSome
  tk : ∀ k, k ≠ tid → k < s.nextTask → alookup k s'.tasks = alookup k s.tasks
  tt : ∀ t, alookup tid s.tasks = some t → ∃ t', alookup tid s'.tasks = some t' ∧ t'.ops = t.ops ∧
        (t.response = none → ∀ q w, t'.worker = some (q, w) →
          ∃ wk, wfind s.workers q w = some wk ∧ wk.parked = true)
  sts : s'.streams = s.streams
  opk : ∀ k, k < s.nextOp → (alookup k s'.ops).isSome = (alookup k s.ops).isSome

theorem CompPost.refl (s : State) (tid : Nat) (hd : TDone s tid) : CompPost s tid s :=
  ⟨Fr.refl s, RW.refl s, fun _ _ => rfl, fun _ _ _ => rfl,
   fun t h => ⟨t, h, rfl, fun hr => by have := hd t h; simp [hr] at this⟩, rfl, fun _ _ => rfl⟩

theorem DetPost.fr {s s' : State} {tid : Nat} {t : Task} (h : DetPost s tid t s')
    (ht : alookup tid s.tasks = some t) (hr : t.response = none) : Fr s s' := by
  obtain ⟨ws, ts, he⟩ := h.same
  have htk := h.tk
  subst he
  refine Fr.of_fields rfl (Nat.le_refl _) (Nat.le_refl _) (Nat.le_refl _) rfl (Ext.refl _ _) ?_
  intro k hk t'
  by_cases hkt : k = tid
  · subst hkt; have := hk.2 t ht; simp [hr] at this
  · have := htk k hkt
    simp only at this ⊢
    rw [this]; exact hk.2 t'

theorem CompPost.of_det {s sD s' : State} {tid : Nat} {t : Task} (hd : DetPost s tid t sD)
    (ht : alookup tid s.tasks = some t) (hr : t.response = none)
    (hc : ContPost sD tid { preT t with worker := none } s') : CompPost s tid s' := by
  obtain ⟨ws, ts, he⟩ := hd.same
  have hnt : sD.nextTask = s.nextTask := by rw [he]
  have hst : sD.streams = s.streams := by rw [he]
  have hno : sD.nextOp = s.nextOp := by rw [he]
  have hops : sD.ops = s.ops := by rw [he]
  refine ⟨(hd.fr ht hr).trans hc.fr, hd.rw.trans hc.rw, fun q w => (hc.wex q w).trans (hd.wex q w), ?_, ?_,
    hc.sts.trans hst, fun k hk => by rw [hc.opk k (by omega), hops]⟩
  · intro k hk hlt; rw [hc.tk k hk (by omega), hd.tk k hk]
  · intro t1 ht1
    rw [ht] at ht1; cases ht1
    obtain ⟨t', a, b, c⟩ := hc.tt
    refine ⟨t', a, ?_, ?_⟩
    · rw [b]; unfold preT; split <;> rfl
    · intro _ q w hqw
      obtain ⟨wk', h1, h2⟩ := c q w hqw
      obtain ⟨wk, h3, h4⟩ := hd.par q w wk' h1
      exact ⟨wk, h3, by rw [h4]; exact h2⟩


set_option maxHeartbeats 800000 in
theorem complete_spec' {exo} {h : Hints} {s : State} {tid : Nat} {r : Resp} {bw : Bool}
    (hI : InvX (fun _ => False) exo s) (hex : (alookup tid s.tasks).isSome = true) :
    wp (complete h s tid r bw) (fun s' => InvX (fun _ => False) exo s' ∧ CompPost s tid s' ∧
      ((bw = false ∨ h.retry = false ∨ (r.code = cOK ∧ r.exit = 0)) → TDone s' tid) ∧
      (¬ (r.code = cOK ∧ r.exit = 0) → s'.nextTask = s.nextTask ∧ s'.nextOp = s.nextOp) ∧
      (bw = true → h.retry = true → ¬ (r.code = cOK ∧ r.exit = 0) →
        ∀ t, alookup tid s.tasks = some t → t.response = none →
          ∃ t', alookup tid s'.tasks = some t' ∧ t'.learner = some s.nextLearner ∧
            t'.scq = largestScq s t.scq ∧ t'.response = none)) := by
  rw [complete_eq]
  cases ht : alookup tid s.tasks with
  | none => rw [ht] at hex; cases hex
  | some t =>
    simp only [task?_def, ht]
    by_cases hr : t.response.isSome = true
    · simp only [hr, if_true, wp_pure]
      have hd : TDone s tid := by intro t' ht'; rw [ht] at ht'; cases ht'; exact hr
      refine ⟨hI, CompPost.refl s tid hd, fun _ => hd, by simp, ?_⟩
      intro _ _ _ t' ht' hr'
      cases ht'; rw [hr'] at hr; simp at hr
    · rw [if_neg hr]
      have hr' : t.response = none := by simpa using hr
      obtain ⟨l, hl⟩ : ∃ l, t.learner = some l := by
        have := (hI.core.l1 tid t ht).mpr hr'
        cases h : t.learner with
        | none => simp [h] at this
        | some l => exact ⟨l, rfl⟩
      have hlp : (preT t).learner = some l := by unfold preT; split <;> simpa [bumpGen] using hl
      have hrp : (preT t).response = none := by unfold preT; split <;> simpa [bumpGen] using hr'
      have hqp : (preT t).queued = false := by
        unfold preT; split
        · simp [bumpGen]
        · rename_i hw
          cases hq : t.queued with
          | false => rfl
          | true => have := (hI.core.q1 tid t ht hq).1; simp [this] at hw
      simp only [hlp]
      -- the detached state
      have hID := detSt_inv hI ht hr'
      have hDP := detSt_post hI ht
      have h0 := hDP.tt
      have hpid : ({ preT t with worker := none } : Task).id = ({ preT t with worker := none } : Task).id := rfl
      have hcomp := fun s' (hc : ContPost (detSt s t) tid { preT t with worker := none } s') =>
        CompPost.of_det hDP ht hr' hc
      have hntD : (detSt s t).nextTask = s.nextTask ∧ (detSt s t).nextOp = s.nextOp := by
        obtain ⟨ws, ts, he⟩ := hDP.same; rw [he]; exact ⟨rfl, rfl⟩
      by_cases h1 : r.code = cOK ∧ r.exit = 0
      · rw [if_pos h1]
        have := completeOk_spec (h := h) (r := r) hID h0 hrp rfl hqp hlp
        rw [show detSt s t = (detachW s (preT t)).setTask { preT t with worker := none } from rfl,
          completeOk_setTask _ _ _ _ _ _ rfl] at this
        refine wp_mono this ?_
        intro s' ⟨hI', hc, hd⟩
        exact ⟨hI', hcomp s' hc, fun _ => hd, fun hn => absurd h1 hn, fun _ _ hn => absurd h1 hn⟩
      · rw [if_neg h1]
        by_cases h2 : bw = true
        · rw [if_pos h2]
          by_cases h3 : h.retry = true
          · rw [if_pos h3]
            have := completeRetry_spec (h := h) (r := r) hID h0 hrp rfl hlp
            rw [show detSt s t = (detachW s (preT t)).setTask { preT t with worker := none } from rfl,
              completeRetry_setTask _ _ _ _ _ _ rfl] at this
            refine wp_mono this ?_
            intro s' ⟨hI', hc, hn1, hn2, t', a1, a2, a3, a4⟩
            refine ⟨hI', hcomp s' hc, ?_, fun _ => ⟨hn1.trans hntD.1, hn2.trans hntD.2⟩, ?_⟩
            · intro hh; rcases hh with hh | hh | hh
              · rw [h2] at hh; cases hh
              · rw [h3] at hh; cases hh
              · exact absurd hh h1
            · intro _ _ _ t1 ht1 _
              cases ht1
              have hnlD : (detSt s t).nextLearner = s.nextLearner := by
                obtain ⟨ws, ts, he⟩ := hDP.same; rw [he]
              have hls : largestScq (detSt s t) ({ preT t with worker := none } : Task).scq =
                  largestScq s t.scq := by
                have hscq : ({ preT t with worker := none } : Task).scq = t.scq := by
                  unfold preT; split <;> rfl
                rw [hscq]
                obtain ⟨ws, ts, he⟩ := hDP.same
                rw [he]; rfl
              exact ⟨t', a1, a2.trans (congrArg some hnlD), a3.trans hls, a4⟩
          · rw [if_neg h3]
            obtain ⟨s', he, hI', hc, hd, hn1, hn2⟩ := finBranch_spec (e := .learnerFailed l (r.code = cDeadlineExceeded) none)
              hID h0 hrp rfl hqp hlp (Or.inr ⟨_, rfl⟩) r
            have he' := (finalize_setTask (emit (detachW s (preT t)) (.learnerFailed l (r.code = cDeadlineExceeded) none))
              { preT t with worker := none } { ({ preT t with worker := none } : Task) with learner := none } r rfl).symm.trans he
            refine wp_congr_ok (a := s') ?_ ?_
            · exact he'
            · exact ⟨hI', hcomp s' hc, fun _ => hd, fun _ => ⟨hn1.trans hntD.1, hn2.trans hntD.2⟩,
                fun _ hh => absurd hh h3⟩
        · rw [if_neg h2]
          obtain ⟨s', he, hI', hc, hd, hn1, hn2⟩ := finBranch_spec (e := .learnerAbandoned l)
            hID h0 hrp rfl hqp hlp (Or.inl rfl) r
          have he' := (finalize_setTask (emit (detachW s (preT t)) (.learnerAbandoned l))
            { preT t with worker := none } { ({ preT t with worker := none } : Task) with learner := none } r rfl).symm.trans he
          refine wp_congr_ok (a := s') ?_ ?_
          · exact he'
          · exact ⟨hI', hcomp s' hc, fun _ => hd, fun _ => ⟨hn1.trans hntD.1, hn2.trans hntD.2⟩,
              fun hh => absurd hh h2⟩

theorem complete_spec {exo} {h : Hints} {s : State} {tid : Nat} {r : Resp} {bw : Bool}
    (hI : InvX (fun _ => False) exo s) (hex : (alookup tid s.tasks).isSome = true) :
    wp (complete h s tid r bw) (fun s' => InvX (fun _ => False) exo s' ∧ CompPost s tid s' ∧
      ((bw = false ∨ h.retry = false ∨ (r.code = cOK ∧ r.exit = 0)) → TDone s' tid) ∧
      (¬ (r.code = cOK ∧ r.exit = 0) → s'.nextTask = s.nextTask ∧ s'.nextOp = s.nextOp)) :=
  wp_mono (complete_spec' hI hex) (fun _ h => ⟨h.1, h.2.1, h.2.2.1, h.2.2.2.1⟩)

end BbRe.Lemmas.SchedInv
