import BbRe.Lemmas.BitmapArr
import BbRe.Lemmas.BitmapAlloc
/-! `FreeContiguous` / `FreeList`: on allocated sectors they do not panic and set exactly the
freed bits. -/
namespace BbRe.Lemmas.Bitmap
open BbRe.Bitmap

/-- `freeWithMask` succeeds when none of the mask's bits is free, and sets exactly these bits. -/
theorem freeWithMask_ok (bm : Array Word) (index : Nat) (mask : Word) (hlt : index < bm.size)
    (hfree : ∀ j, mask.getLsbD j = true → (getW bm index).getLsbD j = false) :
    ∃ bm', freeWithMask bm index mask = some bm' ∧ bm'.size = bm.size ∧
      (∀ k, getW bm' k = if index = k then getW bm index ||| mask else getW bm k) ∧
      (∀ i, bit bm' i = (bit bm i || (decide (i / 64 = index) && mask.getLsbD (i % 64)))) := by
  have hz : getW bm index &&& mask = 0 := (and_eq_zero_iff _ _).2 hfree
  refine ⟨setW bm index (getW bm index ||| mask), ?_, size_setW _ _ _, ?_, ?_⟩
  · simp [freeWithMask, hlt, hz]
  · intro k; rw [getW_setW]; simp [hlt]
  · intro i
    rw [bit_def, getW_setW]
    by_cases hi : index = i / 64
    · rw [if_pos ⟨hi, hlt⟩, BitVec.getLsbD_or, bit_def, ← hi]; simp
    · rw [if_neg (by omega), ← bit_def]
      have : decide (i / 64 = index) = false := by simp; omega
      simp [this]

/-- The `for count >= 64` loop of `FreeContiguous` on `count/64` completely allocated words. -/
theorem freeFull_ok (bm : Array Word) (index count : Nat)
    (h : ∀ j, index ≤ j → j < index + count / 64 → j < bm.size ∧ getW bm j = 0) :
    ∃ bm', freeFull bm index count = some (bm', index + count / 64, count % 64) ∧ bm'.size = bm.size ∧
      ∀ j, getW bm' j = if index ≤ j ∧ j < index + count / 64 then allBits else getW bm j := by
  fun_induction freeFull bm index count with
  | case1 bm index count hc hw ih =>
    have hk : count / 64 = (count - 64) / 64 + 1 := by omega
    obtain ⟨bm', e1, e2, e3⟩ := ih (by
      intro j j1 j2
      have := h j (by omega) (by omega)
      have hne : ¬ (index = j ∧ index < bm.size) := by omega
      rw [size_setW, getW_setW, if_neg hne]
      exact this)
    refine ⟨bm', ?_, by rw [e2, size_setW], ?_⟩
    · have hm : (count - 64) % 64 = count % 64 := by omega
      have hi : index + 1 + (count - 64) / 64 = index + count / 64 := by omega
      rw [e1, hm, hi]
    · intro j
      rw [e3, getW_setW]
      by_cases hj : index = j
      · subst hj
        have : ¬ (index + 1 ≤ index ∧ index < index + 1 + (count - 64) / 64) := by omega
        rw [if_neg this, if_pos ⟨rfl, hw.1⟩, if_pos (by omega)]
      · by_cases hj2 : index + 1 ≤ j ∧ j < index + 1 + (count - 64) / 64
        · rw [if_pos hj2, if_pos (by omega)]
        · rw [if_neg hj2, if_neg (by omega), if_neg (by omega)]
  | case2 bm index count hc hw =>
    exfalso
    have := h index (by omega) (by omega)
    exact hw this
  | case3 bm index count hc =>
    have h0 : count / 64 = 0 := by omega
    have h1 : count % 64 = count := by omega
    refine ⟨bm, by rw [h0, h1]; rfl, rfl, ?_⟩
    intro j; rw [if_neg (by omega)]


/-- `FreeContiguous(first, count)` on a run that is allocated: no panic, exactly the bits of
the run become free, cursor unchanged. -/
theorem freeContiguous_bits {n : Nat} {st : State} (hinv : Inv n st) (first count : Nat)
    (h1 : 1 ≤ first) (hc : 1 ≤ count) (hrange : first - 1 + count ≤ n)
    (halloc : ∀ i, first - 1 ≤ i → i < first - 1 + count → bit st.bm i = false) :
    ∃ st', freeContiguous st first count = some st' ∧ st'.next = st.next ∧ st'.bm.size = st.bm.size ∧
      ∀ i, bit st'.bm i = (bit st.bm i || (decide (first - 1 ≤ i) && decide (i < first - 1 + count))) := by
  have hsz := hinv.size
  unfold freeContiguous
  rw [if_neg (by omega)]
  simp only
  generalize hfs : first - 1 = fs at *
  have hidx : fs / 64 < st.bm.size := by omega
  -- first word
  obtain ⟨bm1, e1, s1, w1, b1⟩ := freeWithMask_ok st.bm (fs / 64)
    ((if count < 64 then ~~~(allBits <<< count) else allBits : Word) <<< (fs % 64)) hidx (by
      intro j hj
      rw [getLsbD_freeMask_shl] at hj
      simp at hj
      have := halloc (fs / 64 * 64 + j) (by omega) (by omega)
      rwa [bit_at _ _ _ hj.2] at this)
  rw [e1]
  simp only
  by_cases hcross : count > 64 - fs % 64
  · rw [if_pos hcross]
    generalize hc' : count - (64 - fs % 64) = c' at *
    have hw1 : ∀ j, j ≠ fs / 64 → getW bm1 j = getW st.bm j := by
      intro j hj; rw [w1, if_neg (by omega)]
    -- whole words
    obtain ⟨bm2, e2, s2, w2⟩ := freeFull_ok bm1 (fs / 64 + 1) c' (by
      intro j j1 j2
      refine ⟨by omega, ?_⟩
      rw [hw1 j (by omega)]
      apply getW_eq_zero_of_bits
      intro i hi
      exact halloc i (by omega) (by omega))
    rw [e2]
    simp only
    -- last word
    have hw2 : getW bm2 (fs / 64 + 1 + c' / 64) = getW st.bm (fs / 64 + 1 + c' / 64) := by
      rw [w2, if_neg (by omega), hw1 _ (by omega)]
    obtain ⟨bm3, e3, s3, w3, b3⟩ := freeWithMask_ok bm2 (fs / 64 + 1 + c' / 64) (~~~(allBits <<< (c' % 64)))
      (by omega) (by
        intro j hj
        rw [getLsbD_low] at hj
        simp at hj
        have := halloc ((fs / 64 + 1 + c' / 64) * 64 + j) (by omega) (by omega)
        rw [bit_at _ _ _ hj.2] at this
        rwa [hw2])
    rw [e3]
    refine ⟨_, rfl, rfl, by simp only; omega, ?_⟩
    intro i
    simp only
    rw [b3, getLsbD_low]
    have hb2 : bit bm2 i = (bit bm1 i || (decide ((fs / 64 + 1) * 64 ≤ i) && decide (i < (fs / 64 + 1 + c' / 64) * 64))) := by
      rw [bit_def, w2]
      by_cases hi : fs / 64 + 1 ≤ i / 64 ∧ i / 64 < fs / 64 + 1 + c' / 64
      · rw [if_pos hi, getLsbD_allBits]
        have : (decide ((fs / 64 + 1) * 64 ≤ i) && decide (i < (fs / 64 + 1 + c' / 64) * 64)) = true := by
          simp; omega
        rw [this]; simp; omega
      · rw [if_neg hi, ← bit_def]
        have : (decide ((fs / 64 + 1) * 64 ≤ i) && decide (i < (fs / 64 + 1 + c' / 64) * 64)) = false := by
          simp; omega
        rw [this]; simp
    rw [hb2, b1, getLsbD_freeMask_shl]
    cases bit st.bm i
    · simp only [Bool.false_or]
      rw [Bool.eq_iff_iff]; simp; omega
    · simp
  · rw [if_neg hcross]
    refine ⟨_, rfl, rfl, s1, ?_⟩
    intro i
    simp only
    rw [b1, getLsbD_freeMask_shl]
    congr 1
    rw [Bool.eq_iff_iff]; simp; omega


theorem freeOne_zero (bm : Array Word) : freeOne bm 0 = some bm := by simp [freeOne]

/-- One iteration of `FreeList` on an allocated sector. -/
theorem freeOne_ok (bm : Array Word) (n sector : Nat) (hsz : bm.size = n / 64 + 1)
    (h0 : sector ≠ 0) (hle : sector ≤ n) (hb : bit bm (sector - 1) = false) :
    ∃ bm', freeOne bm sector = some bm' ∧ bm'.size = bm.size ∧
      ∀ i, bit bm' i = (bit bm i || decide (i = sector - 1)) := by
  have he : freeOne bm sector = freeWithMask bm ((sector - 1) / 64) ((1 : Word) <<< ((sector - 1) % 64)) := by
    simp [freeOne, freeWithMask, h0]
  obtain ⟨bm', e1, s1, _, b1⟩ := freeWithMask_ok bm ((sector - 1) / 64) ((1 : Word) <<< ((sector - 1) % 64))
    (by omega) (by
      intro j hj
      rw [getLsbD_one_shl] at hj
      simp at hj
      rw [bit_def] at hb
      rw [hj.1]; exact hb)
  refine ⟨bm', by rw [he, e1], s1, ?_⟩
  intro i
  rw [b1, getLsbD_one_shl]
  congr 1
  rw [Bool.eq_iff_iff]; simp; omega

/-- `FreeList` on a list whose non-zero entries are allocated and pairwise distinct. -/
theorem freeListBm_ok (n : Nat) (sectors : List Nat) : ∀ bm : Array Word, bm.size = n / 64 + 1 →
    (∀ s ∈ sectors, s ≠ 0 → s ≤ n ∧ bit bm (s - 1) = false) → (sectors.filter (· ≠ 0)).Nodup →
    ∃ bm', freeListBm bm sectors = some bm' ∧ bm'.size = bm.size ∧
      ∀ i, bit bm' i = (bit bm i || sectors.contains (i + 1)) := by
  induction sectors with
  | nil => intro bm _ _ _; exact ⟨bm, rfl, rfl, by intro i; simp⟩
  | cons s rest ih =>
    intro bm hsz hall hnd
    by_cases h0 : s = 0
    · subst h0
      obtain ⟨bm', e1, s1, b1⟩ := ih bm hsz (fun s hs => hall s (List.mem_cons_of_mem _ hs)) (by simpa using hnd)
      refine ⟨bm', by simp [freeListBm, freeOne_zero, e1], s1, ?_⟩
      intro i; rw [b1]; simp
    · obtain ⟨hle, hb⟩ := hall s (List.mem_cons_self) h0
      obtain ⟨bm1, e1, s1, b1⟩ := freeOne_ok bm n s hsz h0 hle hb
      have hnd' : s ∉ rest.filter (· ≠ 0) ∧ (rest.filter (· ≠ 0)).Nodup := by
        simpa [List.filter_cons, h0] using hnd
      obtain ⟨bm', e2, s2, b2⟩ := ih bm1 (by rw [s1, hsz]) (by
        intro s' hs' h0'
        obtain ⟨hle', hb'⟩ := hall s' (List.mem_cons_of_mem _ hs') h0'
        refine ⟨hle', ?_⟩
        rw [b1, hb']
        have : s' ≠ s := by
          intro heq; subst heq
          exact hnd'.1 (by simp [List.mem_filter, hs', h0'])
        simp; omega) hnd'.2
      refine ⟨bm', by simp [freeListBm, e1, e2], by rw [s2, s1], ?_⟩
      intro i
      rw [b2, b1, List.contains_cons, Bool.or_assoc]
      congr 2
      rw [Bool.eq_iff_iff]; simp; omega

end BbRe.Lemmas.Bitmap
