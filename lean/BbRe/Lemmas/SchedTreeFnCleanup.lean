import BbRe.Lemmas.SchedTreeFnComplete
import BbRe.Lemmas.SchedTreeFnExec
/-!
The cleanup queue at the level of the tree layer's functions: `operation.remove`,
`cancelAllQueuedOperations`, `sizeClassQueue.remove`, `removeStaleWorker`, `cleanupQueue.run`, `bq.enter`.
-/
namespace BbRe.Lemmas.SchedTree
open BbRe.Sched BbRe.SchedTree BbRe.Lemmas.SchedInv

/-- an operation is queued at most once -/
theorem bagQ_nodup {ex} {ts : TState} (h : MInv ex ts.s) : (bagQ ts).Nodup := by
  rw [bagQ_def]
  unfold List.Nodup
  rw [List.pairwise_flatMap]
  constructor
  · intro kt hkt
    unfold conQ
    split
    · have hnd := (h.oinv.o3 kt.1 kt.2 (alookup_of_mem h.core.tnd hkt)).1
      rw [List.pairwise_map]
      exact List.Pairwise.imp (fun hab e => hab (Prod.mk.inj (Prod.mk.inj e).2).2) hnd
    · exact List.Pairwise.nil
  · have hp : ts.s.tasks.Pairwise (fun a b => a.1 ≠ b.1) := List.pairwise_map.mp h.core.tnd
    refine hp.imp_of_mem ?_
    intro a b ha hb hne c hca d hdb e
    subst e
    unfold conQ at hca hdb
    split at hca <;> split at hdb
    · obtain ⟨o1, ho1, e1⟩ := List.mem_map.mp hca
      obtain ⟨o2, ho2, e2⟩ := List.mem_map.mp hdb
      have : o1 = o2 := by rw [← e2] at e1; exact (Prod.mk.inj (Prod.mk.inj e1).2).2
      subst this
      exact hne (h.oinv.own a.1 a.2 b.1 b.2 o1 (alookup_of_mem h.core.tnd ha) (alookup_of_mem h.core.tnd hb) ho1 ho2)
    all_goals simp_all

/-! ### `cancelAllQueuedOperations` -/

theorem foldl_complete_tinv {exo} {h : Hints} {x : Extras} {r : Resp} (ids : List Nat) :
    ∀ {ts ts' : TState}, TInvX (fun _ => False) exo [] ts → OID ts.s →
      ids.foldlM (fun ts t => tComplete h x ts t r false) ts = .ok ts' →
      TInvX (fun _ => False) exo [] ts' ∧ OID ts'.s ∧ (¬ (r.code = cOK ∧ r.exit = 0) →
        (∀ k ∈ ids, ∀ t, alookup k ts.s.tasks = some t → ∃ t', alookup k ts'.s.tasks = some t' ∧ t'.response.isSome = true) ∧
        (∀ k, k ∉ ids → alookup k ts'.s.tasks = alookup k ts.s.tasks)) := by
  induction ids with
  | nil =>
    intro ts ts' hT ho hh
    cases hh
    exact ⟨hT, ho, fun _ => ⟨fun k hk => (nomatch hk), fun _ _ => rfl⟩⟩
  | cons a rest ih =>
    intro ts ts' hT ho hh
    rw [List.foldlM_cons] at hh
    simp only [bind, Except.bind] at hh
    split at hh
    · cases hh
    rename_i ts1 h1
    obtain ⟨hT1, ho1, hp1⟩ := tComplete_tinv hT ho h1
    obtain ⟨hT', ho', hp'⟩ := ih hT1 ho1 hh
    refine ⟨hT', ho', fun hr => ?_⟩
    obtain ⟨d1, d2, _⟩ := hp1 hr (Or.inl rfl)
    obtain ⟨e1, e2⟩ := hp' hr
    constructor
    · intro k hk t hkt
      by_cases hkr : k ∈ rest
      · by_cases hka : k = a
        · subst hka
          obtain ⟨t', h', _⟩ := d1
          exact e1 k hkr t' h'
        · exact e1 k hkr t (by rw [d2 k hka]; exact hkt)
      · have hka : k = a := by
          rcases List.mem_cons.mp hk with e | e
          · exact e
          · exact absurd e hkr
        subst hka
        obtain ⟨t', h', hr', _⟩ := d1
        exact ⟨t', by rw [e2 k hkr]; exact h', hr'⟩
    · intro k hk
      have hka : k ≠ a := fun e => hk (by rw [e]; exact List.mem_cons_self)
      have hkr : k ∉ rest := fun e => hk (List.mem_cons_of_mem _ e)
      rw [e2 k hkr, d2 k hka]

theorem cancelOK : CancelOK := by
  intro h x ts ts' q r hI hh
  unfold tCancelAllQueued at hh
  exact (foldl_complete_tinv _ hI.x (OID.of_inv hI.inv) hh).1.ts

/-! ### `sizeClassQueue.remove` -/

theorem tRemoveScq_ts {h : Hints} {x : Extras} {ts ts' : TState} {q : ScqId} (hI : TInv ts)
    (hh : tRemoveScq h x ts q = .ok ts') : TS [] ts' := by
  unfold tRemoveScq at hh
  simp only [bind, Except.bind, pure, Except.pure] at hh
  split at hh
  · cases hh
  rename_i ts1 hc
  split at hh
  · cases hh
  rename_i hguard
  unfold tCancelAllQueued at hc
  obtain ⟨hT1, _, hp⟩ := foldl_complete_tinv _ hI.x (OID.of_inv hI.inv) hc
  obtain ⟨p1, p2⟩ := hp (by simp [cOK, cUnavailable])
  have hnw : ∀ wk ∈ ts1.s.workers, wk.scq ≠ q := by
    intro wk hwk e
    apply hguard
    exact List.any_eq_true.mpr ⟨wk, hwk, by simpa using e⟩
  have hnt : ∀ k t, alookup k ts1.s.tasks = some t → t.scq = q → t.worker = none ∧ t.queued = false := by
    intro k t hk hq
    have hwn : t.worker = none := by
      cases hw : t.worker with
      | none => rfl
      | some qw =>
        exfalso
        obtain ⟨q', w⟩ := qw
        have e := hT1.side.wq k t q' w hk hw
        obtain ⟨wk, hwk, _⟩ := hT1.inv.core.p2 k t q' w hk hw
        exact hnw wk (wfind_mem hwk) ((wfind_key hwk).1.trans (e.trans hq))
    refine ⟨hwn, ?_⟩
    cases hqd : t.queued with
    | false => rfl
    | true =>
      exfalso
      have hrn := (hT1.inv.core.q1 k t hk hqd).2
      by_cases hkm : k ∈ (ts.s.tasks.filter (fun p => p.2.scq = q ∧ p.2.queued ∧ p.2.response.isNone ∧ p.2.worker.isNone)).map (·.1)
      · obtain ⟨kt, hkt, e⟩ := List.mem_map.mp hkm
        have hkt' := (List.mem_filter.mp hkt).1
        have hl : alookup k ts.s.tasks = some kt.2 := by rw [← e]; exact alookup_of_mem hI.inv.core.tnd hkt'
        obtain ⟨t', h', hr'⟩ := p1 k hkm kt.2 hl
        rw [hk] at h'; cases h'
        rw [hrn] at hr'; cases hr'
      · have hl : alookup k ts.s.tasks = some t := by rw [← p2 k hkm]; exact hk
        apply hkm
        refine List.mem_map.mpr ⟨(k, t), List.mem_filter.mpr ⟨mem_of_alookup hl, ?_⟩, rfl⟩
        simp [hq, hqd, hrn, hwn]
  split at hh
  · cases hh
    exact (dropScq_ts (s' := { ts1.s with scqs := ts1.s.scqs.filter (fun y => y.id ≠ q) }) hT1 hnw hnt rfl rfl rfl rfl).1
  · cases hh
    exact (dropScq_ts (s' := { ts1.s with scqs := (ts1.s.scqs.filter (fun y => y.id ≠ q)), pqs := (ts1.s.pqs.filter (fun p => p.id ≠ q.pq)) }) hT1 hnw hnt rfl rfl rfl rfl).2

/-! ### `removeStaleWorker` -/

/-- the part of `removeStaleWorker` after the worker's task was completed -/
def tStaleTail (ts : TState) (q : ScqId) (w : WId) (removalTime : Nat) : M TState :=
  let s := { ts.s with workers := ts.s.workers.filter (fun y => ¬ (y.scq = q ∧ y.id = w)) }
  let ts := (ts.dropWorkerTree q w).setS s
  match s.scq? q with
  | some sq =>
    if !s.workers.any (fun y => y.scq = q) ∧ sq.mayBeRemoved
    then return ts.setS (s.addCleanup (removalTime + s.cfg.pqTimeout) (.scq q)) else return ts
  | none => return ts

theorem tStaleTail_ts {ts ts' : TState} {q : ScqId} {w : WId} {rt : Nat} {wk : Worker} (hI : TInv ts)
    (hw : wfind ts.s.workers q w = some wk) (hwt : wk.task = none) (hwp : wk.parked = false)
    (hh : tStaleTail ts q w rt = .ok ts') : TS [] ts' := by
  have hd := dropWorker_ts (s' := { ts.s with workers := ts.s.workers.filter (fun y => ¬ (y.scq = q ∧ y.id = w)) })
    hI.x hw hwt hwp rfl rfl rfl (op?_of_ops rfl)
  unfold tStaleTail at hh
  simp only [pure, Except.pure] at hh
  split at hh
  · split at hh
    · cases hh; exact hd.sframe (addCleanup_sframe _ _ _)
    · cases hh; exact hd
  · cases hh; exact hd

theorem tRemoveStaleWorker_ts {h : Hints} {x : Extras} {ts ts' : TState} {q : ScqId} {w : WId} {rt : Nat}
    (hI : TInv ts) (hh : tRemoveStaleWorker h x ts q w rt = .ok ts') : TS [] ts' := by
  unfold tRemoveStaleWorker at hh
  simp only [bind, Except.bind, pure, Except.pure, worker?_def] at hh
  split at hh
  · rename_i wk hw
    split at hh
    · cases hh
    rename_i hnp
    have hnp' : wk.parked = false := by simpa using hnp
    split at hh
    · rename_i tid hwt
      split at hh
      · cases hh
      rename_i ts1 hc
      obtain ⟨t, htk, _⟩ := hI.inv.core.p1 q w wk tid hw hwt
      have hex : (alookup tid ts.s.tasks).isSome = true := by rw [htk]; rfl
      obtain ⟨hI1, hcp, _⟩ := inv_of_ref (tComplete_ref h x ts tid _ false) (complete_spec hI.inv hex) hc
      have hw1 := complete_clears hI.inv hI1 hcp hw hwt hnp'
      exact tStaleTail_ts (TInv.mk' hI1 (completeOK h x ts ts1 tid _ false hI hex hc)) hw1 rfl hnp' hh
    · rename_i hwt
      exact tStaleTail_ts hI hw hwt hnp' hh
  · cases hh; exact hI.ts

/-! ### `operation.remove` -/

/-- `operation.remove` after the operation has left `operationsNameMap` -/
def tRemoveOpRest (h : Hints) (x : Extras) (ts : TState) (op : Op) (o : Nat) : M TState := do
  let some t := ts.s.task? op.task | throw "removeOp: no task"
  let ts ← if t.ops.length = 1 then
      tComplete h x ts t.id ⟨cCanceled, 0, 0, .noWaiters⟩ false
    else pure (ts.removeOpTree t o)
  let some t := ts.s.task? op.task | throw "removeOp: no task"
  let t := { t with ops := t.ops.filter (· ≠ o) }
  if t.ops.isEmpty then return ((ts.dropOX o).dropTX t.id).setS { ts.s with tasks := aerase t.id ts.s.tasks }
  return (ts.dropOX o).setS (ts.s.setTask t)

theorem tRemoveOp_eq (h : Hints) (x : Extras) (ts : TState) (o : Nat) :
    tRemoveOp h x ts o = match ts.s.op? o with
      | some op => tRemoveOpRest h x (ts.setS { ts.s with ops := aerase o ts.s.ops }) op o
      | none => pure ts := by
  unfold tRemoveOp tRemoveOpRest
  cases ts.s.op? o <;> rfl

theorem filter_ne_nil_of {l : List Nat} {o : Nat} (hnd : l.Nodup) (hm : o ∈ l) (hl : l.length ≠ 1) :
    (l.filter (· ≠ o)).isEmpty = false := by
  cases hf : (l.filter (· ≠ o)).isEmpty with
  | false => rfl
  | true =>
    exfalso
    have hall : ∀ a ∈ l, a = o := by
      intro a ha
      by_cases e : a = o
      · exact e
      · have : a ∈ l.filter (· ≠ o) := List.mem_filter.mpr ⟨ha, by simpa using e⟩
        rw [List.isEmpty_iff.mp hf] at this; cases this
    match l, hnd, hm, hl, hall with
    | [], _, hm, _, _ => cases hm
    | [a], _, _, hl, _ => exact hl rfl
    | a :: b :: r, hnd, _, _, hall =>
      have h1 := hall a (by simp)
      have h2 := hall b (by simp)
      rw [List.nodup_cons] at hnd
      exact hnd.1 (by rw [h1, ← h2]; simp)

theorem tRemoveOpRest_ts {exo} {h : Hints} {x : Extras} {ts0 ts' : TState} {op : Op} {o : Nat} {t : Task}
    (hT0 : TInvX (fun _ => False) exo [] ts0) (hoid : OID ts0.s) (hno : ts0.s.op? o = none)
    (ht0 : alookup op.task ts0.s.tasks = some t) (hmem : o ∈ t.ops)
    (hh : tRemoveOpRest h x ts0 op o = .ok ts') : TS [] ts' := by
  have hid : t.id = op.task := (hT0.inv.core.tid _ _ ht0).1
  have ht : alookup t.id ts0.s.tasks = some t := by rw [hid]; exact ht0
  have hnd := (hT0.inv.oinv.o3 _ _ ht).1
  unfold tRemoveOpRest at hh
  simp only [bind, Except.bind, pure, Except.pure, task?_def, ht0] at hh
  split at hh
  · -- the last operation: the task is completed first
    rename_i hlen
    split at hh
    · cases hh
    rename_i v hc
    obtain ⟨hT1, hoid1, hp⟩ := tComplete_tinv hT0 hoid hc
    obtain ⟨⟨t1, h1, hr1, hops1⟩, _, hopn⟩ := hp (by simp [cCanceled, cOK]) (Or.inl rfl)
    rw [hid] at h1
    simp only [h1] at hh
    have hops : t1.ops = [o] := by
      rw [hops1 t ht]
      obtain ⟨a, ha⟩ := List.length_eq_one_iff.mp hlen
      rw [ha] at hmem ⊢
      simp only [List.mem_singleton] at hmem
      rw [hmem]
    have hid1 : t1.id = op.task := (hT1.inv.core.tid _ _ h1).1
    have h1' : alookup t1.id v.s.tasks = some t1 := by rw [hid1]; exact h1
    have hemp : (List.filter (fun x => decide (x ≠ o)) t1.ops).isEmpty = true := by rw [hops]; simp
    simp only [hemp, if_true] at hh
    cases hh
    have htw : t1.worker = none := by
      cases hw : t1.worker with
      | none => rfl
      | some _ =>
        have := hT1.inv.core.p3 _ _ h1' (by rw [hw]; rfl)
        rw [this] at hr1; cases hr1
    have hq : t1.queued = false := by
      cases hq : t1.queued with
      | false => rfl
      | true =>
        have := (hT1.inv.core.q1 _ _ h1' hq).2
        rw [this] at hr1; cases hr1
    refine dropTask_ts hT1 h1' htw hq ?_ rfl rfl rfl ?_
    · intro k t' hk ho
      exact hT1.inv.oinv.own k t' t1.id t1 o hk h1' ho (by rw [hops]; simp)
    · intro o' op' ho'
      have ho'' : v.s.op? o' = some op' := ho'
      refine ⟨?_, op', ho'', rfl, rfl⟩
      intro e; subst e
      rw [hopn _ hno] at ho''; cases ho''
  · rename_i hlen
    simp only [removeOpTree_s, ht0] at hh
    have hne := filter_ne_nil_of hnd hmem hlen
    simp only [hne, Bool.false_eq_true, if_false] at hh
    cases hh
    refine removeOp_ts hT0 ht hmem hnd ?_ (bagQ_nodup hT0.inv) ?_ rfl rfl rfl rfl ?_
    · intro k t' hk ho
      exact hT0.inv.oinv.own k t' t.id t o hk ht ho hmem
    · intro hr hw
      rcases hT0.inv.core.q2 _ _ ht hr with a | a | a
      · exact a
      · rw [hw] at a; cases a
      · exact absurd a id
    · intro o' op' ho'
      have ho'' : ts0.s.op? o' = some op' := ho'
      refine ⟨?_, op', ho'', rfl, rfl⟩
      intro e; subst e
      rw [hno] at ho''; cases ho''

theorem tRemoveOp_ts {h : Hints} {x : Extras} {ts ts' : TState} {o : Nat} (hI : TInv ts)
    (hh : tRemoveOp h x ts o = .ok ts') : TS [] ts' := by
  rw [tRemoveOp_eq] at hh
  split at hh
  · rename_i op hop
    rw [op?_def] at hop
    obtain ⟨t, ht, hmem⟩ := hI.inv.oinv.o1 o op hop
    have hnd := hI.inv.oinv.ond
    refine tRemoveOpRest_ts (exo := fun _ => False) (t := t)
      (hI.x.frame (eraseOp_sframe ts.s o hnd) rfl rfl) ?_ ?_ ht hmem hh
    · intro k op' hk
      have hk' : alookup k (aerase o ts.s.ops) = some op' := hk
      rw [alookup_aerase _ _ _ hnd] at hk'
      split at hk'
      · cases hk'
      · exact (hI.inv.oinv.oid k op' hk').1
    · show alookup o (aerase o ts.s.ops) = none
      exact alookup_aerase_self o ts.s.ops hnd
  · cases hh; exact hI.ts

/-! ### `cleanupQueue.run`, `bq.enter` -/

theorem tRunCleanup_tinv {h : Hints} {x : Extras} : ∀ (fuel : Nat) {ts ts' : TState}, TInv ts →
    tRunCleanup h x fuel ts = .ok ts' → TInv ts' := by
  intro fuel
  induction fuel with
  | zero => intro ts ts' hI hh; cases hh; exact hI
  | succ n ih =>
    intro ts ts' hI hh
    unfold tRunCleanup at hh
    split at hh
    · cases hh; exact hI
    rename_i e rest hp
    obtain ⟨hmem, hsub⟩ := popDue_some hp
    have hI0 : Inv { ts.s with cleanup := rest } :=
      ⟨hI.inv.core, hI.inv.oinv, hI.inv.sinv.cleanup_sub hsub, hI.inv.linv⟩
    have hT0 : TInv (ts.setS { ts.s with cleanup := rest }) :=
      TInv.mk' hI0 (hI.ts.sframe (setCleanup_sframe _ _))
    simp only [bind, Except.bind] at hh
    split at hh
    · rename_i q w hk
      split at hh
      · cases hh
      rename_i ts1 hcb
      exact ih (TInv.mk' (inv_of_ref (tRemoveStaleWorker_ref h x _ q w _) (removeStaleWorker_spec hI0) hcb).1
        (tRemoveStaleWorker_ts hT0 hcb)) hh
    · rename_i o hk
      split at hh
      · cases hh
      rename_i ts1 hcb
      refine ih (TInv.mk' (inv_of_ref (tRemoveOp_ref h x _ o) (removeOp_spec hI0 ?_) hcb).1 (tRemoveOp_ts hT0 hcb)) hh
      intro op hop; exact hI.inv.sinv.s2 o op e hop hmem hk
    · rename_i q hk
      split at hh
      · cases hh
      rename_i ts1 hcb
      exact ih (TInv.mk' (inv_of_ref (tRemoveScq_ref h x _ q) (removeScq_spec hI0) hcb).1 (tRemoveScq_ts hT0 hcb)) hh

theorem tEnter_tinv {h : Hints} {x : Extras} {ts ts' : TState} {now : Nat} (hI : TInv ts)
    (hh : tEnter h x ts now = .ok ts') : TInv ts' := by
  unfold tEnter at hh
  split at hh
  · refine tRunCleanup_tinv _ (TInv.mk' ?_ ?_) hh
    · exact hI.inv.of_same rfl rfl rfl rfl rfl rfl rfl rfl rfl rfl
    · exact TS.of_scqids hI.ts rfl rfl rfl rfl
  · cases hh; exact hI

theorem enterOK : EnterOK := fun _ _ _ _ _ hI hh => (tEnter_tinv hI hh).ts

end BbRe.Lemmas.SchedTree
