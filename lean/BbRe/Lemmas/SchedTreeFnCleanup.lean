import BbRe.Lemmas.SchedTreeFnComplete
import BbRe.Lemmas.SchedTreeFnExec
/-!
The cleanup queue at the level of the tree layer's functions: `operation.remove`,
`cancelAllQueuedOperations`, `sizeClassQueue.remove`, `removeStaleWorker`, `cleanupQueue.run`, `bq.enter`.
-/
namespace BbRe.Lemmas.SchedTree
open BbRe.Sched BbRe.SchedTree BbRe.Lemmas.SchedInv

/-- an operation is queued at most once -/
theorem bagQ_nodup {ex} {ts : TState} (h : MInv ex ts.s) : (bagQ ts).Nodup := by
  rw [bagQ_def]
  unfold List.Nodup
  rw [List.pairwise_flatMap]
  constructor
  · intro kt hkt
    unfold conQ
    split
    · have hnd := (h.oinv.o3 kt.1 kt.2 (alookup_of_mem h.core.tnd hkt)).1
      rw [List.pairwise_map]
      exact List.Pairwise.imp (fun hab e => hab (Prod.mk.inj (Prod.mk.inj e).2).2) hnd
    · exact List.Pairwise.nil
  · have hp : ts.s.tasks.Pairwise (fun a b => a.1 ≠ b.1) := List.pairwise_map.mp h.core.tnd
    refine hp.imp_of_mem ?_
    intro a b ha hb hne c hca d hdb e
    subst e
    unfold conQ at hca hdb
    split at hca <;> split at hdb
    · obtain ⟨o1, ho1, e1⟩ := List.mem_map.mp hca
      obtain ⟨o2, ho2, e2⟩ := List.mem_map.mp hdb
      have : o1 = o2 := by rw [← e2] at e1; exact (Prod.mk.inj (Prod.mk.inj e1).2).2
      subst this
      exact hne (h.oinv.own a.1 a.2 b.1 b.2 o1 (alookup_of_mem h.core.tnd ha) (alookup_of_mem h.core.tnd hb) ho1 ho2)
    all_goals simp_all
