import BbRe.Model.Replay40
/-! Arm-by-arm characterisation of `arrive` and the invariant of the NFSv4.0
replay model (`Model/Replay40.lean`). -/
namespace BbRe.Lemmas.Replay40
open BbRe.Replay40

/-! ### `arrive`, arm by arm -/

theorem arrive_eq_unresolved (s : State) (c : Nat) (r : Req) (h : resolve s r = none) :
    arrive s c r = (s, .reply (.err errBadStateid)) := by
  unfold arrive; rw [h]

theorem arrive_eq_wait (s : State) (c : Nat) (r : Req) (o : Nat) (h : resolve s r = some o)
    (hb : (s.oo o).busy.isSome = true) :
    arrive s c r = ({ s with waiting := s.waiting ++ [(c, o)] }, .waiting) := by
  unfold arrive; rw [h]; simp [hb]

theorem arrive_eq_replay (s : State) (c : Nat) (r : Req) (o : Nat) (resp : Resp) (h : resolve s r = some o)
    (hb : (s.oo o).busy = none) (hr : (s.oo o).lastResp = some resp) (hq : r.seq = (s.oo o).lastSeq) :
    arrive s c r = (s, .reply (replayReply r resp)) := by
  unfold arrive; rw [h]; simp [hb, hr, hq]

/-- No replay: either nothing is cached or the seqid is not the last one. -/
def NoReplay (ow : OpenOwner) (seq : Nat) : Prop := ow.lastResp = none ∨ seq ≠ ow.lastSeq

theorem noReplay_cond (ow : OpenOwner) (seq : Nat) (h : NoReplay ow seq) :
    (ow.lastResp.isSome && seq == ow.lastSeq) = false := by
  rcases h with h | h
  · simp [h]
  · simp [h]

theorem arrive_eq_badseq_confirmed (s : State) (c : Nat) (r : Req) (o : Nat) (h : resolve s r = some o)
    (hb : (s.oo o).busy = none) (hn : NoReplay (s.oo o) r.seq) (hc : (s.oo o).confirmed = true)
    (hq : r.seq ≠ nextSeq (s.oo o).lastSeq) :
    arrive s c r = (s, .reply (.err errBadSeqid)) := by
  unfold arrive; rw [h]
  simp only [hb, Option.isSome_none, Bool.false_eq_true, if_false, noReplay_cond _ _ hn, hc, if_true]
  simp [hq]

theorem arrive_eq_start_confirmed (s : State) (c : Nat) (r : Req) (o : Nat) (h : resolve s r = some o)
    (hb : (s.oo o).busy = none) (hn : NoReplay (s.oo o) r.seq) (hc : (s.oo o).confirmed = true)
    (hq : r.seq = nextSeq (s.oo o).lastSeq) :
    arrive s c r = (begin s o c r, .started) := by
  unfold arrive; rw [h]
  simp only [hb, Option.isSome_none, Bool.false_eq_true, if_false, noReplay_cond _ _ hn, hc, if_true]
  simp [hq]

theorem arrive_eq_unconfirmed_deny (s : State) (c : Nat) (r : Req) (o : Nat) (h : resolve s r = some o)
    (hb : (s.oo o).busy = none) (hn : NoReplay (s.oo o) r.seq) (hc : (s.oo o).confirmed = false)
    (hk : r.kind ≠ .openConfirm) (hk' : r.kind ≠ .open_) :
    arrive s c r = (s, .reply (.err errBadSeqid)) := by
  unfold arrive; rw [h]; simp only [hb, Option.isSome_none, Bool.false_eq_true, if_false, noReplay_cond _ _ hn, hc]
  all_goals (split <;> first | rfl | (rename_i hk1; first | exact absurd hk1 hk | exact absurd hk1 hk'))

theorem arrive_eq_unconfirmed_open (s : State) (c : Nat) (r : Req) (o : Nat) (h : resolve s r = some o)
    (hb : (s.oo o).busy = none) (hn : NoReplay (s.oo o) r.seq) (hc : (s.oo o).confirmed = false)
    (hk : r.kind = .open_) :
    arrive s c r = (begin (reinit s o) o c r, .started) := by
  unfold arrive; rw [h]; simp only [hb, Option.isSome_none, Bool.false_eq_true, if_false, noReplay_cond _ _ hn, hc, hk]

theorem arrive_eq_unconfirmed_confirm (s : State) (c : Nat) (r : Req) (o : Nat) (h : resolve s r = some o)
    (hb : (s.oo o).busy = none) (hn : NoReplay (s.oo o) r.seq) (hc : (s.oo o).confirmed = false)
    (hk : r.kind = .openConfirm) :
    arrive s c r = (if r.seq ≠ nextSeq (s.oo o).lastSeq then (s, .reply (.err errBadSeqid)) else (begin s o c r, .started)) := by
  unfold arrive; rw [h]; simp only [hb, Option.isSome_none, Bool.false_eq_true, if_false, noReplay_cond _ _ hn, hc, hk]

/-! ### invariant -/

structure Inv (s : State) : Prop where
  busy : ∀ o b, (s.oo o).busy = some b → (s.oo o).lastResp = none ∧ (s.oo o).lastDone = none
  done : ∀ o r0 x0, (s.oo o).lastDone = some (r0, x0) → (s.oo o).lastResp = some x0 ∧ (s.oo o).lastSeq = r0.seq
  waiting : ∀ c o, (c, o) ∈ s.waiting → (s.oo o).busy.isSome = true

theorem inv_init : Inv {} where
  busy := fun o b h => by simp at h
  done := fun o r0 x0 h => by simp at h
  waiting := fun c o h => by simp at h

theorem forget_oo (s : State) (o k : Nat) :
    (forget s o).oo k = if k = o then { s.oo k with lastResp := none, closedFile := none, lastDone := none } else s.oo k := rfl

theorem reinit_oo (s : State) (o k : Nat) : (reinit s o).oo k = (forget s o).oo k := rfl

theorem reinit_waiting (s : State) (o : Nat) : (reinit s o).waiting = s.waiting := rfl

theorem begin_oo (s : State) (o c : Nat) (r : Req) (k : Nat) :
    (begin s o c r).oo k =
      if k = o then { (s.oo k) with lastResp := none, closedFile := none, lastDone := none, busy := some (c, r) }
      else s.oo k := by
  unfold begin
  by_cases hk : k = o
  · simp [hk, forget_oo]
  · simp [hk, forget_oo]

theorem begin_waiting (s : State) (o c : Nat) (r : Req) : (begin s o c r).waiting = s.waiting := rfl

/-- `begin` after anything that keeps the owners' busy/done/waiting facts. -/
theorem inv_begin (s : State) (o c : Nat) (r : Req) (hinv : Inv s) : Inv (begin s o c r) where
  busy := fun k b h => by
    rw [begin_oo] at h ⊢
    by_cases hk : k = o
    · simp [hk]
    · simp only [hk, if_false] at h ⊢; exact hinv.busy k b h
  done := fun k r0 x0 h => by
    rw [begin_oo] at h ⊢
    by_cases hk : k = o
    · simp [hk] at h
    · simp only [hk, if_false] at h ⊢; exact hinv.done k r0 x0 h
  waiting := fun c' k h => by
    rw [begin_waiting] at h
    rw [begin_oo]
    by_cases hk : k = o
    · simp [hk]
    · simp only [hk, if_false]; exact hinv.waiting c' k h

theorem inv_reinit (s : State) (o : Nat) (hinv : Inv s) (hb : (s.oo o).busy = none) : Inv (reinit s o) where
  busy := fun k b h => by
    rw [reinit_oo, forget_oo] at h ⊢
    by_cases hk : k = o
    · subst hk; simp
    · simp only [hk, if_false] at h ⊢; exact hinv.busy k b h
  done := fun k r0 x0 h => by
    rw [reinit_oo, forget_oo] at h ⊢
    by_cases hk : k = o
    · simp [hk] at h
    · simp only [hk, if_false] at h ⊢; exact hinv.done k r0 x0 h
  waiting := fun c' k h => by
    rw [reinit_waiting] at h
    rw [reinit_oo, forget_oo]
    by_cases hk : k = o
    · subst hk
      have := hinv.waiting c' k h
      rw [hb] at this; simp at this
    · simp only [hk, if_false]; exact hinv.waiting c' k h

theorem inv_arrive (s : State) (c : Nat) (r : Req) (hinv : Inv s) : Inv (arrive s c r).1 := by
  cases hres : resolve s r with
  | none => rw [arrive_eq_unresolved s c r hres]; exact hinv
  | some o =>
    cases hb : (s.oo o).busy with
    | some b =>
      rw [arrive_eq_wait s c r o hres (by simp [hb])]
      refine ⟨hinv.busy, hinv.done, fun c' k h => ?_⟩
      simp only [List.mem_append, List.mem_singleton, Prod.mk.injEq] at h
      rcases h with h | ⟨_, h⟩
      · exact hinv.waiting c' k h
      · subst h; simp [hb]
    | none =>
      by_cases hrep : ∃ resp, (s.oo o).lastResp = some resp ∧ r.seq = (s.oo o).lastSeq
      · obtain ⟨resp, h1, h2⟩ := hrep
        rw [arrive_eq_replay s c r o resp hres hb h1 h2]; exact hinv
      · have hn : NoReplay (s.oo o) r.seq := by
          cases h1 : (s.oo o).lastResp with
          | none => exact Or.inl h1
          | some resp => exact Or.inr (fun h2 => hrep ⟨resp, h1, h2⟩)
        cases hc : (s.oo o).confirmed with
        | true =>
          by_cases hq : r.seq = nextSeq (s.oo o).lastSeq
          · rw [arrive_eq_start_confirmed s c r o hres hb hn hc hq]; exact inv_begin s o c r hinv
          · rw [arrive_eq_badseq_confirmed s c r o hres hb hn hc hq]; exact hinv
        | false =>
          by_cases hk : r.kind = .open_
          · rw [arrive_eq_unconfirmed_open s c r o hres hb hn hc hk]
            exact inv_begin _ o c r (inv_reinit s o hinv hb)
          · by_cases hk2 : r.kind = .openConfirm
            · rw [arrive_eq_unconfirmed_confirm s c r o hres hb hn hc hk2]
              split
              · exact hinv
              · exact inv_begin s o c r hinv
            · rw [arrive_eq_unconfirmed_deny s c r o hres hb hn hc hk2 hk]; exact hinv

theorem finish_oo_other (s : State) (o : Nat) (x : Fin) (k : Nat) (hk : k ≠ o) :
    (finish s o x).1.oo k = s.oo k := by
  unfold finish
  split
  · rfl
  · simp [hk]

theorem finish_idle (s : State) (o : Nat) (x : Fin) (h : (s.oo o).busy = none) :
    finish s o x = (s, none, []) := by
  unfold finish; rw [h]

/-- The owner record after `finish` (`effResp` = the response the transaction
completed with; it is `x.resp` unless the nested lock-owner transaction of a
LOCK did not start). -/
theorem finish_oo_same (s : State) (o : Nat) (x : Fin) (call : Nat) (r : Req) (h : (s.oo o).busy = some (call, r)) :
    (finish s o x).1.oo o =
      { (s.oo o) with
        busy := none
        lastSeq := if shouldComplete (effResp s r x).status then r.seq else (s.oo o).lastSeq
        lastResp := if shouldComplete (effResp s r x).status then some (effResp s r x) else (s.oo o).lastResp
        closedFile := if shouldComplete (effResp s r x).status then
            (if ((effResp s r x).status == 0) && r.kind == .close then some r.other else none) else (s.oo o).closedFile
        lastDone := if shouldComplete (effResp s r x).status then some (r, effResp s r x) else (s.oo o).lastDone
        confirmed := (s.oo o).confirmed || (((effResp s r x).status == 0) && r.kind == .openConfirm) } := by
  unfold finish; rw [h]; simp

theorem finish_waiting (s : State) (o : Nat) (x : Fin) (call : Nat) (r : Req) (h : (s.oo o).busy = some (call, r)) :
    (finish s o x).1.waiting = s.waiting.filter (fun w => w.2 != o) ∧
    (finish s o x).2.2 = (s.waiting.filter (fun w => w.2 == o)).map (·.1) ∧
    (finish s o x).2.1 = some (call, effReply s r x) := by
  unfold finish; rw [h]; simp

theorem effResp_not_lock (s : State) (r : Req) (x : Fin) (h : r.kind ≠ .lock) : effResp s r x = x.resp := by
  unfold effResp
  have : (r.kind == Kind.lock) = false := by simpa using h
  simp [this]

theorem effReply_not_lock (s : State) (r : Req) (x : Fin) (h : r.kind ≠ .lock) : effReply s r x = .cached x.resp := by
  unfold effReply
  have : (r.kind == Kind.lock) = false := by simpa using h
  simp [this]

theorem inv_finish (s : State) (o : Nat) (x : Fin) (hinv : Inv s) : Inv (finish s o x).1 := by
  cases hb : (s.oo o).busy with
  | none => rw [finish_idle s o x hb]; exact hinv
  | some b =>
    obtain ⟨call, r⟩ := b
    obtain ⟨hr, hd⟩ := hinv.busy o _ hb
    refine ⟨fun k b2 h => ?_, fun k r0 x0 h => ?_, fun c' k h => ?_⟩
    · by_cases hk : k = o
      · subst hk; rw [finish_oo_same s k x call r hb] at h; simp at h
      · rw [finish_oo_other s o x k hk] at h ⊢; exact hinv.busy k b2 h
    · by_cases hk : k = o
      · subst hk
        rw [finish_oo_same s k x call r hb] at h ⊢
        cases hs : shouldComplete (effResp s r x).status
        · simp only [hs, Bool.false_eq_true, if_false] at h; rw [hd] at h; cases h
        · simp only [hs, if_true, Option.some.injEq, Prod.mk.injEq] at h ⊢
          obtain ⟨h1, h2⟩ := h
          subst h1; subst h2; exact ⟨rfl, rfl⟩
      · rw [finish_oo_other s o x k hk] at h ⊢; exact hinv.done k r0 x0 h
    · rw [(finish_waiting s o x call r hb).1] at h
      simp only [List.mem_filter, bne_iff_ne, ne_eq] at h
      rw [finish_oo_other s o x k h.2]
      exact hinv.waiting c' k h.1

theorem lockTx_oo (s : State) (r : LReq) (x : Resp) : (lockTx s r x).1.oo = s.oo ∧ (lockTx s r x).1.waiting = s.waiting := by
  unfold lockTx
  split
  · exact ⟨rfl, rfl⟩
  · dsimp only
    repeat (first | exact ⟨rfl, rfl⟩ | split)

theorem inv_step (s : State) (o : Op) (hinv : Inv s) : Inv (step s o) := by
  cases o with
  | arrive c r => exact inv_arrive s c r hinv
  | finish o x => exact inv_finish s o x hinv
  | lockTx r x =>
    obtain ⟨h1, h2⟩ := lockTx_oo s r x
    exact ⟨fun k b h => by simp only [step, h1] at h ⊢; exact hinv.busy k b h,
      fun k r0 x0 h => by simp only [step, h1] at h ⊢; exact hinv.done k r0 x0 h,
      fun c k h => by simp only [step, h1, h2] at h ⊢; exact hinv.waiting c k h⟩

theorem inv_reachable {s : State} (h : Reachable s) : Inv s := by
  induction h with
  | init => exact inv_init
  | step o _ ih => exact inv_step _ o ih


/-! ### The opened file of a cached OPEN response stays resolvable

("it cannot have been closed in the meantime": any later transaction of the
owner drops the cached response first.) -/

/-- Executor well-formedness used here: an OPEN that succeeds for owner `o`
returns a state ID whose `other` is new or already belongs to `o` (state ID
`other`s are unique random values). -/
def OpenWF (s : State) : Op → Prop
  | .finish o x => ∀ call r f q, (s.oo o).busy = some (call, r) → r.kind = .open_ →
      (effResp s r x).status = 0 → (effResp s r x).sid = some (f, q) →
      s.openOther f = none ∨ s.openOther f = some o
  | _ => True

inductive ReachableWF : State → Prop
  | init : ReachableWF {}
  | step {s : State} (o : Op) : ReachableWF s → OpenWF s o → ReachableWF (step s o)

theorem ReachableWF.reachable {s : State} (h : ReachableWF s) : Reachable s := by
  induction h with
  | init => exact Reachable.init
  | step o _ _ ih => exact Reachable.step o ih

structure OpenInv (s : State) : Prop where
  legacy : s.legacyOpenFH = false
  opened : ∀ o r0 x0 f q, (s.oo o).lastDone = some (r0, x0) → r0.kind = .open_ → x0.status = 0 →
    x0.sid = some (f, q) → s.openOther f = some o

theorem forget_openOther_ne (s : State) (o k f : Nat) (hk : k ≠ o) (h : s.openOther f = some k) :
    (forget s o).openOther f = some k := by
  unfold forget
  have : (s.openOther f == some o) = false := by rw [h]; simpa using hk
  simp only [this, Bool.and_false, Bool.false_eq_true, if_false]
  exact h

theorem reinit_openOther_ne (s : State) (o k f : Nat) (hk : k ≠ o) (h : s.openOther f = some k) :
    (reinit s o).openOther f = some k := by
  have h1 := forget_openOther_ne s o k f hk h
  unfold reinit
  simp only [h1]
  rw [if_neg]; simpa using hk

theorem begin_openOther (s : State) (o c : Nat) (r : Req) : (begin s o c r).openOther = (forget s o).openOther := rfl

theorem begin_legacy (s : State) (o c : Nat) (r : Req) : (begin s o c r).legacyOpenFH = s.legacyOpenFH := rfl
theorem reinit_legacy (s : State) (o : Nat) : (reinit s o).legacyOpenFH = s.legacyOpenFH := rfl

theorem openInv_begin (s : State) (o c : Nat) (r : Req) (hi : OpenInv s) : OpenInv (begin s o c r) where
  legacy := hi.legacy
  opened := fun k r0 x0 f q hd hk hs hsid => by
    rw [begin_oo] at hd
    by_cases hko : k = o
    · simp [hko] at hd
    · simp only [hko, if_false] at hd
      rw [begin_openOther]
      exact forget_openOther_ne s o k f hko (hi.opened k r0 x0 f q hd hk hs hsid)

theorem openInv_reinit (s : State) (o : Nat) (hi : OpenInv s) : OpenInv (reinit s o) where
  legacy := hi.legacy
  opened := fun k r0 x0 f q hd hk hs hsid => by
    rw [reinit_oo, forget_oo] at hd
    by_cases hko : k = o
    · simp [hko] at hd
    · simp only [hko, if_false] at hd
      exact reinit_openOther_ne s o k f hko (hi.opened k r0 x0 f q hd hk hs hsid)

theorem openInv_arrive (s : State) (c : Nat) (r : Req) (hi : OpenInv s) : OpenInv (arrive s c r).1 := by
  cases hres : resolve s r with
  | none => rw [arrive_eq_unresolved s c r hres]; exact hi
  | some o =>
    cases hb : (s.oo o).busy with
    | some b => rw [arrive_eq_wait s c r o hres (by simp [hb])]; exact ⟨hi.legacy, hi.opened⟩
    | none =>
      by_cases hrep : ∃ resp, (s.oo o).lastResp = some resp ∧ r.seq = (s.oo o).lastSeq
      · obtain ⟨resp, h1, h2⟩ := hrep
        rw [arrive_eq_replay s c r o resp hres hb h1 h2]; exact hi
      · have hn : NoReplay (s.oo o) r.seq := by
          cases h1 : (s.oo o).lastResp with
          | none => exact Or.inl h1
          | some resp => exact Or.inr (fun h2 => hrep ⟨resp, h1, h2⟩)
        cases hc : (s.oo o).confirmed with
        | true =>
          by_cases hq : r.seq = nextSeq (s.oo o).lastSeq
          · rw [arrive_eq_start_confirmed s c r o hres hb hn hc hq]; exact openInv_begin s o c r hi
          · rw [arrive_eq_badseq_confirmed s c r o hres hb hn hc hq]; exact hi
        | false =>
          by_cases hk : r.kind = .open_
          · rw [arrive_eq_unconfirmed_open s c r o hres hb hn hc hk]
            exact openInv_begin _ o c r (openInv_reinit s o hi)
          · by_cases hk2 : r.kind = .openConfirm
            · rw [arrive_eq_unconfirmed_confirm s c r o hres hb hn hc hk2]
              split
              · exact hi
              · exact openInv_begin s o c r hi
            · rw [arrive_eq_unconfirmed_deny s c r o hres hb hn hc hk2 hk]; exact hi

/-- `openOwnerFilesByOther` after `finish`. -/
theorem finish_openOther (s : State) (o : Nat) (x : Fin) (call : Nat) (r : Req) (h : (s.oo o).busy = some (call, r)) (f : Nat) :
    (finish s o x).1.openOther f =
      match (effResp s r x).sid with
      | some (f', _) => if ((effResp s r x).status == 0) && r.kind == .open_ && f = f' then some o else s.openOther f
      | none => s.openOther f := by
  unfold finish; rw [h]; dsimp only
  cases (effResp s r x).sid with
  | none => rfl
  | some p => rfl

theorem finish_legacy (s : State) (o : Nat) (x : Fin) : (finish s o x).1.legacyOpenFH = s.legacyOpenFH := by
  unfold finish; split <;> rfl

theorem openInv_finish (s : State) (o : Nat) (x : Fin) (hinv : Inv s) (hi : OpenInv s) (hwf : OpenWF s (.finish o x)) :
    OpenInv (finish s o x).1 := by
  cases hb : (s.oo o).busy with
  | none => rw [finish_idle s o x hb]; exact hi
  | some b =>
    obtain ⟨call, r⟩ := b
    refine ⟨by rw [finish_legacy]; exact hi.legacy, fun k r0 x0 f q hd hk hs hsid => ?_⟩
    rw [finish_openOther s o x call r hb f]
    by_cases hko : k = o
    · subst hko
      rw [finish_oo_same s k x call r hb] at hd
      cases hadv : shouldComplete (effResp s r x).status
      · simp only [hadv, Bool.false_eq_true, if_false] at hd
        rw [(hinv.busy k _ hb).2] at hd; cases hd
      · simp only [hadv, if_true, Option.some.injEq, Prod.mk.injEq] at hd
        obtain ⟨e1, e2⟩ := hd
        subst e1; subst e2
        simp [hsid, hs, hk]
    · rw [finish_oo_other s o x k hko] at hd
      have hold := hi.opened k r0 x0 f q hd hk hs hsid
      cases hsid' : (effResp s r x).sid with
      | none => simpa using hold
      | some p =>
        obtain ⟨f', q'⟩ := p
        simp only []
        by_cases hcond : (((effResp s r x).status == 0) && r.kind == .open_ && decide (f = f')) = true
        · simp only [Bool.and_eq_true, beq_iff_eq, decide_eq_true_eq] at hcond
          obtain ⟨⟨h1, h2⟩, h3⟩ := hcond
          subst h3
          rcases hwf call r f q' hb h2 h1 hsid' with h | h
          · rw [hold] at h; cases h
          · rw [hold] at h; cases h; exact absurd rfl hko
        · simp only [Bool.and_eq_true, beq_iff_eq, decide_eq_true_eq] at hcond
          rw [if_neg (by simpa using hcond)]; exact hold

theorem lockTx_openOther (s : State) (r : LReq) (x : Resp) :
    (lockTx s r x).1.openOther = s.openOther ∧ (lockTx s r x).1.legacyOpenFH = s.legacyOpenFH := by
  unfold lockTx
  split
  · exact ⟨rfl, rfl⟩
  · dsimp only
    repeat (first | exact ⟨rfl, rfl⟩ | split)

theorem openInv_reachable {s : State} (h : ReachableWF s) : OpenInv s := by
  induction h with
  | init => exact ⟨rfl, fun o r0 x0 f q hd => by simp at hd⟩
  | step o hr hwf ih =>
    have hinv := inv_reachable hr.reachable
    cases o with
    | arrive c r => exact openInv_arrive _ c r ih
    | finish o x => exact openInv_finish _ o x hinv ih hwf
    | lockTx r x =>
      obtain ⟨h1, h2⟩ := lockTx_openOther _ r x
      obtain ⟨h3, _⟩ := lockTx_oo _ r x
      refine ⟨?_, fun k r0 x0 f q hd hk hs hsid => ?_⟩
      · show (lockTx _ r x).1.legacyOpenFH = false
        rw [h2]; exact ih.legacy
      · have hd' : (((lockTx _ r x).1).oo k).lastDone = some (r0, x0) := hd
        rw [h3] at hd'
        show (lockTx _ r x).1.openOther f = some k
        rw [h1]
        exact ih.opened k r0 x0 f q hd' hk hs hsid

end BbRe.Lemmas.Replay40
