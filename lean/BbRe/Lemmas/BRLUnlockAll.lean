import BbRe.Lemmas.BRLPointwise
/-!
# Helper lemmas for C20: unlocking `[0, M)` with every entry ending at or before `M`
-/
namespace BbRe.Lemmas.BRL
open BbRe.BRL BbRe.Spec.ByteLocks

theorem phase1_start_zero (n : Lock) (tr : Option Lock) (ls : List Lock) (h : n.start = 0) :
    phase1 n tr ls = ([], ls, n, tr) := by
  cases ls with
  | nil => rfl
  | cons s rest => simp [phase1, h]

theorem phase2_covers_all (n : Lock) (ls : List Lock)
    (h : ∀ e ∈ ls, e.start ≤ n.stop ∧ e.stop ≤ n.stop) :
    phase2 n none ls = (ls.filter (fun e => e.owner ≠ n.owner), [], n, none) := by
  induction ls with
  | nil => rfl
  | cons s rest ih =>
    have hs := h s (by simp)
    have ih := ih (fun e he => h e (by simp [he]))
    unfold phase2
    rw [if_neg (by omega)]
    by_cases ho : s.owner = n.owner
    · rw [if_pos ho, if_pos (by omega), ih]
      simp [ho]
    · rw [if_neg ho]
      simp [ih, ho]

/-- `UnlockAll`: the result is literally the table without the owner's entries. -/
theorem setList_unlock_all (ls : List Lock) (o M : Nat)
    (h : ∀ e ∈ ls, e.start < e.stop ∧ e.stop ≤ M) :
    setList ls ⟨0, M, o, .unlocked⟩ = ls.filter (fun e => e.owner ≠ o) := by
  unfold setList
  rw [phase1_start_zero _ _ _ rfl]
  simp only
  rw [phase2_covers_all _ _ (fun e he => by have := h e he; simp only; omega)]
  simp

end BbRe.Lemmas.BRL
