import BbRe.Lemmas.SchedLiveWake
/-!
Run-level corollaries of the per-segment relations.
-/
namespace BbRe.Lemmas.SchedLive
open BbRe.Sched

/-- along a run whose retrying segments all satisfy `allow`, old tasks evolve by `TaskLe allow` -/
theorem run_tstep {allow : Prop} (gs : List Seg) (s : State) (ha : ∀ g ∈ gs, isRetrySeg g → allow) :
    TStep allow s (run s gs) := by
  induction gs generalizing s with
  | nil => exact TStep.refl _ _
  | cons g rest ih =>
    have ha' : ∀ x ∈ rest, isRetrySeg x → allow := fun x hx => ha x (List.mem_cons_of_mem _ hx)
    unfold run
    split
    · rename_i s1 h1
      exact ((step_tstep h1).mono (ha g (List.mem_cons_self ..))).trans (ih s1 ha')
    · exact ih s ha'

/-- tasks of a key-disciplined state lie below the watermark, so `TRel` speaks about all of them -/
theorem trel_task {allow : Prop} {s s' : State} (hk : KeysOK s) (r : TRel allow s s') {k : Nat} {t t' : Task}
    (h : s.task? k = some t) (h' : s'.task? k = some t') : TaskLe allow t t' := by
  obtain ⟨t0, e, le⟩ := r.tasks k t' (hk.tid k t h).2 h'
  rw [h] at e; injection e with e; subst e; exact le

end BbRe.Lemmas.SchedLive
