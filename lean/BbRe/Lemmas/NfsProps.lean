import BbRe.Lemmas.NfsInv
import BbRe.Spec.ByteLocks
import BbRe.Lemmas.BRLUnlockAll
/-!
# Consequences of the invariant of `Model/NfsState.lean` (helper lemmas for C18 / C20Nfs)
-/
namespace BbRe.Lemmas.NfsProps
open BbRe.NfsState BbRe.NfsShare BbRe.Lemmas.NfsInv

/-- A record with a holder of `bit` keeps the leaf open for `bit`. -/
theorem held_pos_of_holder (s : State) (h : Inv s) (f : OFile) (hf : f ∈ s.files) (bit : Bool)
    (hh : 0 < holders s f bit) : 1 ≤ heldFiles s f.file bit := by
  unfold heldFiles
  rw [List.one_le_countP_iff]
  refine ⟨f, hf, ?_⟩
  have hc := h.k.counts f hf bit
  simp only [Bool.and_eq_true, beq_self_eq_true, decide_eq_true_eq, true_and]
  omega

theorem holders_pos_of_share (s : State) (f : OFile) (bit : Bool) (hb : f.share.get bit = true) :
    0 < holders s f bit := by
  unfold holders
  simp only [hb, if_true]
  omega

theorem holders_pos_of_lofs (s : State) (f : OFile) (bit : Bool) (l : LOFile) (hl : l ∈ f.lofs)
    (hb : l.share.get bit = true) : 0 < holders s f bit := by
  unfold holders
  have : 0 < f.lofs.countP (fun l => l.share.get bit) := List.countP_pos_iff.2 ⟨l, hl, hb⟩
  omega

theorem holders_pos_of_io (s : State) (f : OFile) (bit : Bool) (io : IOrec) (hio : io ∈ s.ios)
    (hs : io.sid = f.sid) (hb : io.share.get bit = true) : 0 < holders s f bit := by
  unfold holders
  have : 0 < s.ios.countP (fun io => io.sid == f.sid && io.share.get bit) :=
    List.countP_pos_iff.2 ⟨io, hio, by simp [hs, hb]⟩
  omega

/-- opens − closes ≥ 1 while somebody holds the bit on a record of the leaf. -/
theorem open_while_held (s : State) (h : Inv s) (f : OFile) (hf : f ∈ s.files) (bit : Bool)
    (hh : 0 < holders s f bit) : closes s f.file bit + 1 ≤ opens s f.file bit := by
  have h1 := held_pos_of_holder s h f hf bit hh
  have h2 := h.g.ledger f.file bit
  unfold held at h2
  omega

/-! ## lock-owner objects -/

theorem getLO_some (s : State) (cl key : Nat) (lo : LOwner) (h : s.getLO cl key = some lo) :
    lo ∈ s.lowners ∧ lo.cl = cl ∧ lo.key = key := by
  unfold State.getLO at h
  have h1 := List.mem_of_find?_eq_some h
  have h2 := List.find?_some h
  simp only [Bool.and_eq_true, beq_iff_eq] at h2
  exact ⟨h1, h2.1, h2.2⟩

/-- Under `InvL` two registered objects with the same client and owner are the same object. -/
theorem lo_unique (s : State) (h : InvL s) (a b : LOwner) (ha : a ∈ s.lowners) (hb : b ∈ s.lowners)
    (hcl : a.cl = b.cl) (hkey : a.key = b.key) : a = b :=
  NfsInvK.inj_of_nodup_map (fun l : LOwner => (l.cl, l.key)) s.lowners h.loKeyNodup a ha b hb
    (by simp [hcl, hkey])

/-- The lookup used by LOCK and LOCKT finds THE object of (client, owner). -/
theorem getLO_iff (s : State) (h : InvL s) (cl key : Nat) (lo : LOwner) :
    s.getLO cl key = some lo ↔ (lo ∈ s.lowners ∧ lo.cl = cl ∧ lo.key = key) := by
  constructor
  · exact getLO_some s cl key lo
  · rintro ⟨hm, hc, hk⟩
    cases hg : s.getLO cl key with
    | none => exact absurd ⟨hc, hk⟩ (NfsInvPLR.getLO_none hg lo hm)
    | some lo' =>
      obtain ⟨hm', hc', hk'⟩ := getLO_some s cl key lo' hg
      rw [lo_unique s h lo' lo hm' hm (hc'.trans hc.symm) (hk'.trans hk.symm)]

/-- LOCK with `new_lock_owner`: an existing object is reused (nothing changes) … -/
theorem loRegister_reuses (s : State) (cl key : Nat) (lo : LOwner) (h : s.getLO cl key = some lo) :
    Do.loRegister s cl key = s := by
  unfold Do.loRegister
  simp [h]

/-- … and otherwise a new object is registered, which the lookup finds from then on. -/
theorem loRegister_registers (s : State) (cl key : Nat) (hc : (s.getClient cl).isSome = true)
    (h : s.getLO cl key = none) :
    (Do.loRegister s cl key).getLO cl key =
      some { id := s.nextId, cl := cl, key := key, lastSeq := 0, resp := none } ∧
    (Do.loRegister s cl key).lowners = s.lowners ++ [{ id := s.nextId, cl := cl, key := key, lastSeq := 0, resp := none }] := by
  unfold Do.loRegister
  have hc' : (s.getClient cl).isNone = false := by
    cases hx : s.getClient cl <;> simp_all
  simp only [hc', h, Option.isSome_none, Bool.or_self, Bool.false_eq_true, if_false]
  constructor
  · unfold State.getLO at h ⊢
    simp only
    rw [List.find?_append, h]
    simp
  · trivial

/-! ## `UnlockAll` on CLOSE / expiry -/

theorem find_map_key (file : Nat) (g : PoolEnt → PoolEnt) (hg : ∀ e, (g e).file = e.file) :
    ∀ l : List PoolEnt,
      (l.map (fun e => if e.file == file then g e else e)).find? (fun e => e.file == file) =
        (l.find? (fun e => e.file == file)).map g
  | [] => rfl
  | e :: rest => by
    simp only [List.map_cons, List.find?_cons]
    by_cases he : e.file = file
    · simp [he, hg]
    · have h1 : (e.file == file) = false := by simpa using he
      simp only [h1, Bool.false_eq_true, if_false]
      exact find_map_key file g hg rest

theorem getPool_modPool (s : State) (file : Nat) (g : PoolEnt → PoolEnt) (hg : ∀ e, (g e).file = e.file) :
    (s.modPool file g).getPool file = (s.getPool file).map g := by
  unfold State.modPool State.getPool
  exact find_map_key file g hg s.pool

theorem getPool_modFile (s : State) (sid : Nat) (g : OFile → OFile) (file : Nat) :
    (s.modFile sid g).getPool file = s.getPool file := rfl

/-- `unlockAndRemove` / `nfs40LockOwnerFileState.remove`: when the lock-owner file counts at least one
lock, `UnlockAll` removes every entry of its lock-owner object from the table of the opened file and
nothing else (table entries non-empty and ending at or before `2^64-1`, i.e. no entry produced by the
known corner LOCK(2^64-1, all-ones)). -/
theorem unlockAll_releases (s : State) (sid lsid : Nat) (f : OFile) (l : LOFile) (e : PoolEnt)
    (hf : s.getFile sid = some f) (hl : f.lofs.find? (fun l => l.sid == lsid) = some l)
    (he : s.getPool f.file = some e) (hc : 0 < l.lockCount)
    (hv : ∀ x ∈ e.locks, x.start < x.stop ∧ x.stop ≤ LockRange.maxU64) :
    (Do.unlockAllLofs s sid lsid).getPool f.file =
      some { e with locks := e.locks.filter (fun x => x.owner ≠ l.lo) } := by
  unfold Do.unlockAllLofs
  simp only [hf, hl, he]
  have : ¬ l.lockCount ≤ 0 := by omega
  simp only [this, if_false]
  rw [getPool_modFile]
  rw [getPool_modPool s f.file]
  · rw [he]
    simp only [Option.map_some, BRL.set]
    rw [BbRe.Lemmas.BRL.setList_unlock_all e.locks l.lo LockRange.maxU64 hv]
  · intro _
    rfl

end BbRe.Lemmas.NfsProps
