import BbRe.Lemmas.FairPick
import BbRe.Lemmas.GoHeapOps
/-!
What one step of `assignNextQueuedTask` guarantees (directly queued operations first and in order;
the chosen child is score-minimal; stickiness only breaks ties), the bridge from the heap property
of the real heaps to `Inv.wf`, and independence of the iteration bound.
-/
namespace BbRe.Lemmas.Fair
open BbRe.Fair BbRe.GoHeap BbRe.Lemmas.GoHeap

/-! ### heap property ⇒ root minimal -/

theorem rootMin_of_isHeap {α : Type} (less : α → α → Bool) (sw : StrictWeak less) (l : List α)
    (h : IsHeap less l.toArray) : rootMin less l = true := by
  cases l with
  | nil => rfl
  | cons r rest =>
    unfold rootMin
    rw [List.all_eq_true]
    intro x hx
    obtain ⟨k, hk, hxk⟩ := List.getElem_of_mem hx
    have h0 := lessAt_root_false less sw (r :: rest).toArray (r :: rest).toArray.size (Nat.le_refl _) h k
      (by simpa using hk)
    rw [lessAt_eq less _ k 0 (by simpa using hk) (by simp)] at h0
    simp only [List.getElem_toArray, List.getElem_cons_zero] at h0
    rw [hxk] at h0
    simp [h0]

/-- The nodes `queuedChildren` points to, in heap order. -/
def queuedNodes (i : Inv) : List Inv := i.queued.filterMap fun k => i.kids.find? fun c => c.key == k

/-- A snapshot whose `queuedOperations` and `queuedChildren` heaps satisfy the heap property for
the `Less` methods at every invocation (what `VerifDumpState` checks on the real structures, and
what `Lemmas/GoHeapOps.lean` shows `Push`/`Remove`/`Fix` preserve), and whose `queuedChildren`
lists exactly the children with queued work. -/
inductive HeapTree : Inv → Prop
  | mk (i : Inv)
      (keys : (i.kids.map Inv.key).Nodup)
      (qnodup : i.queued.Nodup)
      (qsub : ∀ k ∈ i.queued, ∃ c ∈ i.kids, c.key = k ∧ c.hasQueued = true)
      (qsup : ∀ c ∈ i.kids, c.hasQueued = true → c.key ∈ i.queued)
      (opsHeap : IsHeap opLess i.ops.toArray)
      (kidsHeap : IsHeap childLess (queuedNodes i).toArray)
      (kids : ∀ c ∈ i.kids, HeapTree c) : HeapTree i

theorem HeapTree.wf {i : Inv} (h : HeapTree i) : i.wf = true := by
  induction h with
  | mk i keys qnodup qsub qsup opsHeap kidsHeap _ ih =>
    rw [wf_iff]
    exact ⟨keys, qnodup, qsub, qsup, rootMin_of_isHeap opLess opLess_strictWeak _ opsHeap,
      rootMin_of_isHeap childLess childLess_strictWeak _ kidsHeap, ih⟩

/-! ### directly queued operations -/

theorem direct_first (win : Nat → Bool) (nlim fuel : Nat) (i : Inv) (keys : List Nat) (lvl : Nat)
    (hw : i.wf = true) (hne : i.ops ≠ []) :
    ∃ o, pickAux win nlim (fuel + 1) i keys lvl = some (o, lvl) ∧ o ∈ i.ops ∧
      ∀ o' ∈ i.ops, opLess o' o = false := by
  have hw' := (wf_iff i).mp hw
  cases hops : i.ops with
  | nil => exact absurd hops hne
  | cons o rest =>
    refine ⟨o, ?_, List.mem_cons_self, ?_⟩
    · unfold pickAux; rw [hops]
    · have := hw'.opsRoot
      rw [hops] at this
      exact rootMin_cons opLess o rest this

/-! ### the chosen child -/

/-- Everything `specChildren` admits is a candidate of minimal score; it is least recently
started among those, unless it is the worker's sticky child inside its window; and stickiness
keeps being tracked only below the sticky child. -/
theorem mem_specChildren (win : Nat → Bool) (nlim : Nat) (i : Inv) (keys : List Nat) (lvl : Nat)
    (c : Inv) (ks' : List Nat) (l' : Nat) (h : (c, ks', l') ∈ specChildren win nlim i keys lvl) :
    c ∈ minScore (cands i) ∧
    (c ∈ lru (minScore (cands i)) ∨ ∃ k ks, keys = k :: ks ∧ lvl < nlim ∧ c.key = k ∧ win lvl = true) ∧
    ((∃ k ks, keys = k :: ks ∧ lvl < nlim ∧ c.key = k ∧ ks' = ks ∧ l' = lvl + 1) ∨
      (l' = lvl ∧ (ks' = [] ∨ (ks' = keys ∧ ¬ ∃ k ks, keys = k :: ks ∧ lvl < nlim)))) := by
  have lruSub : ∀ x, x ∈ lru (minScore (cands i)) → x ∈ minScore (cands i) := fun x hx => ((mem_lru _ _).mp hx).1
  unfold specChildren at h
  simp only [] at h
  cases keys with
  | nil =>
    simp only [List.mem_map, Prod.mk.injEq] at h
    obtain ⟨x, hx, rfl, rfl, rfl⟩ := h
    exact ⟨lruSub _ hx, Or.inl hx, Or.inr ⟨rfl, Or.inl rfl⟩⟩
  | cons k ks =>
    simp only [] at h
    by_cases hl : lvl < nlim
    · rw [if_pos hl] at h
      cases hf : (minScore (cands i)).find? (fun c => c.key == k) with
      | none =>
        rw [hf] at h
        simp only [List.mem_map, Prod.mk.injEq] at h
        obtain ⟨x, hx, rfl, rfl, rfl⟩ := h
        exact ⟨lruSub _ hx, Or.inl hx, Or.inr ⟨rfl, Or.inl rfl⟩⟩
      | some s =>
        rw [hf] at h
        simp only [] at h
        have hsm := List.mem_of_find?_eq_some hf
        have hsk : s.key = k := by simpa using List.find?_some hf
        cases hw1 : win lvl with
        | true =>
          rw [hw1] at h
          simp only [if_true, List.mem_singleton, Prod.mk.injEq] at h
          obtain ⟨rfl, rfl, rfl⟩ := h
          exact ⟨hsm, Or.inr ⟨k, ks', rfl, hl, hsk, rfl⟩, Or.inl ⟨k, ks', rfl, hl, hsk, rfl, rfl⟩⟩
        | false =>
          rw [hw1] at h
          simp only [Bool.false_eq_true, if_false, List.mem_map] at h
          obtain ⟨x, hx, hxe⟩ := h
          by_cases hxk : x.key = k
          · rw [if_pos hxk] at hxe
            simp only [Prod.mk.injEq] at hxe
            obtain ⟨rfl, rfl, rfl⟩ := hxe
            exact ⟨lruSub _ hx, Or.inl hx, Or.inl ⟨k, ks, rfl, hl, hxk, rfl, rfl⟩⟩
          · rw [if_neg hxk] at hxe
            simp only [Prod.mk.injEq] at hxe
            obtain ⟨rfl, rfl, rfl⟩ := hxe
            exact ⟨lruSub _ hx, Or.inl hx, Or.inr ⟨rfl, Or.inl rfl⟩⟩
    · rw [if_neg hl] at h
      simp only [List.mem_map, Prod.mk.injEq] at h
      obtain ⟨x, hx, rfl, rfl, rfl⟩ := h
      refine ⟨lruSub _ hx, Or.inl hx, Or.inr ⟨rfl, Or.inr ⟨rfl, ?_⟩⟩⟩
      rintro ⟨_, _, _, h2⟩
      exact hl h2

/-- If the code descends into a child other than the root of `queuedChildren`, that child is
the worker's sticky child at a level that still has a stickiness limit, its window is open, and
its score ties with the root's. -/
theorem chooseChild_ne_root (win : Nat → Bool) (nlim : Nat) (i : Inv) (hw : WF i)
    (keys : List Nat) (lvl : Nat) (ck : Nat) (keys' : List Nat) (lvl' : Nat) (b : Nat) (qs : List Nat)
    (hq : i.queued = b :: qs) (h : chooseChild win nlim i keys lvl = some (ck, keys', lvl')) (hne : ck ≠ b) :
    ∃ k ks s bb, keys = k :: ks ∧ lvl < nlim ∧ ck = k ∧ i.child k = some s ∧ i.child b = some bb ∧
      win lvl = true ∧ s.scoreLt bb = false ∧ bb.scoreLt s = false := by
  obtain ⟨bb, hchild, hbc, hle⟩ := root_le_cands i hw b qs hq
  unfold chooseChild at h
  rw [hq] at h
  simp only [] at h
  cases keys with
  | nil =>
    simp only [Option.some.injEq, Prod.mk.injEq] at h
    exact absurd h.1.symm hne
  | cons k ks =>
    simp only [] at h
    by_cases hl : lvl < nlim
    · rw [if_pos hl] at h
      unfold stickyWins at h
      cases hsk : i.child k with
      | none => rw [hsk] at h; cases h
      | some s =>
        rw [hsk, hchild] at h
        simp only [] at h
        obtain ⟨hsmem, _⟩ := mem_of_child i k s hsk
        have hswf : WF s := (wf_iff s).mp (hw.kidsWf s hsmem)
        cases hwin : (s.isQueued && isPreferred s.exec s.prio bb.exec bb.prio (win lvl)) with
        | false =>
          rw [hwin] at h
          simp only [Bool.false_eq_true, if_false] at h
          by_cases hbk : b = k
          · rw [if_pos hbk] at h
            simp only [Option.some.injEq, Prod.mk.injEq] at h
            exact absurd (h.1.symm.trans hbk.symm) hne
          · rw [if_neg hbk] at h
            simp only [Option.some.injEq, Prod.mk.injEq] at h
            exact absurd h.1.symm hne
        | true =>
          rw [hwin] at h
          simp only [if_true, Option.some.injEq, Prod.mk.injEq] at h
          simp only [Bool.and_eq_true] at hwin
          obtain ⟨hsQ, hpref⟩ := hwin
          have hsc : s ∈ cands i := (mem_cands i s).mpr ⟨hsmem, by rw [← isQueued_eq_hasQueued s hswf]; exact hsQ⟩
          have h1 : scoreLt s.exec s.prio bb.exec bb.prio = false := childLess_false_score s bb (hle s hsc)
          unfold isPreferred at hpref
          rw [h1] at hpref
          simp only [Bool.false_or, Bool.and_eq_true, Bool.not_eq_true'] at hpref
          exact ⟨k, ks, s, bb, rfl, hl, h.1.symm, hsk, hchild, hpref.2, h1, hpref.1⟩
    · rw [if_neg hl] at h
      simp only [Option.some.injEq, Prod.mk.injEq] at h
      exact absurd h.1.symm hne

/-- Inside the window, a sticky child with queued work whose score is not worse than the best
one's is taken. -/
theorem chooseChild_sticky_tie (win : Nat → Bool) (nlim : Nat) (i : Inv) (k : Nat) (ks : List Nat)
    (lvl : Nat) (b : Nat) (qs : List Nat) (s bb : Inv) (hq : i.queued = b :: qs) (hl : lvl < nlim)
    (hs : i.child k = some s) (hb : i.child b = some bb) (hsq : s.isQueued = true)
    (htie : bb.scoreLt s = false) (hwin : win lvl = true) :
    chooseChild win nlim i (k :: ks) lvl = some (k, ks, lvl + 1) := by
  unfold chooseChild stickyWins
  rw [hq]
  simp only [if_pos hl, hs, hb, hsq, Bool.true_and]
  have : isPreferred s.exec s.prio bb.exec bb.prio (win lvl) = true := by
    unfold isPreferred
    have htie' : scoreLt bb.exec bb.prio s.exec s.prio = false := htie
    rw [htie', hwin]; simp
  rw [this]; simp

/-! ### the iteration bound is never exhausted -/

theorem depthL_mem (c : Inv) (cs : List Inv) (h : c ∈ cs) : c.depth ≤ depthL cs := by
  induction cs with
  | nil => cases h
  | cons d ds ih =>
    rw [depthL]
    cases h with
    | head => omega
    | tail _ h => have := ih h; omega

theorem depth_eq (i : Inv) : i.depth = depthL i.kids + 1 := by
  cases i with
  | mk => rw [Inv.depth]; rfl

theorem child_depth_lt (i : Inv) (k : Nat) (c : Inv) (h : i.child k = some c) : c.depth < i.depth := by
  rw [depth_eq i]
  have := depthL_mem c i.kids (mem_of_child i k c h).1
  omega

/-- Any bound of at least the depth of the tree gives the same result: the loop of
`assignNextQueuedTask` ends by itself (at directly queued operations or at an invocation without
queued children) before the bound is reached. -/
theorem pickAux_fuel (win : Nat → Bool) (nlim : Nat) : ∀ (f : Nat) (i : Inv) (keys : List Nat) (lvl : Nat),
    i.depth ≤ f → pickAux win nlim f i keys lvl = pickAux win nlim i.depth i keys lvl := by
  intro f
  induction f using Nat.strongRecOn with
  | _ f ih =>
    intro i keys lvl hd
    have hpos : 0 < i.depth := by rw [depth_eq]; omega
    obtain ⟨f', rfl⟩ : ∃ f', f = f' + 1 := ⟨f - 1, by omega⟩
    obtain ⟨d', hd'⟩ : ∃ d', i.depth = d' + 1 := ⟨i.depth - 1, by omega⟩
    rw [hd']
    unfold pickAux
    cases i.ops with
    | cons o rest => rfl
    | nil =>
      simp only []
      cases chooseChild win nlim i keys lvl with
      | none => rfl
      | some x =>
        obtain ⟨ck, keys', lvl'⟩ := x
        simp only []
        cases hc : i.child ck with
        | none => rfl
        | some c =>
          simp only []
          have hlt := child_depth_lt i ck c hc
          rw [ih f' (by omega) c keys' lvl' (by omega), ih d' (by omega) c keys' lvl' (by omega)]

end BbRe.Lemmas.Fair

namespace BbRe.Lemmas.Fair
open BbRe.Fair BbRe.GoHeap BbRe.Lemmas.GoHeap

/-! ### a worker that asks gets a task whenever one is queued -/

theorem hasQueued_of_mem_cands (i c : Inv) (h : c ∈ cands i) : c.hasQueued = true := ((mem_cands i c).mp h).2

theorem queued_ne_nil_of_hasQueued (i : Inv) (hw : WF i) (hops : i.ops = []) (hq : i.hasQueued = true) :
    i.queued ≠ [] := by
  rw [hasQueued_eq, hops] at hq
  simp only [List.isEmpty_nil, Bool.not_true, Bool.false_or, List.any_eq_true] at hq
  obtain ⟨c, hc, hcq⟩ := hq
  intro hnil
  have := hw.qsup c hc hcq
  rw [hnil] at this
  cases this

/-- While stickiness is tracked, the worker's remaining last-invocation keys name a path that
exists below the current invocation (the scheduler keeps a worker's last invocation and its
ancestors alive through `idleWorkersCount`); under that condition the walk never dereferences a
missing child, and it ends at an operation whenever one is queued below. -/
theorem pickAux_some_of_queued (win : Nat → Bool) (nlim : Nat) :
    ∀ (f : Nat) (i : Inv) (keys : List Nat) (lvl : Nat), i.depth ≤ f → i.wf = true → i.hasQueued = true →
      (lvl < nlim → ∃ n, nodeAt i keys = some n) →
      ∃ r, pickAux win nlim f i keys lvl = some r := by
  intro f
  induction f using Nat.strongRecOn with
  | _ f ih =>
    intro i keys lvl hd hwf hq hpath
    have hw := (wf_iff i).mp hwf
    have hpos : 0 < i.depth := by rw [depth_eq]; omega
    obtain ⟨f', rfl⟩ : ∃ f', f = f' + 1 := ⟨f - 1, by omega⟩
    unfold pickAux
    cases hops : i.ops with
    | cons o rest => exact ⟨_, rfl⟩
    | nil =>
      simp only []
      have hqne := queued_ne_nil_of_hasQueued i hw hops hq
      -- chooseChild succeeds
      have hchoose : ∃ x, chooseChild win nlim i keys lvl = some x := by
        unfold chooseChild
        cases hqq : i.queued with
        | nil => exact absurd hqq hqne
        | cons b qs =>
          simp only []
          obtain ⟨bb, hchild, _, _⟩ := root_le_cands i hw b qs hqq
          cases keys with
          | nil => exact ⟨_, rfl⟩
          | cons k ks =>
            simp only []
            by_cases hl : lvl < nlim
            · rw [if_pos hl]
              obtain ⟨n, hn⟩ := hpath hl
              simp only [nodeAt] at hn
              cases hk : i.child k with
              | none => rw [hk] at hn; cases hn
              | some s =>
                unfold stickyWins
                rw [hk, hchild]
                simp only []
                repeat' split
                all_goals exact ⟨_, rfl⟩
            · rw [if_neg hl]; exact ⟨_, rfl⟩
      obtain ⟨⟨ck, keys', lvl'⟩, hc⟩ := hchoose
      rw [hc]
      simp only []
      obtain ⟨c, hchild, hmem⟩ := chooseChild_mem_specChildren win nlim i hw keys lvl ck keys' lvl' hc
      rw [hchild]
      simp only []
      obtain ⟨hmin, _, htrack⟩ := mem_specChildren win nlim i keys lvl c keys' lvl' hmem
      have hcq : c.hasQueued = true := hasQueued_of_mem_cands i c ((mem_minScore _ _).mp hmin).1
      have hcmem := (mem_of_child i ck c hchild).1
      have hlt := child_depth_lt i ck c hchild
      apply ih f' (by omega) c keys' lvl' (by omega) (hw.kidsWf c hcmem) hcq
      intro hl'
      rcases htrack with ⟨k, ks, hk, hl, hck, hks, hlv⟩ | ⟨hlv, hoff⟩
      · -- the sticky child was taken: the rest of the path lies below it
        subst hk hks
        obtain ⟨n, hn⟩ := hpath hl
        simp only [nodeAt] at hn
        have hck' : ck = k := by rw [← hck]; exact (mem_of_child i ck c hchild).2.symm
        rw [← hck', hchild] at hn
        exact ⟨n, hn⟩
      · rcases hoff with hnil | ⟨hsame, hinactive⟩
        · rw [hnil]; exact ⟨c, rfl⟩
        · -- stickiness was not active at this level: with `lvl < nlim` this means `keys = []`
          cases keys with
          | nil => rw [hsame]; exact ⟨c, rfl⟩
          | cons k ks => exact absurd ⟨k, ks, rfl, by omega⟩ hinactive

end BbRe.Lemmas.Fair
