/-
The scheduler's `platformQueues` list + `platformQueuesTrie` (Model/Trie.lean `PQIndex`):
the index invariant and its preservation by `addPlatformQueue` and the swap-with-last removal.
-/
import BbRe.Lemmas.TrieLongest
namespace BbRe.Lemmas.TrieIndex
open BbRe.Model.Trie BbRe.Lemmas.TrieTop BbRe.Lemmas.TrieLongest
open BbRe.Spec.PrefixMap (Comp Plat Key)

/-- `platformQueues[i]` ↔ trie value `i`, and the trie knows no other keys. -/
structure Inv (s : PQIndex) : Prop where
  wf : WF s.trie
  idx : ∀ (i : Nat) (k : Key), s.queues[i]? = some k → tval s.trie k = (i : Int)
  dom : ∀ k, 0 ≤ tval s.trie k → k ∈ s.queues

theorem inv_empty : Inv PQIndex.empty :=
  ⟨wf_empty, by intro i k h; simp [PQIndex.empty] at h, by intro k h; simp [PQIndex.empty, tval_empty] at h⟩

theorem Inv.inj {s : PQIndex} (h : Inv s) {i j : Nat} {k : Key}
    (hi : s.queues[i]? = some k) (hj : s.queues[j]? = some k) : i = j := by
  have := h.idx i k hi
  have := h.idx j k hj
  omega

theorem Inv.nodup {s : PQIndex} (h : Inv s) : s.queues.Nodup := by
  unfold List.Nodup
  rw [List.pairwise_iff_getElem]
  intro i j hi hj hij e
  have := h.inj (List.getElem?_eq_getElem hi) (by rw [List.getElem?_eq_getElem hj, e])
  omega

theorem Inv.mem_iff {s : PQIndex} (h : Inv s) (k : Key) : k ∈ s.queues ↔ 0 ≤ tval s.trie k := by
  constructor
  · intro hk
    obtain ⟨i, hi⟩ := List.mem_iff_getElem?.1 hk
    rw [h.idx i k hi]; omega
  · exact h.dom k

theorem Inv.getExact {s : PQIndex} (h : Inv s) (k : Key) : s.trie.getExact k = tval s.trie k :=
  getExact_eq h.wf k

/-! ## `addPlatformQueue` and its callers -/

theorem inv_add {s : PQIndex} (h : Inv s) (k : Key) (hk : tval s.trie k < 0) :
    Inv (s.addPlatformQueue k) := by
  refine ⟨wf_set h.wf k (by omega), ?_, ?_⟩
  · intro i k' hi
    simp only [PQIndex.addPlatformQueue] at hi ⊢
    rw [tval_set]
    rw [List.getElem?_append] at hi
    by_cases hlt : i < s.queues.length
    · rw [if_pos hlt] at hi
      have hv := h.idx i k' hi
      have : ¬ k' = k := by intro e; subst e; omega
      rw [if_neg this]; exact hv
    · rw [if_neg hlt, List.getElem?_singleton] at hi
      by_cases h0 : i - s.queues.length = 0
      · simp only [h0, if_true, Option.some.injEq] at hi
        subst hi
        simp only [if_true]
        have : i = s.queues.length := by omega
        rw [this]
      · simp [h0] at hi
  · intro k' hk'
    simp only [PQIndex.addPlatformQueue] at hk' ⊢
    rw [tval_set] at hk'
    by_cases e : k' = k
    · simp [e]
    · rw [if_neg e] at hk'
      exact List.mem_append_left _ (h.dom k' hk')

theorem inv_register {s : PQIndex} (h : Inv s) (inst : List Comp) (props : List (Nat × Nat)) :
    Inv (s.register inst props).1 := by
  unfold PQIndex.register
  cases newKey inst props with
  | none => exact h
  | some key =>
    simp only
    by_cases hc : s.trie.containsExact key = true
    · simp only [hc, if_true]; exact h
    · simp only [hc]
      apply inv_add h
      have : ¬ 0 ≤ tval s.trie key := fun hh => hc ((containsExact_iff h.wf key).2 hh)
      omega

theorem inv_synchronize {s : PQIndex} (h : Inv s) (key : Key) : Inv (s.synchronize key).1 := by
  unfold PQIndex.synchronize
  simp only [h.getExact]
  by_cases hk : tval s.trie key ≥ 0
  · simp only [hk, if_true]; exact h
  · simp only [hk, if_false]
    exact inv_add h key (by omega)

/-- the worker ends up in the queue that has exactly its key. -/
theorem synchronize_index {s : PQIndex} (h : Inv s) (key : Key) :
    ∃ i : Nat, (s.synchronize key).2 = (i : Int) ∧ (s.synchronize key).1.queues[i]? = some key := by
  unfold PQIndex.synchronize
  simp only [h.getExact]
  by_cases hk : tval s.trie key ≥ 0
  · simp only [hk, if_true]
    obtain ⟨i, hi⟩ := List.mem_iff_getElem?.1 (h.dom key hk)
    exact ⟨i, h.idx i key hi, hi⟩
  · simp only [hk, if_false]
    exact ⟨s.queues.length, rfl, by simp [PQIndex.addPlatformQueue]⟩

/-! ## swap-with-last removal -/

theorem removeQueue_spec {s : PQIndex} (h : Inv s) {i : Nat} (hi : i < s.queues.length) :
    ∃ t2, (s.trie.set s.queues[s.queues.length - 1] (i : Int)).remove s.queues[i] = some t2 ∧
      s.removeQueue i =
        some ⟨(s.queues.set i s.queues[s.queues.length - 1]).take (s.queues.length - 1), t2⟩ := by
  have hlast : s.queues.length - 1 < s.queues.length := by omega
  have hidx : tval s.trie s.queues[i] = (i : Int) := h.idx i _ (List.getElem?_eq_getElem hi)
  have hpres : 0 ≤ tval (s.trie.set s.queues[s.queues.length - 1] (i : Int)) s.queues[i] := by
    rw [tval_set]; split <;> omega
  obtain ⟨t2, ht2⟩ := remove_present _ hpres
  refine ⟨t2, ht2, ?_⟩
  unfold PQIndex.removeQueue
  simp only [List.getElem?_eq_getElem hi, List.getElem?_eq_getElem hlast, h.getExact, hidx]
  have hc : ¬ ((i : Int) < 0 ∨ i ≥ s.queues.length) := by omega
  simp only [Int.toNat_natCast, hc, if_false, ht2]

theorem inv_removeQueue {s s' : PQIndex} (h : Inv s) {i : Nat} (hi : i < s.queues.length)
    (hr : s.removeQueue i = some s') : Inv s' := by
  obtain ⟨t2, ht2, hrq⟩ := removeQueue_spec h hi
  rw [hrq] at hr
  simp only [Option.some.injEq] at hr
  subst hr
  have hlast : s.queues.length - 1 < s.queues.length := by omega
  have hw1 : WF (s.trie.set s.queues[s.queues.length - 1] (i : Int)) := wf_set h.wf _ (by omega)
  obtain ⟨hw2, hv2⟩ := remove_spec hw1 _ ht2
  have hgi : s.queues[i]? = some s.queues[i] := List.getElem?_eq_getElem hi
  have hgl : s.queues[s.queues.length - 1]? = some s.queues[s.queues.length - 1] :=
    List.getElem?_eq_getElem hlast
  refine ⟨hw2, ?_, ?_⟩
  · intro j k hj
    simp only [List.getElem?_take, List.getElem?_set] at hj
    by_cases hjl : j < s.queues.length - 1
    · rw [if_pos hjl] at hj
      rw [hv2, tval_set]
      by_cases hij : i = j
      · subst hij
        simp only [if_true, hi, Option.some.injEq] at hj
        subst hj
        have hne : ¬ s.queues[s.queues.length - 1] = s.queues[i] := by
          intro e
          have := h.inj hgl (by rw [e]; exact hgi)
          omega
        simp [hne]
      · rw [if_neg hij] at hj
        have hne1 : ¬ k = s.queues[i] := by
          intro e; subst e
          exact hij (h.inj hgi hj)
        have hne2 : ¬ k = s.queues[s.queues.length - 1] := by
          intro e; subst e
          have := h.inj hgl hj
          omega
        rw [if_neg hne1, if_neg hne2]
        exact h.idx j k hj
    · rw [if_neg hjl] at hj; cases hj
  · intro k hk
    rw [hv2] at hk
    by_cases hne1 : k = s.queues[i]
    · rw [if_pos hne1] at hk; omega
    · rw [if_neg hne1, tval_set] at hk
      rw [List.mem_iff_getElem?]
      by_cases hne2 : k = s.queues[s.queues.length - 1]
      · -- the last queue moved to position i (i cannot be the last position: the key differs)
        have hil : i < s.queues.length - 1 := by
          rcases Nat.lt_or_ge i (s.queues.length - 1) with hlt | hge
          · exact hlt
          · exfalso
            have : i = s.queues.length - 1 := by omega
            apply hne1; rw [hne2]; congr 1; exact this.symm
        refine ⟨i, ?_⟩
        simp only [List.getElem?_take, List.getElem?_set, if_pos hil, if_true, hi, hne2]
      · rw [if_neg hne2] at hk
        obtain ⟨j, hj⟩ := List.mem_iff_getElem?.1 (h.dom k hk)
        have hjlen : j < s.queues.length := by
          rcases List.getElem?_eq_some_iff.1 hj with ⟨hlt, _⟩; exact hlt
        have hji : ¬ i = j := by
          intro e; subst e
          rw [hgi] at hj; simp only [Option.some.injEq] at hj; exact hne1 hj.symm
        have hjl : j < s.queues.length - 1 := by
          rcases Nat.lt_or_ge j (s.queues.length - 1) with hlt | hge
          · exact hlt
          · exfalso
            have : j = s.queues.length - 1 := by omega
            subst this
            rw [hgl] at hj; simp only [Option.some.injEq] at hj; exact hne2 hj.symm
        refine ⟨j, ?_⟩
        simp only [List.getElem?_take, List.getElem?_set, if_pos hjl, if_neg hji, hj]

/-! ## histories of the queue index -/

inductive QOp
  | register (inst : List Comp) (props : List (Nat × Nat))
  | synchronize (key : Key)
  | removeQueue (i : Nat)

/-- `none`: a Go panic. -/
def qstep (s : PQIndex) : QOp → Option PQIndex
  | .register inst props => some (s.register inst props).1
  | .synchronize key => some (s.synchronize key).1
  | .removeQueue i => s.removeQueue i

def qrun (s : PQIndex) : List QOp → Option PQIndex
  | [] => some s
  | op :: ops => match qstep s op with
    | none => none
    | some s' => qrun s' ops

theorem removeQueue_none_of_ge (s : PQIndex) {i : Nat} (hi : s.queues.length ≤ i) :
    s.removeQueue i = none := by
  unfold PQIndex.removeQueue
  rw [List.getElem?_eq_none hi]

theorem inv_qstep {s s' : PQIndex} (h : Inv s) (op : QOp) (hs : qstep s op = some s') : Inv s' := by
  cases op with
  | register inst props =>
    simp only [qstep, Option.some.injEq] at hs; subst hs; exact inv_register h inst props
  | synchronize key =>
    simp only [qstep, Option.some.injEq] at hs; subst hs; exact inv_synchronize h key
  | removeQueue i =>
    simp only [qstep] at hs
    rcases Nat.lt_or_ge i s.queues.length with hi | hi
    · exact inv_removeQueue h hi hs
    · rw [removeQueue_none_of_ge s hi] at hs; cases hs

theorem inv_qrun {s s' : PQIndex} (h : Inv s) (ops : List QOp) (hr : qrun s ops = some s') : Inv s' := by
  induction ops generalizing s with
  | nil => simp only [qrun, Option.some.injEq] at hr; subst hr; exact h
  | cons op ops ih =>
    simp only [qrun] at hr
    cases hs : qstep s op with
    | none => rw [hs] at hr; cases hr
    | some s1 => rw [hs] at hr; exact ih (inv_qstep h op hs) hr

/-! ## `Execute` -/

theorem patchSuffix_append {pfx inst : List Comp} (h : pfx <+: inst) :
    pfx ++ patchSuffix pfx inst = inst := by
  obtain ⟨t, rfl⟩ := h
  simp [patchSuffix]

/-- `Execute` picks the queue with the longest registered prefix (equal platform) and hands the
worker `instance name − prefix`; it picks none iff no queue matches. -/
theorem execute_spec {s : PQIndex} (h : Inv s) (key : Key) :
    (s.execute key = none ↔ ∀ q, q ∈ s.queues → ¬ (q.plat = key.plat ∧ q.inst <+: key.inst)) ∧
    (∀ i o, s.execute key = some (i, o) →
      ∃ (j : Nat) (q : Key), i = (j : Int) ∧ s.queues[j]? = some q ∧ q.plat = key.plat ∧
        q.inst <+: key.inst ∧
        (∀ q', q' ∈ s.queues → q'.plat = key.plat → q'.inst <+: key.inst → q'.inst.length ≤ q.inst.length) ∧
        o = some (patchSuffix q.inst key.inst) ∧ q.inst ++ patchSuffix q.inst key.inst = key.inst) := by
  constructor
  · unfold PQIndex.execute
    constructor
    · intro he q hq hm
      by_cases hneg : s.trie.getLongestPrefix key < 0
      · have := (glp_neg_iff s.trie key).1 hneg q.inst hm.2
        have hq' := (h.mem_iff q).1 hq
        have : (⟨q.inst, key.plat⟩ : Key) = q := by rw [← hm.1]
        simp_all
        omega
      · simp [hneg] at he
    · intro hall
      have hneg : s.trie.getLongestPrefix key < 0 := by
        rw [glp_neg_iff]
        intro q hq
        by_cases hv : 0 ≤ tval s.trie ⟨q, key.plat⟩
        · exact absurd ⟨rfl, hq⟩ (hall _ (h.dom _ hv))
        · omega
      simp [hneg]
  · intro i o he
    unfold PQIndex.execute at he
    by_cases hneg : s.trie.getLongestPrefix key < 0
    · simp [hneg] at he
    · simp only [hneg, if_false, Option.some.injEq, Prod.mk.injEq] at he
      obtain ⟨hi, ho⟩ := he
      have hnn : 0 ≤ s.trie.getLongestPrefix key := by omega
      obtain ⟨q, hq, hv, hmax⟩ := (glp_nonneg_iff s.trie key _ hnn).1 rfl
      have hmem := h.dom _ (by rw [hv]; exact hnn)
      obtain ⟨j, hj⟩ := List.mem_iff_getElem?.1 hmem
      have hjv := h.idx j _ hj
      have hij : i = (j : Int) := by rw [← hi, ← hv, hjv]
      refine ⟨j, ⟨q, key.plat⟩, hij, hj, rfl, hq, ?_, ?_, patchSuffix_append hq⟩
      · intro q' hq' hp hpre
        rcases Nat.lt_or_ge q.length q'.inst.length with hlt | hge
        · exfalso
          have := hmax q'.inst hpre hlt
          have hq'' := (h.mem_iff q').1 hq'
          have : (⟨q'.inst, key.plat⟩ : Key) = q' := by rw [← hp]
          simp_all
          omega
        · exact hge
      · have hg : s.trie.getLongestPrefix key = (j : Int) := by rw [hi, hij]
        rw [← ho, hg, Int.toNat_natCast, hj]; rfl

end BbRe.Lemmas.TrieIndex
