import BbRe.Lemmas.SchedTreeLinkDefs
import BbRe.Lemmas.SchedTreeLock
/-!
Frame steps of `Sched`: the steps that leave tasks, workers, queues and the clock alone and keep the
invocation / priority / task of every operation.  Such a step keeps the coupling `Side`, the four bags and
therefore the tree clause of the invariant of the tree layer.
-/
namespace BbRe.Lemmas.SchedTree
open BbRe.Sched BbRe.SchedTree

/-- a step of `Sched` that does not touch what the tree layer's invariant looks at: tasks, workers, queues
and the clock are the same, operations keep their invocation and priority (none is added) -/
structure SFrame (s s' : State) : Prop where
  tasks : s'.tasks = s.tasks
  workers : s'.workers = s.workers
  scqs : s'.scqs = s.scqs
  pqs : s'.pqs = s.pqs
  now : s'.now = s.now
  ops : ∀ o op', s'.op? o = some op' → ∃ op, s.op? o = some op ∧ op'.inv = op.inv ∧ op'.prio = op.prio ∧ op'.task = op.task

theorem SFrame.refl (s : State) : SFrame s s :=
  ⟨rfl, rfl, rfl, rfl, rfl, fun _ op' h => ⟨op', h, rfl, rfl, rfl⟩⟩

theorem SFrame.trans {a b c : State} (h1 : SFrame a b) (h2 : SFrame b c) : SFrame a c := by
  refine ⟨h2.tasks.trans h1.tasks, h2.workers.trans h1.workers, h2.scqs.trans h1.scqs, h2.pqs.trans h1.pqs,
    h2.now.trans h1.now, ?_⟩
  intro o op' h
  obtain ⟨op1, e1, i1, p1, t1⟩ := h2.ops o op' h
  obtain ⟨op0, e0, i0, p0, t0⟩ := h1.ops o op1 e1
  exact ⟨op0, e0, i1.trans i0, p1.trans p0, t1.trans t0⟩

/-- the six tables the frame looks at are literally the same -/
theorem SFrame.of_eq {s s' : State} (h1 : s'.tasks = s.tasks) (h2 : s'.workers = s.workers)
    (h3 : s'.scqs = s.scqs) (h4 : s'.pqs = s.pqs) (h5 : s'.now = s.now) (h6 : s'.ops = s.ops) : SFrame s s' := by
  refine ⟨h1, h2, h3, h4, h5, ?_⟩
  intro o op' h
  refine ⟨op', ?_, rfl, rfl, rfl⟩
  unfold State.op? at h ⊢
  rw [← h6]; exact h

/-- replacing an existing operation by one with the same invocation, priority and task -/
theorem setOp_sframe (s : State) (op0 op : Op) (h : s.op? op.name = some op0) (hi : op.inv = op0.inv)
    (hp : op.prio = op0.prio) (ht : op.task = op0.task) : SFrame s (s.setOp op) := by
  refine ⟨rfl, rfl, rfl, rfl, rfl, ?_⟩
  intro o op' h'
  unfold State.op? State.setOp at *
  simp only [] at h'
  rw [BbRe.Lemmas.SchedInv.alookup_aset] at h'
  split at h'
  · rename_i hk
    cases h'
    exact ⟨op0, hk ▸ h, hi, hp, ht⟩
  · exact ⟨op', h', rfl, rfl, rfl⟩

/-- … in the form the model uses it: the operation was looked up under `o` and is written back under its name -/
theorem setOp_sframe_at {s : State} (hid : ∀ k op, s.op? k = some op → op.name = k) {o : Nat} {op0 : Op}
    (h : s.op? o = some op0) (op : Op) (hn : op.name = op0.name) (hi : op.inv = op0.inv)
    (hp : op.prio = op0.prio) (ht : op.task = op0.task) : SFrame s (s.setOp op) := by
  refine setOp_sframe s op0 op ?_ hi hp ht
  rw [hn, hid _ _ h]; exact h

/-- … after a step that left the operation table alone -/
theorem setOp_sframe_via {s s1 : State} (hf : SFrame s s1) (hops : s1.ops = s.ops)
    (hid : ∀ k op, s.op? k = some op → op.name = k) {o : Nat} {op0 : Op}
    (h : s.op? o = some op0) (op : Op) (hn : op.name = op0.name) (hi : op.inv = op0.inv)
    (hp : op.prio = op0.prio) (ht : op.task = op0.task) : SFrame s (s1.setOp op) := by
  have e : ∀ k, s1.op? k = s.op? k := fun k => by unfold State.op?; rw [hops]
  refine SFrame.trans hf (setOp_sframe_at (s := s1) ?_ (o := o) (op0 := op0) ?_ op hn hi hp ht)
  · intro k op1 h1; exact hid k op1 ((e k) ▸ h1)
  · rw [e]; exact h

/-- `setOp` of an operation stored under its own name keeps "every operation is stored under its name" -/
theorem setOp_oid (s : State) (op : Op) (hid : ∀ k op, s.op? k = some op → op.name = k) :
    ∀ k op', (s.setOp op).op? k = some op' → op'.name = k := by
  intro k op' h'
  unfold State.op? State.setOp at *
  simp only [] at h'
  rw [BbRe.Lemmas.SchedInv.alookup_aset] at h'
  split at h'
  · rename_i hk; cases h'; exact hk
  · exact hid _ _ h'

theorem emit_sframe (s : State) (e : Event) : SFrame s (emit s e) := SFrame.of_eq rfl rfl rfl rfl rfl rfl

theorem addCleanup_sframe (s : State) (d : Nat) (k : CleanupKind) : SFrame s (s.addCleanup d k) :=
  SFrame.of_eq rfl rfl rfl rfl rfl rfl

theorem removeCleanup_sframe (s : State) (k : CleanupKind) : SFrame s (s.removeCleanup k) :=
  SFrame.of_eq rfl rfl rfl rfl rfl rfl

theorem setCleanup_sframe (s : State) (cs : List CleanupEntry) : SFrame s { s with cleanup := cs } :=
  SFrame.of_eq rfl rfl rfl rfl rfl rfl

theorem addTerm_sframe (s : State) (tc : TermCall) : SFrame s { s with terms := tc :: s.terms } :=
  SFrame.of_eq rfl rfl rfl rfl rfl rfl

theorem setStreams_sframe (s : State) (l : List Stream) : SFrame s { s with streams := l } :=
  SFrame.of_eq rfl rfl rfl rfl rfl rfl

theorem setTerms_sframe (s : State) (l : List TermCall) : SFrame s { s with terms := l } :=
  SFrame.of_eq rfl rfl rfl rfl rfl rfl

theorem maybeStartCleanup_sframe (s : State) (o : Nat) : SFrame s (maybeStartCleanup s o) := by
  unfold maybeStartCleanup; split
  · split
    · exact addCleanup_sframe _ _ _
    · exact SFrame.refl _
  · exact SFrame.refl _

theorem maybeStartCleanup_ops (s : State) (o : Nat) : (maybeStartCleanup s o).ops = s.ops := by
  unfold maybeStartCleanup; split
  · split <;> rfl
  · rfl

/-- erasing an operation from `operationsNameMap` (first statement of `operation.remove`).  The keys of the
operation table have to be distinct (`OInv.ond`): `aerase` removes the first entry only, a later duplicate
of the key would surface. -/
theorem eraseOp_sframe (s : State) (o : Nat) (hnd : (BbRe.Lemmas.SchedInv.keys s.ops).Nodup) :
    SFrame s { s with ops := aerase o s.ops } := by
  refine ⟨rfl, rfl, rfl, rfl, rfl, ?_⟩
  intro o' op' h'
  unfold State.op? at *
  simp only [] at h'
  rw [BbRe.Lemmas.SchedInv.alookup_aerase _ _ _ hnd] at h'
  split at h'
  · cases h'
  · exact ⟨op', h', rfl, rfl, rfl⟩

/-- one round of the loop of `finishOps` -/
def finishOp (s : State) (o : Nat) : State :=
  match s.op? o with
  | some op => if op.mayExistWithoutWaiters
      then maybeStartCleanup (s.setOp { op with mayExistWithoutWaiters := false }) o else s
  | none => s

theorem finishOps_cons (s : State) (o : Nat) (l : List Nat) :
    complete.finishOps s (o :: l) = complete.finishOps (finishOp s o) l := rfl

theorem finishOp_sframe (s : State) (o : Nat) (hid : ∀ k op, s.op? k = some op → op.name = k) :
    SFrame s (finishOp s o) ∧ ∀ k op, (finishOp s o).op? k = some op → op.name = k := by
  unfold finishOp
  split
  · rename_i op hop
    split
    · have hn := hid _ _ hop
      constructor
      · refine SFrame.trans ?_ (maybeStartCleanup_sframe _ _)
        exact setOp_sframe_at hid hop _ rfl rfl rfl rfl
      · intro k op' h'
        unfold State.op? at h'
        rw [maybeStartCleanup_ops] at h'
        exact setOp_oid s _ hid k op' h'
    · exact ⟨SFrame.refl _, hid⟩
  · exact ⟨SFrame.refl _, hid⟩

/-- needs that every operation is stored under its own name (`OInv.oid`): `finishOps` writes the updated
operation back under `op.name`, having found it under `o` -/
theorem finishOps_sframe_oid (ops : List Nat) : ∀ (s : State), (∀ k op, s.op? k = some op → op.name = k) →
    SFrame s (complete.finishOps s ops) ∧ ∀ k op, (complete.finishOps s ops).op? k = some op → op.name = k := by
  induction ops with
  | nil => intro s hid; exact ⟨SFrame.refl _, hid⟩
  | cons o l ih =>
    intro s hid
    rw [finishOps_cons]
    obtain ⟨h1, hid1⟩ := finishOp_sframe s o hid
    obtain ⟨h2, hid2⟩ := ih _ hid1
    exact ⟨SFrame.trans h1 h2, hid2⟩

theorem finishOps_sframe (ops : List Nat) (s : State) (hid : ∀ k op, s.op? k = some op → op.name = k) :
    SFrame s (complete.finishOps s ops) := (finishOps_sframe_oid ops s hid).1

theorem streamSend_sframe {s s' : State} {c o : Nat} (hid : ∀ k op, s.op? k = some op → op.name = k)
    (h : streamSend s c o = .ok s') : SFrame s s' := by
  unfold streamSend at h
  tpaths h
  · cases h
    have hop := ‹s.op? o = some _›
    refine SFrame.trans ?_ (maybeStartCleanup_sframe _ _)
    refine setOp_sframe_via ?_ ?_ hid hop _ ?_ ?_ ?_ ?_
    · exact SFrame.of_eq rfl rfl rfl rfl rfl rfl
    all_goals rfl
  · cases h
    exact SFrame.of_eq rfl rfl rfl rfl rfl rfl

theorem streamAttach_sframe {s s' : State} {c o : Nat} (hid : ∀ k op, s.op? k = some op → op.name = k)
    (h : streamAttach s c o = .ok s') : SFrame s s' := by
  unfold streamAttach at h
  tpaths h
  have hop := ‹s.op? o = some _›
  refine SFrame.trans ?_ (streamSend_sframe ?_ h)
  · refine setOp_sframe_via ?_ ?_ hid hop _ ?_ ?_ ?_ ?_
    · exact removeCleanup_sframe s (.op o)
    all_goals rfl
  · exact setOp_oid (s.removeCleanup (.op o)) _ hid

theorem streamLeave_sframe {s s' : State} {c code : Nat} (hid : ∀ k op, s.op? k = some op → op.name = k)
    (h : streamLeave s c code = .ok s') : SFrame s s' := by
  unfold streamLeave at h
  tpaths h
  cases h
  have hop := ‹s.op? _ = some _›
  refine SFrame.trans ?_ (emit_sframe _ _)
  refine SFrame.trans ?_ (maybeStartCleanup_sframe _ _)
  refine setOp_sframe_via ?_ ?_ hid hop _ ?_ ?_ ?_ ?_
  · exact setStreams_sframe s _
  all_goals rfl

theorem execResponse_sframe {s s' : State} {w : Worker} (h : execResponse s w = .ok s') : SFrame s s' := by
  unfold execResponse at h
  tpaths h
  cases h; exact emit_sframe _ _

theorem termWake_sframe {s s' : State} {id reason : Nat} (h : termWake s id reason = .ok s') : SFrame s s' := by
  unfold termWake at h
  tpaths h
  all_goals (cases h; exact SFrame.of_eq rfl rfl rfl rfl rfl rfl)

/-- the bags only depend on the task table (and the tree layer's own tables) -/
theorem bags_setS_of_tasks (ts : TState) (s' : State) (h : s'.tasks = ts.s.tasks) :
    bagE (ts.setS s') = bagE ts ∧ bagQ (ts.setS s') = bagQ ts ∧ bagI (ts.setS s') = bagI ts ∧ bagP (ts.setS s') = bagP ts := by
  refine ⟨?_, ?_, rfl, rfl⟩
  · show s'.tasks.flatMap _ = ts.s.tasks.flatMap _
    rw [h]; rfl
  · show s'.tasks.flatMap _ = ts.s.tasks.flatMap _
    rw [h]; rfl

/-- the coupling survives a frame step -/
theorem Side.of_sframe {ts : TState} (hs : Side ts) {s' : State} (hf : SFrame ts.s s') : Side (ts.setS s') := by
  have hw : ∀ q w, s'.worker? q w = ts.s.worker? q w := by
    intro q w; unfold State.worker?; rw [hf.workers]
  refine ⟨?_, ?_, hs.wxnd, ?_, ?_, ?_, ?_⟩
  · intro sq hsq
    exact hs.roots sq (hf.scqs ▸ hsq)
  · intro n hn
    obtain ⟨sq, h1, h2⟩ := hs.nscq n hn
    exact ⟨sq, hf.scqs.symm ▸ h1, h2⟩
  · intro q w
    show (ts.wx? q w).isSome = (s'.worker? q w).isSome
    rw [hw]; exact hs.wxw q w
  · intro q w wk x h1 h2
    exact hs.wpl q w wk x ((hw q w) ▸ h1) h2
  · intro o op' h
    obtain ⟨op, e, hi, hp, _⟩ := hf.ops o op' h
    show alookup o ts.ox = _
    rw [hs.oxok o op e, hi, hp]
  · intro k t q w h1 h2
    exact hs.wq k t q w (hf.tasks ▸ h1) h2

/-- … and so does the tree clause of the invariant -/
theorem TreeOK.of_sframe {X : List (ScqId × List Nat)} {ts : TState} {s' : State}
    (ht : TreeOK X ts.nodes (bagE ts) (bagI ts) (bagQ ts) (bagP ts)) (hf : SFrame ts.s s') :
    TreeOK X (ts.setS s').nodes (bagE (ts.setS s')) (bagI (ts.setS s')) (bagQ (ts.setS s')) (bagP (ts.setS s')) := by
  obtain ⟨h1, h2, h3, h4⟩ := bags_setS_of_tasks ts s' hf.tasks
  rw [h1, h2, h3, h4]
  exact ht

end BbRe.Lemmas.SchedTree
