/-
Revalidation loop around `LockPile.Lock` (property C14, part b, caller side).

Transcription of `getAndLockIfDirectory`
(`/repo/pkg/filesystem/virtual/in_memory_prepopulated_directory.go` l.229-253) as a
transition system of ONE thread `t` against
  * the global lock table `Table` of `BbRe.Model.LockPile`,
  * the mutable map `entriesMap` of the directory whose lock `P` the caller holds
    (`Entries = Nat → Option Entry`, name ↦ entry),
  * the thread's `LockPile` (the real `Pile` of `BbRe.Model.LockPile`).
All other threads are an arbitrary environment (`EnvStep`).

Go (line)                                              | here
-------------------------------------------------------+--------------------------------------------
`*inMemoryDirectoryEntry` (pointer)                    | `Entry.id`; `==` on pointers = equality of `id`
`entry.child.GetPair()` / `&directory.lock` l.236,241  | `Entry.dirLock` (`some l` iff directory with lock `l`);
                                                       |   `entry.child` is written once (l.125) ⇒ it is a
                                                       |   function of the pointer: `Cfg.kind`, `EntryOk`
`for {` l.230 / `entry, ok := c.entriesMap[name]` l.231| `PC.fetch`
`if !ok { return nil, false }` l.232-235               | `TStep.fetchNone`  → `PC.done none`
`if directory == nil { return entry, true }` l.237-240 | `TStep.fetchLeaf`  → `PC.done (some e)`
(otherwise fall through to l.241)                      | `TStep.fetchDir`   → `PC.lockChild e`
`if lockPile.Lock(childDirectoryLock)` l.242           | `PC.lockChild e`: ONE abstract step `LockSpec`
   `… { return entry, true }` l.242-246                | `TStep.lockTrue`   → `PC.done (some e)`, map unchanged
   (returned `false`)                                  | `TStep.lockFalse`  → `PC.recheck e`, map ARBITRARY
`if c.entriesMap[name] == entry {return entry, true}`  | `PC.recheck e`: `TStep.recheckSame` → `PC.done (some e)`
   l.247-250                                           |                 `TStep.recheckDiff` → `PC.unlockChild e`
`lockPile.Unlock(childDirectoryLock)` l.251, loop      | `PC.unlockChild e`: the real `LockPile.unlock`, → `PC.fetch`

`LockPile.Lock` is not re-modelled: `LockSpec` is the part of `pile_post` that the caller
uses (`lockSpec_of_lock` derives it from the small-step machine of `BbRe.Model.LockPile`).
Return value `true` ⇔ nothing was released (`pile_post`: `completed = true ↔ releases = 0`),
so `t` held `P` throughout and nobody else could write `entriesMap` ⇒ `lockTrue` keeps `E`.
Return value `false` ⇒ `t` may have held nothing while blocked (`pile_no_hold_and_wait`), so
`lockFalse` lets the environment replace the whole map.
Between two steps of `t` the environment may change the table except `t`'s holdings
(`BbRe.LockPile.EnvStep`), and may change `entriesMap` ONLY IF `t` does not hold `P`.

Hypotheses (stated in `Start` / `EntriesOk`, nowhere else):
  * `P` is in the initial pile `p0` and held by `t`;
  * the child lock is not already in the pile (no recursive acquisition): every
    directory entry ever installed under the parent has a lock outside `locks p0`;
  * the `child` field of an entry is immutable (`e.dirLock = kind e.id`).
`revalidate_lock_pre` additionally assumes the `LockPile` well-formedness (distinct locks,
all pile locks held, nothing held outside the pile) and shows that every call of `Lock`
made by the loop satisfies the precondition `WfStart` of `pile_post`.

`Lock` and `Unlock` permute the slice (swap with element 0, swap-remove), so "the pile is
the initial pile (plus the child handle)" is stated up to `List.Perm`.
Core Lean only.
-/
import BbRe.Model.LockPile
import BbRe.Lemmas.LockSkelPile
namespace BbRe.Lemmas.Revalidate
open BbRe.LockPile (Table Pile Handle MState locks unlock WfStart lockInit lockRun)
open BbRe.Lemmas.LockPile (pile_post pile_unlock locks_insert mem_locks_of_mem reach_lockRun)

/-! ## 1. Model -/

/-- `*inMemoryDirectoryEntry`: `id` = the pointer, `dirLock = some l` iff the child is a
directory whose lock is `l`. -/
structure Entry where
  id : Nat
  dirLock : Option Nat
  deriving DecidableEq, Repr

/-- `entriesMap` of the parent directory. -/
abbrev Entries := Nat → Option Entry

/-- Parameters: thread, parent lock, looked-up name, initial pile, and the (immutable)
`child` field as a function of the entry pointer. -/
structure Cfg where
  t : Nat
  P : Nat
  name : Nat
  p0 : Pile
  kind : Nat → Option Nat

/-- Admissible entry: its `child` field is the one fixed at creation, and a directory
child has a lock that is not already in the caller's pile. -/
def EntryOk (c : Cfg) (e : Entry) : Prop :=
  e.dirLock = c.kind e.id ∧ ∀ l, e.dirLock = some l → l ∉ locks c.p0

def EntriesOk (c : Cfg) (E : Entries) : Prop := ∀ n e, E n = some e → EntryOk c e

inductive PC where
  | fetch
  | lockChild (e : Entry)
  | recheck (e : Entry)
  | unlockChild (e : Entry)
  | done (result : Option Entry)
  deriving DecidableEq, Repr

structure State where
  pc : PC
  pile : Pile
  T : Table
  E : Entries

/-- What the caller may assume about `lp.Lock(l)` started with pile `p`, table `T` and
finished with pile `p'`, table `T'` (conjuncts 1, 3, 6 of `pile_post`). -/
structure LockSpec (t : Nat) (p : Pile) (T : Table) (l : Nat) (p' : Pile) (T' : Table) : Prop where
  holds : ∀ h ∈ p', T' h.lock = some t
  perm : p'.Perm (BbRe.LockPile.insert p l)
  frame : ∀ x, x ∉ locks p' → (T' x = some t ↔ T x = some t)

/-- Justification of the abstract step: any completed run of the small-step `Lock` machine
from a well-formed start satisfies `LockSpec`; its return value is `completed`, which is
`true` iff no lock was released on the way. -/
theorem lockSpec_of_lock {t : Nat} {p : Pile} {l : Nat} {T : Table} (hwf : WfStart t p [l] T)
    {m : MState} {T' : Table} (hr : BbRe.LockPile.Reach t (lockInit p [l]) T m T')
    (hpc : m.pc = .done) :
    LockSpec t p T l m.pile T' ∧ BbRe.LockPile.result m = some m.completed ∧
      (m.completed = true ↔ m.releases = 0) := by
  obtain ⟨h1, _, h3, _, _, h6, h7, h8⟩ := pile_post hwf hr hpc
  exact ⟨⟨h1, h3, h6⟩, h7, h8⟩

/-- One step of thread `t` (see the table in the header). -/
inductive TStep (c : Cfg) : State → State → Prop where
  | fetchNone {p T E} : E c.name = none →
      TStep c ⟨.fetch, p, T, E⟩ ⟨.done none, p, T, E⟩
  | fetchLeaf {p T E e} : E c.name = some e → e.dirLock = none →
      TStep c ⟨.fetch, p, T, E⟩ ⟨.done (some e), p, T, E⟩
  | fetchDir {p T E e l} : E c.name = some e → e.dirLock = some l →
      TStep c ⟨.fetch, p, T, E⟩ ⟨.lockChild e, p, T, E⟩
  | lockTrue {p T E e l p' T'} : e.dirLock = some l → LockSpec c.t p T l p' T' →
      TStep c ⟨.lockChild e, p, T, E⟩ ⟨.done (some e), p', T', E⟩
  | lockFalse {p T E e l p' T' E'} : e.dirLock = some l → LockSpec c.t p T l p' T' →
      EntriesOk c E' →
      TStep c ⟨.lockChild e, p, T, E⟩ ⟨.recheck e, p', T', E'⟩
  | recheckSame {p T E e e'} : E c.name = some e' → e'.id = e.id →
      TStep c ⟨.recheck e, p, T, E⟩ ⟨.done (some e), p, T, E⟩
  | recheckDiff {p T E e} : (∀ e', E c.name = some e' → e'.id ≠ e.id) →
      TStep c ⟨.recheck e, p, T, E⟩ ⟨.unlockChild e, p, T, E⟩
  | unlockChild {p T E e l p' T'} : e.dirLock = some l → unlock p T l = some (p', T') →
      TStep c ⟨.unlockChild e, p, T, E⟩ ⟨.fetch, p', T', E⟩

/-- A step of the environment: the table changes arbitrarily except `t`'s holdings; the
map may change only if `t` does not hold the parent lock. -/
structure EnvStep (c : Cfg) (s s' : State) : Prop where
  pc : s'.pc = s.pc
  pile : s'.pile = s.pile
  table : BbRe.LockPile.EnvStep c.t s.T s'.T
  entries : s.T c.P = some c.t → s'.E = s.E
  ok : EntriesOk c s'.E

/-- States reachable by steps of `t` interleaved with environment steps (any number of
retries, any environment). -/
inductive Reach (c : Cfg) (s0 : State) : State → Prop where
  | init : Reach c s0 s0
  | env {s s'} : Reach c s0 s → EnvStep c s s' → Reach c s0 s'
  | step {s s'} : Reach c s0 s → TStep c s s' → Reach c s0 s'

/-- Start of `getAndLockIfDirectory`: at `fetch`, the parent lock is in the pile and held. -/
structure Start (c : Cfg) (s0 : State) : Prop where
  pc : s0.pc = .fetch
  pile : s0.pile = c.p0
  parentInPile : c.P ∈ locks c.p0
  holdsParent : s0.T c.P = some c.t
  ok : EntriesOk c s0.E

/-! ## 2. Invariant -/

/-- The pile the function returns with, given the returned entry: the initial pile, plus
the handle of the child lock if the child is a directory. -/
def childPile (c : Cfg) (e : Entry) : Pile :=
  match e.dirLock with
  | none => c.p0
  | some l => ⟨l, 0⟩ :: c.p0

theorem childPile_leaf {c : Cfg} {e : Entry} (h : e.dirLock = none) : childPile c e = c.p0 := by
  unfold childPile; rw [h]

theorem childPile_dir {c : Cfg} {e : Entry} {l : Nat} (h : e.dirLock = some l) :
    childPile c e = ⟨l, 0⟩ :: c.p0 := by
  unfold childPile; rw [h]

def childHeld (c : Cfg) (e : Entry) (T : Table) : Prop := ∀ l, e.dirLock = some l → T l = some c.t

def pcInv (c : Cfg) : PC → Pile → Table → Entries → Prop
  | .fetch, p, _, _ => p.Perm c.p0
  | .lockChild e, p, _, E => p.Perm c.p0 ∧ E c.name = some e ∧ ∃ l, e.dirLock = some l
  | .recheck e, p, T, _ =>
      EntryOk c e ∧ (∃ l, e.dirLock = some l) ∧ p.Perm (childPile c e) ∧ childHeld c e T
  | .unlockChild e, p, T, _ =>
      EntryOk c e ∧ (∃ l, e.dirLock = some l) ∧ p.Perm (childPile c e) ∧ childHeld c e T
  | .done none, p, _, E => p.Perm c.p0 ∧ E c.name = none
  | .done (some e), p, T, E => E c.name = some e ∧ p.Perm (childPile c e) ∧ childHeld c e T

structure Inv (c : Cfg) (s : State) : Prop where
  ok : EntriesOk c s.E
  holdsP : s.T c.P = some c.t
  pcinv : pcInv c s.pc s.pile s.T s.E

theorem Entry.eq_of {a b : Entry} (h1 : a.id = b.id) (h2 : a.dirLock = b.dirLock) : a = b := by
  cases a; cases b
  simp only [Entry.mk.injEq]
  exact ⟨h1, h2⟩

theorem locks_perm {p q : Pile} (h : p.Perm q) (x : Nat) : x ∈ locks p ↔ x ∈ locks q :=
  (h.map (·.lock)).mem_iff

theorem insert_fresh {p : Pile} {l : Nat} (h : l ∉ locks p) :
    BbRe.LockPile.insert p l = p ++ [⟨l, 0⟩] := by
  induction p with
  | nil => rfl
  | cons a tl ih =>
    have h' : ¬ (l = a.lock ∨ l ∈ locks tl) := by
      simpa [locks] using h
    unfold BbRe.LockPile.insert
    split
    · next heq => exact absurd (Or.inl heq.symm) h'
    · rw [ih (fun hm => h' (Or.inr hm))]; rfl

/-- Effect of the abstract `Lock` step on the caller's invariant. -/
theorem lock_post {c : Cfg} {e : Entry} {l : Nat} {p p' : Pile} {T T' : Table}
    (hP : c.P ∈ locks c.p0) (hperm : p.Perm c.p0) (hl : e.dirLock = some l)
    (hfresh : l ∉ locks c.p0) (hspec : LockSpec c.t p T l p' T') :
    p'.Perm (childPile c e) ∧ childHeld c e T' ∧ T' c.P = some c.t := by
  have hlp : l ∉ locks p := fun h => hfresh ((locks_perm hperm l).1 h)
  have h1 : p'.Perm (⟨l, 0⟩ :: c.p0) := by
    have h := hspec.perm
    rw [insert_fresh hlp] at h
    exact h.trans ((List.perm_append_singleton _ _).trans (hperm.cons _))
  refine ⟨by rw [childPile_dir hl]; exact h1, ?_, ?_⟩
  · intro l' hl'
    rw [hl] at hl'
    obtain rfl : l = l' := Option.some.inj hl'
    exact hspec.holds ⟨l, 0⟩ (h1.mem_iff.2 List.mem_cons_self)
  · obtain ⟨h, hh, hhP⟩ := List.mem_map.1 hP
    rw [← hhP]
    exact hspec.holds h (h1.mem_iff.2 (List.mem_cons_of_mem _ hh))

/-- Effect of `lockPile.Unlock(childDirectoryLock)` when the child handle is not recursive. -/
theorem unlock_post {c : Cfg} {l : Nat} {p p' : Pile} {T T' : Table}
    (hfresh : l ∉ locks c.p0) (hperm : p.Perm (⟨l, 0⟩ :: c.p0))
    (hu : unlock p T l = some (p', T')) :
    p'.Perm c.p0 ∧ T' l = none ∧ ∀ x, x ≠ l → T' x = T x := by
  have hl : l ∈ locks p := (locks_perm hperm l).2 (by simp [locks])
  obtain ⟨i, h, p'', T'', hi, hh, hu', _, h0⟩ := pile_unlock (T := T) hl
  rw [hu] at hu'
  cases hu'
  have hmem : h ∈ ⟨l, 0⟩ :: c.p0 := hperm.mem_iff.1 (List.mem_of_getElem? hi)
  rcases List.mem_cons.1 hmem with heq | hin
  · subst heq
    obtain ⟨a, b, d, _, _⟩ := h0 rfl
    exact ⟨(d.symm.trans hperm).cons_inv, a, b⟩
  · exact absurd (hh ▸ mem_locks_of_mem hin) hfresh

theorem pcInv_table {c : Cfg} {T T' : Table} (h : BbRe.LockPile.EnvStep c.t T T')
    (pc : PC) (p : Pile) (E : Entries) : pcInv c pc p T E → pcInv c pc p T' E := by
  cases pc with
  | fetch => exact fun x => x
  | lockChild e => exact fun x => x
  | recheck e => exact fun ⟨a, b, d, f⟩ => ⟨a, b, d, fun l hl => (h l).1 (f l hl)⟩
  | unlockChild e => exact fun ⟨a, b, d, f⟩ => ⟨a, b, d, fun l hl => (h l).1 (f l hl)⟩
  | done r =>
    cases r with
    | none => exact fun x => x
    | some e => exact fun ⟨a, b, f⟩ => ⟨a, b, fun l hl => (h l).1 (f l hl)⟩

theorem inv_init {c : Cfg} {s0 : State} (h0 : Start c s0) : Inv c s0 := by
  refine ⟨h0.ok, h0.holdsParent, ?_⟩
  rw [h0.pc, h0.pile]
  exact List.Perm.refl _

theorem inv_env {c : Cfg} {s s' : State} (hi : Inv c s) (he : EnvStep c s s') : Inv c s' := by
  obtain ⟨_, hT, hpc⟩ := hi
  refine ⟨he.ok, (he.table c.P).1 hT, ?_⟩
  rw [he.pc, he.pile, he.entries hT]
  exact pcInv_table he.table _ _ _ hpc

theorem inv_step {c : Cfg} (hP : c.P ∈ locks c.p0) {s s' : State} (hi : Inv c s)
    (hs : TStep c s s') : Inv c s' := by
  obtain ⟨hok, hT, hpc⟩ := hi
  cases hs with
  | fetchNone hE => exact ⟨hok, hT, hpc, hE⟩
  | fetchLeaf hE hl =>
    refine ⟨hok, hT, hE, ?_, ?_⟩
    · rw [childPile_leaf hl]; exact hpc
    · intro l h; rw [hl] at h; cases h
  | fetchDir hE hl => exact ⟨hok, hT, hpc, hE, _, hl⟩
  | lockTrue hl hspec =>
    obtain ⟨hperm, hE, _⟩ := hpc
    obtain ⟨h1, h2, h3⟩ := lock_post hP hperm hl ((hok _ _ hE).2 _ hl) hspec
    exact ⟨hok, h3, hE, h1, h2⟩
  | lockFalse hl hspec hok' =>
    obtain ⟨hperm, hE, _⟩ := hpc
    obtain ⟨h1, h2, h3⟩ := lock_post hP hperm hl ((hok _ _ hE).2 _ hl) hspec
    exact ⟨hok', h3, hok _ _ hE, ⟨_, hl⟩, h1, h2⟩
  | recheckSame hE hid =>
    obtain ⟨heok, _, hperm, hheld⟩ := hpc
    have he : _ = _ := Entry.eq_of hid (by rw [(hok _ _ hE).1, heok.1, hid])
    subst he
    exact ⟨hok, hT, hE, hperm, hheld⟩
  | recheckDiff _ => exact ⟨hok, hT, hpc⟩
  | @unlockChild p T E e l p' T' hl hu =>
    obtain ⟨heok, _, hperm, _⟩ := hpc
    rw [childPile_dir hl] at hperm
    have hfresh := heok.2 _ hl
    obtain ⟨hp, _, hfr⟩ := unlock_post hfresh hperm hu
    refine ⟨hok, ?_, hp⟩
    have hne : c.P ≠ l := fun h => hfresh (h ▸ hP)
    exact (hfr c.P hne).trans hT

theorem inv_reachable {c : Cfg} {s0 s : State} (h0 : Start c s0) (hr : Reach c s0 s) :
    Inv c s := by
  induction hr with
  | init => exact inv_init h0
  | env _ he ih => exact inv_env ih he
  | step _ hs ih => exact inv_step h0.parentInPile ih hs

/-! ## 3. Theorems -/

/-- Soundness of the revalidation loop: whatever the number of retries and whatever the
environment did, when the function returns an entry it IS (in that very state) the child
stored under `name`, the parent lock is held, and the lock of a directory child is held
and recorded in the pile; when it returns "no child", there is none and the parent lock
is held. -/
theorem revalidate_sound {c : Cfg} {s0 s : State} (h0 : Start c s0) (hr : Reach c s0 s) :
    (∀ e, s.pc = .done (some e) →
        s.E c.name = some e ∧ s.T c.P = some c.t ∧
        ∀ l, e.dirLock = some l → s.T l = some c.t ∧ l ∈ locks s.pile) ∧
    (s.pc = .done none → s.E c.name = none ∧ s.T c.P = some c.t) := by
  obtain ⟨_, hT, hpc⟩ := inv_reachable h0 hr
  constructor
  · intro e he
    rw [he] at hpc
    obtain ⟨hE, hperm, hheld⟩ := hpc
    refine ⟨hE, hT, fun l hl => ⟨hheld l hl, ?_⟩⟩
    rw [childPile_dir hl] at hperm
    exact (locks_perm hperm l).2 (by simp [locks])
  · intro he
    rw [he] at hpc
    exact ⟨hpc.2, hT⟩

/-- The parent lock is held in EVERY reachable state of the abstract machine (in
particular whenever it is the thread's turn at `fetch`, `recheck` or `done`); the only
moment at which it may be dropped is inside the abstract `lockChild` step that returns
`false`. -/
theorem revalidate_holds_parent {c : Cfg} {s0 s : State} (h0 : Start c s0)
    (hr : Reach c s0 s) : s.T c.P = some c.t :=
  (inv_reachable h0 hr).holdsP

/-- Consequently no environment step taken from a reachable state changes the map: the
value read at `fetch` / `recheck` is still the current one when the function returns. -/
theorem revalidate_map_stable {c : Cfg} {s0 s s' : State} (h0 : Start c s0)
    (hr : Reach c s0 s) (he : EnvStep c s s') : s'.E = s.E :=
  he.entries (revalidate_holds_parent h0 hr)

/-- Nothing is leaked by retries: at the head of every iteration (so in particular after
`unlockChild`) and at the call of `Lock` the pile is the initial one; at `done` it is
`childPile`, i.e. the initial pile plus the child handle iff a directory is returned. -/
theorem revalidate_pile {c : Cfg} {s0 s : State} (h0 : Start c s0) (hr : Reach c s0 s) :
    (s.pc = .fetch → s.pile.Perm c.p0) ∧
    (∀ e, s.pc = .lockChild e → s.pile.Perm c.p0) ∧
    (s.pc = .done none → s.pile.Perm c.p0) ∧
    (∀ e, s.pc = .done (some e) → e.dirLock = none → s.pile.Perm c.p0) ∧
    (∀ e l, s.pc = .done (some e) → e.dirLock = some l → s.pile.Perm (⟨l, 0⟩ :: c.p0)) := by
  obtain ⟨_, _, hpc⟩ := inv_reachable h0 hr
  refine ⟨?_, ?_, ?_, ?_, ?_⟩
  · intro he; rw [he] at hpc; exact hpc
  · intro e he; rw [he] at hpc; exact hpc.1
  · intro he; rw [he] at hpc; exact hpc.1
  · intro e he hl; rw [he] at hpc; rw [← childPile_leaf hl]; exact hpc.2.1
  · intro e l he hl; rw [he] at hpc; rw [← childPile_dir hl]; exact hpc.2.1

/-- When the loop retries (`unlockChild`), the lock of the stale entry is in the pile, so
`lockPile.Unlock(childDirectoryLock)` is defined (no index panic): the step is enabled. -/
theorem revalidate_unlock_defined {c : Cfg} {s0 s : State} (h0 : Start c s0)
    (hr : Reach c s0 s) {e : Entry} (he : s.pc = .unlockChild e) :
    ∃ l p' T', e.dirLock = some l ∧ unlock s.pile s.T l = some (p', T') := by
  obtain ⟨_, _, hpc⟩ := inv_reachable h0 hr
  rw [he] at hpc
  obtain ⟨_, ⟨l, hl⟩, hperm, _⟩ := hpc
  rw [childPile_dir hl] at hperm
  have hm : l ∈ locks s.pile := (locks_perm hperm l).2 (by simp [locks])
  obtain ⟨_, _, p', T', _, _, hu, _⟩ := pile_unlock (T := s.T) hm
  exact ⟨l, p', T', hl, hu⟩

/-! ### The calls of `Lock` made by the loop meet the precondition of `pile_post` -/

/-- `LockPile` well-formedness of a state: every pile lock is held, nothing else is. -/
structure WfInv (c : Cfg) (s : State) : Prop where
  holdsAll : ∀ h ∈ s.pile, s.T h.lock = some c.t
  only : ∀ x, s.T x = some c.t → x ∈ locks s.pile

theorem wf_env {c : Cfg} {s s' : State} (hw : WfInv c s) (he : EnvStep c s s') : WfInv c s' := by
  constructor
  · intro h hm
    rw [he.pile] at hm
    exact (he.table _).1 (hw.holdsAll h hm)
  · intro x hx
    rw [he.pile]
    exact hw.only x ((he.table x).2 hx)

theorem wf_lock {t l : Nat} {p p' : Pile} {T T' : Table} (hspec : LockSpec t p T l p' T')
    (honly : ∀ x, T x = some t → x ∈ locks p) :
    (∀ h ∈ p', T' h.lock = some t) ∧ ∀ x, T' x = some t → x ∈ locks p' := by
  refine ⟨hspec.holds, ?_⟩
  intro x hx
  by_cases hm : x ∈ locks p'
  · exact hm
  · have hx' := honly x ((hspec.frame x hm).1 hx)
    refine (locks_perm hspec.perm x).2 ?_
    rw [locks_insert]
    split
    · exact hx'
    · exact List.mem_append_left _ hx'

theorem wf_unlock {c : Cfg} {l : Nat} {p p' : Pile} {T T' : Table}
    (hfresh : l ∉ locks c.p0) (hperm : p.Perm (⟨l, 0⟩ :: c.p0))
    (hu : unlock p T l = some (p', T'))
    (hall : ∀ h ∈ p, T h.lock = some c.t) (honly : ∀ x, T x = some c.t → x ∈ locks p) :
    (∀ h ∈ p', T' h.lock = some c.t) ∧ ∀ x, T' x = some c.t → x ∈ locks p' := by
  obtain ⟨hp, hnone, hfr⟩ := unlock_post hfresh hperm hu
  have hperm' : p.Perm (⟨l, 0⟩ :: p') := hperm.trans (hp.symm.cons _)
  constructor
  · intro h hm
    have hne : h.lock ≠ l := fun heq =>
      hfresh (heq ▸ (locks_perm hp h.lock).1 (mem_locks_of_mem hm))
    rw [hfr _ hne]
    exact hall h (hperm'.mem_iff.2 (List.mem_cons_of_mem _ hm))
  · intro x hx
    have hne : x ≠ l := fun heq => by
      rw [heq, hnone] at hx; cases hx
    rw [hfr x hne] at hx
    have hm := (locks_perm hperm' x).1 (honly x hx)
    simp only [locks, List.map_cons, List.mem_cons] at hm
    rcases hm with h | h
    · exact absurd h hne
    · exact h

theorem wf_step {c : Cfg} {s s' : State} (hi : Inv c s) (hw : WfInv c s)
    (hs : TStep c s s') : WfInv c s' := by
  obtain ⟨hall, honly⟩ := hw
  obtain ⟨_, _, hpc⟩ := hi
  cases hs with
  | fetchNone _ => exact ⟨hall, honly⟩
  | fetchLeaf _ _ => exact ⟨hall, honly⟩
  | fetchDir _ _ => exact ⟨hall, honly⟩
  | lockTrue _ hspec => exact ⟨(wf_lock hspec honly).1, (wf_lock hspec honly).2⟩
  | lockFalse _ hspec _ => exact ⟨(wf_lock hspec honly).1, (wf_lock hspec honly).2⟩
  | recheckSame _ _ => exact ⟨hall, honly⟩
  | recheckDiff _ => exact ⟨hall, honly⟩
  | unlockChild hl hu =>
    obtain ⟨heok, _, hperm, _⟩ := hpc
    rw [childPile_dir hl] at hperm
    have h := wf_unlock (heok.2 _ hl) hperm hu hall honly
    exact ⟨h.1, h.2⟩

/-- If moreover the start is a well-formed `LockPile` state (distinct locks, all pile
locks held, nothing held outside the pile), this stays true in every reachable state, and
every call `lockPile.Lock(childDirectoryLock)` made by the loop satisfies the precondition
`WfStart` of `pile_post` / `pile_no_hold_and_wait` — so `lockSpec_of_lock` applies to it. -/
theorem revalidate_lock_pre {c : Cfg} {s0 s : State} (h0 : Start c s0)
    (hn : (locks c.p0).Nodup)
    (hall : ∀ h ∈ c.p0, s0.T h.lock = some c.t)
    (honly : ∀ x, s0.T x = some c.t → x ∈ locks c.p0)
    (hr : Reach c s0 s) :
    (∀ h ∈ s.pile, s.T h.lock = some c.t) ∧
    (∀ x, s.T x = some c.t → x ∈ locks s.pile) ∧
    (∀ e l, s.pc = .lockChild e → e.dirLock = some l → WfStart c.t s.pile [l] s.T) := by
  have hw : WfInv c s := by
    induction hr with
    | init => exact ⟨by rw [h0.pile]; exact hall, by rw [h0.pile]; exact honly⟩
    | env hr' he ih => exact wf_env ih he
    | step hr' hs ih => exact wf_step (inv_reachable h0 hr') ih hs
  refine ⟨hw.holdsAll, hw.only, ?_⟩
  intro e l he _
  have hperm := (revalidate_pile h0 hr).2.1 e he
  exact ⟨(List.Perm.nodup_iff (show (locks s.pile).Perm (locks c.p0) from hperm.map _)).2 hn,
    hw.holdsAll,
    fun l' _ hnot hheld => hnot (hw.only l' hheld)⟩

/-! ## 4. Non-vacuity: a concrete run with one retry

Thread 0 holds the pile `[10]` (`P = 10`) and looks up name 7, which maps to entry #1, a
directory with lock 20 currently held by thread 1.
Iteration 1: `Lock(20)`: `TryLock` fails, 10 is released, 20 is awaited and obtained, 10 is
re-acquired, `Lock` returns `false` (run of the real small-step machine, `L1`).
Meanwhile the environment replaced the child by entry #2 (directory, lock 30).  The
recheck fails, `Unlock(20)` (`U1`).
Iteration 2: entry #2 is fetched, `Lock(30)` returns `true` (`L2`), the function returns. -/

namespace Ex

def e1 : Entry := ⟨1, some 20⟩
def e2 : Entry := ⟨2, some 30⟩

def cfg : Cfg where
  t := 0
  P := 10
  name := 7
  p0 := [⟨10, 0⟩]
  kind := fun i => if i = 1 then some 20 else if i = 2 then some 30 else none

def E0 : Entries := fun n => if n = 7 then some e1 else none
def E1 : Entries := fun n => if n = 7 then some e2 else none
def T0 : Table := (Table.free.set 10 (some 0)).set 20 (some 1)

/-- First call `Lock(20)`, run to completion on the real machine. -/
def L1 : MState × Table := lockRun 0 20 [] cfg.p0 [20] T0
/-- `Unlock(20)`. -/
def U1 : Pile × Table := (unlock L1.1.pile L1.2 20).getD ([], Table.free)
/-- Second call `Lock(30)`. -/
def L2 : MState × Table := lockRun 0 20 [] U1.1 [30] U1.2

def s0 : State := ⟨.fetch, cfg.p0, T0, E0⟩

example : L1.1.pc = .done ∧ BbRe.LockPile.result L1.1 = some false ∧ L1.1.releases = 1
    ∧ L1.1.pile = [⟨20, 0⟩, ⟨10, 0⟩] ∧ L1.2 10 = some 0 ∧ L1.2 20 = some 0 := by decide
example : U1.1 = [⟨10, 0⟩] ∧ U1.2 10 = some 0 ∧ U1.2 20 = none := by decide
example : L2.1.pc = .done ∧ BbRe.LockPile.result L2.1 = some true
    ∧ L2.1.pile = [⟨10, 0⟩, ⟨30, 0⟩] := by decide

theorem ok0 : EntriesOk cfg E0 := by
  intro n e h
  unfold E0 at h
  split at h
  · obtain rfl : e1 = e := Option.some.inj h
    exact ⟨rfl, fun l hl => by obtain rfl : 20 = l := Option.some.inj hl; decide⟩
  · cases h

theorem ok1 : EntriesOk cfg E1 := by
  intro n e h
  unfold E1 at h
  split at h
  · obtain rfl : e2 = e := Option.some.inj h
    exact ⟨rfl, fun l hl => by obtain rfl : 30 = l := Option.some.inj hl; decide⟩
  · cases h

theorem start : Start cfg s0 where
  pc := rfl
  pile := rfl
  parentInPile := by decide
  holdsParent := by decide
  ok := ok0

theorem wf1 : WfStart 0 cfg.p0 [20] T0 where
  nodup := by decide
  holdsOld := by decide
  newFree := by decide

theorem wf2 : WfStart 0 U1.1 [30] U1.2 where
  nodup := by decide
  holdsOld := by decide
  newFree := by decide

theorem spec1 : LockSpec cfg.t cfg.p0 T0 20 L1.1.pile L1.2 :=
  (lockSpec_of_lock wf1 (reach_lockRun 0 20 [] cfg.p0 [20] T0) (by decide)).1

theorem spec2 : LockSpec cfg.t U1.1 U1.2 30 L2.1.pile L2.2 :=
  (lockSpec_of_lock wf2 (reach_lockRun 0 20 [] U1.1 [30] U1.2) (by decide)).1

theorem hu1 : unlock L1.1.pile L1.2 20 = some (U1.1, U1.2) := by
  have hs : (unlock L1.1.pile L1.2 20).isSome = true := by decide
  unfold U1
  cases h : unlock L1.1.pile L1.2 20 with
  | none => rw [h] at hs; cases hs
  | some pr => rfl

theorem r1 : Reach cfg s0 ⟨.lockChild e1, cfg.p0, T0, E0⟩ :=
  .step .init (.fetchDir (l := 20) rfl rfl)
/-- `Lock` returned `false`; the environment installed `E1` while `P` was dropped. -/
theorem r2 : Reach cfg s0 ⟨.recheck e1, L1.1.pile, L1.2, E1⟩ :=
  .step r1 (.lockFalse (l := 20) rfl spec1 ok1)
theorem r3 : Reach cfg s0 ⟨.unlockChild e1, L1.1.pile, L1.2, E1⟩ :=
  .step r2 (.recheckDiff (fun e' h => by
    obtain rfl : e2 = e' := Option.some.inj h
    decide))
/-- The retry. -/
theorem r4 : Reach cfg s0 ⟨.fetch, U1.1, U1.2, E1⟩ :=
  .step r3 (.unlockChild (l := 20) rfl hu1)
theorem r5 : Reach cfg s0 ⟨.lockChild e2, U1.1, U1.2, E1⟩ :=
  .step r4 (.fetchDir (l := 30) rfl rfl)
theorem r6 : Reach cfg s0 ⟨.done (some e2), L2.1.pile, L2.2, E1⟩ :=
  .step r5 (.lockTrue (l := 30) rfl spec2)

-- `revalidate_sound` applied to the run: entry #2 (not the stale #1) is returned, it is
-- the current child, and locks 10 and 30 are held.
example : E1 7 = some e2 ∧ L2.2 10 = some 0 ∧
    ∀ l, e2.dirLock = some l → L2.2 l = some 0 ∧ l ∈ locks L2.1.pile :=
  (revalidate_sound start r6).1 e2 rfl

-- the same facts, computed
example : E1 7 = some e2 ∧ L2.2 10 = some 0 ∧ L2.2 30 = some 0 ∧ L2.2 20 = none
    ∧ locks L2.1.pile = [10, 30] := by decide

-- after the retry the pile is back to the initial one
example : U1.1.Perm cfg.p0 := (revalidate_pile start r4).1 rfl

-- the second call of `Lock` meets its precondition
example : WfStart 0 U1.1 [30] U1.2 :=
  (revalidate_lock_pre start (by decide) (by decide)
    (by
      intro x hx
      unfold s0 T0 Table.set Table.free at hx
      simp only at hx
      split at hx
      · cases hx
      · split at hx
        · next h => subst h; decide
        · cases hx)
    r5).2.2 e2 30 rfl rfl

end Ex

end BbRe.Lemmas.Revalidate
