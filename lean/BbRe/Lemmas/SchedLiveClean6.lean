import BbRe.Lemmas.SchedLiveClean5
/-!
Cleanup accounting through the client-facing segments.
-/
namespace BbRe.Lemmas.SchedLive
open BbRe.Sched

/-- `maybeStartCleanup` re-establishes the "waiters or entry" clause of the exempt operation -/
theorem maybeStartCleanup_cinv {s : State} {o : Nat} (hc : CInv { op := some o } s)
    (hno : ¬ hasK s (.op o)) : CInv noEx (maybeStartCleanup s o) := by
  unfold maybeStartCleanup
  have plain : (∀ op, s.op? o = some op → op.mayExistWithoutWaiters = false → 0 < op.waiters ∨ hasK s (.op o)) →
      CInv noEx s := by
    intro hfg
    refine ⟨hc.uniq, hc.wIn, fun wk hm hi _ => hc.wOut wk hm hi (by simp), hc.eW, hc.eO, hc.eS, hc.opBg, ?_, hc.opT,
      fun q sq e hb _ => hc.scqW q sq e hb (by simp), hc.wScq, (fun _ hq => nomatch hq), (fun _ _ hq => nomatch hq)⟩
    intro k op e hb _
    by_cases hk : k = o
    · subst hk; exact hfg op e hb
    · exact hc.opFg k op e hb (by simp; exact hk)
  split
  · rename_i op hop
    split
    · rename_i hcond
      have hkk : ∀ k, hasK (s.addCleanup (s.now + s.cfg.noWaiterTimeout) (.op o)) k ↔ k = .op o ∨ hasK s k :=
        fun k => hasK_add _ _ _ _
      have hmb : op.mayExistWithoutWaiters = false := by simpa using hcond.2.1
      refine ⟨?_, ?_, ?_, ?_, ?_, ?_, hc.opBg, ?_, hc.opT, ?_, hc.wScq, (fun _ hq => nomatch hq), (fun _ _ hq => nomatch hq)⟩
      · simp only [addCleanup_cleanup, List.map_cons, List.nodup_cons]
        refine ⟨?_, hc.uniq⟩
        intro hmem; obtain ⟨e, he, hk⟩ := List.mem_map.1 hmem; exact hno ⟨e, he, hk⟩
      · intro wk hm hi hh
        rcases (hkk _).1 hh with e | h
        · cases e
        · exact hc.wIn wk hm hi h
      · intro wk hm hi _; exact (hkk _).2 (.inr (hc.wOut wk hm hi (by simp)))
      · intro q w hh
        rcases (hkk _).1 hh with e | h
        · cases e
        · exact hc.eW q w h
      · intro o' hh
        rcases (hkk _).1 hh with e | h
        · injection e with e; subst e; exact ⟨op, hop, hcond.1, hmb⟩
        · exact hc.eO o' h
      · intro q hh
        rcases (hkk _).1 hh with e | h
        · cases e
        · exact hc.eS q h
      · intro k op' e hb _
        by_cases hk : k = o
        · subst hk; exact .inr ((hkk _).2 (.inl rfl))
        · rcases hc.opFg k op' e hb (by simp; exact hk) with h | h
          · exact .inl h
          · exact .inr ((hkk _).2 (.inr h))
      · intro q sq e hb _
        rcases hc.scqW q sq e hb (by simp) with h | h
        · exact .inl h
        · exact .inr ((hkk _).2 (.inr h))
    · rename_i hcond
      refine plain ?_
      intro op' e hb
      rw [hop] at e; injection e with e; subst e
      by_cases hw0 : op.waiters = 0
      · refine .inr ?_
        cases hh : s.hasCleanup (.op o) with
        | true => exact (hasCleanup_iff _ _).1 hh
        | false => exact absurd ⟨hw0, by simp [hb], by simp [hh]⟩ hcond
      · exact .inl (Nat.pos_of_ne_zero hw0)
  · rename_i hop
    refine plain ?_
    intro op e; rw [hop] at e; cases e

/-- changing the waiter count of one operation leaves everything but its own "waiters or entry" clause -/
theorem setWaiters_cinv {s s' : State} {o : Nat} {op : Op} {n : Nat} (hk : KeysOK s) (hc : CInv { op := some o } s)
    (hop : s.op? o = some op) (hno : ¬ hasK s' (.op o))
    (h1 : ∀ k, hasK s' k → hasK s k) (h2 : ∀ k, k ≠ .op o → hasK s k → hasK s' k)
    (hu : (s'.cleanup.map (·.kind)).Nodup)
    (hops : s'.ops = aset op.name { op with waiters := n } s.ops)
    (hw : s'.workers = s.workers) (hq : s'.scqs = s.scqs) (ht : s'.tasks = s.tasks) :
    CInv { op := some o } s' := by
  have hname := (hk.oname o op hop).1
  have hopl : ∀ k, s'.op? k = if o = k then some { op with waiters := n } else s.op? k := by
    intro k; simp [State.op?, hops, alookup_aset, hname]
  have hscq : ∀ q', s'.scq? q' = s.scq? q' := by intro q'; simp [State.scq?, hq]
  have htk : ∀ k, s'.task? k = s.task? k := by intro k; simp [State.task?, ht]
  refine ⟨hu, ?_, ?_, ?_, ?_, ?_, ?_, ?_, ?_, ?_, ?_, (fun _ hq' => nomatch hq'), (fun _ _ hq' => nomatch hq')⟩
  · intro wk hm hi hh; rw [hw] at hm; exact hc.wIn wk hm hi (h1 _ hh)
  · intro wk hm hi hx; rw [hw] at hm; exact h2 _ (by simp) (hc.wOut wk hm hi hx)
  · intro q w hh; rw [hw]; exact hc.eW q w (h1 _ hh)
  · intro o' hh
    have hne : ¬ o = o' := by intro e; subst e; exact hno hh
    obtain ⟨op', e, a, b⟩ := hc.eO o' (h1 _ hh)
    exact ⟨op', by rw [hopl]; simp [hne, e], a, b⟩
  · intro q hh; rw [hw, hscq]; exact hc.eS q (h1 _ hh)
  · intro k op' e hb
    rw [hopl] at e; rw [htk]
    split at e
    · rename_i hk'; subst hk'; injection e with e; subst e; exact hc.opBg o op hop hb
    · exact hc.opBg k op' e hb
  · intro k op' e hb hx
    rw [hopl] at e
    have hne : ¬ o = k := by intro e'; subst e'; simp at hx
    simp only [hne, if_false] at e
    rcases hc.opFg k op' e hb hx with h | h
    · exact .inl h
    · exact .inr (h2 _ (by simp; exact fun e' => hne e'.symm) h)
  · intro k op' e
    rw [hopl] at e; rw [htk]
    split at e
    · rename_i hk'; subst hk'; injection e with e; subst e; exact hc.opT o op hop
    · exact hc.opT k op' e
  · intro q sq e hb hx
    rw [hscq] at e; rw [hw]
    rcases hc.scqW q sq e hb hx with h | h
    · exact .inl h
    · exact .inr (h2 _ (by simp) h)
  · intro wk hm; rw [hw] at hm; rw [hscq]; exact hc.wScq wk hm

/-- `waitExecution` entry: pending cleanup cancelled, waiter counted -/
theorem attachS_cinv {s : State} {o : Nat} {op : Op} (hk : KeysOK s) (hc : CInv { op := some o } s)
    (hop : s.op? o = some op) : CInv noEx (attachS s o op) := by
  have hkk : ∀ k, hasK (attachS s o op) k ↔ k ≠ .op o ∧ hasK s k := fun k => hasK_remove _ _ _
  have hname := (hk.oname o op hop).1
  have h := setWaiters_cinv (s' := attachS s o op) (n := op.waiters + 1) hk hc hop (fun hh => ((hkk _).1 hh).1 rfl)
    (fun k hh => ((hkk k).1 hh).2) (fun k hne hh => (hkk k).2 ⟨hne, hh⟩)
    (List.Nodup.sublist (List.Sublist.map _ List.filter_sublist) hc.uniq) rfl rfl rfl rfl
  refine ⟨h.uniq, h.wIn, fun wk hm hi _ => h.wOut wk hm hi (by simp), h.eW, h.eO, h.eS, h.opBg, ?_, h.opT,
    fun q sq e hb _ => h.scqW q sq e hb (by simp), h.wScq, (fun _ hq => nomatch hq), (fun _ _ hq => nomatch hq)⟩
  intro k op' e hb _
  by_cases hko : k = o
  · subst hko
    have : (attachS s k op).op? k = some { op with waiters := op.waiters + 1 } := by
      simp [attachS, State.op?, alookup_aset, hname]
    rw [this] at e; injection e with e; subst e
    exact .inl (Nat.succ_pos _)
  · exact h.opFg k op' e hb (by simp; exact hko)

theorem sendDone_cinv {s : State} {c o : Nat} {op : Op} (t : Task) (r : Resp) (hk : KeysOK s) (hc : CInv noEx s)
    (hop : s.op? o = some op) (hw : op.waiters ≠ 0) : CInv noEx (sendDone s c o op t r) := by
  have hnoe : ¬ hasK s (.op o) := by
    intro hh; obtain ⟨op', e, a, _⟩ := hc.eO o hh; rw [hop] at e; injection e with e; subst e; exact hw a
  let S1 : State := (emit (emit (dropStream s c) (.msg c o t.stage true r.code r.tok)) (.ret c cOK)).setOp
      { op with waiters := op.waiters - 1 }
  have h1 : CInv { op := some o } S1 :=
    setWaiters_cinv (s' := S1) (n := op.waiters - 1) hk (hc.exempt (some o)) hop hnoe (fun _ h => h) (fun _ _ h => h)
      hc.uniq rfl rfl rfl rfl
  exact maybeStartCleanup_cinv h1 hnoe

theorem leaveS_cinv {s : State} {c : Nat} {st : Stream} {op : Op} (code : Nat) (hk : KeysOK s) (hc : CInv noEx s)
    (hop : s.op? st.op = some op) (hw : op.waiters ≠ 0) : CInv noEx (leaveS s c st op code) := by
  have hnoe : ¬ hasK s (.op st.op) := by
    intro hh; obtain ⟨op', e, a, _⟩ := hc.eO _ hh; rw [hop] at e; injection e with e; subst e; exact hw a
  let S1 : State := (dropStream s c).setOp { op with waiters := op.waiters - 1 }
  have h1 : CInv { op := some st.op } S1 :=
    setWaiters_cinv (s' := S1) (n := op.waiters - 1) hk (hc.exempt (some st.op)) hop hnoe (fun _ h => h) (fun _ _ h => h)
      hc.uniq rfl rfl rfl rfl
  exact (maybeStartCleanup_cinv h1 hnoe).frame (CFrame.of_same rfl rfl rfl rfl rfl)

theorem streamSend_kwc {s s' : State} {c o : Nat} (hh : streamSend s c o = .ok s') (hi : KWC noEx s) : KWC noEx s' := by
  refine ⟨streamSend_kw hh hi.1, ?_⟩
  obtain ⟨op, t, hop, _, ⟨r, _, hw, rfl⟩ | ⟨_, rfl⟩⟩ := streamSend_ok hh
  · exact sendDone_cinv t r hi.1.1 hi.2 hop hw
  · exact hi.2.frame (CFrame.of_same rfl rfl rfl rfl rfl)

theorem streamAttach_kwc {s s' : State} {c o : Nat} (hh : streamAttach s c o = .ok s')
    (hi : KW s ∧ CInv { op := some o } s) : KWC noEx s' := by
  obtain ⟨op, hop, h1⟩ := streamAttach_ok hh
  have hkA : KW (attachS s o op) := by
    refine KWStep.of (s := s) (s' := attachS s o op) (allow := True) ?_ (fun _ hw => winv_same hw rfl rfl rfl rfl) hi.1
    intro hk
    have hname := (hk.oname o op hop).1
    exact TStep.of_op (o2 := { op with waiters := op.waiters + 1 }) hop rfl rfl id rfl (by simp [attachS, hname]) rfl rfl hk
  exact streamSend_kwc h1 ⟨hkA, attachS_cinv hi.1.1 hi.2 hop⟩

theorem streamLeave_kwc {s s' : State} {c code : Nat} (hh : streamLeave s c code = .ok s') (hi : KWC noEx s) :
    KWC noEx s' := by
  refine ⟨streamLeave_kw hh hi.1, ?_⟩
  obtain ⟨st, op, _, hop, hw, rfl⟩ := streamLeave_ok hh
  exact leaveS_cinv code hi.1.1 hi.2 hop hw

theorem streamWake_kwc {h : Hints} {s s' : State} {now c reason : Nat}
    (hh : streamWake h s now c reason = .ok s') (hi : KWC noEx s) : KWC noEx s' := by
  obtain ⟨s1, st, h1, _, ⟨_, h3⟩ | ⟨_, _, h3⟩⟩ := streamWake_ok hh
  · exact streamLeave_kwc h3 (enter_kwc hi h1)
  · exact streamSend_kwc h3 (enter_kwc hi h1)

theorem waitArrive_kwc {h : Hints} {s s' : State} {now c name : Nat}
    (hh : waitArrive h s now c name = .ok s') (hi : KWC noEx s) : KWC noEx s' := by
  obtain ⟨s1, h1, ⟨_, rfl⟩ | ⟨op, _, h2⟩⟩ := waitArrive_ok hh
  · have := enter_kwc hi h1
    exact ⟨KWStep.of_same (s := s1) rfl rfl rfl rfl rfl rfl this.1, this.2.frame (CFrame.of_same rfl rfl rfl rfl rfl)⟩
  · have := enter_kwc hi h1
    exact streamAttach_kwc h2 ⟨this.1, this.2.exempt _⟩

end BbRe.Lemmas.SchedLive
