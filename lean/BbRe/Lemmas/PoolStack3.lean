import BbRe.Lemmas.PoolStack2
import BbRe.Lemmas.PoolStackSub
import BbRe.Lemmas.FilePoolWriteAt
/-!
The consistency flag of `Model/PoolStack.lean` is never raised: `run_notbroken`.
-/
namespace BbRe.Lemmas.PoolStack
open BbRe BbRe.PoolStack BbRe.FilePool BbRe.Lemmas.FilePool

/-- `syncFree` does not raise the flag when the file layer holds only what it held or was handed. -/
theorem syncFree_noflag {n : Nat} {bm0 bm : Bitmap.State} {as : List AllocAns} {before after : List Nat}
    (h : AnsOk n bm0 bm as) (hb : ∀ s, Bitmap.abs n bm0 s = before.contains s) (hnd : before.Nodup)
    (hsub : ∀ s ∈ after, s ∈ before ∨ s ∈ ansSectors as) :
    (syncFree bm (ansSectors as ++ before) after).2 = false := by
  have habs : ∀ s, Bitmap.abs n bm s = true ↔ s ∈ ansSectors as ++ before := by
    intro s
    rw [h.abs s, hb s]
    simp [or_comm]
  have hheld : (ansSectors as ++ before).Nodup := by
    rw [List.nodup_append]
    refine ⟨h.nodup, hnd, ?_⟩
    intro a ha b hb' hab
    subst hab
    have := h.fresh a ha
    rw [hb a] at this
    simp at this
    exact this hb'
  have hall : (after.all fun s => (ansSectors as ++ before).contains s) = true := by
    rw [List.all_eq_true]
    intro s hs
    rcases hsub s hs with h' | h' <;> simp [h']
  have hpre : AllocSpec.FreeListPre (Bitmap.abs n bm)
      ((ansSectors as ++ before).filter fun s => !after.contains s) := by
    refine ⟨?_, ?_⟩
    · intro s hs _
      exact (habs s).2 (List.mem_filter.1 hs).1
    · exact (hheld.sublist List.filter_sublist).sublist List.filter_sublist
  obtain ⟨st', e, _, _⟩ := Lemmas.Bitmap.freeList_ok_spec n bm _ h.inv hpre
  unfold syncFree
  rw [if_pos hall, e]

theorem base_notbroken {st : PoolStack.State} (h : Coupled st) (hb : st.broken = false) (op : Op) (inp : Inputs) :
    (base st op inp).1.broken = false := by
  have hA := answersFor_ok st op inp h.bmInv
  have hsub := step_allocd_sub st.fp op { answers := (answersFor st op inp).2, faults := inp.faults }
  have := syncFree_noflag hA h.agree h.fpInv.allocNodup hsub
  unfold base
  dsimp only
  rw [hb, this]
  rfl

/-- the file layer never reports more bytes written than it was given -/
theorem fp_write_le {st : FilePool.State} (hinv : Inv st) (i : Nat) (off : Int) (p : List Byte) (o : Oracle)
    (n : Nat) (err : Option Err) (hout : (FilePool.step st (.write i off p) o).2 = .wrote n err) :
    n ≤ p.length := by
  unfold FilePool.step at hout
  dsimp only at hout
  split at hout
  · cases hout
  · rename_i f hf
    unfold finish at hout
    split at hout
    · simp only [Out.wrote.injEq] at hout
      obtain ⟨rfl, _⟩ := hout
      by_cases hneg : off < 0
      · rw [writeAt_neg _ _ hneg]; exact Nat.zero_le _
      · have hfi := file?_some hf
        obtain ⟨m, rfl⟩ := Int.eq_ofNat_of_zero_le (Int.not_lt.1 hneg)
        exact (writeAt_content (O := Oth st i) (c := st.cfg) (f := f) (e := st.env o) p m hinv.ssPos
          (inv_part hinv hfi.1) hinv.noDoubleFree).2.1
    · cases hout

theorem settle_broken {r : PoolStack.State × Out × List AllocAns} {q : Quota.State} {qop : Quota.Op}
    (h : (Quota.step q qop).isSome) : (settle r q qop).1.broken = r.1.broken := by
  unfold settle
  split
  · rfl
  · rename_i hn; rw [hn] at h; cases h

theorem step_notbroken {st : PoolStack.State} (h : Coupled st) (hb : st.broken = false) (op : Op) (inp : Inputs) :
    (PoolStack.step st op inp).1.broken = false := by
  have hbase := base_notbroken h hb op inp
  unfold PoolStack.step
  split
  · dsimp only
    split
    · exact base_notbroken h hb _ inp
    · exact hb
  · split
    · exact base_notbroken h hb _ inp
    · exact hb
  · split
    · exact base_notbroken h hb _ inp
    · exact hb
  · split
    · exact base_notbroken h hb _ inp
    · exact hb
  · rename_i i off p
    split
    · rename_i fsize hl
      split
      · dsimp only
        split
        · rename_i n err hout
          rw [settle_broken]
          · exact base_notbroken h hb _ inp
          · have hle := fp_write_le h.fpInv i off p _ n err hout
            unfold Quota.step
            dsimp only
            rw [hl]
            dsimp only
            rw [if_pos hle]
            rfl
        · exact base_notbroken h hb _ inp
      · exact hb
    · exact hb
  · rename_i i size
    split
    · rename_i fsize hl
      dsimp only
      split
      · split
        · rw [settle_broken]
          · exact base_notbroken h hb _ inp
          · unfold Quota.step; dsimp only; rw [hl]; rfl
        · exact base_notbroken h hb _ inp
      · exact hb
    · exact hb
  · rename_i i
    split
    · rename_i fsize hl
      dsimp only
      split
      · rw [settle_broken]
        · exact base_notbroken h hb _ inp
        · unfold Quota.step; dsimp only; rw [hl]; rfl
      · exact base_notbroken h hb _ inp
    · exact hb

theorem run_good (ops : List (Op × Inputs)) : ∀ (st : PoolStack.State), Coupled st → st.broken = false →
    Coupled (PoolStack.run st ops) ∧ (PoolStack.run st ops).broken = false := by
  induction ops with
  | nil => intro st h hb; exact ⟨h, hb⟩
  | cons x xs ih =>
    intro st h hb
    have hb' := step_notbroken h hb x.1 x.2
    exact ih _ (step_coupled h x.1 x.2 hb') hb'

/-- **The consistency flag is never raised.** -/
theorem run_notbroken (c : Cfg) (hss : 0 < c.ss) (mf mb : Nat) (ops : List (Op × Inputs)) :
    Coupled (PoolStack.run (PoolStack.init c mf mb) ops) ∧
      (PoolStack.run (PoolStack.init c mf mb) ops).broken = false :=
  run_good ops _ (coupled_init c hss mf mb) rfl

end BbRe.Lemmas.PoolStack
