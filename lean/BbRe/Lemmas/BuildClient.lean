import BbRe.Model.BuildClient
/-!
Invariants of `Model/BuildClient.lean` and their preservation by every event.
The property theorems in `Properties/C08.lean` are read off `Inv`.
-/
namespace BbRe.Lemmas.BuildClient
open BbRe.BuildClient

/-- Messages sent (or being sent) by the goroutine that the worker has not taken yet. -/
def pending (e : Exec) : List Msg := e.buf ++ e.blocked.toList

/-- Well-formedness of an executor goroutine and its channel. -/
structure ExecWF (e : Exec) : Prop where
  cap : e.buf.length ≤ chanCap
  closedRet : e.closed = true → e.blocked = none ∧ e.returned.isSome = true
  dig : ∀ m ∈ pending e, m.d = e.digest
  fifo : e.received ++ updsOf (pending e) = e.emitted
  comp : ∀ m ∈ pending e, ∀ r, m.p = .completed r → e.returned = some r

/-- What every `sent` entry of the log satisfies (all of C08's statements about requests). -/
def SentOK (r : Request) (sn : Snap) : Prop :=
  (r.state = .idle → sn.live = 0) ∧
  (∀ d p, r.state = .executing d p → ∃ e, sn.last = some e ∧ e.digest = d ∧
      (∀ x, p = .completed x → e.returned = some x) ∧
      (∀ u, p = .upd u → e.received.getLast? = some u ∧ e.received <+: e.emitted)) ∧
  (∀ d x, r.state = .executing d (.completed x) → x.ok = false → r.preferIdle = true) ∧
  (r.state = .idle → sn.mayThink.isSome = true → r.preferIdle = true) ∧
  (r.state = .idle → r.preferIdle = false → sn.readyChecked = true) ∧
  (sn.cancelled = true → r.preferIdle = true) ∧
  ((∃ ts, sn.lastReply = some (.reply (some ts) .idle)) → r.state = .idle)

def SpawnOK (d : Digest) (sn : Snap) : Prop :=
  sn.live = 0 ∧ ∃ ts, sn.lastReply = some (.reply (some ts) (.execute (.ok d)))

def RetOK (mt : Bool) (sn : Snap) : Prop :=
  mt = true → sn.mayThink = none ∨ ∃ t, sn.mayThink = some t ∧ sn.now > t

def ObsOK : Obs → Prop
  | .sent r sn => SentOK r sn
  | .spawn _ d sn => SpawnOK d sn
  | .ret mt _ sn => RetOK mt sn
  | _ => True

/-- Trace form of "from the moment shutdown began every request asks to be left
idle": every `sent` entry after a `cancel` entry has `PreferBeingIdle`. -/
def SentAfterCancel (l : List Obs) : Prop :=
  ∀ l1 l2, l = l1 ++ Obs.cancel :: l2 → ∀ r sn, Obs.sent r sn ∈ l2 → r.preferIdle = true

/-- Invariant of the ghost log (`c` = the thread's context is cancelled). -/
def LogInv (l : List Obs) (c : Bool) : Prop :=
  (∀ o ∈ l, ObsOK o) ∧ (Obs.cancel ∈ l → c = true) ∧ SentAfterCancel l

def ReqHonest (s : State) : Prop :=
  match s.req with
  | .idle => s.cur = none
  | .executing d p => ∃ e, lastExec s = some e ∧ e.digest = d ∧
      (∀ r, p = .completed r → e.returned = some r) ∧
      (∀ u, p = .upd u → (∀ k, s.pc ≠ .drain k) → e.received.getLast? = some u)

structure Inv (s : State) : Prop where
  retired : ∀ e ∈ s.retired, e.closed = true ∧ e.received <+: e.emitted
  curWF : ∀ e, s.cur = some e → ExecWF e
  honest : ReqHonest s
  readyNone : s.pc = .ready → s.mayThink = none
  selectRc : ∀ rc, s.pc = .select rc → rc = true ∨ s.mayThink.isSome = true
  drainStart : ∀ d, s.pc = .drain (.start d) →
    ∃ ts, s.lastReply = some (.reply (some ts) (.execute (.ok d)))
  drainIdle : s.pc = .drain .idle → ∃ ts, s.lastReply = some (.reply (some ts) .idle)
  toldIdle : (∃ ts, s.lastReply = some (.reply (some ts) .idle)) →
    s.pc = .drain .idle ∨ (s.req = .idle ∧ s.mayThink = none ∧ s.cur = none)
  logOK : LogInv s.log s.cancelled

/-! ### basic facts -/

theorem filter_closed_nil {l : List Exec} (h : ∀ e ∈ l, e.closed = true ∧ e.received <+: e.emitted) :
    (l.filter (fun e => !e.closed)) = [] := by
  induction l with
  | nil => rfl
  | cons a t ih =>
    have ha := (h a (by simp)).1
    simp [List.filter, ha]
    intro e he
    exact (h e (by simp [he])).1

theorem live_cur_none {s : State} (h : Inv s) (hc : s.cur = none) : live s = 0 := by
  simp [live, hc, filter_closed_nil h.retired]

theorem live_le_one {s : State} (h : Inv s) : live s ≤ 1 := by
  unfold live
  rw [filter_closed_nil h.retired]
  cases s.cur with
  | none => simp
  | some e => simp [execLive]; split <;> omega

theorem updsOf_append (a b : List Msg) : updsOf (a ++ b) = updsOf a ++ updsOf b := by
  simp [updsOf]

theorem updsOf_nil : updsOf [] = [] := rfl

theorem updsOf_cons (m : Msg) (l : List Msg) : updsOf (m :: l) = updOf m ++ updsOf l := by
  simp [updsOf]

theorem applyMsgs_append (req : ReqState) (a : List Msg) (m : Msg) :
    applyMsgs req (a ++ [m]) = .executing m.d m.p := by
  induction a generalizing req with
  | nil => rfl
  | cons x t ih => simp [applyMsgs, ih]

theorem inv_init (t0 : Nat) : Inv (init t0) := by
  refine ⟨?_, ?_, ?_, ?_, ?_, ?_, ?_, ?_, ?_⟩ <;> simp [init, ReqHonest, LogInv, SentAfterCancel]

end BbRe.Lemmas.BuildClient
